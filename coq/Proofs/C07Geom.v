(* C07, part 1: every accessor-producing request (Impl/Volatile.v: slices, typed / atomic / array
   references, MmapRegion, GuestRegionMmap) returns - for ALL offsets, counts and indices - in both
   build profiles, with the same answer in both; the one Panic is ref_at with index >= nelem. *)
From VM Require Import Prelude.MachInt Prelude.Outcome Impl.Volatile Spec.C01 Proofs.C01.

(* the documented panic: indexing an element array out of range *)
Definition documented_req (p : accessor) (op : dop) : Prop :=
  exists a i, p = AArr a /\ op = DRefAt i /\ va_nelem a <= i.

(* a closed outcome: the same in both build profiles, and a value or the documented panic *)
Definition closed_out {A} (f : mode -> outcome A) (doc : Prop) : Prop :=
  exists x, (forall m, f m = x) /\ ((exists r, x = Val r) \/ (x = Panic 1135 /\ doc)).

Lemma closed_val {A} (f : mode -> outcome A) doc r : (forall m, f m = Val r) -> closed_out f doc.
Proof. intros H. exists (Val r). split; [exact H|left; eexists; reflexivity]. Qed.

Lemma lift_v_val {X} (f : X -> accessor) r : exists r', lift_v f (Val r) = Val r'.
Proof. unfold lift_v. cbn [bind]. destruct r; eexists; reflexivity. Qed.
Lemma lift_g_val {X} (f : X -> accessor) r : exists r', lift_g f (Val r) = Val r'.
Proof. unfold lift_g. cbn [bind]. destruct r; eexists; reflexivity. Qed.

Lemma std_gs_val A L off cnt : exists r, std_gs A L off cnt = Val r /\
  forall s, r = Ok s -> vs_size s = cnt.
Proof.
  unfold std_gs. eexists. split; [reflexivity|]. intros s.
  destruct (W64 <=? off + cnt); [discriminate|]. destruct (L <? off + cnt); [discriminate|].
  intros E; inversion E; reflexivity.
Qed.

Section VMT.
  Variables (gs : mode -> get_slice_fn) (A L : N).
  Hypothesis Hgs : forall m off cnt, gs m off cnt = std_gs A L off cnt.
  Hypothesis HAL : A + L < W64.

  Lemma aligned_body_closed site T off k : e_align T = 2 ^ k ->
    exists r, forall m, vm_aligned_body site m (gs m) T off = Val r.
  Proof.
    intros Hk. unfold vm_aligned_body.
    destruct (std_gs_val A L off (e_size T)) as (r & E & Hsz).
    destruct r as [slice|e].
    - destruct (N.eqb_spec (vs_addr slice mod 2 ^ k) 0) as [Ha|Ha].
      + exists (Ok (TR (vs_addr slice) (e_size T) (e_align T))). intros m. rewrite Hgs, E. cbn [bind].
        rewrite Hk, vs_check_alignment_eq. destruct (N.eqb_spec (vs_addr slice mod 2 ^ k) 0); [|contradiction].
        cbn [bind]. unfold vs_len. rewrite (Hsz slice eq_refl), N.eqb_refl. reflexivity.
      + exists (Err (EMisaligned (vs_addr slice) (2 ^ k))). intros m. rewrite Hgs, E. cbn [bind].
        rewrite Hk, vs_check_alignment_eq. destruct (N.eqb_spec (vs_addr slice mod 2 ^ k) 0); [contradiction|].
        reflexivity.
    - exists (Err e). intros m. rewrite Hgs, E. reflexivity.
  Qed.

  Lemma derive_vm_closed op : op_wf op -> exists r, forall m, derive_vm m (gs m) L op = Val r.
  Proof.
    intros Hwf. destruct op; cbn [derive_vm]; try (eexists; intros; reflexivity).
    - (* get_slice *)
      destruct (std_gs_val A L offset count) as (r & E & _).
      destruct (lift_v_val ASlice r) as (r' & E'). exists r'. intros m. rewrite Hgs, E. exact E'.
    - (* as_volatile_slice *)
      destruct (std_gs_cases A L 0 L HAL) as [[_ E]|[Hf _]]; [|lia].
      eexists. intros m. unfold vm_as_volatile_slice. rewrite Hgs, E. reflexivity.
    - (* get_ref *)
      destruct (std_gs_val A L offset (e_size T)) as (r & E & Hsz). destruct r as [slice|e].
      + eexists. intros m. unfold lift_v, vm_get_ref. rewrite Hgs, E. cbn [bind]. unfold vs_len.
        rewrite (Hsz slice eq_refl), N.eqb_refl. reflexivity.
      + eexists. intros m. unfold lift_v, vm_get_ref. rewrite Hgs, E. reflexivity.
    - (* get_array_ref *)
      unfold lift_v, vm_get_array_ref.
      destruct (if n <=? ISZ_MAX then checked_mul_isize n (e_size T) else None) as [nb|].
      + destruct (std_gs_val A L offset nb) as (r & E & Hsz). destruct r as [slice|e].
        * eexists. intros m. rewrite Hgs, E. cbn [bind]. unfold vs_len.
          rewrite (Hsz slice eq_refl), N.eqb_refl. reflexivity.
        * eexists. intros m. rewrite Hgs, E. reflexivity.
      + eexists. intros m. reflexivity.
    - destruct Hwf as [k Hk]. destruct (aligned_body_closed 202 T offset k Hk) as (r & E).
      destruct (lift_v_val ATyped r) as (r' & E'). exists r'. intros m. unfold vm_aligned_as_ref. rewrite E. exact E'.
    - destruct Hwf as [k Hk]. destruct (aligned_body_closed 235 T offset k Hk) as (r & E).
      destruct (lift_v_val ATyped r) as (r' & E'). exists r'. intros m. unfold vm_aligned_as_mut. rewrite E. exact E'.
    - destruct Hwf as [k Hk]. destruct (aligned_body_closed 264 T offset k Hk) as (r & E).
      destruct (lift_v_val AAtomic r) as (r' & E'). exists r'. intros m. unfold vm_get_atomic_ref. rewrite E. exact E'.
  Qed.
End VMT.

(* one request on any accessor *)
Lemma derive_closed p op : acc_valid p -> op_wf op ->
  closed_out (fun m => derive m p op) (documented_req p op).
Proof.
  intros [Hv HvI] Hwf.
  destruct p as [s|r|a|t|t|h|r|g]; cbn [acc_base acc_len] in Hv, HvI.
  - (* slice *)
    assert (HVM : closed_out (fun m => derive_vm m (vs_get_slice m s) (vs_len s) op) (documented_req (ASlice s) op)).
    { destruct (derive_vm_closed (fun m => vs_get_slice m s) (vs_addr s) (vs_size s)
                  (fun m off cnt => vs_get_slice_eq m s off cnt) Hv op Hwf) as (r & E).
      apply closed_val with (r := r). exact E. }
    destruct op; cbn [derive]; try exact HVM.
    + (* offset *)
      destruct (lift_v_val ASlice
                  (if W64 <=? vs_addr s + count then Err (EOverflow (vs_addr s) count)
                   else if vs_size s <? count then Err (EOutOfBounds (vs_addr s + count))
                   else Ok (VS (vs_addr s + count) (vs_size s - count)))) as (r' & E').
      apply closed_val with (r := r'). intros m. rewrite vs_offset_eq. exact E'.
    + destruct (std_gs_val (vs_addr s) (vs_size s) offset count) as (r & E & _).
      destruct (lift_v_val ASlice r) as (r' & E').
      apply closed_val with (r := r'). intros m. rewrite vs_subslice_eq, E. exact E'.
    + destruct (lift_v_val (fun x => ASlice (fst x))
                  (if W64 <=? vs_addr s + mid then Err (EOverflow (vs_addr s) mid)
                   else if vs_size s <? mid then Err (EOutOfBounds (vs_addr s + mid))
                   else Ok (VS (vs_addr s) mid, VS (vs_addr s + mid) (vs_size s - mid)))) as (r' & E').
      apply closed_val with (r := r'). intros m. rewrite vs_split_at_eq. exact E'.
    + destruct (lift_v_val (fun x => ASlice (snd x))
                  (if W64 <=? vs_addr s + mid then Err (EOverflow (vs_addr s) mid)
                   else if vs_size s <? mid then Err (EOutOfBounds (vs_addr s + mid))
                   else Ok (VS (vs_addr s) mid, VS (vs_addr s + mid) (vs_size s - mid)))) as (r' & E').
      apply closed_val with (r := r'). intros m. rewrite vs_split_at_eq. exact E'.
    + eapply closed_val. intros m. reflexivity.
    + destruct ((offset + count <=? vs_size s) && (count <=? ISZ_MAX)).
      * destruct (bv_from_slice T (vs_addr s + offset) count); eapply closed_val; intros m; reflexivity.
      * eapply closed_val. intros m. reflexivity.
  - (* VolatileRef *)
    destruct op; cbn [derive]; eapply closed_val; intros m; reflexivity.
  - (* VolatileArrayRef *)
    cbn [va_addr va_nelem va_esz] in Hv, HvI.
    destruct op; cbn [derive]; try (eapply closed_val; intros m; reflexivity).
    + destruct (N.ltb_spec index (va_nelem a)) as [Hi|Hi].
      * apply closed_val with (r := Ok (ARef (VR (va_addr a + va_esz a * index) (va_esz a)))).
        intros m. rewrite va_ref_at_eq by assumption.
        destruct (N.ltb_spec index (va_nelem a)); [reflexivity|lia].
      * exists (Panic 1135). split.
        -- intros m. rewrite va_ref_at_eq by assumption.
           destruct (N.ltb_spec index (va_nelem a)); [lia|reflexivity].
        -- right. split; [reflexivity|]. exists a, index. auto.
    + apply closed_val with (r := Ok (ASlice (VS (va_addr a) (va_nelem a * va_esz a)))).
      intros m. rewrite va_to_slice_eq by lia. reflexivity.
  - eapply closed_val; intros m; reflexivity.
  - eapply closed_val; intros m; reflexivity.
  - eapply closed_val; intros m; reflexivity.
  - (* MmapRegion *)
    cbn [derive].
    destruct (derive_vm_closed (fun m => mr_get_slice m r) (rg_addr r) (rg_size r)
                (fun m off cnt => mr_get_slice_eq m r off cnt) Hv op Hwf) as (x & E).
    apply closed_val with (r := x). exact E.
  - (* GuestRegionMmap *)
    destruct op; cbn [derive]; try (eapply closed_val; intros m; reflexivity).
    + destruct (std_gs_val (rg_addr (gr_map g)) (rg_size (gr_map g)) offset count) as (r & E & _).
      destruct r as [sl|e].
      * apply closed_val with (r := Ok (ASlice sl)). intros m. unfold lift_g, gr_get_slice.
        rewrite mr_get_slice_eq, E. reflexivity.
      * apply closed_val with (r := Err (DG (gerr_of_verr e))). intros m. unfold lift_g, gr_get_slice.
        rewrite mr_get_slice_eq, E. reflexivity.
    + destruct (gr_get_host_address g addr); eapply closed_val; intros m; reflexivity.
    + destruct (std_gs_val (rg_addr (gr_map g)) (rg_size (gr_map g)) 0 (gr_len g)) as (r & E & _).
      destruct r as [sl|e].
      * apply closed_val with (r := Ok (ASlice sl)). intros m. unfold lift_g, gr_as_volatile_slice, gr_get_slice.
        rewrite mr_get_slice_eq, E. reflexivity.
      * apply closed_val with (r := Err (DG (gerr_of_verr e))). intros m.
        unfold lift_g, gr_as_volatile_slice, gr_get_slice. rewrite mr_get_slice_eq, E. reflexivity.
Qed.

(* ---- the statements used by Properties/C07.v ---- *)
Lemma derive_total_lemma : forall m p op, acc_valid p -> op_wf op -> ~ documented_req p op ->
  exists r, derive m p op = Val r.
Proof.
  intros m p op Hv Hwf Hnd. destruct (derive_closed p op Hv Hwf) as (x & E & [[r ->]|[_ Hd]]).
  - exists r. apply E.
  - contradiction.
Qed.

Lemma derive_mode_indep_lemma : forall p op, acc_valid p -> op_wf op ->
  derive Debug p op = derive Release p op.
Proof.
  intros p op Hv Hwf. destruct (derive_closed p op Hv Hwf) as (x & E & _). rewrite !E. reflexivity.
Qed.

Lemma derive_panic_iff_lemma : forall m p op, acc_valid p -> op_wf op ->
  ((exists s, derive m p op = Panic s) <-> documented_req p op) /\ derive m p op <> OutOfFuel.
Proof.
  intros m p op Hv Hwf. destruct (derive_closed p op Hv Hwf) as (x & E & H). rewrite E. split.
  - split.
    + intros [s Es]. destruct H as [[r ->]|[_ Hd]]; [discriminate|exact Hd].
    + intros (a & i & -> & -> & Hi). exists 1135. rewrite <- (E m). cbn [derive].
      destruct Hv as [Hv HvI]. cbn [acc_base acc_len] in Hv, HvI.
      rewrite va_ref_at_eq by assumption. destruct (N.ltb_spec i (va_nelem a)); [lia|reflexivity].
  - destruct H as [[r ->]|[-> _]]; discriminate.
Qed.

(* chains of any length: a value, or Panic 1135 - and then some request of the chain indexed an
   array accessor out of range *)
Lemma chain_closed_lemma : forall ops p, acc_valid p -> Forall op_wf ops ->
  exists x, (forall m, derive_chain m p ops = x) /\
    ((exists r, x = Val r) \/
     (x = Panic 1135 /\ exists pre a i post, ops = pre ++ DRefAt i :: post /\
        (forall m, derive_chain m p pre = Val (Ok (AArr a))) /\ va_nelem a <= i)).
Proof.
  induction ops as [|op rest IH]; intros p Hv Hwf.
  - exists (Val (Ok p)). split; [reflexivity|left; eexists; reflexivity].
  - inversion Hwf as [|? ? Hop Hrest]; subst.
    destruct (derive_closed p op Hv Hop) as (x & E & H).
    destruct H as [[r ->]|[-> (a & i & -> & -> & Hi)]].
    + destruct r as [c|e].
      * assert (Hvc : acc_valid c).
        { pose proof (derive_contained_flat Debug p op c Hv Hop (E Debug)) as (_ & _ & X). exact X. }
        destruct (IH c Hvc Hrest) as (y & Ey & Hy).
        exists y. split; [intros m; cbn [derive_chain]; rewrite E; cbn [bind]; apply Ey|].
        destruct Hy as [Hy|[-> (pre & a & i & post & -> & Hpre & Hi)]]; [left; exact Hy|].
        right. split; [reflexivity|]. exists (op :: pre), a, i, post. split; [reflexivity|]. split; [|exact Hi].
        intros m. cbn [derive_chain]. rewrite E. cbn [bind]. apply Hpre.
      * exists (Val (Err e)). split; [intros m; cbn [derive_chain]; rewrite E; reflexivity|].
        left; eexists; reflexivity.
    + exists (Panic 1135). split; [intros m; cbn [derive_chain]; rewrite E; reflexivity|].
      right. split; [reflexivity|]. exists [], a, i, rest. split; [reflexivity|]. split; [reflexivity|exact Hi].
Qed.
