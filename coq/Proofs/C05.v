From VM Require Import Prelude.MachInt Prelude.Tok Impl.Dirty Spec.C05.

(* ------------------------------------------------------------------ the abstract bitmap *)
Lemma nthb_mapi_from {A} (f : N -> A -> bool) (l : list A) (i p : N) (g : A -> bool) (dflt : bool) :
  True -> nthb (mapi_from i f l) p =
          match nth_error l (N.to_nat p) with Some x => f (i + p) x | None => false end.
Proof.
  intros _. revert i p. induction l as [|x r IH]; intros i p; cbn [mapi_from nthb].
  - destruct (N.to_nat p); reflexivity.
  - destruct (N.eqb_spec p 0) as [->|Hp].
    + cbn. rewrite N.add_0_r. reflexivity.
    + rewrite IH. replace (N.to_nat p) with (S (N.to_nat (p - 1))) by lia. cbn [nth_error].
      replace (i + 1 + (p - 1)) with (i + p) by lia. reflexivity.
Qed.

Lemma nthb_nth_error (l : list bool) (p : N) :
  nthb l p = match nth_error l (N.to_nat p) with Some b => b | None => false end.
Proof.
  revert p. induction l as [|x r IH]; intros p; cbn [nthb].
  - destruct (N.to_nat p); reflexivity.
  - destruct (N.eqb_spec p 0) as [->|Hp]; [reflexivity|].
    rewrite IH. replace (N.to_nat p) with (S (N.to_nat (p - 1))) by lia. reflexivity.
Qed.

Lemma mapi_from_length {A B} (f : N -> A -> B) l i : length (mapi_from i f l) = length l.
Proof. revert i. induction l as [|x r IH]; intros i; cbn [mapi_from length]; [reflexivity|]. rewrite IH. reflexivity. Qed.

Lemma mark_length ps d off len v : length (mark ps d off len v) = length d.
Proof. unfold mark. destruct (len =? 0); [reflexivity|apply mapi_from_length]. Qed.

(* the page-set reading of mark: page p is affected iff it exists and lies in the inclusive page range *)
Lemma mark_spec ps d off len v p :
  nthb (mark ps d off len v) p =
  if (len =? 0) then nthb d p
  else if page_in ps off len p && (p <? N.of_nat (length d)) then v else nthb d p.
Proof.
  unfold mark. destruct (N.eqb_spec len 0) as [_|Hl]; [reflexivity|].
  rewrite (nthb_mapi_from _ d 0 p (fun b => b) false I). rewrite nthb_nth_error. rewrite N.add_0_l.
  destruct (nth_error d (N.to_nat p)) as [b|] eqn:E.
  - assert (N.to_nat p < length d)%nat by (apply nth_error_Some; congruence).
    destruct (N.ltb_spec p (N.of_nat (length d))); [|lia]. rewrite andb_true_r. reflexivity.
  - assert (length d <= N.to_nat p)%nat by (apply nth_error_None; exact E).
    destruct (N.ltb_spec p (N.of_nat (length d))); [lia|]. rewrite andb_false_r. reflexivity.
Qed.

(* when the marked byte range does not overflow, page_in is "page p overlaps [off, off+len)" *)
Lemma page_in_overlap ps off len p : 0 < ps -> 0 < len -> off + len <= W64 ->
  page_in ps off len p = true <-> exists i, off <= i < off + len /\ i / ps = p.
Proof.
  intros Hps Hl Hov. unfold page_in, saturating_add.
  replace (N.min (off + (len - 1)) (W64 - 1)) with (off + len - 1) by lia.
  rewrite andb_true_iff, !N.leb_le. split.
  - intros [H1 H2].
    (* the first byte of page p inside the range, or off itself *)
    destruct (N.le_gt_cases (p * ps) off) as [Hc|Hc].
    + exists off. split; [lia|]. apply N.le_antisymm; [exact H1|].
      apply N.div_le_lower_bound; [lia|]. rewrite N.mul_comm. exact Hc.
    + exists (p * ps). split.
      * split; [lia|].
        assert ((off + len - 1) / ps * ps <= off + len - 1) by (rewrite N.mul_comm; apply N.mul_div_le; lia).
        nia.
      * apply N.div_mul. lia.
  - intros (i & [Hi1 Hi2] & <-). split; apply N.div_le_mono; lia.
Qed.

(* ------------------------------------------------------------------ accessor invariant *)
Definition acc_inv (r : region) (a : acc) : Prop := a_off a + a_len a <= r_size r /\ a_bm a = a_off a.
Definition region_ok (r : region) : Prop :=
  0 < r_ps r /\ r_size r < W64 /\ length (r_dirty r) = N.to_nat (npages (r_size r) (r_ps r)).

Lemma bm_at_exact bm off : bm + off < W64 -> bm_at bm off = bm + off.
Proof. intros H. unfold bm_at, wrapping_add. apply N.mod_small. exact H. Qed.

Lemma root_inv r : acc_inv r (root r).
Proof. unfold acc_inv, root; cbn. split; [lia|reflexivity]. Qed.

Lemma d_sub_inv r a o c k a' : r_size r < W64 -> acc_inv r a -> d_sub a o c k = Some a' -> acc_inv r a'.
Proof.
  intros Hsz [H1 H2] H. unfold d_sub in H.
  destruct (checked_add o c) as [e|] eqn:E; [|discriminate].
  apply checked_add_Some in E. destruct E as [-> He].
  destruct (N.ltb_spec (a_len a) (o + c)); [discriminate|]. inversion H; subst; clear H.
  unfold acc_inv; cbn. split; [lia|]. rewrite H2. apply bm_at_exact. lia.
Qed.



(* the array kind records its geometry: a_len = esz * n *)
Definition kind_ok (a : acc) : Prop :=
  match a_kind a with KArr esz n => a_len a = n * esz | _ => True end.
Definition acc_ok (r : region) (a : acc) : Prop := acc_inv r a /\ kind_ok a.

Lemma d_sub_ok r a o c k a' : r_size r < W64 -> acc_inv r a ->
  (match k with KArr esz n => c = n * esz | _ => True end) ->
  d_sub a o c k = Some a' -> acc_ok r a'.
Proof.
  intros Hsz Hinv Hk H. split; [eapply d_sub_inv; eauto|].
  unfold d_sub in H. destruct (checked_add o c); [|discriminate].
  destruct (a_len a <? n); [discriminate|]. inversion H; subst. unfold kind_ok; cbn. exact Hk.
Qed.

Lemma derive_ok r a d a' : r_size r < W64 -> acc_ok r a -> derive a d = Some a' -> acc_ok r a'.
Proof.
  intros Hsz [Hinv Hk] H. pose proof Hinv as [H1 H2]. unfold derive in H.
  destruct (a_kind a) eqn:K; destruct d; try discriminate.
  - exact (d_sub_ok r a o c KSlice a' Hsz Hinv I H).
  - destruct (checked_sub (a_len a) c) as [l|] eqn:E; [|discriminate].
    apply checked_sub_Some in E. destruct E as [-> Hc]. inversion H; subst; clear H.
    split; [|exact I]. unfold acc_inv; cbn. split; [lia|]. rewrite H2. apply bm_at_exact. lia.
  - destruct (checked_sub (a_len a) mid) as [l|] eqn:E; [|discriminate].
    apply checked_sub_Some in E. destruct E as [-> Hc].
    destruct second; inversion H; subst; clear H; (split; [|exact I]); unfold acc_inv; cbn.
    + split; [lia|]. rewrite H2. apply bm_at_exact. lia.
    + split; [lia|exact H2].
  - exact (d_sub_ok r a o sz KRef a' Hsz Hinv I H).
  - destruct ((ISZ_MAX <? n) || (ISZ_MAX <? n * esz)); [discriminate|].
    exact (d_sub_ok r a o (n * esz) (KArr esz n) a' Hsz Hinv eq_refl H).
  - inversion H; subst; clear H. split; [|exact I]. unfold acc_inv; cbn. split; [lia|exact H2].
  - unfold kind_ok in Hk. rewrite K in Hk.
    destruct (N.ltb_spec i n) as [Hi|]; [|discriminate]. inversion H; subst; clear H.
    split; [|exact I]. unfold acc_inv; cbn.
    assert (esz * i + esz <= n * esz) by nia.
    split; [lia|]. rewrite H2. apply bm_at_exact. lia.
  - inversion H; subst; clear H. split; [|exact I]. unfold acc_inv; cbn. split; [lia|exact H2].
Qed.

Lemma chain_ok r ds : forall a a', r_size r < W64 -> acc_ok r a -> derive_chain a ds = Some a' -> acc_ok r a'.
Proof.
  induction ds as [|d ds IH]; intros a a' Hsz Hok H; cbn [derive_chain] in H.
  - inversion H; subst; exact Hok.
  - destruct (derive a d) as [a1|] eqn:E; [|discriminate].
    apply (IH a1 a' Hsz (derive_ok r a d a1 Hsz Hok E) H).
Qed.

(* ------------------------------------------------------------------ effects are exact *)
Definition eff_exact (r : region) (e : eff) : Prop :=
  e_moff e = e_woff e /\ e_woff e + e_mlen e <= r_size r /\ e_wn e <= e_mlen e.

Lemma weff_exact r ri a rel n : r_size r < W64 -> acc_inv r a -> rel + n <= a_len a -> eff_exact r (weff ri a rel n).
Proof.
  intros Hsz [H1 H2] H. unfold eff_exact, weff; cbn. rewrite H2. rewrite bm_at_exact by lia.
  repeat split; lia.
Qed.

Ltac effs_done := first [ apply Forall_nil | apply Forall_cons; [split; [reflexivity|]|apply Forall_nil] ].

Lemma sop_effs r ri hm a o : r_size r < W64 -> acc_ok r a ->
  Forall (fun e => e_r e = ri /\ eff_exact r e) (o_effs (run_sop ri hm a o)).
Proof.
  intros Hsz [Hinv Hk]. pose proof Hinv as [H1 H2]. unfold run_sop.
  destruct (a_kind a) eqn:K; destruct o; cbn [o_effs fail done]; try apply Forall_nil.
  - (* OWrite *) destruct (blen =? 0); [apply Forall_nil|]. destruct (N.leb_spec (a_len a) addr); [apply Forall_nil|].
    effs_done. apply weff_exact; [exact Hsz|exact Hinv|lia].
  - destruct (blen =? 0); [apply Forall_nil|]. destruct (N.leb_spec (a_len a) addr); [apply Forall_nil|].
    cbn [o_effs]. effs_done. apply weff_exact; [exact Hsz|exact Hinv|lia].
  - destruct (checked_add addr sz) as [e|] eqn:E; [|apply Forall_nil].
    apply checked_add_Some in E. destruct E as [-> He].
    destruct (N.ltb_spec (a_len a) (addr + sz)); [apply Forall_nil|].
    destruct (negb _); [apply Forall_nil|]. effs_done. apply weff_exact; [exact Hsz|exact Hinv|lia].
  - destruct (esz =? 1); [effs_done; apply weff_exact; [exact Hsz|exact Hinv|lia]|].
    destruct (N.eqb_spec esz 0); [apply Forall_nil|]. effs_done. apply weff_exact; [exact Hsz|exact Hinv|].
    assert (a_len a / esz * esz <= a_len a) by (rewrite N.mul_comm; apply N.mul_div_le; lia).
    assert (N.min blen (a_len a / esz) <= a_len a / esz) by lia. nia.
  - destruct (checked_sub (a_len a) addr) as [l|] eqn:E; [|apply Forall_nil].
    apply checked_sub_Some in E. destruct E as [-> Hc]. effs_done. apply weff_exact; [exact Hsz|exact Hinv|lia].
  - destruct (checked_add addr cnt) as [e|] eqn:E; [|apply Forall_nil].
    apply checked_add_Some in E. destruct E as [-> He].
    destruct (N.ltb_spec (a_len a) (addr + cnt)); [apply Forall_nil|].
    destruct (srclen <? cnt); [apply Forall_nil|]. effs_done. apply weff_exact; [exact Hsz|exact Hinv|lia].
  - destruct (checked_sub (a_len a) addr) as [l|] eqn:E; [|apply Forall_nil].
    apply checked_sub_Some in E. destruct E as [-> Hc]. destruct fderr; cbn [o_effs].
    + effs_done. unfold eff_exact; cbn. rewrite H2. rewrite bm_at_exact by lia. repeat split; lia.
    + effs_done. apply weff_exact; [exact Hsz|exact Hinv|lia].
  - (* OReadFromFdFault: the bytes in front of the fault are written, the whole target is marked *)
    destruct (checked_sub (a_len a) addr) as [l|] eqn:E; [|apply Forall_nil].
    apply checked_sub_Some in E. destruct E as [-> Hc].
    destruct ((N.min (a_len a - addr) cnt =? 0) || (a_off a + addr + N.min (a_len a - addr) cnt <=? fault)) eqn:G;
      cbn [o_effs done].
    + effs_done. apply weff_exact; [exact Hsz|exact Hinv|lia].
    + effs_done. apply orb_false_iff in G. destruct G as [_ G]. apply N.leb_gt in G.
      unfold eff_exact; cbn. rewrite H2. rewrite bm_at_exact by lia. repeat split; lia.
  - (* ORead .. OWriteAllTo: no effects *) destruct (blen =? 0); [apply Forall_nil|]. destruct (a_len a <=? addr); apply Forall_nil.
  - destruct (blen =? 0); [apply Forall_nil|]. destruct (a_len a <=? addr); apply Forall_nil.
  - destruct (checked_add addr sz); [|apply Forall_nil]. destruct (a_len a <? n); [apply Forall_nil|]. destruct (negb _); apply Forall_nil.
  - destruct (esz =? 1); [apply Forall_nil|]. destruct (esz =? 0); apply Forall_nil.
  - destruct (checked_sub (a_len a) addr); apply Forall_nil.
  - destruct (checked_add addr cnt); [|apply Forall_nil]. destruct (a_len a <? n); apply Forall_nil.
  - (* OWriteToFd: never marks *) destruct (checked_sub (a_len a) addr); [|apply Forall_nil]. destruct fderr; apply Forall_nil.
  - (* ORefStore *) effs_done. apply weff_exact; [exact Hsz|exact Hinv|lia].
  - (* OArrStore *) unfold kind_ok in Hk. rewrite K in Hk.
    destruct (N.ltb_spec i n); [|apply Forall_nil]. effs_done. unfold eff_exact; cbn. rewrite H2.
    assert (esz * i + esz <= n * esz) by nia.
    rewrite (bm_at_exact (a_off a) (esz * i)) by lia. rewrite bm_at_exact by lia. repeat split; lia.
  - destruct (i <? n); apply Forall_nil.
  - unfold kind_ok in Hk. rewrite K in Hk.
    destruct (esz =? 1); effs_done; (apply weff_exact; [exact Hsz|exact Hinv|]); try lia.
    assert (N.min blen n <= n) by lia. nia.
  - destruct (esz =? 1); apply Forall_nil.
Qed.

(* ------------------------------------------------------------------ state-level characterisation *)
Definition D (rs : list region) (j : nat) (p : N) : bool :=
  match nth_error rs j with Some r => r_tracked r && nthb (r_dirty r) p | None => false end.
Definition hit (rs : list region) (e : eff) (j : nat) (p : N) : bool :=
  match nth_error rs j with
  | Some r => Nat.eqb j (e_r e) && r_tracked r && negb (e_mlen e =? 0) &&
              page_in (r_ps r) (e_moff e) (e_mlen e) p && (p <? N.of_nat (length (r_dirty r)))
  | None => false end.

Lemma nth_error_upd_nth {A} (l : list A) i f j :
  nth_error (upd_nth l i f) j = if Nat.eqb i j then option_map f (nth_error l j) else nth_error l j.
Proof.
  revert i j. induction l as [|x r IH]; intros i j; cbn [upd_nth].
  - destruct j, (Nat.eqb i _); reflexivity.
  - destruct i as [|i], j as [|j]; cbn [upd_nth nth_error Nat.eqb option_map]; try reflexivity. apply IH.
Qed.

Lemma D_apply_eff rs e j p : D (apply_eff rs e) j p = D rs j p || hit rs e j p.
Proof.
  unfold D, hit, apply_eff. rewrite nth_error_upd_nth.
  destruct (Nat.eqb_spec (e_r e) j) as [<-|Hne].
  - rewrite Nat.eqb_refl. destruct (nth_error rs (e_r e)) as [r|]; cbn [option_map]; [|reflexivity].
    destruct (r_tracked r) eqn:T; cbn [andb]; [|rewrite T; reflexivity].
    unfold set_dirty; cbn [r_tracked r_dirty]. rewrite T. cbn [andb]. rewrite mark_spec.
    destruct (e_mlen e =? 0); cbn [negb andb]; [rewrite orb_false_r; reflexivity|].
    destruct (page_in _ _ _ p && (p <? _)); destruct (nthb (r_dirty r) p); reflexivity.
  - destruct (nth_error rs j) as [r|]; [|reflexivity].
    destruct (Nat.eqb_spec j (e_r e)); [congruence|]. cbn [andb]. rewrite orb_false_r. reflexivity.
Qed.

(* geometry (everything except the dirty bits' values) is untouched by marking *)
Definition geo (r : region) := (r_start r, r_size r, r_ps r, r_tracked r, length (r_dirty r)).
Lemma geo_apply_eff rs e : map geo (apply_eff rs e) = map geo rs.
Proof.
  unfold apply_eff. revert e. generalize dependent rs.
  intros rs e. generalize (e_r e). induction rs as [|x r IH]; intros i; cbn [upd_nth map]; [reflexivity|].
  destruct i as [|i]; cbn [map].
  - f_equal. destruct (r_tracked x); [|reflexivity]. unfold geo, set_dirty; cbn. rewrite mark_length. reflexivity.
  - f_equal. apply IH.
Qed.
Lemma hit_geo rs rs' e j p : map geo rs = map geo rs' -> hit rs e j p = hit rs' e j p.
Proof.
  intros H. unfold hit.
  assert (G : option_map geo (nth_error rs j) = option_map geo (nth_error rs' j)).
  { rewrite <- !nth_error_map. rewrite H. reflexivity. }
  destruct (nth_error rs j) as [r|], (nth_error rs' j) as [r'|]; cbn [option_map] in G; try discriminate; [|reflexivity].
  unfold geo in G. inversion G as [[G1 G2 G3 G4 G5]]. rewrite G3, G4, G5. reflexivity.
Qed.

Lemma existsb_hit_geo rs rs' es j p : map geo rs = map geo rs' ->
  existsb (fun e => hit rs e j p) es = existsb (fun e => hit rs' e j p) es.
Proof.
  intros H. induction es as [|e es IH]; cbn [existsb]; [reflexivity|].
  rewrite (hit_geo rs rs' e j p H), IH. reflexivity.
Qed.

Lemma D_apply_effs es : forall rs j p, D (apply_effs rs es) j p = D rs j p || existsb (fun e => hit rs e j p) es.
Proof.
  induction es as [|e es IH]; intros rs j p; cbn [apply_effs fold_left existsb].
  - rewrite orb_false_r. reflexivity.
  - change (fold_left apply_eff es (apply_eff rs e)) with (apply_effs (apply_eff rs e) es).
    rewrite IH, D_apply_eff. rewrite <- orb_assoc. f_equal. f_equal.
    apply existsb_hit_geo. apply geo_apply_eff.
Qed.

Lemma geo_apply_effs es : forall rs, map geo (apply_effs rs es) = map geo rs.
Proof.
  induction es as [|e es IH]; intros rs; cbn [apply_effs fold_left]; [reflexivity|].
  change (fold_left apply_eff es (apply_eff rs e)) with (apply_effs (apply_eff rs e) es).
  rewrite IH. apply geo_apply_eff.
Qed.

(* ------------------------------------------------------------------ soundness / precision of one effect list *)
Definition wf (rs : list region) : Prop := Forall region_ok rs.
Definition effs_ok (rs : list region) (es : list eff) : Prop :=
  Forall (fun e => exists r, nth_error rs (e_r e) = Some r /\ eff_exact r e) es.

Lemma div_lt_npages i size ps : 0 < ps -> i < size -> i / ps < npages size ps.
Proof.
  intros Hps Hi. unfold npages, div_ceil. apply N.div_lt_upper_bound; [lia|].
  pose proof (N.mul_succ_div_gt (size + ps - 1) ps ltac:(lia)). 
  assert (ps * ((size + ps - 1) / ps) + ps > size + ps - 1) by lia. nia.
Qed.

(* C05 for an effect list: every written byte is on a dirty page afterwards *)
Lemma effs_sound rs es : wf rs -> effs_ok rs es ->
  forall e, In e es -> forall r, nth_error rs (e_r e) = Some r -> r_tracked r = true ->
  forall i, e_woff e <= i < e_woff e + e_wn e ->
  i < r_size r /\ D (apply_effs rs es) (e_r e) (i / r_ps r) = true.
Proof.
  intros Hwf Hok e Hin r Hr Ht i Hi.
  unfold effs_ok in Hok. rewrite Forall_forall in Hok. destruct (Hok e Hin) as (r0 & Hr0 & Hm & Hb & Hw).
  rewrite Hr in Hr0. inversion Hr0; subst r0; clear Hr0.
  assert (Hro : region_ok r). { unfold wf in Hwf. rewrite Forall_forall in Hwf. apply Hwf. eapply nth_error_In; eauto. }
  destruct Hro as (Hps & Hsz & Hlen).
  assert (Hwn : e_wn e <= e_mlen e) by lia.
  split; [lia|]. rewrite D_apply_effs. apply orb_true_iff. right. apply existsb_exists. exists e. split; [exact Hin|].
  unfold hit. rewrite Hr, Nat.eqb_refl, Ht. cbn [andb].
  destruct (N.eqb_spec (e_mlen e) 0); [lia|]. cbn [negb andb].
  apply andb_true_iff. split.
  - apply page_in_overlap; try lia. exists i. split; [lia|reflexivity].
  - apply N.ltb_lt. rewrite Hlen, N2Nat.id. apply div_lt_npages; lia.
Qed.

(* C16 for an effect list: a page that is dirty afterwards was dirty before or overlaps the bytes an
   effect marked (= the bytes it wrote, unless it is the failed-descriptor-read exception) *)
Lemma effs_precise rs es : wf rs -> effs_ok rs es ->
  forall j p, D (apply_effs rs es) j p = true ->
  D rs j p = true \/
  exists e r i, In e es /\ e_r e = j /\ nth_error rs j = Some r /\
                e_woff e <= i < e_woff e + e_mlen e /\ i / r_ps r = p /\ i < r_size r.
Proof.
  intros Hwf Hok j p H. rewrite D_apply_effs in H. apply orb_true_iff in H. destruct H as [H|H]; [left; exact H|right].
  apply existsb_exists in H. destruct H as (e & Hin & Hh). unfold hit in Hh.
  destruct (nth_error rs j) as [r|] eqn:Hr; [|discriminate].
  repeat (apply andb_true_iff in Hh; destruct Hh as [Hh ?]).
  apply Nat.eqb_eq in Hh. subst j.
  unfold effs_ok in Hok. rewrite Forall_forall in Hok. destruct (Hok e Hin) as (r0 & Hr0 & Hm & Hb & Hw).
  rewrite Hr in Hr0. inversion Hr0; subst r0; clear Hr0.
  assert (Hro : region_ok r). { unfold wf in Hwf. rewrite Forall_forall in Hwf. apply Hwf. eapply nth_error_In; eauto. }
  destruct Hro as (Hps & Hsz & Hlen).
  match goal with Hn : negb (e_mlen e =? 0) = true |- _ => destruct (N.eqb_spec (e_mlen e) 0); [discriminate|] end.
  match goal with Hp : page_in _ _ _ p = true |- _ => apply page_in_overlap in Hp; try lia; destruct Hp as (i & Hi & Hip) end.
  exists e, r, i. rewrite <- Hm. repeat split; try assumption; try lia.
Qed.

(* marking never cleans a page *)
Lemma effs_monotone rs es j p : D rs j p = true -> D (apply_effs rs es) j p = true.
Proof. intros H. rewrite D_apply_effs, H. reflexivity. Qed.

(* ------------------------------------------------------------------ steps *)
Lemma root_ok r : acc_ok r (root r).
Proof. split; [apply root_inv|exact I]. Qed.

Lemma region_ok_of_wf rs j r : wf rs -> nth_error rs j = Some r -> region_ok r.
Proof. intros Hwf H. unfold wf in Hwf. rewrite Forall_forall in Hwf. apply Hwf. eapply nth_error_In; eauto. Qed.

Lemma find_idx_spec rs : forall a k i r, find_idx rs a k = Some (i, r) ->
  (k <= i)%nat /\ nth_error rs (i - k) = Some r /\ r_start r <= a < r_start r + r_size r.
Proof.
  induction rs as [|x t IH]; intros a k i r H; cbn [find_idx] in H; [discriminate|].
  destruct ((r_start x <=? a) && (a <? r_start x + r_size x)) eqn:E.
  - inversion H; subst. rewrite Nat.sub_diag. apply andb_true_iff in E. destruct E as [E1 E2].
    apply N.leb_le in E1. apply N.ltb_lt in E2. repeat split; auto; lia.
  - apply IH in H. destruct H as (Hk & Hn & Hr). split; [lia|]. split; [|exact Hr].
    replace (i - k)%nat with (S (i - S k)) by lia. exact Hn.
Qed.

Lemma effs_ok_app rs a b : effs_ok rs a -> effs_ok rs b -> effs_ok rs (a ++ b).
Proof. unfold effs_ok. intros. apply Forall_app. split; assumption. Qed.

Lemma g_loop_effs rs : wf rs -> forall fuel cur rem total acc,
  effs_ok rs acc -> effs_ok rs (snd (g_write_loop fuel rs cur rem total acc)).
Proof.
  intros Hwf. induction fuel as [|f IH]; intros cur rem total acc Hacc; cbn [g_write_loop]; [exact Hacc|].
  destruct (find_idx rs cur 0) as [[i r]|] eqn:F; [|exact Hacc].
  apply find_idx_spec in F. destruct F as (_ & Hn & Hr). rewrite Nat.sub_0_r in Hn.
  pose proof (region_ok_of_wf rs i r Hwf Hn) as (Hps & Hsz & Hlen).
  set (start := cur - r_start r). set (n := N.min (r_size r - start) rem).
  assert (He : effs_ok rs [weff i (root r) start n]).
  { unfold effs_ok. constructor; [|constructor]. exists r. split; [exact Hn|].
    apply weff_exact; [exact Hsz|apply root_inv|]. unfold root; cbn. unfold n, start. lia. }
  destruct (n =? 0); [exact Hacc|].
  destruct (rem - n =? 0); [cbn [snd]; apply effs_ok_app; assumption|].
  destruct (W64 <=? cur + n); [cbn [snd]; apply effs_ok_app; assumption|].
  apply IH. apply effs_ok_app; assumption.
Qed.

Lemma sop_effs_ok rs ri r hm a o : wf rs -> nth_error rs ri = Some r -> acc_ok r a ->
  effs_ok rs (o_effs (run_sop ri hm a o)).
Proof.
  intros Hwf Hn Hok. pose proof (region_ok_of_wf rs ri r Hwf Hn) as (Hps & Hsz & Hlen).
  pose proof (sop_effs r ri hm a o Hsz Hok) as H. unfold effs_ok.
  eapply Forall_impl; [|exact H]. intros e [He1 He2]. exists r. rewrite He1. split; assumption.
Qed.

Lemma gop_effs_ok rs hm o : wf rs -> effs_ok rs (o_effs (run_gop hm rs o)).
Proof.
  intros Hwf. assert (Hnil : effs_ok rs []) by constructor.
  destruct o; cbn [run_gop].
  - destruct (blen =? 0); [exact Hnil|].
    pose proof (g_loop_effs rs Hwf (S (length rs)) addr blen 0 [] Hnil) as H.
    destruct (g_write_loop _ rs addr blen 0 []) as [t effs]. cbn [snd] in H.
    destruct (t =? 0); [exact Hnil|exact H].
  - destruct (blen =? 0); [exact Hnil|].
    pose proof (g_loop_effs rs Hwf (S (length rs)) addr blen 0 [] Hnil) as H.
    destruct (g_write_loop _ rs addr blen 0 []) as [t effs]. cbn [snd] in H.
    destruct (t =? 0); [exact Hnil|exact H].
  - destruct (find_idx rs addr 0) as [[i r]|] eqn:F; [|exact Hnil].
    apply find_idx_spec in F. destruct F as (_ & Hn & _). rewrite Nat.sub_0_r in Hn.
    eapply sop_effs_ok; eauto. apply root_ok.
  - destruct (find_idx rs addr 0) as [[i r]|]; [|exact Hnil].
    destruct (N.min cnt srclen =? 0); [exact Hnil|].
    pose proof (g_loop_effs rs Hwf (S (length rs)) addr (N.min cnt srclen) 0 [] Hnil) as H.
    destruct (g_write_loop _ rs addr (N.min cnt srclen) 0 []) as [t effs]. exact H.
  - destruct (blen =? 0); [exact Hnil|].
    destruct (g_write_loop _ rs addr blen 0 []) as [t effs]. destruct (t =? 0); exact Hnil.
  - destruct (find_idx rs addr 0) as [[i r]|] eqn:F; [|exact Hnil].
    apply find_idx_spec in F. destruct F as (_ & Hn & _). rewrite Nat.sub_0_r in Hn.
    eapply sop_effs_ok; eauto. apply root_ok.
Qed.

(* slice-to-slice copies: one exact effect on the destination region *)
Lemma copy_effs_ok rs ri ch rj doff dlen : wf rs -> effs_ok rs (o_effs (run_copy rs ri ch rj doff dlen)).
Proof.
  intros Hwf. assert (Hnil : effs_ok rs []) by constructor. unfold run_copy.
  destruct (nth_error rs ri) as [r|] eqn:Hi; [|exact Hnil].
  destruct (nth_error rs rj) as [r2|] eqn:Hj; [|exact Hnil].
  destruct (derive_chain (root r) ch) as [a|]; [|exact Hnil].
  destruct (d_sub (root r2) doff dlen KSlice) as [d|] eqn:Hd; [|exact Hnil].
  pose proof (region_ok_of_wf rs rj r2 Hwf Hj) as (Hps & Hsz & Hlen).
  pose proof (d_sub_inv r2 (root r2) doff dlen KSlice d Hsz (root_inv r2) Hd) as Hinv.
  assert (Hone : effs_ok rs [weff rj d 0 (N.min (a_len a) (a_len d))]).
  { constructor; [|constructor]. exists r2. split; [exact Hj|]. apply weff_exact; [exact Hsz|exact Hinv|lia]. }
  destruct (a_kind a); try exact Hnil;
    (destruct (Nat.eqb ri rj && ranges_overlap (a_off a) (a_len a) (a_off d) (a_len d)); [exact Hnil|exact Hone]).
Qed.

Definition is_reset (s : step) : bool :=
  match s with SReset _ | SResetRange _ _ _ => true | _ => false end.

(* every non-reset step is "apply an exact effect list" *)
Lemma step_effs hm rs s rs' out : wf rs -> is_reset s = false -> run_step hm rs s = (rs', out) ->
  rs' = apply_effs rs (o_effs out) /\ effs_ok rs (o_effs out).
Proof.
  intros Hwf Hr H. assert (Hnil : effs_ok rs []) by constructor.
  destruct s as [ri ch o|o| | |ri ch rj doff dlen]; try discriminate; cbn [run_step] in H.
  - destruct (nth_error rs ri) as [r|] eqn:Hn; [|inversion H; subst; split; [reflexivity|exact Hnil]].
    destruct (derive_chain (root r) ch) as [a|] eqn:Hc; [|inversion H; subst; split; [reflexivity|exact Hnil]].
    inversion H; subst. split; [reflexivity|].
    pose proof (region_ok_of_wf rs ri r Hwf Hn) as (Hps & Hsz & Hlen).
    eapply sop_effs_ok; eauto. eapply chain_ok; eauto. apply root_ok.
  - inversion H; subst. split; [reflexivity|]. apply gop_effs_ok. exact Hwf.
  - inversion H; subst. split; [reflexivity|]. apply copy_effs_ok. exact Hwf.
Qed.

Lemma wf_geo rs rs' : map geo rs = map geo rs' -> wf rs -> wf rs'.
Proof.
  revert rs'. induction rs as [|x t IH]; intros [|y u] H Hwf; cbn [map] in H; try discriminate; [constructor|].
  inversion H as [[G1 G2 G3 G4 G5 G6]]. inversion Hwf as [|? ? Hx Ht]; subst. constructor.
  - destruct Hx as (A & B & C). unfold region_ok. rewrite <- G2, <- G3, <- G5. auto.
  - apply IH; assumption.
Qed.

Lemma geo_upd_dirty rs ri f : (forall r, length (r_dirty (f r)) = length (r_dirty r) /\ r_start (f r) = r_start r /\
   r_size (f r) = r_size r /\ r_ps (f r) = r_ps r /\ r_tracked (f r) = r_tracked r) ->
  map geo (upd_nth rs ri f) = map geo rs.
Proof.
  intros Hf. revert ri. induction rs as [|x t IH]; intros ri; cbn [upd_nth map]; [reflexivity|].
  destruct ri; cbn [map]; f_equal; [|apply IH].
  destruct (Hf x) as (A & B & C & E & F). unfold geo. rewrite A, B, C, E, F. reflexivity.
Qed.

Lemma wf_step hm rs s : wf rs -> wf (fst (run_step hm rs s)).
Proof.
  intros Hwf. destruct (is_reset s) eqn:R.
  - destruct s; try discriminate; cbn [run_step fst].
    + eapply wf_geo; [symmetry; apply geo_upd_dirty|exact Hwf]. intros r; cbn. rewrite map_length. auto.
    + eapply wf_geo; [symmetry; apply geo_upd_dirty|exact Hwf]. intros r; cbn. rewrite mark_length. auto.
  - destruct (run_step hm rs s) as [rs' out] eqn:E. cbn [fst].
    destruct (step_effs hm rs s rs' out Hwf R E) as [-> _].
    eapply wf_geo; [symmetry; apply geo_apply_effs|exact Hwf].
Qed.

(* any history keeps the state well-formed, so the step theorems apply at every step *)
Fixpoint run_steps (hm : N) (rs : list region) (ss : list step) : list region :=
  match ss with [] => rs | s :: r => run_steps hm (fst (run_step hm rs s)) r end.
Lemma wf_history hm ss : forall rs, wf rs -> wf (run_steps hm rs ss).
Proof. induction ss as [|s ss IH]; intros rs H; cbn [run_steps]; [exact H|]. apply IH. apply wf_step. exact H. Qed.

(* ------------------------------------------------------------------ the property statements *)
Lemma C05_sound_lemma hm rs s rs' out : wf rs -> is_reset s = false -> run_step hm rs s = (rs', out) ->
  forall e, In e (o_effs out) -> forall r, nth_error rs (e_r e) = Some r -> r_tracked r = true ->
  forall i, e_woff e <= i < e_woff e + e_wn e ->
  i < r_size r /\ D rs' (e_r e) (i / r_ps r) = true.
Proof.
  intros Hwf Hr H e Hin r Hn Ht i Hi. destruct (step_effs hm rs s rs' out Hwf Hr H) as [-> Hok].
  eapply effs_sound; eauto.
Qed.

Lemma C05_monotone_lemma hm rs s rs' out j p : wf rs -> is_reset s = false -> run_step hm rs s = (rs', out) ->
  D rs j p = true -> D rs' j p = true.
Proof.
  intros Hwf Hr H Hd. destruct (step_effs hm rs s rs' out Hwf Hr H) as [-> _]. apply effs_monotone. exact Hd.
Qed.

Lemma C16_precise_lemma hm rs s rs' out : wf rs -> is_reset s = false -> run_step hm rs s = (rs', out) ->
  forall j p, D rs' j p = true ->
  D rs j p = true \/
  exists e r i, In e (o_effs out) /\ e_r e = j /\ nth_error rs j = Some r /\
                e_woff e <= i < e_woff e + e_mlen e /\ i / r_ps r = p /\ i < r_size r.
Proof.
  intros Hwf Hr H j p Hd. destruct (step_effs hm rs s rs' out Hwf Hr H) as [-> Hok].
  eapply effs_precise; eauto.
Qed.

(* e_mlen = e_wn except for the failed descriptor read (failing at once: nothing written; or failing
   part-way: a prefix of the target written) - there the WHOLE target is marked (io.rs:191-195) *)
Definition is_fd_error (s : step) : bool :=
  match s with SAcc _ _ (OReadFromFd _ _ _ true) | SAcc _ _ (OReadFromFdFault _ _ _) => true | _ => false end.
Lemma mlen_is_wn_lemma hm rs s rs' out : wf rs -> is_reset s = false -> is_fd_error s = false ->
  run_step hm rs s = (rs', out) -> forall e, In e (o_effs out) -> e_mlen e = e_wn e.
Proof.
  intros Hwf Hr Hf H e Hin.
  destruct s as [ri ch o|o| | |ri ch rj doff dlen]; try discriminate; cbn [run_step] in H.
  3:{ inversion H; subst; clear H. unfold run_copy in Hin.
      destruct (nth_error rs ri); [|destruct Hin]. destruct (nth_error rs rj); [|destruct Hin].
      destruct (derive_chain _ ch) as [a|]; [|destruct Hin]. destruct (d_sub _ doff dlen KSlice) as [d|]; [|destruct Hin].
      destruct (a_kind a); try (destruct Hin; fail);
        (destruct (Nat.eqb ri rj && _); [destruct Hin|destruct Hin as [<-|[]]; reflexivity]). }
  - destruct (nth_error rs ri) as [r|]; [|inversion H; subst; destruct Hin].
    destruct (derive_chain (root r) ch) as [a|]; [|inversion H; subst; destruct Hin].
    inversion H; subst; clear H. unfold run_sop in Hin.
    destruct (a_kind a); destruct o; cbn [o_effs fail done] in Hin; try (destruct Hin; fail);
      repeat match type of Hin with
             | context [if ?c then _ else _] => destruct c; cbn [o_effs fail done] in Hin
             | context [match ?c with Some _ => _ | None => _ end] => destruct c; cbn [o_effs fail done] in Hin
             end;
      try (destruct Hin; fail); try discriminate;
      try (destruct Hin as [<-|[]]; reflexivity).
  - inversion H; subst; clear H.
    assert (G : forall fuel cur rem total acc, (forall e, In e acc -> e_mlen e = e_wn e) ->
                forall e, In e (snd (g_write_loop fuel rs cur rem total acc)) -> e_mlen e = e_wn e).
    { induction fuel as [|f IH]; intros cur rem total acc Hacc e0 He0; cbn [g_write_loop] in He0; [auto|].
      destruct (find_idx rs cur 0) as [[i r]|]; [|auto].
      destruct (_ =? 0); [auto|].
      assert (Hacc' : forall e1, In e1 (acc ++ [weff i (root r) (cur - r_start r) (N.min (r_size r - (cur - r_start r)) rem)]) -> e_mlen e1 = e_wn e1).
      { intros e1 H1. apply in_app_or in H1. destruct H1 as [H1|[<-|[]]]; [auto|reflexivity]. }
      destruct (_ =? 0); [cbn [snd] in He0; auto|].
      destruct (W64 <=? _); [cbn [snd] in He0; auto|]. eapply IH; eauto. }
    assert (Gn : forall e0 : eff, In e0 [] -> e_mlen e0 = e_wn e0) by (intros ? []).
    destruct o; cbn [run_gop] in Hin.
    + destruct (blen =? 0); [destruct Hin|].
      pose proof (G (S (length rs)) addr blen 0 [] Gn) as G1.
      destruct (g_write_loop _ rs addr blen 0 []) as [t effs]. destruct (t =? 0); [destruct Hin|]. apply G1. exact Hin.
    + destruct (blen =? 0); [destruct Hin|].
      pose proof (G (S (length rs)) addr blen 0 [] Gn) as G1.
      destruct (g_write_loop _ rs addr blen 0 []) as [t effs]. destruct (t =? 0); [destruct Hin|]. apply G1. exact Hin.
    + destruct (find_idx rs addr 0) as [[i r]|]; [|destruct Hin]. unfold run_sop in Hin. cbn [a_kind root] in Hin.
      destruct (checked_add _ _); [|destruct Hin]. destruct (_ <? _); [destruct Hin|]. destruct (negb _); [destruct Hin|].
      destruct Hin as [<-|[]]. reflexivity.
    + destruct (find_idx rs addr 0) as [[i r]|]; [|destruct Hin].
      destruct (_ =? 0); [destruct Hin|].
      pose proof (G (S (length rs)) addr (N.min cnt srclen) 0 [] Gn) as G1.
      destruct (g_write_loop _ rs addr _ 0 []) as [t effs]. apply G1. exact Hin.
    + destruct (blen =? 0); [destruct Hin|].
      destruct (g_write_loop _ rs addr blen 0 []) as [t effs]. destruct (t =? 0); destruct Hin.
    + destruct (find_idx rs addr 0) as [[i r]|]; [|destruct Hin]. unfold run_sop in Hin. cbn [a_kind root] in Hin.
      destruct (checked_add _ _); [|destruct Hin]. destruct (_ <? _); [destruct Hin|]. destruct (negb _); destruct Hin.
Qed.

(* every effect of every non-reset step: the marked range starts where the written range starts, covers
   it, and lies inside the region (for the failed descriptor reads it is the whole target, of which a
   prefix - possibly empty - was written) *)
Lemma marked_covers_written_lemma hm rs s rs' out : wf rs -> is_reset s = false -> run_step hm rs s = (rs', out) ->
  forall e, In e (o_effs out) ->
  e_moff e = e_woff e /\ e_wn e <= e_mlen e /\
  exists r, nth_error rs (e_r e) = Some r /\ e_woff e + e_mlen e <= r_size r.
Proof.
  intros Hwf Hr H e Hin. destruct (step_effs hm rs s rs' out Hwf Hr H) as [_ Hok].
  unfold effs_ok in Hok. rewrite Forall_forall in Hok. destruct (Hok e Hin) as (r & Hn & Hm & Hb & Hw).
  split; [exact Hm|]. split; [exact Hw|]. exists r. split; assumption.
Qed.

(* the read that fails part-way: exactly the bytes in front of the fault are written, the whole target is marked *)
Lemma fault_read_effect_lemma ri hm a cnt addr fault l : a_kind a = KSlice -> checked_sub (a_len a) addr = Some l ->
  let m := N.min l cnt in let t0 := a_off a + addr in
  m <> 0 -> fault < t0 + m ->
  run_sop ri hm a (OReadFromFdFault cnt addr fault) =
  {| o_ok := false; o_count := 0;
     o_effs := [{| e_r := ri; e_woff := t0; e_wn := fault - t0; e_moff := bm_at (a_bm a) addr; e_mlen := m |}] |}.
Proof.
  intros K E m t0 Hm Hf. unfold run_sop. rewrite K, E. fold m. fold t0.
  destruct (N.eqb_spec m 0); [contradiction|]. destruct (N.leb_spec (t0 + m) fault); [lia|]. reflexivity.
Qed.
