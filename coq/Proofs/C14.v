(* C14 proofs.  Structure:
     1. facts about the call log (k_done) and the script,
     2. [Moved]: what one or several stream calls did to the stream and to host memory,
     3. specs of one call, of retry_eintr, of the exact loop on scripted streams (induction on fuel,
        for scripts of any length),
     4. the address map (idx_of / flat_write / flat_read) on contiguous runs,
     5. slice, region and guest-memory operations,
     6. the checker on the model. *)
From VM Require Import Prelude.MachInt Prelude.Outcome Prelude.Tok Prelude.C1314List Impl.Io Impl.IoGuest Spec.C14 Suite.C14.

Lemma amount_le_lemma : forall b len, amount b len <= len.
Proof. intros [] len; cbn [amount]; lia. Qed.

(* ------------------------------------------------------------------ 1. logs *)
Definition Clean (d : list beh) : Prop := existsb is_hard d = false /\ is_eintr (last d Zero) = false.
Definition HardEnd (d : list beh) : Prop := is_hard (last d Zero) = true /\ existsb is_hard (removelast d) = false.
(* what the checker demands of the log and the result kind *)
Definition LogRes (d : list beh) (rk : N) : Prop :=
  rk <> 4 /\ is_eintr (last d Zero) = false /\
  (if existsb is_hard d then rk = 5 /\ existsb is_hard (removelast d) = false else rk <> 5).

Lemma last_snoc {A} (l : list A) x d : last (l ++ [x]) d = x.
Proof. induction l as [|a l IH]; [reflexivity|]. cbn [app]. destruct (l ++ [x]) eqn:E; [destruct l; discriminate|]. cbn [last]. exact IH. Qed.
Lemma removelast_snoc {A} (l : list A) x : removelast (l ++ [x]) = l.
Proof. rewrite removelast_app by discriminate. cbn [removelast]. apply app_nil_r. Qed.
Lemma existsb_hard_eintrs j : existsb is_hard (repeat Eintr j) = false.
Proof. induction j; [reflexivity|]. cbn [repeat existsb is_hard orb]. exact IHj. Qed.

Lemma Clean_nil : Clean [].
Proof. split; reflexivity. Qed.
Lemma Clean_step d j b : Clean d -> is_eintr b = false -> is_hard b = false -> Clean (d ++ repeat Eintr j ++ [b]).
Proof.
  intros [H1 _] Hb Hh. split.
  - rewrite !existsb_app, H1, existsb_hard_eintrs. cbn [existsb orb]. rewrite Hh. reflexivity.
  - rewrite app_assoc, last_snoc. exact Hb.
Qed.
Lemma HardEnd_step d j : Clean d -> HardEnd (d ++ repeat Eintr j ++ [HardErr]).
Proof.
  intros [H1 _]. split.
  - rewrite app_assoc, last_snoc. reflexivity.
  - rewrite app_assoc, removelast_snoc, existsb_app, H1, existsb_hard_eintrs. reflexivity.
Qed.
Lemma LogRes_clean d rk : Clean d -> rk <> 4 -> rk <> 5 -> LogRes d rk.
Proof. intros [H1 H2] H4 H5. unfold LogRes. rewrite H1. auto. Qed.
Lemma LogRes_hard d : HardEnd d -> LogRes d 5.
Proof.
  intros [H1 H2]. unfold LogRes. split; [lia|]. split.
  - destruct (last d Zero); try discriminate. reflexivity.
  - assert (E : existsb is_hard d = true).
    { destruct d as [|x d] using rev_ind; [discriminate|]. rewrite last_snoc in H1.
      rewrite existsb_app. cbn [existsb]. rewrite H1. rewrite orb_true_r. reflexivity. }
    rewrite E. auto.
Qed.

(* the log is the script followed by Zeros *)
Definition LogInv (sc : list beh) (s : sstream) : Prop :=
  exists z, k_done s ++ k_script s = sc ++ repeat Zero z.
Lemma LogInv_advance sc s src sink : LogInv sc s -> LogInv sc (advance s src sink).
Proof.
  intros [z H]. unfold LogInv, advance, next_beh. cbn [k_done k_script].
  destruct (k_script s) as [|b t] eqn:E; cbn [hd tl].
  - exists (S z). rewrite app_nil_r in *. rewrite H.
    replace (S z) with (z + 1)%nat by lia. rewrite repeat_app. cbn [repeat]. rewrite app_assoc. reflexivity.
  - exists z. rewrite <- app_assoc. cbn [app]. exact H.
Qed.
Lemma firstn_repeat_zero (n z : nat) : (n <= z)%nat -> firstn n (repeat Zero z) = repeat Zero n.
Proof.
  revert z; induction n as [|n IH]; intros z Hz; [reflexivity|].
  destruct z as [|z]; [lia|]. cbn [repeat firstn]. f_equal. apply IH. lia.
Qed.
Lemma firstn_script_zeros (sc : list beh) : forall n z z', (n <= length sc + z)%nat -> (n <= length sc + z')%nat ->
  firstn n (sc ++ repeat Zero z) = firstn n (sc ++ repeat Zero z').
Proof.
  induction sc as [|b sc IH]; intros n z z' H1 H2.
  - cbn [app length] in *. rewrite !firstn_repeat_zero by lia. reflexivity.
  - destruct n as [|n]; [reflexivity|]. cbn [app firstn]. f_equal. apply IH; cbn [length] in *; lia.
Qed.
Lemma LogInv_calls_made sc s : LogInv sc s -> calls_made sc (nlen (k_done s)) = k_done s.
Proof.
  intros [z H]. unfold calls_made, nlen. rewrite Nat2N.id.
  assert (Hl : (length (k_done s) <= length sc + z)%nat).
  { apply (f_equal (@length beh)) in H. rewrite !app_length, repeat_length in H. lia. }
  rewrite (firstn_script_zeros sc _ _ z) by lia. rewrite <- H.
  rewrite firstn_app, Nat.sub_diag, firstn_all. cbn [firstn]. apply app_nil_r.
Qed.

(* ------------------------------------------------------------------ 2. Moved *)
Definition callb (rd : bool) : callT sstream := if rd then sr_call else sw_call.

(* k bytes went from the reader to host memory at index base (rd) / from there to the writer *)
Definition Moved (rd : bool) (s : sstream) (m : list N) (base k : N) (s' : sstream) (m' : list N) : Prop :=
  if rd then k_src s' = ndrop k (k_src s) /\ k <= nlen (k_src s) /\ m' = mem_write m base (ntake k (k_src s))
            /\ k_sink s' = k_sink s
  else k_sink s' = k_sink s ++ mem_read m base k /\ m' = m /\ k_src s' = k_src s.

Lemma Moved_refl rd s m base : Moved rd s m base 0 s m.
Proof.
  destruct rd; cbn [Moved].
  - rewrite ndrop_0, ntake_0, mem_write_nil. repeat split; try reflexivity. lia.
  - unfold mem_read. rewrite ntake_0, app_nil_r. auto.
Qed.
Lemma Moved_same rd s m base s' : k_src s' = k_src s -> k_sink s' = k_sink s -> Moved rd s m base 0 s' m.
Proof.
  intros H1 H2. destruct rd; cbn [Moved].
  - rewrite ndrop_0, ntake_0, mem_write_nil. repeat split; auto. lia.
  - unfold mem_read. rewrite ntake_0, app_nil_r. auto.
Qed.
Lemma mem_read_app m base k1 k2 : mem_read m base (k1 + k2) = mem_read m base k1 ++ mem_read m (base + k1) k2.
Proof. unfold mem_read. rewrite ntake_app_ndrop, ndrop_ndrop. reflexivity. Qed.
Lemma ntake_min_len {A} a (l : list A) : ntake (N.min a (nlen l)) l = ntake a l.
Proof.
  destruct (N.le_ge_cases a (nlen l)) as [H|H].
  - rewrite N.min_l by lia. reflexivity.
  - rewrite N.min_r by lia. rewrite !ntake_all by lia. reflexivity.
Qed.
Lemma Moved_trans rd s m base k1 s1 m1 k2 s2 m2 : base + k1 + k2 <= nlen m ->
  Moved rd s m base k1 s1 m1 -> Moved rd s1 m1 (base + k1) k2 s2 m2 -> Moved rd s m base (k1 + k2) s2 m2.
Proof.
  intros Hb. destruct rd; cbn [Moved].
  - intros (A1 & A2 & A3 & A4) (B1 & B2 & B3 & B4). rewrite A1 in B1, B2, B3. rewrite nlen_ndrop in B2.
    repeat split.
    + rewrite B1, ndrop_ndrop. reflexivity.
    + lia.
    + rewrite B3, A3. rewrite ntake_app_ndrop.
      replace (base + k1) with (base + nlen (ntake k1 (k_src s))) by (rewrite nlen_ntake; lia).
      apply mem_write_app. rewrite nlen_ntake. lia.
    + congruence.
  - intros (A1 & A2 & A3) (B1 & B2 & B3). subst m1 m2. repeat split; try congruence.
    rewrite B1, A1, mem_read_app, app_assoc. reflexivity.
Qed.

(* ------------------------------------------------------------------ 3. calls and loops *)
Definition in_bounds (v : vslice) (m : list N) : Prop := vs_off v + vs_len v <= nlen m.

Lemma call_spec rd s m v : in_bounds v m ->
  exists s' m' r, callb rd s m v = Val ((s', m'), r)
    /\ k_done s' = k_done s ++ [next_beh s] /\ k_script s' = tl (k_script s)
    /\ (forall sc, LogInv sc s -> LogInv sc s')
    /\ match next_beh s with
       | Eintr => r = Err (VIo EInterrupted) /\ Moved rd s m (vs_off v) 0 s' m'
       | HardErr => r = Err (VIo EOther) /\ Moved rd s m (vs_off v) 0 s' m'
       | b => exists k, r = Ok k /\ k <= vs_len v /\ Moved rd s m (vs_off v) k s' m'
                        /\ (0 < k -> k_script s <> [])
       end.
Proof.
  intros Hb. unfold callb.
  assert (Hz : forall k, 0 < k -> k <= amount (next_beh s) (vs_len v) -> next_beh s <> Zero -> k_script s <> []).
  { intros k Hk Hle Hn E. unfold next_beh in *. rewrite E in *. cbn [hd] in *. congruence. }
  destruct rd.
  - unfold sr_call. destruct (next_beh s) eqn:E;
      (eexists; eexists; eexists; split; [reflexivity|]; cbn [k_done k_script advance];
       rewrite ?E; split; [reflexivity|]; split; [reflexivity|]; split; [intros sc; apply LogInv_advance|]).
    1,2,3: (eexists; split; [reflexivity|]; rewrite nlen_ntake; split;
            [pose proof (amount_le_lemma (next_beh s) (vs_len v)) as Ha; rewrite E in Ha; lia|]; split;
            [cbn [Moved advance k_src k_sink]; rewrite ntake_min_len; repeat split; lia|]).
    + intros Hk. unfold next_beh in E. destruct (k_script s); [discriminate|discriminate].
    + intros Hk. unfold next_beh in E. destruct (k_script s); [discriminate|discriminate].
    + cbn [amount]. rewrite N.min_0_l. lia.
    + split; [reflexivity|]. apply Moved_same; reflexivity.
    + split; [reflexivity|]. apply Moved_same; reflexivity.
  - unfold sw_call. destruct (next_beh s) eqn:E;
      (eexists; eexists; eexists; split; [reflexivity|]; cbn [k_done k_script advance];
       rewrite ?E; split; [reflexivity|]; split; [reflexivity|]; split; [intros sc; apply LogInv_advance|]).
    1,2,3: (eexists; split; [reflexivity|]; split;
            [pose proof (amount_le_lemma (next_beh s) (vs_len v)) as Ha; rewrite E in Ha; exact Ha|]; split;
            [cbn [Moved advance k_src k_sink]; repeat split|]).
    + intros Hk. unfold next_beh in E. destruct (k_script s); discriminate.
    + intros Hk. unfold next_beh in E. destruct (k_script s); discriminate.
    + cbn [amount]. lia.
    + split; [reflexivity|]. apply Moved_same; reflexivity.
    + split; [reflexivity|]. apply Moved_same; reflexivity.
Qed.

Lemma Moved_zero_mem rd s m base s' m' : Moved rd s m base 0 s' m' -> m' = m.
Proof.
  destruct rd; cbn [Moved].
  - intros (_ & _ & H & _). rewrite ntake_0, mem_write_nil in H. exact H.
  - intros (_ & H & _). exact H.
Qed.
Lemma Moved_len rd s m base k s' m' : base + k <= nlen m -> Moved rd s m base k s' m' -> nlen m' = nlen m.
Proof.
  intros Hb. destruct rd; cbn [Moved].
  - intros (_ & Hk & H & _). subst m'. apply mem_write_length. rewrite nlen_ntake. lia.
  - intros (_ & H & _). subst. reflexivity.
Qed.

Lemma retry_spec rd : forall fuel s m v, (length (k_script s) < fuel)%nat -> in_bounds v m ->
  exists s' m' r j b k, retry_eintr fuel (callb rd) s m v = Val ((s', m'), r)
    /\ k_done s' = k_done s ++ repeat Eintr j ++ [b] /\ is_eintr b = false
    /\ (length (k_script s') <= length (k_script s))%nat
    /\ (forall sc, LogInv sc s -> LogInv sc s')
    /\ Moved rd s m (vs_off v) k s' m' /\ k <= vs_len v
    /\ (0 < k -> (length (k_script s') < length (k_script s))%nat)
    /\ ((is_hard b = true /\ r = Err (VIo EOther) /\ k = 0) \/ (is_hard b = false /\ r = Ok k)).
Proof.
  induction fuel as [|f IH]; intros s m v Hf Hb; [lia|].
  cbn [retry_eintr].
  destruct (call_spec rd s m v Hb) as (s1 & m1 & r1 & Hc & Hd & Hs & Hl & Hcase).
  rewrite Hc. cbn [bind].
  assert (Hlen : (length (k_script s1) <= length (k_script s))%nat).
  { rewrite Hs. destruct (k_script s); cbn [tl length]; lia. }
  destruct (next_beh s) eqn:E.
  - (* Full *) destruct Hcase as (k & -> & Hk & HM & Hne).
    exists s1, m1, (Ok k), 0%nat, Full, k. cbn [repeat app]. repeat split; auto.
    intros Hk0. apply Hne in Hk0. rewrite Hs. destruct (k_script s); [congruence|cbn [tl length]; lia].
  - (* Short *) destruct Hcase as (k' & -> & Hk & HM & Hne).
    exists s1, m1, (Ok k'), 0%nat, (Short k), k'. cbn [repeat app]. repeat split; auto.
    intros Hk0. apply Hne in Hk0. rewrite Hs. destruct (k_script s); [congruence|cbn [tl length]; lia].
  - (* Zero *) destruct Hcase as (k & -> & Hk & HM & Hne).
    exists s1, m1, (Ok k), 0%nat, Zero, k. cbn [repeat app]. repeat split; auto.
    intros Hk0. apply Hne in Hk0. rewrite Hs. destruct (k_script s); [congruence|cbn [tl length]; lia].
  - (* Eintr: retried *) destruct Hcase as (-> & HM).
    assert (Hm1 : m1 = m) by (eapply Moved_zero_mem; exact HM). subst m1.
    assert (Hne : k_script s <> []).
    { intros E0. unfold next_beh in E. rewrite E0 in E. discriminate. }
    assert (Hf1 : (length (k_script s1) < f)%nat).
    { rewrite Hs. destruct (k_script s); [congruence|cbn [tl length] in *; lia]. }
    destruct (IH s1 m v Hf1 Hb) as (s2 & m2 & r2 & j & b & k & Hr & Hd2 & Hb2 & Hl2 & Hli2 & HM2 & Hk2 & Hp2 & Hres).
    exists s2, m2, r2, (S j), b, k. split; [exact Hr|]. split.
    { rewrite Hd2, Hd. rewrite <- app_assoc. reflexivity. }
    split; [exact Hb2|]. split; [lia|]. split; [auto|]. split.
    { replace k with (0 + k) by lia. eapply Moved_trans; [|exact HM|rewrite N.add_0_r; exact HM2].
      unfold in_bounds in Hb. lia. }
    split; [exact Hk2|]. split; [intros Hk0; specialize (Hp2 Hk0); lia|]. exact Hres.
  - (* HardErr *) destruct Hcase as (-> & HM).
    exists s1, m1, (Err (VIo EOther)), 0%nat, HardErr, 0. cbn [repeat app]. repeat split; auto; try lia.
Qed.

Lemma vs_offset_ok v n : vs_addr v + vs_len v < W64 -> n <= vs_len v ->
  vs_offset v n = Ok {| vs_addr := vs_addr v + n; vs_off := vs_off v + n; vs_len := vs_len v - n |}.
Proof.
  intros Ha Hn. unfold vs_offset, checked_add, checked_sub.
  destruct (N.ltb_spec (vs_addr v + n) W64); [|lia]. destruct (N.leb_spec n (vs_len v)); [|lia]. reflexivity.
Qed.
Lemma vs_offset_err v n : vs_len v < n -> exists e, vs_offset v n = Err e /\ (e = VOutOfBounds \/ e = VOverflow).
Proof.
  intros Hn. unfold vs_offset, checked_add, checked_sub.
  destruct (N.ltb_spec (vs_addr v + n) W64); [|eauto]. destruct (N.leb_spec n (vs_len v)); [lia|eauto].
Qed.

Lemma exact_loop_spec rd zerr fi : forall fuel s m pb,
  (length (k_script s) < fuel)%nat -> (length (k_script s) < fi)%nat -> in_bounds pb m ->
  vs_addr pb + vs_len pb < W64 -> Clean (k_done s) ->
  exists s' m' r k, exact_loop zerr fi fuel (callb rd) s m pb = Val ((s', m'), r)
    /\ Moved rd s m (vs_off pb) k s' m' /\ k <= vs_len pb
    /\ (length (k_script s') <= length (k_script s))%nat
    /\ (0 < k -> (length (k_script s') < length (k_script s))%nat)
    /\ (forall sc, LogInv sc s -> LogInv sc s')
    /\ ((r = Ok tt /\ k = vs_len pb /\ Clean (k_done s'))
        \/ (r = Err (VIo zerr) /\ k < vs_len pb /\ Clean (k_done s'))
        \/ (r = Err (VIo EOther) /\ k < vs_len pb /\ HardEnd (k_done s'))).
Proof.
  induction fuel as [|f IH]; intros s m pb Hf Hfi Hb Ha Hc; [lia|].
  cbn [exact_loop]. destruct (N.eqb_spec (vs_len pb) 0) as [Hz|Hz].
  - exists s, m, (Ok tt), 0. split; [reflexivity|]. split; [apply Moved_refl|]. split; [lia|].
    split; [lia|]. split; [lia|]. split; [auto|]. left. auto.
  - destruct (retry_spec rd fi s m pb Hfi Hb)
      as (s1 & m1 & r1 & j & b & k & Hr & Hd & Hbe & Hl & Hli & HM & Hk & Hp & Hres).
    rewrite Hr. cbn [bind].
    destruct Hres as [(Hh & -> & ->)|(Hh & ->)].
    + (* hard error *)
      exists s1, m1, (Err (VIo EOther)), 0. split; [reflexivity|]. split; [exact HM|]. split; [lia|].
      split; [exact Hl|]. split; [lia|]. split; [exact Hli|]. right. right. split; [reflexivity|]. split; [lia|].
      rewrite Hd. destruct b; try discriminate. apply HardEnd_step. exact Hc.
    + assert (Hc1 : Clean (k_done s1)) by (rewrite Hd; apply Clean_step; assumption).
      destruct (N.eqb_spec k 0) as [Hk0|Hk0].
      * subst k. exists s1, m1, (Err (VIo zerr)), 0. split; [reflexivity|]. split; [exact HM|]. split; [lia|].
        split; [exact Hl|]. split; [lia|]. split; [exact Hli|]. right. left. split; [reflexivity|]. split; [lia|]. exact Hc1.
      * rewrite (vs_offset_ok pb k Ha Hk).
        assert (Hlm : nlen m1 = nlen m) by (eapply Moved_len; [|exact HM]; unfold in_bounds in Hb; lia).
        set (pb' := {| vs_addr := vs_addr pb + k; vs_off := vs_off pb + k; vs_len := vs_len pb - k |}).
        assert (Hlt : (length (k_script s1) < length (k_script s))%nat) by (apply Hp; lia).
        destruct (IH s1 m1 pb') as (s2 & m2 & r2 & k2 & He & HM2 & Hk2 & Hl2 & Hp2 & Hli2 & Hres2).
        { lia. } { lia. }
        { unfold in_bounds, pb' in *. cbn [vs_off vs_len]. lia. }
        { unfold pb'. cbn [vs_addr vs_len]. lia. }
        { exact Hc1. }
        exists s2, m2, r2, (k + k2). split; [exact He|]. unfold pb' in *. cbn [vs_off vs_len] in *.
        split. { eapply Moved_trans; [|exact HM|exact HM2]. unfold in_bounds in Hb. lia. }
        split; [lia|]. split; [lia|]. split; [lia|]. split; [auto|].
        destruct Hres2 as [(-> & Hk2e & Hc2)|[(-> & Hk2e & Hc2)|(-> & Hk2e & Hc2)]].
        -- left. split; [reflexivity|]. split; [lia|exact Hc2].
        -- right. left. split; [reflexivity|]. split; [lia|exact Hc2].
        -- right. right. split; [reflexivity|]. split; [lia|exact Hc2].
Qed.

(* ------------------------------------------------------------------ 4. the address map on runs *)
(* addresses a .. a+k-1 of the target are the host bytes j .. j+k-1 *)
Definition Run (t : target) (m : list N) (a j k : N) : Prop :=
  (forall i, i < k -> idx_of t (a + i) = Some (j + i)) /\ j + k <= nlen m.

Lemma flat_write_run t : forall bs m a j, Run t m a j (nlen bs) -> flat_write t m a bs = Some (mem_write m j bs).
Proof.
  induction bs as [|b rest IH]; intros m a j [Hi Hb].
  - cbn [flat_write]. rewrite mem_write_nil. reflexivity.
  - rewrite nlen_cons in *. cbn [flat_write].
    assert (H0 : idx_of t a = Some j).
    { specialize (Hi 0). rewrite !N.add_0_r in Hi. apply Hi. lia. }
    rewrite H0. destruct (N.ltb_spec j (nlen m)); [|lia].
    assert (Hl : nlen (mem_write m j [b]) = nlen m) by (apply mem_write_length; cbn; lia).
    rewrite (IH _ (a + 1) (j + 1)).
    + f_equal. replace (j + 1) with (j + nlen [b]) by (cbn; lia).
      rewrite mem_write_app by (cbn; lia). reflexivity.
    + split; [|lia]. intros i Hlt. specialize (Hi (1 + i)).
      replace (a + 1 + i) with (a + (1 + i)) by lia. replace (j + 1 + i) with (j + (1 + i)) by lia. apply Hi. lia.
Qed.
Lemma flat_write_app t : forall xs ys m a,
  flat_write t m a (xs ++ ys) =
  match flat_write t m a xs with Some m1 => flat_write t m1 (a + nlen xs) ys | None => None end.
Proof.
  induction xs as [|x xs IH]; intros ys m a.
  - cbn [app flat_write nlen length]. rewrite N.add_0_r. reflexivity.
  - cbn [app flat_write]. destruct (idx_of t a) as [j|]; [|reflexivity].
    destruct (j <? nlen m); [|reflexivity]. rewrite IH. rewrite nlen_cons.
    replace (a + 1 + nlen xs) with (a + (1 + nlen xs)) by lia. reflexivity.
Qed.
Lemma mem_read_one m j b : nth_error m (N.to_nat j) = Some b -> mem_read m j 1 = [b].
Proof.
  intros H. unfold mem_read, ntake, ndrop.
  assert (E : nth_error (skipn (N.to_nat j) m) 0 = Some b) by (rewrite nth_error_skipn_c, Nat.add_0_r; exact H).
  destruct (skipn (N.to_nat j) m) as [|x r]; [discriminate|]. cbn in E. inversion E. reflexivity.
Qed.
Lemma flat_read_run t m : forall n a j, Run t m a j (N.of_nat n) -> flat_read t m a n = Some (mem_read m j (N.of_nat n)).
Proof.
  induction n as [|n IH]; intros a j [Hi Hb].
  - reflexivity.
  - cbn [flat_read].
    assert (H0 : idx_of t a = Some j).
    { specialize (Hi 0). rewrite !N.add_0_r in Hi. apply Hi. lia. }
    rewrite H0.
    destruct (nth_error m (N.to_nat j)) as [b|] eqn:E.
    2:{ apply nth_error_None in E. unfold nlen in Hb. lia. }
    rewrite (IH (a + 1) (j + 1)).
    + f_equal. replace (N.of_nat (S n)) with (1 + N.of_nat n) by lia.
      rewrite mem_read_app, (mem_read_one _ _ _ E). reflexivity.
    + split; [|lia]. intros i Hlt. specialize (Hi (1 + i)).
      replace (a + 1 + i) with (a + (1 + i)) by lia. replace (j + 1 + i) with (j + (1 + i)) by lia. apply Hi. lia.
Qed.
Lemma flat_read_app t m : forall n1 n2 a,
  flat_read t m a (n1 + n2) =
  match flat_read t m a n1, flat_read t m (a + N.of_nat n1) n2 with
  | Some x, Some y => Some (x ++ y) | _, _ => None end.
Proof.
  induction n1 as [|n1 IH]; intros n2 a.
  - cbn [Nat.add flat_read app]. rewrite N.add_0_r. destruct (flat_read t m a n2); reflexivity.
  - cbn [Nat.add flat_read]. destruct (idx_of t a) as [j|]; [|reflexivity].
    destruct (nth_error m (N.to_nat j)) as [b|]; [|reflexivity].
    rewrite IH. replace (a + 1 + N.of_nat n1) with (a + N.of_nat (S n1)) by lia.
    destruct (flat_read t m (a + 1) n1); [|reflexivity].
    destruct (flat_read t m (a + N.of_nat (S n1)) n2); reflexivity.
Qed.
Lemma flat_read_length t m : forall n a l, flat_read t m a n = Some l -> length l = n.
Proof.
  induction n as [|n IH]; intros a l H; cbn [flat_read] in H.
  - inversion H. reflexivity.
  - destruct (idx_of t a); [|discriminate]. destruct (nth_error m (N.to_nat n0)); [|discriminate].
    destruct (flat_read t m (a + 1) n) eqn:E; [|discriminate]. inversion H. cbn [length]. f_equal. eapply IH. exact E.
Qed.

(* k bytes went from the reader to target addresses a.. (rd) / from there to the writer *)
Definition GMoved (rd : bool) (t : target) (s : sstream) (m : list N) (a k : N) (s' : sstream) (m' : list N) : Prop :=
  if rd then k_src s' = ndrop k (k_src s) /\ k <= nlen (k_src s)
            /\ flat_write t m a (ntake k (k_src s)) = Some m' /\ k_sink s' = k_sink s
  else exists bs, flat_read t m a (N.to_nat k) = Some bs /\ k_sink s' = k_sink s ++ bs /\ m' = m /\ k_src s' = k_src s.

Lemma Moved_GMoved rd t s m a j k s' m' : Run t m a j k -> Moved rd s m j k s' m' -> GMoved rd t s m a k s' m'.
Proof.
  intros HR. destruct rd; cbn [Moved GMoved].
  - intros (A1 & A2 & A3 & A4). repeat split; auto. subst m'. apply flat_write_run.
    rewrite nlen_ntake. replace (N.min k (nlen (k_src s))) with k by lia. exact HR.
  - intros (A1 & A2 & A3). exists (mem_read m j k). repeat split; auto.
    rewrite <- (N2Nat.id k) at 2. apply flat_read_run. rewrite N2Nat.id. exact HR.
Qed.
Lemma GMoved_refl rd t s m a : GMoved rd t s m a 0 s m.
Proof.
  destruct rd; cbn [GMoved].
  - rewrite ndrop_0, ntake_0. cbn [flat_write]. repeat split; auto. lia.
  - exists []. cbn [N.to_nat flat_read]. rewrite app_nil_r. auto.
Qed.
Lemma GMoved_trans rd t s m a k1 s1 m1 k2 s2 m2 :
  GMoved rd t s m a k1 s1 m1 -> GMoved rd t s1 m1 (a + k1) k2 s2 m2 -> GMoved rd t s m a (k1 + k2) s2 m2.
Proof.
  destruct rd; cbn [GMoved].
  - intros (A1 & A2 & A3 & A4) (B1 & B2 & B3 & B4). rewrite A1 in B1, B2, B3. rewrite nlen_ndrop in B2.
    repeat split.
    + rewrite B1, ndrop_ndrop. reflexivity.
    + lia.
    + rewrite ntake_app_ndrop, flat_write_app, A3. rewrite nlen_ntake.
      replace (N.min k1 (nlen (k_src s))) with k1 by lia. exact B3.
    + congruence.
  - intros (b1 & A1 & A2 & A3 & A4) (b2 & B1 & B2 & B3 & B4). subst m1 m2.
    exists (b1 ++ b2). repeat split; try congruence.
    + rewrite N2Nat.inj_add, flat_read_app, A1. rewrite N2Nat.id, B1. reflexivity.
    + rewrite B2, A2, app_assoc. reflexivity.
Qed.

(* ------------------------------------------------------------------ 5a. slices and regions *)
Definition judged (t : target) (addr count : N) : Prop := 0 < count \/ idx_of t addr <> None.
Definition rk_of (rc : N * N * N) : N := fst (fst rc).
(* what the checker demands, as a proposition about the final state of the model *)
Definition Post (rd exact : bool) (t : target) (addr count : N) (s0 : sstream) (m0 : list N)
  (s' : sstream) (m' : list N) (rc : N * N * N) : Prop :=
  exists k, GMoved rd t s0 m0 addr k s' m' /\ LogRes (k_done s') (rk_of rc) /\
    (if exact then rk_of rc <> 0 /\
                   (existsb is_hard (k_done s') = false -> judged t addr count -> (rk_of rc = 1 <-> k = count))
     else rk_of rc <> 1 /\ (rk_of rc = 0 -> snd (fst rc) = k)).

Definition window_of (t : target) (self : vslice) : Prop :=
  forall a, idx_of t a = if a <? vs_len self then Some (vs_off self + a) else None.

Lemma vs_upto_post (rd : bool) t self fuel s m addr count :
  window_of t self -> in_bounds self m -> vs_addr self + vs_len self < W64 ->
  (length (k_script s) < fuel)%nat -> Clean (k_done s) ->
  exists s' m' r, vs_upto fuel (callb rd) self addr s m count = Val ((s', m'), r)
    /\ (forall sc, LogInv sc s -> LogInv sc s')
    /\ Post rd false t addr count s m s' m' (rc_res okc_n r).
Proof.
  intros Hw Hb Ha Hf Hc. unfold vs_upto.
  destruct (N.le_gt_cases addr (vs_len self)) as [Hle|Hgt].
  - rewrite (vs_offset_ok self addr Ha Hle).
    set (sl := {| vs_addr := vs_addr self + addr; vs_off := vs_off self + addr; vs_len := vs_len self - addr |}).
    set (n := N.min (vs_len sl) count).
    assert (Hn : n <= vs_len self - addr) by (unfold n, sl; cbn [vs_len]; lia).
    unfold vs_subslice, checked_add. rewrite N.add_0_l.
    destruct (N.ltb_spec n W64) as [_|Hbad]; [|lia].
    destruct (N.ltb_spec (vs_len sl) n) as [Hbad|_]; [unfold sl in Hbad; cbn [vs_len] in Hbad; lia|].
    set (sl2 := {| vs_addr := vs_addr sl + 0; vs_off := vs_off sl + 0; vs_len := n |}).
    assert (Hb2 : in_bounds sl2 m).
    { unfold in_bounds, sl2, sl in *. cbn [vs_off vs_len]. lia. }
    destruct (retry_spec rd fuel s m sl2 Hf Hb2)
      as (s1 & m1 & r1 & j & b & k & Hr & Hd & Hbe & Hl & Hli & HM & Hk & Hp & Hres).
    exists s1, m1, r1. split; [exact Hr|]. split; [exact Hli|].
    exists k. split.
    { eapply Moved_GMoved; [|exact HM]. split.
      - intros i Hi. rewrite Hw. unfold sl2, sl in *. cbn [vs_off vs_len] in *.
        destruct (N.ltb_spec (addr + i) (vs_len self)); [f_equal; lia|lia].
      - unfold in_bounds, sl2, sl in *. cbn [vs_off vs_len] in *. lia. }
    destruct Hres as [(Hh & -> & ->)|(Hh & ->)].
    + cbn [rc_res rk_of fst snd rc_io]. split.
      * apply LogRes_hard. rewrite Hd. destruct b; try discriminate. apply HardEnd_step. exact Hc.
      * split; [lia|intros; lia].
    + cbn [rc_res rk_of fst snd okc_n]. split.
      * apply LogRes_clean; [|lia|lia]. rewrite Hd. apply Clean_step; assumption.
      * split; [lia|reflexivity].
  - destruct (vs_offset_err self addr Hgt) as (e & -> & He).
    exists s, m, (Err e). split; [reflexivity|]. split; [auto|].
    exists 0. split; [apply GMoved_refl|].
    assert (E : rc_res okc_n (@Err N e) = (6, 0, 0)) by (destruct He; subst; reflexivity).
    rewrite E. cbn [rk_of fst snd]. split; [apply LogRes_clean; [exact Hc|lia|lia]|]. split; [lia|intros; lia].
Qed.

Lemma vs_exact_post (rd : bool) t self fuel s m addr count :
  window_of t self -> in_bounds self m -> vs_addr self + vs_len self < W64 ->
  (length (k_script s) < fuel)%nat -> Clean (k_done s) -> addr < W64 -> count < W64 ->
  exists s' m' r, vs_exact (if rd then EUnexpectedEof else EWriteZero) fuel (callb rd) self addr s m count = Val ((s', m'), r)
    /\ (forall sc, LogInv sc s -> LogInv sc s')
    /\ Post rd true t addr count s m s' m' (rc_res okc_u r).
Proof.
  intros Hw Hb Ha Hf Hc Haddr Hcount. unfold vs_exact, vs_subslice, checked_add.
  assert (Hnj : vs_len self < addr + count -> judged t addr count -> 0 <> count).
  { intros Hlt [Hj|Hj]; [lia|]. rewrite Hw in Hj. destruct (N.ltb_spec addr (vs_len self)); [lia|congruence]. }
  destruct (N.ltb_spec (addr + count) W64) as [Hfit|Hovf].
  - destruct (N.ltb_spec (vs_len self) (addr + count)) as [Hout|Hin].
    + exists s, m, (Err VOutOfBounds). split; [reflexivity|]. split; [auto|].
      exists 0. split; [apply GMoved_refl|]. cbn [rc_res rk_of fst snd].
      split; [apply LogRes_clean; [exact Hc|lia|lia]|]. split; [lia|].
      intros _ Hj. split; [lia|]. intros E. exfalso. apply (Hnj Hout Hj). exact E.
    + set (sl := {| vs_addr := vs_addr self + addr; vs_off := vs_off self + addr; vs_len := count |}).
      unfold exact_volatile.
      rewrite (vs_offset_ok sl 0) by (unfold sl; cbn [vs_addr vs_len]; lia).
      set (pb := {| vs_addr := vs_addr sl + 0; vs_off := vs_off sl + 0; vs_len := vs_len sl - 0 |}).
      destruct (exact_loop_spec rd (if rd then EUnexpectedEof else EWriteZero) fuel fuel s m pb)
        as (s1 & m1 & r1 & k & He & HM & Hk & Hl & Hp & Hli & Hres); auto.
      { unfold in_bounds, pb, sl in *. cbn [vs_off vs_len]. lia. }
      { unfold pb, sl. cbn [vs_addr vs_len]. lia. }
      exists s1, m1, r1. split; [exact He|]. split; [exact Hli|].
      exists k. split.
      { eapply Moved_GMoved; [|exact HM]. unfold pb, sl in *. cbn [vs_off vs_len] in *. split.
        - intros i Hi. rewrite Hw. destruct (N.ltb_spec (addr + i) (vs_len self)); [f_equal; lia|lia].
        - unfold in_bounds in Hb. lia. }
      unfold pb, sl in Hk, Hres. cbn [vs_len] in Hk, Hres.
      destruct Hres as [(-> & Hke & Hc1)|[(-> & Hke & Hc1)|(-> & Hke & Hc1)]].
      * cbn [rc_res rk_of fst snd okc_u]. split; [apply LogRes_clean; [exact Hc1|lia|lia]|]. split; [lia|].
        intros _ _. split; [lia|reflexivity].
      * assert (E : rk_of (rc_res okc_u (@Err unit (VIo (if rd then EUnexpectedEof else EWriteZero)))) = (if rd then 2 else 3))
          by (destruct rd; reflexivity).
        rewrite E. split; [apply LogRes_clean; [exact Hc1|destruct rd; lia|destruct rd; lia]|].
        split; [destruct rd; lia|]. intros _ _. split; [destruct rd; lia|lia].
      * cbn [rc_res rk_of fst snd rc_io]. split; [apply LogRes_hard; exact Hc1|]. split; [lia|].
        intros Hh. exfalso. destruct Hc1 as [H1 _]. clear - H1 Hh.
        destruct (k_done s1) as [|x d] using rev_ind; [discriminate|]. rewrite last_snoc in H1.
        rewrite existsb_app in Hh. cbn [existsb] in Hh. rewrite H1, orb_true_r in Hh. discriminate.
  - exists s, m, (Err VOverflow). split; [reflexivity|]. split; [auto|].
    exists 0. split; [apply GMoved_refl|]. cbn [rc_res rk_of fst snd].
    split; [apply LogRes_clean; [exact Hc|lia|lia]|]. split; [lia|].
    intros _ Hj. split; [lia|]. intros E. exfalso. apply Hnj; [|exact Hj|exact E].
    unfold in_bounds in Hb. lia.
Qed.
