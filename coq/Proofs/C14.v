(* C14 proofs *)
From VM Require Import Prelude.MachInt Prelude.Outcome Prelude.Tok Prelude.C1314List Impl.Io Impl.IoGuest Spec.C14 Suite.C14.

Lemma amount_le_lemma : forall b len, amount b len <= len.
Proof. intros [] len; cbn [amount]; lia. Qed.
