(* C14 proofs.  Structure:
     1. facts about the call log (k_done) and the script,
     2. [Moved]: what one or several stream calls did to the stream and to host memory,
     3. specs of one call, of retry_eintr, of the exact loop on scripted streams (induction on fuel,
        for scripts of any length),
     4. the address map (idx_of / flat_write / flat_read) on contiguous runs,
     5. slice, region and guest-memory operations,
     6. the checker on the model. *)
From VM Require Import Prelude.MachInt Prelude.Outcome Prelude.Tok Prelude.C1314List Impl.Io Impl.IoGuest Spec.C14 Suite.C14.

Lemma amount_le_lemma : forall b len, amount b len <= len.
Proof. intros [] len; cbn [amount]; lia. Qed.

(* ------------------------------------------------------------------ 1. logs *)
Definition Clean (d : list beh) : Prop := existsb is_hard d = false /\ is_eintr (last d Zero) = false.
Definition HardEnd (d : list beh) : Prop := is_hard (last d Zero) = true /\ existsb is_hard (removelast d) = false.
(* what the checker demands of the log and the result kind *)
Definition LogRes (d : list beh) (rk : N) : Prop :=
  rk <> 4 /\ is_eintr (last d Zero) = false /\
  (if existsb is_hard d then rk = 5 /\ existsb is_hard (removelast d) = false else rk <> 5).

Lemma last_snoc {A} (l : list A) x d : last (l ++ [x]) d = x.
Proof. induction l as [|a l IH]; [reflexivity|]. cbn [app]. destruct (l ++ [x]) eqn:E; [destruct l; discriminate|]. cbn [last]. exact IH. Qed.
Lemma removelast_snoc {A} (l : list A) x : removelast (l ++ [x]) = l.
Proof. rewrite removelast_app by discriminate. cbn [removelast]. apply app_nil_r. Qed.
Lemma existsb_hard_eintrs j : existsb is_hard (repeat Eintr j) = false.
Proof. induction j; [reflexivity|]. cbn [repeat existsb is_hard orb]. exact IHj. Qed.

Lemma Clean_nil : Clean [].
Proof. split; reflexivity. Qed.
Lemma Clean_step d j b : Clean d -> is_eintr b = false -> is_hard b = false -> Clean (d ++ repeat Eintr j ++ [b]).
Proof.
  intros [H1 _] Hb Hh. split.
  - rewrite !existsb_app, H1, existsb_hard_eintrs. cbn [existsb orb]. rewrite Hh. reflexivity.
  - rewrite app_assoc, last_snoc. exact Hb.
Qed.
Lemma HardEnd_step d j : Clean d -> HardEnd (d ++ repeat Eintr j ++ [HardErr]).
Proof.
  intros [H1 _]. split.
  - rewrite app_assoc, last_snoc. reflexivity.
  - rewrite app_assoc, removelast_snoc, existsb_app, H1, existsb_hard_eintrs. reflexivity.
Qed.
Lemma LogRes_clean d rk : Clean d -> rk <> 4 -> rk <> 5 -> LogRes d rk.
Proof. intros [H1 H2] H4 H5. unfold LogRes. rewrite H1. auto. Qed.
Lemma LogRes_hard d : HardEnd d -> LogRes d 5.
Proof.
  intros [H1 H2]. unfold LogRes. split; [lia|]. split.
  - destruct (last d Zero); try discriminate. reflexivity.
  - assert (E : existsb is_hard d = true).
    { destruct d as [|x d] using rev_ind; [discriminate|]. rewrite last_snoc in H1.
      rewrite existsb_app. cbn [existsb]. rewrite H1. rewrite orb_true_r. reflexivity. }
    rewrite E. auto.
Qed.

(* the log is the script followed by Zeros *)
Definition LogInv (sc : list beh) (s : sstream) : Prop :=
  exists z, k_done s ++ k_script s = sc ++ repeat Zero z.
Lemma LogInv_advance sc s src sink : LogInv sc s -> LogInv sc (advance s src sink).
Proof.
  intros [z H]. unfold LogInv, advance, next_beh. cbn [k_done k_script].
  destruct (k_script s) as [|b t] eqn:E; cbn [hd tl].
  - exists (S z). rewrite app_nil_r in *. rewrite H.
    replace (S z) with (z + 1)%nat by lia. rewrite repeat_app. cbn [repeat]. rewrite app_assoc. reflexivity.
  - exists z. rewrite <- app_assoc. cbn [app]. exact H.
Qed.
Lemma firstn_repeat_zero (n z : nat) : (n <= z)%nat -> firstn n (repeat Zero z) = repeat Zero n.
Proof.
  revert z; induction n as [|n IH]; intros z Hz; [reflexivity|].
  destruct z as [|z]; [lia|]. cbn [repeat firstn]. f_equal. apply IH. lia.
Qed.
Lemma firstn_script_zeros (sc : list beh) : forall n z z', (n <= length sc + z)%nat -> (n <= length sc + z')%nat ->
  firstn n (sc ++ repeat Zero z) = firstn n (sc ++ repeat Zero z').
Proof.
  induction sc as [|b sc IH]; intros n z z' H1 H2.
  - cbn [app length] in *. rewrite !firstn_repeat_zero by lia. reflexivity.
  - destruct n as [|n]; [reflexivity|]. cbn [app firstn]. f_equal. apply IH; cbn [length] in *; lia.
Qed.
Lemma LogInv_calls_made sc s : LogInv sc s -> calls_made sc (nlen (k_done s)) = k_done s.
Proof.
  intros [z H]. unfold calls_made, nlen. rewrite Nat2N.id.
  assert (Hl : (length (k_done s) <= length sc + z)%nat).
  { apply (f_equal (@length beh)) in H. rewrite !app_length, repeat_length in H. lia. }
  rewrite (firstn_script_zeros sc _ _ z) by lia. rewrite <- H.
  rewrite firstn_app, Nat.sub_diag, firstn_all. cbn [firstn]. apply app_nil_r.
Qed.

(* ------------------------------------------------------------------ 2. Moved *)
Definition callb (rd : bool) : callT sstream := if rd then sr_call else sw_call.

(* k bytes went from the reader to host memory at index base (rd) / from there to the writer *)
Definition Moved (rd : bool) (s : sstream) (m : list N) (base k : N) (s' : sstream) (m' : list N) : Prop :=
  if rd then k_src s' = ndrop k (k_src s) /\ k <= nlen (k_src s) /\ m' = mem_write m base (ntake k (k_src s))
            /\ k_sink s' = k_sink s
  else k_sink s' = k_sink s ++ mem_read m base k /\ m' = m /\ k_src s' = k_src s.

Lemma Moved_refl rd s m base : Moved rd s m base 0 s m.
Proof.
  destruct rd; cbn [Moved].
  - rewrite ndrop_0, ntake_0, mem_write_nil. repeat split; try reflexivity. lia.
  - unfold mem_read. rewrite ntake_0, app_nil_r. auto.
Qed.
Lemma Moved_same rd s m base s' : k_src s' = k_src s -> k_sink s' = k_sink s -> Moved rd s m base 0 s' m.
Proof.
  intros H1 H2. destruct rd; cbn [Moved].
  - rewrite ndrop_0, ntake_0, mem_write_nil. repeat split; auto. lia.
  - unfold mem_read. rewrite ntake_0, app_nil_r. auto.
Qed.
Lemma mem_read_app m base k1 k2 : mem_read m base (k1 + k2) = mem_read m base k1 ++ mem_read m (base + k1) k2.
Proof. unfold mem_read. rewrite ntake_app_ndrop, ndrop_ndrop. reflexivity. Qed.
Lemma ntake_min_len {A} a (l : list A) : ntake (N.min a (nlen l)) l = ntake a l.
Proof.
  destruct (N.le_ge_cases a (nlen l)) as [H|H].
  - rewrite N.min_l by lia. reflexivity.
  - rewrite N.min_r by lia. rewrite !ntake_all by lia. reflexivity.
Qed.
Lemma Moved_trans rd s m base k1 s1 m1 k2 s2 m2 : base + k1 + k2 <= nlen m ->
  Moved rd s m base k1 s1 m1 -> Moved rd s1 m1 (base + k1) k2 s2 m2 -> Moved rd s m base (k1 + k2) s2 m2.
Proof.
  intros Hb. destruct rd; cbn [Moved].
  - intros (A1 & A2 & A3 & A4) (B1 & B2 & B3 & B4). rewrite A1 in B1, B2, B3. rewrite nlen_ndrop in B2.
    repeat split.
    + rewrite B1, ndrop_ndrop. reflexivity.
    + lia.
    + rewrite B3, A3. rewrite ntake_app_ndrop.
      replace (base + k1) with (base + nlen (ntake k1 (k_src s))) by (rewrite nlen_ntake; lia).
      apply mem_write_app. rewrite nlen_ntake. lia.
    + congruence.
  - intros (A1 & A2 & A3) (B1 & B2 & B3). subst m1 m2. repeat split; try congruence.
    rewrite B1, A1, mem_read_app, app_assoc. reflexivity.
Qed.

(* ------------------------------------------------------------------ 3. calls and loops *)
Definition in_bounds (v : vslice) (m : list N) : Prop := vs_off v + vs_len v <= nlen m.

Lemma call_spec rd s m v : in_bounds v m ->
  exists s' m' r, callb rd s m v = Val ((s', m'), r)
    /\ k_done s' = k_done s ++ [next_beh s] /\ k_script s' = tl (k_script s)
    /\ (forall sc, LogInv sc s -> LogInv sc s')
    /\ match next_beh s with
       | Eintr => r = Err (VIo EInterrupted) /\ Moved rd s m (vs_off v) 0 s' m'
       | HardErr => r = Err (VIo EOther) /\ Moved rd s m (vs_off v) 0 s' m'
       | b => exists k, r = Ok k /\ k <= vs_len v /\ Moved rd s m (vs_off v) k s' m'
                        /\ (0 < k -> k_script s <> [])
       end.
Proof.
  intros Hb. unfold callb.
  assert (Hz : forall k, 0 < k -> k <= amount (next_beh s) (vs_len v) -> next_beh s <> Zero -> k_script s <> []).
  { intros k Hk Hle Hn E. unfold next_beh in *. rewrite E in *. cbn [hd] in *. congruence. }
  destruct rd.
  - unfold sr_call. destruct (next_beh s) eqn:E;
      (eexists; eexists; eexists; split; [reflexivity|]; cbn [k_done k_script advance];
       rewrite ?E; split; [reflexivity|]; split; [reflexivity|]; split; [intros sc; apply LogInv_advance|]).
    1,2,3: (eexists; split; [reflexivity|]; rewrite nlen_ntake; split;
            [pose proof (amount_le_lemma (next_beh s) (vs_len v)) as Ha; rewrite E in Ha; lia|]; split;
            [cbn [Moved advance k_src k_sink]; rewrite ntake_min_len; repeat split; lia|]).
    + intros Hk. unfold next_beh in E. destruct (k_script s); [discriminate|discriminate].
    + intros Hk. unfold next_beh in E. destruct (k_script s); [discriminate|discriminate].
    + cbn [amount]. rewrite N.min_0_l. lia.
    + split; [reflexivity|]. apply Moved_same; reflexivity.
    + split; [reflexivity|]. apply Moved_same; reflexivity.
  - unfold sw_call. destruct (next_beh s) eqn:E;
      (eexists; eexists; eexists; split; [reflexivity|]; cbn [k_done k_script advance];
       rewrite ?E; split; [reflexivity|]; split; [reflexivity|]; split; [intros sc; apply LogInv_advance|]).
    1,2,3: (eexists; split; [reflexivity|]; split;
            [pose proof (amount_le_lemma (next_beh s) (vs_len v)) as Ha; rewrite E in Ha; exact Ha|]; split;
            [cbn [Moved advance k_src k_sink]; repeat split|]).
    + intros Hk. unfold next_beh in E. destruct (k_script s); discriminate.
    + intros Hk. unfold next_beh in E. destruct (k_script s); discriminate.
    + cbn [amount]. lia.
    + split; [reflexivity|]. apply Moved_same; reflexivity.
    + split; [reflexivity|]. apply Moved_same; reflexivity.
Qed.

Lemma Moved_zero_mem rd s m base s' m' : Moved rd s m base 0 s' m' -> m' = m.
Proof.
  destruct rd; cbn [Moved].
  - intros (_ & _ & H & _). rewrite ntake_0, mem_write_nil in H. exact H.
  - intros (_ & H & _). exact H.
Qed.
Lemma Moved_len rd s m base k s' m' : base + k <= nlen m -> Moved rd s m base k s' m' -> nlen m' = nlen m.
Proof.
  intros Hb. destruct rd; cbn [Moved].
  - intros (_ & Hk & H & _). subst m'. apply mem_write_length. rewrite nlen_ntake. lia.
  - intros (_ & H & _). subst. reflexivity.
Qed.

Lemma retry_spec rd : forall fuel s m v, (length (k_script s) < fuel)%nat -> in_bounds v m ->
  exists s' m' r j b k, retry_eintr fuel (callb rd) s m v = Val ((s', m'), r)
    /\ k_done s' = k_done s ++ repeat Eintr j ++ [b] /\ is_eintr b = false
    /\ (length (k_script s') <= length (k_script s))%nat
    /\ (forall sc, LogInv sc s -> LogInv sc s')
    /\ Moved rd s m (vs_off v) k s' m' /\ k <= vs_len v
    /\ (0 < k -> (length (k_script s') < length (k_script s))%nat)
    /\ ((is_hard b = true /\ r = Err (VIo EOther) /\ k = 0) \/ (is_hard b = false /\ r = Ok k)).
Proof.
  induction fuel as [|f IH]; intros s m v Hf Hb; [lia|].
  cbn [retry_eintr].
  destruct (call_spec rd s m v Hb) as (s1 & m1 & r1 & Hc & Hd & Hs & Hl & Hcase).
  rewrite Hc. cbn [bind].
  assert (Hlen : (length (k_script s1) <= length (k_script s))%nat).
  { rewrite Hs. destruct (k_script s); cbn [tl length]; lia. }
  destruct (next_beh s) eqn:E.
  - (* Full *) destruct Hcase as (k & -> & Hk & HM & Hne).
    exists s1, m1, (Ok k), 0%nat, Full, k. cbn [repeat app]. repeat split; auto.
    intros Hk0. apply Hne in Hk0. rewrite Hs. destruct (k_script s); [congruence|cbn [tl length]; lia].
  - (* Short *) destruct Hcase as (k' & -> & Hk & HM & Hne).
    exists s1, m1, (Ok k'), 0%nat, (Short k), k'. cbn [repeat app]. repeat split; auto.
    intros Hk0. apply Hne in Hk0. rewrite Hs. destruct (k_script s); [congruence|cbn [tl length]; lia].
  - (* Zero *) destruct Hcase as (k & -> & Hk & HM & Hne).
    exists s1, m1, (Ok k), 0%nat, Zero, k. cbn [repeat app]. repeat split; auto.
    intros Hk0. apply Hne in Hk0. rewrite Hs. destruct (k_script s); [congruence|cbn [tl length]; lia].
  - (* Eintr: retried *) destruct Hcase as (-> & HM).
    assert (Hm1 : m1 = m) by (eapply Moved_zero_mem; exact HM). subst m1.
    assert (Hne : k_script s <> []).
    { intros E0. unfold next_beh in E. rewrite E0 in E. discriminate. }
    assert (Hf1 : (length (k_script s1) < f)%nat).
    { rewrite Hs. destruct (k_script s); [congruence|cbn [tl length] in *; lia]. }
    destruct (IH s1 m v Hf1 Hb) as (s2 & m2 & r2 & j & b & k & Hr & Hd2 & Hb2 & Hl2 & Hli2 & HM2 & Hk2 & Hp2 & Hres).
    exists s2, m2, r2, (S j), b, k. split; [exact Hr|]. split.
    { rewrite Hd2, Hd. rewrite <- app_assoc. reflexivity. }
    split; [exact Hb2|]. split; [lia|]. split; [auto|]. split.
    { replace k with (0 + k) by lia. eapply Moved_trans; [|exact HM|rewrite N.add_0_r; exact HM2].
      unfold in_bounds in Hb. lia. }
    split; [exact Hk2|]. split; [intros Hk0; specialize (Hp2 Hk0); lia|]. exact Hres.
  - (* HardErr *) destruct Hcase as (-> & HM).
    exists s1, m1, (Err (VIo EOther)), 0%nat, HardErr, 0. cbn [repeat app]. repeat split; auto; try lia.
Qed.

Lemma vs_offset_ok v n : vs_addr v + vs_len v < W64 -> n <= vs_len v ->
  vs_offset v n = Ok {| vs_addr := vs_addr v + n; vs_off := vs_off v + n; vs_len := vs_len v - n |}.
Proof.
  intros Ha Hn. unfold vs_offset, checked_add, checked_sub.
  destruct (N.ltb_spec (vs_addr v + n) W64); [|lia]. destruct (N.leb_spec n (vs_len v)); [|lia]. reflexivity.
Qed.
Lemma vs_offset_err v n : vs_len v < n -> exists e, vs_offset v n = Err e /\ (e = VOutOfBounds \/ e = VOverflow).
Proof.
  intros Hn. unfold vs_offset, checked_add, checked_sub.
  destruct (N.ltb_spec (vs_addr v + n) W64); [|eauto]. destruct (N.leb_spec n (vs_len v)); [lia|eauto].
Qed.

Lemma exact_loop_spec rd zerr fi : forall fuel s m pb,
  (length (k_script s) < fuel)%nat -> (length (k_script s) < fi)%nat -> in_bounds pb m ->
  vs_addr pb + vs_len pb < W64 -> Clean (k_done s) ->
  exists s' m' r k, exact_loop zerr fi fuel (callb rd) s m pb = Val ((s', m'), r)
    /\ Moved rd s m (vs_off pb) k s' m' /\ k <= vs_len pb
    /\ (length (k_script s') <= length (k_script s))%nat
    /\ (0 < k -> (length (k_script s') < length (k_script s))%nat)
    /\ (forall sc, LogInv sc s -> LogInv sc s')
    /\ ((r = Ok tt /\ k = vs_len pb /\ Clean (k_done s'))
        \/ (r = Err (VIo zerr) /\ k < vs_len pb /\ Clean (k_done s'))
        \/ (r = Err (VIo EOther) /\ k < vs_len pb /\ HardEnd (k_done s'))).
Proof.
  induction fuel as [|f IH]; intros s m pb Hf Hfi Hb Ha Hc; [lia|].
  cbn [exact_loop]. destruct (N.eqb_spec (vs_len pb) 0) as [Hz|Hz].
  - exists s, m, (Ok tt), 0. split; [reflexivity|]. split; [apply Moved_refl|]. split; [lia|].
    split; [lia|]. split; [lia|]. split; [auto|]. left. auto.
  - destruct (retry_spec rd fi s m pb Hfi Hb)
      as (s1 & m1 & r1 & j & b & k & Hr & Hd & Hbe & Hl & Hli & HM & Hk & Hp & Hres).
    rewrite Hr. cbn [bind].
    destruct Hres as [(Hh & -> & ->)|(Hh & ->)].
    + (* hard error *)
      exists s1, m1, (Err (VIo EOther)), 0. split; [reflexivity|]. split; [exact HM|]. split; [lia|].
      split; [exact Hl|]. split; [lia|]. split; [exact Hli|]. right. right. split; [reflexivity|]. split; [lia|].
      rewrite Hd. destruct b; try discriminate. apply HardEnd_step. exact Hc.
    + assert (Hc1 : Clean (k_done s1)) by (rewrite Hd; apply Clean_step; assumption).
      destruct (N.eqb_spec k 0) as [Hk0|Hk0].
      * subst k. exists s1, m1, (Err (VIo zerr)), 0. split; [reflexivity|]. split; [exact HM|]. split; [lia|].
        split; [exact Hl|]. split; [lia|]. split; [exact Hli|]. right. left. split; [reflexivity|]. split; [lia|]. exact Hc1.
      * rewrite (vs_offset_ok pb k Ha Hk).
        assert (Hlm : nlen m1 = nlen m) by (eapply Moved_len; [|exact HM]; unfold in_bounds in Hb; lia).
        set (pb' := {| vs_addr := vs_addr pb + k; vs_off := vs_off pb + k; vs_len := vs_len pb - k |}).
        assert (Hlt : (length (k_script s1) < length (k_script s))%nat) by (apply Hp; lia).
        destruct (IH s1 m1 pb') as (s2 & m2 & r2 & k2 & He & HM2 & Hk2 & Hl2 & Hp2 & Hli2 & Hres2).
        { lia. } { lia. }
        { unfold in_bounds, pb' in *. cbn [vs_off vs_len]. lia. }
        { unfold pb'. cbn [vs_addr vs_len]. lia. }
        { exact Hc1. }
        exists s2, m2, r2, (k + k2). split; [exact He|]. unfold pb' in *. cbn [vs_off vs_len] in *.
        split. { eapply Moved_trans; [|exact HM|exact HM2]. unfold in_bounds in Hb. lia. }
        split; [lia|]. split; [lia|]. split; [lia|]. split; [auto|].
        destruct Hres2 as [(-> & Hk2e & Hc2)|[(-> & Hk2e & Hc2)|(-> & Hk2e & Hc2)]].
        -- left. split; [reflexivity|]. split; [lia|exact Hc2].
        -- right. left. split; [reflexivity|]. split; [lia|exact Hc2].
        -- right. right. split; [reflexivity|]. split; [lia|exact Hc2].
Qed.

(* ------------------------------------------------------------------ 4. the address map on runs *)
(* addresses a .. a+k-1 of the target are the host bytes j .. j+k-1 *)
Definition Run (t : target) (m : list N) (a j k : N) : Prop :=
  (forall i, i < k -> idx_of t (a + i) = Some (j + i)) /\ j + k <= nlen m.

Lemma flat_write_run t : forall bs m a j, Run t m a j (nlen bs) -> flat_write t m a bs = Some (mem_write m j bs).
Proof.
  induction bs as [|b rest IH]; intros m a j [Hi Hb].
  - cbn [flat_write]. rewrite mem_write_nil. reflexivity.
  - rewrite nlen_cons in *. cbn [flat_write].
    assert (H0 : idx_of t a = Some j).
    { specialize (Hi 0). rewrite !N.add_0_r in Hi. apply Hi. lia. }
    rewrite H0. destruct (N.ltb_spec j (nlen m)); [|lia].
    assert (Hl : nlen (mem_write m j [b]) = nlen m) by (apply mem_write_length; cbn; lia).
    rewrite (IH _ (a + 1) (j + 1)).
    + f_equal. replace (j + 1) with (j + nlen [b]) by (cbn; lia).
      rewrite mem_write_app by (cbn; lia). reflexivity.
    + split; [|lia]. intros i Hlt. specialize (Hi (1 + i)).
      replace (a + 1 + i) with (a + (1 + i)) by lia. replace (j + 1 + i) with (j + (1 + i)) by lia. apply Hi. lia.
Qed.
Lemma flat_write_app t : forall xs ys m a,
  flat_write t m a (xs ++ ys) =
  match flat_write t m a xs with Some m1 => flat_write t m1 (a + nlen xs) ys | None => None end.
Proof.
  induction xs as [|x xs IH]; intros ys m a.
  - cbn [app flat_write nlen length]. rewrite N.add_0_r. reflexivity.
  - cbn [app flat_write]. destruct (idx_of t a) as [j|]; [|reflexivity].
    destruct (j <? nlen m); [|reflexivity]. rewrite IH. rewrite nlen_cons.
    replace (a + 1 + nlen xs) with (a + (1 + nlen xs)) by lia. reflexivity.
Qed.
Lemma mem_read_one m j b : nth_error m (N.to_nat j) = Some b -> mem_read m j 1 = [b].
Proof.
  intros H. unfold mem_read, ntake, ndrop.
  assert (E : nth_error (skipn (N.to_nat j) m) 0 = Some b) by (rewrite nth_error_skipn_c, Nat.add_0_r; exact H).
  destruct (skipn (N.to_nat j) m) as [|x r]; [discriminate|]. cbn in E. inversion E. reflexivity.
Qed.
Lemma flat_read_run t m : forall n a j, Run t m a j (N.of_nat n) -> flat_read t m a n = Some (mem_read m j (N.of_nat n)).
Proof.
  induction n as [|n IH]; intros a j [Hi Hb].
  - reflexivity.
  - cbn [flat_read].
    assert (H0 : idx_of t a = Some j).
    { specialize (Hi 0). rewrite !N.add_0_r in Hi. apply Hi. lia. }
    rewrite H0.
    destruct (nth_error m (N.to_nat j)) as [b|] eqn:E.
    2:{ apply nth_error_None in E. unfold nlen in Hb. lia. }
    rewrite (IH (a + 1) (j + 1)).
    + f_equal. replace (N.of_nat (S n)) with (1 + N.of_nat n) by lia.
      rewrite mem_read_app, (mem_read_one _ _ _ E). reflexivity.
    + split; [|lia]. intros i Hlt. specialize (Hi (1 + i)).
      replace (a + 1 + i) with (a + (1 + i)) by lia. replace (j + 1 + i) with (j + (1 + i)) by lia. apply Hi. lia.
Qed.
Lemma flat_read_app t m : forall n1 n2 a,
  flat_read t m a (n1 + n2) =
  match flat_read t m a n1, flat_read t m (a + N.of_nat n1) n2 with
  | Some x, Some y => Some (x ++ y) | _, _ => None end.
Proof.
  induction n1 as [|n1 IH]; intros n2 a.
  - cbn [Nat.add flat_read app]. rewrite N.add_0_r. destruct (flat_read t m a n2); reflexivity.
  - cbn [Nat.add flat_read]. destruct (idx_of t a) as [j|]; [|reflexivity].
    destruct (nth_error m (N.to_nat j)) as [b|]; [|reflexivity].
    rewrite IH. replace (a + 1 + N.of_nat n1) with (a + N.of_nat (S n1)) by lia.
    destruct (flat_read t m (a + 1) n1); [|reflexivity].
    destruct (flat_read t m (a + N.of_nat (S n1)) n2); reflexivity.
Qed.
Lemma flat_read_length t m : forall n a l, flat_read t m a n = Some l -> length l = n.
Proof.
  induction n as [|n IH]; intros a l H; cbn [flat_read] in H.
  - inversion H. reflexivity.
  - destruct (idx_of t a); [|discriminate]. destruct (nth_error m (N.to_nat n0)); [|discriminate].
    destruct (flat_read t m (a + 1) n) eqn:E; [|discriminate]. inversion H. cbn [length]. f_equal. eapply IH. exact E.
Qed.

(* k bytes went from the reader to target addresses a.. (rd) / from there to the writer *)
Definition GMoved (rd : bool) (t : target) (s : sstream) (m : list N) (a k : N) (s' : sstream) (m' : list N) : Prop :=
  if rd then k_src s' = ndrop k (k_src s) /\ k <= nlen (k_src s)
            /\ flat_write t m a (ntake k (k_src s)) = Some m' /\ k_sink s' = k_sink s
  else exists bs, flat_read t m a (N.to_nat k) = Some bs /\ k_sink s' = k_sink s ++ bs /\ m' = m /\ k_src s' = k_src s.

Lemma Moved_GMoved rd t s m a j k s' m' : Run t m a j k -> Moved rd s m j k s' m' -> GMoved rd t s m a k s' m'.
Proof.
  intros HR. destruct rd; cbn [Moved GMoved].
  - intros (A1 & A2 & A3 & A4). repeat split; auto. subst m'. apply flat_write_run.
    rewrite nlen_ntake. replace (N.min k (nlen (k_src s))) with k by lia. exact HR.
  - intros (A1 & A2 & A3). exists (mem_read m j k). repeat split; auto.
    rewrite <- (N2Nat.id k) at 2. apply flat_read_run. rewrite N2Nat.id. exact HR.
Qed.
Lemma GMoved_refl rd t s m a : GMoved rd t s m a 0 s m.
Proof.
  destruct rd; cbn [GMoved].
  - rewrite ndrop_0, ntake_0. cbn [flat_write]. repeat split; auto. lia.
  - exists []. cbn [N.to_nat flat_read]. rewrite app_nil_r. auto.
Qed.
Lemma GMoved_trans rd t s m a k1 s1 m1 k2 s2 m2 :
  GMoved rd t s m a k1 s1 m1 -> GMoved rd t s1 m1 (a + k1) k2 s2 m2 -> GMoved rd t s m a (k1 + k2) s2 m2.
Proof.
  destruct rd; cbn [GMoved].
  - intros (A1 & A2 & A3 & A4) (B1 & B2 & B3 & B4). rewrite A1 in B1, B2, B3. rewrite nlen_ndrop in B2.
    repeat split.
    + rewrite B1, ndrop_ndrop. reflexivity.
    + lia.
    + rewrite ntake_app_ndrop, flat_write_app, A3. rewrite nlen_ntake.
      replace (N.min k1 (nlen (k_src s))) with k1 by lia. exact B3.
    + congruence.
  - intros (b1 & A1 & A2 & A3 & A4) (b2 & B1 & B2 & B3 & B4). subst m1 m2.
    exists (b1 ++ b2). repeat split; try congruence.
    + rewrite N2Nat.inj_add, flat_read_app, A1. rewrite N2Nat.id, B1. reflexivity.
    + rewrite B2, A2, app_assoc. reflexivity.
Qed.

(* ------------------------------------------------------------------ 5a. slices and regions *)
Definition judged (t : target) (addr count : N) : Prop := 0 < count \/ idx_of t addr <> None.
Definition rk_of (rc : N * N * N) : N := fst (fst rc).
(* what the checker demands, as a proposition about the final state of the model *)
Definition Post (rd exact : bool) (t : target) (addr count : N) (s0 : sstream) (m0 : list N)
  (s' : sstream) (m' : list N) (rc : N * N * N) : Prop :=
  exists k, GMoved rd t s0 m0 addr k s' m' /\ k <= count /\ LogRes (k_done s') (rk_of rc) /\
    (if exact then rk_of rc <> 0 /\
                   (existsb is_hard (k_done s') = false -> judged t addr count -> (rk_of rc = 1 <-> k = count))
     else rk_of rc <> 1 /\ (rk_of rc = 0 -> snd (fst rc) = k)).

Definition window_of (t : target) (self : vslice) : Prop :=
  forall a, idx_of t a = if a <? vs_len self then Some (vs_off self + a) else None.

Lemma vs_upto_post (rd : bool) t self fuel s m addr count :
  window_of t self -> in_bounds self m -> vs_addr self + vs_len self < W64 ->
  (length (k_script s) < fuel)%nat -> Clean (k_done s) ->
  exists s' m' r, vs_upto fuel (callb rd) self addr s m count = Val ((s', m'), r)
    /\ (forall sc, LogInv sc s -> LogInv sc s')
    /\ Post rd false t addr count s m s' m' (rc_res okc_n r).
Proof.
  intros Hw Hb Ha Hf Hc. unfold vs_upto.
  destruct (N.le_gt_cases addr (vs_len self)) as [Hle|Hgt].
  - rewrite (vs_offset_ok self addr Ha Hle).
    set (sl := {| vs_addr := vs_addr self + addr; vs_off := vs_off self + addr; vs_len := vs_len self - addr |}).
    set (n := N.min (vs_len sl) count).
    assert (Hn : n <= vs_len self - addr) by (unfold n, sl; cbn [vs_len]; lia).
    unfold vs_subslice, checked_add. rewrite N.add_0_l.
    destruct (N.ltb_spec n W64) as [_|Hbad]; [|lia].
    destruct (N.ltb_spec (vs_len sl) n) as [Hbad|_]; [unfold sl in Hbad; cbn [vs_len] in Hbad; lia|].
    set (sl2 := {| vs_addr := vs_addr sl + 0; vs_off := vs_off sl + 0; vs_len := n |}).
    assert (Hb2 : in_bounds sl2 m).
    { unfold in_bounds, sl2, sl in *. cbn [vs_off vs_len]. lia. }
    destruct (retry_spec rd fuel s m sl2 Hf Hb2)
      as (s1 & m1 & r1 & j & b & k & Hr & Hd & Hbe & Hl & Hli & HM & Hk & Hp & Hres).
    exists s1, m1, r1. split; [exact Hr|]. split; [exact Hli|].
    exists k. split.
    { eapply Moved_GMoved; [|exact HM]. split.
      - intros i Hi. rewrite Hw. unfold sl2, sl in *. cbn [vs_off vs_len] in *.
        destruct (N.ltb_spec (addr + i) (vs_len self)); [f_equal; lia|lia].
      - unfold in_bounds, sl2, sl in *. cbn [vs_off vs_len] in *. lia. }
    split. { unfold sl2 in Hk. cbn [vs_len] in Hk. unfold n in Hk. lia. }
    destruct Hres as [(Hh & -> & ->)|(Hh & ->)].
    + cbn [rc_res rk_of fst snd rc_io]. split.
      * apply LogRes_hard. rewrite Hd. destruct b; try discriminate. apply HardEnd_step. exact Hc.
      * split; [lia|intros; lia].
    + cbn [rc_res rk_of fst snd okc_n]. split.
      * apply LogRes_clean; [|lia|lia]. rewrite Hd. apply Clean_step; assumption.
      * split; [lia|reflexivity].
  - destruct (vs_offset_err self addr Hgt) as (e & -> & He).
    exists s, m, (Err e). split; [reflexivity|]. split; [auto|].
    exists 0. split; [apply GMoved_refl|]. split; [lia|].
    assert (E : rc_res okc_n (@Err N e) = (6, 0, 0)) by (destruct He; subst; reflexivity).
    rewrite E. cbn [rk_of fst snd]. split; [apply LogRes_clean; [exact Hc|lia|lia]|]. split; [lia|intros; lia].
Qed.

Lemma vs_exact_post (rd : bool) t self fuel s m addr count :
  window_of t self -> in_bounds self m -> vs_addr self + vs_len self < W64 ->
  (length (k_script s) < fuel)%nat -> Clean (k_done s) -> addr < W64 -> count < W64 ->
  exists s' m' r, vs_exact (if rd then EUnexpectedEof else EWriteZero) fuel (callb rd) self addr s m count = Val ((s', m'), r)
    /\ (forall sc, LogInv sc s -> LogInv sc s')
    /\ Post rd true t addr count s m s' m' (rc_res okc_u r).
Proof.
  intros Hw Hb Ha Hf Hc Haddr Hcount. unfold vs_exact, vs_subslice, checked_add.
  assert (Hnj : vs_len self < addr + count -> judged t addr count -> 0 <> count).
  { intros Hlt [Hj|Hj]; [lia|]. rewrite Hw in Hj. destruct (N.ltb_spec addr (vs_len self)); [lia|congruence]. }
  destruct (N.ltb_spec (addr + count) W64) as [Hfit|Hovf].
  - destruct (N.ltb_spec (vs_len self) (addr + count)) as [Hout|Hin].
    + exists s, m, (Err VOutOfBounds). split; [reflexivity|]. split; [auto|].
      exists 0. split; [apply GMoved_refl|]. split; [lia|]. cbn [rc_res rk_of fst snd].
      split; [apply LogRes_clean; [exact Hc|lia|lia]|]. split; [lia|].
      intros _ Hj. split; [lia|]. intros E. exfalso. apply (Hnj Hout Hj). exact E.
    + set (sl := {| vs_addr := vs_addr self + addr; vs_off := vs_off self + addr; vs_len := count |}).
      unfold exact_volatile.
      rewrite (vs_offset_ok sl 0) by (unfold sl; cbn [vs_addr vs_len]; lia).
      set (pb := {| vs_addr := vs_addr sl + 0; vs_off := vs_off sl + 0; vs_len := vs_len sl - 0 |}).
      destruct (exact_loop_spec rd (if rd then EUnexpectedEof else EWriteZero) fuel fuel s m pb)
        as (s1 & m1 & r1 & k & He & HM & Hk & Hl & Hp & Hli & Hres); auto.
      { unfold in_bounds, pb, sl in *. cbn [vs_off vs_len]. lia. }
      { unfold pb, sl. cbn [vs_addr vs_len]. lia. }
      exists s1, m1, r1. split; [exact He|]. split; [exact Hli|].
      exists k. split.
      { eapply Moved_GMoved; [|exact HM]. unfold pb, sl in *. cbn [vs_off vs_len] in *. split.
        - intros i Hi. rewrite Hw. destruct (N.ltb_spec (addr + i) (vs_len self)); [f_equal; lia|lia].
        - unfold in_bounds in Hb. lia. }
      unfold pb, sl in Hk, Hres. cbn [vs_len] in Hk, Hres. split; [lia|].
      destruct Hres as [(-> & Hke & Hc1)|[(-> & Hke & Hc1)|(-> & Hke & Hc1)]].
      * cbn [rc_res rk_of fst snd okc_u]. split; [apply LogRes_clean; [exact Hc1|lia|lia]|]. split; [lia|].
        intros _ _. split; [lia|reflexivity].
      * assert (E : rk_of (rc_res okc_u (@Err unit (VIo (if rd then EUnexpectedEof else EWriteZero)))) = (if rd then 2 else 3))
          by (destruct rd; reflexivity).
        rewrite E. split; [apply LogRes_clean; [exact Hc1|destruct rd; lia|destruct rd; lia]|].
        split; [destruct rd; lia|]. intros _ _. split; [destruct rd; lia|lia].
      * cbn [rc_res rk_of fst snd rc_io]. split; [apply LogRes_hard; exact Hc1|]. split; [lia|].
        intros Hh. exfalso. destruct Hc1 as [H1 _]. clear - H1 Hh.
        destruct (k_done s1) as [|x d] using rev_ind; [discriminate|]. rewrite last_snoc in H1.
        rewrite existsb_app in Hh. cbn [existsb] in Hh. rewrite H1, orb_true_r in Hh. discriminate.
  - exists s, m, (Err VOverflow). split; [reflexivity|]. split; [auto|].
    exists 0. split; [apply GMoved_refl|]. split; [lia|]. cbn [rc_res rk_of fst snd].
    split; [apply LogRes_clean; [exact Hc|lia|lia]|]. split; [lia|].
    intros _ Hj. split; [lia|]. intros E. exfalso. apply Hnj; [|exact Hj|exact E].
    unfold in_bounds in Hb. lia.
Qed.

(* ------------------------------------------------------------------ 5b. guest memory *)
Lemma vs_upto_in (rd : bool) self fuel s m addr count :
  in_bounds self m -> vs_addr self + vs_len self < W64 -> addr <= vs_len self -> (length (k_script s) < fuel)%nat ->
  exists s' m' r j b k, vs_upto fuel (callb rd) self addr s m count = Val ((s', m'), r)
    /\ k_done s' = k_done s ++ repeat Eintr j ++ [b] /\ is_eintr b = false
    /\ (length (k_script s') <= length (k_script s))%nat
    /\ (forall sc, LogInv sc s -> LogInv sc s')
    /\ Moved rd s m (vs_off self + addr) k s' m' /\ k <= N.min (vs_len self - addr) count
    /\ (0 < k -> (length (k_script s') < length (k_script s))%nat)
    /\ ((is_hard b = true /\ r = Err (VIo EOther) /\ k = 0) \/ (is_hard b = false /\ r = Ok k)).
Proof.
  intros Hb Ha Hle Hf. unfold vs_upto. rewrite (vs_offset_ok self addr Ha Hle).
  set (sl := {| vs_addr := vs_addr self + addr; vs_off := vs_off self + addr; vs_len := vs_len self - addr |}).
  set (n := N.min (vs_len sl) count).
  assert (Hn : n <= vs_len self - addr) by (unfold n, sl; cbn [vs_len]; lia).
  unfold vs_subslice, checked_add. rewrite N.add_0_l.
  destruct (N.ltb_spec n W64) as [_|Hbad]; [|lia].
  destruct (N.ltb_spec (vs_len sl) n) as [Hbad|_]; [unfold sl in Hbad; cbn [vs_len] in Hbad; lia|].
  set (sl2 := {| vs_addr := vs_addr sl + 0; vs_off := vs_off sl + 0; vs_len := n |}).
  assert (Hb2 : in_bounds sl2 m).
  { unfold in_bounds, sl2, sl in *. cbn [vs_off vs_len]. lia. }
  destruct (retry_spec rd fuel s m sl2 Hf Hb2)
    as (s1 & m1 & r1 & j & b & k & Hr & Hd & Hbe & Hl & Hli & HM & Hk & Hp & Hres).
  exists s1, m1, r1, j, b, k. unfold sl2, sl in HM, Hk. cbn [vs_off vs_len] in HM, Hk.
  rewrite N.add_0_r in HM. unfold n, sl in Hk. cbn [vs_len] in Hk. repeat split; auto.
Qed.

Lemma vs_exact_in (rd : bool) zerr self fuel s m addr count :
  in_bounds self m -> vs_addr self + vs_len self < W64 -> addr + count <= vs_len self ->
  (length (k_script s) < fuel)%nat -> Clean (k_done s) ->
  exists s' m' r k, vs_exact zerr fuel (callb rd) self addr s m count = Val ((s', m'), r)
    /\ Moved rd s m (vs_off self + addr) k s' m' /\ k <= count
    /\ (length (k_script s') <= length (k_script s))%nat
    /\ (0 < k -> (length (k_script s') < length (k_script s))%nat)
    /\ (forall sc, LogInv sc s -> LogInv sc s')
    /\ ((r = Ok tt /\ k = count /\ Clean (k_done s'))
        \/ (r = Err (VIo zerr) /\ k < count /\ Clean (k_done s'))
        \/ (r = Err (VIo EOther) /\ k < count /\ HardEnd (k_done s'))).
Proof.
  intros Hb Ha Hle Hf Hc. unfold vs_exact, vs_subslice, checked_add.
  destruct (N.ltb_spec (addr + count) W64) as [_|Hbad]; [|unfold in_bounds in Hb; lia].
  destruct (N.ltb_spec (vs_len self) (addr + count)) as [Hbad|_]; [lia|].
  set (sl := {| vs_addr := vs_addr self + addr; vs_off := vs_off self + addr; vs_len := count |}).
  unfold exact_volatile.
  rewrite (vs_offset_ok sl 0) by (unfold sl; cbn [vs_addr vs_len]; lia).
  set (pb := {| vs_addr := vs_addr sl + 0; vs_off := vs_off sl + 0; vs_len := vs_len sl - 0 |}).
  destruct (exact_loop_spec rd zerr fuel fuel s m pb)
    as (s1 & m1 & r1 & k & He & HM & Hk & Hl & Hp & Hli & Hres); auto.
  { unfold in_bounds, pb, sl in *. cbn [vs_off vs_len]. lia. }
  { unfold pb, sl. cbn [vs_addr vs_len]. lia. }
  exists s1, m1, r1, k. unfold pb, sl in HM, Hk, Hres. cbn [vs_off vs_len] in HM, Hk, Hres.
  rewrite N.add_0_r in HM. rewrite N.sub_0_r in Hk, Hres. repeat split; auto.
Qed.

Lemma contains_iff r a : contains r a = true <-> g_start r <= a /\ a < g_start r + g_len r.
Proof.
  unfold contains. rewrite andb_true_iff, N.leb_le, N.ltb_lt. lia.
Qed.
Lemma wf_regions_in : forall L moff r, wf_regions L moff = true -> In r L ->
  0 < g_len r /\ g_start r + g_len r < W64 /\ moff <= g_moff r /\ g_moff r + g_len r <= moff + total_len L.
Proof.
  induction L as [|r0 t IH]; intros moff r Hw Hin; [destruct Hin|].
  cbn [wf_regions] in Hw. rewrite !andb_true_iff in Hw. destruct Hw as [[[[H1 H2] H3] H4] H5].
  apply N.ltb_lt in H1, H2. apply N.eqb_eq in H3. cbn [total_len fold_right]. fold (total_len t).
  destruct Hin as [->|Hin]; [lia|].
  destruct (IH _ _ H5 Hin) as (A & B & C & D). lia.
Qed.
Lemma find_unique : forall L moff r a, wf_regions L moff = true -> In r L -> contains r a = true ->
  find (fun r => contains r a) L = Some r.
Proof.
  induction L as [|r0 t IH]; intros moff r a Hw Hin Hc; [destruct Hin|].
  cbn [wf_regions] in Hw. rewrite !andb_true_iff in Hw. destruct Hw as [[[[H1 H2] H3] H4] H5].
  cbn [find]. destruct Hin as [->|Hin]; [rewrite Hc; reflexivity|].
  destruct (contains r0 a) eqn:E.
  - exfalso. unfold disjoint_from in H4. rewrite forallb_forall in H4. specialize (H4 r Hin).
    apply contains_iff in E. apply contains_iff in Hc.
    apply orb_true_iff in H4. rewrite !N.leb_le in H4. lia.
  - eapply IH; eauto.
Qed.

Definition CbSpec (rd : bool) (L : list region) (M : N) (f : cbT sstream) (F : nat) : Prop :=
  forall total len start region s m, In region L -> start + len <= g_len region -> nlen m = M ->
    (length (k_script s) < F)%nat -> Clean (k_done s) ->
    exists s' m' r k, f total len start region s m = Val ((s', m'), r)
      /\ (forall sc, LogInv sc s -> LogInv sc s') /\ (length (k_script s') <= length (k_script s))%nat
      /\ (0 < k -> (length (k_script s') < length (k_script s))%nat)
      /\ Moved rd s m (g_moff region + start) k s' m' /\ k <= len
      /\ ((r = GOk k /\ Clean (k_done s'))
          \/ (r = GErr (GIo EOther) /\ HardEnd (k_done s'))
          \/ (exists e, r = GErr (GIo e) /\ (e = EUnexpectedEof \/ e = EWriteZero) /\ Clean (k_done s') /\ k < len)).

Lemma try_access_post (rd : bool) md L M f F count addr :
  wf_regions L 0 = true -> total_len L = M -> CbSpec rd L M f F -> count < W64 ->
  forall fuel cur total s m, (length (k_script s) < fuel)%nat -> (length (k_script s) < F)%nat ->
    Clean (k_done s) -> nlen m = M -> cur < W64 -> (total = 0 -> cur = addr) -> (total < count \/ total = 0) ->
  exists s' m' r K, try_access md fuel L count addr f cur total s m = Val ((s', m'), r)
    /\ (forall sc, LogInv sc s -> LogInv sc s')
    /\ GMoved rd (TGuest L) s m cur K s' m' /\ total + K <= count
    /\ ((r = GOk (total + K) /\ Clean (k_done s') /\ total + K <= count)
        \/ (r = GErr GInvalidGuestAddress /\ total = 0 /\ K = 0 /\ Clean (k_done s') /\ idx_of (TGuest L) addr = None)
        \/ (r = GErr (GIo EOther) /\ HardEnd (k_done s'))
        \/ (exists e, r = GErr (GIo e) /\ (e = EUnexpectedEof \/ e = EWriteZero) /\ Clean (k_done s') /\ total + K < count)).
Proof.
  intros Hwf HM Hcb Hcount.
  induction fuel as [|fl IH]; intros cur total s m Hf HF Hc Hm Hcur Hta Htot; [lia|].
  cbn [try_access]. unfold find_region.
  destruct (find (fun r => contains r cur) L) as [region|] eqn:Efind.
  2:{ (* no region at cur *)
    exists s, m. destruct (N.eqb_spec total 0) as [Hz|Hz].
    - exists (GErr GInvalidGuestAddress), 0. split; [reflexivity|]. split; [auto|]. split; [apply GMoved_refl|].
      split; [lia|].
      right. left. split; [reflexivity|]. split; [exact Hz|]. split; [reflexivity|]. split; [exact Hc|].
      cbn [idx_of]. rewrite <- (Hta Hz). rewrite Efind. reflexivity.
    - exists (GOk total), 0. split; [reflexivity|]. split; [auto|]. split; [apply GMoved_refl|].
      split; [lia|].
      left. rewrite N.add_0_r. split; [reflexivity|]. split; [exact Hc|]. lia. }
  apply find_some in Efind. destruct Efind as [Hin Hcont].
  destruct (wf_regions_in L 0 region Hwf Hin) as (Hlen & Hend & _ & Hmoff).
  pose proof Hcont as Hcont'. apply contains_iff in Hcont'.
  unfold to_region_addr, checked_sub.
  destruct (N.leb_spec (g_start region) cur) as [_|Hbad]; [|lia].
  destruct (N.ltb_spec (cur - g_start region) (g_len region)) as [_|Hbad]; [|lia].
  set (start := cur - g_start region).
  rewrite psub_Val by (unfold start; lia). rewrite psub_Val by lia. cbn [bind].
  set (len := N.min (g_len region - start) (count - total)).
  destruct (Hcb total len start region s m Hin) as (s1 & m1 & r1 & k & Hcall & Hli & Hl & Hp & HMv & Hk & Hres); auto.
  { unfold len. lia. }
  rewrite Hcall. cbn [bind].
  assert (HG : GMoved rd (TGuest L) s m cur k s1 m1).
  { eapply Moved_GMoved; [|exact HMv]. split.
    - intros i Hi. cbn [idx_of]. rewrite (find_unique L 0 region (cur + i) Hwf Hin).
      + f_equal. unfold start. lia.
      + apply contains_iff. unfold len, start in *. lia.
    - unfold len, start in *. lia. }
  assert (Hm1 : nlen m1 = M).
  { rewrite <- Hm. eapply Moved_len; [|exact HMv]. unfold len, start in *. lia. }
  destruct Hres as [(-> & Hc1)|[(-> & Hc1)|(e & -> & He & Hc1 & Hklt)]].
  - (* the callback moved k bytes *)
    destruct (N.eqb_spec k 0) as [Hk0|Hk0].
    + subst k. exists s1, m1, (GOk total), 0. split; [reflexivity|]. split; [exact Hli|]. split; [exact HG|].
      split; [lia|].
      left. rewrite N.add_0_r. split; [reflexivity|]. split; [exact Hc1|]. lia.
    + unfold checked_add. destruct (N.ltb_spec (total + k) W64) as [_|Hbad]; [|unfold len in Hk; lia].
      destruct (N.ltb_spec (total + k) count) as [Hmore|Hdone].
      * unfold overflowing_add. destruct (N.leb_spec W64 (cur + k)) as [Hbad|_];
          [unfold len, start in Hk; lia|]. cbn [negb].
        rewrite N.mod_small by (unfold len, start in Hk; lia).
        destruct (IH (cur + k) (total + k) s1 m1) as (s2 & m2 & r2 & K2 & Hrec & Hli2 & HG2 & HK2 & Hres2); auto.
        { assert ((length (k_script s1) < length (k_script s))%nat) by (apply Hp; lia). lia. }
        { lia. } { unfold len, start in Hk; lia. } { intros; lia. }
        exists s2, m2, r2, (k + K2). split; [exact Hrec|]. split; [auto|].
        split; [eapply GMoved_trans; eassumption|].
        rewrite N.add_assoc. split; [exact HK2|].
        destruct Hres2 as [(-> & A & B)|[(-> & A & _)|[(-> & A)|(e & -> & A & B & C)]]].
        -- left. auto.
        -- exfalso. lia.
        -- right. right. left. auto.
        -- right. right. right. exists e. auto.
      * destruct (N.eqb_spec (total + k) count) as [Heq|Hne]; [|exfalso; unfold len in Hk; lia].
        exists s1, m1, (GOk (total + k)), k. split; [reflexivity|]. split; [exact Hli|]. split; [exact HG|].
        split; [lia|].
        left. split; [reflexivity|]. split; [exact Hc1|]. lia.
  - exists s1, m1, (GErr (GIo EOther)), k. split; [reflexivity|]. split; [exact Hli|]. split; [exact HG|].
    split; [unfold len in Hk; lia|].
    right. right. left. auto.
  - exists s1, m1, (GErr (GIo e)), k. split; [reflexivity|]. split; [exact Hli|]. split; [exact HG|].
    split; [unfold len in Hk; lia|].
    right. right. right. exists e. split; [reflexivity|]. split; [exact He|]. split; [exact Hc1|]. unfold len in Hklt. lia.
Qed.

Lemma HardEnd_exists d : HardEnd d -> existsb is_hard d = true.
Proof.
  intros [H1 _]. destruct d as [|x d] using rev_ind; [discriminate|]. rewrite last_snoc in H1.
  rewrite existsb_app. cbn [existsb]. rewrite H1, orb_true_r. reflexivity.
Qed.

(* the two callbacks of guest_memory.rs:678-715 *)
Definition cb_upto (F : nat) (call : callT sstream) : cbT sstream :=
  fun _ len caddr region s m => region_upto F call region caddr s m len.
Definition cb_all (F : nat) (call : callT sstream) : cbT sstream :=
  fun _ len caddr region s m =>
    omap (fun x => (fst x, match snd x with GOk _ => GOk len | GErr e => GErr e end))
         (region_exact EWriteZero F call region caddr s m len).

Lemma region_window L M r : wf_regions L 0 = true -> total_len L = M -> HBASE + M < W64 -> In r L ->
  forall m, nlen m = M -> in_bounds (region_slice r) m /\ vs_addr (region_slice r) + vs_len (region_slice r) < W64.
Proof.
  intros Hwf HM HB Hin m Hm. destruct (wf_regions_in L 0 r Hwf Hin) as (A & B & C & D).
  unfold in_bounds, region_slice. cbn [vs_off vs_len vs_addr]. lia.
Qed.

Lemma cb_upto_spec (rd : bool) L M F : wf_regions L 0 = true -> total_len L = M -> HBASE + M < W64 ->
  CbSpec rd L M (cb_upto F (callb rd)) F.
Proof.
  intros Hwf HM HB total len start region s m Hin Hle Hm Hf Hc.
  destruct (region_window L M region Hwf HM HB Hin m Hm) as [Hb Ha].
  destruct (vs_upto_in rd (region_slice region) F s m start len Hb Ha)
    as (s1 & m1 & r1 & j & b & k & Hr & Hd & Hbe & Hl & Hli & HMv & Hk & Hp & Hres); auto.
  { cbn [region_slice vs_len]. lia. }
  unfold cb_upto, region_upto. rewrite Hr. cbn [omap fst snd].
  exists s1, m1, (map_err r1), k. split; [reflexivity|]. split; [exact Hli|]. split; [exact Hl|]. split; [exact Hp|].
  split; [exact HMv|]. split; [lia|].
  destruct Hres as [(Hh & -> & ->)|(Hh & ->)]; cbn [map_err gerr_of].
  - right. left. split; [reflexivity|]. rewrite Hd. destruct b; try discriminate. apply HardEnd_step. exact Hc.
  - left. split; [reflexivity|]. rewrite Hd. apply Clean_step; assumption.
Qed.
Lemma cb_all_spec (rd : bool) L M F : wf_regions L 0 = true -> total_len L = M -> HBASE + M < W64 ->
  CbSpec rd L M (cb_all F (callb rd)) F.
Proof.
  intros Hwf HM HB total len start region s m Hin Hle Hm Hf Hc.
  destruct (region_window L M region Hwf HM HB Hin m Hm) as [Hb Ha].
  destruct (vs_exact_in rd EWriteZero (region_slice region) F s m start len Hb Ha)
    as (s1 & m1 & r1 & k & Hr & HMv & Hk & Hl & Hp & Hli & Hres); auto.
  unfold cb_all, region_exact. rewrite Hr. cbn [omap fst snd].
  eexists s1, m1, _, k. split; [reflexivity|]. split; [exact Hli|]. split; [exact Hl|]. split; [exact Hp|].
  split; [exact HMv|]. split; [exact Hk|].
  destruct Hres as [(-> & Hke & Hc1)|[(-> & Hke & Hc1)|(-> & Hke & Hc1)]]; cbn [map_err gerr_of].
  - left. subst k. auto.
  - right. right. exists EWriteZero. auto.
  - right. left. auto.
Qed.

Lemma gm_upto_post (rd : bool) md L M f F count addr s m :
  wf_regions L 0 = true -> total_len L = M -> CbSpec rd L M f F -> count < W64 -> addr < W64 ->
  (length (k_script s) < F)%nat -> Clean (k_done s) -> nlen m = M ->
  exists s' m' r, try_access md F L count addr f addr 0 s m = Val ((s', m'), r)
    /\ (forall sc, LogInv sc s -> LogInv sc s')
    /\ Post rd false (TGuest L) addr count s m s' m' (rc_gres okc_n r)
    /\ Post rd true (TGuest L) addr count s m s' m'
         (rc_gres okc_u match r with GErr e => GErr e
                                | GOk res => if res =? count then GOk tt else GErr (GPartialBuffer count res) end).
Proof.
  intros Hwf HM Hcb Hcount Haddr Hf Hc Hm.
  destruct (try_access_post rd md L M f F count addr Hwf HM Hcb Hcount F addr 0 s m)
    as (s1 & m1 & r1 & K & Hr & Hli & HG & HKc & Hres); auto.
  exists s1, m1, r1. split; [exact Hr|]. split; [exact Hli|].
  destruct Hres as [(-> & Hc1 & HK)|[(-> & _ & -> & Hc1 & Hidx)|[(-> & Hc1)|(e & -> & He & Hc1 & HK)]]];
    rewrite ?N.add_0_l in *.
  - split.
    + exists K. split; [exact HG|]. split; [lia|]. cbn [rc_gres okc_n rk_of fst snd]. split; [apply LogRes_clean; [exact Hc1|lia|lia]|].
      split; [lia|reflexivity].
    + exists K. split; [exact HG|]. split; [lia|]. destruct (N.eqb_spec K count) as [E|E]; cbn [rc_gres okc_u rk_of fst snd].
      * split; [apply LogRes_clean; [exact Hc1|lia|lia]|]. split; [lia|]. intros _ _. split; auto.
      * split; [apply LogRes_clean; [exact Hc1|lia|lia]|]. split; [lia|]. intros _ _. split; [lia|intros; contradiction].
  - split.
    + exists 0. split; [exact HG|]. split; [lia|]. cbn [rc_gres rk_of fst snd]. split; [apply LogRes_clean; [exact Hc1|lia|lia]|].
      split; [lia|intros; lia].
    + exists 0. split; [exact HG|]. split; [lia|]. cbn [rc_gres rk_of fst snd]. split; [apply LogRes_clean; [exact Hc1|lia|lia]|].
      split; [lia|]. intros _ [Hj|Hj]; [split; lia|contradiction].
  - split.
    + exists K. split; [exact HG|]. split; [lia|]. cbn [rc_gres rc_io rk_of fst snd]. split; [apply LogRes_hard; exact Hc1|].
      split; [lia|intros; lia].
    + exists K. split; [exact HG|]. split; [lia|]. cbn [rc_gres rc_io rk_of fst snd]. split; [apply LogRes_hard; exact Hc1|].
      split; [lia|]. intros Hh. rewrite (HardEnd_exists _ Hc1) in Hh. discriminate.
  - assert (E : rk_of (rc_gres okc_n (GErr (GIo e))) = rc_io e /\ rk_of (rc_gres okc_u (GErr (GIo e))) = rc_io e)
      by (split; reflexivity).
    destruct E as [E1 E2].
    assert (Hrc : rc_io e = 2 \/ rc_io e = 3) by (destruct He; subst; cbn; auto).
    split.
    + exists K. split; [exact HG|]. split; [lia|]. rewrite E1. split; [apply LogRes_clean; [exact Hc1|lia|lia]|].
      split; [lia|]. intros; lia.
    + exists K. split; [exact HG|]. split; [lia|]. rewrite E2. split; [apply LogRes_clean; [exact Hc1|lia|lia]|].
      split; [lia|]. intros _ _. split; lia.
Qed.

(* ------------------------------------------------------------------ 6. the model satisfies the checker *)
Lemma rc_gres_map_err {A} (okc : A -> N * N) (r : res A) : rc_gres okc (map_err r) = rc_res okc r.
Proof. destruct r as [a|[e| |]]; reflexivity. Qed.

Lemma LogInv_stream0 c : LogInv (c_script c) (stream0 c).
Proof. exists 0%nat. cbn [stream0 k_done k_script repeat app]. rewrite app_nil_r. reflexivity. Qed.

Lemma exec_post c : wf14 c = true ->
  exists s' m' rc, exec14 c = Val ((s', m'), rc) /\ LogInv (c_script c) s'
    /\ Post (is_read (c_op c)) (is_exact (c_op c)) (c_target c) (c_addr c) (c_count c) (stream0 c) (c_mem c) s' m' rc.
Proof.
  intros Hwf. unfold wf14 in Hwf. rewrite !andb_true_iff in Hwf. destruct Hwf as [[[Ht HB] Haddr] Hcount].
  apply N.ltb_lt in HB, Haddr, Hcount.
  assert (Hf : (length (k_script (stream0 c)) < fuel14 c)%nat) by (unfold fuel14; cbn [stream0 k_script]; lia).
  assert (Hc : Clean (k_done (stream0 c))) by apply Clean_nil.
  pose proof (LogInv_stream0 c) as Hli0.
  unfold exec14.
  assert (Hcall : call_of (c_op c) = callb (is_read (c_op c))) by reflexivity.
  assert (Hz : zero_err_of (c_op c) = if is_read (c_op c) then EUnexpectedEof else EWriteZero) by reflexivity.
  rewrite Hcall, Hz.
  destruct (c_target c) as [soff slen|r|L] eqn:Et.
  - (* VolatileSlice *)
    apply N.leb_le in Ht.
    set (self := {| vs_addr := HBASE + soff; vs_off := soff; vs_len := slen |}).
    assert (Hw : window_of (TSlice soff slen) self) by (intros a; reflexivity).
    assert (Hb : in_bounds self (c_mem c)) by (unfold in_bounds, self; cbn [vs_off vs_len]; lia).
    assert (Ha : vs_addr self + vs_len self < W64) by (unfold self; cbn [vs_addr vs_len]; lia).
    destruct (is_exact (c_op c)).
    + destruct (vs_exact_post (is_read (c_op c)) _ self (fuel14 c) (stream0 c) (c_mem c) (c_addr c) (c_count c) Hw Hb Ha Hf Hc Haddr Hcount)
        as (s1 & m1 & r1 & He & Hli & HP).
      rewrite He. cbn [omap fst snd]. eauto 10.
    + destruct (vs_upto_post (is_read (c_op c)) _ self (fuel14 c) (stream0 c) (c_mem c) (c_addr c) (c_count c) Hw Hb Ha Hf Hc)
        as (s1 & m1 & r1 & He & Hli & HP).
      rewrite He. cbn [omap fst snd]. eauto 10.
  - (* GuestRegionMmap *)
    rewrite !andb_true_iff in Ht. destruct Ht as [[[H1 H2] H3] H4].
    apply N.eqb_eq in H1, H2. apply N.ltb_lt in H3, H4.
    assert (Hw : window_of (TRegion r) (region_slice r)) by (intros a; reflexivity).
    assert (Hb : in_bounds (region_slice r) (c_mem c)) by (unfold in_bounds, region_slice; cbn [vs_off vs_len]; lia).
    assert (Ha : vs_addr (region_slice r) + vs_len (region_slice r) < W64)
      by (unfold region_slice; cbn [vs_addr vs_len]; lia).
    destruct (is_exact (c_op c)).
    + destruct (vs_exact_post (is_read (c_op c)) _ (region_slice r) (fuel14 c) (stream0 c) (c_mem c) (c_addr c) (c_count c) Hw Hb Ha Hf Hc Haddr Hcount)
        as (s1 & m1 & r1 & He & Hli & HP).
      unfold region_exact. rewrite He. cbn [omap fst snd]. rewrite rc_gres_map_err. eauto 10.
    + destruct (vs_upto_post (is_read (c_op c)) _ (region_slice r) (fuel14 c) (stream0 c) (c_mem c) (c_addr c) (c_count c) Hw Hb Ha Hf Hc)
        as (s1 & m1 & r1 & He & Hli & HP).
      unfold region_upto. rewrite He. cbn [omap fst snd]. rewrite rc_gres_map_err. eauto 10.
  - (* GuestMemoryMmap *)
    rewrite andb_true_iff in Ht. destruct Ht as [Hwf HM]. apply N.eqb_eq in HM.
    assert (HB' : HBASE + nlen (c_mem c) < W64) by exact HB.
    destruct (c_op c) eqn:Eo; cbn [is_read is_exact callb].
    + destruct (gm_upto_post true (c_mode c) L _ _ (fuel14 c) (c_count c) (c_addr c) (stream0 c) (c_mem c) Hwf HM
                  (cb_upto_spec true L _ (fuel14 c) Hwf HM HB') Hcount Haddr Hf Hc eq_refl)
        as (s1 & m1 & r1 & He & Hli & HP1 & HP2).
      unfold gm_read_volatile_from. unfold cb_upto in He. cbn [callb] in He. rewrite He. cbn [omap fst snd]. eauto 10.
    + destruct (gm_upto_post true (c_mode c) L _ _ (fuel14 c) (c_count c) (c_addr c) (stream0 c) (c_mem c) Hwf HM
                  (cb_upto_spec true L _ (fuel14 c) Hwf HM HB') Hcount Haddr Hf Hc eq_refl)
        as (s1 & m1 & r1 & He & Hli & HP1 & HP2).
      unfold gm_read_exact_volatile_from, gm_exact_of, gm_read_volatile_from. unfold cb_upto in He. cbn [callb] in He.
      rewrite He. cbn [omap fst snd]. eauto 10.
    + destruct (gm_upto_post false (c_mode c) L _ _ (fuel14 c) (c_count c) (c_addr c) (stream0 c) (c_mem c) Hwf HM
                  (cb_all_spec false L _ (fuel14 c) Hwf HM HB') Hcount Haddr Hf Hc eq_refl)
        as (s1 & m1 & r1 & He & Hli & HP1 & HP2).
      unfold gm_write_volatile_to. unfold cb_all in He. cbn [callb] in He. rewrite He. cbn [omap fst snd]. eauto 10.
    + destruct (gm_upto_post false (c_mode c) L _ _ (fuel14 c) (c_count c) (c_addr c) (stream0 c) (c_mem c) Hwf HM
                  (cb_all_spec false L _ (fuel14 c) Hwf HM HB') Hcount Haddr Hf Hc eq_refl)
        as (s1 & m1 & r1 & He & Hli & HP1 & HP2).
      unfold gm_write_all_volatile_to, gm_exact_of, gm_write_volatile_to. unfold cb_all in He. cbn [callb] in He.
      rewrite He. cbn [omap fst snd]. eauto 10.
Qed.

Lemma list_eqb_refl l : list_eqb l l = true.
Proof. apply list_eqb_eq. reflexivity. Qed.
Lemma neqb_true a b : a <> b -> negb (a =? b) = true.
Proof. intros H. destruct (N.eqb_spec a b); [contradiction|reflexivity]. Qed.

Lemma post_ok c s' m' rk a b : LogInv (c_script c) s' ->
  Post (is_read (c_op c)) (is_exact (c_op c)) (c_target c) (c_addr c) (c_count c) (stream0 c) (c_mem c) s' m' (rk, a, b) ->
  ok_C14_core c {| o_rk := rk; o_a := a; o_b := b; o_calls := nlen (k_done s');
              o_moved := if is_read (c_op c) then nlen (c_src c) - nlen (k_src s') else nlen (k_sink s');
              o_sink := k_sink s'; o_mem := m' |} = true.
Proof.
  intros Hli (k & HG & Hkc & (H4 & He & Hh) & HR). cbn [rk_of fst snd] in *.
  unfold ok_C14_core. cbn [o_rk o_a o_b o_calls o_moved o_sink o_mem].
  rewrite (LogInv_calls_made _ _ Hli).
  assert (Hmoved : (if is_read (c_op c) then nlen (c_src c) - nlen (k_src s') else nlen (k_sink s')) = k).
  { destruct (is_read (c_op c)); cbn [GMoved] in HG.
    - destruct HG as (A1 & A2 & _). rewrite A1, nlen_ndrop. cbn [stream0 k_src] in *. lia.
    - destruct HG as (bs & A1 & A2 & _). rewrite A2. cbn [stream0 k_sink app].
      apply flat_read_length in A1. unfold nlen. lia. }
  rewrite Hmoved.
  rewrite !andb_true_iff. repeat split.
  - apply neqb_true. exact H4.
  - rewrite He. reflexivity.
  - destruct (existsb is_hard (k_done s')).
    + destruct Hh as [-> Hr]. rewrite Hr. reflexivity.
    + apply neqb_true. exact Hh.
  - destruct (is_read (c_op c)); cbn [GMoved] in HG.
    + destruct HG as (A1 & A2 & A3 & A4). cbn [stream0 k_src k_sink] in *. rewrite A3, A4.
      rewrite !list_eqb_refl. cbn [list_eqb]. rewrite !andb_true_r. apply N.leb_le. exact A2.
    + destruct HG as (bs & A1 & A2 & A3 & A4). cbn [stream0 k_src k_sink app] in *. subst m'.
      rewrite list_eqb_refl. rewrite A1, A2, list_eqb_refl.
      apply flat_read_length in A1. unfold nlen. rewrite A1, N2Nat.id, N.eqb_refl. reflexivity.
  - destruct (is_exact (c_op c)).
    + destruct HR as [H0 Hiff]. rewrite (neqb_true _ _ H0). cbn [andb].
      destruct (existsb is_hard (k_done s')) eqn:Eh; [reflexivity|]. cbn [orb].
      destruct ((0 <? c_count c) || match idx_of (c_target c) (c_addr c) with Some _ => true | None => false end) eqn:Ej;
        [|reflexivity]. cbn [negb].
      assert (Hj : judged (c_target c) (c_addr c) (c_count c)).
      { apply orb_true_iff in Ej. destruct Ej as [Ej|Ej]; [left; apply N.ltb_lt; exact Ej|].
        right. destruct (idx_of (c_target c) (c_addr c)); [discriminate|discriminate]. }
      specialize (Hiff eq_refl Hj).
      destruct (N.eqb_spec rk 1) as [E1|E1]; destruct (N.eqb_spec k (c_count c)) as [E2|E2]; try reflexivity.
      * exfalso. apply E2. apply Hiff. exact E1.
      * exfalso. apply E1. apply Hiff. exact E2.
    + destruct HR as [H1 H0]. rewrite (neqb_true _ _ H1). cbn [andb].
      destruct (N.eqb_spec rk 0) as [E|E]; [|reflexivity]. apply N.eqb_eq. apply H0. exact E.
  - apply N.leb_le. exact Hkc.
Qed.

(* ------------------------------------------------------------------ 6b. progress of the exact forms
   WHY an exact form stopped short of the count: the last call of retry_eintr! is the one whose result it returns;
   the exact loop returns its zero error only after a call that answered Ok(0) on a non-empty window; a scripted
   stream answers Ok(0) there only by a zero-ish behaviour (Zero, Short 0, script over) or - a reader - because its
   source is exhausted. *)
Lemma retry_last {S} (call : callT S) : forall fuel s m v s' m' r,
  retry_eintr fuel call s m v = Val ((s', m'), r) ->
  r <> Err (VIo EInterrupted) /\ exists s1 m1, call s1 m1 v = Val ((s', m'), r).
Proof.
  induction fuel as [|f IH]; intros s m v s' m' r H; [discriminate|].
  cbn [retry_eintr] in H. destruct (call s m v) as [[[s1 m1] r1]| |] eqn:E; cbn [bind] in H; try discriminate.
  destruct r1 as [n|[[| | |]| |]]; try (inversion H; subst; split; [discriminate|eauto]).
  apply IH in H. exact H.
Qed.

Lemma vs_offset_err_kind v n e : vs_offset v n = Err e -> e = VOutOfBounds \/ e = VOverflow.
Proof.
  unfold vs_offset. destruct (checked_add (vs_addr v) n); [|intros H; inversion H; auto].
  destruct (checked_sub (vs_len v) n); intros H; inversion H; auto.
Qed.
Lemma vs_subslice_err_kind v o n e : vs_subslice v o n = Err e -> e = VOutOfBounds \/ e = VOverflow.
Proof.
  unfold vs_subslice. destruct (checked_add o n); [|intros H; inversion H; auto].
  destruct (vs_len v <? n0); intros H; inversion H; auto.
Qed.

Lemma exact_loop_last {S} zerr fi (call : callT S) : forall fuel s m pb s' m' e,
  exact_loop zerr fi fuel call s m pb = Val ((s', m'), Err (VIo e)) ->
  exists s1 m1 pb1, vs_len pb1 <> 0 /\
    ((e <> EInterrupted /\ call s1 m1 pb1 = Val ((s', m'), Err (VIo e)))
     \/ (e = zerr /\ call s1 m1 pb1 = Val ((s', m'), Ok 0))).
Proof.
  induction fuel as [|f IH]; intros s m pb s' m' e H; [discriminate|].
  cbn [exact_loop] in H. destruct (N.eqb_spec (vs_len pb) 0) as [Hz|Hz]; [discriminate|].
  destruct (retry_eintr fi call s m pb) as [[[s1 m1] r1]| |] eqn:E; cbn [bind] in H; try discriminate.
  destruct (retry_last call fi s m pb s1 m1 r1 E) as (Hne & s2 & m2 & Hcall).
  destruct r1 as [n|e1].
  - destruct (N.eqb_spec n 0) as [Hn|Hn].
    + inversion H; subst. exists s2, m2, pb. split; [exact Hz|]. right. auto.
    + destruct (vs_offset pb n) as [pb'|e2] eqn:Eo.
      * eapply IH. exact H.
      * inversion H; subst. destruct (vs_offset_err_kind _ _ _ Eo); discriminate.
  - inversion H; subst. exists s2, m2, pb. split; [exact Hz|]. left. split; [|exact Hcall].
    intros ->. apply Hne. reflexivity.
Qed.

Definition ZeroStop (rd : bool) (s' : sstream) : Prop :=
  (exists d b, k_done s' = d ++ [b] /\ zeroish b = true) \/ (rd = true /\ k_src s' = []).

Lemma callb_zero rd s m v s' m' : callb rd s m v = Val ((s', m'), Ok 0) -> vs_len v <> 0 -> ZeroStop rd s'.
Proof.
  intros H Hv.
  assert (Hd : forall src sink, k_done (advance s src sink) = k_done s ++ [next_beh s]) by reflexivity.
  destruct rd; unfold callb, sr_call, sw_call in H.
  - assert (Hsrc : forall a, a <> 0 -> nlen (ntake a (k_src s)) = 0 -> k_src s = []).
    { intros a Ha E. rewrite nlen_ntake in E. apply nlen_zero. lia. }
    assert (Hs' : forall a sink m1, a <> 0 ->
              Val ((advance s (ndrop (nlen (ntake a (k_src s))) (k_src s)) sink, m1), Ok (nlen (ntake a (k_src s))))
              = Val ((s', m'), @Ok N 0) -> ZeroStop true s').
    { intros a sink m1 Ha E. assert (E0 : nlen (ntake a (k_src s)) = 0) by (inversion E; reflexivity).
      right. split; [reflexivity|]. inversion E. cbn [advance k_src]. rewrite (Hsrc a Ha E0). apply ndrop_all. cbn. lia. }
    destruct (next_beh s) eqn:Eb; try discriminate H.
    + eapply Hs'; [|exact H]. exact Hv.
    + destruct (N.eqb_spec k 0) as [Hk|Hk].
      * left. exists (k_done s), (Short k). split; [inversion H; rewrite Hd; reflexivity|].
        cbn [zeroish]. apply N.eqb_eq. exact Hk.
      * eapply Hs'; [|exact H]. cbn [amount]. lia.
    + left. exists (k_done s), Zero. split; [inversion H; rewrite Hd; reflexivity|reflexivity].
  - destruct (next_beh s) eqn:Eb; try discriminate H.
    + exfalso. inversion H. cbn [amount] in *. contradiction.
    + left. exists (k_done s), (Short k). split; [inversion H; rewrite Hd; reflexivity|].
      cbn [zeroish]. apply N.eqb_eq. inversion H. cbn [amount] in *. lia.
    + left. exists (k_done s), Zero. split; [inversion H; rewrite Hd; reflexivity|reflexivity].
Qed.
Lemma callb_err rd s m v s' m' e : callb rd s m v = Val ((s', m'), Err (VIo e)) -> e = EInterrupted \/ e = EOther.
Proof.
  intros H. destruct rd; unfold callb, sr_call, sw_call in H; destruct (next_beh s); inversion H; auto.
Qed.

Lemma exact_loop_why rd zerr fi fuel s m pb s' m' e :
  exact_loop zerr fi fuel (callb rd) s m pb = Val ((s', m'), Err (VIo e)) -> e = EOther \/ ZeroStop rd s'.
Proof.
  intros H. destruct (exact_loop_last _ _ _ _ _ _ _ _ _ _ H) as (s1 & m1 & pb1 & Hl & [[Hne Hc]|[_ Hc]]).
  - left. destruct (callb_err _ _ _ _ _ _ _ Hc); [contradiction|assumption].
  - right. eapply callb_zero; eassumption.
Qed.
Lemma vs_exact_io_why rd zerr fuel self addr s m count s' m' e :
  vs_exact zerr fuel (callb rd) self addr s m count = Val ((s', m'), Err (VIo e)) -> e = EOther \/ ZeroStop rd s'.
Proof.
  unfold vs_exact, exact_volatile. intros H.
  destruct (vs_subslice self addr count) as [sl|e1] eqn:E1.
  - destruct (vs_offset sl 0) as [pb|e2] eqn:E2.
    + eapply exact_loop_why. exact H.
    + inversion H; subst. destruct (vs_offset_err_kind _ _ _ E2); discriminate.
  - inversion H; subst. destruct (vs_subslice_err_kind _ _ _ _ E1); discriminate.
Qed.

(* a request whose range leaves the window is not fully mapped *)
Lemma flat_read_hole t m : forall n a i, (i < n)%nat -> idx_of t (a + N.of_nat i) = None -> flat_read t m a n = None.
Proof.
  induction n as [|n IH]; intros a i Hi Hn; [lia|]. cbn [flat_read].
  destruct i as [|i].
  - change (N.of_nat 0) with 0 in Hn. rewrite N.add_0_r in Hn. rewrite Hn. reflexivity.
  - destruct (idx_of t a) as [j|]; [|reflexivity].
    rewrite (IH (a + 1) i); [destruct (nth_error m (N.to_nat j)); reflexivity|lia|].
    replace (a + 1 + N.of_nat i) with (a + N.of_nat (S i)) by lia. exact Hn.
Qed.
Lemma not_fully_mapped t self m addr count : window_of t self -> vs_len self < addr + count ->
  judged t addr count -> fully_mapped t m addr count = false.
Proof.
  intros Hw Hlt Hj. unfold fully_mapped.
  assert (Hc : 0 < count).
  { destruct Hj as [Hj|Hj]; [exact Hj|]. rewrite Hw in Hj. destruct (N.ltb_spec addr (vs_len self)); [lia|congruence]. }
  set (a := N.max addr (vs_len self)).
  rewrite (flat_read_hole t m (N.to_nat count) addr (N.to_nat (a - addr))).
  - apply andb_false_r.
  - unfold a. lia.
  - rewrite N2Nat.id. replace (addr + (a - addr)) with a by (unfold a; lia). rewrite Hw.
    destruct (N.ltb_spec a (vs_len self)); [unfold a in *; lia|reflexivity].
Qed.

(* the exact form of a slice refused before any call: the range leaves the slice *)
Lemma vs_exact_refused (rd : bool) zerr t self fuel s m addr count s' m' e :
  window_of t self -> in_bounds self m -> vs_addr self + vs_len self < W64 ->
  (length (k_script s) < fuel)%nat -> Clean (k_done s) ->
  vs_exact zerr fuel (callb rd) self addr s m count = Val ((s', m'), Err e) -> (forall io, e <> VIo io) ->
  s' = s /\ (judged t addr count -> fully_mapped t m addr count = false).
Proof.
  intros Hw Hb Ha Hf Hc H Hne. unfold vs_exact, vs_subslice, checked_add in H.
  destruct (N.ltb_spec (addr + count) W64) as [Hfit|Hovf].
  - destruct (N.ltb_spec (vs_len self) (addr + count)) as [Hout|Hin].
    + inversion H; subst. split; [reflexivity|]. intros Hj. eapply not_fully_mapped; eassumption.
    + exfalso. unfold exact_volatile in H.
      set (sl := {| vs_addr := vs_addr self + addr; vs_off := vs_off self + addr; vs_len := count |}) in H.
      rewrite (vs_offset_ok sl 0) in H by (unfold sl; cbn [vs_addr vs_len]; lia).
      set (pb := {| vs_addr := vs_addr sl + 0; vs_off := vs_off sl + 0; vs_len := vs_len sl - 0 |}) in H.
      destruct (exact_loop_spec rd zerr fuel fuel s m pb)
        as (s1 & m1 & r1 & k & He & _ & _ & _ & _ & _ & Hres); auto.
      { unfold in_bounds, pb, sl in *. cbn [vs_off vs_len]. lia. }
      { unfold pb, sl. cbn [vs_addr vs_len]. lia. }
      rewrite He in H. inversion H; subst.
      destruct Hres as [(E & _)|[(E & _)|(E & _)]]; try discriminate E; inversion E; eapply Hne; eauto.
  - inversion H; subst. split; [reflexivity|]. intros Hj. eapply not_fully_mapped; try eassumption.
    unfold in_bounds in Hb. lia.
Qed.

Lemma GMoved_det rd t s m a k s' m' : GMoved rd t s m a k s' m' ->
  k = if rd then nlen (k_src s) - nlen (k_src s') else nlen (k_sink s') - nlen (k_sink s).
Proof.
  destruct rd; cbn [GMoved].
  - intros (A1 & A2 & _). rewrite A1, nlen_ndrop. lia.
  - intros (bs & A1 & A2 & _). rewrite A2. apply flat_read_length in A1. unfold nlen. rewrite app_length, A1. lia.
Qed.

(* why a try_access callback moved nothing / failed *)
Definition CbWhy (rd : bool) (f : cbT sstream) : Prop :=
  forall total len start region s m s' m' r, start < g_len region -> 0 < len ->
    f total len start region s m = Val ((s', m'), r) ->
    match r with
    | GOk k => k = 0 -> ZeroStop rd s'
    | GErr (GIo e) => e = EOther \/ ZeroStop rd s'
    | GErr _ => True
    end.

Lemma cb_upto_why rd F : CbWhy rd (cb_upto F (callb rd)).
Proof.
  intros total len start region s m s' m' r Hst Hlen H. unfold cb_upto, region_upto, vs_upto in H.
  destruct (vs_offset (region_slice region) start) as [sl|e1] eqn:Eo.
  - assert (Hsl : vs_len sl = g_len region - start).
    { unfold vs_offset in Eo. destruct (checked_add (vs_addr (region_slice region)) start); [|discriminate Eo].
      destruct (checked_sub (vs_len (region_slice region)) start) as [x|] eqn:Ec; [|discriminate Eo].
      apply checked_sub_Some in Ec. cbn [region_slice vs_len] in Ec. inversion Eo. cbn [vs_len]. lia. }
    destruct (vs_subslice sl 0 (N.min (vs_len sl) len)) as [sl2|e2] eqn:Es; [|cbn [omap] in H; discriminate H].
    assert (Hsl2 : vs_len sl2 = N.min (vs_len sl) len).
    { unfold vs_subslice in Es. destruct (checked_add 0 (N.min (vs_len sl) len)); [|discriminate Es].
      destruct (vs_len sl <? n); [discriminate Es|]. inversion Es. reflexivity. }
    destruct (retry_eintr F (callb rd) s m sl2) as [[[s1 m1] r1]| |] eqn:Er; cbn [omap fst snd] in H; try discriminate H.
    inversion H; subst s1 m1 r. clear H.
    destruct (retry_last _ _ _ _ _ _ _ _ Er) as (Hne & s2 & m2 & Hcall).
    destruct r1 as [k|[e| |]]; cbn [map_err gerr_of]; auto.
    + intros ->. eapply callb_zero; [exact Hcall|]. lia.
    + left. destruct (callb_err _ _ _ _ _ _ _ Hcall) as [->| ->]; [exfalso; apply Hne; reflexivity|reflexivity].
  - cbn [omap fst snd] in H. inversion H; subst.
    destruct (vs_offset_err_kind _ _ _ Eo) as [->| ->]; cbn [map_err gerr_of]; exact I.
Qed.
Lemma cb_all_why rd F : CbWhy rd (cb_all F (callb rd)).
Proof.
  intros total len start region s m s' m' r Hst Hlen H. unfold cb_all, region_exact in H.
  destruct (vs_exact EWriteZero F (callb rd) (region_slice region) start s m len) as [[[s1 m1] r1]| |] eqn:Ev;
    cbn [omap fst snd] in H; try discriminate H.
  inversion H; subst s1 m1 r. clear H.
  destruct r1 as [u|[e| |]]; cbn [map_err gerr_of]; auto.
  - intros ->. lia.
  - eapply vs_exact_io_why. exact Ev.
Qed.

(* try_access, with cur = addr + total: it returns a count below the request only at an unmapped address or after
   a callback that moved nothing *)
Lemma try_access_why (rd : bool) md L M f F count addr :
  wf_regions L 0 = true -> total_len L = M -> CbSpec rd L M f F -> CbWhy rd f -> count < W64 ->
  forall fuel cur total s m, (length (k_script s) < fuel)%nat -> (length (k_script s) < F)%nat ->
    Clean (k_done s) -> nlen m = M -> cur < W64 -> cur = addr + total -> (total < count \/ total = 0) ->
    match try_access md fuel L count addr f cur total s m with
    | Val ((s', m'), r) =>
        match r with
        | GOk res => res = count \/ idx_of (TGuest L) (addr + res) = None \/ ZeroStop rd s'
        | GErr (GIo e) => e = EOther \/ ZeroStop rd s'
        | GErr _ => True
        end
    | _ => True
    end.
Proof.
  intros Hwf HM Hcb Hwhy Hcount.
  induction fuel as [|fl IH]; intros cur total s m Hf HF Hc Hm Hcur Hta Htot; [exact I|].
  cbn [try_access]. unfold find_region.
  destruct (find (fun r => contains r cur) L) as [region|] eqn:Efind.
  2:{ destruct (N.eqb_spec total 0) as [Hz|Hz]; [exact I|].
      right. left. cbn [idx_of]. rewrite <- Hta, Efind. reflexivity. }
  apply find_some in Efind. destruct Efind as [Hin Hcont].
  destruct (wf_regions_in L 0 region Hwf Hin) as (Hlen & Hend & _ & Hmoff).
  pose proof Hcont as Hcont'. apply contains_iff in Hcont'.
  unfold to_region_addr, checked_sub.
  destruct (N.leb_spec (g_start region) cur) as [_|Hbad]; [|lia].
  destruct (N.ltb_spec (cur - g_start region) (g_len region)) as [_|Hbad]; [|lia].
  set (start := cur - g_start region).
  rewrite psub_Val by (unfold start; lia). rewrite psub_Val by lia. cbn [bind].
  set (len := N.min (g_len region - start) (count - total)).
  destruct (Hcb total len start region s m Hin) as (s1 & m1 & r1 & k & Hcall & Hli & Hl & Hp & HMv & Hk & Hres); auto.
  { unfold len. lia. }
  rewrite Hcall. cbn [bind].
  pose proof (Hwhy total len start region s m s1 m1 r1) as Hw1.
  assert (Hm1 : nlen m1 = M).
  { rewrite <- Hm. eapply Moved_len; [|exact HMv]. unfold len, start in *. lia. }
  destruct Hres as [(-> & Hc1)|[(-> & Hc1)|(e & -> & He & Hc1 & Hklt)]].
  - destruct (N.eqb_spec k 0) as [Hk0|Hk0].
    + destruct (N.eq_dec total count) as [Heq|Hne]; [left; exact Heq|].
      right. right. apply Hw1; [unfold start; lia|unfold len, start; lia|exact Hcall|exact Hk0].
    + unfold checked_add. destruct (N.ltb_spec (total + k) W64) as [_|Hbad]; [|unfold len in Hk; lia].
      destruct (N.ltb_spec (total + k) count) as [Hmore|Hdone].
      * unfold overflowing_add. destruct (N.leb_spec W64 (cur + k)) as [Hbad|_];
          [unfold len, start in Hk; lia|]. cbn [negb].
        rewrite N.mod_small by (unfold len, start in Hk; lia).
        apply IH; auto.
        { assert ((length (k_script s1) < length (k_script s))%nat) by (apply Hp; lia). lia. }
        { lia. } { unfold len, start in Hk; lia. } { lia. }
      * destruct (N.eqb_spec (total + k) count) as [Heq|Hne]; [|exfalso; unfold len in Hk; lia].
        left. exact Heq.
  - left. reflexivity.
  - apply Hw1; [unfold start; lia|unfold len, start; lia|exact Hcall].
Qed.

(* the guest-level exact forms: success, a hard error, or one of the excuses *)
Lemma gm_exact_why (rd : bool) md L M f F count addr s m s' m' r :
  wf_regions L 0 = true -> total_len L = M -> CbSpec rd L M f F -> CbWhy rd f -> count < W64 -> addr < W64 ->
  (length (k_script s) < F)%nat -> Clean (k_done s) -> nlen m = M ->
  try_access md F L count addr f addr 0 s m = Val ((s', m'), r) ->
  r = GOk count \/ r = GErr (GIo EOther)
  \/ idx_of (TGuest L) (addr + (if rd then nlen (k_src s) - nlen (k_src s') else nlen (k_sink s') - nlen (k_sink s))) = None
  \/ ZeroStop rd s'.
Proof.
  intros Hwf HM Hcb Hwhy Hcount Haddr Hf Hc Hm H.
  destruct (try_access_post rd md L M f F count addr Hwf HM Hcb Hcount F addr 0 s m)
    as (s1 & m1 & r1 & K & Hr & _ & HG & _ & Hres); auto.
  pose proof (try_access_why rd md L M f F count addr Hwf HM Hcb Hwhy Hcount F addr 0 s m Hf Hf Hc Hm Haddr) as Hw.
  rewrite H in Hr, Hw. inversion Hr; subst s1 m1 r1. clear Hr.
  specialize (Hw (eq_sym (N.add_0_r addr)) (or_intror eq_refl)).
  apply GMoved_det in HG.
  destruct Hres as [(-> & _ & _)|[(-> & _ & -> & _ & Hidx)|[(-> & _)|(e & -> & He & _ & _)]]];
    rewrite ?N.add_0_l in *.
  - destruct Hw as [Hw|[Hw|Hw]]; [left; f_equal; exact Hw|right; right; left; rewrite <- HG; exact Hw|right; right; right; exact Hw].
  - right. right. left. rewrite <- HG, N.add_0_r. exact Hidx.
  - right. left. reflexivity.
  - destruct Hw as [->|Hw]; [destruct He; discriminate|right; right; right; exact Hw].
Qed.

Definition mv14 (c : case14) (s : sstream) : N :=
  if is_read (c_op c) then nlen (c_src c) - nlen (k_src s) else nlen (k_sink s).
Definition WhyC (c : case14) (s' : sstream) : Prop :=
  idx_of (c_target c) (c_addr c + mv14 c s') = None
  \/ (s' = stream0 c /\ fully_mapped (c_target c) (c_mem c) (c_addr c) (c_count c) = false)
  \/ ZeroStop (is_read (c_op c)) s'.

Lemma exec_why c s' m' rk a b : wf14 c = true -> is_exact (c_op c) = true ->
  exec14 c = Val ((s', m'), (rk, a, b)) -> rk <> 1 -> rk <> 5 -> judged (c_target c) (c_addr c) (c_count c) -> WhyC c s'.
Proof.
  intros Hwf Hx H H1 H5 Hj. unfold wf14 in Hwf. rewrite !andb_true_iff in Hwf. destruct Hwf as [[[Ht HB] Haddr] Hcount].
  apply N.ltb_lt in HB, Haddr, Hcount.
  assert (Hf : (length (k_script (stream0 c)) < fuel14 c)%nat) by (unfold fuel14; cbn [stream0 k_script]; lia).
  assert (Hc : Clean (k_done (stream0 c))) by apply Clean_nil.
  unfold exec14 in H.
  assert (Hcall : call_of (c_op c) = callb (is_read (c_op c))) by reflexivity.
  rewrite Hcall in H. unfold WhyC.
  (* the result of a slice-level exact form *)
  assert (Hvs : forall t self r1, c_target c = t -> window_of t self -> in_bounds self (c_mem c) ->
            vs_addr self + vs_len self < W64 ->
            vs_exact (zero_err_of (c_op c)) (fuel14 c) (callb (is_read (c_op c))) self (c_addr c) (stream0 c) (c_mem c) (c_count c)
            = Val ((s', m'), r1) ->
            match r1 with
            | Ok _ => True
            | Err (VIo e) => e = EOther \/ WhyC c s'
            | Err _ => WhyC c s'
            end).
  { intros t self r1 Et Hw Hb Ha Ev. unfold WhyC. rewrite Et.
    destruct r1 as [u|[e| |]]; [exact I| | |].
    - destruct (vs_exact_io_why _ _ _ _ _ _ _ _ _ _ _ Ev) as [->|Hz]; [left; reflexivity|right; right; right; exact Hz].
    - destruct (vs_exact_refused _ _ t _ _ _ _ _ _ _ _ _ Hw Hb Ha Hf Hc Ev) as [-> Hfm]; [intros io; discriminate|].
      right. left. split; [reflexivity|]. apply Hfm. rewrite <- Et. exact Hj.
    - destruct (vs_exact_refused _ _ t _ _ _ _ _ _ _ _ _ Hw Hb Ha Hf Hc Ev) as [-> Hfm]; [intros io; discriminate|].
      right. left. split; [reflexivity|]. apply Hfm. rewrite <- Et. exact Hj. }
  unfold WhyC in Hvs.
  destruct (c_target c) as [soff slen|r|L] eqn:Et.
  - apply N.leb_le in Ht. rewrite Hx in H.
    set (self := {| vs_addr := HBASE + soff; vs_off := soff; vs_len := slen |}) in *.
    assert (Hw : window_of (TSlice soff slen) self) by (intros x; reflexivity).
    assert (Hb : in_bounds self (c_mem c)) by (unfold in_bounds, self; cbn [vs_off vs_len]; lia).
    assert (Ha : vs_addr self + vs_len self < W64) by (unfold self; cbn [vs_addr vs_len]; lia).
    destruct (vs_exact (zero_err_of (c_op c)) (fuel14 c) (callb (is_read (c_op c))) self (c_addr c) (stream0 c) (c_mem c) (c_count c))
      as [[[s1 m1] r1]| |] eqn:Ev; cbn [omap fst snd] in H; try discriminate H.
    inversion H; subst s1 m1. specialize (Hvs _ self r1 eq_refl Hw Hb Ha Ev).
    destruct r1 as [u|[e| |]]; cbn [rc_res rc_io] in *; unfold okc_u in *.
    + exfalso. apply H1. congruence.
    + destruct Hvs as [->|Hvs]; [exfalso; apply H5; cbn [rc_io] in *; congruence|exact Hvs].
    + exact Hvs.
    + exact Hvs.
  - rewrite !andb_true_iff in Ht. destruct Ht as [[[Hr1 Hr2] Hr3] Hr4].
    apply N.eqb_eq in Hr1, Hr2. apply N.ltb_lt in Hr3, Hr4. rewrite Hx in H.
    assert (Hw : window_of (TRegion r) (region_slice r)) by (intros x; reflexivity).
    assert (Hb : in_bounds (region_slice r) (c_mem c)) by (unfold in_bounds, region_slice; cbn [vs_off vs_len]; lia).
    assert (Ha : vs_addr (region_slice r) + vs_len (region_slice r) < W64)
      by (unfold region_slice; cbn [vs_addr vs_len]; lia).
    unfold region_exact in H.
    destruct (vs_exact (zero_err_of (c_op c)) (fuel14 c) (callb (is_read (c_op c))) (region_slice r) (c_addr c) (stream0 c) (c_mem c) (c_count c))
      as [[[s1 m1] r1]| |] eqn:Ev; cbn [omap fst snd] in H; try discriminate H.
    rewrite rc_gres_map_err in H.
    inversion H; subst s1 m1. specialize (Hvs _ (region_slice r) r1 eq_refl Hw Hb Ha Ev).
    destruct r1 as [u|[e| |]]; cbn [rc_res rc_io] in *; unfold okc_u in *.
    + exfalso. apply H1. congruence.
    + destruct Hvs as [->|Hvs]; [exfalso; apply H5; cbn [rc_io] in *; congruence|exact Hvs].
    + exact Hvs.
    + exact Hvs.
  - rewrite andb_true_iff in Ht. destruct Ht as [Hwf HM]. apply N.eqb_eq in HM.
    assert (HB' : HBASE + nlen (c_mem c) < W64) by exact HB.
    unfold mv14.
    destruct (c_op c) eqn:Eo; try discriminate Hx; cbn [is_read callb] in *.
    + unfold gm_read_exact_volatile_from, gm_exact_of, gm_read_volatile_from in H.
      destruct (try_access (c_mode c) (fuel14 c) L (c_count c) (c_addr c)
                  (fun _ len caddr region s m => region_upto (fuel14 c) sr_call region caddr s m len)
                  (c_addr c) 0 (stream0 c) (c_mem c)) as [[[s1 m1] r1]| |] eqn:Et'; cbn [omap fst snd] in H; try discriminate H.
      inversion H; subst s1 m1. 
      destruct (gm_exact_why true (c_mode c) L _ (cb_upto (fuel14 c) (callb true)) (fuel14 c) (c_count c) (c_addr c)
                  (stream0 c) (c_mem c) s' m' r1 Hwf HM (cb_upto_spec true L _ (fuel14 c) Hwf HM HB')
                  (cb_upto_why true (fuel14 c)) Hcount Haddr Hf Hc eq_refl Et') as [->|[->|[Hi|Hz]]].
      * exfalso. apply H1. rewrite N.eqb_refl in *. cbn [rc_gres] in *; unfold okc_u in *. congruence.
      * exfalso. apply H5. cbn [rc_gres rc_io] in *. congruence.
      * left. cbn [stream0 k_src] in Hi. exact Hi.
      * right. right. exact Hz.
    + unfold gm_write_all_volatile_to, gm_exact_of, gm_write_volatile_to in H.
      destruct (try_access (c_mode c) (fuel14 c) L (c_count c) (c_addr c)
                  (fun _ len caddr region s m =>
                     omap (fun x => (fst x, match snd x with GOk _ => GOk len | GErr e => GErr e end))
                          (region_exact EWriteZero (fuel14 c) sw_call region caddr s m len))
                  (c_addr c) 0 (stream0 c) (c_mem c)) as [[[s1 m1] r1]| |] eqn:Et'; cbn [omap fst snd] in H; try discriminate H.
      inversion H; subst s1 m1.
      destruct (gm_exact_why false (c_mode c) L _ (cb_all (fuel14 c) (callb false)) (fuel14 c) (c_count c) (c_addr c)
                  (stream0 c) (c_mem c) s' m' r1 Hwf HM (cb_all_spec false L _ (fuel14 c) Hwf HM HB')
                  (cb_all_why false (fuel14 c)) Hcount Haddr Hf Hc eq_refl Et') as [->|[->|[Hi|Hz]]].
      * exfalso. apply H1. rewrite N.eqb_refl in *. cbn [rc_gres] in *; unfold okc_u in *. congruence.
      * exfalso. apply H5. cbn [rc_gres rc_io] in *. congruence.
      * left. cbn [stream0 k_sink] in Hi. rewrite nlen_nil, N.sub_0_r in Hi. exact Hi.
      * right. right. exact Hz.
Qed.

Lemma progress_model_ok c : wf14 c = true -> progress14 c (run_C14 c) = true.
Proof.
  intros Hwf. destruct (exec_post c Hwf) as (s' & m' & [[rk a] b] & He & Hli & HP).
  unfold run_C14. rewrite He. unfold progress14. cbn [o_rk o_calls o_moved].
  rewrite (LogInv_calls_made _ _ Hli).
  destruct (progress_applies (c_target c) (c_addr c) (c_count c) (c_op c) rk (k_done s')) eqn:Ea; [|reflexivity].
  unfold progress_applies in Ea. rewrite !andb_true_iff in Ea. destruct Ea as [[[Hx Hrk] Hh] Hjb].
  apply negb_true_iff in Hrk, Hh. apply N.eqb_neq in Hrk.
  assert (Hj : judged (c_target c) (c_addr c) (c_count c)).
  { apply orb_true_iff in Hjb. destruct Hjb as [Hjb|Hjb]; [left; apply N.ltb_lt; exact Hjb|].
    right. destruct (idx_of (c_target c) (c_addr c)); [discriminate|discriminate]. }
  destruct HP as (k & HG & Hkc & (_ & _ & HL) & HR). cbn [rk_of fst snd] in *.
  rewrite Hh in HL. rewrite Hx in HR. destruct HR as [_ Hiff]. specialize (Hiff Hh Hj).
  assert (Hklt : k < c_count c) by (assert (k <> c_count c) by (intros E; apply Hrk; apply Hiff; exact E); lia).
  fold (mv14 c s').
  assert (Hmv : mv14 c s' = k).
  { apply GMoved_det in HG. unfold mv14. destruct (is_read (c_op c)); cbn [stream0 k_src k_sink] in HG; rewrite ?nlen_nil in HG; lia. }
  destruct (exec_why c s' m' rk a b Hwf Hx He Hrk HL Hj) as [W|[[W1 W2]|[(d & z & W1 & W2)|[W1 W2]]]];
    unfold progress_ok.
  - rewrite W. reflexivity.
  - assert (E0 : mv14 c s' = 0).
    { subst s'. unfold mv14. cbn [stream0 k_src k_sink]. destruct (is_read (c_op c)); [lia|reflexivity]. }
    rewrite E0, W2. subst s'. cbn [stream0 k_done].
    apply orb_true_iff. left. apply orb_true_iff. left. apply orb_true_iff. right. reflexivity.
  - apply orb_true_iff. left. apply orb_true_iff. right. rewrite W1.
    destruct (d ++ [z]) as [|x l] eqn:El; [destruct d; discriminate El|]. rewrite <- El, last_snoc. exact W2.
  - apply orb_true_iff. right. rewrite W1. apply N.ltb_lt.
    assert (E : mv14 c s' = nlen (c_src c)) by (unfold mv14; rewrite W1, W2, nlen_nil; lia).
    rewrite Hmv in *. lia.
Qed.

Lemma C14_model_ok_lemma : forall c, wf14 c = true -> ok_C14 c (run_C14 c) = true.
Proof.
  intros c Hwf. unfold ok_C14. apply andb_true_iff. split; [|apply progress_model_ok; exact Hwf].
  destruct (exec_post c Hwf) as (s' & m' & [[rk a] b] & He & Hli & HP).
  unfold run_C14. rewrite He. apply post_ok; assumption.
Qed.

(* ------------------------------------------------------------------ 7. Prop-level readings *)
(* bytes the reader gave out / the writer accepted (what the harness observes) *)
Definition moved_of (c : case14) (s : sstream) : N :=
  if is_read (c_op c) then nlen (c_src c) - nlen (k_src s) else nlen (k_sink s).

Lemma exec_facts c s m rk a b : wf14 c = true -> exec14 c = Val ((s, m), (rk, a, b)) ->
  LogInv (c_script c) s
  /\ GMoved (is_read (c_op c)) (c_target c) (stream0 c) (c_mem c) (c_addr c) (moved_of c s) s m
  /\ moved_of c s <= c_count c
  /\ LogRes (k_done s) rk
  /\ (if is_exact (c_op c)
      then rk <> 0 /\ (existsb is_hard (k_done s) = false -> judged (c_target c) (c_addr c) (c_count c) ->
                       (rk = 1 <-> moved_of c s = c_count c))
      else rk <> 1 /\ (rk = 0 -> a = moved_of c s)).
Proof.
  intros Hwf He. destruct (exec_post c Hwf) as (s' & m' & rc & He' & Hli & (k & HG & Hkc & HL & HR)).
  rewrite He in He'. inversion He'; subst s' m' rc. cbn [rk_of fst snd] in *.
  assert (Hk : moved_of c s = k).
  { unfold moved_of. destruct (is_read (c_op c)); cbn [GMoved] in HG.
    - destruct HG as (A1 & A2 & _). rewrite A1, nlen_ndrop. cbn [stream0 k_src] in *. lia.
    - destruct HG as (bs & A1 & A2 & _). rewrite A2. cbn [stream0 k_sink app].
      apply flat_read_length in A1. unfold nlen. lia. }
  rewrite Hk. auto.
Qed.

Definition idx_inj (t : target) : Prop :=
  forall a1 a2 j, idx_of t a1 = Some j -> idx_of t a2 = Some j -> a1 = a2.

Lemma flat_write_nth t : idx_inj t -> forall bs m a m', flat_write t m a bs = Some m' ->
  nlen m' = nlen m
  /\ (forall i, i < nlen bs -> exists j, idx_of t (a + i) = Some j /\
                                      nth_error m' (N.to_nat j) = nth_error bs (N.to_nat i))
  /\ (forall j, (forall i, i < nlen bs -> idx_of t (a + i) <> Some j) ->
                nth_error m' (N.to_nat j) = nth_error m (N.to_nat j)).
Proof.
  intros Hinj. induction bs as [|b rest IH]; intros m a m' H; cbn [flat_write] in H.
  - inversion H; subst. split; [reflexivity|]. split; [intros i Hi; cbn in Hi; lia|auto].
  - destruct (idx_of t a) as [j0|] eqn:E0; [|discriminate].
    destruct (N.ltb_spec j0 (nlen m)) as [Hj0|]; [|discriminate].
    assert (Hl1 : nlen (mem_write m j0 [b]) = nlen m) by (apply mem_write_length; cbn; lia).
    destruct (IH _ _ _ H) as (A & B & C). rewrite nlen_cons.
    assert (Hw : forall j, nth_error (mem_write m j0 [b]) (N.to_nat j) =
                           if j =? j0 then Some b else nth_error m (N.to_nat j)).
    { intros j. rewrite mem_write_nth by (cbn; lia). change (nlen [b]) with 1.
      destruct (N.eqb_spec j j0) as [->|Hne].
      - destruct (N.leb_spec j0 j0); [|lia]. destruct (N.ltb_spec j0 (j0 + 1)); [|lia]. cbn [andb].
        rewrite N.sub_diag. reflexivity.
      - destruct (N.leb_spec j0 j); destruct (N.ltb_spec j (j0 + 1)); cbn [andb]; try reflexivity. lia. }
    split; [lia|]. split.
    + intros i Hi. destruct (N.eq_dec i 0) as [->|Hne].
      * exists j0. rewrite N.add_0_r. split; [exact E0|]. cbn [N.to_nat nth_error].
        rewrite C.
        -- rewrite Hw, N.eqb_refl. reflexivity.
        -- intros i Hi' E. assert (a + 1 + i = a) by (eapply Hinj; eassumption). lia.
      * destruct (B (i - 1)) as (j & E1 & E2); [lia|]. exists j.
        replace (a + i) with (a + 1 + (i - 1)) by lia. split; [exact E1|]. rewrite E2.
        replace (N.to_nat i) with (S (N.to_nat (i - 1))) by lia. reflexivity.
    + intros j Hj. rewrite C.
      * rewrite Hw. destruct (N.eqb_spec j j0) as [->|]; [|reflexivity].
        exfalso. apply (Hj 0); [lia|]. rewrite N.add_0_r. exact E0.
      * intros i Hi. replace (a + 1 + i) with (a + (1 + i)) by lia. apply Hj. lia.
Qed.
Lemma flat_read_nth t m : forall n a l, flat_read t m a n = Some l ->
  forall i, (i < n)%nat -> exists j, idx_of t (a + N.of_nat i) = Some j /\ nth_error l i = nth_error m (N.to_nat j).
Proof.
  induction n as [|n IH]; intros a l H i Hi; [lia|]. cbn [flat_read] in H.
  destruct (idx_of t a) as [j0|] eqn:E0; [|discriminate].
  destruct (nth_error m (N.to_nat j0)) as [b|] eqn:Eb; [|discriminate].
  destruct (flat_read t m (a + 1) n) as [l'|] eqn:El; [|discriminate]. inversion H; subst l.
  destruct i as [|i].
  - exists j0. rewrite N.add_0_r. split; [exact E0|]. cbn [nth_error]. auto.
  - destruct (IH _ _ El i) as (j & E1 & E2); [lia|]. exists j.
    replace (a + N.of_nat (S i)) with (a + 1 + N.of_nat i) by lia. auto.
Qed.

Lemma wf_windows : forall L moff r1 r2, wf_regions L moff = true -> In r1 L -> In r2 L ->
  r1 = r2 \/ g_moff r1 + g_len r1 <= g_moff r2 \/ g_moff r2 + g_len r2 <= g_moff r1.
Proof.
  induction L as [|r0 t IH]; intros moff r1 r2 Hw H1 H2; [destruct H1|].
  pose proof Hw as Hw0. cbn [wf_regions] in Hw. rewrite !andb_true_iff in Hw. destruct Hw as [[[[A B] C] D] E].
  apply N.eqb_eq in C.
  destruct H1 as [<-|H1]; destruct H2 as [<-|H2]; auto.
  - destruct (wf_regions_in _ _ _ E H2) as (_ & _ & F & _). right. left. lia.
  - destruct (wf_regions_in _ _ _ E H1) as (_ & _ & F & _). right. right. lia.
  - eapply IH; eauto.
Qed.
Lemma idx_inj_wf c : wf14 c = true -> idx_inj (c_target c).
Proof.
  intros Hwf. unfold wf14 in Hwf. rewrite !andb_true_iff in Hwf. destruct Hwf as [[[Ht _] _] _].
  intros a1 a2 j H1 H2. destruct (c_target c) as [soff slen|r|L]; cbn [idx_of] in *.
  - destruct (a1 <? slen); [|discriminate]. destruct (a2 <? slen); [|discriminate].
    inversion H1. inversion H2. lia.
  - destruct (a1 <? g_len r); [|discriminate]. destruct (a2 <? g_len r); [|discriminate].
    inversion H1. inversion H2. lia.
  - rewrite andb_true_iff in Ht. destruct Ht as [Hw _].
    destruct (find (fun r => contains r a1) L) as [r1|] eqn:F1; [|discriminate].
    destruct (find (fun r => contains r a2) L) as [r2|] eqn:F2; [|discriminate].
    apply find_some in F1, F2. destruct F1 as [I1 C1]. destruct F2 as [I2 C2].
    apply contains_iff in C1, C2. inversion H1. inversion H2.
    destruct (wf_windows L 0 r1 r2 Hw I1 I2) as [->|[D|D]]; lia.
Qed.

Lemma terminates_lemma : forall c, wf14 c = true -> exists s m rc, exec14 c = Val ((s, m), rc).
Proof. intros c Hwf. destruct (exec_post c Hwf) as (s & m & rc & He & _). eauto. Qed.

Lemma eintr_never_reported_lemma : forall c s m rk a b, wf14 c = true -> exec14 c = Val ((s, m), (rk, a, b)) ->
  rk <> 4 /\ last (k_done s) Zero <> Eintr.
Proof.
  intros c s m rk a b Hwf He. destruct (exec_facts c s m rk a b Hwf He) as (_ & _ & _ & (H4 & H5 & _) & _).
  split; [exact H4|]. intros E. rewrite E in H5. discriminate.
Qed.

Lemma harderr_reported_lemma : forall c s m rk a b, wf14 c = true -> exec14 c = Val ((s, m), (rk, a, b)) ->
  (In HardErr (k_done s) <-> rk = 5)
  /\ (rk = 5 -> last (k_done s) Zero = HardErr /\ ~ In HardErr (removelast (k_done s))).
Proof.
  intros c s m rk a b Hwf He. destruct (exec_facts c s m rk a b Hwf He) as (_ & _ & _ & (H4 & H5 & H6) & _).
  assert (Hin : forall d, In HardErr d <-> existsb is_hard d = true).
  { intros d. rewrite existsb_exists. split.
    - intros H. exists HardErr. auto.
    - intros (x & Hx & Hh). destruct x; try discriminate. exact Hx. }
  destruct (existsb is_hard (k_done s)) eqn:E.
  - destruct H6 as [-> H6]. split; [rewrite Hin; tauto|]. intros _. split.
    + apply Hin in E. clear - E H6 Hin.
      destruct (k_done s) as [|x d] using rev_ind; [destruct E|].
      rewrite removelast_snoc in H6. rewrite last_snoc. apply in_app_or in E. destruct E as [E|[E|[]]]; [|auto].
      apply Hin in E. congruence.
    + rewrite Hin. congruence.
  - split; [rewrite Hin; split; [congruence|contradiction]|]. intros; contradiction.
Qed.

Lemma calls_are_script_lemma : forall c s m rc, wf14 c = true -> exec14 c = Val ((s, m), rc) ->
  k_done s = calls_made (c_script c) (nlen (k_done s)).
Proof.
  intros c s m [[rk a] b] Hwf He. destruct (exec_facts c s m rk a b Hwf He) as (Hli & _).
  symmetry. apply LogInv_calls_made. exact Hli.
Qed.

Lemma consumed_is_stored_lemma : forall c s m rc, wf14 c = true -> is_read (c_op c) = true ->
  exec14 c = Val ((s, m), rc) ->
  let k := moved_of c s in
  k_src s = ndrop k (c_src c) /\ k <= nlen (c_src c) /\ nlen m = nlen (c_mem c)
  /\ (forall i, i < k -> exists j, idx_of (c_target c) (c_addr c + i) = Some j /\
                                nth_error m (N.to_nat j) = nth_error (c_src c) (N.to_nat i))
  /\ (forall j, (forall i, i < k -> idx_of (c_target c) (c_addr c + i) <> Some j) ->
                nth_error m (N.to_nat j) = nth_error (c_mem c) (N.to_nat j)).
Proof.
  intros c s m [[rk a] b] Hwf Hr He k. destruct (exec_facts c s m rk a b Hwf He) as (_ & HG & _).
  fold k in HG. rewrite Hr in HG. cbn [GMoved stream0 k_src k_sink] in HG. destruct HG as (A1 & A2 & A3 & A4).
  destruct (flat_write_nth _ (idx_inj_wf c Hwf) _ _ _ _ A3) as (B1 & B2 & B3).
  rewrite nlen_ntake in B2, B3. replace (N.min k (nlen (c_src c))) with k in * by lia.
  split; [exact A1|]. split; [exact A2|]. split; [exact B1|]. split; [|exact B3].
  intros i Hi. destruct (B2 i Hi) as (j & E1 & E2). exists j. split; [exact E1|]. rewrite E2.
  unfold ntake. rewrite nth_error_firstn_c. destruct (Nat.ltb_spec (N.to_nat i) (N.to_nat k)); [reflexivity|lia].
Qed.

Lemma handed_is_next_lemma : forall c s m rc, wf14 c = true -> is_read (c_op c) = false ->
  exec14 c = Val ((s, m), rc) ->
  let k := moved_of c s in
  m = c_mem c /\ nlen (k_sink s) = k
  /\ (forall i, i < k -> exists j, idx_of (c_target c) (c_addr c + i) = Some j /\
                                nth_error (k_sink s) (N.to_nat i) = nth_error (c_mem c) (N.to_nat j)).
Proof.
  intros c s m [[rk a] b] Hwf Hr He k. destruct (exec_facts c s m rk a b Hwf He) as (_ & HG & _).
  fold k in HG. rewrite Hr in HG. cbn [GMoved stream0 k_src k_sink app] in HG.
  destruct HG as (bs & A1 & A2 & A3 & A4). split; [exact A3|].
  split; [unfold k, moved_of; rewrite Hr; reflexivity|].
  intros i Hi. destruct (flat_read_nth _ _ _ _ _ A1 (N.to_nat i)) as (j & E1 & E2); [lia|].
  rewrite N2Nat.id in E1. exists j. split; [exact E1|]. rewrite A2. exact E2.
Qed.

Lemma exact_ok_iff_full_lemma : forall c s m rk a b, wf14 c = true -> is_exact (c_op c) = true ->
  exec14 c = Val ((s, m), (rk, a, b)) ->
  rk <> 0 /\ (~ In HardErr (k_done s) -> (0 < c_count c \/ idx_of (c_target c) (c_addr c) <> None) ->
              (rk = 1 <-> moved_of c s = c_count c)).
Proof.
  intros c s m rk a b Hwf Hx He. destruct (exec_facts c s m rk a b Hwf He) as (_ & _ & _ & _ & HR).
  rewrite Hx in HR. destruct HR as [H0 Hiff]. split; [exact H0|]. intros Hn Hj. apply Hiff; [|exact Hj].
  destruct (existsb is_hard (k_done s)) eqn:E; [|reflexivity]. exfalso. apply Hn.
  apply existsb_exists in E. destruct E as (x & Hx1 & Hx2). destruct x; try discriminate. exact Hx1.
Qed.

Lemma upto_returns_moved_lemma : forall c s m rk a b, wf14 c = true -> is_exact (c_op c) = false ->
  exec14 c = Val ((s, m), (rk, a, b)) -> rk <> 1 /\ (rk = 0 -> a = moved_of c s).
Proof.
  intros c s m rk a b Hwf Hx He. destruct (exec_facts c s m rk a b Hwf He) as (_ & _ & _ & _ & HR).
  rewrite Hx in HR. exact HR.
Qed.

Lemma frame_lemma : forall c s m rc, wf14 c = true -> exec14 c = Val ((s, m), rc) ->
  forall j, (forall i, i < moved_of c s -> idx_of (c_target c) (c_addr c + i) <> Some j) ->
            nth_error m (N.to_nat j) = nth_error (c_mem c) (N.to_nat j).
Proof.
  intros c s m rc Hwf He j Hj. destruct (is_read (c_op c)) eqn:Hr.
  - destruct (consumed_is_stored_lemma c s m rc Hwf Hr He) as (_ & _ & _ & _ & F). apply F. exact Hj.
  - destruct (handed_is_next_lemma c s m rc Hwf Hr He) as (-> & _). reflexivity.
Qed.

Lemma moved_le_count_lemma : forall c s m rc, wf14 c = true -> exec14 c = Val ((s, m), rc) ->
  moved_of c s <= c_count c.
Proof.
  intros c s m [[rk a] b] Hwf He. destruct (exec_facts c s m rk a b Hwf He) as (_ & _ & H & _). exact H.
Qed.
