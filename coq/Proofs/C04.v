(* C04 - lemmas *)
From VM Require Import Prelude.MachInt Prelude.Outcome Prelude.Tok Impl.VolMem Spec.C04 Suite.C04.

Lemma takeN_firstn l : forall n, takeN n l = firstn (N.to_nat n) l.
Proof.
  induction l as [|x l IH]; intros n; cbn [takeN].
  - now rewrite firstn_nil.
  - destruct (N.eqb_spec n 0) as [->|Hn]; [reflexivity|].
    replace (N.to_nat n) with (S (N.to_nat (n - 1))) by lia. cbn [firstn]. now rewrite IH.
Qed.
