(* C04 - lemmas.  Layers: (1) lists: takeN/dropN, the splice form h_read/h_write of the model
   against the pointwise form get/put of the checker; (2) typed values; (3) normal forms of the
   model accessors on the whole-container slice; (4) one step of a history: the model agrees with
   what the checker demands; (5) histories by induction; (6) Prop-level readings. *)
From VM Require Import Prelude.MachInt Prelude.Outcome Prelude.Tok Impl.VolMem Spec.C04 Suite.C04.

(* ------------------------------------------------------------------ (1) lists *)
Lemma takeN_firstn l : forall n, takeN n l = firstn (N.to_nat n) l.
Proof.
  induction l as [|x l IH]; intros n; cbn [takeN].
  - now rewrite firstn_nil.
  - destruct (N.eqb_spec n 0) as [->|Hn]; [reflexivity|].
    replace (N.to_nat n) with (S (N.to_nat (n - 1))) by lia. cbn [firstn]. now rewrite IH.
Qed.
Lemma dropN_skipn l : forall n, dropN n l = skipn (N.to_nat n) l.
Proof.
  induction l as [|x l IH]; intros n; cbn [dropN].
  - now rewrite skipn_nil.
  - destruct (N.eqb_spec n 0) as [->|Hn]; [reflexivity|].
    replace (N.to_nat n) with (S (N.to_nat (n - 1))) by lia. cbn [skipn]. now rewrite IH.
Qed.
Lemma len_nat l : N.to_nat (len l) = length l.
Proof. unfold len. lia. Qed.
Lemma slen_len l : slen l = len l.
Proof. reflexivity. Qed.
Lemma h_read_eq h a k : h_read h a k = firstn (N.to_nat k) (skipn (N.to_nat a) h).
Proof. unfold h_read. now rewrite takeN_firstn, dropN_skipn. Qed.
Lemma h_write_eq h a d :
  h_write h a d = firstn (N.to_nat a) h ++ d ++ skipn (N.to_nat a + length d) h.
Proof.
  unfold h_write. rewrite takeN_firstn, dropN_skipn. repeat f_equal. unfold len. lia.
Qed.
Lemma h_write_length h a d : a + len d <= len h -> length (h_write h a d) = length h.
Proof.
  unfold len. intros H. rewrite h_write_eq, !app_length, firstn_length, skipn_length. lia.
Qed.
Lemma h_read_length h a k : a + k <= len h -> length (h_read h a k) = N.to_nat k.
Proof.
  unfold len. intros H. rewrite h_read_eq, firstn_length, skipn_length. lia.
Qed.
Lemma nthN_nth l : forall i, nthN l i = nth (N.to_nat i) l 0.
Proof.
  induction l as [|x l IH]; intros i; cbn [nthN].
  - now destruct (N.to_nat i).
  - destruct (N.eqb_spec i 0) as [->|Hi]; [reflexivity|].
    replace (N.to_nat i) with (S (N.to_nat (i - 1))) by lia. cbn [nth]. apply IH.
Qed.

Lemma skipn_skipn' (l : list N) : forall a b, skipn a (skipn b l) = skipn (b + a) l.
Proof.
  induction l as [|x l IH]; intros a b.
  - now rewrite !skipn_nil.
  - destruct b as [|b]; [reflexivity|]. cbn [skipn plus]. apply IH.
Qed.
(* a list cut at a and a+k *)
Lemma split3 (h : list N) a k :
  h = firstn a h ++ firstn k (skipn a h) ++ skipn (a + k) h.
Proof.
  rewrite <- (firstn_skipn a h) at 1. f_equal.
  rewrite <- (firstn_skipn k (skipn a h)) at 1. f_equal. apply skipn_skipn'.
Qed.

(* put *)
Lemma put_from_length h : forall i a d, length (put_from i h a d) = length h.
Proof. induction h as [|x h IH]; intros; cbn [put_from length]; [reflexivity|]. now rewrite IH. Qed.
Lemma put_from_app l1 : forall l2 i a d,
  put_from i (l1 ++ l2) a d = put_from i l1 a d ++ put_from (i + len l1) l2 a d.
Proof.
  induction l1 as [|x l1 IH]; intros; cbn [put_from app].
  - f_equal. unfold len. cbn [length]. lia.
  - f_equal. rewrite IH. f_equal. f_equal. unfold len. cbn [length]. lia.
Qed.
Lemma put_from_out l : forall i a d, (i + len l <= a \/ a + slen d <= i \/ slen d = 0) -> put_from i l a d = l.
Proof.
  induction l as [|x l IH]; intros i a d H; cbn [put_from]; [reflexivity|].
  unfold len in *. cbn [length] in H.
  f_equal.
  - destruct (N.leb_spec a i); destruct (N.ltb_spec i (a + slen d)); cbn [andb]; try reflexivity. lia.
  - apply IH. lia.
Qed.
Lemma put_from_shift r : forall i a y d, a < i -> put_from i r a (y :: d) = put_from i r (a + 1) d.
Proof.
  induction r as [|x r IH]; intros i a y d H; cbn [put_from]; [reflexivity|].
  f_equal.
  - unfold slen. cbn [length].
    destruct (N.leb_spec a i); destruct (N.leb_spec (a + 1) i); try lia.
    destruct (N.ltb_spec i (a + N.of_nat (S (length d)))); destruct (N.ltb_spec i (a + 1 + N.of_nat (length d)));
      try lia; cbn [andb]; [|reflexivity].
    cbn [nthN]. destruct (N.eqb_spec (i - a) 0); [lia|]. f_equal. lia.
  - apply IH. lia.
Qed.
Lemma put_from_in l : forall a d, length l = length d -> put_from a l a d = d.
Proof.
  induction l as [|x l IH]; intros a [|y d] H; cbn [length] in H; try discriminate; cbn [put_from]; [reflexivity|].
  f_equal.
  - unfold slen. cbn [length].
    destruct (N.leb_spec a a); [|lia]. destruct (N.ltb_spec a (a + N.of_nat (S (length d)))); [|lia].
    cbn [andb nthN]. now rewrite N.sub_diag.
  - rewrite put_from_shift by lia. apply IH. lia.
Qed.
Lemma put_h_write h a d : a + len d <= len h -> put h a d = h_write h a d.
Proof.
  unfold len. intros H. rewrite h_write_eq. unfold put.
  rewrite (split3 h (N.to_nat a) (length d)) at 1.
  rewrite !put_from_app. f_equal; [|f_equal].
  - apply put_from_out. left. unfold len. rewrite firstn_length. lia.
  - unfold len. rewrite firstn_length.
    replace (0 + N.of_nat (Nat.min (N.to_nat a) (length h))) with a by lia.
    apply put_from_in. rewrite firstn_length, skipn_length. lia.
  - apply put_from_out. right. left. unfold len, slen. rewrite !firstn_length, skipn_length. lia.
Qed.
Lemma put_nil h a : put h a [] = h.
Proof. unfold put. apply put_from_out. right. right. reflexivity. Qed.
Lemma put_length h a d : length (put h a d) = length h.
Proof. apply put_from_length. Qed.

(* get *)
Lemma get_from_app l1 : forall l2 i a k,
  get_from i (l1 ++ l2) a k = get_from i l1 a k ++ get_from (i + len l1) l2 a k.
Proof.
  induction l1 as [|x l1 IH]; intros; cbn [get_from app].
  - f_equal. unfold len. cbn [length]. lia.
  - rewrite IH. replace (i + 1 + len l1) with (i + len (x :: l1)) by (unfold len; cbn [length]; lia).
    destruct ((a <=? i) && (i <? a + k)); reflexivity.
Qed.
Lemma get_from_out l : forall i a k, (i + len l <= a \/ a + k <= i \/ k = 0) -> get_from i l a k = [].
Proof.
  induction l as [|x l IH]; intros i a k H; cbn [get_from]; [reflexivity|].
  unfold len in *. cbn [length] in H.
  destruct (N.leb_spec a i); destruct (N.ltb_spec i (a + k)); cbn [andb]; try (apply IH; lia). lia.
Qed.
Lemma get_from_in l : forall i a k, a <= i -> i + len l <= a + k -> get_from i l a k = l.
Proof.
  induction l as [|x l IH]; intros i a k H1 H2; cbn [get_from]; [reflexivity|].
  unfold len in *. cbn [length] in H2.
  destruct (N.leb_spec a i); [|lia]. destruct (N.ltb_spec i (a + k)); [|lia]. cbn [andb].
  f_equal. apply IH; lia.
Qed.
Lemma get_h_read h a k : a + k <= len h -> get h a k = h_read h a k.
Proof.
  unfold len. intros H. rewrite h_read_eq. unfold get.
  rewrite (split3 h (N.to_nat a) (N.to_nat k)) at 1.
  rewrite !get_from_app.
  rewrite get_from_out by (left; unfold len; rewrite firstn_length; lia).
  rewrite (get_from_out (skipn _ _)) by (right; left; unfold len; rewrite !firstn_length, skipn_length; lia).
  rewrite app_nil_r. cbn [app].
  apply get_from_in; unfold len; rewrite !firstn_length; try rewrite skipn_length; lia.
Qed.
Lemma get_zero h a : get h a 0 = [].
Proof. unfold get. apply get_from_out. right. right. reflexivity. Qed.

(* diff *)
Lemma diff_is_refl h x : diff_is h (mo_heap x) (obs_of h x) = true.
Proof.
  unfold diff_is, obs_of. destruct (diff_from 0 h (mo_heap x)) as [di dv]. cbn [o_di o_dv].
  apply andb_true_intro. split; apply list_eqb_eq; reflexivity.
Qed.

(* ------------------------------------------------------------------ (2) typed values *)
Lemma enc_bytes n : forall v, enc_le n v = bytes_le n v.
Proof. induction n as [|n IH]; intros v; cbn [enc_le bytes_le]; [reflexivity|]. now rewrite IH. Qed.
Lemma dec_num l : dec_le l = num_le l.
Proof. induction l as [|b l IH]; cbn [dec_le num_le]; [reflexivity|]. now rewrite IH. Qed.
Lemma as_slice_image t v : as_slice (vt t) v = image t v.
Proof. unfold as_slice, image, vt. cbn [ty_size ty_be]. now rewrite enc_bytes. Qed.
Lemma from_bytes_value t l : from_bytes (vt t) l = value t l.
Proof. unfold from_bytes, value, vt. cbn [ty_be]. apply dec_num. Qed.
Lemma enc_le_length n : forall v, length (enc_le n v) = n.
Proof. induction n as [|n IH]; intros v; cbn [enc_le length]; [reflexivity|]. now rewrite IH. Qed.
Lemma as_slice_length t v : length (as_slice t v) = N.to_nat (ty_size t).
Proof. unfold as_slice. destruct (ty_be t); [rewrite rev_length|]; apply enc_le_length. Qed.
Lemma as_slice_len t v : len (as_slice t v) = ty_size t.
Proof. unfold len. rewrite as_slice_length. lia. Qed.
Lemma dec_enc n : forall v, v < 256 ^ N.of_nat n -> dec_le (enc_le n v) = v.
Proof.
  induction n as [|n IH]; intros v H; cbn [enc_le dec_le].
  - change (256 ^ N.of_nat 0) with 1 in H. lia.
  - rewrite IH.
    + pose proof (N.div_mod v 256). lia.
    + replace (N.of_nat (S n)) with (N.succ (N.of_nat n)) in H by lia.
      rewrite N.pow_succ_r' in H. apply N.div_lt_upper_bound; lia.
Qed.
Lemma from_as t v : v < 256 ^ ty_size t -> from_bytes t (as_slice t v) = v.
Proof.
  intros H. unfold from_bytes, as_slice. destruct (ty_be t); [rewrite rev_involutive|];
    apply dec_enc; now rewrite N2Nat.id.
Qed.

(* ------------------------------------------------------------------ (3) accessors, normal forms *)
Lemma isz_lt_w : ISZ_MAX < W64.
Proof. rewrite W64_val. reflexivity. Qed.

Lemma firstn_add' (l : list N) : forall a b, firstn (a + b) l = firstn a l ++ firstn b (skipn a l).
Proof.
  induction l as [|x l IH]; intros a b.
  - now rewrite skipn_nil, !firstn_nil.
  - destruct a as [|a]; [reflexivity|]. cbn [plus firstn skipn app]. now rewrite IH.
Qed.
Lemma h_read_add h a k1 k2 : h_read h a (k1 + k2) = h_read h a k1 ++ h_read h (a + k1) k2.
Proof.
  rewrite !h_read_eq. replace (N.to_nat (k1 + k2)) with (N.to_nat k1 + N.to_nat k2)%nat by lia.
  rewrite firstn_add'. f_equal. f_equal. rewrite skipn_skipn'. f_equal. lia.
Qed.
Lemma h_read_zero h a : h_read h a 0 = [].
Proof. rewrite h_read_eq. reflexivity. Qed.

Lemma h_write_app A M Z a d : len A = a -> length M = length d -> h_write (A ++ M ++ Z) a d = A ++ d ++ Z.
Proof.
  unfold len. intros HA HM. rewrite h_write_eq. f_equal; [|f_equal].
  - replace (N.to_nat a) with (length A + 0)%nat by lia. rewrite firstn_app_2. cbn [firstn]. apply app_nil_r.
  - replace (N.to_nat a + length d)%nat with (length A + length M)%nat by lia.
    rewrite skipn_app. replace (length A + length M - length A)%nat with (length M) by lia.
    rewrite skipn_all2 by lia. cbn [app].
    rewrite skipn_app. rewrite skipn_all. now rewrite Nat.sub_diag.
Qed.
Lemma h_write_h_write h a d1 d2 : a + len d1 + len d2 <= len h ->
  h_write (h_write h a d1) (a + len d1) d2 = h_write h a (d1 ++ d2).
Proof.
  unfold len. intros H.
  pose proof (split3 h (N.to_nat a) (length d1)) as E1.
  pose proof (split3 (skipn (N.to_nat a + length d1) h) 0 (length d2)) as E2. cbn [firstn skipn app plus] in E2.
  set (A := firstn (N.to_nat a) h) in *. set (M1 := firstn (length d1) (skipn (N.to_nat a) h)) in *.
  set (M2 := firstn (length d2) (skipn (N.to_nat a + length d1) h)) in *.
  set (Z := skipn (length d2) (skipn (N.to_nat a + length d1) h)) in *.
  assert (LA : length A = N.to_nat a) by (unfold A; rewrite firstn_length; lia).
  assert (LM1 : length M1 = length d1) by (unfold M1; rewrite firstn_length, skipn_length; lia).
  assert (LM2 : length M2 = length d2) by (unfold M2; rewrite firstn_length, skipn_length; lia).
  rewrite E2 in E1. rewrite E1.
  rewrite (h_write_app A M1 (M2 ++ Z)) by (unfold len; lia).
  replace (A ++ d1 ++ M2 ++ Z) with ((A ++ d1) ++ M2 ++ Z) by now rewrite <- app_assoc.
  rewrite (h_write_app (A ++ d1) M2 Z) by (unfold len; try rewrite app_length; lia).
  replace (A ++ M1 ++ M2 ++ Z) with (A ++ (M1 ++ M2) ++ Z) by now rewrite <- app_assoc.
  rewrite (h_write_app A (M1 ++ M2) Z) by (unfold len; try rewrite !app_length; lia).
  now rewrite <- !app_assoc.
Qed.

(* the element loops *)
Lemma read_loop_spec h t : forall k a, a + N.of_nat k * st_size t <= len h ->
  va_read_loop h (vt t) a k =
  map (fun i => value t (get h (a + N.of_nat i * st_size t) (st_size t))) (seq 0 k).
Proof.
  induction k as [|k IH]; intros a H; cbn [va_read_loop seq map]; [reflexivity|].
  change (ty_size (vt t)) with (st_size t). f_equal.
  - rewrite from_bytes_value. f_equal. change (N.of_nat 0) with 0. rewrite N.mul_0_l, N.add_0_r.
    symmetry. apply get_h_read. lia.
  - rewrite IH by lia. rewrite <- seq_shift, map_map. apply map_ext. intros i. do 2 f_equal. lia.
Qed.
Lemma write_loop_spec t : forall vals h a, a + len vals * st_size t <= len h ->
  va_write_loop h (vt t) a vals = h_write h a (concat (map (as_slice (vt t)) vals)).
Proof.
  induction vals as [|v vals IH]; intros h a H; cbn [va_write_loop map concat].
  - rewrite h_write_eq. cbn [app length]. rewrite Nat.add_0_r. symmetry. apply firstn_skipn.
  - change (ty_size (vt t)) with (st_size t).
    assert (L : len (as_slice (vt t) v) = st_size t) by apply as_slice_len.
    assert (LC : len (concat (map (as_slice (vt t)) vals)) = len vals * st_size t).
    { clear. induction vals as [|x vals IH]; [reflexivity|]. cbn [map concat]. unfold len in *.
      rewrite app_length. fold (len (as_slice (vt t) x)). cbn [length].
      pose proof (as_slice_len (vt t) x) as E. unfold len in E. change (ty_size (vt t)) with (st_size t) in E. lia. }
    unfold len in H. cbn [length] in H.
    rewrite IH.
    + rewrite <- L at 1. apply h_write_h_write. rewrite L, LC. unfold len. lia.
    + unfold len. rewrite h_write_length by (rewrite L; unfold len; lia). unfold len. lia.
Qed.

(* one-byte element types: an element buffer is its own byte image *)
Lemma value_one t x : st_size t = 1 -> value t [x] = x.
Proof. intros _. unfold value. destruct (st_be t); cbn [rev app num_le]; lia. Qed.
Lemma image_one t v : st_size t = 1 -> v < 256 -> image t v = [v].
Proof.
  intros E H. unfold image. rewrite E. change (N.to_nat 1) with 1%nat. cbn [bytes_le].
  rewrite N.mod_small by assumption. now destruct (st_be t).
Qed.
Lemma concat_image_one t l : st_size t = 1 -> forallb (wf_val t) l = true -> concat (map (image t) l) = l.
Proof.
  intros E. induction l as [|v l IH]; intros H; cbn [map concat]; [reflexivity|].
  cbn [forallb] in H. apply andb_true_iff in H. destruct H as [H1 H2].
  unfold wf_val in H1. rewrite E in H1. apply N.ltb_lt in H1. change (256 ^ 1) with 256 in H1.
  rewrite image_one by assumption. cbn [app]. now rewrite IH.
Qed.
Lemma h_read_one_loop h t : st_size t = 1 -> forall k a, a + N.of_nat k <= len h ->
  h_read h a (N.of_nat k) = va_read_loop h (vt t) a k.
Proof.
  intros E. induction k as [|k IH]; intros a H; cbn [va_read_loop].
  - apply h_read_zero.
  - change (ty_size (vt t)) with (st_size t). rewrite E.
    replace (N.of_nat (S k)) with (1 + N.of_nat k) by lia. rewrite h_read_add.
    rewrite IH by lia.
    assert (L : length (h_read h a 1) = 1%nat) by (rewrite h_read_length; [reflexivity|lia]).
    destruct (h_read h a 1) as [|x [|y q]]; try discriminate L.
    cbn [app]. f_equal. rewrite from_bytes_value. symmetry. now apply value_one.
Qed.
Lemma forallb_firstn {A} (f : A -> bool) (l : list A) k : forallb f l = true -> forallb f (firstn k l) = true.
Proof.
  revert k. induction l as [|x l IH]; intros k H; [now rewrite firstn_nil|].
  destruct k as [|k]; [reflexivity|]. cbn [firstn forallb] in *.
  apply andb_true_iff in H. destruct H as [H1 H2]. rewrite H1. cbn [andb]. now apply IH.
Qed.

(* ------------------------------------------------------------------ (4) one step *)
Definition agrees (x : mout) (r : sres) : Prop :=
  if mo_kind x =? 0
  then opt_allows (s_must r) true = true /\ mo_n x = s_n r /\ mo_buf x = s_buf r /\ mo_heap x = s_heap r
  else opt_allows (s_must r) false = true /\ mo_buf x = s_ebuf r /\ mo_heap x = s_eheap r.
Lemma agrees_ok h v b r :
  opt_allows (s_must r) true = true -> v = s_n r -> b = s_buf r -> h = s_heap r -> agrees (m_ok h v b) r.
Proof. intros. unfold agrees, m_ok. cbn [mo_kind mo_n mo_buf mo_heap]. change (0 =? 0) with true. cbv iota. tauto. Qed.
Lemma agrees_err h e b r :
  opt_allows (s_must r) false = true -> b = s_ebuf r -> h = s_eheap r -> agrees (m_err h e b) r.
Proof.
  intros. unfold agrees, m_err. cbn [mo_kind mo_n mo_buf mo_heap].
  replace (kind_of_err e =? 0) with false by (destruct e; reflexivity). cbv iota. tauto.
Qed.
Lemma agrees_panic h b r :
  opt_allows (s_must r) false = true -> b = s_ebuf r -> h = s_eheap r -> agrees (m_panic h b) r.
Proof. intros. unfold agrees, m_panic. cbn [mo_kind mo_n mo_buf mo_heap]. change (7 =? 0) with false. cbv iota. tauto. Qed.

Lemma both_true a b : opt_allows a true = true -> opt_allows b true = true -> opt_allows (both a b) true = true.
Proof. destruct a as [[|]|], b as [[|]|]; cbn; intros; congruence. Qed.
Lemma both_false_l a b : opt_allows a false = true -> opt_allows (both a b) false = true.
Proof. destruct a as [[|]|], b as [[|]|]; cbn; intros; congruence. Qed.
Lemma both_false_r a b : opt_allows b false = true -> opt_allows (both a b) false = true.
Proof. destruct a as [[|]|], b as [[|]|]; cbn; intros; congruence. Qed.

Section Step.
Variables (k : N) (m : mode) (hb pre n : N).
Hypothesis Hk : k <= 2.
Definition inv (h : heap) : Prop := pre + n <= len h /\ hb + len h <= ISZ_MAX.
Notation r := {| mr_addr := pre; mr_size := n |}.
Notation C := {| vs_addr := pre; vs_size := n |}.

Lemma acc_true off bytes : off + bytes <= n -> opt_allows (acc_req n off bytes) true = true.
Proof.
  intros H. unfold acc_req. destruct (bytes =? 0); [reflexivity|]. cbn [opt_allows].
  destruct (N.leb_spec (off + bytes) n); [reflexivity|lia].
Qed.
Lemma acc_false off bytes : n < off + bytes \/ bytes = 0 -> opt_allows (acc_req n off bytes) false = true.
Proof.
  intros H. unfold acc_req. destruct (N.eqb_spec bytes 0); [reflexivity|]. cbn [opt_allows].
  destruct (N.leb_spec (off + bytes) n); [lia|reflexivity].
Qed.

Lemma cslice_val h : inv h -> cslice k r = Val C.
Proof.
  intros [H1 H2]. pose proof isz_lt_w.
  assert (E : mr_get_slice r 0 n = Ok C).
  { unfold mr_get_slice, compute_end_offset, compute_offset, checked_add. cbn [mr_addr mr_size].
    rewrite N.add_0_l, N.add_0_r. destruct (N.ltb_spec n W64); [|lia]. now rewrite N.ltb_irrefl. }
  unfold cslice, mr_as_volatile_slice, grm_as_volatile_slice. cbn [mr_size]. rewrite E. cbn [gm_res].
  destruct (k =? 0), (k =? 1); reflexivity.
Qed.
Lemma cslice_res_val h : inv h -> cslice_res k r = Val (Ok C).
Proof.
  intros H. unfold cslice_res. rewrite (cslice_val h H). cbn [omap].
  destruct (k =? 2); [|reflexivity].
  destruct H as [H1 H2]. pose proof isz_lt_w.
  unfold grm_as_volatile_slice, mr_get_slice, compute_end_offset, compute_offset, checked_add. cbn [mr_addr mr_size].
  rewrite N.add_0_l, N.add_0_r. destruct (N.ltb_spec n W64); [|lia]. now rewrite N.ltb_irrefl.
Qed.

(* get_slice on any slice lying in the heap *)
Lemma get_slice_ok (s : vslice) off cnt : vs_size s < W64 -> off + cnt <= vs_size s ->
  vs_get_slice s off cnt = Ok {| vs_addr := vs_addr s + off; vs_size := cnt |}.
Proof.
  intros Hs H. unfold vs_get_slice, vs_subslice, compute_end_offset, compute_offset, checked_add.
  destruct (N.ltb_spec (off + cnt) W64); [|lia]. destruct (N.ltb_spec (vs_size s) (off + cnt)); [lia|reflexivity].
Qed.
Lemma get_slice_err (s : vslice) off cnt : vs_size s < W64 -> vs_size s < off + cnt ->
  exists e, vs_get_slice s off cnt = Err e.
Proof.
  intros Hs H. unfold vs_get_slice, vs_subslice, compute_end_offset, compute_offset, checked_add.
  destruct (N.ltb_spec (off + cnt) W64); [|eauto]. destruct (N.ltb_spec (vs_size s) (off + cnt)); [eauto|lia].
Qed.
Lemma get_ref_ok (s : vslice) size off : vs_size s < W64 -> off + size <= vs_size s ->
  vs_get_ref s size off = Val (Ok (vs_addr s + off)).
Proof.
  intros Hs H. unfold vs_get_ref. rewrite get_slice_ok by assumption. cbn [vs_size vs_addr].
  now rewrite N.eqb_refl.
Qed.
Lemma get_ref_err (s : vslice) size off : vs_size s < W64 -> vs_size s < off + size ->
  exists e, vs_get_ref s size off = Val (Err e).
Proof.
  intros Hs H. unfold vs_get_ref. destruct (get_slice_err s off size Hs H) as [e ->]. eauto.
Qed.
Lemma get_array_ref_cases (s : vslice) size off cnt : vs_size s <= ISZ_MAX ->
  (vs_get_array_ref s size off cnt = Val (Ok {| va_addr := vs_addr s + off; va_nelem := cnt |})
   /\ off + cnt * size <= vs_size s) \/
  (exists e, vs_get_array_ref s size off cnt = Val (Err e) /\ (vs_size s < off + cnt * size \/ cnt * size = 0)).
Proof.
  intros Hs. pose proof isz_lt_w. unfold vs_get_array_ref.
  destruct (N.leb_spec cnt ISZ_MAX) as [Hc|Hc].
  - destruct (N.leb_spec (cnt * size) ISZ_MAX) as [Hm|Hm].
    + destruct (N.le_gt_cases (off + cnt * size) (vs_size s)) as [Hi|Hi].
      * left. rewrite get_slice_ok by lia. cbn [vs_size vs_addr]. rewrite N.eqb_refl. now split.
      * right. destruct (get_slice_err s off (cnt * size)) as [e E]; [lia|lia|]. rewrite E. eauto.
    + right. eexists. split; [reflexivity|]. left. lia.
  - right. eexists. split; [reflexivity|].
    destruct (N.eq_dec size 0) as [->|Hz]; [right; lia|]. left. nia.
Qed.

(* Bytes<usize> on the container *)
Lemma vs_write_nf h buf addr : inv h ->
  vs_write hb h C buf addr =
  if len buf =? 0 then (h, Ok 0) else if n <=? addr then (h, Err EOutOfBounds) else
  let total := N.min (n - addr) (len buf) in (h_write h (pre + addr) (takeN total buf), Ok total).
Proof.
  intros [H1 H2]. pose proof isz_lt_w. unfold vs_write. destruct (len buf =? 0); [reflexivity|]. cbn [vs_size].
  destruct (N.leb_spec n addr); [reflexivity|].
  unfold vs_offset, checked_add, checked_sub. cbn [vs_addr vs_size].
  destruct (N.ltb_spec (hb + pre + addr) W64); [|lia]. destruct (N.leb_spec addr n); [|lia]. reflexivity.
Qed.
Lemma vs_read_nf h buf addr : inv h ->
  vs_read hb h C buf addr =
  if len buf =? 0 then (buf, Ok 0) else if n <=? addr then (buf, Err EOutOfBounds) else
  let total := N.min (n - addr) (len buf) in (h_read h (pre + addr) total ++ dropN total buf, Ok total).
Proof.
  intros [H1 H2]. pose proof isz_lt_w. unfold vs_read. destruct (len buf =? 0); [reflexivity|]. cbn [vs_size].
  destruct (N.leb_spec n addr); [reflexivity|].
  unfold vs_offset, checked_add, checked_sub. cbn [vs_addr vs_size].
  destruct (N.ltb_spec (hb + pre + addr) W64); [|lia]. destruct (N.leb_spec addr n); [|lia]. reflexivity.
Qed.

(* the byte-buffer transfers against sp_in / sp_out *)
Lemma put_firstn_write h data addr : inv h -> addr < n ->
  put h (pre + addr) (firstn (N.to_nat (N.min (n - addr) (len data))) data)
  = h_write h (pre + addr) (takeN (N.min (n - addr) (len data)) data).
Proof.
  intros [H1 H2] Ha. rewrite takeN_firstn.
  apply put_h_write. unfold len in *. rewrite firstn_length. lia.
Qed.
Lemma get_read h addr kk : inv h -> addr < n -> kk <= n - addr -> get h (pre + addr) kk = h_read h (pre + addr) kk.
Proof. intros [H1 H2] Ha Hk'. apply get_h_read. lia. Qed.

Lemma step_write h buf addr : inv h ->
  agrees (model_step k m hb r h (OWrite buf addr)) (spec_step hb pre n h (OWrite buf addr)).
Proof.
  intros Hi. unfold model_step, step_body. rewrite (cslice_val h Hi). cbn [bind].
  rewrite vs_write_nf by assumption. cbn [spec_step]. unfold sp_in. change slen with len.
  destruct (len buf =? 0). { cbn [out_n]. apply agrees_ok; reflexivity. }
  destruct (N.leb_spec n addr). { cbn [out_n]. apply agrees_err; reflexivity. }
  cbn zeta. cbn [out_n]. unfold cut. change slen with len. rewrite (N.min_comm (len buf)).
  apply agrees_ok; cbn [s_must s_n s_buf s_heap]; try reflexivity.
  symmetry. now apply put_firstn_write.
Qed.
Lemma step_read h buf addr : inv h ->
  agrees (model_step k m hb r h (ORead buf addr)) (spec_step hb pre n h (ORead buf addr)).
Proof.
  intros Hi. unfold model_step, step_body. rewrite (cslice_val h Hi). cbn [bind].
  rewrite vs_read_nf by assumption. cbn [spec_step]. unfold sp_out. change slen with len.
  destruct (len buf =? 0). { cbn [out_n]. apply agrees_ok; reflexivity. }
  destruct (N.leb_spec n addr). { cbn [out_n]. apply agrees_err; reflexivity. }
  cbn zeta. cbn [out_n]. unfold cut. change slen with len. rewrite (N.min_comm (len buf)).
  apply agrees_ok; cbn [s_must s_n s_buf s_heap]; try reflexivity.
  rewrite dropN_skipn. f_equal. symmetry. apply get_read; [assumption|lia|lia].
Qed.

Lemma vs_write_slice_nf h buf addr : inv h ->
  vs_write_slice hb h C buf addr =
  if len buf =? 0 then (h, Ok tt) else if n <=? addr then (h, Err EOutOfBounds) else
  let total := N.min (n - addr) (len buf) in
  (h_write h (pre + addr) (takeN total buf), if total =? len buf then Ok tt else Err EPartialBuffer).
Proof.
  intros Hi. unfold vs_write_slice. rewrite vs_write_nf by assumption.
  destruct (N.eqb_spec (len buf) 0) as [E|E]. { rewrite E. reflexivity. }
  destruct (n <=? addr); [reflexivity|]. cbv beta iota zeta.
  destruct (N.min (n - addr) (len buf) =? len buf); reflexivity.
Qed.
Lemma vs_read_slice_nf h buf addr : inv h ->
  vs_read_slice hb h C buf addr =
  if len buf =? 0 then (buf, Ok tt) else if n <=? addr then (buf, Err EOutOfBounds) else
  let total := N.min (n - addr) (len buf) in
  (h_read h (pre + addr) total ++ dropN total buf, if total =? len buf then Ok tt else Err EPartialBuffer).
Proof.
  intros Hi. unfold vs_read_slice. rewrite vs_read_nf by assumption.
  destruct (N.eqb_spec (len buf) 0) as [E|E]. { rewrite E. reflexivity. }
  destruct (n <=? addr); [reflexivity|]. cbv beta iota zeta.
  destruct (N.min (n - addr) (len buf) =? len buf); reflexivity.
Qed.

Lemma in_all_agrees h data addr : inv h ->
  agrees (let '(h', res) := vs_write_slice hb h C data addr in out_unit k h' [] res) (sp_in pre n h data addr true).
Proof.
  intros Hi. rewrite vs_write_slice_nf by assumption. unfold sp_in. change slen with len.
  destruct (len data =? 0). { cbn [out_unit]. apply agrees_ok; reflexivity. }
  destruct (N.leb_spec n addr). { cbn [out_unit]. apply agrees_err; reflexivity. }
  cbn zeta. unfold cut. change slen with len. rewrite (N.min_comm (len data)).
  destruct (N.min (n - addr) (len data) =? len data); cbn [out_unit].
  - apply agrees_ok; cbn [s_must s_n s_buf s_heap]; try reflexivity. symmetry. now apply put_firstn_write.
  - apply agrees_err; cbn [s_must s_ebuf s_eheap]; try reflexivity. symmetry. now apply put_firstn_write.
Qed.
Lemma step_write_slice h buf addr : inv h ->
  agrees (model_step k m hb r h (OWriteSlice buf addr)) (spec_step hb pre n h (OWriteSlice buf addr)).
Proof.
  intros Hi. unfold model_step, step_body. rewrite (cslice_val h Hi). cbn [bind spec_step].
  pose proof (in_all_agrees h buf addr Hi) as A. destruct (vs_write_slice hb h C buf addr). exact A.
Qed.
Lemma step_write_obj h t v addr : inv h ->
  agrees (model_step k m hb r h (OWriteObj t v addr)) (spec_step hb pre n h (OWriteObj t v addr)).
Proof.
  intros Hi. unfold model_step, step_body. rewrite (cslice_val h Hi). cbn [bind spec_step].
  unfold vs_write_obj. rewrite as_slice_image.
  pose proof (in_all_agrees h (image t v) addr Hi) as A. destruct (vs_write_slice hb h C (image t v) addr). exact A.
Qed.
Lemma out_all_agrees h buf addr : inv h ->
  agrees (let '(b', res) := vs_read_slice hb h C buf addr in out_unit k h b' res) (sp_out pre n h buf addr true).
Proof.
  intros Hi. rewrite vs_read_slice_nf by assumption. unfold sp_out. change slen with len.
  destruct (len buf =? 0). { cbn [out_unit]. apply agrees_ok; reflexivity. }
  destruct (N.leb_spec n addr). { cbn [out_unit]. apply agrees_err; reflexivity. }
  cbn zeta. unfold cut. change slen with len. rewrite (N.min_comm (len buf)).
  assert (E : get h (pre + addr) (N.min (n - addr) (len buf)) = h_read h (pre + addr) (N.min (n - addr) (len buf)))
    by (apply get_read; [assumption|lia|lia]).
  destruct (N.min (n - addr) (len buf) =? len buf); cbn [out_unit].
  - apply agrees_ok; cbn [s_must s_n s_buf s_heap]; try reflexivity. now rewrite dropN_skipn, E.
  - apply agrees_err; cbn [s_must s_ebuf s_eheap]; try reflexivity. now rewrite dropN_skipn, E.
Qed.
Lemma step_read_slice h buf addr : inv h ->
  agrees (model_step k m hb r h (OReadSlice buf addr)) (spec_step hb pre n h (OReadSlice buf addr)).
Proof.
  intros Hi. unfold model_step, step_body. rewrite (cslice_val h Hi). cbn [bind spec_step].
  pose proof (out_all_agrees h buf addr Hi) as A. destruct (vs_read_slice hb h C buf addr). exact A.
Qed.
Lemma step_read_obj h t addr : inv h ->
  agrees (model_step k m hb r h (OReadObj t addr)) (spec_step hb pre n h (OReadObj t addr)).
Proof.
  intros Hi. unfold model_step, step_body. rewrite (cslice_val h Hi). cbn [bind spec_step].
  unfold vs_read_obj. change (ty_size (vt t)) with (st_size t).
  pose proof (out_all_agrees h (repeat 0 (N.to_nat (st_size t))) addr Hi) as A.
  destruct (vs_read_slice hb h C (repeat 0 (N.to_nat (st_size t))) addr) as [b' res].
  set (sp := sp_out pre n h (repeat 0 (N.to_nat (st_size t))) addr true) in *.
  destruct res as [u|e]; cbn [out_unit out_n] in *.
  - unfold agrees in A. cbn [m_ok mo_kind mo_n mo_buf mo_heap] in A. change (0 =? 0) with true in A.
    destruct A as (A1 & A2 & A3 & A4).
    apply agrees_ok; cbn [s_must s_n s_buf s_heap]; try reflexivity; try assumption.
    rewrite from_bytes_value. now rewrite A3.
  - unfold agrees in A. cbn [m_err mo_kind mo_n mo_buf mo_heap] in A.
    replace (kind_of_err (emap k e) =? 0) with false in A by (destruct (emap k e); reflexivity).
    destruct A as (A1 & A2 & A3).
    apply agrees_err; cbn [s_must s_ebuf s_eheap]; try reflexivity; assumption.
Qed.

(* typed single accesses *)
Lemma store_put h t v a : a + st_size t <= len h ->
  h_write h a (as_slice (vt t) v) = put h a (image t v).
Proof.
  intros H. rewrite as_slice_image. symmetry. apply put_h_write.
  rewrite <- as_slice_image, as_slice_len. exact H.
Qed.
Lemma load_get h t a : a + st_size t <= len h ->
  from_bytes (vt t) (h_read h a (st_size t)) = value t (get h a (st_size t)).
Proof. intros H. rewrite from_bytes_value, get_h_read by exact H. reflexivity. Qed.

Lemma step_ref_store h t v off : inv h ->
  agrees (model_step k m hb r h (ORefStore t v off)) (spec_step hb pre n h (ORefStore t v off)).
Proof.
  intros Hi. pose proof Hi as [H1 H2]. pose proof isz_lt_w.
  unfold model_step, step_body. rewrite (cslice_val h Hi). cbn [bind spec_step]. unfold sp_store.
  destruct (N.le_gt_cases (off + st_size t) n) as [Hb|Hb].
  - rewrite get_ref_ok by (cbn [vs_size]; lia). cbn [bind vs_addr].
    apply agrees_ok; cbn [s_must s_n s_buf s_heap]; try reflexivity.
    + now apply acc_true.
    + unfold vr_store. apply store_put. lia.
  - destruct (get_ref_err C (st_size t) off) as [e E]; [cbn [vs_size]; lia|cbn [vs_size]; lia|].
    rewrite E. cbn [bind]. apply agrees_err; cbn [s_must s_ebuf s_eheap]; try reflexivity.
    apply acc_false. now left.
Qed.
Lemma step_ref_load h t off : inv h ->
  agrees (model_step k m hb r h (ORefLoad t off)) (spec_step hb pre n h (ORefLoad t off)).
Proof.
  intros Hi. pose proof Hi as [H1 H2]. pose proof isz_lt_w.
  unfold model_step, step_body. rewrite (cslice_val h Hi). cbn [bind spec_step]. unfold sp_load.
  destruct (N.le_gt_cases (off + st_size t) n) as [Hb|Hb].
  - rewrite get_ref_ok by (cbn [vs_size]; lia). cbn [bind vs_addr].
    apply agrees_ok; cbn [s_must s_n s_buf s_heap]; try reflexivity.
    + now apply acc_true.
    + unfold vr_load. change (ty_size (vt t)) with (st_size t). apply load_get. lia.
  - destruct (get_ref_err C (st_size t) off) as [e E]; [cbn [vs_size]; lia|cbn [vs_size]; lia|].
    rewrite E. cbn [bind]. apply agrees_err; cbn [s_must s_ebuf s_eheap]; try reflexivity.
    apply acc_false. now left.
Qed.

(* atomics: alignment *)
Lemma land_mod s x : wf_aty s = true -> (N.land x (st_size s - 1) =? 0) = (x mod st_size s =? 0).
Proof.
  unfold wf_aty. intros H.
  destruct (N.eqb_spec (st_size s) 1) as [->|_].
  { change (1 - 1) with 0. now rewrite N.land_0_r, N.mod_1_r. }
  destruct (N.eqb_spec (st_size s) 2) as [->|_].
  { change (2 - 1) with (N.ones 1). rewrite N.land_ones. reflexivity. }
  destruct (N.eqb_spec (st_size s) 4) as [->|_].
  { change (4 - 1) with (N.ones 2). rewrite N.land_ones. reflexivity. }
  destruct (N.eqb_spec (st_size s) 8) as [->|_].
  { change (8 - 1) with (N.ones 3). rewrite N.land_ones. reflexivity. }
  discriminate H.
Qed.
Lemma aty_pos s : wf_aty s = true -> 1 <= st_size s /\ N.land (st_size s) (st_size s - 1) = 0.
Proof.
  unfold wf_aty. intros H.
  destruct (N.eqb_spec (st_size s) 1) as [->|_]; [split; [lia|reflexivity]|].
  destruct (N.eqb_spec (st_size s) 2) as [->|_]; [split; [lia|reflexivity]|].
  destruct (N.eqb_spec (st_size s) 4) as [->|_]; [split; [lia|reflexivity]|].
  destruct (N.eqb_spec (st_size s) 8) as [->|_]; [split; [lia|reflexivity]|].
  discriminate H.
Qed.
Lemma get_atomic_ref_nf h t addr : inv h -> wf_aty t = true ->
  (addr + st_size t <= n /\
   vs_get_atomic_ref m hb C (st_size t) addr =
   Val (if (hb + pre + addr) mod st_size t =? 0 then Ok (pre + addr) else Err EMisaligned)) \/
  (n < addr + st_size t /\ exists e, vs_get_atomic_ref m hb C (st_size t) addr = Val (Err e)).
Proof.
  intros [H1 H2] Ht. pose proof isz_lt_w. destruct (aty_pos t Ht) as [Hp Hl].
  unfold vs_get_atomic_ref.
  destruct (N.le_gt_cases (addr + st_size t) n) as [Hb|Hb].
  - left. split; [assumption|]. rewrite get_slice_ok by (cbn [vs_size]; lia). cbn [vs_addr vs_size].
    unfold vs_check_alignment. rewrite psub_Val by lia. cbn [bind].
    assert (PA : (match m with Debug => passert 670 (N.land (st_size t) (st_size t - 1) =? 0) | Release => Val tt end) = Val tt).
    { destruct m; [|reflexivity]. rewrite Hl. reflexivity. }
    rewrite PA. cbn [bind vs_addr]. rewrite land_mod by assumption. rewrite N.add_assoc.
    destruct ((hb + pre + addr) mod st_size t =? 0); cbn [negb bind]; [|reflexivity].
    now rewrite N.eqb_refl.
  - right. split; [assumption|]. destruct (get_slice_err C addr (st_size t)) as [e E]; [cbn [vs_size]; lia|cbn [vs_size]; lia|].
    rewrite E. eauto.
Qed.
Lemma atomic_true t addr : wf_aty t = true -> addr + st_size t <= n -> (hb + pre + addr) mod st_size t = 0 ->
  atomic_req hb pre n t addr = Some true.
Proof.
  intros Ht Hb Ha. destruct (aty_pos t Ht) as [Hp _]. unfold atomic_req.
  destruct (N.eqb_spec (st_size t) 0); [lia|]. destruct (N.leb_spec (addr + st_size t) n); [|lia].
  now rewrite Ha.
Qed.
Lemma atomic_false_ok t addr : wf_aty t = true ->
  n < addr + st_size t \/ (hb + pre + addr) mod st_size t <> 0 ->
  opt_allows (atomic_req hb pre n t addr) false = true.
Proof.
  intros Ht Hc. destruct (aty_pos t Ht) as [Hp _]. unfold atomic_req.
  destruct (N.eqb_spec (st_size t) 0); [lia|]. destruct (N.leb_spec (addr + st_size t) n).
  - destruct (N.eqb_spec ((hb + pre + addr) mod st_size t) 0); [|reflexivity]. destruct Hc; [lia|contradiction].
  - reflexivity.
Qed.
Lemma step_store h t v addr : inv h -> wf_aty t = true ->
  agrees (model_step k m hb r h (OStore t v addr)) (spec_step hb pre n h (OStore t v addr)).
Proof.
  intros Hi Ht. pose proof Hi as [H1 H2].
  unfold model_step, step_body. rewrite (cslice_res_val h Hi). cbn [bind spec_step]. unfold sp_store, vs_store.
  change (ty_size (vt t)) with (st_size t).
  destruct (get_atomic_ref_nf h t addr Hi Ht) as [[Hb E]|[Hb [e E]]]; rewrite E; cbn [bind fst snd].
  - destruct (N.eqb_spec ((hb + pre + addr) mod st_size t) 0) as [Ha|Ha]; cbn [out_unit fst snd].
    + apply agrees_ok; cbn [s_must s_n s_buf s_heap]; try reflexivity.
      * now rewrite atomic_true.
      * apply store_put. lia.
    + apply agrees_err; cbn [s_must s_ebuf s_eheap]; try reflexivity. apply atomic_false_ok; auto.
  - cbn [out_unit]. apply agrees_err; cbn [s_must s_ebuf s_eheap]; try reflexivity. apply atomic_false_ok; auto.
Qed.
Lemma step_load h t addr : inv h -> wf_aty t = true ->
  agrees (model_step k m hb r h (OLoad t addr)) (spec_step hb pre n h (OLoad t addr)).
Proof.
  intros Hi Ht. pose proof Hi as [H1 H2].
  unfold model_step, step_body. rewrite (cslice_res_val h Hi). cbn [bind spec_step]. unfold sp_load, vs_load.
  change (ty_size (vt t)) with (st_size t).
  destruct (get_atomic_ref_nf h t addr Hi Ht) as [[Hb E]|[Hb [e E]]]; rewrite E; cbn [bind].
  - destruct (N.eqb_spec ((hb + pre + addr) mod st_size t) 0) as [Ha|Ha]; cbn [out_n].
    + apply agrees_ok; cbn [s_must s_n s_buf s_heap]; try reflexivity.
      * now rewrite atomic_true.
      * apply load_get. lia.
    + apply agrees_err; cbn [s_must s_ebuf s_eheap]; try reflexivity. apply atomic_false_ok; auto.
  - cbn [out_n]. apply agrees_err; cbn [s_must s_ebuf s_eheap]; try reflexivity. apply atomic_false_ok; auto.
Qed.

(* element arrays *)
Lemma concat_image_len t l : len (concat (map (image t) l)) = len l * st_size t.
Proof.
  induction l as [|x l IH]; [reflexivity|]. cbn [map concat]. unfold len in *.
  rewrite app_length. cbn [length].
  pose proof (as_slice_len (vt t) x) as E. rewrite as_slice_image in E. unfold len in E.
  change (ty_size (vt t)) with (st_size t) in E. lia.
Qed.
Lemma firstn_min (l : list N) c : firstn (N.to_nat (N.min (len l) c)) l = firstn (N.to_nat c) l.
Proof.
  unfold len. destruct (N.le_gt_cases c (N.of_nat (length l))).
  - now rewrite N.min_r by assumption.
  - rewrite N.min_l by lia. rewrite Nat2N.id. rewrite firstn_all. symmetry. apply firstn_all2. lia.
Qed.
Lemma firstn_len_le (l : list N) c : len (firstn (N.to_nat (N.min (len l) c)) l) = N.min (len l) c.
Proof. unfold len. rewrite firstn_length. lia. Qed.

Lemma va_copy_to_nf h t aa cnt buf : aa + cnt * st_size t <= len h -> cnt * st_size t < W64 ->
  va_copy_to m h {| va_addr := aa; va_nelem := cnt |} (vt t) buf =
  let kk := N.min (len buf) cnt in
  Val (map (fun i => value t (get h (aa + N.of_nat i * st_size t) (st_size t))) (seq 0 (N.to_nat kk))
       ++ dropN kk buf, kk).
Proof.
  intros Hb Hw. unfold va_copy_to, va_to_slice. change (ty_size (vt t)) with (st_size t). cbn [va_addr va_nelem].
  rewrite !pmul_Val by assumption. cbn [bind vs_size vs_addr].
  destruct (N.eqb_spec (st_size t) 1) as [E|E].
  - unfold copy_from_volatile_slice. cbn [vs_addr]. rewrite E in *. rewrite N.mul_1_r in *. cbn zeta.
    set (kk := N.min (len buf) cnt). assert (kk <= cnt) by lia.
    replace (h_read h aa kk) with (h_read h aa (N.of_nat (N.to_nat kk))) by now rewrite N2Nat.id.
    rewrite (h_read_one_loop h t E) by lia.
    rewrite read_loop_spec by (rewrite E; lia). rewrite E. reflexivity.
  - cbn zeta. set (kk := N.min (len buf) cnt). assert (kk <= cnt) by lia.
    rewrite read_loop_spec by nia. reflexivity.
Qed.
Lemma va_copy_from_nf h t aa cnt vals : aa + cnt * st_size t <= len h -> cnt * st_size t < W64 ->
  forallb (wf_val t) vals = true ->
  va_copy_from m h {| va_addr := aa; va_nelem := cnt |} (vt t) vals =
  Val (put h aa (concat (map (image t) (firstn (N.to_nat (N.min (len vals) cnt)) vals)))).
Proof.
  intros Hb Hw Hv. unfold va_copy_from, va_to_slice. change (ty_size (vt t)) with (st_size t). cbn [va_addr va_nelem].
  rewrite !pmul_Val by assumption. cbn [bind vs_size vs_addr].
  assert (L : len (concat (map (image t) (firstn (N.to_nat (N.min (len vals) cnt)) vals)))
              = N.min (len vals) cnt * st_size t) by now rewrite concat_image_len, firstn_len_le.
  assert (N.min (len vals) cnt <= cnt) by lia.
  destruct (N.eqb_spec (st_size t) 1) as [E|E].
  - unfold copy_to_volatile_slice. cbn [vs_addr fst]. rewrite E in *. rewrite N.mul_1_r in *.
    rewrite takeN_firstn. f_equal. rewrite put_h_write by (rewrite L; lia). f_equal.
    symmetry. apply concat_image_one; [assumption|]. now apply forallb_firstn.
  - f_equal. rewrite put_h_write by (rewrite L; nia).
    rewrite takeN_firstn, <- firstn_min.
    rewrite write_loop_spec.
    + rewrite (map_ext _ _ (as_slice_image t)). reflexivity.
    + rewrite firstn_len_le. nia.
Qed.

Lemma step_arr_store h t off cnt idx v : inv h ->
  agrees (model_step k m hb r h (OArrStore t off cnt idx v)) (spec_step hb pre n h (OArrStore t off cnt idx v)).
Proof.
  intros Hi. pose proof Hi as [H1 H2]. pose proof isz_lt_w.
  unfold model_step, step_body. rewrite (cslice_val h Hi). cbn [bind spec_step].
  destruct (get_array_ref_cases C (st_size t) off cnt) as [[E Hb]|[e [E Hb]]]; [cbn [vs_size]; lia| |];
    rewrite E; cbn [bind vs_size vs_addr] in *.
  - unfold va_store, va_ref_at. cbn [va_nelem va_addr]. change (ty_size (vt t)) with (st_size t).
    destruct (N.ltb_spec idx cnt) as [Hx|Hx]; cbn [passert bind].
    + rewrite pmul_Val by nia. cbn [bind]. unfold sp_store.
      apply agrees_ok; cbn [s_must s_n s_buf s_heap]; try reflexivity.
      * now apply acc_true.
      * unfold vr_store. replace (pre + off + st_size t * idx) with (pre + (off + idx * st_size t)) by lia.
        apply store_put. nia.
    + apply agrees_panic; reflexivity.
  - destruct (N.ltb_spec idx cnt) as [Hx|Hx]; unfold sp_store;
      apply agrees_err; cbn [s_must s_ebuf s_eheap]; try reflexivity.
    now apply acc_false.
Qed.
Lemma step_arr_load h t off cnt idx : inv h ->
  agrees (model_step k m hb r h (OArrLoad t off cnt idx)) (spec_step hb pre n h (OArrLoad t off cnt idx)).
Proof.
  intros Hi. pose proof Hi as [H1 H2]. pose proof isz_lt_w.
  unfold model_step, step_body. rewrite (cslice_val h Hi). cbn [bind spec_step].
  destruct (get_array_ref_cases C (st_size t) off cnt) as [[E Hb]|[e [E Hb]]]; [cbn [vs_size]; lia| |];
    rewrite E; cbn [bind vs_size vs_addr] in *.
  - unfold va_load, va_ref_at. cbn [va_nelem va_addr]. change (ty_size (vt t)) with (st_size t).
    destruct (N.ltb_spec idx cnt) as [Hx|Hx]; cbn [passert bind].
    + rewrite pmul_Val by nia. cbn [bind]. unfold sp_load.
      apply agrees_ok; cbn [s_must s_n s_buf s_heap]; try reflexivity.
      * now apply acc_true.
      * unfold vr_load. change (ty_size (vt t)) with (st_size t).
        replace (pre + off + st_size t * idx) with (pre + (off + idx * st_size t)) by lia.
        apply load_get. nia.
    + apply agrees_panic; reflexivity.
  - destruct (N.ltb_spec idx cnt) as [Hx|Hx]; unfold sp_load;
      apply agrees_err; cbn [s_must s_ebuf s_eheap]; try reflexivity.
    now apply acc_false.
Qed.
Lemma step_arr_copy_to h t off cnt buf : inv h ->
  agrees (model_step k m hb r h (OArrCopyTo t off cnt buf)) (spec_step hb pre n h (OArrCopyTo t off cnt buf)).
Proof.
  intros Hi. pose proof Hi as [H1 H2]. pose proof isz_lt_w.
  unfold model_step, step_body. rewrite (cslice_val h Hi). cbn [bind spec_step]. unfold sp_elems_out.
  destruct (get_array_ref_cases C (st_size t) off cnt) as [[E Hb]|[e [E Hb]]]; [cbn [vs_size]; lia| |];
    rewrite E; cbn [bind vs_size vs_addr] in *.
  - rewrite va_copy_to_nf by lia. cbn zeta. cbn [bind fst snd].
    apply agrees_ok; cbn [s_must s_n s_buf s_heap]; try reflexivity.
    + now apply acc_true.
    + now rewrite dropN_skipn.
  - apply agrees_err; cbn [s_must s_ebuf s_eheap]; try reflexivity. now apply acc_false.
Qed.
Lemma step_arr_copy_from h t off cnt buf : inv h -> forallb (wf_val t) buf = true ->
  agrees (model_step k m hb r h (OArrCopyFrom t off cnt buf)) (spec_step hb pre n h (OArrCopyFrom t off cnt buf)).
Proof.
  intros Hi Hv. pose proof Hi as [H1 H2]. pose proof isz_lt_w.
  unfold model_step, step_body. rewrite (cslice_val h Hi). cbn [bind spec_step]. unfold sp_elems_in.
  destruct (get_array_ref_cases C (st_size t) off cnt) as [[E Hb]|[e [E Hb]]]; [cbn [vs_size]; lia| |];
    rewrite E; cbn [bind vs_size vs_addr] in *.
  - rewrite va_copy_from_nf by (assumption || lia). cbn [bind].
    apply agrees_ok; cbn [s_must s_n s_buf s_heap]; try reflexivity. now apply acc_true.
  - apply agrees_err; cbn [s_must s_ebuf s_eheap]; try reflexivity. now apply acc_false.
Qed.
Lemma move_put h src dst kk : src + kk <= len h -> dst + kk <= len h ->
  h_write h dst (h_read h src kk) = put h dst (get h src kk).
Proof.
  intros Hs Hd. rewrite get_h_read by assumption. symmetry. apply put_h_write.
  unfold len at 1. rewrite h_read_length by assumption. lia.
Qed.
Lemma step_arr_copy_to_vs h t off cnt off2 cnt2 : inv h ->
  agrees (model_step k m hb r h (OArrCopyToVs t off cnt off2 cnt2))
         (spec_step hb pre n h (OArrCopyToVs t off cnt off2 cnt2)).
Proof.
  intros Hi. pose proof Hi as [H1 H2]. pose proof isz_lt_w.
  unfold model_step, step_body. rewrite (cslice_val h Hi). cbn [bind spec_step]. unfold sp_move.
  destruct (get_array_ref_cases C (st_size t) off cnt) as [[E Hb]|[e [E Hb]]]; [cbn [vs_size]; lia| |];
    rewrite E; cbn [bind vs_size vs_addr] in *.
  - destruct (N.le_gt_cases (off2 + cnt2) n) as [Hd|Hd].
    + rewrite get_slice_ok by (cbn [vs_size]; lia). unfold va_copy_to_volatile_slice. cbn [va_nelem va_addr vs_size vs_addr].
      rewrite pmul_Val by lia. cbn [bind].
      apply agrees_ok; cbn [s_must s_n s_buf s_heap]; try reflexivity.
      * apply both_true; now apply acc_true.
      * apply move_put; lia.
    + destruct (get_slice_err C off2 cnt2) as [e E2]; [cbn [vs_size]; lia|cbn [vs_size]; lia|]. rewrite E2.
      apply agrees_err; cbn [s_must s_ebuf s_eheap]; try reflexivity.
      apply both_false_r. apply acc_false. now left.
  - apply agrees_err; cbn [s_must s_ebuf s_eheap]; try reflexivity.
    apply both_false_l. now apply acc_false.
Qed.

(* element / slice copies of a sub-slice *)
Lemma get_array_ref_ok (s : vslice) size off cnt : vs_size s <= ISZ_MAX -> cnt <= ISZ_MAX ->
  off + cnt * size <= vs_size s ->
  vs_get_array_ref s size off cnt = Val (Ok {| va_addr := vs_addr s + off; va_nelem := cnt |}).
Proof.
  intros Hs Hc Hb. pose proof isz_lt_w. unfold vs_get_array_ref.
  destruct (N.leb_spec cnt ISZ_MAX); [|lia]. destruct (N.leb_spec (cnt * size) ISZ_MAX); [|lia].
  rewrite get_slice_ok by lia. cbn [vs_size vs_addr]. now rewrite N.eqb_refl.
Qed.
Lemma one_copy_to h (s : vslice) t buf : st_size t = 1 -> vs_size s < W64 ->
  vs_copy_to m h s (vt t) buf = va_copy_to m h {| va_addr := vs_addr s; va_nelem := vs_size s |} (vt t) buf.
Proof.
  intros E Hs. unfold vs_copy_to, va_copy_to, va_to_slice. change (ty_size (vt t)) with (st_size t). rewrite E.
  change (1 =? 1) with true. cbv iota. cbn [va_nelem va_addr]. rewrite pmul_Val by lia. cbn [bind vs_size].
  rewrite N.mul_1_r. reflexivity.
Qed.
Lemma one_copy_from h (s : vslice) t buf : st_size t = 1 -> vs_size s < W64 ->
  vs_copy_from m h s (vt t) buf = va_copy_from m h {| va_addr := vs_addr s; va_nelem := vs_size s |} (vt t) buf.
Proof.
  intros E Hs. unfold vs_copy_from, va_copy_from, va_to_slice. change (ty_size (vt t)) with (st_size t). rewrite E.
  change (1 =? 1) with true. cbv iota. cbn [va_nelem va_addr]. rewrite pmul_Val by lia. cbn [bind vs_size].
  rewrite N.mul_1_r. reflexivity.
Qed.
Lemma div_mul_le a b : b <> 0 -> a / b * b <= a.
Proof. intros Hb. rewrite N.mul_comm. now apply N.mul_div_le. Qed.

Lemma step_sl_copy_to h t off cnt buf : inv h ->
  agrees (model_step k m hb r h (OSlCopyTo t off cnt buf)) (spec_step hb pre n h (OSlCopyTo t off cnt buf)).
Proof.
  intros Hi. pose proof Hi as [H1 H2]. pose proof isz_lt_w.
  unfold model_step, step_body. rewrite (cslice_val h Hi). cbn [bind spec_step].
  destruct (N.le_gt_cases (off + cnt) n) as [Hb|Hb].
  - rewrite get_slice_ok by (cbn [vs_size]; lia). cbn [vs_addr vs_size].
    destruct (N.eqb_spec (st_size t) 0) as [Z|Z].
    + unfold vs_copy_to. change (ty_size (vt t)) with (st_size t). rewrite Z.
      change (0 =? 1) with false. change (0 =? 0) with true. cbv iota. cbn [bind fst snd].
      apply agrees_ok; cbn [s_must s_n s_buf s_heap]; try reflexivity. now apply acc_true.
    + unfold sp_elems_out.
      assert (Q : cnt / st_size t * st_size t <= cnt) by now apply div_mul_le.
      assert (R : vs_copy_to m h {| vs_addr := pre + off; vs_size := cnt |} (vt t) buf =
                  va_copy_to m h {| va_addr := pre + off; va_nelem := cnt / st_size t |} (vt t) buf).
      { destruct (N.eqb_spec (st_size t) 1) as [E|E].
        - rewrite one_copy_to by (assumption || (cbn [vs_size]; lia)). cbn [vs_addr vs_size].
          now rewrite E, N.div_1_r.
        - unfold vs_copy_to. change (ty_size (vt t)) with (st_size t).
          destruct (N.eqb_spec (st_size t) 1); [contradiction|]. destruct (N.eqb_spec (st_size t) 0); [contradiction|].
          unfold pdiv. destruct (N.eqb_spec (st_size t) 0); [contradiction|]. cbn [bind vs_size].
          rewrite get_array_ref_ok; cbn [vs_size vs_addr]; try lia.
          + cbn [bind]. now rewrite N.add_0_r.
          + assert (cnt / st_size t <= cnt) by (apply N.div_le_upper_bound; [assumption|nia]). lia. }
      rewrite R. rewrite va_copy_to_nf by lia. cbn zeta. cbn [bind fst snd].
      apply agrees_ok; cbn [s_must s_n s_buf s_heap]; try reflexivity.
      * now apply acc_true.
      * now rewrite dropN_skipn.
  - destruct (get_slice_err C off cnt) as [e E]; [cbn [vs_size]; lia|cbn [vs_size]; lia|]. rewrite E.
    destruct (st_size t =? 0); unfold sp_elems_out;
      apply agrees_err; cbn [s_must s_ebuf s_eheap]; try reflexivity; apply acc_false; now left.
Qed.
Lemma step_sl_copy_from h t off cnt buf : inv h -> forallb (wf_val t) buf = true ->
  agrees (model_step k m hb r h (OSlCopyFrom t off cnt buf)) (spec_step hb pre n h (OSlCopyFrom t off cnt buf)).
Proof.
  intros Hi Hv. pose proof Hi as [H1 H2]. pose proof isz_lt_w.
  unfold model_step, step_body. rewrite (cslice_val h Hi). cbn [bind spec_step].
  destruct (N.le_gt_cases (off + cnt) n) as [Hb|Hb].
  - rewrite get_slice_ok by (cbn [vs_size]; lia). cbn [vs_addr vs_size].
    destruct (N.eqb_spec (st_size t) 0) as [Z|Z].
    + unfold vs_copy_from. change (ty_size (vt t)) with (st_size t). rewrite Z.
      change (0 =? 1) with false. change (0 =? 0) with true. cbv iota. cbn [negb bind].
      apply agrees_ok; cbn [s_must s_n s_buf s_heap]; try reflexivity. now apply acc_true.
    + unfold sp_elems_in.
      assert (Q : cnt / st_size t * st_size t <= cnt) by now apply div_mul_le.
      assert (R : vs_copy_from m h {| vs_addr := pre + off; vs_size := cnt |} (vt t) buf =
                  va_copy_from m h {| va_addr := pre + off; va_nelem := cnt / st_size t |} (vt t) buf).
      { destruct (N.eqb_spec (st_size t) 1) as [E|E].
        - rewrite one_copy_from by (assumption || (cbn [vs_size]; lia)). cbn [vs_addr vs_size].
          now rewrite E, N.div_1_r.
        - unfold vs_copy_from. change (ty_size (vt t)) with (st_size t).
          destruct (N.eqb_spec (st_size t) 1); [contradiction|]. destruct (N.eqb_spec (st_size t) 0); [contradiction|].
          cbn [negb]. unfold pdiv. destruct (N.eqb_spec (st_size t) 0); [contradiction|]. cbn [bind vs_size].
          rewrite get_array_ref_ok; cbn [vs_size vs_addr]; try lia.
          + cbn [bind]. now rewrite N.add_0_r.
          + assert (cnt / st_size t <= cnt) by (apply N.div_le_upper_bound; [assumption|nia]). lia. }
      rewrite R. rewrite va_copy_from_nf by (assumption || lia). cbn [bind].
      apply agrees_ok; cbn [s_must s_n s_buf s_heap]; try reflexivity. now apply acc_true.
  - destruct (get_slice_err C off cnt) as [e E]; [cbn [vs_size]; lia|cbn [vs_size]; lia|]. rewrite E.
    destruct (st_size t =? 0); unfold sp_elems_in;
      apply agrees_err; cbn [s_must s_ebuf s_eheap]; try reflexivity; apply acc_false; now left.
Qed.
Lemma step_sl_copy_to_vs h off cnt off2 cnt2 : inv h ->
  agrees (model_step k m hb r h (OSlCopyToVs off cnt off2 cnt2))
         (spec_step hb pre n h (OSlCopyToVs off cnt off2 cnt2)).
Proof.
  intros Hi. pose proof Hi as [H1 H2]. pose proof isz_lt_w.
  unfold model_step, step_body. rewrite (cslice_val h Hi). cbn [bind spec_step]. unfold sp_move.
  destruct (N.le_gt_cases (off + cnt) n) as [Hb|Hb].
  - rewrite get_slice_ok by (cbn [vs_size]; lia).
    destruct (N.le_gt_cases (off2 + cnt2) n) as [Hd|Hd].
    + rewrite get_slice_ok by (cbn [vs_size]; lia). unfold vs_copy_to_volatile_slice. cbn [vs_size vs_addr].
      apply agrees_ok; cbn [s_must s_n s_buf s_heap]; try reflexivity.
      * apply both_true; now apply acc_true.
      * apply move_put; lia.
    + destruct (get_slice_err C off2 cnt2) as [e E2]; [cbn [vs_size]; lia|cbn [vs_size]; lia|]. rewrite E2.
      apply agrees_err; cbn [s_must s_ebuf s_eheap]; try reflexivity.
      apply both_false_r. apply acc_false. now left.
  - destruct (get_slice_err C off cnt) as [e E]; [cbn [vs_size]; lia|cbn [vs_size]; lia|]. rewrite E.
    apply agrees_err; cbn [s_must s_ebuf s_eheap]; try reflexivity.
    apply both_false_l. apply acc_false. now left.
Qed.

(* every operation *)
Lemma step_agrees h o : inv h -> wf_op o = true ->
  agrees (model_step k m hb r h o) (spec_step hb pre n h o).
Proof.
  intros Hi Hw. destruct o; cbn [wf_op] in Hw; repeat (apply andb_true_iff in Hw; destruct Hw as [Hw ?]).
  - now apply step_write.
  - now apply step_read.
  - now apply step_write_slice.
  - now apply step_read_slice.
  - now apply step_write_obj.
  - now apply step_read_obj.
  - now apply step_store.
  - now apply step_load.
  - now apply step_ref_store.
  - now apply step_ref_load.
  - now apply step_arr_store.
  - now apply step_arr_load.
  - now apply step_arr_copy_to.
  - now apply step_arr_copy_from.
  - now apply step_arr_copy_to_vs.
  - now apply step_sl_copy_to.
  - now apply step_sl_copy_from.
  - now apply step_sl_copy_to_vs.
Qed.

Lemma spec_heap_length h o :
  length (s_heap (spec_step hb pre n h o)) = length h /\ length (s_eheap (spec_step hb pre n h o)) = length h.
Proof.
  destruct o; cbn [spec_step]; unfold sp_in, sp_out, sp_store, sp_load, sp_elems_out, sp_elems_in, sp_move;
    repeat match goal with |- context [if ?c then _ else _] => destruct c end;
    cbn [s_heap s_eheap]; rewrite ?put_length; split; reflexivity.
Qed.
Lemma step_inv h o : inv h -> wf_op o = true -> inv (mo_heap (model_step k m hb r h o)).
Proof.
  intros Hi Hw. pose proof (step_agrees h o Hi Hw) as A. destruct (spec_heap_length h o) as [L1 L2].
  unfold agrees in A. unfold inv, len in *.
  destruct (mo_kind (model_step k m hb r h o) =? 0).
  - destruct A as (_ & _ & _ & ->). rewrite L1. exact Hi.
  - destruct A as (_ & _ & ->). rewrite L2. exact Hi.
Qed.

(* ------------------------------------------------------------------ (5) histories *)
Lemma check_step_model h o : inv h -> wf_op o = true ->
  check_step hb pre n h o (obs_of h (model_step k m hb r h o)) = (true, mo_heap (model_step k m hb r h o)).
Proof.
  intros Hi Hw. pose proof (step_agrees h o Hi Hw) as A. unfold check_step.
  set (x := model_step k m hb r h o) in *. unfold agrees in A.
  assert (K : o_kind (obs_of h x) = mo_kind x /\ o_n (obs_of h x) = mo_n x /\ o_buf (obs_of h x) = mo_buf x).
  { unfold obs_of. destruct (diff_from 0 h (mo_heap x)). cbn. auto. }
  destruct K as (K1 & K2 & K3). rewrite K1, K2, K3.
  destruct (mo_kind x =? 0).
  - destruct A as (A1 & A2 & A3 & A4). rewrite <- A4. f_equal.
    rewrite A1, A2, A3, N.eqb_refl, diff_is_refl. cbn [andb].
    apply andb_true_intro. split; [|reflexivity]. apply list_eqb_eq. reflexivity.
  - destruct A as (A1 & A2 & A3). rewrite <- A3. f_equal.
    rewrite A1, A2, diff_is_refl. cbn [andb].
    apply andb_true_intro. split; [|reflexivity]. apply list_eqb_eq. reflexivity.
Qed.
Lemma hist_ok ops : forall h, inv h -> forallb wf_op ops = true ->
  check_hist hb pre n h ops (run_hist k m hb r h ops) = true.
Proof.
  induction ops as [|o ops IH]; intros h Hi Hw; cbn [run_hist check_hist]; [reflexivity|].
  cbn [forallb] in Hw. apply andb_true_iff in Hw. destruct Hw as [Hw1 Hw2].
  rewrite check_step_model by assumption. cbn [andb]. apply IH; [|assumption]. now apply step_inv.
Qed.
End Step.

Lemma C04_model_ok_lemma : forall c, wf_case c = true -> ok_C04 c (run_C04 c) = true.
Proof.
  intros c H. unfold wf_case in H. repeat (apply andb_true_iff in H; destruct H as [H ?]).
  unfold ok_C04, run_C04. apply hist_ok.
  - now apply N.leb_le.
  - split; change slen with len in *; now apply N.leb_le.
  - assumption.
Qed.

(* ------------------------------------------------------------------ (6) Prop-level readings *)
Lemma nth_firstn' (l : list N) : forall k j, (j < k)%nat -> nth j (firstn k l) 0 = nth j l 0.
Proof.
  induction l as [|x l IH]; intros k j H; [now rewrite firstn_nil|].
  destruct k as [|k]; [lia|]. destruct j as [|j]; cbn [firstn nth]; [reflexivity|]. apply IH. lia.
Qed.
Lemma nth_skipn' (l : list N) : forall k j, nth j (skipn k l) 0 = nth (k + j) l 0.
Proof.
  induction l as [|x l IH]; intros k j.
  - rewrite skipn_nil. destruct (k + j)%nat, j; reflexivity.
  - destruct k as [|k]; [reflexivity|]. cbn [skipn plus nth]. apply IH.
Qed.
Lemma h_write_inside h a d i : a + len d <= len h -> i < len d ->
  nth (N.to_nat (a + i)) (h_write h a d) 0 = nth (N.to_nat i) d 0.
Proof.
  unfold len. intros H Hi. rewrite h_write_eq.
  rewrite app_nth2 by (rewrite firstn_length; lia). rewrite firstn_length.
  rewrite app_nth1 by lia. f_equal. lia.
Qed.
Lemma h_write_outside h a d j : a + len d <= len h -> j < a \/ a + len d <= j ->
  nth (N.to_nat j) (h_write h a d) 0 = nth (N.to_nat j) h 0.
Proof.
  unfold len. intros H Hj. rewrite h_write_eq. destruct Hj as [Hj|Hj].
  - rewrite app_nth1 by (rewrite firstn_length; lia). apply nth_firstn'. lia.
  - rewrite app_nth2 by (rewrite firstn_length; lia). rewrite firstn_length.
    rewrite app_nth2 by lia. rewrite nth_skipn'. f_equal. lia.
Qed.
Lemma h_read_nth h a kk i : a + kk <= len h -> i < kk ->
  nth (N.to_nat i) (h_read h a kk) 0 = nth (N.to_nat (a + i)) h 0.
Proof.
  unfold len. intros H Hi. rewrite h_read_eq. rewrite nth_firstn' by lia. rewrite nth_skipn'. f_equal. lia.
Qed.
Lemma h_read_h_write h a d : a + len d <= len h -> h_read (h_write h a d) a (len d) = d.
Proof.
  unfold len. intros H. rewrite h_read_eq, h_write_eq.
  set (A := firstn (N.to_nat a) h).
  assert (LA : length A = N.to_nat a) by (unfold A; rewrite firstn_length; lia).
  rewrite <- LA. rewrite skipn_app, skipn_all, Nat.sub_diag. cbn [skipn app].
  rewrite Nat2N.id. rewrite firstn_app, Nat.sub_diag, firstn_all. cbn [firstn]. apply app_nil_r.
Qed.

Lemma k0 : 0 <= 2.
Proof. lia. Qed.
Lemma write_exact_lemma : forall hb pre n h buf addr,
  pre + n <= len h -> hb + len h <= ISZ_MAX ->
  let h' := fst (vs_write hb h {| vs_addr := pre; vs_size := n |} buf addr) in
  let res := snd (vs_write hb h {| vs_addr := pre; vs_size := n |} buf addr) in
  (len buf = 0 -> res = Ok 0 /\ h' = h) /\
  (0 < len buf -> n <= addr -> res = Err EOutOfBounds /\ h' = h) /\
  (0 < len buf -> addr < n ->
     let kk := N.min (len buf) (n - addr) in
     res = Ok kk /\ length h' = length h /\
     (forall i, i < kk -> nth (N.to_nat (pre + addr + i)) h' 0 = nth (N.to_nat i) buf 0) /\
     (forall j, j < pre + addr \/ pre + addr + kk <= j -> nth (N.to_nat j) h' 0 = nth (N.to_nat j) h 0)).
Proof.
  intros hb pre n h buf addr H1 H2. cbv zeta. rewrite (vs_write_nf 0 hb pre n k0 h buf addr (conj H1 H2)).
  destruct (N.eqb_spec (len buf) 0) as [E|E]; cbn [fst snd].
  { split; [auto|]. split; intros; lia. }
  split; [intros; lia|]. destruct (N.leb_spec n addr) as [Ha|Ha]; cbn [fst snd].
  { split; [auto|]. intros; lia. }
  split; [intros; lia|]. intros _ _. rewrite (N.min_comm (len buf)).
  set (kk := N.min (n - addr) (len buf)).
  assert (L : len (takeN kk buf) = kk) by (rewrite takeN_firstn; unfold len; rewrite firstn_length; unfold len in kk; lia).
  split; [reflexivity|]. split; [apply h_write_length; lia|]. split.
  - intros i Hi. rewrite h_write_inside by lia. rewrite takeN_firstn. apply nth_firstn'. lia.
  - intros j Hj. apply h_write_outside; lia.
Qed.
Lemma read_exact_lemma : forall hb pre n h buf addr,
  pre + n <= len h -> hb + len h <= ISZ_MAX ->
  let b' := fst (vs_read hb h {| vs_addr := pre; vs_size := n |} buf addr) in
  let res := snd (vs_read hb h {| vs_addr := pre; vs_size := n |} buf addr) in
  (len buf = 0 -> res = Ok 0 /\ b' = buf) /\
  (0 < len buf -> n <= addr -> res = Err EOutOfBounds /\ b' = buf) /\
  (0 < len buf -> addr < n ->
     let kk := N.min (len buf) (n - addr) in
     res = Ok kk /\ length b' = length buf /\
     (forall i, i < kk -> nth (N.to_nat i) b' 0 = nth (N.to_nat (pre + addr + i)) h 0) /\
     (forall i, kk <= i -> nth (N.to_nat i) b' 0 = nth (N.to_nat i) buf 0)).
Proof.
  intros hb pre n h buf addr H1 H2. cbv zeta. rewrite (vs_read_nf 0 hb pre n k0 h buf addr (conj H1 H2)).
  destruct (N.eqb_spec (len buf) 0) as [E|E]; cbn [fst snd].
  { split; [auto|]. split; intros; lia. }
  split; [intros; lia|]. destruct (N.leb_spec n addr) as [Ha|Ha]; cbn [fst snd].
  { split; [auto|]. intros; lia. }
  split; [intros; lia|]. intros _ _. rewrite (N.min_comm (len buf)).
  set (kk := N.min (n - addr) (len buf)).
  assert (L : length (h_read h (pre + addr) kk) = N.to_nat kk) by (apply h_read_length; lia).
  split; [reflexivity|]. rewrite dropN_skipn. split; [|split].
  - rewrite app_length, L, skipn_length. unfold len in *. lia.
  - intros i Hi. rewrite app_nth1 by lia. apply h_read_nth; lia.
  - intros i Hi. rewrite app_nth2 by lia. rewrite L, nth_skipn'. f_equal. lia.
Qed.
Lemma slice_forms_lemma : forall hb pre n h buf addr,
  pre + n <= len h -> hb + len h <= ISZ_MAX ->
  let C := {| vs_addr := pre; vs_size := n |} in
  fst (vs_write_slice hb h C buf addr) = fst (vs_write hb h C buf addr) /\
  fst (vs_read_slice hb h C buf addr) = fst (vs_read hb h C buf addr) /\
  (snd (vs_write_slice hb h C buf addr) = Ok tt <-> len buf = 0 \/ addr + len buf <= n) /\
  (snd (vs_read_slice hb h C buf addr) = Ok tt <-> len buf = 0 \/ addr + len buf <= n).
Proof.
  intros hb pre n h buf addr H1 H2. cbv zeta.
  rewrite (vs_write_slice_nf 0 hb pre n k0 h buf addr (conj H1 H2)), (vs_write_nf 0 hb pre n k0 h buf addr (conj H1 H2)).
  rewrite (vs_read_slice_nf 0 hb pre n k0 h buf addr (conj H1 H2)), (vs_read_nf 0 hb pre n k0 h buf addr (conj H1 H2)).
  destruct (N.eqb_spec (len buf) 0) as [E|E]; cbn [fst snd].
  { repeat split; auto. }
  destruct (N.leb_spec n addr) as [Ha|Ha]; cbn [fst snd].
  { repeat split; try discriminate; intros [?|?]; lia. }
  destruct (N.eqb_spec (N.min (n - addr) (len buf)) (len buf)) as [Em|Em]; cbn [fst snd];
    repeat split; try discriminate; auto; try (intros _; right; lia); intros [?|?]; lia.
Qed.

(* ---- all routes observe the same memory ---- *)
(* the ways of storing the value v of type t at byte offset off of the container ... *)
Definition store_route (hb pre n : N) (t : sty) (v off : N) (o : op) : Prop :=
  o = OWriteObj t v off \/ o = ORefStore t v off \/
  (o = OStore t v off /\ wf_aty t = true /\ (hb + pre + off) mod st_size t = 0) \/
  (exists off0 cnt idx, o = OArrStore t off0 cnt idx v /\ idx < cnt /\
                        off0 + cnt * st_size t <= n /\ off0 + idx * st_size t = off).
(* ... and of loading it *)
Definition load_route (hb pre n : N) (t : sty) (off : N) (o : op) : Prop :=
  o = OReadObj t off \/ o = ORefLoad t off \/
  (o = OLoad t off /\ wf_aty t = true /\ (hb + pre + off) mod st_size t = 0) \/
  (exists off0 cnt idx, o = OArrLoad t off0 cnt idx /\ idx < cnt /\
                        off0 + cnt * st_size t <= n /\ off0 + idx * st_size t = off).

Lemma agrees_must_ok x r : agrees x r -> s_must r = Some true ->
  mo_kind x = 0 /\ mo_n x = s_n r /\ mo_heap x = s_heap r.
Proof.
  unfold agrees. intros A M. destruct (N.eqb_spec (mo_kind x) 0) as [E|E].
  - tauto.
  - destruct A as [A _]. rewrite M in A. discriminate A.
Qed.
Lemma image_len t v : len (image t v) = st_size t.
Proof. rewrite <- as_slice_image. apply as_slice_len. Qed.

Section Routes.
Variables (k : N) (m : mode) (hb pre n : N).
Hypothesis Hk : k <= 2.
Notation r := {| mr_addr := pre; mr_size := n |}.

Lemma store_step h t v off o : inv hb pre n h -> 1 <= st_size t -> off + st_size t <= n ->
  store_route hb pre n t v off o ->
  mo_kind (model_step k m hb r h o) = 0 /\ mo_heap (model_step k m hb r h o) = put h (pre + off) (image t v).
Proof.
  intros Hi Hs Hb [->|[->|[(-> & Ha & Hal)|(off0 & cnt & idx & -> & Hx & Hc & Ho)]]].
  - pose proof (step_write_obj k m hb pre n Hk h t v off Hi) as A.
    apply agrees_must_ok in A.
    + destruct A as (A1 & _ & A3). split; [assumption|]. rewrite A3. cbn [spec_step]. unfold sp_in.
      change slen with len. rewrite image_len.
      destruct (N.eqb_spec (st_size t) 0); [lia|]. destruct (N.leb_spec n off); [lia|]. cbn [s_heap].
      unfold cut. change slen with len. rewrite ?image_len. rewrite N.min_l by lia.
      rewrite firstn_all2; [reflexivity|]. pose proof (image_len t v) as L. unfold len in L. lia.
    + cbn [spec_step]. unfold sp_in. change slen with len. rewrite image_len.
      destruct (N.eqb_spec (st_size t) 0); [lia|]. destruct (N.leb_spec n off); [lia|]. cbn [s_must].
      unfold cut. change slen with len. rewrite ?image_len. rewrite N.min_l by lia. now rewrite N.eqb_refl.
  - pose proof (step_ref_store k m hb pre n Hk h t v off Hi) as A.
    apply agrees_must_ok in A.
    + destruct A as (A1 & _ & A3). split; [assumption|]. rewrite A3. reflexivity.
    + cbn [spec_step]. unfold sp_store, acc_req. cbn [s_must].
      destruct (N.eqb_spec (st_size t) 0); [lia|]. destruct (N.leb_spec (off + st_size t) n); [reflexivity|lia].
  - pose proof (step_store k m hb pre n Hk h t v off Hi Ha) as A.
    apply agrees_must_ok in A.
    + destruct A as (A1 & _ & A3). split; [assumption|]. rewrite A3. reflexivity.
    + cbn [spec_step]. unfold sp_store. cbn [s_must]. now apply (atomic_true k hb pre n Hk).
  - pose proof (step_arr_store k m hb pre n Hk h t off0 cnt idx v Hi) as A.
    apply agrees_must_ok in A.
    + destruct A as (A1 & _ & A3). split; [assumption|]. rewrite A3. cbn [spec_step].
      destruct (N.ltb_spec idx cnt); [|lia]. unfold sp_store. cbn [s_heap]. now rewrite Ho.
    + cbn [spec_step]. destruct (N.ltb_spec idx cnt); [|lia]. unfold sp_store, acc_req. cbn [s_must].
      destruct (N.eqb_spec (cnt * st_size t) 0); [nia|].
      destruct (N.leb_spec (off0 + cnt * st_size t) n); [reflexivity|lia].
Qed.
Lemma load_step h t off o : inv hb pre n h -> 1 <= st_size t -> off + st_size t <= n ->
  load_route hb pre n t off o ->
  mo_kind (model_step k m hb r h o) = 0 /\
  mo_n (model_step k m hb r h o) = value t (get h (pre + off) (st_size t)).
Proof.
  intros Hi Hs Hb [->|[->|[(-> & Ha & Hal)|(off0 & cnt & idx & -> & Hx & Hc & Ho)]]].
  - pose proof (step_read_obj k m hb pre n Hk h t off Hi) as A.
    assert (LZ : len (repeat 0 (N.to_nat (st_size t))) = st_size t) by (unfold len; rewrite repeat_length; lia).
    apply agrees_must_ok in A.
    + destruct A as (A1 & A2 & _). split; [assumption|]. rewrite A2. cbn [spec_step s_n]. unfold sp_out.
      change slen with len. rewrite LZ.
      destruct (N.eqb_spec (st_size t) 0); [lia|]. destruct (N.leb_spec n off); [lia|]. cbn [s_buf].
      unfold cut. change slen with len. rewrite ?LZ. rewrite N.min_l by lia.
      rewrite skipn_all2 by (rewrite repeat_length; lia). now rewrite app_nil_r.
    + cbn [spec_step s_must]. unfold sp_out. change slen with len. rewrite LZ.
      destruct (N.eqb_spec (st_size t) 0); [lia|]. destruct (N.leb_spec n off); [lia|]. cbn [s_must].
      unfold cut. change slen with len. rewrite ?LZ. rewrite N.min_l by lia. now rewrite N.eqb_refl.
  - pose proof (step_ref_load k m hb pre n Hk h t off Hi) as A.
    apply agrees_must_ok in A.
    + destruct A as (A1 & A2 & _). split; [assumption|]. rewrite A2. reflexivity.
    + cbn [spec_step]. unfold sp_load, acc_req. cbn [s_must].
      destruct (N.eqb_spec (st_size t) 0); [lia|]. destruct (N.leb_spec (off + st_size t) n); [reflexivity|lia].
  - pose proof (step_load k m hb pre n Hk h t off Hi Ha) as A.
    apply agrees_must_ok in A.
    + destruct A as (A1 & A2 & _). split; [assumption|]. rewrite A2. reflexivity.
    + cbn [spec_step]. unfold sp_load. cbn [s_must]. now apply (atomic_true k hb pre n Hk).
  - pose proof (step_arr_load k m hb pre n Hk h t off0 cnt idx Hi) as A.
    apply agrees_must_ok in A.
    + destruct A as (A1 & A2 & _). split; [assumption|]. rewrite A2. cbn [spec_step].
      destruct (N.ltb_spec idx cnt); [|lia]. unfold sp_load. cbn [s_n]. now rewrite Ho.
    + cbn [spec_step]. destruct (N.ltb_spec idx cnt); [|lia]. unfold sp_load, acc_req. cbn [s_must].
      destruct (N.eqb_spec (cnt * st_size t) 0); [nia|].
      destruct (N.leb_spec (off0 + cnt * st_size t) n); [reflexivity|lia].
Qed.
Lemma hist_inv ops : forall h, inv hb pre n h -> forallb wf_op ops = true ->
  inv hb pre n (heap_after k m hb r h ops).
Proof.
  induction ops as [|o ops IH]; intros h Hi Hw; cbn [heap_after]; [assumption|].
  cbn [forallb] in Hw. apply andb_true_iff in Hw. destruct Hw as [Hw1 Hw2].
  apply IH; [|assumption]. now apply step_inv.
Qed.
Lemma get_put h a d : a + len d <= len h -> get (put h a d) a (len d) = d.
Proof.
  intros H. rewrite put_h_write by assumption. rewrite get_h_read.
  - now apply h_read_h_write.
  - unfold len at 2. rewrite h_write_length by assumption. exact H.
Qed.
Lemma value_image t v : v < 256 ^ st_size t -> value t (image t v) = v.
Proof.
  intros H. rewrite <- as_slice_image, <- from_bytes_value. apply from_as. exact H.
Qed.
End Routes.

Lemma routes_agree_lemma : forall k m hb pre n h0 ops t v off s l,
  k <= 2 -> pre + n <= len h0 -> hb + len h0 <= ISZ_MAX -> forallb wf_op ops = true ->
  1 <= st_size t -> v < 256 ^ st_size t -> off + st_size t <= n ->
  store_route hb pre n t v off s -> load_route hb pre n t off l ->
  let r := {| mr_addr := pre; mr_size := n |} in
  let h := heap_after k m hb r h0 ops in
  let x := model_step k m hb r h s in
  let y := model_step k m hb r (mo_heap x) l in
  mo_kind x = 0 /\ mo_kind y = 0 /\ mo_n y = v.
Proof.
  intros k m hb pre n h0 ops t v off s l Hk H1 H2 Hw Hs Hv Hb Hst Hld. cbv zeta.
  assert (Hi : inv hb pre n (heap_after k m hb {| mr_addr := pre; mr_size := n |} h0 ops))
    by (apply hist_inv; [assumption|split; assumption|assumption]).
  set (h := heap_after k m hb {| mr_addr := pre; mr_size := n |} h0 ops) in *.
  destruct (store_step k m hb pre n Hk h t v off s Hi Hs Hb Hst) as [S1 S2].
  split; [assumption|]. rewrite S2.
  assert (Hi' : inv hb pre n (put h (pre + off) (image t v))).
  { unfold inv, len in *. rewrite put_length. exact Hi. }
  destruct (load_step k m hb pre n Hk _ t off l Hi' Hs Hb Hld) as [L1 L2].
  split; [assumption|]. rewrite L2. rewrite <- (image_len t v). rewrite get_put.
  - now apply value_image.
  - rewrite image_len. destruct Hi as [Ha Hb']. lia.
Qed.

(* ---- element-count laws ---- *)
Lemma arr_copy_to_count_lemma : forall m h t aa cnt buf,
  aa + cnt * st_size t <= len h -> cnt * st_size t < W64 ->
  exists b', va_copy_to m h {| va_addr := aa; va_nelem := cnt |} (vt t) buf = Val (b', N.min (len buf) cnt)
             /\ length b' = length buf.
Proof.
  intros m h t aa cnt buf Hb Hw. rewrite (va_copy_to_nf 0 m k0) by assumption. cbv zeta.
  eexists. split; [reflexivity|]. rewrite app_length, map_length, seq_length, dropN_skipn, skipn_length.
  unfold len. lia.
Qed.
Lemma sl_copy_to_count_lemma : forall m h t sa ss buf,
  sa + ss <= len h -> ss <= ISZ_MAX ->
  exists b', vs_copy_to m h {| vs_addr := sa; vs_size := ss |} (vt t) buf =
             Val (b', if st_size t =? 0 then len buf else N.min (len buf) (ss / st_size t))
             /\ length b' = length buf.
Proof.
  intros m h t sa ss buf Hb Hs. pose proof isz_lt_w.
  destruct (N.eqb_spec (st_size t) 0) as [Z|Z].
  { unfold vs_copy_to. change (ty_size (vt t)) with (st_size t). rewrite Z.
    change (0 =? 1) with false. change (0 =? 0) with true. cbv iota. eauto. }
  assert (Q : ss / st_size t * st_size t <= ss) by now apply div_mul_le.
  assert (R : vs_copy_to m h {| vs_addr := sa; vs_size := ss |} (vt t) buf =
              va_copy_to m h {| va_addr := sa; va_nelem := ss / st_size t |} (vt t) buf).
  { destruct (N.eqb_spec (st_size t) 1) as [E|E].
    - rewrite (one_copy_to 0 m k0) by (assumption || (cbn [vs_size]; lia)). cbn [vs_addr vs_size].
      now rewrite E, N.div_1_r.
    - unfold vs_copy_to. change (ty_size (vt t)) with (st_size t).
      destruct (N.eqb_spec (st_size t) 1); [contradiction|]. destruct (N.eqb_spec (st_size t) 0); [contradiction|].
      unfold pdiv. destruct (N.eqb_spec (st_size t) 0); [contradiction|]. cbn [bind vs_size].
      rewrite (get_array_ref_ok 0 k0); cbn [vs_size vs_addr]; try lia.
      + cbn [bind]. now rewrite N.add_0_r.
      + assert (ss / st_size t <= ss) by (apply N.div_le_upper_bound; [assumption|nia]). lia. }
  rewrite R. apply arr_copy_to_count_lemma; lia.
Qed.

(* ================================================================== C04big: the length-level model
   of one large bulk transfer satisfies the length-level checker (all sizes below 2^32) *)
Lemma big_get_slice pre n off cnt : off + cnt < W64 ->
  vs_get_slice {| vs_addr := pre; vs_size := n |} off cnt =
  if off + cnt <=? n then Ok {| vs_addr := pre + off; vs_size := cnt |} else Err EOutOfBounds.
Proof.
  intros H. unfold vs_get_slice, vs_subslice, compute_end_offset, compute_offset, checked_add. cbn [vs_size vs_addr].
  destruct (N.ltb_spec (off + cnt) W64) as [_|X]; [|lia].
  destruct (N.ltb_spec n (off + cnt)); destruct (N.leb_spec (off + cnt) n); try lia; reflexivity.
Qed.

Lemma BIGLIM_small : 17 * BIGLIM < W64.
Proof. rewrite W64_val. unfold BIGLIM. lia. Qed.

Lemma C04big_model_ok_lemma : forall c, wf_big c = true -> ok_C04big c (run_C04big c) = true.
Proof.
  intros c Hw. pose proof BIGLIM_small as HB. pose proof Hw as Hw'.
  unfold wf_big in Hw'. repeat (apply andb_true_iff in Hw'; destruct Hw' as [Hw' ?]).
  repeat match goal with
         | H : (_ <? _) = true |- _ => apply N.ltb_lt in H
         | H : (_ <=? _) = true |- _ => apply N.leb_le in H
         end.
  assert (Hm : b_cnt c * b_sz c < 16 * BIGLIM) by nia.
  assert (Hm2 : N.min (b_blen c) (b_cnt c) * b_sz c <= b_cnt c * b_sz c) by (apply N.mul_le_mono_r; lia).
  assert (Hd : b_cnt c / b_sz c * b_sz c <= b_cnt c) by (rewrite N.mul_comm; apply N.mul_div_le; lia).
  assert (Hm3 : N.min (b_blen c) (b_cnt c / b_sz c) * b_sz c <= b_cnt c).
  { etransitivity; [|exact Hd]. apply N.mul_le_mono_r. lia. }
  unfold BIGLIM in *. rewrite W64_val in HB.
  unfold ok_C04big, run_C04big, big_model, big_spec, big_frame.
  destruct (b_route c) eqn:R; cbn [vs_size vs_addr];
    rewrite ?big_get_slice by (rewrite W64_val; lia).
  all: repeat match goal with
       | |- context [if ?b =? ?d then _ else _] => destruct (N.eqb_spec b d)
       | |- context [if ?b <=? ?d then _ else _] => destruct (N.leb_spec b d)
       | |- context [negb (?b =? ?d)] => destruct (N.eqb_spec b d)
       | |- context [(?b <=? ?d) && _] => destruct (N.leb_spec b d)
       end; cbn [negb andb g_kind g_count g_lo g_m g_ok g_err x_must x_count x_lo x_m bo_kind bo_count
                 bo_bufdiff bo_heapdiff bo_first bo_last opt_allows Bool.eqb vs_addr vs_size] in *.
  all: unfold BNONE in *; try discriminate; try lia.
  all: rewrite ?andb_true_iff, ?N.eqb_eq, ?N.leb_le, ?N.ltb_lt; repeat split; try lia.
  all: try (match goal with |- Bool.eqb (?x =? ?y) _ = true => destruct (N.eqb_spec x y); [reflexivity || lia|reflexivity || lia] end).
  all: try (remember (b_cnt c / b_sz c) as qd; remember (N.min (b_blen c) qd * b_sz c) as mm; lia).
Qed.
