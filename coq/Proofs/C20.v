From VM Require Import Prelude.MachInt Prelude.Bytes Prelude.Tok Impl.Endian Spec.C20 Suite.C20.

Lemma byte_at_S v i : byte_at v (S i) = byte_at (v / 256) i.
Proof.
  unfold byte_at. rewrite pow256_S. rewrite N.div_div by (try lia; apply N.pow_nonzero; lia). reflexivity.
Qed.

Lemma enc_le_map n v : enc_le n v = map (byte_at v) (seq 0 n).
Proof.
  revert v. induction n as [|n IH]; intros v; [reflexivity|].
  cbn [enc_le seq map]. f_equal.
  - unfold byte_at. change (256 ^ N.of_nat 0) with 1. rewrite N.div_1_r. reflexivity.
  - rewrite IH. rewrite <- seq_shift, map_map. apply map_ext. intros i. symmetry. apply byte_at_S.
Qed.

Lemma swap_bound n v : swap_bytes n v < 256 ^ N.of_nat n.
Proof.
  unfold swap_bytes. pose proof (dec_le_bound (rev (enc_le n v))) as H.
  rewrite rev_length, enc_le_length in H. apply H. apply Forall_rev. apply enc_le_bytes.
Qed.

Lemma enc_swap n v : enc_le n (swap_bytes n v) = rev (enc_le n v).
Proof.
  unfold swap_bytes.
  pose proof (enc_dec_le (rev (enc_le n v))) as H. rewrite rev_length, enc_le_length in H.
  apply H. apply Forall_rev. apply enc_le_bytes.
Qed.

Lemma swap_involutive_lemma n v : v < 256 ^ N.of_nat n -> swap_bytes n (swap_bytes n v) = v.
Proof.
  intros Hv. unfold swap_bytes at 1. rewrite enc_swap, rev_involutive. apply dec_enc_le. exact Hv.
Qed.

Lemma swap_inj n a b : a < 256 ^ N.of_nat n -> b < 256 ^ N.of_nat n -> swap_bytes n a = swap_bytes n b -> a = b.
Proof.
  intros Ha Hb E. rewrite <- (swap_involutive_lemma n a Ha), <- (swap_involutive_lemma n b Hb), E. reflexivity.
Qed.

Definition fits (t : ety) (v : N) : Prop := v < 256 ^ N.of_nat (e_size t).

Lemma roundtrip_lemma t v : fits t v -> e_to_native t (e_from t v) = v.
Proof.
  unfold fits, e_to_native, e_from, from_new, to_new. destruct (e_end t); intros H; [reflexivity|].
  apply swap_involutive_lemma. exact H.
Qed.

Lemma stored_fits t v : fits t v -> fits t (e_from t v).
Proof. unfold fits, e_from, to_new. destruct (e_end t); intros H; [exact H|apply swap_bound]. Qed.

Lemma bytes_order_lemma t v : fits t v ->
  e_bytes t (e_from t v) = match e_end t with LE => enc_le (e_size t) v | BE => enc_be (e_size t) v end.
Proof.
  unfold e_bytes, e_from, to_new, enc_be. destruct (e_end t); intros H; [reflexivity|apply enc_swap].
Qed.

Lemma bytes_wire t v : fits t v -> e_bytes t (e_from t v) = wire_bytes t v.
Proof.
  intros H. rewrite bytes_order_lemma by exact H. unfold wire_bytes, enc_be. rewrite enc_le_map.
  destruct (e_end t); reflexivity.
Qed.

Lemma eq_iff_lemma t v x : fits t v -> fits t x ->
  (e_eq_new_old t (e_from t v) x = true <-> v = x) /\ (e_eq_old_new t x (e_from t v) = true <-> e_to_native t (e_from t v) = x).
Proof.
  intros Hv Hx. rewrite roundtrip_lemma by exact Hv. unfold e_eq_new_old, e_eq_old_new, e_from, to_new, fits in *.
  destruct (e_end t).
  - split; (split; [intros H; apply N.eqb_eq in H; congruence | intros ->; apply N.eqb_refl]).
  - split.
    + split; [intros H; apply N.eqb_eq in H; eapply swap_inj; eauto | intros ->; apply N.eqb_refl].
    + rewrite swap_involutive_lemma by exact Hv.
      split; [intros H; apply N.eqb_eq in H; exact H | intros ->; apply N.eqb_refl].
Qed.

(* note: the second PartialEq impl converts the *wrapper's field* with $to_new, which equals
   $from_new on every host because both are the same involution; the lemma above shows it
   compares the represented value. *)

Lemma eqb_iff_bool (b : bool) (P : Prop) (c : bool) : (b = true <-> P) -> (c = true <-> P) -> Bool.eqb b c = true.
Proof. destruct b, c; cbn; intros [A B] [C D]; try reflexivity; exfalso; try (discriminate (D (A eq_refl))); try (discriminate (B (C eq_refl))). Qed.

Lemma eqb_negb (a b : bool) : Bool.eqb (negb a) (negb b) = Bool.eqb a b.
Proof. destruct a, b; reflexivity. Qed.

Lemma C20_model_ok_lemma c sz al : fits (k_ty c) (k_v c) -> fits (k_ty c) (k_x c) ->
  sz = N.of_nat (e_size (k_ty c)) -> ok_C20 c (run_C20 c sz al) = true.
Proof.
  destruct c as [t v x]; cbn [k_ty k_v k_x]. intros Hv Hx ->.
  unfold ok_C20, run_C20; cbn [k_ty k_v k_x b_bytes b_native b_eq1 b_eq2 b_ne1 b_ne2 b_size b_align b_nsize b_nalign b_routes].
  rewrite !eqb_negb.
  rewrite bytes_wire by exact Hv. rewrite roundtrip_lemma by exact Hv.
  destruct (eq_iff_lemma t v x Hv Hx) as [E1 E2]. rewrite roundtrip_lemma in E2 by exact Hv.
  assert (L : list_eqb (wire_bytes t v) (wire_bytes t v) = true) by (apply list_eqb_eq; reflexivity).
  rewrite L, !N.eqb_refl.
  rewrite (eqb_iff_bool _ (v = x) (v =? x) E1 (N.eqb_eq v x)).
  rewrite (eqb_iff_bool _ (v = x) (v =? x) E2 (N.eqb_eq v x)). reflexivity.
Qed.

(* wire format reading: byte i of the stored representation is digit i (LE) or digit n-1-i (BE) *)
Lemma wire_digit_lemma t v i : fits t v -> (i < e_size t)%nat ->
  nth i (e_bytes t (e_from t v)) 0 =
  match e_end t with LE => byte_at v i | BE => byte_at v (e_size t - 1 - i) end.
Proof.
  intros Hv Hi. rewrite bytes_order_lemma by exact Hv. unfold enc_be. destruct (e_end t).
  - apply enc_le_nth. exact Hi.
  - rewrite rev_nth by (rewrite enc_le_length; exact Hi). rewrite enc_le_length.
    replace (e_size t - S i)%nat with (e_size t - 1 - i)%nat by lia. apply enc_le_nth. lia.
Qed.
