(* C10-specific lemmas: the history model against the spec checker, concrete instances. *)
From Coq Require Import Sorting.Sorted Sorting.Permutation.
From VM Require Import Prelude.MachInt Prelude.Outcome Prelude.Tok Impl.Address Impl.Mmap Proofs.Mmap
  Spec.C10 Suite.C10.

(* one-byte overlap and equal starts are refused, adjacency is accepted *)
Lemma insert_boundaries_lemma {A} (rs rl : A -> N) m L r x : wf_layout rs rl L -> region_ok rs rl r -> In x L ->
  (rs r = rs x + rl x - 1 -> insert_region rs rl m L r = Val (Err EMemoryRegionOverlap)) /\
  (rs r + rl r - 1 = rs x -> insert_region rs rl m L r = Val (Err EMemoryRegionOverlap)) /\
  (rs r = rs x -> insert_region rs rl m L r = Val (Err EMemoryRegionOverlap)) /\
  (L = [x] -> (rs r = rs x + rl x \/ rs r + rl r = rs x) ->
     exists L', insert_region rs rl m L r = Val (Ok L') /\ Permutation L' [r; x]).
Proof.
  intros Hw Hr Hx.
  assert (Hxok : region_ok rs rl x). { destruct Hw as (Hok & _). rewrite Forall_forall in Hok. exact (Hok x Hx). }
  destruct Hxok as [Hx1 Hx2]. destruct Hr as [Hr1 Hr2].
  destruct (insert_err_iff_lemma rs rl m L r Hw (conj Hr1 Hr2)) as [He Hk].
  repeat split.
  - intros E. apply He. split; [reflexivity|]. exists x. split; [exact Hx|]. unfold overlaps. lia.
  - intros E. apply He. split; [reflexivity|]. exists x. split; [exact Hx|]. unfold overlaps. lia.
  - intros E. apply He. split; [reflexivity|]. exists x. split; [exact Hx|]. unfold overlaps. lia.
  - intros -> Hadj. destruct Hk as [_ Hk]. destruct Hk as (L' & E).
    + intros y [<-|[]]. unfold overlaps. lia.
    + exists L'. split; [exact E|]. exact (proj2 (insert_ok_lemma rs rl m [x] r L' Hw (conj Hr1 Hr2) E)).
Qed.

Definition stable_sort_spec_lemma2 (A : Type) (rs : A -> N) (l : list A) := @stable_sort_spec_lemma A rs rs l.

(* ====================================================================== the history model vs ok_C10 *)
Notation ROK := (region_ok g_s g_l).
Notation WF := (wf_layout g_s g_l).

Lemma reg_eqb_refl x : reg_eqb x x = true.
Proof. unfold reg_eqb. rewrite !N.eqb_refl. reflexivity. Qed.
Lemma reg_eqb_eq x y : reg_eqb x y = true -> x = y.
Proof.
  unfold reg_eqb. intros H. apply andb_true_iff in H. destruct H as [H12 H3]. apply andb_true_iff in H12.
  destruct H12 as [H1 H2]. apply N.eqb_eq in H1, H2, H3. destruct x, y; cbn in *; congruence.
Qed.
Lemma overlap_false_iff x y : overlap x y = false <-> disjoint g_s g_l x y.
Proof.
  unfold overlap, disjoint. destruct (N.ltb_spec (g_s x) (g_s y + g_l y)) as [Ha|Ha]; destruct (N.ltb_spec (g_s y) (g_s x + g_l x)) as [Hb|Hb];
    cbn [andb]; split; intros Hc; try discriminate; try reflexivity; lia.
Qed.
Lemma overlap_true_iff x y : overlap x y = true <-> overlaps g_s g_l x y.
Proof.
  unfold overlap, overlaps. destruct (N.ltb_spec (g_s x) (g_s y + g_l y)) as [Ha|Ha]; destruct (N.ltb_spec (g_s y) (g_s x + g_l x)) as [Hb|Hb];
    cbn [andb]; split; intros Hc; try discriminate; try reflexivity; lia.
Qed.

Lemma strictly_sorted_iff L : strictly_sorted L = true <-> Sorted (ltk g_s) L.
Proof.
  induction L as [|x t IH]; [split; [constructor|reflexivity]|].
  destruct t as [|y t']; [split; [intros _; constructor; constructor|reflexivity]|].
  change (strictly_sorted (x :: y :: t')) with ((g_s x <? g_s y) && strictly_sorted (y :: t')).
  rewrite andb_true_iff, IH, N.ltb_lt. split.
  - intros [H1 H2]. constructor; [exact H2|]. constructor. exact H1.
  - intros H. inversion H as [|? ? Hs Hh]; subst. inversion Hh; subst. split; assumption.
Qed.
Lemma ltk_trans : Relations_1.Transitive (ltk g_s).
Proof. intros x y z. unfold ltk. lia. Qed.
Lemma pairwise_disjoint_iff L : pairwise_disjoint L = true <-> ForallOrdPairs (disjoint g_s g_l) L.
Proof.
  induction L as [|x t IH]; [split; [constructor|reflexivity]|].
  cbn [pairwise_disjoint]. rewrite andb_true_iff, IH, forallb_forall. split.
  - intros [H1 H2]. constructor; [|exact H2]. apply Forall_forall. intros y Hy.
    apply overlap_false_iff. specialize (H1 y Hy). destruct (overlap x y); [discriminate|reflexivity].
  - intros H. inversion H as [|? ? Hf Ht]; subst. split; [|exact Ht]. intros y Hy.
    rewrite Forall_forall in Hf. specialize (Hf y Hy). apply overlap_false_iff in Hf. rewrite Hf. reflexivity.
Qed.
Lemma wf_bool_iff L : Forall ROK L -> (WF L <-> strictly_sorted L = true /\ pairwise_disjoint L = true).
Proof.
  intros Hok. unfold wf_layout. rewrite strictly_sorted_iff, pairwise_disjoint_iff. split.
  - intros (_ & H1 & H2). split; [apply StronglySorted_Sorted; exact H1|exact H2].
  - intros (H1 & H2). split; [exact Hok|]. split; [|exact H2].
    apply Sorted_StronglySorted; [exact ltk_trans|exact H1].
Qed.
Lemma valid_map_wf L : WF L -> valid_map L = true.
Proof.
  intros H. pose proof H as (Hok & _). apply (wf_bool_iff L Hok) in H. destruct H as [H1 H2].
  unfold valid_map. rewrite H1, H2. reflexivity.
Qed.
Lemma nondecreasing_mid l1 x y l2 : nondecreasing (l1 ++ x :: y :: l2) = true -> g_s x <= g_s y.
Proof.
  induction l1 as [|a l1 IH]; cbn [app].
  - change (nondecreasing (x :: y :: l2)) with ((g_s x <=? g_s y) && nondecreasing (y :: l2)).
    intros H. apply andb_true_iff in H. destruct H as [H _]. apply N.leb_le in H. exact H.
  - destruct (l1 ++ x :: y :: l2) as [|b r] eqn:E; [destruct l1; discriminate|].
    change (nondecreasing (a :: b :: r)) with ((g_s a <=? g_s b) && nondecreasing (b :: r)).
    intros H. apply andb_true_iff in H. destruct H as [_ H]. apply IH. exact H.
Qed.
Lemma pairwise_disjoint_mid l1 x y l2 : pairwise_disjoint (l1 ++ x :: y :: l2) = true -> overlap x y = false.
Proof.
  induction l1 as [|a l1 IH]; cbn [app pairwise_disjoint]; intros H; apply andb_true_iff in H; destruct H as [H1 H2].
  - cbn [forallb] in H1. apply andb_true_iff in H1. destruct H1 as [H1 _]. destruct (overlap x y); [discriminate|reflexivity].
  - apply IH. exact H2.
Qed.

Lemma count_id_perm i X Y : Permutation X Y -> count_id i X = count_id i Y.
Proof.
  unfold count_id. induction 1 as [|x l l' Hp IH|x y l|l l' l'' _ IH1 _ IH2]; cbn [filter].
  - reflexivity.
  - destruct (g_id x =? i); cbn [length]; congruence.
  - destruct (g_id x =? i); destruct (g_id y =? i); reflexivity.
  - congruence.
Qed.
Lemma same_handles_perm X Y : Permutation X Y -> same_handles X Y = true.
Proof.
  intros H. unfold same_handles. apply forallb_forall. intros g _.
  rewrite (count_id_perm (g_id g) X Y H). apply Nat.eqb_refl.
Qed.
Lemma find_none_all {T} (f : T -> bool) l : (forall x, In x l -> f x = false) -> find f l = None.
Proof.
  induction l as [|x t IH]; intros H; [reflexivity|]. cbn [find]. rewrite (H x (or_introl eq_refl)).
  apply IH. intros y Hy. apply H. right. exact Hy.
Qed.
Lemma sorted_same_start L x y : StronglySorted (ltk g_s) L -> In x L -> In y L -> g_s x = g_s y -> x = y.
Proof.
  induction 1 as [|a t Hs IH Ha]; intros Hx Hy E; [destruct Hx|].
  rewrite Forall_forall in Ha. destruct Hx as [<-|Hx]; destruct Hy as [<-|Hy].
  - reflexivity.
  - specialize (Ha y Hy). unfold ltk in Ha. lia.
  - specialize (Ha x Hx). unfold ltk in Ha. lia.
  - apply IH; assumption.
Qed.

(* ---------- slots ---------- *)
Lemma get_app {T} (l l' : list (option T)) i x :
  get (l ++ l') i = Some x <-> get l i = Some x \/ (nlen l <= i /\ get l' (i - nlen l) = Some x).
Proof.
  unfold get, nlen. destruct (Nat.lt_ge_cases (N.to_nat i) (length l)) as [Hlt|Hge].
  - rewrite nth_error_app1 by exact Hlt. split; [intros H; left; exact H|]. intros [H|[H _]]; [exact H|lia].
  - rewrite nth_error_app2 by exact Hge.
    replace (N.to_nat (i - N.of_nat (length l))) with (N.to_nat i - length l)%nat by lia.
    assert (En : nth_error l (N.to_nat i) = None) by (apply nth_error_None; exact Hge). rewrite En.
    split; [intros H; right; split; [lia|exact H]|]. intros [H|[_ H]]; [discriminate|exact H].
Qed.
Lemma get_single {T} (y : option T) i x : get [y] i = Some x <-> i = 0 /\ y = Some x.
Proof.
  unfold get. destruct (N.to_nat i) as [|k] eqn:E; cbn [nth_error].
  - destruct y as [v|]; split; try discriminate.
    + intros H; inversion H; subst. split; [lia|reflexivity].
    + intros [_ H]; inversion H; reflexivity.
    + intros [_ H]; discriminate.
  - destruct k; cbn [nth_error]; split; try discriminate; intros [H _]; lia.
Qed.
Lemma from_pool_mono p q L : from_pool p L = true -> from_pool (p ++ q) L = true.
Proof.
  unfold from_pool. rewrite !forallb_forall. intros H g Hg. specialize (H g Hg).
  destruct (get p (g_id g)) as [g'|] eqn:E; [|discriminate].
  assert (E' : get (p ++ q) (g_id g) = Some g') by (apply get_app; left; exact E). rewrite E'. exact H.
Qed.

Definition pool_ok (p : list (option reg)) : Prop := forall i g, get p i = Some g -> g_id g = i /\ ROK g.
Definition maps_ok (p : list (option reg)) (ms : list (option (list reg))) : Prop :=
  forall j L, get ms j = Some L -> WF L /\ from_pool p L = true.
Definition Inv (st : st10) : Prop := pool_ok (pool st) /\ maps_ok (pool st) (maps st).

Lemma maps_ok_add p ms x : maps_ok p ms -> (forall L, x = Some L -> WF L /\ from_pool p L = true) ->
  maps_ok p (ms ++ [x]).
Proof.
  intros H Hx j L E. apply get_app in E. destruct E as [E|[_ E]]; [exact (H j L E)|].
  apply get_single in E. destruct E as [_ E]. exact (Hx L E).
Qed.
Lemma maps_ok_pool p q ms : maps_ok p ms -> maps_ok (p ++ q) ms.
Proof. intros H j L E. destruct (H j L E) as [H1 H2]. split; [exact H1|apply from_pool_mono; exact H2]. Qed.
Lemma get_all_spec p ids L : pool_ok p -> get_all p ids = Some L -> Forall ROK L /\ from_pool p L = true.
Proof.
  intros Hp. revert L. induction ids as [|i t IH]; intros L E; cbn [get_all] in E.
  - inversion E; subst. split; [constructor|reflexivity].
  - destruct (get p i) as [g|] eqn:Eg; [|discriminate]. destruct (get_all p t) as [r|]; [|discriminate].
    inversion E; subst. destruct (IH r eq_refl) as [H1 H2]. destruct (Hp i g Eg) as [Hid Hok].
    split; [constructor; assumption|]. unfold from_pool in *. cbn [forallb]. rewrite H2, Hid, Eg, reg_eqb_refl. reflexivity.
Qed.
Lemma from_pool_in p L L' : from_pool p L = true -> (forall x, In x L' -> In x L) -> from_pool p L' = true.
Proof. unfold from_pool. rewrite !forallb_forall. intros H Hs g Hg. apply H, Hs, Hg. Qed.

Ltac evalcodes := repeat match goal with
  | |- context [N.eqb ?a ?b] =>
      let v := eval vm_compute in (N.eqb a b) in
      match v with
      | true => change (N.eqb a b) with true
      | false => change (N.eqb a b) with false
      end
  end.

Lemma judge_build_ok m p L : Forall ROK L -> from_pool p L = true ->
  match from_arc_regions g_s g_l m L with
  | Val (Ok L') => L' = L /\ WF L /\ judge_build p L (mkobs 0 L') = true
  | Val (Err e) => judge_build p L (mkobs (code_of e) []) = true /\ (code_of e =? 0) = false
  | _ => False
  end.
Proof.
  intros Hok Hfp. rewrite (from_arc_pure g_s g_l m L Hok). destruct L as [|x t].
  - split; reflexivity.
  - destruct (windows_pure g_s g_l (x :: t)) as [e|] eqn:Ew.
    + assert (Hnwf : strictly_sorted (x :: t) && pairwise_disjoint (x :: t) = false).
      { destruct (strictly_sorted (x :: t) && pairwise_disjoint (x :: t)) eqn:Eb; [|reflexivity]. exfalso.
        apply andb_true_iff in Eb. apply (wf_bool_iff _ Hok) in Eb. apply wf_layout_before in Eb.
        destruct Eb as [_ Hs]. apply StronglySorted_Sorted in Hs. apply (windows_none_iff g_s g_l _ Hok) in Hs. congruence. }
      apply (windows_some_iff g_s g_l _ _ Hok) in Ew.
      destruct Ew as (l1 & a & b & l2 & EL & _ & Hc).
      unfold judge_build. rewrite Hnwf. cbn [o_code mkobs].
      destruct Hc as [[-> Hlt]|[-> [Hle Hlt]]]; cbn [code_of].
      * split; [|reflexivity].
        destruct (nondecreasing (x :: t)) eqn:En.
        { exfalso. rewrite EL in En. apply nondecreasing_mid in En. lia. }
        destruct (pairwise_disjoint (x :: t)); evalcodes; reflexivity.
      * split; [|reflexivity].
        destruct (nondecreasing (x :: t)); [reflexivity|].
        destruct (pairwise_disjoint (x :: t)) eqn:Ep; [|reflexivity].
        exfalso. rewrite EL in Ep. apply pairwise_disjoint_mid in Ep. apply overlap_false_iff in Ep.
        rewrite Forall_forall in Hok.
        assert (Hb : ROK b) by (apply Hok; rewrite EL; apply in_or_app; right; right; left; reflexivity).
        destruct Hb. unfold disjoint in Ep. lia.
    + assert (Hwf : WF (x :: t)).
      { apply wf_layout_before. split; [exact Hok|]. apply Sorted_StronglySorted; [apply before_trans|].
        apply (windows_none_iff g_s g_l _ Hok). exact Ew. }
      split; [reflexivity|]. split; [exact Hwf|].
      pose proof Hwf as Hb. apply (wf_bool_iff _ Hok) in Hb. destruct Hb as [Hb1 Hb2].
      unfold judge_build. rewrite Hb1, Hb2. cbn [andb o_code o_regs mkobs]. evalcodes.
      rewrite (valid_map_wf _ Hwf), (same_handles_perm _ _ (Permutation_refl _)), Hfp. reflexivity.
Qed.

Lemma step_newmap m st : Inv st -> forall o st', m_step m st ONewMap = (o, st') ->
  ok_step st ONewMap o = Some st' /\ Inv st'.
Proof.
  intros [Hp Hm] o st' E. cbn [m_step] in E. inversion E; subst; clear E.
  split; [reflexivity|]. split; [exact Hp|]. cbn [add_map pool maps].
  apply maps_ok_add; [exact Hm|]. intros L EL. inversion EL; subst. split; [apply wf_nil|reflexivity].
Qed.

Lemma pool_ok_add p x : pool_ok p -> (forall g, x = Some g -> g_id g = nlen p /\ ROK g) -> pool_ok (p ++ [x]).
Proof.
  intros H Hx i g E. apply get_app in E. destruct E as [E|[Hi E]]; [exact (H i g E)|].
  apply get_single in E. destruct E as [E0 E1]. destruct (Hx g E1) as [H1 H2]. split; [lia|exact H2].
Qed.

Lemma step_new m st base size : Inv st -> forall o st', m_step m st (ONew base size) = (o, st') ->
  ok_step st (ONew base size) o = Some st' /\ Inv st'.
Proof.
  intros [Hp Hm] o st' E. cbn [m_step] in E. unfold region_from_range, mmap_region_new, region_new in E.
  unfold ok_step. destruct (N.eqb_spec size 0) as [Hz|Hnz].
  - inversion E; subst; clear E. cbn [o_intact o_code mkobs negb code_of]. evalcodes.
    destruct (end_exceeds base 0); cbn [negb andb orb].
    + split; [reflexivity|]. split; cbn [pool maps]; [|apply maps_ok_pool; exact Hm].
      apply pool_ok_add; [exact Hp|discriminate].
    + split; [reflexivity|]. split; cbn [pool maps]; [|apply maps_ok_pool; exact Hm].
      apply pool_ok_add; [exact Hp|discriminate].
  - unfold checked_add in E. destruct (N.ltb_spec (base + size) W64) as [Hfit|Hno].
    + inversion E; subst; clear E. cbn [o_intact o_code mkobs negb code_of]. evalcodes.
      unfold end_exceeds. destruct (N.ltb_spec W64 (base + size)); [lia|]. cbn [negb andb orb].
      split; [reflexivity|]. split; cbn [pool maps]; [|apply maps_ok_pool; exact Hm].
      apply pool_ok_add; [exact Hp|]. intros g Eg. inversion Eg; subst. cbn [g_id]. split; [reflexivity|].
      unfold region_ok. cbn [g_s g_l mkreg]. lia.
    + inversion E; subst; clear E. cbn [o_intact o_code mkobs negb code_of]. evalcodes.
      destruct (end_exceeds base size); cbn [negb andb orb].
      * split; [reflexivity|]. split; cbn [pool maps]; [|apply maps_ok_pool; exact Hm].
        apply pool_ok_add; [exact Hp|discriminate].
      * split; [reflexivity|]. split; cbn [pool maps]; [|apply maps_ok_pool; exact Hm].
        apply pool_ok_add; [exact Hp|discriminate].
Qed.

Lemma pool_get_self p r g : pool_ok p -> get p r = Some g -> get p (g_id g) = Some g.
Proof. intros Hp E. destruct (Hp r g E) as [-> _]. exact E. Qed.

Lemma step_insert m st mi r : Inv st -> forall o st', m_step m st (OInsert mi r) = (o, st') ->
  ok_step st (OInsert mi r) o = Some st' /\ Inv st'.
Proof.
  intros [Hp Hm] o st' E. cbn [m_step] in E. unfold ok_step.
  destruct (get (maps st) mi) as [old|] eqn:Eo.
  2:{ inversion E; subst; clear E. cbn [o_intact o_code mkobs negb]. evalcodes.
      split; [reflexivity|]. split; [exact Hp|]. cbn [add_map pool maps].
      apply maps_ok_add; [exact Hm|discriminate]. }
  destruct (get (pool st) r) as [g|] eqn:Eg.
  2:{ inversion E; subst; clear E. cbn [o_intact o_code mkobs negb]. evalcodes.
      split; [reflexivity|]. split; [exact Hp|]. cbn [add_map pool maps].
      apply maps_ok_add; [exact Hm|discriminate]. }
  destruct (Hm mi old Eo) as [Hwf Hfp]. destruct (Hp r g Eg) as [Hid Hrok].
  destruct (insert_cases g_s g_l m old g Hwf Hrok) as (Hperm & [(Hd & Ei & Hw')|(Hd & Ei)]);
    rewrite Ei in E; cbn [res_map] in E; inversion E; subst; clear E;
    cbn [o_intact o_code o_regs mkobs negb code_of].
  - assert (Hex : existsb (overlap g) old = false).
    { destruct (existsb (overlap g) old) eqn:Ex; [|reflexivity]. exfalso.
      apply existsb_exists in Ex. destruct Ex as (x & Hx & Ho). apply overlap_true_iff in Ho.
      rewrite Forall_forall in Hd. specialize (Hd x Hx). apply not_overlaps_disjoint in Hd. contradiction. }
    rewrite Hex. evalcodes. rewrite (valid_map_wf _ Hw'), (same_handles_perm _ _ Hperm).
    assert (Hfp' : from_pool (pool st) (stable_sort g_s (old ++ [g])) = true).
    { unfold from_pool in *. rewrite forallb_forall in *. intros x Hx.
      apply (Permutation_in _ Hperm) in Hx. destruct Hx as [<-|Hx]; [|exact (Hfp x Hx)].
      rewrite (pool_get_self _ _ _ Hp Eg). apply reg_eqb_refl. }
    rewrite Hfp'. cbn [andb]. split; [reflexivity|]. split; [exact Hp|]. cbn [add_map pool maps].
    apply maps_ok_add; [exact Hm|]. intros L EL. inversion EL; subst. split; assumption.
  - assert (Hex : existsb (overlap g) old = true).
    { apply not_forall_disjoint in Hd. destruct Hd as (x & Hx & Ho). apply existsb_exists. exists x.
      split; [exact Hx|]. apply overlap_true_iff. exact Ho. }
    rewrite Hex. evalcodes. split; [reflexivity|]. split; [exact Hp|]. cbn [add_map pool maps].
    apply maps_ok_add; [exact Hm|discriminate].
Qed.

Lemma step_remove m st mi base size : Inv st -> forall o st', m_step m st (ORemove mi base size) = (o, st') ->
  ok_step st (ORemove mi base size) o = Some st' /\ Inv st'.
Proof.
  intros [Hp Hm] o st' E. cbn [m_step] in E. unfold ok_step.
  destruct (get (maps st) mi) as [old|] eqn:Eo.
  2:{ inversion E; subst; clear E. cbn [o_intact o_code mkobs negb]. evalcodes.
      split; [reflexivity|]. split; [exact Hp|]. cbn [add_map pool maps].
      apply maps_ok_add; [exact Hm|discriminate]. }
  destruct (Hm mi old Eo) as [Hwf Hfp].
  destruct (remove_cases g_s g_l old base size Hwf) as [(l1 & g & l2 & EL & Hb & Hl & Er)|(Hno & Er)];
    rewrite Er in E; inversion E; subst; clear E; cbn [o_intact o_code o_regs mkobs negb code_of].
  - assert (Hf : find (fun g0 => (g_s g0 =? g_s g) && (g_l g0 =? g_l g)) (l1 ++ g :: l2) = Some g).
    { destruct (find (fun g0 => (g_s g0 =? g_s g) && (g_l g0 =? g_l g)) (l1 ++ g :: l2)) as [g'|] eqn:Ef.
      - apply find_some in Ef. destruct Ef as [Hin Hpred]. apply andb_true_iff in Hpred. destruct Hpred as [H1 _].
        apply N.eqb_eq in H1. f_equal. destruct Hwf as (_ & Hs & _).
        apply (sorted_same_start _ _ _ Hs Hin); [apply in_or_app; right; left; reflexivity|exact H1].
      - exfalso. assert (Hing : In g (l1 ++ g :: l2)) by (apply in_or_app; right; left; reflexivity).
        pose proof (find_none _ _ Ef g Hing) as Hn.
        cbv beta in Hn. rewrite !N.eqb_refl in Hn. discriminate. }
    rewrite Hf. evalcodes. rewrite reg_eqb_refl.
    pose proof (wf_remove_mid g_s g_l l1 g l2 Hwf) as Hw'. rewrite (valid_map_wf _ Hw').
    rewrite (same_handles_perm (g :: l1 ++ l2) (l1 ++ g :: l2) (Permutation_middle _ _ _)).
    assert (Hfp' : from_pool (pool st) (l1 ++ l2) = true).
    { apply (from_pool_in _ _ _ Hfp). intros x Hx. apply in_app_or in Hx. apply in_or_app.
      destruct Hx as [Hx|Hx]; [left; exact Hx|right; right; exact Hx]. }
    rewrite Hfp'. cbn [andb]. split; [reflexivity|]. split; [exact Hp|]. cbn [add_map pool maps].
    apply maps_ok_add; [exact Hm|]. intros L E. inversion E; subst. split; assumption.
  - assert (Hf : find (fun g0 => (g_s g0 =? base) && (g_l g0 =? size)) old = None).
    { apply find_none_all. intros x Hx. specialize (Hno x Hx).
      destruct (N.eqb_spec (g_s x) base); destruct (N.eqb_spec (g_l x) size); try reflexivity. exfalso. apply Hno. split; assumption. }
    rewrite Hf. evalcodes. split; [reflexivity|]. split; [exact Hp|]. cbn [add_map pool maps].
    apply maps_ok_add; [exact Hm|discriminate].
Qed.

Lemma contains_iff g a : ROK g -> (contains g a = true <-> g_s g <= a /\ a <= g_s g + g_l g - 1).
Proof.
  intros [H1 H2]. unfold contains. rewrite andb_true_iff, N.leb_le, N.ltb_lt. lia.
Qed.

Lemma step_find m st mi a : Inv st -> forall o st', m_step m st (OFind mi a) = (o, st') ->
  ok_step st (OFind mi a) o = Some st' /\ Inv st'.
Proof.
  intros [Hp Hm] o st' E. cbn [m_step] in E. unfold ok_step.
  destruct (get (maps st) mi) as [old|] eqn:Eo.
  2:{ inversion E; subst; clear E. cbn [o_intact o_code mkobs negb]. evalcodes.
      split; [reflexivity|]. split; assumption. }
  destruct (Hm mi old Eo) as [Hwf Hfp]. pose proof Hwf as (Hok & _). rewrite Forall_forall in Hok.
  rewrite (find_region_eq g_s g_l m old a Hwf) in E.
  pose proof (mmap_find_spec g_s g_l old Hwf a) as Hspec.
  destruct (mmap_find g_s g_l old a) as [g|] eqn:Ef; inversion E; subst; clear E;
    cbn [o_intact o_code o_regs mkobs negb].
  - destruct (proj1 (Hspec g) eq_refl) as (Hin & Hlo & Hhi).
    destruct (find (fun g0 => contains g0 a) old) as [g'|] eqn:Eff.
    + apply find_some in Eff. destruct Eff as [Hin' Hc]. apply (contains_iff _ _ (Hok g' Hin')) in Hc.
      assert (g = g') by (apply (mmap_find_unique g_s g_l old a g g' Hwf); try assumption; split; [assumption|lia]).
      subst g'. evalcodes. rewrite reg_eqb_refl. split; [reflexivity|]. split; assumption.
    + exfalso. pose proof (find_none _ _ Eff g Hin) as Hn. cbv beta in Hn.
      assert (contains g a = true) by (apply (contains_iff _ _ (Hok g Hin)); split; assumption). congruence.
  - destruct (find (fun g0 => contains g0 a) old) as [g'|] eqn:Eff.
    + exfalso. apply find_some in Eff. destruct Eff as [Hin' Hc]. apply (contains_iff _ _ (Hok g' Hin')) in Hc.
      destruct Hc as [Hc1 Hc2]. pose proof (proj2 (Hspec g') (conj Hin' (conj Hc1 Hc2))) as Hs. discriminate.
    + evalcodes. split; [reflexivity|]. split; assumption.
Qed.

Lemma step_fromarc m st ids : Inv st -> forall o st', m_step m st (OFromArc ids) = (o, st') ->
  ok_step st (OFromArc ids) o = Some st' /\ Inv st'.
Proof.
  intros [Hp Hm] o st' E. cbn [m_step] in E. unfold ok_step.
  destruct (get_all (pool st) ids) as [L|] eqn:Eg.
  2:{ inversion E; subst; clear E. cbn [o_intact o_code mkobs negb]. evalcodes.
      split; [reflexivity|]. split; [exact Hp|]. cbn [add_map pool maps].
      apply maps_ok_add; [exact Hm|discriminate]. }
  destruct (get_all_spec _ _ _ Hp Eg) as [Hok Hfp].
  pose proof (judge_build_ok m (pool st) L Hok Hfp) as Hj.
  destruct (from_arc_regions g_s g_l m L) as [[L'|e]| |]; try contradiction;
    cbn [res_map] in E; inversion E; subst; clear E.
  - destruct Hj as (-> & Hwf & Hj). cbn [o_intact negb mkobs]. rewrite Hj. cbn [o_code o_regs mkobs]. evalcodes.
    split; [reflexivity|]. split; [exact Hp|]. cbn [add_map pool maps].
    apply maps_ok_add; [exact Hm|]. intros L0 E0. inversion E0; subst. split; assumption.
  - destruct Hj as (Hj & Hc). cbn [o_intact negb mkobs]. rewrite Hj. cbn [o_code o_regs mkobs]. rewrite Hc.
    split; [reflexivity|]. split; [exact Hp|]. cbn [add_map pool maps].
    apply maps_ok_add; [exact Hm|discriminate].
Qed.

Lemma collect_ok id l L : collect_ranges mkreg id l = Ok L ->
  L = mk_regs id l /\ Forall ROK L /\
  existsb (fun sl => end_exceeds (fst sl) (snd sl)) l = false /\ existsb (fun sl => border (fst sl) (snd sl)) l = false.
Proof.
  revert id L. induction l as [|[s len] t IH]; intros id L E; cbn [collect_ranges] in E.
  - inversion E; subst. repeat split; constructor.
  - unfold region_from_range, mmap_region_new, region_new, checked_add in E.
    destruct (N.eqb_spec len 0) as [Hz|Hnz]; [discriminate|].
    destruct (N.ltb_spec (s + len) W64) as [Hfit|Hno]; [|discriminate].
    destruct (collect_ranges mkreg (id + 1) t) as [r|e] eqn:Er; [|discriminate].
    inversion E; subst; clear E. destruct (IH _ _ Er) as (H1 & H2 & H3 & H4).
    cbn [mk_regs existsb fst snd]. rewrite H3, H4. unfold end_exceeds, border.
    destruct (N.ltb_spec W64 (s + len)); [lia|]. destruct (N.eqb_spec (s + len) W64); [lia|].
    destruct (N.eqb_spec len 0); [lia|]. cbn [orb]. repeat split.
    + f_equal. exact H1.
    + constructor; [|exact H2]. unfold region_ok. cbn [g_s g_l mkreg]. lia.
Qed.
Lemma collect_err id l e : collect_ranges mkreg id l = Err e ->
  ((code_of e =? 1) || (code_of e =? 2)) = true /\
  (existsb (fun sl => end_exceeds (fst sl) (snd sl)) l || existsb (fun sl => border (fst sl) (snd sl)) l) = true.
Proof.
  revert id. induction l as [|[s len] t IH]; intros id E; cbn [collect_ranges] in E; [discriminate|].
  unfold region_from_range, mmap_region_new, region_new, checked_add in E.
  cbn [existsb fst snd]. unfold end_exceeds at 1, border at 1.
  destruct (N.eqb_spec len 0) as [Hz|Hnz].
  { inversion E; subst. split; [reflexivity|]. rewrite orb_true_r. destruct (W64 <? s + 0); cbn [orb]; [reflexivity|].
    rewrite orb_true_r. reflexivity. }
  destruct (N.ltb_spec (s + len) W64) as [Hfit|Hno].
  - destruct (collect_ranges mkreg (id + 1) t) as [r|e'] eqn:Er; [discriminate|]. inversion E; subst.
    destruct (IH _ Er) as [H1 H2]. split; [exact H1|].
    apply orb_true_iff in H2. destruct H2 as [H2|H2]; rewrite H2; rewrite ?orb_true_r; reflexivity.
  - inversion E; subst. split; [reflexivity|].
    destruct (N.ltb_spec W64 (s + len)); [reflexivity|]. destruct (N.eqb_spec (s + len) W64); [|lia].
    cbn [orb]. rewrite orb_true_r. reflexivity.
Qed.
Lemma get_dead {T} n i (x : T) : get (dead n) i = Some x -> False.
Proof.
  unfold get, dead. intros H. destruct (nth_error (repeat None n) (N.to_nat i)) as [[v|]|] eqn:E; try discriminate.
  apply nth_error_In in E. apply repeat_spec in E. discriminate.
Qed.
Lemma mk_regs_get id l k g : get (map Some (mk_regs id l)) k = Some g -> g_id g = id + k /\ In g (mk_regs id l).
Proof.
  revert id k. induction l as [|[s len] t IH]; intros id k E; cbn [mk_regs map] in *.
  - unfold get in E. destruct (N.to_nat k); discriminate.
  - unfold get in E. destruct (N.to_nat k) as [|j] eqn:Ek; cbn [nth_error] in E.
    + inversion E; subst. cbn [g_id]. split; [lia|left; reflexivity].
    + assert (E' : get (map Some (mk_regs (id + 1) t)) (k - 1) = Some g).
      { unfold get. replace (N.to_nat (k - 1)) with j by lia. exact E. }
      destruct (IH _ _ E') as [H1 H2]. split; [lia|right; exact H2].
Qed.
Lemma mk_regs_in id l g : In g (mk_regs id l) -> exists k, g_id g = id + k /\ get (map Some (mk_regs id l)) k = Some g.
Proof.
  revert id. induction l as [|[s len] t IH]; intros id H; cbn [mk_regs map] in *; [destruct H|].
  destruct H as [<-|H].
  - exists 0. cbn [g_id]. split; [lia|reflexivity].
  - destruct (IH _ H) as (k & H1 & H2). exists (k + 1). split; [lia|].
    unfold get in *. replace (N.to_nat (k + 1)) with (S (N.to_nat k)) by lia. cbn [nth_error]. exact H2.
Qed.

Lemma step_fromranges m st l : Inv st -> forall o st', m_step m st (OFromRanges l) = (o, st') ->
  ok_step st (OFromRanges l) o = Some st' /\ Inv st'.
Proof.
  intros [Hp Hm] o st' E. cbn [m_step] in E. unfold ok_step.
  assert (Hdead : pool_ok (pool st ++ dead (length l))).
  { intros i g Eg. apply get_app in Eg. destruct Eg as [Eg|[_ Eg]]; [exact (Hp i g Eg)|]. exfalso. exact (get_dead _ _ _ Eg). }
  destruct (collect_ranges mkreg (nlen (pool st)) l) as [L|e] eqn:Ec.
  - destruct (collect_ok _ _ _ Ec) as (EL & Hok & Hx1 & Hx2). rewrite <- EL. rewrite Hx1, Hx2. cbn [andb].
    assert (Hfp : from_pool (pool st ++ map Some L) L = true).
    { unfold from_pool. apply forallb_forall. intros g Hg. rewrite EL in Hg. destruct (mk_regs_in _ _ _ Hg) as (k & Hk1 & Hk2).
      assert (Eg : get (pool st ++ map Some L) (g_id g) = Some g).
      { apply get_app. right. split; [lia|]. rewrite Hk1. replace (nlen (pool st) + k - nlen (pool st)) with k by lia.
        rewrite EL. exact Hk2. }
      rewrite Eg. apply reg_eqb_refl. }
    assert (Hpok : pool_ok (pool st ++ map Some L)).
    { intros i g Eg. apply get_app in Eg. destruct Eg as [Eg|[Hi Eg]]; [exact (Hp i g Eg)|].
      rewrite EL in Eg. destruct (mk_regs_get _ _ _ _ Eg) as [H1 H2]. split; [lia|].
      rewrite Forall_forall in Hok. apply Hok. rewrite EL. exact H2. }
    pose proof (judge_build_ok m (pool st ++ map Some L) L Hok Hfp) as Hj. unfold from_regions in E.
    destruct (from_arc_regions g_s g_l m L) as [[L'|e]| |]; try contradiction; inversion E; subst o st'; clear E.
    + destruct Hj as (-> & Hwf & Hj). cbn [o_intact negb mkobs]. rewrite Hj. cbn [o_code o_regs mkobs]. evalcodes.
      split; [reflexivity|]. split; cbn [pool maps]; [exact Hpok|].
      apply maps_ok_add; [apply maps_ok_pool; exact Hm|]. intros L0 E0. inversion E0; subst. split; assumption.
    + destruct Hj as (Hj & Hc). cbn [o_intact negb mkobs]. rewrite Hj. cbn [o_code o_regs mkobs]. rewrite Hc.
      split; [reflexivity|]. split; cbn [pool maps]; [exact Hdead|].
      apply maps_ok_add; [apply maps_ok_pool; exact Hm|discriminate].
  - destruct (collect_err _ _ _ Ec) as [Hr Hb]. inversion E; subst o st'; clear E.
    cbn [o_intact o_code negb mkobs]. rewrite Hr.
    assert (Hinv : Inv {| pool := pool st ++ dead (length l); maps := maps st ++ [None] |}).
    { split; cbn [pool maps]; [exact Hdead|]. apply maps_ok_add; [apply maps_ok_pool; exact Hm|discriminate]. }
    destruct (existsb (fun sl => end_exceeds (fst sl) (snd sl)) l); [split; [reflexivity|exact Hinv]|].
    cbn [orb] in Hb. rewrite Hb. cbn [andb]. split; [reflexivity|exact Hinv].
Qed.

(* ---------------------------------------------------------------- every constructor route *)
(* what any route of region creation returns: the region asked for, and only when it fits below 2^64 and has
   at least one byte; otherwise InvalidGuestRegion (from GuestRegionMmap::new) or MmapRegion(_) (the mapping step) *)
Lemma region_via_cases {A} (mk : N -> N -> A) base size file :
  match region_from_range_opt mk base size file with
  | Ok g => g = mk base size /\ 1 <= size /\ base + size < W64
  | Err e => (e = EInvalidGuestRegion /\ W64 <= base + size) \/ e = EMmapRegion
  end.
Proof.
  unfold region_from_range_opt.
  assert (Hn : match mmap_region_new size with Ok sz => sz = size /\ 1 <= size | Err e => e = EMmapRegion end).
  { unfold mmap_region_new. destruct (N.eqb_spec size 0); [reflexivity|split; [reflexivity|lia]]. }
  assert (Hm : match (match file with Some (start, flen) => mmap_region_file start flen size
                                 | None => mmap_region_new size end) with
               | Ok sz => sz = size /\ 1 <= size | Err e => e = EMmapRegion end).
  { destruct file as [[start flen]|]; [|exact Hn]. unfold mmap_region_file.
    destruct (checked_add start size); [|reflexivity]. destruct (flen <? n); [reflexivity|exact Hn]. }
  destruct (match file with Some (start, flen) => mmap_region_file start flen size | None => mmap_region_new size end)
    as [sz|e]; [|right; exact Hm].
  destruct Hm as [-> H1]. unfold region_new, checked_add.
  destruct (N.ltb_spec (base + size) W64) as [Hfit|Hno]; [repeat split; assumption|left; split; [reflexivity|exact Hno]].
Qed.

(* ... and every route DOES create the region when the request fits and the operating system grants the
   mapping (no file, or a file that covers the requested range) *)
Lemma region_via_grants {A} (mk : N -> N -> A) base size file :
  1 <= size -> base + size < W64 ->
  match file with Some (start, flen) => start + size <= flen /\ start + size < W64 | None => True end ->
  region_from_range_opt mk base size file = Ok (mk base size).
Proof.
  intros H1 H2 Hf. unfold region_from_range_opt.
  assert (Hn : mmap_region_new size = Ok size).
  { unfold mmap_region_new. destruct (N.eqb_spec size 0); [lia|reflexivity]. }
  assert (Hm : (match file with Some (start, flen) => mmap_region_file start flen size
                              | None => mmap_region_new size end) = Ok size).
  { destruct file as [[start flen]|]; [|exact Hn]. destruct Hf as [Hf1 Hf2]. unfold mmap_region_file, checked_add.
    destruct (N.ltb_spec (start + size) W64); [|lia]. destruct (N.ltb_spec flen (start + size)); [lia|exact Hn]. }
  rewrite Hm. apply region_new_refuses_lemma. exact H2.
Qed.

(* the backing files handed over by the harness cover the requested range: the mapping step of a request with
   such a file decides like the one without *)
Lemma file_step_eq f size :
  match file_of_tag f size with
  | Some (start, flen) => mmap_region_file start flen size
  | None => mmap_region_new size end = mmap_region_new size.
Proof.
  unfold file_of_tag.
  destruct f as [|[p|p|]]; try reflexivity; try (destruct p; reflexivity).
  - (* tag 2 *) destruct p as [p|p|]; try reflexivity.
    destruct (N.leb_spec size 16777216) as [Hs|Hs]; [|reflexivity].
    unfold mmap_region_file, checked_add. rewrite W64_val.
    destruct (N.ltb_spec (65536 + size) 18446744073709551616); [|lia].
    destruct (N.ltb_spec (65536 + size) (65536 + size)); [lia|reflexivity].
  - (* tag 1 *) destruct (N.leb_spec size 16777216) as [Hs|Hs]; [|reflexivity].
    unfold mmap_region_file, checked_add. rewrite W64_val. rewrite N.add_0_l.
    destruct (N.ltb_spec size 18446744073709551616); [|lia].
    destruct (N.ltb_spec size size); [lia|reflexivity].
Qed.
Lemma region_via_eq {A} (mk : N -> N -> A) f base size :
  region_from_range_opt mk base size (file_of_tag f size) = region_from_range mk base size.
Proof. unfold region_from_range_opt, region_from_range. rewrite file_step_eq. reflexivity. Qed.
Lemma collect_files_eq {A} (mk : N -> N -> N -> A) l : forall id,
  collect_ranges_files mk id (with_files l) = collect_ranges mk id (strip_files l).
Proof.
  induction l as [|[[s len] f] t IH]; intros id; [reflexivity|].
  cbn [with_files strip_files map fst snd collect_ranges_files collect_ranges].
  rewrite region_via_eq. fold (with_files t). fold (strip_files t). rewrite IH. reflexivity.
Qed.

Lemma step_newvia m st f base size : Inv st -> forall o st', m_step m st (ONewVia f base size) = (o, st') ->
  ok_step st (ONewVia f base size) o = Some st' /\ Inv st'.
Proof.
  intros Hi o st' E. cbn [m_step] in E. rewrite region_via_eq in E.
  change (ok_step st (ONewVia f base size) o) with (ok_step st (ONew base size) o).
  apply (step_new m st base size Hi). cbn [m_step]. exact E.
Qed.
Lemma step_fromrangesf m st l : Inv st -> forall o st', m_step m st (OFromRangesF l) = (o, st') ->
  ok_step st (OFromRangesF l) o = Some st' /\ Inv st'.
Proof.
  intros Hi o st' E. cbn [m_step] in E. rewrite collect_files_eq in E.
  assert (Hlen : length l = length (strip_files l)) by (unfold strip_files; symmetry; apply map_length).
  rewrite Hlen in E.
  change (ok_step st (OFromRangesF l) o) with (ok_step st (OFromRanges (strip_files l)) o).
  apply (step_fromranges m st (strip_files l) Hi). cbn [m_step]. exact E.
Qed.

(* Prop-level reading for every route: what is created is the region asked for, it has at least one byte and ends
   below 2^64; a request whose end reaches 2^64 is refused by every route *)
Lemma every_route_refuses_lemma (A : Type) (mk : N -> N -> A) base size file :
  (forall g, region_from_range_opt mk base size file = Ok g -> g = mk base size /\ 1 <= size /\ base + size < W64) /\
  (W64 <= base + size -> exists e, region_from_range_opt mk base size file = Err e) /\
  (1 <= size -> base + size < W64 ->
   match file with Some (start, flen) => start + size <= flen /\ start + size < W64 | None => True end ->
   region_from_range_opt mk base size file = Ok (mk base size)).
Proof.
  pose proof (region_via_cases mk base size file) as Hc. split; [|split].
  - intros g E. rewrite E in Hc. exact Hc.
  - intros Hw. destruct (region_from_range_opt mk base size file) as [g|e]; [|exists e; reflexivity].
    destruct Hc as (_ & _ & Hc). lia.
  - apply region_via_grants.
Qed.

Lemma collect_files_spec {A} (rs rl : A -> N) (mk : N -> N -> N -> A)
  (Hmk : forall id b s, rs (mk id b s) = b /\ rl (mk id b s) = s) l : forall id L,
  collect_ranges_files mk id l = Ok L ->
  Forall (region_ok rs rl) L /\ map (fun g => (rs g, rl g)) L = map fst l.
Proof.
  induction l as [|[[s len] fl] t IH]; intros id L E; cbn [collect_ranges_files] in E.
  - inversion E; subst. split; [constructor|reflexivity].
  - pose proof (region_via_cases (mk id) s len fl) as Hc.
    destruct (region_from_range_opt (mk id) s len fl) as [g|e]; [|discriminate].
    destruct Hc as (-> & H1 & H2).
    destruct (collect_ranges_files mk (id + 1) t) as [r|e'] eqn:Er; [|discriminate].
    inversion E; subst; clear E. destruct (IH _ _ Er) as (H3 & H4). destruct (Hmk id s len) as [Hs Hl].
    split.
    + constructor; [|exact H3]. unfold region_ok. rewrite Hs, Hl. lia.
    + cbn [map fst]. rewrite Hs, Hl, H4. reflexivity.
Qed.
(* from_ranges / from_ranges_with_files never get as far as building a map when one range does not fit *)
Lemma ranges_with_files_refuse_lemma (A : Type) (rs rl : A -> N) (mk : N -> N -> N -> A) :
  (forall id b s, rs (mk id b s) = b /\ rl (mk id b s) = s) ->
  forall id l,
  (forall L, collect_ranges_files mk id l = Ok L ->
     Forall (region_ok rs rl) L /\ map (fun g => (rs g, rl g)) L = map fst l) /\
  (forall s len fl, In (s, len, fl) l -> W64 <= s + len \/ len = 0 ->
     exists e, collect_ranges_files mk id l = Err e).
Proof.
  intros Hmk id l. split; [apply collect_files_spec; exact Hmk|].
  intros s len fl Hin Hbad. destruct (collect_ranges_files mk id l) as [L|e] eqn:E; [|exists e; reflexivity].
  exfalso. destruct (collect_files_spec rs rl mk Hmk l id L E) as [Hok Hmap].
  assert (Hi : In (s, len) (map (fun g => (rs g, rl g)) L)).
  { rewrite Hmap. change (s, len) with (fst (s, len, fl)). apply in_map. exact Hin. }
  apply in_map_iff in Hi. destruct Hi as (g & Eg & Hg). rewrite Forall_forall in Hok.
  destruct (Hok g Hg) as [H1 H2]. inversion Eg; subst. lia.
Qed.
(* with the backing files the harness supplies, every route decides like the spelled-out one *)
Lemma routes_agree_lemma (A : Type) (mk : N -> N -> A) (mk3 : N -> N -> N -> A) f base size id l :
  region_from_range_opt mk base size (file_of_tag f size) = region_from_range mk base size /\
  collect_ranges_files mk3 id (with_files l) = collect_ranges mk3 id (strip_files l).
Proof. split; [apply region_via_eq|apply collect_files_eq]. Qed.

(* ---------------------------------------------------------------- objects going away *)
Lemma nth_drop_slot {T} (l : list (option T)) : forall i j,
  nth_error (drop_slot l i) j =
  if Nat.eqb j i then match nth_error l j with Some _ => Some None | None => None end else nth_error l j.
Proof.
  induction l as [|x t IH]; intros i j.
  - cbn [drop_slot]. destruct (Nat.eqb j i); destruct j; reflexivity.
  - destruct i as [|i]; destruct j as [|j]; cbn [drop_slot nth_error Nat.eqb]; try reflexivity; try apply IH.
Qed.
Lemma forget_eq {T} (l : list (option T)) i : forget l i = drop_slot l i.
Proof. revert i. induction l as [|x t IH]; intros [|i]; reflexivity. Qed.
(* dropping the object of slot i: slot i is empty, every other slot holds what it held *)
Lemma drop_leaves_others_intact_lemma (T : Type) (l : list (option T)) (i j : N) :
  get (drop_slot l (N.to_nat i)) i = None /\
  (j <> i -> get (drop_slot l (N.to_nat i)) j = get l j).
Proof.
  unfold get. rewrite !nth_drop_slot. split.
  - rewrite Nat.eqb_refl. destruct (nth_error l (N.to_nat i)); reflexivity.
  - intros H. destruct (Nat.eqb_spec (N.to_nat j) (N.to_nat i)) as [E|E]; [lia|reflexivity].
Qed.
Lemma get_drop_slot {T} (l : list (option T)) i j (x : T) : get (drop_slot l (N.to_nat i)) j = Some x -> get l j = Some x.
Proof.
  destruct (N.eq_dec j i) as [->|H].
  - rewrite (proj1 (drop_leaves_others_intact_lemma T l i i)). discriminate.
  - rewrite (proj2 (drop_leaves_others_intact_lemma T l i j) H). auto.
Qed.
Lemma step_dropmap m st mi : Inv st -> forall o st', m_step m st (ODropMap mi) = (o, st') ->
  ok_step st (ODropMap mi) o = Some st' /\ Inv st'.
Proof.
  intros [Hp Hm] o st' E. cbn [m_step] in E. unfold ok_step.
  destruct (get (maps st) mi) as [L|] eqn:G; inversion E; subst; clear E; cbn [o_intact o_code o_regs mkobs negb]; evalcodes.
  - rewrite forget_eq. split; [reflexivity|]. split; cbn [pool maps]; [exact Hp|].
    intros j L' E'. apply get_drop_slot in E'. exact (Hm j L' E').
  - split; [reflexivity|]. split; assumption.
Qed.
Lemma step_dropremoved m st k : Inv st -> forall o st', m_step m st (ODropRemoved k) = (o, st') ->
  ok_step st (ODropRemoved k) o = Some st' /\ Inv st'.
Proof.
  intros Hi o st' E. cbn [m_step] in E. inversion E; subst. unfold ok_step.
  cbn [o_intact o_code o_regs mkobs negb]. evalcodes. split; [reflexivity|exact Hi].
Qed.

Lemma step_ok m st op : Inv st -> forall o st', m_step m st op = (o, st') -> ok_step st op o = Some st' /\ Inv st'.
Proof.
  destruct op.
  - apply step_new. - apply step_fromarc. - apply step_fromranges. - apply step_insert.
  - apply step_remove. - apply step_find. - apply step_newmap.
  - apply step_newvia. - apply step_fromrangesf. - apply step_dropmap. - apply step_dropremoved.
Qed.
Lemma steps_ok m ops : forall st, Inv st -> ok_steps st ops (m_steps m st ops) = true.
Proof.
  induction ops as [|op t IH]; intros st Hi; [reflexivity|].
  cbn [m_steps]. destruct (m_step m st op) as [o st'] eqn:E. cbn [ok_steps].
  destruct (step_ok m st op Hi o st' E) as [H1 H2]. rewrite H1. apply IH. exact H2.
Qed.
Lemma Inv0 : Inv st0.
Proof.
  split; intros i x E; unfold get, st0 in E; cbn [pool maps] in E; destruct (N.to_nat i); discriminate.
Qed.
(* the implementation model satisfies the executable spec checker on every history *)
Lemma C10_model_ok_lemma c : ok_C10 c (run_C10 c) = true.
Proof. unfold ok_C10, run_C10. apply steps_ok. exact Inv0. Qed.


Lemma final_inv m ops : forall st, Inv st -> Inv (m_final m st ops).
Proof.
  induction ops as [|op t IH]; intros st Hi; [exact Hi|]. cbn [m_final].
  destruct (m_step m st op) as [o st'] eqn:E. cbn [snd]. apply IH.
  exact (proj2 (step_ok m st op Hi o st' E)).
Qed.
(* after ANY history, every map ever produced (all stay alive) is a valid layout made of live handles,
   and every live handle is a creatable region carrying its own slot id *)
Lemma history_valid_lemma m ops :
  (forall j L, get (maps (m_final m st0 ops)) j = Some L ->
     wf_layout g_s g_l L /\ from_pool (pool (m_final m st0 ops)) L = true) /\
  (forall i g, get (pool (m_final m st0 ops)) i = Some g -> g_id g = i /\ region_ok g_s g_l g).
Proof. destruct (final_inv m ops st0 Inv0) as [H1 H2]. split; [exact H2|exact H1]. Qed.
