From Coq Require Import Sorting.Sorted Sorting.Permutation.
From VM Require Import Prelude.MachInt Prelude.Outcome Prelude.Tok Impl.Address Impl.Mmap Spec.C10 Suite.C10.

Section Gen.
Context {A : Type} (rs rl : A -> N).

Lemma region_new_refuses_lemma (mk : N -> N -> A) base size :
  (W64 <= base + size -> region_new mk base size = Err EInvalidGuestRegion) /\
  (base + size < W64 -> region_new mk base size = Ok (mk base size)).
Proof.
  unfold region_new. split; intros H.
  - apply checked_add_None in H. rewrite H. reflexivity.
  - destruct (checked_add base size) as [c|] eqn:E; [reflexivity|].
    apply checked_add_None in E. lia.
Qed.
End Gen.
