(* C10-specific lemmas: the history model against the spec checker, concrete instances. *)
From Coq Require Import Sorting.Sorted Sorting.Permutation.
From VM Require Import Prelude.MachInt Prelude.Outcome Prelude.Tok Impl.Address Impl.Mmap Proofs.Mmap
  Spec.C10 Suite.C10.

(* one-byte overlap and equal starts are refused, adjacency is accepted *)
Lemma insert_boundaries_lemma {A} (rs rl : A -> N) m L r x : wf_layout rs rl L -> region_ok rs rl r -> In x L ->
  (rs r = rs x + rl x - 1 -> insert_region rs rl m L r = Val (Err EMemoryRegionOverlap)) /\
  (rs r + rl r - 1 = rs x -> insert_region rs rl m L r = Val (Err EMemoryRegionOverlap)) /\
  (rs r = rs x -> insert_region rs rl m L r = Val (Err EMemoryRegionOverlap)) /\
  (L = [x] -> (rs r = rs x + rl x \/ rs r + rl r = rs x) ->
     exists L', insert_region rs rl m L r = Val (Ok L') /\ Permutation L' [r; x]).
Proof.
  intros Hw Hr Hx.
  assert (Hxok : region_ok rs rl x). { destruct Hw as (Hok & _). rewrite Forall_forall in Hok. exact (Hok x Hx). }
  destruct Hxok as [Hx1 Hx2]. destruct Hr as [Hr1 Hr2].
  destruct (insert_err_iff_lemma rs rl m L r Hw (conj Hr1 Hr2)) as [He Hk].
  repeat split.
  - intros E. apply He. split; [reflexivity|]. exists x. split; [exact Hx|]. unfold overlaps. lia.
  - intros E. apply He. split; [reflexivity|]. exists x. split; [exact Hx|]. unfold overlaps. lia.
  - intros E. apply He. split; [reflexivity|]. exists x. split; [exact Hx|]. unfold overlaps. lia.
  - intros -> Hadj. destruct Hk as [_ Hk]. destruct Hk as (L' & E).
    + intros y [<-|[]]. unfold overlaps. lia.
    + exists L'. split; [exact E|]. exact (proj2 (insert_ok_lemma rs rl m [x] r L' Hw (conj Hr1 Hr2) E)).
Qed.

Definition stable_sort_spec_lemma2 (A : Type) (rs : A -> N) (l : list A) := @stable_sort_spec_lemma A rs rs l.
