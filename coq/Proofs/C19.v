From VM Require Import Prelude.MachInt Prelude.Outcome Prelude.Tok Impl.Address Spec.C19 Suite.C19.

(* ---------- bit lemma: x & !(2^k - 1) rounds x down to a multiple of 2^k ---------- *)
Lemma land_not_mask x k : x < W64 -> k <= 64 ->
  N.land x (not64 (2 ^ k - 1)) = (x / 2 ^ k) * 2 ^ k.
Proof.
  intros Hx Hk. unfold not64.
  assert (Hones : 2 ^ k - 1 = N.ones k) by (rewrite N.ones_equiv; lia).
  rewrite Hones.
  assert (Hlow : N.ones k = 0 \/ N.log2 (N.ones k) < 64).
  { destruct (N.eq_dec k 0) as [->|Hk0]; [left; reflexivity|right].
    assert (0 < 2 ^ k) by (apply N.neq_0_lt_0, N.pow_nonzero; lia).
    assert (1 < 2 ^ k) by (apply N.pow_gt_1; lia).
    apply N.log2_lt_pow2; [rewrite N.ones_equiv; lia|].
    rewrite N.ones_equiv. assert (2 ^ k <= 2 ^ 64) by (apply N.pow_le_mono_r; lia). lia. }
  replace (W64 - 1 - N.ones k) with (N.lnot (N.ones k) 64).
  2:{ destruct Hlow as [H0|Hl].
      - rewrite H0. rewrite N.lnot_0_l. rewrite N.ones_equiv. rewrite W64_val. reflexivity.
      - rewrite N.lnot_sub_low by exact Hl. rewrite N.ones_equiv. rewrite W64_val. reflexivity. }
  destruct (N.eq_dec x 0) as [->|Hx0].
  { rewrite N.land_0_l. rewrite N.div_0_l by (apply N.pow_nonzero; lia). reflexivity. }
  rewrite <- N.ldiff_land_low.
  2:{ apply N.log2_lt_pow2; [lia|]. rewrite <- W64_eq. exact Hx. }
  rewrite N.ldiff_ones_r. rewrite N.shiftr_div_pow2, N.shiftl_mul_pow2. reflexivity.
Qed.

Lemma is_pow2_spec p : is_pow2 p = true -> exists k, p = 2 ^ k.
Proof.
  destruct p as [|q]; cbn [is_pow2]; [discriminate|]. intros H. apply N.eqb_eq in H.
  exists (N.log2 (N.pos q)). exact H.
Qed.

Lemma pow2_land_pred k : N.land (2 ^ k) (2 ^ k - 1) = 0.
Proof.
  replace (2 ^ k - 1) with (N.ones k) by (rewrite N.ones_equiv; lia).
  apply N.bits_inj_0. intros n. rewrite N.land_spec, N.pow2_bits_eqb.
  destruct (N.eqb_spec k n) as [->|Hne]; [|reflexivity].
  rewrite N.ones_spec_high by lia. reflexivity.
Qed.

Lemma pow2_lt_W64 k : 2 ^ k < W64 -> k < 64.
Proof. intros H. rewrite W64_eq in H. apply N.pow_lt_mono_r_iff in H; lia. Qed.

(* the spec formula really is "the least multiple of p that is >= a" *)
Lemma lm_ge a p : 0 < p -> a <= ((a + p - 1) / p) * p.
Proof.
  intros Hp.
  pose proof (N.div_mod (a + p - 1) p ltac:(lia)) as E.
  pose proof (N.mod_lt (a + p - 1) p ltac:(lia)) as L.
  remember ((a + p - 1) / p) as q. remember ((a + p - 1) mod p) as r. clear Heqq Heqr. nia.
Qed.
Lemma lm_least a p q' : 0 < p -> a <= q' * p -> (a + p - 1) / p <= q'.
Proof.
  intros Hp H.
  pose proof (N.div_mod (a + p - 1) p ltac:(lia)) as E.
  pose proof (N.mod_lt (a + p - 1) p ltac:(lia)) as L.
  remember ((a + p - 1) / p) as q. remember ((a + p - 1) mod p) as r. clear Heqq Heqr.
  destruct (N.le_gt_cases q q') as [H1|H1]; [exact H1|exfalso].
  assert (q' + 1 <= q) by lia. assert ((q'+1) * p <= q * p) by (apply N.mul_le_mono_r; lia). nia.
Qed.
Lemma least_multiple_ge_spec a p : 0 < p ->
  let m := least_multiple_ge a p in
  (exists q, m = q * p) /\ a <= m /\ (forall m' q', m' = q' * p -> a <= m' -> m <= m').
Proof.
  intros Hp m. unfold m, least_multiple_ge. split; [eexists; reflexivity|]. split.
  - apply lm_ge; assumption.
  - intros m' q' -> Hle. apply N.mul_le_mono_r. apply lm_least; assumption.
Qed.

(* ---------- checked_align_up computes exactly that ---------- *)
Lemma align_up_model m a k : a < W64 -> 2 ^ k < W64 ->
  a_checked_align_up m a (2 ^ k) =
  Val (if least_multiple_ge a (2 ^ k) <? W64 then Some (least_multiple_ge a (2 ^ k)) else None).
Proof.
  intros Ha Hp. pose proof (pow2_lt_W64 k Hp) as Hk.
  assert (Hpos : 0 < 2 ^ k) by (apply N.neq_0_lt_0, N.pow_nonzero; lia).
  unfold a_checked_align_up. rewrite psub_Val by lia. cbn [bind].
  destruct (N.eqb_spec (2 ^ k) 0) as [E|_]; [lia|]. cbn [negb passert bind].
  rewrite pow2_land_pred. cbn [passert bind]. rewrite N.eqb_refl. cbn [passert bind].
  unfold checked_add, least_multiple_ge.
  replace (a + 2 ^ k - 1) with (a + (2 ^ k - 1)) by lia.
  destruct (N.ltb_spec (a + (2 ^ k - 1)) W64) as [Hlt|Hge].
  - rewrite land_not_mask by lia.
    assert ((a + (2 ^ k - 1)) / 2 ^ k * 2 ^ k <= a + (2 ^ k - 1)).
    { rewrite N.mul_comm. apply N.mul_div_le. lia. }
    destruct (N.ltb_spec ((a + (2 ^ k - 1)) / 2 ^ k * 2 ^ k) W64); [reflexivity|lia].
  - (* a + mask >= 2^64: the least multiple is >= 2^64 as well, because 2^k divides 2^64 *)
    assert (Hdiv : W64 = 2 ^ (64 - k) * 2 ^ k).
    { rewrite <- N.pow_add_r. replace (64 - k + k) with 64 by lia. apply W64_eq. }
    assert (2 ^ (64 - k) <= (a + (2 ^ k - 1)) / 2 ^ k).
    { apply N.div_le_lower_bound; [lia|]. rewrite N.mul_comm, <- Hdiv. exact Hge. }
    destruct (N.ltb_spec ((a + (2 ^ k - 1)) / 2 ^ k * 2 ^ k) W64); [|reflexivity].
    exfalso. nia.
Qed.

(* ---------- the model satisfies the checker, for every input ---------- *)
Lemma compare_code a b : (if a <? b then 0 else if a =? b then 1 else 2) =
                         match a ?= b with Lt => 0 | Eq => 1 | Gt => 2 end.
Proof.
  destruct (N.compare_spec a b) as [->|H|H].
  - rewrite N.ltb_irrefl, N.eqb_refl. reflexivity.
  - destruct (N.ltb_spec a b); [reflexivity|lia].
  - destruct (N.ltb_spec a b); [lia|]. destruct (N.eqb_spec a b); [lia|reflexivity].
Qed.

(* ---------- the comparison surface: every form is the raw-value comparison ---------- *)
Lemma a_lt_ltb a b : a_lt a b = (a <? b).
Proof. unfold a_lt, a_partial_cmp, a_cmp. destruct (N.ltb_spec a b), (N.eqb_spec a b); reflexivity. Qed.
Lemma a_le_leb a b : a_le a b = (a <=? b).
Proof. unfold a_le, a_partial_cmp, a_cmp. destruct (N.ltb_spec a b), (N.eqb_spec a b), (N.leb_spec a b); try lia; reflexivity. Qed.
Lemma a_gt_ltb a b : a_gt a b = (b <? a).
Proof. unfold a_gt, a_partial_cmp, a_cmp. destruct (N.ltb_spec a b), (N.eqb_spec a b), (N.ltb_spec b a); try lia; reflexivity. Qed.
Lemma a_ge_leb a b : a_ge a b = (b <=? a).
Proof. unfold a_ge, a_partial_cmp, a_cmp. destruct (N.ltb_spec a b), (N.eqb_spec a b), (N.leb_spec b a); try lia; reflexivity. Qed.
Lemma a_max_max a b : a_max a b = N.max a b.
Proof. unfold a_max, a_cmp. destruct (N.ltb_spec a b), (N.eqb_spec a b); cbn; lia. Qed.
Lemma a_min_min a b : a_min a b = N.min a b.
Proof. unfold a_min, a_cmp. destruct (N.ltb_spec a b), (N.eqb_spec a b); cbn; lia. Qed.
Lemma a_clamp_val a lo hi : lo <= hi -> a_clamp a lo hi = Val (N.max lo (N.min a hi)).
Proof.
  intros H. unfold a_clamp. rewrite a_le_leb, a_lt_ltb, a_gt_ltb.
  destruct (N.leb_spec lo hi); [|lia]. cbn [passert bind]. f_equal.
  destruct (N.ltb_spec a lo); [lia|]. destruct (N.ltb_spec hi a); lia.
Qed.
Lemma a_clamp_panic a lo hi : hi < lo -> a_clamp a lo hi = Panic 1.
Proof. intros H. unfold a_clamp. rewrite a_le_leb. destruct (N.leb_spec lo hi); [lia|reflexivity]. Qed.
Lemma compare_ltb a b : (match a ?= b with Lt => true | _ => false end) = (a <? b).
Proof. destruct (N.compare_spec a b), (N.ltb_spec a b); try lia; reflexivity. Qed.
Lemma compare_leb a b : (match a ?= b with Gt => false | _ => true end) = (a <=? b).
Proof. destruct (N.compare_spec a b), (N.leb_spec a b); try lia; reflexivity. Qed.
Lemma compare_gtb a b : (match a ?= b with Gt => true | _ => false end) = (b <? a).
Proof. destruct (N.compare_spec a b), (N.ltb_spec b a); try lia; reflexivity. Qed.
Lemma compare_geb a b : (match a ?= b with Lt => false | _ => true end) = (b <=? a).
Proof. destruct (N.compare_spec a b), (N.leb_spec b a); try lia; reflexivity. Qed.
Lemma val_is_refl v : val_is v (of_val v) = true.
Proof. unfold val_is, of_val. cbn [o_kind o_val]. rewrite !N.eqb_refl. reflexivity. Qed.
Lemma val_is_b2n (x : bool) : val_is (b2n x) (of_val (if x then 1 else 0)) = true.
Proof. destruct x; apply val_is_refl. Qed.

Lemma C19_model_ok_lemma c : c_a c < W64 -> c_b c < W64 -> ok_C19 c (run_C19 c) = true.
Proof.
  destruct c as [m op a b cc]; cbn [c_a c_b c_c c_op c_mode]. intros Ha Hb.
  unfold ok_C19, run_C19; cbn [c_a c_b c_c c_op c_mode].
  destruct op.
  - unfold a_checked_add, checked_add, some_if. destruct (a + b <? W64); cbn; rewrite ?N.eqb_refl; reflexivity.
  - unfold a_checked_sub, checked_sub, some_if. destruct (b <=? a); cbn; rewrite ?N.eqb_refl; reflexivity.
  - unfold a_checked_offset_from, checked_sub, some_if. destruct (b <=? a); cbn; rewrite ?N.eqb_refl; reflexivity.
  - unfold a_overflowing_add, overflowing_add. cbn [o_kind o_val o_flag].
    rewrite !N.eqb_refl. cbn [andb].
    destruct (N.ltb_spec (a + b) W64), (N.leb_spec W64 (a + b)); try lia; reflexivity.
  - unfold a_overflowing_sub, overflowing_sub.
    destruct (N.leb_spec b a) as [H|H]; cbn [o_kind o_val o_flag negb].
    + replace (W64 + a - b) with (a - b + 1 * W64) by lia.
      rewrite N.mod_add by (rewrite W64_val; lia). rewrite N.mod_small by lia.
      rewrite !N.eqb_refl. reflexivity.
    + rewrite !N.eqb_refl. reflexivity.
  - destruct (is_pow2 b) eqn:Hp; [|reflexivity].
    destruct (is_pow2_spec b Hp) as [k ->].
    rewrite align_up_model by assumption.
    unfold some_if. destruct (least_multiple_ge a (2 ^ k) <? W64); cbn; rewrite ?N.eqb_refl; reflexivity.
  - cbn. unfold a_mask. rewrite !N.eqb_refl. reflexivity.
  - cbn. unfold a_bitand. rewrite !N.eqb_refl. reflexivity.
  - cbn. unfold a_bitor. rewrite !N.eqb_refl. reflexivity.
  - cbn [of_val o_kind o_val]. unfold a_cmp. rewrite compare_code, !N.eqb_refl. reflexivity.
  - cbn [of_val o_kind o_val]. unfold a_eq.
    destruct (N.eqb_spec a b), (N.eq_dec a b); try contradiction; reflexivity.
  - unfold a_unchecked_add, padd. destruct (N.ltb_spec (a + b) W64).
    + cbn. rewrite N.mod_small by assumption. apply N.eqb_refl.
    + destruct m; cbn; [reflexivity|apply N.eqb_refl].
  - unfold a_unchecked_sub, psub. destruct (N.leb_spec b a).
    + cbn. replace (W64 + a - b) with (a - b + 1 * W64) by lia.
      rewrite N.mod_add by (rewrite W64_val; lia). rewrite N.mod_small by lia. apply N.eqb_refl.
    + destruct m; cbn; [reflexivity|apply N.eqb_refl].
  - unfold a_unchecked_offset_from, psub. destruct (N.leb_spec b a).
    + cbn. replace (W64 + a - b) with (a - b + 1 * W64) by lia.
      rewrite N.mod_add by (rewrite W64_val; lia). rewrite N.mod_small by lia. apply N.eqb_refl.
    + destruct m; cbn; [reflexivity|apply N.eqb_refl].
  - destruct (a_unchecked_align_up m a b); reflexivity.
  - (* partial_cmp *) unfold a_partial_cmp, a_cmp, ord_code. rewrite compare_code. cbn [of_opt]. apply (val_is_refl).
  - rewrite compare_ltb, a_lt_ltb. apply val_is_b2n.
  - rewrite compare_leb, a_le_leb. apply val_is_b2n.
  - rewrite compare_gtb, a_gt_ltb. apply val_is_b2n.
  - rewrite compare_geb, a_ge_leb. apply val_is_b2n.
  - (* != *) unfold a_ne, a_eq. destruct (N.eqb_spec a b), (N.eq_dec a b); try contradiction; reflexivity.
  - rewrite a_max_max. apply val_is_refl.
  - rewrite a_min_min. apply val_is_refl.
  - (* clamp *) destruct (N.leb_spec b cc) as [H|H]; [|reflexivity].
    rewrite a_clamp_val by exact H. apply val_is_refl.
  - (* y == x *) unfold a_eq. destruct (N.eqb_spec b a), (N.eq_dec a b); try congruence; reflexivity.
Qed.

(* ---------- Prop readings, independent of the boolean checker ---------- *)
Lemma checked_add_exact_lemma a b : a < W64 -> b < W64 ->
  (forall c, a_checked_add a b = Some c <-> c = a + b /\ a + b < W64) /\
  (a_checked_add a b = None <-> W64 <= a + b).
Proof. intros _ _. split; [intros c; apply checked_add_Some|apply checked_add_None]. Qed.

Lemma checked_sub_exact_lemma a b :
  (forall c, a_checked_sub a b = Some c <-> Z.of_N c = (Z.of_N a - Z.of_N b)%Z) /\
  (a_checked_sub a b = None <-> (Z.of_N a - Z.of_N b < 0)%Z) /\
  a_checked_offset_from a b = a_checked_sub a b.
Proof.
  split; [|split; [|reflexivity]].
  - intros c. unfold a_checked_sub. rewrite checked_sub_Some. lia.
  - unfold a_checked_sub. rewrite checked_sub_None. lia.
Qed.

Lemma overflowing_add_exact_lemma a b : a < W64 -> b < W64 ->
  let '(v, f) := a_overflowing_add a b in
  Z.of_N v = ((Z.of_N a + Z.of_N b) mod 2 ^ 64)%Z /\ (f = true <-> W64 <= a + b).
Proof.
  intros Ha Hb. unfold a_overflowing_add, overflowing_add. split.
  - rewrite W64_val. rewrite N2Z.inj_mod, N2Z.inj_add. reflexivity.
  - destruct (N.leb_spec W64 (a + b)); split; intros; try discriminate; try lia; reflexivity.
Qed.

Lemma overflowing_sub_exact_lemma a b : a < W64 -> b < W64 ->
  let '(v, f) := a_overflowing_sub a b in
  Z.of_N v = ((Z.of_N a - Z.of_N b) mod 2 ^ 64)%Z /\ (f = true <-> a < b).
Proof.
  intros Ha Hb. unfold a_overflowing_sub, overflowing_sub. rewrite W64_val in *.
  destruct (N.leb_spec b a) as [H|H].
  - split; [|split; intros; [discriminate|lia]].
    rewrite Z.mod_small by lia. lia.
  - split; [|split; intros; [lia|reflexivity]].
    rewrite N2Z.inj_mod. rewrite N2Z.inj_sub by lia. rewrite N2Z.inj_add.
    change (Z.of_N 18446744073709551616) with (2 ^ 64)%Z.
    replace (2 ^ 64 + Z.of_N a - Z.of_N b)%Z with (Z.of_N a - Z.of_N b + 1 * 2 ^ 64)%Z by lia.
    rewrite Z.mod_add by lia. reflexivity.
Qed.

Lemma align_up_least_lemma m a k : a < W64 -> 2 ^ k < W64 ->
  exists r, a_checked_align_up m a (2 ^ k) = Val r /\
  forall c, r = Some c <->
    (c < W64 /\ (exists q, c = q * 2 ^ k) /\ a <= c /\
     forall c' q', c' = q' * 2 ^ k -> a <= c' -> c <= c').
Proof.
  intros Ha Hp. rewrite align_up_model by assumption. eexists; split; [reflexivity|].
  assert (Hpos : 0 < 2 ^ k) by (apply N.neq_0_lt_0, N.pow_nonzero; lia).
  destruct (least_multiple_ge_spec a (2 ^ k) Hpos) as (Hm & Hge & Hleast).
  intros c. destruct (N.ltb_spec (least_multiple_ge a (2 ^ k)) W64) as [Hlt|Hnl]; split.
  - intros E; inversion E; subst. repeat split; assumption.
  - intros (Hc & [q Hq] & Hac & Hmin). f_equal. apply N.le_antisymm.
    + eapply Hleast; eauto.
    + destruct Hm as [q0 Hq0]. eapply Hmin; eauto.
  - discriminate.
  - intros (Hc & [q Hq] & Hac & Hmin). exfalso.
    assert (least_multiple_ge a (2 ^ k) <= c) by (eapply Hleast; eauto). lia.
Qed.

Lemma bit_ops_raw_lemma a b : a_mask a b = N.land a b /\ a_bitand a b = N.land a b /\ a_bitor a b = N.lor a b.
Proof. repeat split. Qed.

Lemma order_raw_lemma a b :
  (a_cmp a b = 0 <-> a < b) /\ (a_cmp a b = 1 <-> a = b) /\ (a_cmp a b = 2 <-> b < a) /\
  (a_eq a b = true <-> a = b).
Proof.
  unfold a_cmp, a_eq. destruct (N.ltb_spec a b), (N.eqb_spec a b); repeat split; intros; try lia; try discriminate; reflexivity.
Qed.

(* ordering and equality follow the raw values: every derived / provided comparison form of the wrappers *)
Lemma ordering_follows_raw_lemma a b :
  a_partial_cmp a b = Some (a_cmp a b) /\
  (a_partial_cmp a b = Some 0 <-> a < b) /\ (a_partial_cmp a b = Some 1 <-> a = b) /\
  (a_partial_cmp a b = Some 2 <-> b < a) /\
  (a_lt a b = true <-> a < b) /\ (a_le a b = true <-> a <= b) /\
  (a_gt a b = true <-> b < a) /\ (a_ge a b = true <-> b <= a) /\
  (a_eq a b = true <-> a = b) /\ (a_ne a b = true <-> a <> b) /\ a_eq a b = a_eq b a /\
  a_max a b = N.max a b /\ a_min a b = N.min a b /\
  (forall hi, b <= hi -> a_clamp a b hi = Val (N.max b (N.min a hi))) /\
  (forall hi, hi < b -> exists s, a_clamp a b hi = Panic s).
Proof.
  split; [reflexivity|].
  assert (C : forall k, a_partial_cmp a b = Some k <-> a_cmp a b = k).
  { intros k. unfold a_partial_cmp. split; [intros E; congruence|intros ->; reflexivity]. }
  destruct (order_raw_lemma a b) as (O0 & O1 & O2 & OE).
  rewrite !C. split; [exact O0|]. split; [exact O1|]. split; [exact O2|].
  rewrite a_lt_ltb, a_le_leb, a_gt_ltb, a_ge_leb, N.ltb_lt, N.leb_le, N.ltb_lt, N.leb_le.
  split; [reflexivity|]. split; [reflexivity|]. split; [reflexivity|]. split; [reflexivity|].
  split; [exact OE|]. split.
  { unfold a_ne, a_eq. destruct (N.eqb_spec a b); cbn; split; intros; try discriminate; try contradiction; auto. }
  split. { unfold a_eq. apply N.eqb_sym. }
  split; [apply a_max_max|]. split; [apply a_min_min|]. split.
  - intros hi H. apply a_clamp_val. exact H.
  - intros hi H. exists 1. apply a_clamp_panic. exact H.
Qed.

(* checked results never depend on the build profile; the checked forms never panic *)
Lemma align_up_mode_indep_lemma a p : a_checked_align_up Debug a p = a_checked_align_up Release a p \/ p = 0.
Proof.
  destruct (N.eq_dec p 0) as [->|Hp]; [right; reflexivity|left].
  unfold a_checked_align_up, psub. destruct (N.leb_spec 1 p); [reflexivity|lia].
Qed.
