(* LINK L3 (C14 <-> C03).
   Impl/IoGuest.v (C14: stream transfers under short I/O, EINTR, errors) contains its OWN
   transcription of GuestMemory::try_access and of the four guest stream methods, over a memory
   representation of its own (one host byte list, regions = windows into it) and a linear
   find_region returning the region.  Impl/Guest.v (C02 / C03) has the transcription the C03
   theorems are about (abstract find returning an index, one byte list per region).

   Part 1 (this section): the two try_access transcriptions are THE SAME FUNCTION: for every
   callback, every fuel, every state, IoGuest.try_access is Guest.try_access instantiated with the
   linear find_region on the layout of the regions, state (stream, host memory), the callback
   re-indexed by region number - up to the source-line numbers carried by Panic (the two files
   cite different revisions of guest_memory.rs) and the error payloads C03 does not model
   (GIo e |-> EIOError).
   Part 2: on in-memory sources / sinks the stream methods coincide (see below). *)
From VM Require Import Prelude.MachInt Prelude.Outcome Prelude.C1314List.
From VM Require Impl.Address Impl.Guest Impl.Io Impl.IoGuest.
From VM Require Proofs.C02 Proofs.C03.

(* outcomes compared up to the Panic site (a diagnostic line number) *)
Definition erase {A} (o : outcome A) : outcome A := match o with Panic _ => Panic 0 | x => x end.

Definition lay (L : list IoGuest.region) : Guest.layout := map (fun r => (IoGuest.g_start r, IoGuest.g_len r)) L.
Definition dregion : IoGuest.region := {| IoGuest.g_start := 0; IoGuest.g_len := 0; IoGuest.g_moff := 0 |}.

(* guest_memory.rs:58-86 error classes: IoGuest keeps the io::ErrorKind, Guest.v does not *)
Definition tr_err (e : IoGuest.gerr) : Guest.gerr :=
  match e with
  | IoGuest.GInvalidGuestAddress => Guest.EInvalidGuestAddress
  | IoGuest.GIo _ => Guest.EIOError
  | IoGuest.GPartialBuffer x c => Guest.EPartialBuffer x c
  | IoGuest.GInvalidBackendAddress => Guest.EInvalidBackendAddress
  | IoGuest.GCallbackOutOfRange => Guest.ECallbackOutOfRange
  | IoGuest.GGuestAddressOverflow => Guest.EGuestAddressOverflow
  end.
Definition tr_res {A} (r : IoGuest.gres A) : Guest.res A :=
  match r with IoGuest.GOk a => inl a | IoGuest.GErr e => inr (tr_err e) end.
Definition trx {X A} (x : X * IoGuest.gres A) : X * Guest.res A := (fst x, tr_res (snd x)).

(* the IoGuest callback (given the region) as a Guest.v callback (given the region's index) *)
Definition cb_of {S} (L : list IoGuest.region) (f : IoGuest.cbT S)
  : (S * list N) -> N -> N -> N -> nat -> outcome ((S * list N) * Guest.res N) :=
  fun sm total len start i => omap trx (f total len start (nth i L dregion) (fst sm) (snd sm)).

Lemma to_region_addr_same r a :
  IoGuest.to_region_addr r a = Guest.r_to_region_addr (IoGuest.g_start r) (IoGuest.g_len r) a.
Proof. reflexivity. Qed.

Lemma contains_to_region_addr r a :
  IoGuest.contains r a = match IoGuest.to_region_addr r a with Some _ => true | None => false end.
Proof.
  unfold IoGuest.contains, IoGuest.to_region_addr, checked_sub.
  destruct (IoGuest.g_start r <=? a); cbn [andb]; [|reflexivity].
  destruct (a - IoGuest.g_start r <? IoGuest.g_len r); reflexivity.
Qed.

(* both linear searches pick the same region *)
Lemma find_link L a : forall k,
  match IoGuest.find_region L a, Guest.find_idx (lay L) a k with
  | Some r, Some i => (k <= i)%nat /\ nth_error L (i - k) = Some r
  | None, None => True
  | _, _ => False
  end.
Proof.
  induction L as [|r t IH]; intros k; cbn [IoGuest.find_region find lay map Guest.find_idx]; [exact I|].
  rewrite contains_to_region_addr, to_region_addr_same. cbn [fst snd].
  destruct (Guest.r_to_region_addr (IoGuest.g_start r) (IoGuest.g_len r) a) as [o|].
  - split; [lia|]. rewrite Nat.sub_diag. reflexivity.
  - specialize (IH (S k)). unfold IoGuest.find_region, lay in IH.
    destruct (find (fun r0 => IoGuest.contains r0 a) t) as [r'|];
      destruct (Guest.find_idx (map (fun r0 => (IoGuest.g_start r0, IoGuest.g_len r0)) t) a (S k)) as [i|]; try exact IH.
    destruct IH as [H1 H2]. split; [lia|]. replace (i - k)%nat with (S (i - S k)) by lia. exact H2.
Qed.

Lemma nth_lay L i : nth i (lay L) Guest.dreg = (IoGuest.g_start (nth i L dregion), IoGuest.g_len (nth i L dregion)).
Proof. unfold lay. change Guest.dreg with ((fun r => (IoGuest.g_start r, IoGuest.g_len r)) dregion). apply map_nth. Qed.

Lemma psub_cases md s1 s2 a b :
  (exists v, psub md s1 a b = Val v /\ psub md s2 a b = Val v) \/
  (psub md s1 a b = Panic s1 /\ psub md s2 a b = Panic s2).
Proof. unfold psub. destruct (b <=? a); [left; eauto|]. destruct md; [right; auto|left; eauto]. Qed.

(* THE LINK, part 1 *)
Lemma try_access_same {S} md L count addr (f : IoGuest.cbT S) : forall fuel cur total s m,
  erase (omap trx (IoGuest.try_access md fuel L count addr f cur total s m)) =
  erase (Guest.try_access Guest.find_lin md (lay L) count (cb_of L f) fuel (s, m) cur total).
Proof.
  induction fuel as [|fu IH]; intros cur total s m; [reflexivity|].
  cbn [IoGuest.try_access Guest.try_access].
  pose proof (find_link L cur 0) as HF. unfold Guest.find_lin.
  destruct (IoGuest.find_region L cur) as [r|]; destruct (Guest.find_idx (lay L) cur 0) as [i|]; try contradiction.
  2:{ cbn [omap]. destruct (total =? 0); reflexivity. }
  destruct HF as [_ Hn]. rewrite Nat.sub_0_r in Hn.
  assert (Hr : nth i L dregion = r) by (apply nth_error_nth; exact Hn).
  rewrite nth_lay, Hr. cbn [fst snd]. rewrite to_region_addr_same.
  destruct (Guest.r_to_region_addr (IoGuest.g_start r) (IoGuest.g_len r) cur) as [start|]; [|reflexivity].
  destruct (psub_cases md 512 514 (IoGuest.g_len r) start) as [(cap & -> & ->)|[-> ->]]; [|reflexivity]. cbn [bind].
  destruct (psub_cases md 513 515 count total) as [(rem & -> & ->)|[-> ->]]; [|reflexivity]. cbn [bind].
  unfold cb_of at 1. cbn [fst snd]. rewrite Hr.
  destruct (f total (N.min cap rem) start r s m) as [[[s' m'] rr]|site|]; cbn [omap bind];
    [|reflexivity|reflexivity].
  unfold trx at 2 3. cbn [fst snd].
  destruct rr as [n|e]; cbn [tr_res]; [|reflexivity].
  destruct (n =? 0); [reflexivity|].
  destruct (checked_add total n) as [x|]; [|reflexivity].
  destruct (x <? count).
  - unfold Address.a_overflowing_add. destruct (overflowing_add cur n) as [c ovf]. cbn [fst snd].
    destruct ovf; cbn [negb]; [destruct (c =? 0); reflexivity|]. apply IH.
  - destruct (x =? count); reflexivity.
Qed.

(* corollary in the form used by clients: when either side returns a value so does the other *)
Lemma erase_Val_inv {A} (o1 o2 : outcome A) v : erase o1 = erase o2 -> o2 = Val v -> o1 = Val v.
Proof. intros H ->. destruct o1; cbn in H; congruence. Qed.

(* ------------------------------------------------------------------ Part 2: a data refinement lemma
   for Guest.try_access: running it on concrete states with callback f1 and abstracting the final
   state is the same as running it on the abstract state with callback f2, provided each callback
   invocation (on a region index in range and an in-region start, which is all try_access ever
   passes) commutes with the abstraction and preserves the invariant *)
Section Abs.
Context {St1 St2 : Type} (Inv : St1 -> Prop) (abs : St1 -> St2).
Variable find : Guest.layout -> N -> option nat.
Variable md : mode.
Variable L : Guest.layout.
Variable count : N.
Variable f1 : St1 -> N -> N -> N -> nat -> outcome (St1 * Guest.res N).
Variable f2 : St2 -> N -> N -> N -> nat -> outcome (St2 * Guest.res N).
Definition absx (x : St1 * Guest.res N) : St2 * Guest.res N := (abs (fst x), snd x).
Hypothesis find_range : forall a i, find L a = Some i -> (i < length L)%nat.
Hypothesis cb_commutes : forall s1 total len start i, Inv s1 -> (i < length L)%nat -> start < snd (nth i L Guest.dreg) ->
  omap absx (f1 s1 total len start i) = f2 (abs s1) total len start i /\
  (forall s1' r, f1 s1 total len start i = Val (s1', r) -> Inv s1').

Lemma try_access_abs : forall fuel s1 cur total, Inv s1 ->
  omap absx (Guest.try_access find md L count f1 fuel s1 cur total) =
  Guest.try_access find md L count f2 fuel (abs s1) cur total.
Proof.
  induction fuel as [|fu IH]; intros s1 cur total HI; [reflexivity|].
  cbn [Guest.try_access].
  destruct (find L cur) as [i|] eqn:F; [|reflexivity].
  destruct (Guest.r_to_region_addr (fst (nth i L Guest.dreg)) (snd (nth i L Guest.dreg)) cur) as [start|] eqn:E; [|reflexivity].
  apply Proofs.C02.r_to_region_addr_Some in E. destruct E as (E1 & E2 & E3).
  destruct (psub md 514 (snd (nth i L Guest.dreg)) start) as [cap|site|]; cbn [bind omap]; [|reflexivity|reflexivity].
  destruct (psub md 515 count total) as [rem|site|]; cbn [bind omap]; [|reflexivity|reflexivity].
  assert (Hs : start < snd (nth i L Guest.dreg)) by lia.
  destruct (cb_commutes s1 total (N.min cap rem) start i HI (find_range _ _ F) Hs) as [Hc Hinv].
  rewrite <- Hc. destruct (f1 s1 total (N.min cap rem) start i) as [[s1' r]|site|]; cbn [omap bind]; [|reflexivity|reflexivity].
  unfold absx at 2 3 4 5 6 7 8. cbn [fst snd].
  specialize (Hinv s1' r eq_refl).
  destruct r as [n|e]; [|reflexivity].
  destruct (n =? 0); [reflexivity|].
  destruct (checked_add total n) as [x|]; [|reflexivity].
  destruct (x <? count).
  - destruct (negb (snd (Address.a_overflowing_add cur n))); [apply IH; exact Hinv|].
    destruct (fst (Address.a_overflowing_add cur n) =? 0); reflexivity.
  - destruct (x =? count); reflexivity.
Qed.
End Abs.

(* ------------------------------------------------------------------ Part 3: the stream methods on
   in-memory sources.  IoGuest keeps ONE host byte list with the regions as windows; Guest.v keeps
   one byte list per region.  [M_of L m] is the abstraction; [wfmem] is C14's own
   well-formedness of a guest target (Suite/C14.v wf14, TGuest case). *)
From VM Require Suite.C14 Proofs.C13 Proofs.C14.
Import VM.Impl.Io VM.Impl.IoGuest.

Definition wfmem (L : list region) (m : list N) : Prop :=
  Suite.C14.wf_regions L 0 = true /\ Suite.C14.total_len L = nlen m /\ HBASE + nlen m < W64.

Definition M_of (L : list region) (m : list N) : Guest.mem :=
  map (fun r => {| Guest.rstart := g_start r; Guest.rbytes := mem_read m (g_moff r) (g_len r) |}) L.

Lemma wfmem_in L m r : wfmem L m -> In r L ->
  0 < g_len r /\ g_start r + g_len r < W64 /\ g_moff r + g_len r <= nlen m /\ HBASE + g_moff r + g_len r < W64.
Proof.
  intros (Hw & Ht & Hb) Hin. destruct (Proofs.C14.wf_regions_in L 0 r Hw Hin) as (A & B & _ & D). lia.
Qed.

Lemma nlen_mem_read m off len : off + len <= nlen m -> nlen (mem_read m off len) = len.
Proof. intros H. unfold mem_read. rewrite nlen_ntake, nlen_ndrop. lia. Qed.

Lemma mem_read_nth m off len k :
  nth_error (mem_read m off len) k = if N.of_nat k <? len then nth_error m (N.to_nat off + k) else None.
Proof.
  unfold mem_read, ntake, ndrop. rewrite nth_error_firstn_c, nth_error_skipn_c.
  destruct (Nat.ltb_spec k (N.to_nat len)); destruct (N.ltb_spec (N.of_nat k) len); try reflexivity; lia.
Qed.

(* a write inside a window, seen through that window, is Guest.v's write_at ... *)
Lemma window_write_same m off len st bs : off + len <= nlen m -> st + nlen bs <= len ->
  mem_read (mem_write m (off + st) bs) off len = Guest.write_at (mem_read m off len) (N.to_nat st) bs.
Proof.
  intros H1 H2. apply Proofs.C03.nth_error_ext. intros k.
  rewrite Proofs.C03.write_at_nth, !mem_read_nth.
  assert (Hl : length (mem_read m off len) = N.to_nat len) by (pose proof (nlen_mem_read m off len H1); unfold nlen in *; lia).
  rewrite Hl. unfold nlen in *.
  destruct (N.ltb_spec (N.of_nat k) len) as [Hk|Hk].
  - replace (N.to_nat off + k)%nat with (N.to_nat (off + N.of_nat k)) by lia.
    rewrite mem_write_nth by (unfold nlen; lia). unfold nlen.
    destruct (Nat.leb_spec (N.to_nat st) k); destruct (Nat.ltb_spec k (N.to_nat st + length bs));
      destruct (Nat.ltb_spec k (N.to_nat len)); destruct (N.leb_spec (off + st) (off + N.of_nat k));
      destruct (N.ltb_spec (off + N.of_nat k) (off + st + N.of_nat (length bs))); cbn [andb]; try lia;
      try reflexivity; f_equal; lia.
  - destruct (Nat.leb_spec (N.to_nat st) k); destruct (Nat.ltb_spec k (N.to_nat st + length bs));
      destruct (Nat.ltb_spec k (N.to_nat len)); cbn [andb]; try lia; reflexivity.
Qed.

(* ... and is invisible through a disjoint window *)
Lemma window_write_other m off bs off' len' : off + nlen bs <= nlen m ->
  off' + len' <= off \/ off + nlen bs <= off' ->
  mem_read (mem_write m off bs) off' len' = mem_read m off' len'.
Proof.
  intros H1 Hd. apply Proofs.C03.nth_error_ext. intros k. rewrite !mem_read_nth.
  destruct (N.ltb_spec (N.of_nat k) len') as [Hk|Hk]; [|reflexivity].
  replace (N.to_nat off' + k)%nat with (N.to_nat (off' + N.of_nat k)) by lia.
  rewrite mem_write_nth by exact H1.
  destruct (N.leb_spec off (off' + N.of_nat k)); destruct (N.ltb_spec (off' + N.of_nat k) (off + nlen bs));
    cbn [andb]; try reflexivity; lia.
Qed.

Lemma shape_M_of L m : wfmem L m -> Guest.shape (M_of L m) = lay L.
Proof.
  intros H. unfold Guest.shape, M_of, lay. rewrite map_map. apply map_ext_in. intros r Hin.
  destruct (wfmem_in L m r H Hin) as (_ & _ & Hw & _).
  cbn [Guest.rstart]. f_equal. unfold Guest.rlen, Guest.lenN; cbn [Guest.rbytes].
  exact (nlen_mem_read m (g_moff r) (g_len r) Hw).
Qed.

Lemma nth_M_of L m i : (i < length L)%nat ->
  nth i (M_of L m) Guest.dummy =
  {| Guest.rstart := g_start (nth i L dregion); Guest.rbytes := mem_read m (g_moff (nth i L dregion)) (g_len (nth i L dregion)) |}.
Proof.
  intros Hi. unfold M_of.
  rewrite (nth_indep _ Guest.dummy ((fun r => {| Guest.rstart := g_start r; Guest.rbytes := mem_read m (g_moff r) (g_len r) |}) dregion))
    by (rewrite map_length; exact Hi).
  exact (map_nth (fun r => {| Guest.rstart := g_start r; Guest.rbytes := mem_read m (g_moff r) (g_len r) |}) L dregion i).
Qed.

(* non-empty windows laid out one after the other: equal regions sit at equal positions *)
Lemma wf_regions_nth_inj : forall L mo i j, Suite.C14.wf_regions L mo = true ->
  (i < length L)%nat -> (j < length L)%nat -> nth i L dregion = nth j L dregion -> i = j.
Proof.
  induction L as [|r t IH]; intros mo i j Hwf Hi Hj E; [cbn in Hi; lia|].
  cbn [Suite.C14.wf_regions] in Hwf. rewrite !andb_true_iff in Hwf. destruct Hwf as [[[[A B] C] D] F].
  apply N.ltb_lt in A. apply N.eqb_eq in C.
  destruct i as [|i], j as [|j]; cbn [nth length] in *; [reflexivity| | |].
  - exfalso. assert (Hjn : In (nth j t dregion) t) by (apply nth_In; lia).
    destruct (Proofs.C14.wf_regions_in t _ _ F Hjn) as (_ & _ & G & _). rewrite <- E in G. lia.
  - exfalso. assert (Hin' : In (nth i t dregion) t) by (apply nth_In; lia).
    destruct (Proofs.C14.wf_regions_in t _ _ F Hin') as (_ & _ & G & _). rewrite E in G. lia.
  - f_equal. apply (IH (mo + g_len r) i j F); [lia|lia|exact E].
Qed.

(* writing bs at offset st of region i's window = updating region i of the abstraction *)
Lemma M_of_write L m i st bs : wfmem L m -> (i < length L)%nat -> st + nlen bs <= g_len (nth i L dregion) ->
  M_of L (mem_write m (g_moff (nth i L dregion) + st) bs) =
  Guest.upd_nth (M_of L m) i
    (Guest.set_bytes (nth i (M_of L m) Guest.dummy)
       (Guest.write_at (Guest.rbytes (nth i (M_of L m) Guest.dummy)) (N.to_nat st) bs)).
Proof.
  intros H Hi Hb. set (ri := nth i L dregion) in *.
  assert (Hin : In ri L) by (apply nth_In; exact Hi).
  destruct (wfmem_in L m ri H Hin) as (_ & _ & Hw & _).
  apply Proofs.C03.nth_error_ext. intros j.
  destruct (Nat.ltb_spec j (length L)) as [Hj|Hj].
  2:{ rewrite (proj2 (nth_error_None _ _)) by (unfold M_of; rewrite map_length; exact Hj).
      rewrite (proj2 (nth_error_None _ _)) by (rewrite Proofs.C03.upd_nth_length; unfold M_of; rewrite map_length; exact Hj).
      reflexivity. }
  rewrite (nth_error_nth' _ Guest.dummy) by (unfold M_of; rewrite map_length; exact Hj).
  rewrite (nth_error_nth' _ Guest.dummy) by (rewrite Proofs.C03.upd_nth_length; unfold M_of; rewrite map_length; exact Hj).
  f_equal. rewrite Proofs.C03.nth_upd_nth. rewrite !nth_M_of by assumption.
  destruct (Nat.eqb_spec i j) as [<-|Hne].
  - destruct (Nat.ltb_spec i (length (M_of L m))) as [_|Hbad]; [|unfold M_of in Hbad; rewrite map_length in Hbad; lia].
    fold ri. unfold Guest.set_bytes; cbn [Guest.rstart Guest.rbytes]. f_equal.
    apply window_write_same; assumption.
  - f_equal. set (rj := nth j L dregion).
    assert (Hjn : In rj L) by (apply nth_In; exact Hj).
    destruct H as (Hwf & Ht & Hb0).
    destruct (Proofs.C14.wf_windows L 0 ri rj Hwf Hin Hjn) as [E|D].
    + exfalso. apply Hne. exact (wf_regions_nth_inj L 0 i j Hwf Hi Hj E).
    + apply window_write_other; [lia|]. fold ri. lia.
Qed.

(* an in-memory reader that hands out at most [chunk] bytes of its remaining source [srcof s] per
   call and never fails (what Guest.v's reg_read_volatile_from assumes of its source) *)
Definition chunk_reader {S} (chunk : N) (srcof : S -> list N) (call : callT S) : Prop :=
  forall s m v, vs_len v < W64 ->
    exists s', call s m v =
               Val ((s', mem_write m (vs_off v) (ntake (N.min (N.min (vs_len v) chunk) (nlen (srcof s))) (srcof s))),
                    Ok (N.min (N.min (vs_len v) chunk) (nlen (srcof s)))) /\
               srcof s' = ndrop (N.min (N.min (vs_len v) chunk) (nlen (srcof s))) (srcof s).

(* the real `impl ReadVolatile for &[u8]` (io.rs:268-289, transcribed in Impl/Io.v) is one, with
   an unbounded chunk *)
Lemma slice_is_chunk_reader : chunk_reader W64 slice_rem slice_read_volatile.
Proof.
  intros s m v Hv. rewrite Proofs.C13.slice_read_volatile_val.
  replace (N.min (vs_len v) W64) with (vs_len v) by lia.
  eexists. split; [reflexivity|]. unfold slice_rem, set_pos; cbn [s_pos s_data].
  rewrite ndrop_ndrop. reflexivity.
Qed.

Definition abs_rd {S} (srcof : S -> list N) (L : list region) (sm : S * list N) : Guest.mem * list N :=
  (M_of L (snd sm), srcof (fst sm)).

Lemma erase_omap {A B} (h : A -> B) (o : outcome A) : erase (omap h o) = omap h (erase o).
Proof. destruct o; reflexivity. Qed.
Lemma omap_omap {A B C} (g : B -> C) (h : A -> B) (o : outcome A) : omap g (omap h o) = omap (fun x => g (h x)) o.
Proof. destruct o; reflexivity. Qed.

Lemma find_lin_range L a i : Guest.find_lin L a = Some i -> (i < length L)%nat.
Proof. intros H. pose proof (Proofs.C02.find_lin_spec L a) as S0. rewrite H in S0. exact (proj1 S0). Qed.

Section ReadLink.
Context {S : Type} (chunk : N) (srcof : S -> list N) (call : callT S).
Hypothesis Hcall : chunk_reader chunk srcof call.
Variable L : list region.

Lemma read_cb_commutes fuel (sm : S * list N) total len start i :
  wfmem L (snd sm) -> (i < length (lay L))%nat -> start < snd (nth i (lay L) Guest.dreg) ->
  omap (absx (abs_rd srcof L))
       (cb_of L (fun _ len caddr region s m => region_upto (Datatypes.S fuel) call region caddr s m len) sm total len start i) =
  (fun (ms : Guest.mem * list N) (_ len caddr : N) (i : nat) =>
     let rr := Guest.reg_read_volatile_from (nth i (fst ms) Guest.dummy) caddr chunk (snd ms) len in
     Val ((Guest.upd_nth (fst ms) i (fst (fst rr)), snd (fst rr)), snd rr)) (abs_rd srcof L sm) total len start i /\
  (forall sm' r, cb_of L (fun _ len caddr region s m => region_upto (Datatypes.S fuel) call region caddr s m len) sm total len start i
                 = Val (sm', r) -> wfmem L (snd sm')).
Proof.
  destruct sm as [s m]. cbn [fst snd]. intros Hwf Hi Hs.
  unfold lay in Hi. rewrite map_length in Hi. rewrite nth_lay in Hs. cbn [snd] in Hs.
  set (r := nth i L dregion) in *.
  assert (Hin : In r L) by (apply nth_In; exact Hi).
  destruct (wfmem_in L m r Hwf Hin) as (Hpos & Hend & Hw & Hb).
  unfold cb_of. cbn [fst snd]. fold r.
  unfold region_upto, vs_upto, region_slice, vs_offset. cbn [vs_addr vs_len vs_off].
  assert (E1 : checked_add (HBASE + g_moff r) start = Some (HBASE + g_moff r + start)) by (apply checked_add_Some; split; [reflexivity|lia]).
  assert (E2 : checked_sub (g_len r) start = Some (g_len r - start)) by (apply checked_sub_Some; split; [reflexivity|lia]).
  rewrite E1, E2. unfold vs_subslice. cbn [vs_addr vs_len vs_off].
  set (w := N.min (g_len r - start) len).
  assert (E3 : checked_add 0 w = Some (0 + w)) by (apply checked_add_Some; split; [reflexivity|unfold w; lia]).
  rewrite E3. destruct (N.ltb_spec (g_len r - start) (0 + w)) as [Hbad|_]; [unfold w in Hbad; lia|].
  cbn [retry_eintr].
  set (v := {| vs_addr := HBASE + g_moff r + start + 0; vs_off := g_moff r + start + 0; vs_len := w |}).
  destruct (Hcall s m v) as (s' & Ec & Es); [unfold v; cbn [vs_len]; unfold w; lia|]. rewrite Ec. unfold v in *. cbn [vs_len vs_off] in *.
  set (n := N.min (N.min w chunk) (nlen (srcof s))) in *.
  cbn [bind omap map_err fst snd]. unfold trx, absx, abs_rd. cbn [fst snd tr_res omap].
  assert (Hn : g_moff r + start + nlen (ntake n (srcof s)) <= nlen m) by (rewrite nlen_ntake; unfold n, w; lia).
  split.
  - assert (HL : Guest.lenN (mem_read m (g_moff r) (g_len r)) = g_len r) by exact (nlen_mem_read m (g_moff r) (g_len r) Hw).
    rewrite (nth_M_of L m i Hi). fold r.
    unfold Guest.reg_read_volatile_from, Guest.rlen. cbn [Guest.rbytes]. rewrite !HL.
    destruct (N.ltb_spec (g_len r) start) as [Hbad|_]; [lia|].
    change (Guest.lenN (srcof s)) with (nlen (srcof s)). fold w. fold n. cbn [fst snd].
    rewrite Es, N.add_0_r.
    pose proof (M_of_write L m i start (ntake n (srcof s)) Hwf Hi) as HW. fold r in HW.
    rewrite HW by (rewrite nlen_ntake; unfold n, w; lia).
    rewrite (nth_M_of L m i Hi). fold r. reflexivity.
  - intros sm' r0 Hv. inversion Hv; subst. cbn [snd]. destruct Hwf as (A & B & C).
    rewrite N.add_0_r.
    pose proof (mem_write_length m (g_moff r + start) (ntake n (srcof s)) Hn) as Hl.
    split; [exact A|]. split; rewrite Hl; assumption.
Qed.

(* THE LINK, part 2: read_volatile_from.  IoGuest's transcription (over one host byte list, with
   retry_eintr! and the VolatileSlice offset/subslice checks) run on an in-memory chunked source,
   then abstracted to per-region byte lists, IS Guest.v's gm_read_volatile_from that
   C03_read_volatile_from_refines_flat verifies (same fuel on both sides; sites erased) *)
Lemma read_volatile_from_same md addr s m count : wfmem L m ->
  erase (omap (fun x => (abs_rd srcof L (fst x), tr_res (snd x)))
              (gm_read_volatile_from md (Datatypes.S (Datatypes.S (length L + length (srcof s)))) call L addr s m count)) =
  erase (Guest.gm_read_volatile_from Guest.find_lin md (M_of L m) addr chunk (srcof s) count).
Proof.
  intros Hwf. unfold gm_read_volatile_from, Guest.gm_read_volatile_from.
  set (fuel := Datatypes.S (Datatypes.S (length L + length (srcof s)))).
  rewrite (shape_M_of L m Hwf).
  replace (Datatypes.S (Datatypes.S (length (M_of L m) + length (srcof s)))) with fuel
    by (unfold fuel, M_of; rewrite map_length; reflexivity).
  set (f := fun (_ len caddr : N) (region : region) (s0 : S) (m0 : list N) => region_upto fuel call region caddr s0 m0 len).
  transitivity (erase (omap (absx (abs_rd srcof L)) (omap trx (try_access md fuel L count addr f addr 0 s m)))).
  { rewrite omap_omap. reflexivity. }
  rewrite erase_omap, (try_access_same md L count addr f fuel addr 0 s m), <- erase_omap. f_equal.
  change (M_of L m, srcof s) with (abs_rd srcof L (s, m)).
  apply (try_access_abs (fun sm => wfmem L (snd sm)) (abs_rd srcof L) Guest.find_lin md (lay L) count).
  - apply find_lin_range.
  - intros s1 total len start i HI Hi Hs. unfold f, fuel. apply read_cb_commutes; assumption.
  - exact Hwf.
Qed.
End ReadLink.

(* ------------------------------------------------------------------ the exact form of the read *)
Definition tr_exact (count : N) (r : Guest.res N) : Guest.res unit :=
  match r with
  | inr e => inr e
  | inl n => if n =? count then inl tt else inr (Guest.EPartialBuffer count n)
  end.
Lemma tr_res_exact count (r : gres N) :
  tr_res (match r with
          | GErr e => GErr e
          | GOk res => if res =? count then GOk tt else GErr (GPartialBuffer count res)
          end) = tr_exact count (tr_res r).
Proof. destruct r as [n|e]; cbn; [destruct (n =? count); reflexivity|reflexivity]. Qed.

Lemma erase_bind_eq {A B} (o1 o2 : outcome A) (k : A -> outcome B) :
  erase o1 = erase o2 -> erase (bind o1 k) = erase (bind o2 k).
Proof. destruct o1, o2; cbn; intros H; try discriminate; try reflexivity. inversion H; subst. reflexivity. Qed.

Section ReadExactLink.
Context {S : Type} (chunk : N) (srcof : S -> list N) (call : callT S).
Hypothesis Hcall : chunk_reader chunk srcof call.
Variable L : list region.

(* read_exact_volatile_from (guest_memory.rs:687-704): the same wrapper on both sides *)
Lemma read_exact_volatile_from_same md addr s m count : wfmem L m ->
  erase (omap (fun x => (abs_rd srcof L (fst x), tr_res (snd x)))
              (gm_read_exact_volatile_from md (Datatypes.S (Datatypes.S (length L + length (srcof s)))) call L addr s m count)) =
  erase (Guest.gm_read_exact_volatile_from Guest.find_lin md (M_of L m) addr chunk (srcof s) count).
Proof.
  intros Hwf. unfold gm_read_exact_volatile_from, gm_exact_of, Guest.gm_read_exact_volatile_from.
  pose proof (read_volatile_from_same chunk srcof call Hcall L md addr s m count Hwf) as H.
  rewrite omap_omap.
  set (X := gm_read_volatile_from md (Datatypes.S (Datatypes.S (length L + length (srcof s)))) call L addr s m count) in *.
  set (Y := Guest.gm_read_volatile_from Guest.find_lin md (M_of L m) addr chunk (srcof s) count) in *.
  destruct X as [[sm r]| |]; destruct Y as [[ms r']| |]; cbn in H |- *; try discriminate; try reflexivity.
  inversion H; subst. cbn [fst snd]. rewrite tr_res_exact. reflexivity.
Qed.
End ReadExactLink.

(* ------------------------------------------------------------------ write_volatile_to / write_all_volatile_to
   an in-memory sink that accepts every buffer completely (what Guest.v's
   reg_write_all_volatile_to assumes: dst is a Vec<u8>) *)
Definition all_writer {S} (sinkof : S -> list N) (call : callT S) : Prop :=
  forall s m v, exists s', call s m v = Val ((s', m), Ok (vs_len v)) /\
                           sinkof s' = sinkof s ++ mem_read m (vs_off v) (vs_len v).

(* the real `impl WriteVolatile for Vec<u8>` (io.rs:309-335, Impl/Io.v) is one in builds without
   overflow checks; with them it additionally panics when the Vec would reach 2^64 bytes *)
Lemma vec_is_all_writer : all_writer s_data (vec_write_volatile Release).
Proof.
  intros s m v. unfold vec_write_volatile, copy_from_volatile_slice, passert, padd.
  rewrite N.eqb_refl. cbn [bind].
  destruct (nlen (s_data s) + vs_len v <? W64); cbn [bind]; eexists; split; reflexivity.
Qed.

Lemma window_read m off glen st len : off + glen <= nlen m -> st + len <= glen ->
  mem_read m (off + st) len = firstn (N.to_nat len) (skipn (N.to_nat st) (mem_read m off glen)).
Proof.
  intros H1 H2. apply Proofs.C03.nth_error_ext. intros k.
  rewrite nth_error_firstn_c, nth_error_skipn_c, !mem_read_nth.
  destruct (Nat.ltb_spec k (N.to_nat len)); destruct (N.ltb_spec (N.of_nat k) len); try lia; [|reflexivity].
  destruct (N.ltb_spec (N.of_nat (N.to_nat st + k)) glen); [|lia]. f_equal. lia.
Qed.

Section WriteLink.
Context {S : Type} (sinkof : S -> list N) (call : callT S).
Hypothesis Hcall : all_writer sinkof call.
Variable L : list region.
Variable m : list N.
Hypothesis Hwf : wfmem L m.

Definition io_wr_cb (fuel : nat) : cbT S := fun _ len caddr region s0 m0 =>
  omap (fun x => (fst x, match snd x with GOk _ => GOk len | GErr e => GErr e end))
       (region_exact EWriteZero fuel call region caddr s0 m0 len).

Lemma write_cb_commutes fuel (sm : S * list N) total len start i :
  snd sm = m -> (i < length (lay L))%nat -> start < snd (nth i (lay L) Guest.dreg) ->
  omap (absx (fun sm : S * list N => sinkof (fst sm)))
       (cb_of L (io_wr_cb (Datatypes.S (Datatypes.S fuel))) sm total len start i) =
  (fun (d : list N) (_ len caddr : N) (i : nat) =>
     let wr := Guest.reg_write_all_volatile_to (nth i (M_of L m) Guest.dummy) caddr d len in
     Val (fst wr, match snd wr with inl _ => inl len | inr e => inr e end)) (sinkof (fst sm)) total len start i /\
  (forall sm' r, cb_of L (io_wr_cb (Datatypes.S (Datatypes.S fuel))) sm total len start i = Val (sm', r) -> snd sm' = m).
Proof.
  destruct sm as [s m0]. cbn [fst snd]. intros -> Hi Hs.
  unfold lay in Hi. rewrite map_length in Hi. rewrite nth_lay in Hs. cbn [snd] in Hs.
  set (r := nth i L dregion) in *.
  assert (Hin : In r L) by (apply nth_In; exact Hi).
  destruct (wfmem_in L m r Hwf Hin) as (Hpos & Hend & Hw & Hb).
  assert (HL : Guest.lenN (mem_read m (g_moff r) (g_len r)) = g_len r) by exact (nlen_mem_read m (g_moff r) (g_len r) Hw).
  unfold cb_of, io_wr_cb. cbn [fst snd]. fold r.
  rewrite (nth_M_of L m i Hi). fold r.
  unfold Guest.reg_write_all_volatile_to, Guest.reg_get_slice, Guest.rlen. cbn [Guest.rbytes]. rewrite HL.
  unfold region_exact, vs_exact, region_slice, vs_subslice. cbn [vs_addr vs_len vs_off].
  destruct (checked_add start len) as [e|] eqn:E; [|cbn; split; [reflexivity|intros ? ? Hv; inversion Hv; reflexivity]].
  apply checked_add_Some in E. destruct E as [-> He].
  destruct (N.ltb_spec (g_len r) (start + len)) as [Hbig|Hfit];
    [cbn; split; [reflexivity|intros ? ? Hv; inversion Hv; reflexivity]|].
  unfold exact_volatile, vs_offset. cbn [vs_addr vs_len vs_off].
  assert (E1 : checked_add (HBASE + g_moff r + start) 0 = Some (HBASE + g_moff r + start + 0)) by (apply checked_add_Some; split; [reflexivity|lia]).
  assert (E2 : checked_sub len 0 = Some (len - 0)) by (apply checked_sub_Some; split; [reflexivity|lia]).
  rewrite E1, E2. cbn [exact_loop vs_len].
  destruct (N.eqb_spec (len - 0) 0) as [Hz|Hnz].
  - assert (len = 0) by lia. subst len. cbn. rewrite app_nil_r. split; [reflexivity|intros ? ? Hv; inversion Hv; reflexivity].
  - cbn [retry_eintr].
    set (v := {| vs_addr := HBASE + g_moff r + start + 0; vs_off := g_moff r + start + 0; vs_len := len - 0 |}).
    destruct (Hcall s m v) as (s' & Ec & Es). rewrite Ec. unfold v in *. cbn [vs_len vs_off vs_addr] in *.
    cbn [bind]. destruct (N.eqb_spec (len - 0) 0) as [|_]; [contradiction|].
    unfold vs_offset. cbn [vs_addr vs_len vs_off].
    assert (E3 : checked_add (HBASE + g_moff r + start + 0) (len - 0) = Some (HBASE + g_moff r + start + 0 + (len - 0)))
      by (apply checked_add_Some; split; [reflexivity|lia]).
    assert (E4 : checked_sub (len - 0) (len - 0) = Some (len - 0 - (len - 0))) by (apply checked_sub_Some; split; [reflexivity|lia]).
    rewrite E3, E4. cbn [exact_loop vs_len].
    replace (len - 0 - (len - 0) =? 0) with true by (symmetry; apply N.eqb_eq; lia).
    cbn. split; [|intros ? ? Hv; inversion Hv; reflexivity].
    unfold absx, trx. cbn [fst snd tr_res]. rewrite Es, N.add_0_r, N.sub_0_r.
    rewrite (window_read m (g_moff r) (g_len r) start len Hw Hfit). reflexivity.
Qed.

(* THE LINK, part 3: write_volatile_to *)
Lemma write_volatile_to_same md addr s count :
  erase (omap (fun x => (sinkof (fst (fst x)), tr_res (snd x)))
              (gm_write_volatile_to md (Datatypes.S (length L)) call L addr s m count)) =
  erase (Guest.gm_write_volatile_to Guest.find_lin md (M_of L m) addr (sinkof s) count).
Proof.
  unfold gm_write_volatile_to, Guest.gm_write_volatile_to.
  rewrite (shape_M_of L m Hwf).
  replace (Datatypes.S (length (M_of L m))) with (Datatypes.S (length L)) by (unfold M_of; rewrite map_length; reflexivity).
  fold (io_wr_cb (Datatypes.S (length L))).
  transitivity (erase (omap (absx (fun sm : S * list N => sinkof (fst sm)))
                            (omap trx (try_access md (Datatypes.S (length L)) L count addr (io_wr_cb (Datatypes.S (length L))) addr 0 s m)))).
  { rewrite omap_omap. reflexivity. }
  rewrite erase_omap, (try_access_same md L count addr (io_wr_cb (Datatypes.S (length L))) (Datatypes.S (length L)) addr 0 s m), <- erase_omap.
  f_equal.
  change (sinkof s) with ((fun sm : S * list N => sinkof (fst sm)) (s, m)).
  apply (try_access_abs (fun sm : S * list N => snd sm = m) (fun sm : S * list N => sinkof (fst sm)) Guest.find_lin md (lay L) count).
  - apply find_lin_range.
  - intros s1 total len start i HI Hi Hs.
    assert (Hl : exists f, length L = Datatypes.S f).
    { unfold lay in Hi. rewrite map_length in Hi. destruct (length L); [lia|eauto]. }
    destruct Hl as (f & ->). apply write_cb_commutes; assumption.
  - reflexivity.
Qed.

(* write_all_volatile_to (guest_memory.rs:717-730) *)
Lemma write_all_volatile_to_same md addr s count :
  erase (omap (fun x => (sinkof (fst (fst x)), tr_res (snd x)))
              (gm_write_all_volatile_to md (Datatypes.S (length L)) call L addr s m count)) =
  erase (Guest.gm_write_all_volatile_to Guest.find_lin md (M_of L m) addr (sinkof s) count).
Proof.
  unfold gm_write_all_volatile_to, gm_exact_of, Guest.gm_write_all_volatile_to.
  pose proof (write_volatile_to_same md addr s count) as H.
  rewrite omap_omap.
  set (X := gm_write_volatile_to md (Datatypes.S (length L)) call L addr s m count) in *.
  set (Y := Guest.gm_write_volatile_to Guest.find_lin md (M_of L m) addr (sinkof s) count) in *.
  destruct X as [[sm r]| |]; destruct Y as [[ms r']| |]; cbn in H |- *; try discriminate; try reflexivity.
  inversion H; subst. cbn [fst snd]. rewrite tr_res_exact. reflexivity.
Qed.
End WriteLink.
