(* C07, part 4: regions and guest memory (Impl/Guest.v).  For EVERY implementor of GuestMemory that
   relies on the provided methods (arbitrary find_region meeting its contract under an invariant
   implying wf_layout_gen: regions anywhere in [0, 2^64], also ending exactly at 2^64, at 0, in any
   order), every address and every length:
     - try_access terminates within (regions + 1) iterations and never panics - neither
       `region.len() - start` nor `count - total` underflows - for every callback that returns and
       never answers short, INCLUDING callbacks that over-report;
     - a run that returns with overflow checks returns the same without them;
     - all queries and all Bytes<GuestAddress> accessors return. *)
From VM Require Import Prelude.MachInt Prelude.Outcome Impl.Address Impl.Guest Proofs.C02 Proofs.C03.
From Coq Require Import Arith.

Lemma bind_val {A B} (o : outcome A) (k : A -> outcome B) v :
  bind o k = Val v -> exists a, o = Val a /\ k a = Val v.
Proof. destruct o as [a| |]; cbn [bind]; intros H; [eauto|discriminate|discriminate]. Qed.
Lemma psub_debug_release s a b x : psub Debug s a b = Val x -> psub Release s a b = Val x.
Proof. unfold psub. destruct (b <=? a); [auto|discriminate]. Qed.
Lemma padd_debug_release s a b x : padd Debug s a b = Val x -> padd Release s a b = Val x.
Proof. unfold padd. destruct (a + b <? W64); [auto|discriminate]. Qed.

(* ------------------------------------------------------------------ try_access *)
Section TA.
Variable find : layout -> N -> option nat.
Variable inv : layout -> Prop.
Hypothesis inv_wf : forall L, inv L -> wf_layout_gen L.
Hypothesis find_spec : forall L a, inv L -> a < W64 -> find_ok L a (find L a).
Context {St : Type}.
Variables (L : layout) (count : N).
Variable f : St -> N -> N -> N -> nat -> outcome (St * res N).
Hypothesis HL : inv L.

(* a callback that always returns and never answers short: Ok(0), an error, or at least the
   number of bytes it was asked for (it may claim MORE: over-reporting) *)
Definition never_short : Prop :=
  forall s total len start i, len < W64 -> exists s' r, f s total len start i = Val (s', r) /\
    (forall n, r = inl n -> n = 0 \/ len <= n).

Lemma try_access_ge_total : never_short -> forall m fuel s cur total,
  cur < W64 -> total <= count -> (msr cur L < fuel)%nat ->
  exists v, try_access find m L count f fuel s cur total = Val v.
Proof.
  intros Hf m. induction fuel as [|fu IH]; intros s cur total Hcur Htot Hfuel; [lia|].
  cbn [try_access].
  destruct (find L cur) as [i|] eqn:F; [|eexists; reflexivity].
  pose proof (proj1 (find_Some_iff find inv inv_wf find_spec L cur i HL Hcur) F) as [Hi Hr].
  set (p := nth i L dreg) in *.
  destruct (proj1 (inv_wf L HL) p (nth_In L dreg Hi)) as (Hpos & Hu64 & Hend).
  rewrite (r_to_region_addr_in p cur Hr). unfold In_reg in Hr.
  rewrite psub_Val by lia. cbn [bind]. rewrite psub_Val by lia. cbn [bind].
  set (len := N.min (snd p - (cur - fst p)) (count - total)).
  destruct (Hf s total len (cur - fst p) i ltac:(unfold len; lia)) as (s' & r & E & Hn). rewrite E. cbn [bind fst snd].
  destruct r as [n|e]; [|eexists; reflexivity].
  destruct (N.eqb_spec n 0) as [Hn0|Hn0]; [eexists; reflexivity|].
  destruct (checked_add total n) as [x|] eqn:C; [|eexists; reflexivity].
  apply checked_add_Some in C. destruct C as [-> Hx].
  destruct (N.ltb_spec (total + n) count) as [Hlt|Hge].
  - unfold a_overflowing_add, overflowing_add. cbn [fst snd].
    destruct (N.leb_spec W64 (cur + n)) as [Hw|Hnw]; cbn [negb].
    + destruct ((cur + n) mod W64 =? 0); eexists; reflexivity.
    + rewrite N.mod_small by lia.
      destruct (Hn n eq_refl) as [Hz|Hle]; [contradiction|].
      assert (Hcap : snd p - (cur - fst p) <= n) by (unfold len in Hle; lia).
      apply IH; [lia|lia|].
      pose proof (msr_lt L cur (cur + n) i ltac:(lia) Hi) as Hm. fold p in Hm.
      specialize (Hm ltac:(lia)). lia.
  - destruct (total + n =? count); eexists; reflexivity.
Qed.

(* whatever the callback does: if the loop returns in a build with overflow checks, it returns the
   same in a build without (the two subtractions are the only profile-dependent steps) *)
Lemma try_access_debug_release : forall fuel s cur total v,
  try_access find Debug L count f fuel s cur total = Val v ->
  try_access find Release L count f fuel s cur total = Val v.
Proof.
  induction fuel as [|fu IH]; intros s cur total v H; [discriminate|].
  cbn [try_access] in *.
  destruct (find L cur) as [i|]; [|exact H].
  destruct (r_to_region_addr (fst (nth i L dreg)) (snd (nth i L dreg)) cur) as [start|]; [|exact H].
  apply bind_val in H. destruct H as (cap & E1 & H). rewrite (psub_debug_release _ _ _ _ E1). cbn [bind].
  apply bind_val in H. destruct H as (rem & E2 & H). rewrite (psub_debug_release _ _ _ _ E2). cbn [bind].
  apply bind_val in H. destruct H as (sr & E3 & H). rewrite E3. cbn [bind].
  destruct (snd sr) as [n|e]; [|exact H].
  destruct (n =? 0); [exact H|].
  destruct (checked_add total n) as [x|]; [|exact H].
  destruct (x <? count); [|exact H].
  destruct (negb (snd (a_overflowing_add cur n))); [|exact H].
  apply IH. exact H.
Qed.
End TA.

(* ------------------------------------------------------------------ queries *)
Section Q.
Variable find : layout -> N -> option nat.
Variable inv : layout -> Prop.
Hypothesis inv_wf : forall L, inv L -> wf_layout_gen L.
Hypothesis find_spec : forall L a, inv L -> a < W64 -> find_ok L a (find L a).

Lemma check_range_debug_release L base n b :
  gm_check_range find Debug L base n = Val b -> gm_check_range find Release L base n = Val b.
Proof.
  unfold gm_check_range. intros H. apply bind_val in H. destruct H as (sr & E & H).
  rewrite (try_access_debug_release find L n _ _ _ _ _ _ E). exact H.
Qed.

Lemma guest_queries_total_lemma : forall L a n, inv L -> a < W64 -> n < W64 ->
  (exists v, gm_to_region_addr find L a = Val v) /\
  (exists v, gm_get_host_address find L a = Val v) /\
  (exists v, gm_get_slice find L a n = Val v) /\
  (exists b, forall m, gm_check_range find m L a n = Val b) /\
  (exists v, forall m, gm_last_addr m L = Val v).
Proof.
  intros L a n HL Ha Hn.
  split; [eexists; apply (to_region_addr_lemma find inv inv_wf find_spec L a HL Ha)|].
  split; [eexists; apply (host_address_lemma find inv inv_wf find_spec L a HL Ha)|].
  split; [eexists; apply (get_slice_val find inv inv_wf find_spec L a n HL Ha)|].
  split.
  - assert (Hd : exists b, gm_check_range find Debug L a n = Val b).
    { destruct (N.eq_dec n 0) as [->|Hn0].
      - eexists. apply (check_range_zero_lemma find inv inv_wf find_spec Debug L a HL Ha).
      - destruct (check_range_lemma find inv inv_wf find_spec Debug L a n HL Ha Hn ltac:(lia)) as (b & E & _).
        exists b. exact E. }
    destruct Hd as (b & E). exists b. intros [|]; [exact E|apply check_range_debug_release; exact E].
  - exists (maxend L 0). intros m. unfold gm_last_addr. apply last_addr_loop_val.
    exact (proj1 (inv_wf L HL)).
Qed.

End Q.

(* the over-reporting callback of the harness (claims min(len + k, usize::MAX)) never answers short *)
Definition over_cb (k : N) : unit -> N -> N -> N -> nat -> outcome (unit * res N) :=
  fun s _ len _ _ => Val (s, inl (N.min (len + k) (W64 - 1))).
Lemma over_cb_never_short k : never_short (over_cb k).
Proof.
  intros s total len start i Hlen. unfold over_cb. eexists. eexists. split; [reflexivity|].
  intros n E. inversion E; subst. right. lia.
Qed.

(* ------------------------------------------------------------------ Bytes<GuestAddress> *)
Section B.
Variable find : layout -> N -> option nat.
Variable inv : layout -> Prop.
Hypothesis inv_wf : forall L, inv L -> wf_layout_gen L.
Hypothesis find_spec : forall L a, inv L -> a < W64 -> find_ok L a (find L a).

Lemma lenN_zeros n : lenN (repeat 0 (N.to_nat n)) = n.
Proof. unfold lenN. rewrite repeat_length. apply N2Nat.id. Qed.

Lemma guest_bytes_total_lemma : forall m M buf addr, inv (shape M) -> lenN buf < W64 -> addr < W64 ->
  (exists v, gm_write find m M buf addr = Val v) /\ (exists v, gm_read find m M buf addr = Val v) /\
  (exists v, gm_write_slice find m M buf addr = Val v) /\ (exists v, gm_read_slice find m M buf addr = Val v) /\
  (exists v, gm_write_obj find m M buf addr = Val v) /\
  (forall sz, sz < W64 -> exists v, gm_read_obj find m M sz addr = Val v) /\
  (exists v, gm_store find M buf addr = Val v) /\
  (forall sz, exists v, gm_load find M sz addr = Val v).
Proof.
  intros m M buf addr HL Hb Ha.
  destruct (no_fuel_lemma find inv inv_wf find_spec m M buf addr HL Hb Ha) as (H1 & H2 & H3 & H4).
  split; [exact H1|]. split; [exact H2|]. split; [exact H3|]. split; [exact H4|]. split; [exact H3|].
  split.
  - intros sz Hsz. unfold gm_read_obj.
    destruct (no_fuel_lemma find inv inv_wf find_spec m M (repeat 0 (N.to_nat sz)) addr HL
                ltac:(rewrite lenN_zeros; exact Hsz) Ha) as (_ & _ & _ & (v & E)).
    rewrite E. cbn [bind]. eexists; reflexivity.
  - split.
    + unfold gm_store. rewrite (to_region_addr_lemma find inv inv_wf find_spec (shape M) addr HL Ha).
      cbn [bind]. eexists; reflexivity.
    + intros sz. unfold gm_load. rewrite (to_region_addr_lemma find inv inv_wf find_spec (shape M) addr HL Ha).
      cbn [bind]. eexists; reflexivity.
Qed.

(* ... with the same result in both build profiles *)
Lemma guest_bytes_mode_indep_lemma : forall M buf addr, inv (shape M) -> lenN buf < W64 -> addr < W64 ->
  gm_write find Debug M buf addr = gm_write find Release M buf addr /\
  gm_read find Debug M buf addr = gm_read find Release M buf addr /\
  gm_write_slice find Debug M buf addr = gm_write_slice find Release M buf addr /\
  gm_read_slice find Debug M buf addr = gm_read_slice find Release M buf addr.
Proof.
  intros M buf addr HL Hb Ha.
  destruct (no_fuel_lemma find inv inv_wf find_spec Debug M buf addr HL Hb Ha) as ((v1 & E1) & (v2 & E2) & _).
  assert (W : gm_write find Debug M buf addr = gm_write find Release M buf addr).
  { rewrite E1. symmetry. revert E1. unfold gm_write. destruct buf; [auto|]. apply try_access_debug_release. }
  assert (R : gm_read find Debug M buf addr = gm_read find Release M buf addr).
  { rewrite E2. symmetry. revert E2. unfold gm_read. destruct buf; [auto|]. apply try_access_debug_release. }
  split; [exact W|]. split; [exact R|]. unfold gm_write_slice, gm_read_slice. rewrite W, R. split; reflexivity.
Qed.

(* stream transfers with in-memory streams (a source handing out at most chunk >= 1 bytes per call;
   a growable sink): any address, any count *)
Lemma guest_streams_total_lemma : forall m M addr chunk src dst count,
  inv (shape M) -> count < W64 -> addr < W64 -> lenN src < W64 -> 0 < chunk ->
  (exists v, gm_read_volatile_from find m M addr chunk src count = Val v) /\
  (exists v, gm_read_exact_volatile_from find m M addr chunk src count = Val v) /\
  (exists v, gm_write_volatile_to find m M addr dst count = Val v) /\
  (exists v, gm_write_all_volatile_to find m M addr dst count = Val v).
Proof.
  intros m M addr chunk src dst count HL Hc Ha Hs Hch.
  destruct (gm_read_volatile_from_lemma find inv inv_wf find_spec m M addr chunk src count HL Hc Ha Hs Hch)
    as (M' & k & E & _).
  destruct (gm_write_volatile_to_lemma find inv inv_wf find_spec m M addr dst count HL Hc Ha)
    as (d & k' & E' & _).
  split; [eexists; exact E|]. split; [unfold gm_read_exact_volatile_from; rewrite E; eexists; reflexivity|].
  split; [eexists; exact E'|]. unfold gm_write_all_volatile_to. rewrite E'. eexists; reflexivity.
Qed.
End B.

(* the fuel regions + 1 always suffices *)
Lemma try_access_total_lemma : forall (find : layout -> N -> option nat) (inv : layout -> Prop),
  (forall L, inv L -> wf_layout_gen L) ->
  (forall L a, inv L -> a < W64 -> find_ok L a (find L a)) ->
  forall (St : Type) L count (f : St -> N -> N -> N -> nat -> outcome (St * res N)),
  inv L -> never_short f ->
  forall m s cur total, cur < W64 -> total <= count ->
  exists v, try_access find m L count f (S (length L)) s cur total = Val v.
Proof.
  intros find inv inv_wf find_spec St L count f HL Hns m s cur total Hc Ht.
  apply (try_access_ge_total find inv inv_wf find_spec L count f HL Hns m); [exact Hc|exact Ht|].
  pose proof (msr_bound L cur). lia.
Qed.

Lemma try_access_profile_lemma : forall (find : layout -> N -> option nat) (St : Type) L count
  (f : St -> N -> N -> N -> nat -> outcome (St * res N)) fuel s cur total v,
  try_access find Debug L count f fuel s cur total = Val v ->
  try_access find Release L count f fuel s cur total = Val v.
Proof. intros. apply try_access_debug_release. assumption. Qed.
