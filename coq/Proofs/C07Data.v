(* C07, part 2: the data-moving accessors of a container (Impl/VolMem.v).  Bytes::{write, read,
   write_slice, read_slice, write_obj, read_obj} are transcribed as plain functions - the code has
   no panic site and no loop on those paths - so they return by construction, for every address
   and buffer.  The atomic forms (store / load -> get_atomic_ref -> check_alignment) and the typed
   accessors contain assert!s and a subtraction: they return for every offset, in both profiles,
   whenever the alignment is a power of two (align_of always is). *)
From VM Require Import Prelude.MachInt Prelude.Outcome Impl.VolMem.
From VM Require Proofs.C01.

Lemma pow2_ge1 k : 1 <= 2 ^ k.
Proof. assert (2 ^ k <> 0) by (apply N.pow_nonzero; lia). lia. Qed.

Lemma vs_get_slice_size s off cnt sl : vs_get_slice s off cnt = Ok sl -> vs_size sl = cnt.
Proof.
  unfold vs_get_slice, vs_subslice. destruct (compute_end_offset (vs_size s) off cnt); [|discriminate].
  intros E; inversion E; reflexivity.
Qed.

Lemma vs_check_alignment_closed hb s k : exists r, forall m, vs_check_alignment m hb s (2 ^ k) = Val r.
Proof.
  eexists. intros m. unfold vs_check_alignment. pose proof (pow2_ge1 k).
  rewrite psub_Val by lia. cbn [bind].
  assert (E : (match m with Debug => passert 670 (N.land (2 ^ k) (2 ^ k - 1) =? 0) | Release => Val tt end) = Val tt).
  { destruct m; [|reflexivity]. rewrite Proofs.C01.pow2_land_pred. reflexivity. }
  rewrite E. cbn [bind]. reflexivity.
Qed.

Lemma vs_get_atomic_ref_closed hb s k off : exists r, forall m, vs_get_atomic_ref m hb s (2 ^ k) off = Val r.
Proof.
  unfold vs_get_atomic_ref. destruct (vs_get_slice s off (2 ^ k)) as [sl|e] eqn:E.
  - destruct (vs_check_alignment_closed hb sl k) as (r & Er). destruct r as [u|e].
    + exists (Ok (vs_addr sl)). intros m. rewrite Er. cbn [bind].
      rewrite (vs_get_slice_size _ _ _ _ E), N.eqb_refl. reflexivity.
    + exists (Err e). intros m. rewrite Er. reflexivity.
  - exists (Err e). intros m. reflexivity.
Qed.

(* store / load of an AtomicAccess integer (size = alignment = 2^k): every address, both profiles *)
Lemma vs_store_closed_lemma : forall hb h s t v addr k, ty_size t = 2 ^ k ->
  exists r, forall m, vs_store m hb h s t v addr = Val r.
Proof.
  intros hb h s t v addr k Hk. unfold vs_store. rewrite Hk.
  destruct (vs_get_atomic_ref_closed hb s k addr) as (r & E).
  eexists. intros m. rewrite E. cbn [bind]. reflexivity.
Qed.
Lemma vs_load_closed_lemma : forall hb h s t addr k, ty_size t = 2 ^ k ->
  exists r, forall m, vs_load m hb h s t addr = Val r.
Proof.
  intros hb h s t addr k Hk. unfold vs_load. rewrite Hk.
  destruct (vs_get_atomic_ref_closed hb s k addr) as (r & E).
  eexists. intros m. rewrite E. cbn [bind]. reflexivity.
Qed.

(* typed accessors: get_ref (any size, any offset), get_array_ref (any count) never panic; an element
   access panics exactly when the index is out of range *)
Lemma vs_get_ref_total_lemma : forall s size off, exists r, vs_get_ref s size off = Val r.
Proof.
  intros s size off. unfold vs_get_ref. destruct (vs_get_slice s off size) as [sl|e] eqn:E.
  - rewrite (vs_get_slice_size _ _ _ _ E), N.eqb_refl. eexists; reflexivity.
  - eexists; reflexivity.
Qed.
Lemma vs_get_array_ref_total_lemma : forall s size off n, exists r, vs_get_array_ref s size off n = Val r.
Proof.
  intros s size off n. unfold vs_get_array_ref.
  destruct (if n <=? ISZ_MAX then if n * size <=? ISZ_MAX then Some (n * size) else None else None) as [nb|].
  - destruct (vs_get_slice s off nb) as [sl|e] eqn:E.
    + rewrite (vs_get_slice_size _ _ _ _ E), N.eqb_refl. eexists; reflexivity.
    + eexists; reflexivity.
  - eexists; reflexivity.
Qed.
Lemma va_ref_at_panic_iff_lemma : forall m a size index, va_nelem a * size < W64 ->
  (index < va_nelem a -> va_ref_at m a size index = Val (va_addr a + size * index)) /\
  (va_nelem a <= index -> va_ref_at m a size index = Panic 1135).
Proof.
  intros m a size index Hb. unfold va_ref_at. split; intros Hi.
  - destruct (N.ltb_spec index (va_nelem a)); [|lia]. cbn [passert bind].
    rewrite pmul_Val by nia. reflexivity.
  - destruct (N.ltb_spec index (va_nelem a)); [lia|]. reflexivity.
Qed.
Lemma typed_total_lemma : forall s size off n,
  (exists r, vs_get_ref s size off = Val r) /\ (exists r, vs_get_array_ref s size off n = Val r).
Proof. intros. split; [apply vs_get_ref_total_lemma|apply vs_get_array_ref_total_lemma]. Qed.
