(* C15 - lemmas. *)
From VM Require Import Prelude.MachInt Prelude.Outcome Prelude.Tok Impl.MmapBuild Spec.C15 Suite.C15.

Lemma guest_region_new_iff_lemma : forall g b,
  (exists l, guest_region_new g b = (Ok (g, b), l)) <-> b + g_size g < W64.
Proof.
  intros g b. unfold guest_region_new.
  destruct (checked_add b (g_size g)) as [e|] eqn:E.
  - apply checked_add_Some in E. split; [intros _; lia | intros _; eexists; reflexivity].
  - apply checked_add_None in E. split; [intros [l H]; discriminate | intros H; lia].
Qed.
