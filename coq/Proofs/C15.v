(* C15 - lemmas. *)
From VM Require Import Prelude.MachInt Prelude.Outcome Prelude.Tok Impl.MmapBuild Impl.Xen Spec.C15 Suite.C15.

(* ------------------------------------------------------------------ bits *)
Lemma land_pow2_zero f k : N.land f (2 ^ k) = 0 <-> N.testbit f k = false.
Proof.
  split; intro H.
  - assert (H0 : N.testbit (N.land f (2 ^ k)) k = false) by (rewrite H; apply N.bits_0).
    rewrite N.land_spec, N.pow2_bits_true, andb_true_r in H0. exact H0.
  - apply N.bits_inj_0. intro n. rewrite N.land_spec.
    destruct (N.eq_dec k n) as [->|ne].
    + rewrite H. reflexivity.
    + rewrite N.pow2_bits_false by exact ne. apply andb_false_r.
Qed.

Lemma land_mask_mod a k : N.land a (2 ^ k - 1) = a mod 2 ^ k.
Proof. rewrite N.sub_1_r, <- N.ones_equiv. apply N.land_ones. Qed.

Lemma pow2_ge1 k : 1 <= 2 ^ k.
Proof. assert (H : 2 ^ k <> 0) by (apply N.pow_nonzero; discriminate). lia. Qed.

Lemma mm_balance_app a b : mm_balance (a ++ b) = (mm_balance a + mm_balance b)%Z.
Proof.
  induction a as [|e a IH]; cbn [app mm_balance]; [reflexivity|].
  destruct e as [| |s p f fi off [|]|s|c ok|g c i ok|i c]; rewrite ?IH; lia.
Qed.

(* ------------------------------------------------------------------ check_file_offset *)
Lemma check_file_offset_spec o start size :
  (fst (check_file_offset o start size) = Ok tt <-> start + size < W64 /\ start + size <= os_filesize o) /\
  (fst (check_file_offset o start size) = Err InvalidOffsetLength <-> W64 <= start + size) /\
  (fst (check_file_offset o start size) = Err MappingPastEof <->
     start + size < W64 /\ os_filesize o < start + size) /\
  mm_balance (snd (check_file_offset o start size)) = 0%Z.
Proof.
  unfold check_file_offset.
  destruct (checked_add start size) as [e|] eqn:E.
  - apply checked_add_Some in E. destruct E as [-> E].
    destruct (N.ltb_spec (os_filesize o) (start + size)) as [H|H]; cbn [fst snd mm_balance];
      repeat split; intros; try discriminate; try lia; try reflexivity.
    all: try (destruct H0; lia).
  - apply checked_add_None in E. cbn [fst snd mm_balance].
    repeat split; intros; try discriminate; try lia; try reflexivity.
    all: try (destruct H; lia).
Qed.

(* ------------------------------------------------------------------ build *)
Definition safe_request (o : os) (q : req) : Prop :=
  match q_raw q with
  | Some addr => addr mod os_page o = 0
  | None =>
      N.testbit (q_flags q) 4 = false /\
      match q_file q with
      | Some start => start + q_size q < W64 /\ start + q_size q <= os_filesize o
      | None => True end /\
      os_mmap_ok o = true
  end.

Definition request_region (q : req) : region :=
  {| g_addr := q_raw q; g_size := q_size q; g_prot := q_prot q; g_flags := q_flags q;
     g_file := q_file q; g_owned := match q_raw q with None => true | Some _ => false end;
     g_huge := q_huge q |}.

Definition request_mmap (q : req) : ev :=
  EvMmap (q_size q) (q_prot q) (q_flags q) (match q_file q with Some _ => true | None => false end)
         (match q_file q with Some s => s | None => 0 end) true.

Lemma build_raw_spec m o q k addr : os_page o = 2 ^ k -> q_raw q = Some addr ->
  build m o q = if addr mod 2 ^ k =? 0 then Val (Ok (request_region q), []) else Val (Err InvalidPointer, []).
Proof.
  intros Hp Hr. unfold build, build_raw, request_region. rewrite Hr, Hp.
  rewrite psub_Val by apply pow2_ge1. cbn [bind].
  rewrite land_mask_mod. destruct (addr mod 2 ^ k =? 0); reflexivity.
Qed.

Lemma build_ok_iff_lemma : forall m o q k, os_page o = 2 ^ k ->
  (exists l, build m o q = Val (Ok (request_region q), l)) <-> safe_request o q.
Proof.
  intros m o q k Hp. unfold safe_request.
  destruct (q_raw q) as [addr|] eqn:Hr.
  - rewrite (build_raw_spec m o q k addr Hp Hr), Hp.
    destruct (N.eqb_spec (addr mod 2 ^ k) 0) as [E|E]; split.
    + intros _. exact E.
    + intros _. eexists. reflexivity.
    + intros [l H]. discriminate.
    + intros H. contradiction.
  - unfold build, request_region. rewrite Hr.
    change MAP_FIXED with (2 ^ 4).
    destruct (N.eqb_spec (N.land (q_flags q) (2 ^ 4)) 0) as [F|F]; cbn [negb].
    2:{ split; [intros [l H]; discriminate|]. intros [H _]. apply land_pow2_zero in H. contradiction. }
    apply land_pow2_zero in F.
    destruct (q_file q) as [start|] eqn:Hf.
    + pose proof (check_file_offset_spec o start (q_size q)) as [C1 [C2 [C3 _]]].
      destruct (check_file_offset o start (q_size q)) as [[[]|e] l1] eqn:E; cbn [fst] in *.
      * assert (Hok : start + q_size q < W64 /\ start + q_size q <= os_filesize o) by (apply C1; reflexivity).
        destruct (os_mmap_ok o) eqn:M; split.
        -- intros _. repeat split; try assumption; apply Hok.
        -- intros _. eexists. reflexivity.
        -- intros [l H]. discriminate.
        -- intros [_ [_ H]]. discriminate.
      * split; [intros [l H]; discriminate|]. intros [_ [H _]].
        apply C1 in H. discriminate.
    + destruct (os_mmap_ok o) eqn:M; split.
      * intros _. repeat split; assumption.
      * intros _. eexists. reflexivity.
      * intros [l H]. discriminate.
      * intros [_ [_ H]]. discriminate.
Qed.

(* whatever build returns as Ok IS the requested region, and the log ends with the requested mmap *)
Lemma reports_request_lemma : forall m o q g l, build m o q = Val (Ok g, l) ->
  g = request_region q /\
  match q_raw q with
  | Some _ => l = []
  | None => exists l1, l = l1 ++ [request_mmap q] /\ mm_balance l1 = 0%Z
  end.
Proof.
  intros m o q g l. unfold build, build_raw, request_region, request_mmap.
  destruct (q_raw q) as [addr|] eqn:Hr.
  - destruct (psub m 196 (os_page o) 1) as [mask| |]; cbn [bind]; try discriminate.
    destruct (N.land addr mask =? 0); cbn [negb]; intros H; inversion H; subst. split; reflexivity.
  - destruct (negb (N.land (q_flags q) MAP_FIXED =? 0)); [discriminate|].
    destruct (q_file q) as [start|] eqn:Hf.
    + pose proof (check_file_offset_spec o start (q_size q)) as [_ [_ [_ B]]].
      destruct (check_file_offset o start (q_size q)) as [[[]|e] l1]; cbn [snd] in B; [|discriminate].
      destruct (os_mmap_ok o) eqn:M; intros H; inversion H; subst.
      split; [reflexivity|]. exists l1. split; [reflexivity|exact B].
    + destruct (os_mmap_ok o) eqn:M; intros H; inversion H; subst.
      split; [reflexivity|]. exists []. split; reflexivity.
Qed.

Lemma build_fail_maps_nothing : forall m o q e l, build m o q = Val (Err e, l) -> mm_balance l = 0%Z.
Proof.
  intros m o q e l. unfold build, build_raw.
  destruct (q_raw q) as [addr|].
  - destruct (psub m 196 (os_page o) 1) as [mask| |]; cbn [bind]; try discriminate.
    destruct (N.land addr mask =? 0); cbn [negb]; intros H; inversion H; reflexivity.
  - destruct (negb (N.land (q_flags q) MAP_FIXED =? 0)); [intros H; inversion H; reflexivity|].
    destruct (q_file q) as [start|].
    + pose proof (check_file_offset_spec o start (q_size q)) as [_ [_ [_ B]]].
      destruct (check_file_offset o start (q_size q)) as [[[]|e'] l1]; cbn [snd] in B.
      * destruct (os_mmap_ok o); intros H; inversion H; subst.
        rewrite mm_balance_app, B. reflexivity.
      * intros H; inversion H; subst. exact B.
    + destruct (os_mmap_ok o); intros H; inversion H; subst. reflexivity.
Qed.

Lemma build_ok_balance : forall m o q g l, build m o q = Val (Ok g, l) ->
  mm_balance (l ++ drop_region g) = 0%Z.
Proof.
  intros m o q g l H. destruct (reports_request_lemma m o q g l H) as [-> R].
  unfold drop_region, request_region. cbn [g_owned g_size].
  destruct (q_raw q).
  - subst l. reflexivity.
  - destruct R as [l1 [-> B]]. rewrite !mm_balance_app, B. unfold request_mmap. cbn [mm_balance]. lia.
Qed.

Lemma guest_region_new_iff_lemma : forall g b,
  (exists l, guest_region_new g b = (Ok (g, b), l)) <-> b + g_size g < W64.
Proof.
  intros g b. unfold guest_region_new.
  destruct (checked_add b (g_size g)) as [e|] eqn:E.
  - apply checked_add_Some in E. split; [intros _; lia | intros _; eexists; reflexivity].
  - apply checked_add_None in E. split; [intros [l H]; discriminate | intros H; lia].
Qed.

Lemma guest_region_new_cases g b :
  (b + g_size g < W64 /\ guest_region_new g b = (Ok (g, b), [])) \/
  (W64 <= b + g_size g /\ guest_region_new g b = (Err InvalidGuestRegion, drop_region g)).
Proof.
  unfold guest_region_new. destruct (checked_add b (g_size g)) eqn:E.
  - apply checked_add_Some in E. left. split; [lia|reflexivity].
  - apply checked_add_None in E. right. split; [lia|reflexivity].
Qed.

(* from_range: a failed construction leaves nothing mapped, whichever step failed *)
Lemma from_range_fail_maps_nothing : forall m o base size file e l,
  from_range m o base size file = Val (Err e, l) -> mm_balance l = 0%Z.
Proof.
  intros m o base size file e l. unfold from_range, mr_from_file, mr_new.
  set (q := match file with Some start => _ | None => _ end).
  assert (Hq : exists q', q = build m o q').
  { destruct file; eexists; reflexivity. }
  destruct Hq as [q' Hq]. rewrite Hq. clear Hq q.
  destruct (build m o q') as [[[g|e'] l1]| |] eqn:B; cbn [bind]; try discriminate.
  - destruct (guest_region_new_cases g base) as [[_ ->]|[_ ->]]; intros H; inversion H; subst.
    eapply build_ok_balance; eassumption.
  - intros H; inversion H; subst. eapply build_fail_maps_nothing; eassumption.
Qed.

(* ------------------------------------------------------------------ Xen mapping-type flags *)
Definition accepted (w : N) : bool :=
  match from_bits w with Some f => is_valid f | None => false end.

(* bit lemma: a word with no bit outside 0xB is below 16 *)
Lemma ldiff11_small w : N.ldiff w 11 = 0 -> w < 16.
Proof.
  intros H. destruct (N.eq_dec w 0) as [->|nz]; [reflexivity|].
  assert (Hb : N.testbit w (N.log2 w) = true) by (apply N.bit_log2; exact nz).
  assert (Hd : N.testbit (N.ldiff w 11) (N.log2 w) = false) by (rewrite H; apply N.bits_0).
  rewrite N.ldiff_spec, Hb in Hd. cbn [andb] in Hd. apply negb_false_iff in Hd.
  destruct (N.lt_ge_cases (N.log2 w) 4) as [L|G].
  - change 16 with (2 ^ 4). apply N.log2_lt_pow2; [lia|exact L].
  - rewrite N.bits_above_log2 in Hd; [discriminate|].
    replace (N.log2 11) with 3 by reflexivity. lia.
Qed.

Definition sweep16 : list N := map N.of_nat (seq 0 16).
Lemma sweep16_ok :
  forallb (fun w => Bool.eqb (accepted w) (mem w [0; 1; 2; 10])) sweep16 = true.
Proof. vm_compute. reflexivity. Qed.

Lemma mem_iff x l : mem x l = true <-> In x l.
Proof.
  unfold mem. rewrite existsb_exists. split.
  - intros [y [Hy E]]. apply N.eqb_eq in E. subst. exact Hy.
  - intros H. exists x. split; [exact H|apply N.eqb_refl].
Qed.

Lemma xen_flags_valid_iff_lemma : forall w, w < 2 ^ 32 ->
  (accepted w = true <-> w = 0 \/ w = 1 \/ w = 2 \/ w = 10).
Proof.
  intros w _.
  assert (S : w < 16 -> (accepted w = true <-> w = 0 \/ w = 1 \/ w = 2 \/ w = 10)).
  { intros Hw. pose proof sweep16_ok as F. rewrite forallb_forall in F.
    assert (I : In w sweep16).
    { unfold sweep16. apply in_map_iff. exists (N.to_nat w). split; [apply N2Nat.id|].
      apply in_seq. lia. }
    specialize (F w I). apply eqb_prop in F. rewrite F, mem_iff. cbn [In]. intuition. }
  destruct (N.eq_dec (N.ldiff w 11) 0) as [E|E].
  - apply S. apply ldiff11_small. exact E.
  - unfold accepted, from_bits. change XF_KNOWN with 11.
    destruct (N.eqb_spec (N.ldiff w 11) 0) as [E2|E2]; [contradiction|].
    split; [discriminate|].
    intros [-> | [-> | [-> | ->]]]; exfalso; apply E; reflexivity.
Qed.

(* the three back ends partition the accepted words; on-demand = grant with NO_ADVANCE_MAP *)
Lemma xen_dispatch_lemma :
  (is_foreign 1 = true) /\ (is_foreign 0 = false /\ is_grant 0 = false /\ is_unix 0 = true) /\
  (is_foreign 2 = false /\ is_grant 2 = true /\ mmap_in_advance 2 = true) /\
  (is_foreign 10 = false /\ is_grant 10 = true /\ mmap_in_advance 10 = false).
Proof. vm_compute. repeat split. Qed.

Lemma validate_file_iff_lemma : forall f,
  (forall s, validate_file f = Ok s <-> f = Some 0 /\ s = 0) /\
  (validate_file f = Err InvalidFileOffset <-> f = None) /\
  (validate_file f = Err InvalidOffsetLength <-> exists s, f = Some s /\ s <> 0) /\
  (forall e, validate_file f = Err e -> e = InvalidFileOffset \/ e = InvalidOffsetLength).
Proof.
  intros [s0|]; unfold validate_file.
  - destruct (N.eqb_spec s0 0) as [->|ne]; cbn [negb].
    + split; [|split; [|split]].
      * intros s. split; [intros H; inversion H; split; reflexivity | intros [_ ->]; reflexivity].
      * split; discriminate.
      * split; [discriminate|]. intros [s [E ne]]. inversion E. subst. contradiction.
      * intros e H. discriminate.
    + split; [|split; [|split]].
      * intros s. split; [discriminate|]. intros [E _]. inversion E. subst. contradiction.
      * split; discriminate.
      * split; [|reflexivity]. intros _. exists s0. split; [reflexivity|exact ne].
      * intros e H. inversion H. right. reflexivity.
  - split; [|split; [|split]].
    + intros s. split; [discriminate|]. intros [E _]. discriminate.
    + split; reflexivity.
    + split; [discriminate|]. intros [s [E _]]. discriminate.
    + intros e H. inversion H. left. reflexivity.
Qed.

(* ------------------------------------------------------------------ Xen constructors: balance of the effect log *)
Ltac break_match :=
  match goal with
  | |- context [match ?x with _ => _ end] => destruct x eqn:?
  | |- context [if ?x then _ else _] => destruct x eqn:?
  end.
Ltac inv_val :=
  match goal with
  | H : Val _ = Val _ |- _ => inversion H; subst; clear H
  | H : (_, _) = (_, _) |- _ => inversion H; subst; clear H
  | H : Ok _ = Ok _ |- _ => inversion H; subst; clear H
  end.

Definition bal_of {A} (mp : option A) : Z := match mp with Some _ => 1%Z | None => 0%Z end.
Definition res_bal {A} (f : A -> Z) (r : res A) : Z := match r with Ok a => f a | Err _ => 0%Z end.

Lemma mmap_unix_bal o s p f fi off : 
  mm_balance (snd (mmap_unix o s p f fi off)) = res_bal (fun _ => 1%Z) (fst (mmap_unix o s p f fi off)).
Proof. unfold mmap_unix. destruct (os_mmap_ok o); reflexivity. Qed.

Lemma cfo_bal o start size : mm_balance (snd (check_file_offset o start size)) = 0%Z.
Proof. apply check_file_offset_spec. Qed.

Lemma xunix_new_bal o r u l : xunix_new o r = Val (u, l) -> mm_balance l = res_bal bal_of u /\ (forall mp, u = Ok mp -> mp <> None).
Proof.
  unfold xunix_new.
  assert (C : forall st, mm_balance (snd (check_file_offset o st (x_size r))) = 0%Z) by (intros; apply cfo_bal).
  destruct (x_file r) as [st|].
  - specialize (C st). destruct (check_file_offset o st (x_size r)) as [[[]|e] l1]; cbn [snd] in C.
    + destruct (ok_or (x_prot r)) as [p|e]; [|intros H; inv_val; split; [exact C|discriminate]].
      destruct (ok_or (x_flags r)) as [fl|e]; [|intros H; inv_val; split; [exact C|discriminate]].
      pose proof (mmap_unix_bal o (x_size r) p fl true st) as B.
      destruct (mmap_unix o (x_size r) p fl true st) as [[[]|e] l2]; cbn [fst snd res_bal] in B;
        intros H; inv_val; rewrite mm_balance_app, C, B; split; try reflexivity; try discriminate.
      intros mp E. inv_val. discriminate.
    + intros H; inv_val. split; [exact C|discriminate].
  - destruct (ok_or (x_prot r)) as [p|e]; [|intros H; inv_val; split; [reflexivity|discriminate]].
    destruct (ok_or (x_flags r)) as [fl|e]; [|intros H; inv_val; split; [reflexivity|discriminate]].
    pose proof (mmap_unix_bal o (x_size r) p fl false 0) as B.
    destruct (mmap_unix o (x_size r) p fl false 0) as [[[]|e] l2]; cbn [fst snd res_bal] in B;
      intros H; inv_val; cbn [app]; rewrite B; split; try reflexivity; try discriminate.
    intros mp E. inv_val. discriminate.
Qed.

Lemma xforeign_new_bal m o r u l : xforeign_new m o r = Val (u, l) ->
  mm_balance l = res_bal bal_of u /\ (forall mp, u = Ok mp -> mp <> None).
Proof.
  unfold xforeign_new.
  destruct (validate_file (x_file r)) as [foff|e]; [|intros H; inv_val; split; [reflexivity|discriminate]].
  destruct (pages m (os_page o) (x_size r)) as [[count size]| |]; cbn [bind]; try discriminate.
  destruct (ok_or (x_prot r)) as [p|e]; [|intros H; inv_val; split; [reflexivity|discriminate]].
  destruct (ok_or (x_flags r)) as [fl|e]; [|intros H; inv_val; split; [reflexivity|discriminate]].
  pose proof (mmap_unix_bal o size p (N.lor fl MAP_SHARED) true foff) as B.
  destruct (mmap_unix o size p (N.lor fl MAP_SHARED) true foff) as [[[]|e] l1]; cbn [fst snd res_bal] in B.
  - destruct (pdiv 628 (x_addr r) (os_page o)); cbn [bind]; try discriminate.
    destruct (os_ioctl_ok o); intros H; inv_val; rewrite mm_balance_app, B; cbn [mm_balance res_bal bal_of];
      split; try reflexivity; try discriminate.
    intros mp E. inv_val. discriminate.
  - intros H; inv_val. split; [exact B|discriminate].
Qed.

Lemma mmap_range_bal m o fl addr size prot u l : mmap_range m o fl addr size prot = Val (u, l) ->
  mm_balance l = res_bal (fun _ => 1%Z) u.
Proof.
  unfold mmap_range.
  destruct (pages m (os_page o) size) as [[count msize]| |]; cbn [bind]; try discriminate.
  destruct (grant_ref (os_page o) addr) as [gref| |]; cbn [bind]; try discriminate.
  destruct (os_ioctl_ok o && (0 <? count mod 4294967296)).
  - pose proof (mmap_unix_bal o msize prot fl true (dev_index (os_page o) gref)) as B.
    destruct (mmap_unix o msize prot fl true (dev_index (os_page o) gref)) as [[[]|e] l2];
      cbn [fst snd res_bal] in B; intros H; inv_val; cbn [mm_balance res_bal]; exact B.
  - intros H; inv_val. reflexivity.
Qed.

Lemma xgrant_new_bal m o r f u l : xgrant_new m o r f = Val (u, l) -> mm_balance l = res_bal bal_of u.
Proof.
  unfold xgrant_new.
  destruct (validate_file (x_file r)) as [foff|e]; [|intros H; inv_val; reflexivity].
  destruct (ok_or (x_flags r)) as [fl|e]; [|intros H; inv_val; reflexivity].
  destruct (mmap_in_advance f); [|intros H; inv_val; reflexivity].
  destruct (ok_or (x_prot r)) as [p|e]; [|intros H; inv_val; reflexivity].
  destruct (mmap_range m o fl (x_addr r) (x_size r) p) as [[u' l']| |] eqn:R; cbn [bind]; try discriminate.
  apply mmap_range_bal in R.
  destruct u' as [[ms ix]|e]; intros H; inv_val; exact R.
Qed.

Definition xnew_bal (x : N * xkind * option (N * N)) : Z := bal_of (snd x).

Lemma xen_new_bal m o r u l : xen_new m o r = Val (u, l) -> mm_balance l = res_bal xnew_bal u.
Proof.
  unfold xen_new.
  destruct (from_bits (x_mflags r)) as [f|]; [|intros H; inv_val; reflexivity].
  destruct (negb (is_valid f)); [intros H; inv_val; reflexivity|].
  destruct (is_foreign f).
  - destruct (xforeign_new m o r) as [[u' l']| |] eqn:R; cbn [bind]; try discriminate.
    apply xforeign_new_bal in R. destruct R as [R _]. destruct u'; intros H; inv_val; exact R.
  - destruct (is_grant f).
    + destruct (xgrant_new m o r f) as [[u' l']| |] eqn:R; cbn [bind]; try discriminate.
      apply xgrant_new_bal in R. destruct u'; intros H; inv_val; exact R.
    + destruct (xunix_new o r) as [[u' l']| |] eqn:R; cbn [bind]; try discriminate.
      apply xunix_new_bal in R. destruct R as [R _]. destruct u'; intros H; inv_val; exact R.
Qed.

Lemma xen_from_range_bal m o r u l : xen_from_range m o r = Val (u, l) ->
  mm_balance l = res_bal (fun g => bal_of (xr_mapped g)) u.
Proof.
  unfold xen_from_range.
  assert (G : forall flv prv,
    (let* (u0, l0) := xen_new m o {| x_size := x_size r; x_file := x_file r; x_prot := Some prv; x_flags := Some flv;
                                     x_addr := x_addr r; x_mflags := x_mflags r; x_mdata := x_mdata r |} in
     match u0 with
     | Err e => Val (Err e, l0)
     | Ok (f, k, mp) =>
         match ok_or (Some prv), ok_or (Some flv) with
         | Ok p, Ok fl => Val (Ok {| xr_size := x_size r; xr_prot := p; xr_flags := fl; xr_file := x_file r;
                                     xr_mflags := f; xr_mdata := x_mdata r; xr_kind := k; xr_base := x_addr r;
                                     xr_mapped := mp |}, l0)
         | _, _ => Val (Err UnexpectedError, l0)
         end
     end) = Val (u, l) -> mm_balance l = res_bal (fun g => bal_of (xr_mapped g)) u).
  { intros flv prv.
    match goal with |- context [xen_new m o ?r'] => destruct (xen_new m o r') as [[u' l']| |] eqn:R end;
      cbn [bind]; try discriminate.
    apply xen_new_bal in R.
    destruct u' as [[[f k] mp]|e]; cbn [bind ok_or]; intros H; inv_val; exact R. }
  destruct (x_flags r) as [fl|].
  - destruct (negb (N.land fl MAP_FIXED =? 0)); [intros H; inv_val; reflexivity|].
    destruct (x_prot r) as [p|]; apply G.
  - destruct (x_prot r) as [p|]; apply G.
Qed.

Lemma xen_drop_bal m o g ld : xen_drop m o g = Val ld -> mm_balance ld = (- bal_of (xr_mapped g))%Z.
Proof.
  unfold xen_drop. destruct (xr_mapped g) as [[ms ix]|]; [|intros H; inv_val; reflexivity].
  destruct (xr_kind g); try (intros H; inv_val; reflexivity).
  unfold unmap_range. destruct (pages m (os_page o) (xr_size g)) as [[c t]| |]; cbn [bind]; try discriminate.
  intros H; inv_val. reflexivity.
Qed.

(* Xen: a failed construction leaves no memory mapping, and dropping a region releases its own *)
Lemma xen_fail_maps_nothing_lemma : forall m o r e l,
  xen_from_range m o r = Val (Err e, l) -> mm_balance l = 0%Z.
Proof. intros m o r e l H. apply xen_from_range_bal in H. exact H. Qed.

Lemma xen_ok_released_lemma : forall m o r g l ld,
  xen_from_range m o r = Val (Ok g, l) -> xen_drop m o g = Val ld -> mm_balance (l ++ ld) = 0%Z.
Proof.
  intros m o r g l ld H D. apply xen_from_range_bal in H. apply xen_drop_bal in D.
  rewrite mm_balance_app, H, D. cbn [res_bal]. lia.
Qed.

(* observed on the real code (suite C15xenfind): a grant region mapped in advance whose mmap is
   refused after the map ioctl was accepted fails and leaves the grant mapping in the device *)
Lemma xen_grant_leak_witness_lemma :
  let o := {| os_page := 4096; os_filesize := 0; os_mmap_ok := false; os_ioctl_ok := true |} in
  let r := {| x_size := 8192; x_file := Some 0; x_prot := None; x_flags := Some 0; x_addr := 65536;
              x_mflags := 2; x_mdata := 0 |} in
  exists l, xen_from_range Debug o r = Val (Err MmapErr, l) /\ live_after [] l = [(65536, 2)].
Proof. eexists. vm_compute. split; reflexivity. Qed.

(* ------------------------------------------------------------------ the hugetlbfs hint never decides *)
Definition with_huge (q : req) (h : option bool) : req :=
  {| q_size := q_size q; q_prot := q_prot q; q_flags := q_flags q; q_file := q_file q; q_raw := q_raw q;
     q_huge := h |}.
Definition region_with_huge (g : region) (h : option bool) : region :=
  {| g_addr := g_addr g; g_size := g_size g; g_prot := g_prot g; g_flags := g_flags g; g_file := g_file g;
     g_owned := g_owned g; g_huge := h |}.

Lemma build_with_huge m o q h :
  build m o (with_huge q h) =
  match build m o q with
  | Val (Ok g, l) => Val (Ok (region_with_huge g h), l)
  | x => x
  end.
Proof.
  unfold build, build_raw, with_huge, region_with_huge.
  cbn [q_size q_prot q_flags q_file q_raw q_huge].
  destruct (q_raw q) as [addr|].
  - destruct (psub m 196 (os_page o) 1) as [mask| |]; cbn [bind]; try reflexivity.
    destruct (N.land addr mask =? 0); reflexivity.
  - destruct (negb (N.land (q_flags q) MAP_FIXED =? 0)); [reflexivity|].
    destruct (q_file q) as [start|].
    + destruct (check_file_offset o start (q_size q)) as [[[]|e] l1]; [|reflexivity].
      destruct (os_mmap_ok o); reflexivity.
    + destruct (os_mmap_ok o); reflexivity.
Qed.

Lemma hint_never_decides_lemma : forall m o q h,
  (forall e l, build m o q = Val (Err e, l) <-> build m o (with_huge q h) = Val (Err e, l)) /\
  (forall g l, build m o q = Val (Ok g, l) -> build m o (with_huge q h) = Val (Ok (region_with_huge g h), l)) /\
  (forall g' l, build m o (with_huge q h) = Val (Ok g', l) ->
                exists g, build m o q = Val (Ok g, l) /\ g' = region_with_huge g h) /\
  (forall s, build m o q = Panic s <-> build m o (with_huge q h) = Panic s).
Proof.
  intros m o q h. rewrite build_with_huge.
  destruct (build m o q) as [[[g|e] l]| |].
  - split; [intros e' l'; split; discriminate|].
    split; [intros g0 l0 H; inversion H; reflexivity|].
    split; [intros g' l' H; inversion H; subst; exists g; split; reflexivity|].
    intros s; split; discriminate.
  - split; [intros e' l'; split; intros H; exact H|].
    split; [intros g0 l0 H; discriminate|].
    split; [intros g' l' H; discriminate|].
    intros s; split; discriminate.
  - split; [intros e' l'; split; discriminate|].
    split; [intros g0 l0 H; discriminate|].
    split; [intros g' l' H; discriminate|].
    intros s; split; intros H; exact H.
  - split; [intros e' l'; split; discriminate|].
    split; [intros g0 l0 H; discriminate|].
    split; [intros g' l' H; discriminate|].
    intros s; split; discriminate.
Qed.

(* in particular: a file range past EOF (or overflowing) is refused whatever the hint says *)
Lemma hint_past_eof_refused_lemma : forall m o q start h, q_raw q = None -> q_file q = Some start ->
  N.testbit (q_flags q) 4 = false -> q_huge q = h ->
  (start + q_size q < W64 -> os_filesize o < start + q_size q ->
     exists l, build m o q = Val (Err MappingPastEof, l)) /\
  (W64 <= start + q_size q -> exists l, build m o q = Val (Err InvalidOffsetLength, l)).
Proof.
  intros m o q start h Hr Hf Hx _. unfold build. rewrite Hr, Hf.
  change MAP_FIXED with (2 ^ 4).
  destruct (N.eqb_spec (N.land (q_flags q) (2 ^ 4)) 0) as [F|F]; cbn [negb].
  2:{ exfalso. apply F. apply land_pow2_zero. exact Hx. }
  pose proof (check_file_offset_spec o start (q_size q)) as [C1 [C2 [C3 _]]].
  destruct (check_file_offset o start (q_size q)) as [[[]|e] l1] eqn:E; cbn [fst] in *.
  - destruct (proj1 C1 eq_refl) as [A B]. split; intros; lia.
  - split.
    + intros A B. assert (X : Err e = Err MappingPastEof) by (apply C3; split; assumption).
      inversion X; subst. eexists. reflexivity.
    + intros A. assert (X : Err e = Err InvalidOffsetLength) by (apply C2; assumption).
      inversion X; subst. eexists. reflexivity.
Qed.

(* ------------------------------------------------------------------ packaging for Properties/C15.v *)
Lemma reports_request_full_lemma : forall m o q g l, build m o q = Val (Ok g, l) ->
  g_size g = q_size q /\ g_prot g = q_prot q /\ g_flags g = q_flags q /\ g_file g = q_file q /\
  g_addr g = q_raw q /\ g_owned g = (match q_raw q with None => true | Some _ => false end) /\
  g_huge g = q_huge q /\
  match q_raw q with
  | Some _ => l = []
  | None => exists l1, mm_balance l1 = 0%Z /\
      l = l1 ++ [EvMmap (q_size q) (q_prot q) (q_flags q)
                        (match q_file q with Some _ => true | None => false end)
                        (match q_file q with Some s => s | None => 0 end) true]
  end.
Proof.
  intros m o q g l H. destruct (reports_request_lemma m o q g l H) as [-> R].
  unfold request_region. cbn [g_size g_prot g_flags g_file g_addr g_owned g_huge].
  repeat (split; [reflexivity|]).
  destruct (q_raw q); [exact R|]. destruct R as [l1 [E B]]. exists l1. split; [exact B|exact E].
Qed.

Lemma fail_maps_nothing_lemma : forall m o,
  (forall q e l, build m o q = Val (Err e, l) -> mm_balance l = 0%Z) /\
  (forall base size file e l, from_range m o base size file = Val (Err e, l) -> mm_balance l = 0%Z) /\
  (forall q g l, build m o q = Val (Ok g, l) -> mm_balance (l ++ drop_region g) = 0%Z).
Proof.
  intros m o. split; [|split].
  - intros q e l. apply build_fail_maps_nothing.
  - intros base size file e l. apply from_range_fail_maps_nothing.
  - intros q g l. apply build_ok_balance.
Qed.

Lemma xen_fail_maps_nothing_full_lemma : forall m o r,
  (forall e l, xen_from_range m o r = Val (Err e, l) -> mm_balance l = 0%Z) /\
  (forall g l ld, xen_from_range m o r = Val (Ok g, l) -> xen_drop m o g = Val ld ->
                  mm_balance (l ++ ld) = 0%Z).
Proof.
  intros m o r. split.
  - intros e l. apply xen_fail_maps_nothing_lemma.
  - intros g l ld. apply xen_ok_released_lemma.
Qed.

Lemma xen_refuses_early_lemma : forall m o r,
  ((match from_bits (x_mflags r) with Some f => is_valid f | None => false end) = false ->
   (forall fl, x_flags r = Some fl -> N.testbit fl 4 = false) ->
   xen_from_range m o r = Val (Err MmapFlags, [])) /\
  (forall fl, x_flags r = Some fl -> N.testbit fl 4 = true -> xen_from_range m o r = Val (Err MapFixed, [])).
Proof.
  intros m o r. split.
  - intros A F. unfold xen_from_range.
    assert (X : forall r', x_mflags r' = x_mflags r -> xen_new m o r' = Val (Err MmapFlags, [])).
    { intros r' E. unfold xen_new. rewrite E. destruct (from_bits (x_mflags r)) as [f|]; [|reflexivity].
      rewrite A. reflexivity. }
    destruct (x_flags r) as [fl|] eqn:Hf.
    + specialize (F fl eq_refl). change MAP_FIXED with (2 ^ 4).
      apply land_pow2_zero in F. rewrite F. cbn [N.eqb negb]. rewrite N.eqb_refl. cbn [negb].
      rewrite X by reflexivity. reflexivity.
    + rewrite X by reflexivity. reflexivity.
  - intros fl Hf T. unfold xen_from_range. rewrite Hf. change MAP_FIXED with (2 ^ 4).
    destruct (N.eqb_spec (N.land fl (2 ^ 4)) 0) as [E|E]; [|reflexivity].
    apply land_pow2_zero in E. congruence.
Qed.
