(* The implementation model satisfies the executable checkers ok_C05 / ok_C16 on every history
   (ties the boolean checkers, which judge the REAL observations, to the Prop-level theorems). *)
From VM Require Import Prelude.MachInt Prelude.Tok Impl.Dirty Spec.C05 Suite.C05 Proofs.C05 Proofs.C05Order.

Definition view1 (r : region) : list bool :=
  (if r_tracked r then r_dirty r else map (fun _ => false) (r_dirty r)) ++ [false; false].
Definition view (rs : list region) : list (list bool) := map view1 rs.

Lemma nthb_app_l l1 l2 p : p < N.of_nat (length l1) -> nthb (l1 ++ l2) p = nthb l1 p.
Proof.
  intros H. rewrite !nthb_nth_error. rewrite nth_error_app1 by lia. reflexivity.
Qed.
Lemma nthb_ge l p : N.of_nat (length l) <= p -> nthb l p = false.
Proof.
  intros H. rewrite nthb_nth_error. destruct (nth_error l (N.to_nat p)) eqn:E; [|reflexivity].
  assert (N.to_nat p < length l)%nat by (apply nth_error_Some; congruence). lia.
Qed.
Lemma nthb_margin l p : nthb (l ++ [false; false]) p = nthb l p.
Proof.
  destruct (N.lt_ge_cases p (N.of_nat (length l))) as [H|H]; [apply nthb_app_l; exact H|].
  rewrite (nthb_ge l p H). rewrite nthb_nth_error. rewrite nth_error_app2 by lia.
  destruct (N.to_nat p - length l)%nat as [|[|[|k]]]; reflexivity.
Qed.
Lemma nthb_all_false {A} (l : list A) p : nthb (map (fun _ => false) l) p = false.
Proof.
  rewrite nthb_nth_error. destruct (nth_error (map (fun _ : A => false) l) (N.to_nat p)) as [b|] eqn:E; [|reflexivity].
  apply nth_error_In in E. apply in_map_iff in E. destruct E as (? & <- & _). reflexivity.
Qed.

(* the observed page bit of region j *)
Lemma view_D rs j r p : nth_error rs j = Some r -> nthb (view1 r) p = D rs j p.
Proof.
  intros H. unfold view1, D. rewrite H. rewrite nthb_margin.
  destruct (r_tracked r); [reflexivity|]. cbn [andb]. apply nthb_all_false.
Qed.

Lemma indices_spec l p : In p (indices l) <-> p < N.of_nat (length l).
Proof.
  unfold indices. rewrite in_map_iff. split.
  - intros (k & <- & Hk). apply in_seq in Hk. lia.
  - intros H. exists (N.to_nat p). split; [lia|]. apply in_seq. lia.
Qed.

(* ---- zip3all over lists produced pointwise from one region list *)
Lemma zip3all_map (f : rgeom -> list bool -> list bool -> list (N * N) -> bool)
  (rs rs' : list region) (runs : nat -> list (N * N)) :
  length rs' = length rs ->
  (forall j r r', nth_error rs j = Some r -> nth_error rs' j = Some r' ->
      f (geom_of r) (view1 r) (view1 r') (runs j) = true) ->
  forall k, zip3all f (map geom_of rs) (view rs) (view rs') (map runs (seq k (length rs))) = true ->
  True.
Proof. trivial. Qed.

Lemma zip3all_pointwise (f : rgeom -> list bool -> list bool -> list (N * N) -> bool) (runs : nat -> list (N * N)) :
  forall (rs rs' : list region) k, length rs' = length rs ->
  (forall j r r', nth_error rs j = Some r -> nth_error rs' j = Some r' ->
      f (geom_of r) (view1 r) (view1 r') (runs (k + j)%nat) = true) ->
  zip3all f (map geom_of rs) (view rs) (view rs') (map runs (seq k (length rs))) = true.
Proof.
  induction rs as [|r rs IH]; intros [|r' rs'] k Hl H; cbn in Hl; try discriminate; [reflexivity|].
  cbn [map view length seq zip3all]. apply andb_true_iff. split.
  - specialize (H 0%nat r r' eq_refl eq_refl). rewrite Nat.add_0_r in H. exact H.
  - apply IH; [lia|]. intros j x x' Hx Hx'. specialize (H (S j) x x' Hx Hx').
    replace (S k + j)%nat with (k + S j)%nat by lia. exact H.
Qed.

Lemma runs_of_seq n es : runs_of n es =
  map (fun i => flat_map (fun e => if (Nat.eqb (e_r e) i) && (0 <? e_wn e) then [(e_woff e, e_wn e)] else []) es) (seq 0 n).
Proof. reflexivity. Qed.

Lemma in_runs j es o n :
  In (o, n) (flat_map (fun e => if (Nat.eqb (e_r e) j) && (0 <? e_wn e) then [(e_woff e, e_wn e)] else []) es) <->
  exists e, In e es /\ e_r e = j /\ 0 < e_wn e /\ e_woff e = o /\ e_wn e = n.
Proof.
  rewrite in_flat_map. split.
  - intros (e & He & Hi). exists e. destruct (Nat.eqb_spec (e_r e) j); [|destruct Hi].
    destruct (N.ltb_spec 0 (e_wn e)); [|destruct Hi]. cbn in Hi. destruct Hi as [Hi|[]]. inversion Hi; subst. auto.
  - intros (e & He & <- & Hp & <- & <-). exists e. split; [exact He|].
    rewrite Nat.eqb_refl. destruct (N.ltb_spec 0 (e_wn e)); [|lia]. left; reflexivity.
Qed.

Lemma length_apply_effs es : forall rs, length (apply_effs rs es) = length rs.
Proof.
  intros rs. pose proof (geo_apply_effs es rs) as H. apply (f_equal (@length _)) in H. rewrite !map_length in H. exact H.
Qed.

Lemma geom_apply_effs es rs j r r' : nth_error rs j = Some r -> nth_error (apply_effs rs es) j = Some r' ->
  geom_of r' = geom_of r /\ length (r_dirty r') = length (r_dirty r).
Proof.
  intros H H'. pose proof (geo_apply_effs es rs) as G.
  assert (E : option_map geo (nth_error (apply_effs rs es) j) = option_map geo (nth_error rs j)).
  { rewrite <- !nth_error_map. rewrite G. reflexivity. }
  rewrite H, H' in E. cbn in E. unfold geo in E. injection E; intros E5 E4 E3 E2 E1.
  split; [unfold geom_of; congruence|exact E5].
Qed.

Lemma page_of_run ps o n k : 0 < ps -> 0 < n -> o + n <= W64 ->
  (k < N.to_nat ((o + n - 1) / ps - o / ps + 1))%nat -> page_in ps o n (o / ps + N.of_nat k) = true.
Proof.
  intros Hps Hn Hov Hk. unfold page_in, saturating_add.
  replace (N.min (o + (n - 1)) (W64 - 1)) with (o + n - 1) by lia.
  assert (Hle : o / ps <= (o + n - 1) / ps) by (apply N.div_le_mono; lia).
  remember (o / ps) as a. remember ((o + n - 1) / ps) as b. clear Heqa Heqb.
  apply andb_true_iff. split; apply N.leb_le; lia.
Qed.

(* ------------------------------------------------------------------ one non-reset step, C05 *)
Lemma step_ok_C05 hm rs s rs' out : wf rs -> is_reset s = false -> run_step hm rs s = (rs', out) ->
  ok_C05_step (kind_of s) (map geom_of rs) (view rs) (obs_of rs' out) = true.
Proof.
  intros Hwf Hr H. pose proof (late_of_step_zero hm rs s rs' out Hwf H) as Hlate.
  destruct (step_effs hm rs s rs' out Hwf Hr H) as [-> Hok].
  set (es := o_effs out) in *. unfold ok_C05_step, obs_of. cbn [s_dirty s_changed s_late]. fold es. rewrite Hlate.
  assert (X : match kind_of s with KReset => true | _ => 0 =? 0 end = true) by (destruct (kind_of s); reflexivity).
  rewrite X. cbn [andb]. clear X Hlate.
  change (map (fun r => (if r_tracked r then r_dirty r else map (fun _ => false) (r_dirty r)) ++ [false; false]) (apply_effs rs es))
    with (view (apply_effs rs es)).
  rewrite length_apply_effs, runs_of_seq.
  apply (zip3all_pointwise (ok_C05_region (kind_of s)) _ rs (apply_effs rs es) 0%nat (length_apply_effs es rs)).
  intros j r r' Hj Hj'. cbn [Nat.add].
  destruct (geom_apply_effs es rs j r r' Hj Hj') as [Hg Hlen].
  pose proof (region_ok_of_wf rs j r Hwf Hj) as (Hps & Hsz & Hdl).
  unfold ok_C05_region. cbn [geom_of g_tracked g_ps]. destruct (r_tracked r) eqn:Ht; [|reflexivity]. cbn [negb].
  assert (Hk : kind_of s <> KReset) by (destruct s as [? ? []| | | |]; cbn; try discriminate; cbn in Hr; try discriminate; destruct fderr; discriminate).
  destruct (kind_of s) eqn:K; try congruence; clear Hk.
  all: apply andb_true_iff; split.
  all: try (apply forallb_forall; intros p Hp; apply indices_spec in Hp;
            rewrite (view_D rs j r p Hj), (view_D (apply_effs rs es) j r' p Hj');
            destruct (D rs j p) eqn:Dp; [rewrite (effs_monotone rs es j p Dp); reflexivity|reflexivity]).
  all: apply forallb_forall; intros [o n] Hin; apply in_runs in Hin;
       destruct Hin as (e & He & Hej & Hpos & <- & <-);
       unfold run_covered; destruct (N.eqb_spec (e_wn e) 0); [lia|];
       apply forallb_forall; intros k Hk; apply in_seq in Hk;
       rewrite (view_D (apply_effs rs es) j r' _ Hj').
  all: assert (Hex : exists r0, nth_error rs (e_r e) = Some r0 /\ eff_exact r0 e)
         by (unfold effs_ok in Hok; rewrite Forall_forall in Hok; apply Hok; exact He).
  all: destruct Hex as (r0 & Hr0 & Hm & Hb & Hw); rewrite Hej in Hr0; rewrite Hj in Hr0; inversion Hr0; subst r0; clear Hr0.
  all: assert (Hwn : e_wn e <= e_mlen e) by lia.
  all: set (p := e_woff e / r_ps r + N.of_nat k).
  all: assert (Hpi : page_in (r_ps r) (e_woff e) (e_wn e) p = true) by (apply page_of_run; lia).
  all: apply page_in_overlap in Hpi; try lia; destruct Hpi as (i & Hi & Hip).
  all: rewrite <- Hej; rewrite <- Hej in Hj.
  all: destruct (effs_sound rs es Hwf Hok e He r Hj Ht i Hi) as [_ Hd]; rewrite Hip in Hd; exact Hd.
Qed.

(* ------------------------------------------------------------------ one non-reset step, C16 *)
Lemma kind_write_like s : is_reset s = false -> is_fd_error s = false -> kind_of s = KWriteLike.
Proof. destruct s as [? ? []| | | |]; cbn; try reflexivity; try discriminate. destruct fderr; [discriminate|reflexivity]. Qed.
Definition fd_cnt (s : step) : N :=
  match s with SAcc _ _ (OReadFromFd cnt _ _ _) | SAcc _ _ (OReadFromFdFault cnt _ _) => cnt | _ => 0 end.
Lemma kind_fd_error s : is_fd_error s = true -> kind_of s = KFdError (fd_cnt s).
Proof. destruct s as [? ? []| | | |]; cbn; try discriminate; try reflexivity. destruct fderr; [reflexivity|discriminate]. Qed.

Lemma beyond_clean (r' : region) np : length (r_dirty r') = N.to_nat np ->
  forallb (fun p => implb (np <=? p) (negb (nthb (r_dirty r' ++ [false; false]) p))) (indices (r_dirty r' ++ [false; false])) = true.
Proof.
  intros Hl. apply forallb_forall. intros p _. destruct (N.leb_spec np p) as [H|H]; [|reflexivity]. cbn [implb].
  rewrite nthb_margin, nthb_ge by lia. reflexivity.
Qed.

(* a failed descriptor read has at most one effect, and it marks at most the cnt bytes asked for *)
Lemma fd_error_effs hm rs s rs' out : is_fd_error s = true -> run_step hm rs s = (rs', out) ->
  o_effs out = [] \/ exists e, o_effs out = [e] /\ e_mlen e <= fd_cnt s.
Proof.
  intros Hf H. destruct s as [ri ch o| | | |]; try discriminate. cbn [run_step] in H.
  destruct (nth_error rs ri) as [r|]; [|inversion H; left; reflexivity].
  destruct (derive_chain (root r) ch) as [a|]; [|inversion H; left; reflexivity].
  inversion H; subst; clear H. destruct o; try discriminate; cbn [fd_cnt].
  - destruct fderr; [|discriminate]. unfold run_sop. destruct (a_kind a); try (left; reflexivity).
    destruct (checked_sub (a_len a) addr); [|left; reflexivity]. right. eexists. split; [reflexivity|]. cbn. lia.
  - unfold run_sop. destruct (a_kind a); try (left; reflexivity).
    destruct (checked_sub (a_len a) addr); [|left; reflexivity].
    destruct (_ || _); right; eexists; (split; [reflexivity|]); cbn; lia.
Qed.

Lemma last_In {A} (l : list A) d : l <> [] -> In (last l d) l.
Proof.
  induction l as [|x t IH]; intros H; [congruence|]. destruct t as [|y u]; [left; reflexivity|].
  right. apply IH. discriminate.
Qed.

Lemma span_bound ps off m cnt : 0 < ps -> 0 < m -> m <= cnt ->
  (off + m - 1) / ps - off / ps <= (cnt + ps - 2) / ps.
Proof.
  intros Hps Hm Hc. apply N.div_le_lower_bound; [lia|].
  assert (Hle : off / ps <= (off + m - 1) / ps) by (apply N.div_le_mono; lia).
  pose proof (N.mul_div_le (off + m - 1) ps ltac:(lia)) as H1.
  pose proof (N.mul_succ_div_gt off ps ltac:(lia)) as H2.
  rewrite N.mul_sub_distr_l. rewrite N.mul_succ_r in H2.
  remember (ps * (off / ps)) as A. remember (ps * ((off + m - 1) / ps)) as B. lia.
Qed.

Lemma step_ok_C16 hm rs s rs' out : wf rs -> is_reset s = false -> run_step hm rs s = (rs', out) ->
  ok_C16_step (kind_of s) (map geom_of rs) (view rs) (obs_of rs' out) = true.
Proof.
  intros Hwf Hr H. pose proof (mlen_is_wn_lemma hm rs s rs' out Hwf Hr) as Hmw.
  destruct (step_effs hm rs s rs' out Hwf Hr H) as [E Hok]. subst rs'.
  set (es := o_effs out) in *. unfold ok_C16_step, obs_of. cbn [s_dirty s_changed].
  change (map (fun r => (if r_tracked r then r_dirty r else map (fun _ => false) (r_dirty r)) ++ [false; false]) (apply_effs rs es))
    with (view (apply_effs rs es)).
  rewrite length_apply_effs, runs_of_seq.
  apply (zip3all_pointwise (ok_C16_region (kind_of s)) _ rs (apply_effs rs es) 0%nat (length_apply_effs es rs)).
  intros j r r' Hj Hj'. cbn [Nat.add].
  destruct (geom_apply_effs es rs j r r' Hj Hj') as [Hg Hlen].
  pose proof (region_ok_of_wf rs j r Hwf Hj) as (Hps & Hsz & Hdl).
  assert (Htr : r_tracked r' = r_tracked r) by (unfold geom_of in Hg; congruence).
  unfold ok_C16_region. cbn [geom_of g_tracked g_ps g_size]. destruct (r_tracked r) eqn:Ht; cbn [negb].
  2:{ unfold view1. rewrite Htr. apply forallb_forall. intros b Hb. apply in_app_or in Hb.
      destruct Hb as [Hb|[<-|[<-|[]]]]; try reflexivity. apply in_map_iff in Hb. destruct Hb as (? & <- & _). reflexivity. }
  apply andb_true_iff. split.
  - unfold view1. rewrite Htr. apply beyond_clean. rewrite Hlen, Hdl. reflexivity.
  - destruct (is_fd_error s) eqn:Hfd.
    { (* the documented exception, bounded: every newly dirty page overlaps the (single) marked range,
         which is at most fd_cnt s bytes long *)
      rewrite (kind_fd_error s Hfd). unfold span_ok.
      destruct (new_pages (view1 r) (view1 r')) as [|p0 l] eqn:En; [reflexivity|].
      assert (Hall : forall p, In p (p0 :: l) ->
                exists e, o_effs out = [e] /\ e_mlen e <= fd_cnt s /\ 0 < e_mlen e /\
                          e_woff e / r_ps r <= p <= (e_woff e + e_mlen e - 1) / r_ps r).
      { intros p Hp. rewrite <- En in Hp. unfold new_pages in Hp. apply filter_In in Hp. destruct Hp as [_ Hp].
        rewrite (view_D rs j r p Hj), (view_D (apply_effs rs es) j r' p Hj') in Hp.
        apply andb_true_iff in Hp. destruct Hp as [Da Db]. apply negb_true_iff in Db.
        destruct (effs_precise rs es Hwf Hok j p Da) as [Hc|(e & r0 & i & He & Hej & Hr0 & Hi & Hip & Hsz0)]; [congruence|].
        rewrite Hj in Hr0. inversion Hr0; subst r0; clear Hr0.
        destruct (fd_error_effs hm rs s _ out Hfd H) as [Hn|(e0 & He0 & Hm0)]; fold es in Hn || fold es in He0.
        - rewrite Hn in He. destruct He.
        - rewrite He0 in He. destruct He as [<-|[]]. exists e0. split; [exact He0|]. split; [exact Hm0|].
          split; [lia|]. rewrite <- Hip. split; apply N.div_le_mono; lia. }
      destruct (Hall p0 (or_introl eq_refl)) as (e & He & Hm & Hpos & Hp0).
      destruct (Hall (last (p0 :: l) p0) (last_In (p0 :: l) p0 ltac:(discriminate))) as (e' & He' & _ & _ & Hp1).
      rewrite He in He'. inversion He'; subst e'.
      pose proof (span_bound (r_ps r) (e_woff e) (e_mlen e) (fd_cnt s) Hps Hpos Hm) as Hsp.
      apply andb_true_iff. split; [apply N.ltb_lt; lia|apply N.leb_le; lia]. }
    rewrite (kind_write_like s Hr Hfd).
    apply forallb_forall. intros p _.
    rewrite (view_D rs j r p Hj), (view_D (apply_effs rs es) j r' p Hj').
    destruct (D (apply_effs rs es) j p) eqn:Da; [|reflexivity].
    destruct (D rs j p) eqn:Db; [reflexivity|]. cbn [andb negb implb].
    destruct (effs_precise rs es Hwf Hok j p Da) as [Hc|(e & r0 & i & He & Hej & Hr0 & Hi & Hip & Hsz0)]; [congruence|].
    rewrite Hj in Hr0. inversion Hr0; subst r0; clear Hr0.
    specialize (Hmw eq_refl H e He).
    unfold page_touched. apply existsb_exists. exists (e_woff e, e_wn e). split.
    + apply in_runs. exists e. repeat split; try assumption. lia.
    + rewrite <- Hip. destruct (N.ltb_spec 0 (e_wn e)); [|lia]. cbn [andb].
      apply andb_true_iff. split; apply N.leb_le; apply N.div_le_mono; lia.
Qed.

(* ------------------------------------------------------------------ reset steps, geometry, histories *)
Lemma geom_step hm rs s : map geo (fst (run_step hm rs s)) = map geo rs.
Proof.
  destruct s as [ri ch o|o|ri|ri off len|ri ch rj doff dlen]; cbn [run_step].
  - destruct (nth_error rs ri); [|reflexivity]. destruct (derive_chain (root r) ch); [|reflexivity].
    cbn [fst]. apply geo_apply_effs.
  - cbn [fst]. apply geo_apply_effs.
  - cbn [fst]. apply geo_upd_dirty. intros r; cbn. rewrite map_length. auto.
  - cbn [fst]. apply geo_upd_dirty. intros r; cbn. rewrite mark_length. auto.
  - cbn [fst]. apply geo_apply_effs.
Qed.
Lemma geom_of_geo rs rs' : map geo rs' = map geo rs -> map geom_of rs' = map geom_of rs.
Proof.
  revert rs'. induction rs as [|x t IH]; intros [|y u] H; cbn in H; try discriminate; [reflexivity|].
  injection H; intros Ht G5 G4 G3 G2 G1. cbn [map]. f_equal; [unfold geom_of; congruence|apply IH; exact Ht].
Qed.

Lemma reset_step_ok (f : skind -> rgeom -> list bool -> list bool -> list (N * N) -> bool) hm rs s rs' out :
  wf rs -> is_reset s = true -> run_step hm rs s = (rs', out) ->
  (forall r r', region_ok r' -> geom_of r' = geom_of r -> f KReset (geom_of r) (view1 r) (view1 r') [] = true) ->
  zip3all (f (kind_of s)) (map geom_of rs) (view rs) (view rs') (runs_of (length rs') (o_effs out)) = true.
Proof.
  intros Hwf Hr H Hf.
  assert (Hwf' : wf rs') by (pose proof (wf_step hm rs s Hwf) as W; rewrite H in W; exact W).
  assert (Hg : map geo rs' = map geo rs) by (pose proof (geom_step hm rs s) as G; rewrite H in G; exact G).
  assert (Hl : length rs' = length rs) by (apply (f_equal (@length _)) in Hg; rewrite !map_length in Hg; exact Hg).
  assert (Hk : kind_of s = KReset) by (destruct s; try discriminate; reflexivity).
  assert (He : o_effs out = []) by (destruct s; try discriminate; cbn in H; inversion H; reflexivity).
  rewrite Hk, He, Hl, runs_of_seq.
  apply (zip3all_pointwise (f KReset) _ rs rs' 0%nat Hl).
  intros j r r' Hj Hj'. cbn [flat_map]. apply Hf.
  - eapply region_ok_of_wf; eauto.
  - assert (E : option_map geom_of (nth_error rs' j) = option_map geom_of (nth_error rs j)).
    { rewrite <- !nth_error_map. rewrite (geom_of_geo rs rs' Hg). reflexivity. }
    rewrite Hj, Hj' in E. cbn in E. congruence.
Qed.

Lemma any_step_ok_C05 hm rs s rs' out : wf rs -> run_step hm rs s = (rs', out) ->
  ok_C05_step (kind_of s) (map geom_of rs) (view rs) (obs_of rs' out) = true.
Proof.
  intros Hwf H. destruct (is_reset s) eqn:Hr; [|eapply step_ok_C05; eauto].
  unfold ok_C05_step, obs_of. cbn [s_dirty s_changed s_late].
  assert (X : kind_of s = KReset) by (destruct s; try discriminate; reflexivity).
  rewrite X. cbn [andb]. rewrite <- X.
  apply (reset_step_ok ok_C05_region hm rs s rs' out Hwf Hr H).
  intros r r' _ _. unfold ok_C05_region. destruct (negb _); reflexivity.
Qed.

Lemma any_step_ok_C16 hm rs s rs' out : wf rs -> run_step hm rs s = (rs', out) ->
  ok_C16_step (kind_of s) (map geom_of rs) (view rs) (obs_of rs' out) = true.
Proof.
  intros Hwf H. destruct (is_reset s) eqn:Hr; [|eapply step_ok_C16; eauto].
  unfold ok_C16_step, obs_of. cbn [s_dirty s_changed].
  apply (reset_step_ok ok_C16_region hm rs s rs' out Hwf Hr H).
  intros r r' (Hps & Hsz & Hlen) Hg. unfold ok_C16_region.
  assert (Htr : r_tracked r' = r_tracked r) by (unfold geom_of in Hg; congruence).
  assert (Hs : r_size r' = r_size r) by (unfold geom_of in Hg; congruence).
  assert (Hp : r_ps r' = r_ps r) by (unfold geom_of in Hg; congruence).
  cbn [geom_of g_tracked g_size g_ps]. destruct (r_tracked r) eqn:Ht; cbn [negb].
  - rewrite andb_true_r. unfold view1. rewrite Htr. apply beyond_clean. rewrite Hlen, Hs, Hp. reflexivity.
  - unfold view1. rewrite Htr. apply forallb_forall. intros b Hb. apply in_app_or in Hb.
    destruct Hb as [Hb|[<-|[<-|[]]]]; try reflexivity. apply in_map_iff in Hb. destruct Hb as (? & <- & _). reflexivity.
Qed.

Lemma hist_ok (f : skind -> list rgeom -> list (list bool) -> sobs -> bool) hm :
  (forall rs s rs' out, wf rs -> run_step hm rs s = (rs', out) ->
      f (kind_of s) (map geom_of rs) (view rs) (obs_of rs' out) = true) ->
  forall ss rs, wf rs -> ok_hist f (map geom_of rs) (view rs) (map kind_of ss) (run_hist hm rs ss) = true.
Proof.
  intros Hf. induction ss as [|s ss IH]; intros rs Hwf; cbn [map run_hist ok_hist]; [reflexivity|].
  destruct (run_step hm rs s) as [rs' out] eqn:E. cbn [ok_hist]. apply andb_true_iff. split.
  - eapply Hf; eauto.
  - assert (Hwf' : wf rs') by (pose proof (wf_step hm rs s Hwf) as W; rewrite E in W; exact W).
    assert (Hg : map geom_of rs' = map geom_of rs).
    { apply geom_of_geo. pose proof (geom_step hm rs s) as G. rewrite E in G. exact G. }
    rewrite <- Hg. unfold obs_of at 1. cbn [s_dirty].
    change (map (fun r => (if r_tracked r then r_dirty r else map (fun _ => false) (r_dirty r)) ++ [false; false]) rs') with (view rs').
    apply IH. exact Hwf'.
Qed.

Lemma C05_model_ok_lemma hm ss rs : wf rs ->
  ok_hist ok_C05_step (map geom_of rs) (view rs) (map kind_of ss) (run_hist hm rs ss) = true.
Proof. intros. apply hist_ok; [|assumption]. intros; eapply any_step_ok_C05; eauto. Qed.
Lemma C16_model_ok_lemma hm ss rs : wf rs ->
  ok_hist ok_C16_step (map geom_of rs) (view rs) (map kind_of ss) (run_hist hm rs ss) = true.
Proof. intros. apply hist_ok; [|assumption]. intros; eapply any_step_ok_C16; eauto. Qed.

(* the suite starts from all-clean bitmaps: there the initial "before" it passes is the view *)
Lemma view_clean rs : Forall (fun r => r_dirty r = map (fun _ => false) (r_dirty r)) rs ->
  map (fun r => r_dirty r ++ [false; false]) rs = view rs.
Proof.
  induction 1 as [|r t Hr _ IH]; [reflexivity|]. cbn [map view]. f_equal; [|exact IH].
  unfold view1. destruct (r_tracked r); [reflexivity|]. rewrite <- Hr. reflexivity.
Qed.
