(* C17 - lemmas. *)
From VM Require Import Prelude.MachInt Prelude.Outcome Prelude.Tok Impl.MmapBuild Impl.Xen Spec.C17 Suite.C17.

Ltac inv_val :=
  match goal with
  | H : Val _ = Val _ |- _ => inversion H; subst; clear H
  | H : (_, _) = (_, _) |- _ => inversion H; subst; clear H
  | H : Ok _ = Ok _ |- _ => inversion H; subst; clear H
  end.

(* ------------------------------------------------------------------ guards *)
Lemma guard_len_bytes_lemma : forall m a, acc_bytes a < W64 -> guard_len m a = Val (acc_bytes a).
Proof.
  intros m [s|t|t n] H; cbn [guard_len acc_bytes] in *; try reflexivity.
  apply pmul_Val. exact H.
Qed.

Lemma C17_model_ok_lemma : forall c, c_kind c < 3 -> ok_C17 c (run_C17 c) = true.
Proof.
  intros c Hk. unfold ok_C17, run_C17.
  assert (E : acc_bytes (acc_of c) = covers c).
  { unfold acc_of, covers. destruct (c_kind c) as [|[[|[]|]|[|[]|]|]]; try reflexivity. }
  destruct (N.ltb_spec (covers c) W64) as [L|L]; [|reflexivity].
  rewrite guard_len_bytes_lemma by (rewrite E; exact L). cbn [Spec.C17.o_res o_len o_ptr].
  rewrite E, !N.eqb_refl. reflexivity.
Qed.

(* ------------------------------------------------------------------ window arithmetic *)
Lemma pages_spec m ps size : 0 < ps -> size + ps < W64 ->
  exists num, pages m ps size = Val (num, ps * num) /\ size <= ps * num /\ ps * num < size + ps.
Proof.
  intros Hp Hs. unfold pages, pdiv. destruct (N.eqb_spec ps 0) as [Z|_]; [lia|]. cbn [bind].
  pose proof (N.div_mod size ps ltac:(lia)) as E. pose proof (N.mod_lt size ps ltac:(lia)) as L.
  remember (size / ps) as d. remember (size mod ps) as r.
  destruct (N.ltb_spec 0 r) as [R|R].
  - exists (d + 1). rewrite pmul_Val by nia. cbn [bind]. split; [reflexivity|]. nia.
  - exists d. rewrite pmul_Val by nia. cbn [bind]. split; [reflexivity|]. nia.
Qed.

Lemma window_arith_spec m ps off len : 0 < ps -> off + len < W64 ->
  window_arith m ps off len = Val (off / ps * ps, off mod ps, off mod ps + len).
Proof.
  intros Hp Hs. unfold window_arith, pdiv. destruct (N.eqb_spec ps 0) as [Z|_]; [lia|]. cbn [bind].
  pose proof (N.div_mod off ps ltac:(lia)) as E. pose proof (N.mod_lt off ps ltac:(lia)) as L.
  remember (off / ps) as q. remember (off mod ps) as r.
  rewrite pmul_Val by nia. cbn [bind].
  rewrite psub_Val by nia. cbn [bind].
  replace (off - q * ps) with r by nia.
  rewrite padd_Val by nia. reflexivity.
Qed.

(* the window requested for a guard of len bytes at offset off: whole pages, starting at the page of
   off, covering [off, off+len), at most one page more than needed *)
Lemma window_covers_lemma : forall m ps off len, 0 < ps -> off + len + ps < W64 ->
  exists page_base inpage wsize count msize,
    window_arith m ps off len = Val (page_base, inpage, wsize) /\
    pages m ps wsize = Val (count, msize) /\
    msize = ps * count /\ page_base mod ps = 0 /\ inpage < ps /\ off = page_base + inpage /\
    page_base <= off /\ off + len <= page_base + msize /\ page_base + msize < off + len + ps.
Proof.
  intros m ps off len Hp Hs.
  pose proof (N.div_mod off ps ltac:(lia)) as E. pose proof (N.mod_lt off ps ltac:(lia)) as L.
  assert (Lm : off mod ps <= off) by (apply N.mod_le; lia).
  assert (Hs' : off mod ps + len + ps < W64) by (remember (off mod ps) as r0; lia).
  destruct (pages_spec m ps (off mod ps + len) Hp Hs') as [num [P [P1 P2]]].
  exists (off / ps * ps), (off mod ps), (off mod ps + len), num, (ps * num).
  split; [apply window_arith_spec; lia|]. split; [exact P|].
  split; [reflexivity|]. split; [apply N.mod_mul; lia|]. split; [exact L|].
  remember (off / ps) as q. remember (off mod ps) as r. nia.
Qed.

(* ------------------------------------------------------------------ the structure of one guarded access *)
Lemma mmap_range_shape m o fl addr size prot u l : mmap_range m o fl addr size prot = Val (u, l) ->
  exists cnt ms gref,
    pages m (os_page o) size = Val (cnt, ms) /\
    grant_ref (os_page o) addr = Val gref /\
    let ix := dev_index (os_page o) gref in
    let c32 := cnt mod 4294967296 in
    (u = Ok (ms, ix) /\ os_mmap_ok o = true /\ l = [EvIoctlMap gref c32 ix true; EvMmap ms prot fl true ix true]) \/
    (u = Err MmapErr /\ os_mmap_ok o = false /\ l = [EvIoctlMap gref c32 ix true; EvMmap ms prot fl true ix false]) \/
    (u = Err MmapErr /\ l = [EvIoctlMap gref c32 ix false]).
Proof.
  unfold mmap_range.
  destruct (pages m (os_page o) size) as [[cnt ms]| |]; cbn [bind]; try discriminate.
  destruct (grant_ref (os_page o) addr) as [gref| |]; cbn [bind]; try discriminate.
  intros H. exists cnt, ms, gref. split; [reflexivity|]. split; [reflexivity|]. cbn zeta.
  destruct (os_ioctl_ok o && (0 <? cnt mod 4294967296)).
  - unfold mmap_unix in H. destruct (os_mmap_ok o); inv_val.
    + left. repeat split.
    + right. left. repeat split.
  - inv_val. right. right. split; reflexivity.
Qed.

Definition balanced_block (l : list ev) : Prop :=
  l = [] \/
  (exists g c ix ms p f, l = [EvIoctlMap g c ix true; EvMmap ms p f true ix true; EvMunmap ms; EvIoctlUnmap ix c]) \/
  (exists g c ix, l = [EvIoctlMap g c ix false]).

Lemma balanced_block_live st l : balanced_block l -> live_after st l = st /\ mm_balance l = 0%Z.
Proof.
  intros [->|[[g [c [ix [ms [p [f ->]]]]]]|[g [c [ix ->]]]]]; cbn; try (split; reflexivity).
  rewrite !N.eqb_refl. cbn. split; reflexivity.
Qed.

(* with an mmap that is granted, whatever a guarded access logs is a balanced block, and if it
   completes its window is the one computed by window_arith / pages *)
Lemma guarded_shape m o g off len wr l r : os_mmap_ok o = true ->
  guarded m o g off len wr = (l, r) ->
  balanced_block l /\
  forall w, r = Val (Some w) ->
    exists ip, window_arith m (os_page o) off len = Val (w_page_base w, ip, w_bytes w) /\
               (exists addr, padd m 936 (xr_base g) (w_page_base w) = Val addr /\
                             grant_ref (os_page o) addr = Val (w_gref w)) /\
               exists cnt, pages m (os_page o) (w_bytes w) = Val (cnt, w_msize w) /\
               w_count w = cnt mod 4294967296 /\
               In (EvIoctlMap (w_gref w) (w_count w) (w_index w) true) l /\
               In (EvMmap (w_msize w) (if wr then PROT_WRITE else PROT_READ) (xr_flags g) true (w_index w) true) l.
Proof.
  intros M. unfold guarded.
  destruct (on_demand g); [|intros H; inv_val; split; [left; reflexivity|intros w E; discriminate]].
  destruct (len =? 0); [intros H; inv_val; split; [left; reflexivity|intros w E; discriminate]|].
  unfold open_window.
  destruct (window_arith m (os_page o) off len) as [[[pb ip] ws]| |] eqn:WA;
    try (intros H; inv_val; split; [left; reflexivity|intros w E; discriminate]).
  destruct (padd m 936 (xr_base g) pb) as [addr| |] eqn:PA;
    try (intros H; inv_val; split; [left; reflexivity|intros w E; discriminate]).
  destruct (mmap_range m o (xr_flags g) addr ws (if wr then PROT_WRITE else PROT_READ)) as [[u l1]| |] eqn:MR;
    try (intros H; inv_val; split; [left; reflexivity|intros w E; discriminate]).
  destruct (mmap_range_shape _ _ _ _ _ _ _ _ MR) as [cnt [ms [gref [PG [GR S]]]]]. cbn zeta in S.
  destruct S as [[-> [_ ->]]|[[-> [M' _]]|[-> ->]]].
  - unfold close_window, unmap_range. cbn [w_msize w_bytes w_index]. rewrite PG. cbn [bind].
    intros H; inv_val. split.
    + right. left. do 6 eexists. reflexivity.
    + intros w E. inversion E; subst; clear E. cbn [w_page_base w_bytes w_msize w_count w_gref w_index].
      exists ip. split; [reflexivity|]. split; [exists addr; split; [exact PA|exact GR]|].
      exists cnt. split; [exact PG|]. split; [reflexivity|].
      split; [left; reflexivity|right; left; reflexivity].
  - congruence.
  - intros H; inv_val. split; [right; right; do 3 eexists; reflexivity|intros w E; discriminate].
Qed.

(* ------------------------------------------------------------------ operations *)
Lemma end_offset_Some len b off e : end_offset len b off = Some e -> e = b + off /\ b + off <= len.
Proof.
  unfold end_offset. destruct (checked_add b off) as [x|] eqn:E; [|discriminate].
  apply checked_add_Some in E. destruct E as [-> _].
  destruct (N.ltb_spec len (b + off)) as [L|L]; [discriminate|]. intros HH; inversion HH. split; [reflexivity|lia].
Qed.

Lemma isz_mul_Some n t nb : isz_mul n t = Some nb -> nb = n * t /\ n * t < W64.
Proof.
  unfold isz_mul. destruct (N.leb_spec n ISZ_MAX) as [L1|L1]; cbn [andb]; [|discriminate].
  destruct (N.leb_spec (n * t) ISZ_MAX) as [L2|L2]; [|discriminate]. intros HH; inversion HH.
  split; [reflexivity|]. unfold ISZ_MAX in *. rewrite W64_val. lia.
Qed.

(* the bytes an operation touches lie inside the guard it takes, and the guard inside the region *)
Lemma plan_inside m size op goff glen wr toff tlen :
  op_plan m size op = Val (PGuard goff glen wr toff tlen) ->
  goff <= toff /\ toff + tlen <= goff + glen /\ goff + glen <= size.
Proof.
  destruct op as [off len|off len|off len w|off t|off t|off t n i|off t n i|off t n k|off t n k|off t|off len
                  |off cnt sl|off cnt|off len t k|off len t k|off cnt sl|off cnt|off cnt|off cnt];
    cbn [op_plan].
  1,2: destruct (len =? 0); [discriminate|]; destruct (N.leb_spec size off) as [L|L]; [discriminate|];
       intros HH; inv_val; lia.
  - destruct (end_offset size off len) eqn:E; [|discriminate]. apply end_offset_Some in E.
    intros H; inv_val. lia.
  - destruct (end_offset size off t) eqn:E; [|discriminate]. apply end_offset_Some in E.
    intros H; inv_val. lia.
  - destruct (end_offset size off t) eqn:E; [|discriminate]. apply end_offset_Some in E.
    intros H; inv_val. lia.
  - destruct (isz_mul n t) as [nb|] eqn:I; [|discriminate]. apply isz_mul_Some in I. destruct I as [-> I].
    destruct (end_offset size off (n * t)) eqn:E; [|discriminate]. apply end_offset_Some in E.
    unfold passert. destruct (N.ltb_spec i n) as [L|L]; cbn [bind]; [|discriminate].
    rewrite pmul_Val by nia. cbn [bind]. intros H; inv_val. nia.
  - destruct (isz_mul n t) as [nb|] eqn:I; [|discriminate]. apply isz_mul_Some in I. destruct I as [-> I].
    destruct (end_offset size off (n * t)) eqn:E; [|discriminate]. apply end_offset_Some in E.
    unfold passert. destruct (N.ltb_spec i n) as [L|L]; cbn [bind]; [|discriminate].
    rewrite pmul_Val by nia. cbn [bind]. intros H; inv_val. nia.
  - destruct (isz_mul n t) as [nb|] eqn:I; [|discriminate]. apply isz_mul_Some in I. destruct I as [-> I].
    destruct (end_offset size off (n * t)) eqn:E; [|discriminate]. apply end_offset_Some in E.
    destruct (t =? 1).
    + rewrite pmul_Val by exact I. cbn [bind]. intros H; inv_val. lia.
    + cbn [guard_len]. rewrite pmul_Val by exact I. cbn [bind]. intros H; inv_val. nia.
  - destruct (isz_mul n t) as [nb|] eqn:I; [|discriminate]. apply isz_mul_Some in I. destruct I as [-> I].
    destruct (end_offset size off (n * t)) eqn:E; [|discriminate]. apply end_offset_Some in E.
    destruct (t =? 1).
    + rewrite pmul_Val by exact I. cbn [bind]. intros H; inv_val. lia.
    + cbn [guard_len]. rewrite pmul_Val by exact I. cbn [bind]. intros H; inv_val. nia.
  - destruct (end_offset size off t); [|discriminate]. destruct (off mod t =? 0); discriminate.
  - destruct (end_offset size off len); discriminate.
  - destruct (N.ltb_spec size off) as [L|L]; [discriminate|]. intros HH; inv_val. lia.
  - destruct (N.ltb_spec size off) as [L|L]; [discriminate|]. intros HH; inv_val. lia.
  - destruct (end_offset size off len) eqn:E; [|discriminate]. apply end_offset_Some in E.
    destruct (t =? 1); [intros HH; inv_val; lia|].
    unfold pdiv. destruct (N.eqb_spec t 0) as [Z|Z]; cbn [bind]; [discriminate|].
    destruct (isz_mul (len / t) t) as [nb|] eqn:I; [|discriminate]. apply isz_mul_Some in I. destruct I as [-> I].
    cbn [guard_len]. rewrite pmul_Val by exact I. cbn [bind]. intros HH; inv_val.
    pose proof (N.mul_div_le len t Z) as D. remember (len / t) as q. nia.
  - destruct (end_offset size off len) eqn:E; [|discriminate]. apply end_offset_Some in E.
    destruct (t =? 1); [intros HH; inv_val; lia|].
    unfold pdiv. destruct (N.eqb_spec t 0) as [Z|Z]; cbn [bind]; [discriminate|].
    destruct (isz_mul (len / t) t) as [nb|] eqn:I; [|discriminate]. apply isz_mul_Some in I. destruct I as [-> I].
    cbn [guard_len]. rewrite pmul_Val by exact I. cbn [bind]. intros HH; inv_val.
    pose proof (N.mul_div_le len t Z) as D. remember (len / t) as q. nia.
  - destruct (N.ltb_spec size off) as [L|L]; [discriminate|]. intros HH; inv_val. lia.
  - destruct (end_offset size off cnt) eqn:E; [|discriminate]. apply end_offset_Some in E.
    destruct (cnt =? 0); [discriminate|]. intros HH; inv_val. lia.
  - destruct (N.ltb_spec size off) as [L|L]; [discriminate|]. intros HH; inv_val. lia.
  - destruct (end_offset size off cnt) eqn:E; [|discriminate]. apply end_offset_Some in E.
    destruct (cnt =? 0); [discriminate|]. intros HH; inv_val. lia.
Qed.

(* every guarded access of an operation on an on-demand region takes place inside the window that
   the operation had mapped: whole pages, the map ioctl and the mmap of exactly that window are in
   the operation's own log *)
Lemma access_inside_window_lemma : forall m o g op goff glen wr toff tlen l w,
  0 < os_page o -> xr_size g + os_page o < W64 ->
  xr_size g + os_page o <= 4294967296 * os_page o ->      (* fewer than 2^32 pages: the ioctl count is a u32 *)
  os_mmap_ok o = true ->
  op_plan m (xr_size g) op = Val (PGuard goff glen wr toff tlen) ->
  run_op m o g op = (l, RDone (Some w)) ->
  w_page_base w mod os_page o = 0 /\ w_msize w = os_page o * w_count w /\
  w_page_base w <= toff /\ toff + tlen <= w_page_base w + w_msize w /\
  In (EvIoctlMap (w_gref w) (w_count w) (w_index w) true) l /\
  (exists prot, In (EvMmap (w_msize w) prot (xr_flags g) true (w_index w) true) l).
Proof.
  intros m o g op goff glen wr toff tlen l w Hp Hs H32 M P R.
  unfold run_op in R. rewrite P in R.
  destruct (guarded m o g goff glen wr) as [l' r'] eqn:G.
  destruct (guarded_shape _ _ _ _ _ _ _ _ M G) as [_ W].
  destruct r' as [ow| |]; try discriminate. inversion R; subst; clear R.
  destruct (W w eq_refl) as [ip [WA [_ [cnt [PG [C32 [I1 I2]]]]]]].
  destruct (plan_inside _ _ _ _ _ _ _ _ P) as [A1 [A2 A3]].
  destruct (window_covers_lemma m (os_page o) goff glen Hp ltac:(lia))
    as [pb [ip' [ws [cnt' [ms [WA' [PG' [E1 [E2 [E3 [E4 [E5 [E6 E7]]]]]]]]]]]]].
  rewrite WA in WA'. inversion WA'; subst; clear WA'.
  rewrite PG in PG'. inversion PG'; subst; clear PG'.
  assert (Csmall : cnt' < 4294967296).
  { nia. }
  rewrite N.mod_small in C32 by exact Csmall.
  rewrite C32 in *.
  split; [exact E2|]. split; [assumption|]. split; [lia|]. split; [lia|]. split; [exact I1|].
  eexists. exact I2.
Qed.

Lemma zero_len_guard_noop m o g off wr : guarded m o g off 0 wr = ([], Val None).
Proof. unfold guarded. destruct (on_demand g); reflexivity. Qed.

(* the stream entry points with a DESCRIPTOR as the other end (the transfer is a read(2)/write(2) system call
   made while the guard lives, io.rs:177-227) take exactly the windows of the buffer forms: read_volatile_from /
   write_volatile_to those of the &[u8] / Vec forms, the exact/all forms (file long enough, sink taking
   everything) one window over the whole requested slice - on every region, in both profiles *)
Lemma fd_streams_same_windows_lemma : forall m o g off count flen,
  run_op m o g (XReadFromFd off count flen) = run_op m o g (XReadFrom off count flen) /\
  run_op m o g (XWriteToFd off count) = run_op m o g (XWriteTo off count) /\
  run_op m o g (XReadExactFromFd off count) = run_op m o g (XSliceGuard off count true) /\
  run_op m o g (XWriteAllToFd off count) = run_op m o g (XSliceGuard off count false).
Proof.
  intros m o g off count flen. unfold run_op. cbn [op_plan].
  split; [reflexivity|]. split; [reflexivity|].
  split; (destruct (end_offset (xr_size g) off count); [|reflexivity];
          destruct (N.eqb_spec count 0) as [Z|Z]; [subst count; rewrite zero_len_guard_noop; reflexivity|reflexivity]).
Qed.

(* ------------------------------------------------------------------ histories *)
Definition hist_events (h : list (list ev * opres)) : list ev := concat (map fst h).

Lemma run_op_balanced m o g op : os_mmap_ok o = true -> balanced_block (fst (run_op m o g op)).
Proof.
  intros M. unfold run_op.
  destruct (op_plan m (xr_size g) op) as [[| |goff glen wr toff tlen|toff tlen]| |]; cbn [fst]; try (left; reflexivity).
  - destruct (guarded m o g goff glen wr) as [l r] eqn:G.
    destruct (guarded_shape _ _ _ _ _ _ _ _ M G) as [B _].
    destruct r; cbn [fst]; exact B.
  - destruct (on_demand g && (0 <? tlen)); left; reflexivity.
Qed.

Lemma live_after_app st a b : live_after st (a ++ b) = live_after (live_after st a) b.
Proof. unfold live_after. apply fold_left_app. Qed.

Lemma mm_balance_app17 a b : mm_balance (a ++ b) = (mm_balance a + mm_balance b)%Z.
Proof.
  induction a as [|e a IH]; cbn [app mm_balance]; [reflexivity|].
  destruct e as [| |s p f fi off [|]|s|c ok|g c i ok|i c]; rewrite ?IH; lia.
Qed.

(* after ANY sequence of operations (including failing and panicking ones) no window remains *)
Lemma windows_released_lemma : forall m o g ops st, os_mmap_ok o = true ->
  live_after st (hist_events (run_hist m o g ops)) = st /\
  mm_balance (hist_events (run_hist m o g ops)) = 0%Z.
Proof.
  intros m o g ops st M. revert st. unfold hist_events.
  induction ops as [|op r IH]; intros st; cbn [run_hist map concat]; [split; reflexivity|].
  destruct (balanced_block_live st _ (run_op_balanced m o g op M)) as [L B].
  rewrite live_after_app, mm_balance_app17, L, B. destruct (IH st) as [L' B']. rewrite L', B'.
  split; reflexivity.
Qed.

(* ------------------------------------------------------------------ witnesses of the known-finding candidates *)
Definition demo_os : os := {| os_page := 4096; os_filesize := 0; os_mmap_ok := true; os_ioctl_ok := true |}.
Definition demo_region : xregion :=
  {| xr_size := 8192; xr_prot := 3; xr_flags := 16385; xr_file := Some 0; xr_mflags := 10; xr_mdata := 0;
     xr_kind := XGrant; xr_base := 262144; xr_mapped := None |}.

(* F6a (repaired by the `fix:` commit in /repo: MmapXenSlice::new_with returns a raw dangling guard for
   an empty range): a zero-length guard maps nothing and completes, at every offset of every region *)
Lemma zero_len_guard_noop_lemma : forall m o g off wr, guarded m o g off 0 wr = ([], Val None).
Proof. intros. unfold guarded. destruct (on_demand g); reflexivity. Qed.
Lemma zero_len_guard_demo_lemma :
  run_op Debug demo_os demo_region (XSliceGuard 4096 0 false) = ([], RDone None) /\
  run_op Debug demo_os demo_region (XSliceGuard 4100 0 true) = ([], RDone None).
Proof. split; vm_compute; reflexivity. Qed.

(* F6b: get_atomic_ref / copy_to_volatile_slice dereference the null-based address of an on-demand
   region without taking a guard: no window is mapped (the log is empty), the access faults *)
Lemma unguarded_refuted_lemma :
  run_op Debug demo_os demo_region (XAtomicLoad 8 4) = ([], RFault) /\
  run_op Debug demo_os demo_region (XCopyToVS 16 32) = ([], RFault).
Proof. split; vm_compute; reflexivity. Qed.

(* when the kernel refuses the mmap of a window after the device accepted the map request, the guard
   panics and the grant mapping stays in the device *)
Lemma window_leak_on_mmap_failure_lemma :
  let o := {| os_page := 4096; os_filesize := 0; os_mmap_ok := false; os_ioctl_ok := true |} in
  live_after [] (fst (run_op Debug o demo_region (XRefLoad 8 4))) = [(262144, 1)] /\
  snd (run_op Debug o demo_region (XRefLoad 8 4)) = RPanic.
Proof. vm_compute. split; reflexivity. Qed.
