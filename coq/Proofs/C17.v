(* C17 - lemmas. *)
From VM Require Import Prelude.MachInt Prelude.Outcome Prelude.Tok Impl.MmapBuild Impl.Xen Spec.C17 Suite.C17.

Lemma guard_len_bytes_lemma : forall m a, acc_bytes a < W64 -> guard_len m a = Val (acc_bytes a).
Proof.
  intros m [s|t|t n] H; cbn [guard_len acc_bytes] in *; try reflexivity.
  apply pmul_Val. exact H.
Qed.
