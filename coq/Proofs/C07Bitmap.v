(* C07, part 3: the dirty bitmap (Impl/Bitmap.v `*_o` transcriptions).  On every bitmap that
   satisfies the representation invariant (in particular every bitmap AtomicBitmap::new builds),
   every operation returns - no slice-index panic, no subtraction underflow for len = 0 - for ALL
   usize arguments, also through BaseSlice views whose offsets wrap around; and the range loop
   stops after at most (pages + 1) iterations whatever range the guest names. *)
From VM Require Import Prelude.MachInt Prelude.Outcome Impl.Bitmap Proofs.C09.

Lemma wrapping_add_lt a b : wrapping_add a b < W64.
Proof. unfold wrapping_add. apply N.mod_lt. rewrite W64_val. discriminate. Qed.

(* the loop of set_reset_addr_range: the fuel  pages + 2  suffices for EVERY first / last page
   number - the bound comes from the `break`, not from the guest-chosen range *)
Lemma range_loop_bound_lemma : forall b first last set, bm_inv b ->
  exists b', range_loop (S (S (N.to_nat (bm_size b)))) first last b set = Val b' /\ bm_inv b' /\
             bm_size b' = bm_size b.
Proof.
  intros b first last set HI.
  destruct (range_loop_spec (S (S (N.to_nat (bm_size b)))) first last b set HI) as (b' & E & HI' & G & _); [lia|].
  exists b'. split; [exact E|]. split; [exact HI'|apply G].
Qed.

Lemma range_ops_total_lemma : forall b a l, bm_inv b -> a < W64 ->
  (exists b', bm_set_addr_range_o b a l = Val b' /\ bm_inv b') /\
  (exists b', bm_reset_addr_range_o b a l = Val b' /\ bm_inv b') /\
  (exists b', bm_mark_dirty_o b a l = Val b' /\ bm_inv b').
Proof.
  intros b a l HI Ha.
  destruct (set_reset_spec b a l true HI Ha) as (b1 & E1 & H1 & _).
  destruct (set_reset_spec b a l false HI Ha) as (b2 & E2 & H2 & _).
  split; [exists b1; split; assumption|]. split; [exists b2; split; assumption|].
  exists b1; split; assumption.
Qed.

Lemma bit_ops_total_lemma : forall b i, bm_inv b ->
  (exists b', bm_set_bit_o b i = Val b' /\ bm_inv b') /\
  (exists b', bm_reset_bit_o b i = Val b' /\ bm_inv b') /\
  (exists v, bm_is_bit_set_o b i = Val v) /\ (exists v, bm_is_addr_set_o b i = Val v) /\
  (exists v, bm_dirty_at_o b i = Val v).
Proof.
  intros b i HI.
  destruct (set_bit_spec b i HI) as (b1 & E1 & H1 & _).
  destruct (reset_bit_spec b i HI) as (b2 & E2 & H2 & _).
  split; [exists b1; split; assumption|]. split; [exists b2; split; assumption|].
  split; [eexists; apply is_bit_set_spec; exact HI|].
  split; eexists; apply is_addr_set_spec; exact HI.
Qed.

(* through a BaseSlice (RefSlice / ArcSlice) with ANY base offset, ANY offset (the sum wraps by
   design, slice.rs:51-71) and ANY length; also after slice_at with any further offset *)
Lemma slice_ops_total_lemma : forall b base off off2 len, bm_inv b ->
  (exists b', bs_mark_dirty_o b base off len = Val b' /\ bm_inv b') /\
  (exists v, bs_dirty_at_o b base off = Val v) /\
  (exists b', bs_mark_dirty_o b (bs_slice_at base off) off2 len = Val b' /\ bm_inv b') /\
  (exists v, bs_dirty_at_o b (bs_slice_at base off) off2 = Val v).
Proof.
  intros b base off off2 len HI. unfold bs_mark_dirty_o, bs_dirty_at_o.
  split; [apply (range_ops_total_lemma b _ len HI (wrapping_add_lt base off))|].
  split; [apply (bit_ops_total_lemma b _ HI)|].
  split; [apply (range_ops_total_lemma b _ len HI (wrapping_add_lt _ off2))|].
  apply (bit_ops_total_lemma b _ HI).
Qed.

(* enlarge keeps the representation invariant (sum fits usize), from ANY bitmap that has it - so also after
   any number of enlarges - and the page count is the rounded-up one *)
Lemma enlarge_inv_lemma : forall m b add, bm_inv b -> bm_byte_size b + add < W64 ->
  exists b', bm_enlarge_o m b add = Val b' /\ bm_inv b' /\
             bm_size b' = div_ceil (bm_byte_size b + add) (bm_ps b) /\
             N.of_nat (length (bm_words b')) = div_ceil (bm_size b') 64.
Proof.
  intros m b add HI Hov. destruct (enlarge_spec m b add HI Hov) as (b' & E & HI' & _ & _ & S & _).
  exists b'. split; [exact E|]. split; [exact HI'|]. split; [exact S|]. destruct HI' as (L & _). exact L.
Qed.

Lemma new_inv_lemma : forall bytes ps, 0 < ps -> bytes < W64 -> bm_inv (bm_new bytes ps).
Proof. exact new_inv. Qed.

(* AtomicBitmap::new followed by enlarge *)
Lemma new_enlarge_inv_lemma : forall m bytes ps add, 0 < ps -> bytes + add < W64 ->
  exists b', bm_enlarge_o m (bm_new bytes ps) add = Val b' /\ bm_inv b' /\
             bm_size b' = div_ceil (bytes + add) ps.
Proof.
  intros m bytes ps add Hps Hov.
  assert (HI : bm_inv (bm_new bytes ps)) by (apply new_inv_lemma; lia).
  destruct (enlarge_inv_lemma m (bm_new bytes ps) add HI Hov) as (b' & E & HI' & S & _).
  exists b'. split; [exact E|]. split; [exact HI'|exact S].
Qed.
