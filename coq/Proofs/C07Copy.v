(* C07, part 7: the typed bulk copies of VolatileSlice / VolatileArrayRef (Impl/VolMem.v) return for every
   slice of at most isize::MAX bytes, every element size (also 3, 16 and other sizes that do not divide the
   slice), every local buffer and every element count: `self.size / size_of::<T>()` never divides by zero,
   the `unwrap` of the internal get_array_ref never fires, no element-count product overflows. *)
From VM Require Import Prelude.MachInt Prelude.Outcome Impl.VolMem.
From VM Require Proofs.C01.

Lemma isz_lt : ISZ_MAX < W64.
Proof. exact Proofs.C01.W64_gt_ISZ. Qed.

Lemma vs_get_slice_ok s a b sl : vs_get_slice s a b = Ok sl -> vs_size sl = b /\ a + b <= vs_size s.
Proof.
  unfold vs_get_slice, vs_subslice, compute_end_offset, compute_offset.
  destruct (checked_add a b) as [x|] eqn:E; [|discriminate]. apply checked_add_Some in E. destruct E as [-> _].
  destruct (N.ltb_spec (vs_size s) (a + b)) as [Hlt|Hge]; [discriminate|]. intros H. inversion H; subst. cbn [vs_size]. split; [reflexivity|exact Hge].
Qed.

(* get_array_ref: an error value, or an array of n elements whose byte size fits isize and the slice *)
Lemma vs_get_array_ref_cases s size a n :
  (exists e, vs_get_array_ref s size a n = Val (Err e)) \/
  (exists arr, vs_get_array_ref s size a n = Val (Ok arr) /\ va_nelem arr = n /\ n * size <= ISZ_MAX /\ a + n * size <= vs_size s).
Proof.
  unfold vs_get_array_ref.
  destruct (N.leb_spec n ISZ_MAX) as [Hn|Hn]; [|left; eexists; reflexivity].
  destruct (N.leb_spec (n * size) ISZ_MAX) as [Hm|Hm]; [|left; eexists; reflexivity].
  destruct (vs_get_slice s a (n * size)) as [sl|e] eqn:E; [|left; eexists; reflexivity].
  destruct (vs_get_slice_ok _ _ _ _ E) as [Es Hb]. rewrite Es, N.eqb_refl. cbn [passert bind].
  right. eexists. split; [reflexivity|]. cbn [va_nelem]. repeat split; assumption.
Qed.

Lemma va_copy_to_total m h a t buf : va_nelem a * ty_size t <= ISZ_MAX -> exists v, va_copy_to m h a t buf = Val v.
Proof.
  intros H. pose proof isz_lt. unfold va_copy_to, va_to_slice.
  destruct (ty_size t =? 1); rewrite pmul_Val by lia; cbn [bind]; eexists; reflexivity.
Qed.
Lemma va_copy_from_total m h a t buf : va_nelem a * ty_size t <= ISZ_MAX -> exists v, va_copy_from m h a t buf = Val v.
Proof.
  intros H. pose proof isz_lt. unfold va_copy_from, va_to_slice.
  destruct (ty_size t =? 1); rewrite pmul_Val by lia; cbn [bind]; eexists; reflexivity.
Qed.
Lemma va_copy_to_volatile_slice_total m h a size slice : va_nelem a * size <= ISZ_MAX ->
  exists v, va_copy_to_volatile_slice m h a size slice = Val v.
Proof.
  intros H. pose proof isz_lt. unfold va_copy_to_volatile_slice. rewrite pmul_Val by lia. cbn [bind]. eexists; reflexivity.
Qed.

(* the array the slice-level copies build for themselves: count = size / size_of::<T>() elements *)
Lemma own_array s tsz : tsz <> 0 -> vs_size s <= ISZ_MAX ->
  exists arr, vs_get_array_ref s tsz 0 (vs_size s / tsz) = Val (Ok arr) /\ va_nelem arr * tsz <= ISZ_MAX.
Proof.
  intros Hz Hs. set (cnt := vs_size s / tsz).
  assert (Hm : cnt * tsz <= vs_size s) by (unfold cnt; rewrite N.mul_comm; apply N.mul_div_le; exact Hz).
  assert (Hc : cnt <= vs_size s) by (unfold cnt; apply N.div_le_upper_bound; [exact Hz|nia]).
  destruct (vs_get_array_ref_cases s tsz 0 cnt) as [[e E]|(arr & E & En & Hb & _)].
  - exfalso. unfold vs_get_array_ref in E.
    destruct (N.leb_spec cnt ISZ_MAX) as [_|Hb]; [|lia]. destruct (N.leb_spec (cnt * tsz) ISZ_MAX) as [_|Hb]; [|lia].
    unfold vs_get_slice, vs_subslice, compute_end_offset, compute_offset, checked_add in E. rewrite N.add_0_l in E.
    pose proof isz_lt. destruct (N.ltb_spec (cnt * tsz) W64) as [_|Hb]; [|lia].
    destruct (N.ltb_spec (vs_size s) (cnt * tsz)) as [Hb|_]; [lia|]. cbn [vs_size] in E. rewrite N.eqb_refl in E. discriminate.
  - exists arr. split; [exact E|]. rewrite En. exact Hb.
Qed.

Lemma vs_copy_to_total m h s t buf : vs_size s <= ISZ_MAX -> exists v, vs_copy_to m h s t buf = Val v.
Proof.
  intros Hs. unfold vs_copy_to. destruct (ty_size t =? 1); [eexists; reflexivity|].
  destruct (N.eqb_spec (ty_size t) 0) as [Hz|Hz]; [eexists; reflexivity|].
  unfold pdiv. destruct (N.eqb_spec (ty_size t) 0) as [|_]; [contradiction|]. cbn [bind].
  destruct (own_array s (ty_size t) Hz Hs) as (arr & -> & Hb). cbn [bind]. apply va_copy_to_total. exact Hb.
Qed.
Lemma vs_copy_from_total m h s t buf : vs_size s <= ISZ_MAX -> exists v, vs_copy_from m h s t buf = Val v.
Proof.
  intros Hs. unfold vs_copy_from. destruct (ty_size t =? 1); [eexists; reflexivity|].
  destruct (N.eqb_spec (ty_size t) 0) as [Hz|Hz]; cbn [negb]; [eexists; reflexivity|].
  unfold pdiv. destruct (N.eqb_spec (ty_size t) 0) as [|_]; [contradiction|]. cbn [bind].
  destruct (own_array s (ty_size t) Hz Hs) as (arr & -> & Hb). cbn [bind]. apply va_copy_from_total. exact Hb.
Qed.

(* the calls of the suite: a sub-slice / an element array obtained with ANY offset and count, then the copy *)
Lemma slice_then_copy_to_total : forall m h s t buf a b, vs_size s <= ISZ_MAX ->
  (exists e, vs_get_slice s a b = Err e) \/
  (exists sl v, vs_get_slice s a b = Ok sl /\ vs_copy_to m h sl t buf = Val v).
Proof.
  intros m h s t buf a b Hs. destruct (vs_get_slice s a b) as [sl|e] eqn:E; [|left; eauto].
  destruct (vs_get_slice_ok _ _ _ _ E) as [Es Hb]. destruct (vs_copy_to_total m h sl t buf ltac:(lia)) as [v Hv]. right. eauto.
Qed.
Lemma slice_then_copy_from_total : forall m h s t buf a b, vs_size s <= ISZ_MAX ->
  (exists e, vs_get_slice s a b = Err e) \/
  (exists sl v, vs_get_slice s a b = Ok sl /\ vs_copy_from m h sl t buf = Val v).
Proof.
  intros m h s t buf a b Hs. destruct (vs_get_slice s a b) as [sl|e] eqn:E; [|left; eauto].
  destruct (vs_get_slice_ok _ _ _ _ E) as [Es Hb]. destruct (vs_copy_from_total m h sl t buf ltac:(lia)) as [v Hv]. right. eauto.
Qed.
Lemma array_then_copies_total : forall m h s t buf a n slice,
  (exists e, vs_get_array_ref s (ty_size t) a n = Val (Err e)) \/
  (exists arr, vs_get_array_ref s (ty_size t) a n = Val (Ok arr) /\
     (exists v, va_copy_to m h arr t buf = Val v) /\ (exists v, va_copy_from m h arr t buf = Val v) /\
     (exists v, va_copy_to_volatile_slice m h arr (ty_size t) slice = Val v)).
Proof.
  intros m h s t buf a n slice. destruct (vs_get_array_ref_cases s (ty_size t) a n) as [[e E]|(arr & E & En & Hb & _)]; [left; eauto|].
  right. exists arr. rewrite <- En in Hb. split; [exact E|].
  split; [apply va_copy_to_total; exact Hb|]. split; [apply va_copy_from_total; exact Hb|apply va_copy_to_volatile_slice_total; exact Hb].
Qed.

Lemma slice_copies_total_lemma : forall m h s t buf, vs_size s <= ISZ_MAX ->
  (exists v, vs_copy_to m h s t buf = Val v) /\ (exists v, vs_copy_from m h s t buf = Val v).
Proof. intros m h s t buf H. split; [apply vs_copy_to_total|apply vs_copy_from_total]; exact H. Qed.
