(* C14own proofs: the conservation checker on the model of suite C14own (the crate's OWN stream endpoints driving
   the guest-memory / region / slice entry points), for scripts of any length and memories / layouts of any size.
   Structure (the skeleton of Proofs/C14.v, made generic in the stream):
     0. the call log read off the call counter, the termination measure of try_access,
     1. Section Gen: a stream over [sfd] given by a projection [pj] (rd: the bytes the reader can still deliver;
        otherwise: the bytes the writer accepted so far), a relation [Extra] on stream states (positions), the call,
        the initial script and an invariant [InvB] indexed by a byte budget.  From the ONE-CALL contract [CallSpec]:
        retry_eintr, the provided exact loop, the slice / region / guest-memory operations, the postcondition [PostL].
        The endpoint's own exact form enters through the contract [ExactSpec] (proved for the provided loop from
        CallSpec, and directly for the three specialised forms),
     2. the instances: &[u8], Cursor, &mut [u8], Vec<u8>, scripted File / byte queue (reading and writing),
     3. the observation bridge and the checker on the model,
     4. Prop-level readings. *)
From VM Require Import Prelude.MachInt Prelude.Outcome Prelude.Tok Prelude.C1314List Impl.Io Impl.IoGuest Impl.Std Spec.C14 Suite.C14 Spec.C14own Suite.C14own Proofs.C13 Proofs.C13fd Proofs.C14.

(* ------------------------------------------------------------------ 0a. the log from the counter *)
Lemma firstn_pad {A} (x : A) (sc : list A) : forall n z z', (n <= length sc + z)%nat -> (n <= length sc + z')%nat ->
  firstn n (sc ++ repeat x z) = firstn n (sc ++ repeat x z').
Proof.
  induction sc as [|b sc IH]; intros n z z' H1 H2.
  - cbn [app length] in *. revert z z' H1 H2. induction n as [|n IHn]; intros z z' H1 H2; [reflexivity|].
    destruct z as [|z]; [lia|]. destruct z' as [|z']; [lia|]. cbn [repeat firstn]. f_equal. apply IHn; lia.
  - destruct n as [|n]; [reflexivity|]. cbn [app firstn]. f_equal. apply IH; cbn [length] in *; lia.
Qed.

(* the behaviours of the first n calls of a scripted descriptor: the script, then the real call for ever *)
Definition padded (sc : list fbeh) (n : nat) : list fbeh := firstn n (sc ++ repeat FFull n).
Lemma padded_S sc : forall n, padded sc (S n) = padded sc n ++ [hd FFull (skipn n sc)].
Proof.
  induction sc as [|b sc IH]; intros n.
  - unfold padded. cbn [app]. rewrite skipn_nil. cbn [hd]. rewrite !firstn_all2 by (rewrite repeat_length; lia).
    replace (S n) with (n + 1)%nat by lia. rewrite repeat_app. reflexivity.
  - destruct n as [|n]; [reflexivity|]. unfold padded in *. cbn [app skipn]. rewrite !firstn_cons. cbn [app]. f_equal.
    rewrite (firstn_pad FFull sc (S n) (S (S n)) (S n)) by lia.
    rewrite IH. rewrite (firstn_pad FFull sc n (S n) n) by lia. reflexivity.
Qed.
Lemma tl_skipn {A} : forall n (l : list A), tl (skipn n l) = skipn (S n) l.
Proof.
  induction n as [|n IH]; intros l.
  - destruct l; reflexivity.
  - destruct l as [|a t]; [reflexivity|]. cbn [skipn]. rewrite IH. reflexivity.
Qed.

Definition logof (sc0 : list fbeh) (f : sfd) : list beh := map beh_of_f (padded sc0 (N.to_nat (f_calls f))).
Definition ScrInv (sc0 : list fbeh) (f : sfd) : Prop := f_script f = skipn (N.to_nat (f_calls f)) sc0.

Lemma log_step sc0 f f' : ScrInv sc0 f -> f_script f' = tl (f_script f) -> f_calls f' = f_calls f + 1 ->
  ScrInv sc0 f' /\ logof sc0 f' = logof sc0 f ++ [beh_of_f (hd FFull (f_script f))].
Proof.
  unfold ScrInv, logof. intros H1 H2 H3. rewrite H3.
  replace (N.to_nat (f_calls f + 1)) with (S (N.to_nat (f_calls f))) by lia. split.
  - rewrite H2, H1. apply tl_skipn.
  - rewrite padded_S, map_app, H1. reflexivity.
Qed.

(* two logs that agree on which calls were interrupted / failed hard look the same to the checker *)
Definition bsim (x y : beh) : Prop := is_hard x = is_hard y /\ is_eintr x = is_eintr y.
Lemma sim_flags d d' : Forall2 bsim d d' ->
  existsb is_hard d = existsb is_hard d' /\ is_eintr (last d Zero) = is_eintr (last d' Zero)
  /\ existsb is_hard (removelast d) = existsb is_hard (removelast d').
Proof.
  induction 1 as [|x y l l' Hxy Hl IH]; [auto|].
  destruct IH as (A & B & C). destruct Hxy as [Hh He].
  split; [cbn [existsb]; rewrite Hh, A; reflexivity|].
  destruct Hl as [|x2 y2 l2 l2' Hxy2 Hl2].
  - cbn [last removelast existsb]. auto.
  - change (last (x :: x2 :: l2) Zero) with (last (x2 :: l2) Zero).
    change (last (y :: y2 :: l2') Zero) with (last (y2 :: l2') Zero).
    change (removelast (x :: x2 :: l2)) with (x :: removelast (x2 :: l2)).
    change (removelast (y :: y2 :: l2')) with (y :: removelast (y2 :: l2')).
    split; [exact B|]. cbn [existsb]. rewrite Hh, C. reflexivity.
Qed.
Lemma sim_pad (l : list beh) : forall n z, Forall2 bsim (firstn n (l ++ repeat Zero z)) (firstn n (l ++ repeat Full z)).
Proof.
  induction l as [|b l IH]; intros n z.
  - cbn [app]. revert n. induction z as [|z IHz]; intros n.
    + destruct n; cbn [repeat firstn]; constructor.
    + destruct n; cbn [repeat firstn]; constructor; [split; reflexivity|apply IHz].
  - destruct n; cbn [app firstn]; constructor; [split; reflexivity|apply IH].
Qed.
Lemma map_repeat_c {A B} (g : A -> B) x n : map g (repeat x n) = repeat (g x) n.
Proof. induction n as [|n IH]; [reflexivity|]. cbn [repeat map]. rewrite IH. reflexivity. Qed.
Lemma logof_calls_made sc0 f :
  Forall2 bsim (calls_made (map beh_of_f sc0) (f_calls f)) (logof sc0 f).
Proof.
  unfold calls_made, logof, padded. rewrite <- firstn_map, map_app, map_repeat_c. cbn [beh_of_f]. apply sim_pad.
Qed.
Lemma logof_nil_clean f : existsb is_hard (logof [] f) = false.
Proof.
  unfold logof, padded. cbn [app]. rewrite firstn_all2 by (rewrite repeat_length; lia).
  rewrite map_repeat_c. cbn [beh_of_f]. induction (N.to_nat (f_calls f)) as [|n IH]; [reflexivity|].
  cbn [repeat existsb is_hard orb]. exact IH.
Qed.

(* ------------------------------------------------------------------ 0b. the measure of try_access *)
(* number of guest bytes at addresses >= cur *)
Definition rem_from (L : list region) (cur : N) : N :=
  fold_right (fun r acc => (g_start r + g_len r - N.max cur (g_start r)) + acc) 0 L.
Lemma rem_from_cons r L cur :
  rem_from (r :: L) cur = (g_start r + g_len r - N.max cur (g_start r)) + rem_from L cur.
Proof. reflexivity. Qed.
Lemma rem_from_total L cur : rem_from L cur <= total_len L.
Proof.
  induction L as [|r L IH]; [cbn; lia|]. rewrite rem_from_cons. cbn [total_len fold_right]. fold (total_len L). lia.
Qed.
Lemma rem_from_mono L a b : a <= b -> rem_from L b <= rem_from L a.
Proof. intros H. induction L as [|r L IH]; [cbn; lia|]. rewrite !rem_from_cons. lia. Qed.
Lemma rem_from_in L r cur : In r L -> contains r cur = true -> g_start r + g_len r - cur <= rem_from L cur.
Proof.
  intros Hin Hc. apply contains_iff in Hc. induction L as [|r0 L IH]; [destruct Hin|].
  rewrite rem_from_cons. destruct Hin as [->|Hin]; [lia|]. specialize (IH Hin). lia.
Qed.
Lemma rem_from_step L r cur k : In r L -> contains r cur = true -> cur + k <= g_start r + g_len r ->
  rem_from L (cur + k) + k <= rem_from L cur.
Proof.
  intros Hin Hc Hk. apply contains_iff in Hc. induction L as [|r0 L IH]; [destruct Hin|].
  rewrite !rem_from_cons. destruct Hin as [->|Hin].
  - pose proof (rem_from_mono L cur (cur + k)). lia.
  - specialize (IH Hin). lia.
Qed.

(* the two callbacks of guest_memory.rs:678-715, and exec14own with the endpoint taken apart *)
Definition cb_upto_l (F : nat) (call : callT sfd) : cbT sfd :=
  fun _ len caddr region s m => region_upto F call region caddr s m len.
Definition cb_all_e (ex : exactT) : cbT sfd :=
  fun _ len caddr region s m =>
    omap (fun x => (fst x, match snd x with GOk _ => GOk len | GErr e => GErr e end))
         (region_exact_e ex region caddr s m len).
Definition exec_ep (call : callT sfd) (ex : exactT) (c : case14own) : outcome ((sfd * list N) * (N * N * N)) :=
  let fl := fuel14own c in
  let s := init_of c in
  let m := w_mem c in
  let addr := w_addr c in
  let count := w_count c in
  match w_target c with
  | TSlice soff slen =>
      let self := {| vs_addr := HBASE + soff; vs_off := soff; vs_len := slen |} in
      if is_exact (w_op c)
      then omap (fun x => (fst x, rc_res okc_u (snd x))) (vs_exact_e ex self addr s m count)
      else omap (fun x => (fst x, rc_res okc_n (snd x))) (vs_upto fl call self addr s m count)
  | TRegion r =>
      if is_exact (w_op c)
      then omap (fun x => (fst x, rc_gres okc_u (snd x))) (region_exact_e ex r addr s m count)
      else omap (fun x => (fst x, rc_gres okc_n (snd x))) (region_upto fl call r addr s m count)
  | TGuest L =>
      match w_op c with
      | RdUpTo => omap (fun x => (fst x, rc_gres okc_n (snd x))) (gm_read_volatile_from (w_mode c) fl call L addr s m count)
      | RdExact => omap (fun x => (fst x, rc_gres okc_u (snd x))) (gm_read_exact_volatile_from (w_mode c) fl call L addr s m count)
      | WrUpTo => omap (fun x => (fst x, rc_gres okc_n (snd x))) (gm_write_volatile_to_e (w_mode c) fl ex L addr s m count)
      | WrAll => omap (fun x => (fst x, rc_gres okc_u (snd x)))
                      (gm_exact_of (gm_write_volatile_to_e (w_mode c) fl ex L addr s m count) count)
      end
  end.
Lemma exec14own_ep c :
  exec14own c = exec_ep (e_call (endpoint_of (w_mode c) (w_ek c) (is_read (w_op c))))
                        (e_exact (endpoint_of (w_mode c) (w_ek c) (is_read (w_op c))) (fuel14own c)) c.
Proof. reflexivity. Qed.

(* ------------------------------------------------------------------ 1. the generic development *)
Section Gen.
  Variable rd : bool.
  Variable pj : sfd -> list N.
  Variable Extra : sfd -> N -> sfd -> Prop.
  Variable call : callT sfd.
  Variable sc0 : list fbeh.
  Variable InvB : N -> sfd -> Prop.
  Variable zerr : ioerr.
  Hypothesis Extra_refl : forall f, Extra f 0 f.
  Hypothesis Extra_trans : forall f k1 f1 k2 f2, Extra f k1 f1 -> Extra f1 k2 f2 -> Extra f (k1 + k2) f2.
  Hypothesis Hzerr : zerr = EUnexpectedEof \/ zerr = EWriteZero.

  (* k bytes went from the reader to host memory at index base (rd) / from there to the writer *)
  Definition MovedL (f : sfd) (m : list N) (base k : N) (f' : sfd) (m' : list N) : Prop :=
    Extra f k f' /\
    if rd then pj f' = ndrop k (pj f) /\ k <= nlen (pj f) /\ m' = mem_write m base (ntake k (pj f))
    else pj f' = pj f ++ mem_read m base k /\ m' = m.

  (* the one-call contract *)
  Definition CallSpec : Prop := forall B f m v, InvB B f -> in_bounds v m -> vs_len v <= B ->
    exists f' m' r k, call f m v = Val ((f', m'), r)
      /\ f_script f' = tl (f_script f) /\ f_calls f' = f_calls f + 1
      /\ MovedL f m (vs_off v) k f' m' /\ k <= vs_len v /\ InvB (B - k) f'
      /\ match hd FFull (f_script f) with
         | FEintr => r = Err (VIo EInterrupted) /\ k = 0
         | FErr => r = Err (VIo EOther) /\ k = 0
         | _ => r = Ok k
         end.
  Hypothesis Hcall : CallSpec.

  Lemma MovedL_refl f m base : MovedL f m base 0 f m.
  Proof.
    split; [apply Extra_refl|]. destruct rd.
    - rewrite ndrop_0, ntake_0, mem_write_nil. repeat split; try reflexivity. lia.
    - unfold mem_read. rewrite ntake_0, app_nil_r. auto.
  Qed.
  Lemma MovedL_trans f m base k1 f1 m1 k2 f2 m2 : base + k1 + k2 <= nlen m ->
    MovedL f m base k1 f1 m1 -> MovedL f1 m1 (base + k1) k2 f2 m2 -> MovedL f m base (k1 + k2) f2 m2.
  Proof.
    intros Hb [E1 H1] [E2 H2]. split; [eapply Extra_trans; eassumption|]. destruct rd.
    - destruct H1 as (A1 & A2 & A3). destruct H2 as (B1 & B2 & B3). rewrite A1 in B1, B2, B3. rewrite nlen_ndrop in B2.
      repeat split.
      + rewrite B1, ndrop_ndrop. reflexivity.
      + lia.
      + rewrite B3, A3. rewrite ntake_app_ndrop.
        replace (base + k1) with (base + nlen (ntake k1 (pj f))) by (rewrite nlen_ntake; lia).
        apply mem_write_app. rewrite nlen_ntake. lia.
    - destruct H1 as (A1 & A2). destruct H2 as (B1 & B2). subst m1 m2. split; [|reflexivity].
      rewrite B1, A1, mem_read_app, app_assoc. reflexivity.
  Qed.
  Lemma MovedL_zero_mem f m base f' m' : MovedL f m base 0 f' m' -> m' = m.
  Proof.
    intros [_ H]. destruct rd.
    - destruct H as (_ & _ & H). rewrite ntake_0, mem_write_nil in H. exact H.
    - destruct H as (_ & H). exact H.
  Qed.
  Lemma MovedL_len f m base k f' m' : base + k <= nlen m -> MovedL f m base k f' m' -> nlen m' = nlen m.
  Proof.
    intros Hb [_ H]. destruct rd.
    - destruct H as (_ & Hk & H). subst m'. apply mem_write_length. rewrite nlen_ntake. lia.
    - destruct H as (_ & H). subst. reflexivity.
  Qed.

  Lemma length_tl_lt {A} (l : list A) : l <> [] -> (length (tl l) < length l)%nat.
  Proof. destruct l; [congruence|]. cbn [tl length]. lia. Qed.

  (* ---------------------------------------------------------------- retry_eintr! *)
  Lemma retry_spec : forall fuel B f m v, (length (f_script f) < fuel)%nat -> InvB B f -> ScrInv sc0 f ->
    in_bounds v m -> vs_len v <= B ->
    exists f' m' r j b k, retry_eintr fuel call f m v = Val ((f', m'), r)
      /\ ScrInv sc0 f' /\ logof sc0 f' = logof sc0 f ++ repeat Eintr j ++ [b] /\ is_eintr b = false
      /\ (length (f_script f') <= length (f_script f))%nat
      /\ MovedL f m (vs_off v) k f' m' /\ k <= vs_len v /\ InvB (B - k) f'
      /\ ((is_hard b = true /\ r = Err (VIo EOther) /\ k = 0) \/ (is_hard b = false /\ r = Ok k)).
  Proof.
    induction fuel as [|fl IH]; intros B f m v Hf Hi Hs Hb HB; [lia|].
    cbn [retry_eintr].
    destruct (Hcall B f m v Hi Hb HB) as (f1 & m1 & r1 & k & Hc & Hsc & Hcl & HM & Hk & Hi1 & Hcase).
    rewrite Hc. cbn [bind].
    destruct (log_step sc0 f f1 Hs Hsc Hcl) as [Hs1 Hlog].
    assert (Hlen : (length (f_script f1) <= length (f_script f))%nat) by (rewrite Hsc; apply length_tl).
    destruct (hd FFull (f_script f)) eqn:E; cbn [beh_of_f] in Hlog.
    - subst r1. exists f1, m1, (Ok k), 0%nat, Full, k. cbn [repeat app].
      split; [reflexivity|]. split; [exact Hs1|]. split; [exact Hlog|]. split; [reflexivity|]. split; [exact Hlen|].
      split; [exact HM|]. split; [exact Hk|]. split; [exact Hi1|]. right. split; reflexivity.
    - subst r1. exists f1, m1, (Ok k), 0%nat, (Short k0), k. cbn [repeat app].
      split; [reflexivity|]. split; [exact Hs1|]. split; [exact Hlog|]. split; [reflexivity|]. split; [exact Hlen|].
      split; [exact HM|]. split; [exact Hk|]. split; [exact Hi1|]. right. split; reflexivity.
    - subst r1. exists f1, m1, (Ok k), 0%nat, Zero, k. cbn [repeat app].
      split; [reflexivity|]. split; [exact Hs1|]. split; [exact Hlog|]. split; [reflexivity|]. split; [exact Hlen|].
      split; [exact HM|]. split; [exact Hk|]. split; [exact Hi1|]. right. split; reflexivity.
    - destruct Hcase as [-> ->].
      assert (Hm1 : m1 = m) by (eapply MovedL_zero_mem; exact HM). subst m1.
      assert (Hne : f_script f <> []) by (intros E0; rewrite E0 in E; discriminate).
      assert (Hf1 : (length (f_script f1) < fl)%nat).
      { rewrite Hsc. pose proof (length_tl_lt _ Hne). lia. }
      rewrite N.sub_0_r in Hi1.
      destruct (IH B f1 m v Hf1 Hi1 Hs1 Hb HB) as (f2 & m2 & r2 & j & b & k2 & Hr & Hs2 & Hd2 & Hb2 & Hl2 & HM2 & Hk2 & Hi2 & Hres).
      exists f2, m2, r2, (S j), b, k2. split; [exact Hr|]. split; [exact Hs2|]. split.
      { rewrite Hd2, Hlog. rewrite <- app_assoc. reflexivity. }
      split; [exact Hb2|]. split; [lia|]. split.
      { replace k2 with (0 + k2) by lia. eapply MovedL_trans; [|exact HM|rewrite N.add_0_r; exact HM2].
        unfold in_bounds in Hb. lia. }
      split; [exact Hk2|]. split; [exact Hi2|]. exact Hres.
    - destruct Hcase as [-> ->].
      exists f1, m1, (Err (VIo EOther)), 0%nat, HardErr, 0. cbn [repeat app].
      split; [reflexivity|]. split; [exact Hs1|]. split; [exact Hlog|]. split; [reflexivity|]. split; [exact Hlen|].
      split; [exact HM|]. split; [lia|]. split; [exact Hi1|]. left. auto.
  Qed.

  (* ---------------------------------------------------------------- the exact contract *)
  Definition ExactConcl (f : sfd) (m : list N) (pb : vslice) (B : N) (f' : sfd) (m' : list N) (r : res unit) (k : N) : Prop :=
    ScrInv sc0 f' /\ (length (f_script f') <= length (f_script f))%nat
    /\ MovedL f m (vs_off pb) k f' m' /\ k <= vs_len pb /\ InvB (B - k) f'
    /\ ((r = Ok tt /\ k = vs_len pb /\ Clean (logof sc0 f'))
        \/ (r = Err (VIo zerr) /\ k < vs_len pb /\ Clean (logof sc0 f'))
        \/ (r = Err (VIo EOther) /\ k < vs_len pb /\ HardEnd (logof sc0 f'))).

  Lemma exact_loop_spec fi : forall fuel B f m pb,
    (N.to_nat (vs_len pb) < fuel)%nat -> (length (f_script f) < fi)%nat -> InvB B f -> ScrInv sc0 f -> in_bounds pb m ->
    vs_addr pb + vs_len pb < W64 -> vs_len pb <= B -> Clean (logof sc0 f) ->
    exists f' m' r k, exact_loop zerr fi fuel call f m pb = Val ((f', m'), r) /\ ExactConcl f m pb B f' m' r k.
  Proof.
    induction fuel as [|fl IH]; intros B f m pb Hf Hfi Hi Hs Hb Ha HB Hc; [lia|].
    cbn [exact_loop]. destruct (N.eqb_spec (vs_len pb) 0) as [Hz|Hz].
    - exists f, m, (Ok tt), 0. split; [reflexivity|]. split; [exact Hs|]. split; [lia|]. split; [apply MovedL_refl|].
      split; [lia|]. split; [rewrite N.sub_0_r; exact Hi|]. left. auto.
    - destruct (retry_spec fi B f m pb Hfi Hi Hs Hb HB)
        as (f1 & m1 & r1 & j & b & k & Hr & Hs1 & Hd & Hbe & Hl & HM & Hk & Hi1 & Hres).
      rewrite Hr. cbn [bind].
      destruct Hres as [(Hh & -> & ->)|(Hh & ->)].
      + exists f1, m1, (Err (VIo EOther)), 0. split; [reflexivity|]. split; [exact Hs1|]. split; [exact Hl|].
        split; [exact HM|]. split; [lia|]. split; [exact Hi1|]. right. right. split; [reflexivity|]. split; [lia|].
        rewrite Hd. destruct b; try discriminate. apply HardEnd_step. exact Hc.
      + assert (Hc1 : Clean (logof sc0 f1)) by (rewrite Hd; apply Clean_step; assumption).
        destruct (N.eqb_spec k 0) as [Hk0|Hk0].
        * subst k. exists f1, m1, (Err (VIo zerr)), 0. split; [reflexivity|]. split; [exact Hs1|]. split; [exact Hl|].
          split; [exact HM|]. split; [lia|]. split; [exact Hi1|]. right. left. split; [reflexivity|]. split; [lia|]. exact Hc1.
        * rewrite (vs_offset_ok pb k Ha Hk).
          assert (Hlm : nlen m1 = nlen m) by (eapply MovedL_len; [|exact HM]; unfold in_bounds in Hb; lia).
          set (pb' := {| vs_addr := vs_addr pb + k; vs_off := vs_off pb + k; vs_len := vs_len pb - k |}).
          destruct (IH (B - k) f1 m1 pb') as (f2 & m2 & r2 & k2 & He & Hs2 & Hl2 & HM2 & Hk2 & Hi2 & Hres2).
          { unfold pb'. cbn [vs_len]. lia. } { lia. } { exact Hi1. } { exact Hs1. }
          { unfold in_bounds, pb' in *. cbn [vs_off vs_len]. lia. }
          { unfold pb'. cbn [vs_addr vs_len]. lia. }
          { unfold pb'. cbn [vs_len]. lia. }
          { exact Hc1. }
          exists f2, m2, r2, (k + k2). split; [exact He|]. unfold pb' in *. cbn [vs_off vs_len] in *.
          split; [exact Hs2|]. split; [lia|].
          split. { eapply MovedL_trans; [|exact HM|exact HM2]. unfold in_bounds in Hb. lia. }
          split; [lia|]. split. { replace (B - (k + k2)) with (B - k - k2) by lia. exact Hi2. }
          destruct Hres2 as [(-> & Hk2e & Hc2)|[(-> & Hk2e & Hc2)|(-> & Hk2e & Hc2)]].
          -- left. split; [reflexivity|]. split; [lia|exact Hc2].
          -- right. left. split; [reflexivity|]. split; [lia|exact Hc2].
          -- right. right. split; [reflexivity|]. split; [lia|exact Hc2].
  Qed.

  Definition ExactSpec (ex : exactT) (F : nat) : Prop := forall B f m pb,
    (N.to_nat (vs_len pb) < F)%nat -> (length (f_script f) < F)%nat -> InvB B f -> ScrInv sc0 f -> in_bounds pb m ->
    vs_addr pb + vs_len pb < W64 -> vs_len pb <= B -> Clean (logof sc0 f) ->
    exists f' m' r k, ex f m pb = Val ((f', m'), r) /\ ExactConcl f m pb B f' m' r k.

  (* the provided loops (io.rs:56-78, :102-124) *)
  Lemma exact_volatile_spec F : ExactSpec (exact_volatile zerr F call) F.
  Proof.
    intros B f m pb Hf Hfi Hi Hs Hb Ha HB Hc. unfold exact_volatile.
    rewrite (vs_offset_ok pb 0) by lia.
    set (pb' := {| vs_addr := vs_addr pb + 0; vs_off := vs_off pb + 0; vs_len := vs_len pb - 0 |}).
    destruct (exact_loop_spec F F B f m pb') as (f1 & m1 & r1 & k & He & Hs1 & Hl & HM & Hk & Hi1 & Hres); auto.
    { unfold pb'. cbn [vs_len]. lia. }
    { unfold in_bounds, pb' in *. cbn [vs_off vs_len]. lia. }
    { unfold pb'. cbn [vs_addr vs_len]. lia. }
    { unfold pb'. cbn [vs_len]. lia. }
    exists f1, m1, r1, k. split; [exact He|]. unfold pb' in *. cbn [vs_off vs_len] in *.
    rewrite N.add_0_r in HM. rewrite N.sub_0_r in Hk, Hres. split; [exact Hs1|]. split; [exact Hl|].
    split; [exact HM|]. split; [exact Hk|]. split; [exact Hi1|]. exact Hres.
  Qed.

  (* ---------------------------------------------------------------- the address map *)
  (* k bytes went from the reader to target addresses a.. (rd) / from there to the writer *)
  Definition GMovedL (t : target) (f : sfd) (m : list N) (a k : N) (f' : sfd) (m' : list N) : Prop :=
    Extra f k f' /\
    if rd then pj f' = ndrop k (pj f) /\ k <= nlen (pj f) /\ flat_write t m a (ntake k (pj f)) = Some m'
    else exists bs, flat_read t m a (N.to_nat k) = Some bs /\ pj f' = pj f ++ bs /\ m' = m.

  Lemma MovedL_GMovedL t f m a j k f' m' : Run t m a j k -> MovedL f m j k f' m' -> GMovedL t f m a k f' m'.
  Proof.
    intros HR [E H]. split; [exact E|]. destruct rd.
    - destruct H as (A1 & A2 & A3). repeat split; auto. subst m'. apply flat_write_run.
      rewrite nlen_ntake. replace (N.min k (nlen (pj f))) with k by lia. exact HR.
    - destruct H as (A1 & A2). exists (mem_read m j k). repeat split; auto.
      rewrite <- (N2Nat.id k) at 2. apply flat_read_run. rewrite N2Nat.id. exact HR.
  Qed.
  Lemma GMovedL_refl t f m a : GMovedL t f m a 0 f m.
  Proof.
    split; [apply Extra_refl|]. destruct rd.
    - rewrite ndrop_0, ntake_0. cbn [flat_write]. repeat split; auto. lia.
    - exists []. cbn [N.to_nat flat_read]. rewrite app_nil_r. auto.
  Qed.
  Lemma GMovedL_trans t f m a k1 f1 m1 k2 f2 m2 :
    GMovedL t f m a k1 f1 m1 -> GMovedL t f1 m1 (a + k1) k2 f2 m2 -> GMovedL t f m a (k1 + k2) f2 m2.
  Proof.
    intros [E1 H1] [E2 H2]. split; [eapply Extra_trans; eassumption|]. destruct rd.
    - destruct H1 as (A1 & A2 & A3). destruct H2 as (B1 & B2 & B3). rewrite A1 in B1, B2, B3. rewrite nlen_ndrop in B2.
      repeat split.
      + rewrite B1, ndrop_ndrop. reflexivity.
      + lia.
      + rewrite ntake_app_ndrop, flat_write_app, A3. rewrite nlen_ntake.
        replace (N.min k1 (nlen (pj f))) with k1 by lia. exact B3.
    - destruct H1 as (b1 & A1 & A2 & A3). destruct H2 as (b2 & B1 & B2 & B3). subst m1 m2.
      exists (b1 ++ b2). repeat split.
      + rewrite N2Nat.inj_add, flat_read_app, A1. rewrite N2Nat.id, B1. reflexivity.
      + rewrite B2, A2, app_assoc. reflexivity.
  Qed.

  (* ---------------------------------------------------------------- slices and regions *)
  (* what the checker demands, as a proposition about the final state of the model *)
  Definition PostL (exact : bool) (t : target) (addr count : N) (f0 : sfd) (m0 : list N)
    (f' : sfd) (m' : list N) (rc : N * N * N) : Prop :=
    ScrInv sc0 f' /\
    exists k, GMovedL t f0 m0 addr k f' m' /\ k <= count /\ LogRes (logof sc0 f') (rk_of rc) /\
      (if exact then rk_of rc <> 0 /\
                     (existsb is_hard (logof sc0 f') = false -> judged t addr count -> (rk_of rc = 1 <-> k = count))
       else rk_of rc <> 1 /\ (rk_of rc = 0 -> snd (fst rc) = k)).

  Lemma rk_zerr_u : rk_of (rc_res okc_u (@Err unit (VIo zerr))) = rc_io zerr.
  Proof. reflexivity. Qed.
  Lemma rc_zerr : rc_io zerr = 2 \/ rc_io zerr = 3.
  Proof. destruct Hzerr as [->| ->]; cbn [rc_io]; auto. Qed.

  Lemma vs_upto_post t self fuel B f m addr count :
    window_of t self -> in_bounds self m -> vs_addr self + vs_len self < W64 -> vs_len self <= B ->
    (length (f_script f) < fuel)%nat -> InvB B f -> ScrInv sc0 f -> Clean (logof sc0 f) ->
    exists f' m' r, vs_upto fuel call self addr f m count = Val ((f', m'), r)
      /\ PostL false t addr count f m f' m' (rc_res okc_n r).
  Proof.
    intros Hw Hb Ha HB Hf Hi Hs Hc. unfold vs_upto.
    destruct (N.le_gt_cases addr (vs_len self)) as [Hle|Hgt].
    - rewrite (vs_offset_ok self addr Ha Hle).
      set (sl := {| vs_addr := vs_addr self + addr; vs_off := vs_off self + addr; vs_len := vs_len self - addr |}).
      set (n := N.min (vs_len sl) count).
      assert (Hn : n <= vs_len self - addr) by (unfold n, sl; cbn [vs_len]; lia).
      unfold vs_subslice, checked_add. rewrite N.add_0_l.
      destruct (N.ltb_spec n W64) as [_|Hbad]; [|lia].
      destruct (N.ltb_spec (vs_len sl) n) as [Hbad|_]; [unfold sl in Hbad; cbn [vs_len] in Hbad; lia|].
      set (sl2 := {| vs_addr := vs_addr sl + 0; vs_off := vs_off sl + 0; vs_len := n |}).
      assert (Hb2 : in_bounds sl2 m).
      { unfold in_bounds, sl2, sl in *. cbn [vs_off vs_len]. lia. }
      assert (HB2 : vs_len sl2 <= B) by (unfold sl2; cbn [vs_len]; lia).
      destruct (retry_spec fuel B f m sl2 Hf Hi Hs Hb2 HB2)
        as (f1 & m1 & r1 & j & b & k & Hr & Hs1 & Hd & Hbe & Hl & HM & Hk & Hi1 & Hres).
      exists f1, m1, r1. split; [exact Hr|]. split; [exact Hs1|].
      exists k. split.
      { eapply MovedL_GMovedL; [|exact HM]. split.
        - intros i Hi'. rewrite Hw. unfold sl2, sl in *. cbn [vs_off vs_len] in *.
          destruct (N.ltb_spec (addr + i) (vs_len self)); [f_equal; lia|lia].
        - unfold in_bounds, sl2, sl in *. cbn [vs_off vs_len] in *. lia. }
      split. { unfold sl2 in Hk. cbn [vs_len] in Hk. unfold n in Hk. lia. }
      destruct Hres as [(Hh & -> & ->)|(Hh & ->)].
      + cbn [rc_res rk_of fst snd rc_io]. split.
        * apply LogRes_hard. rewrite Hd. destruct b; try discriminate. apply HardEnd_step. exact Hc.
        * split; [lia|intros; lia].
      + cbn [rc_res rk_of fst snd okc_n]. split.
        * apply LogRes_clean; [|lia|lia]. rewrite Hd. apply Clean_step; assumption.
        * split; [lia|reflexivity].
    - destruct (vs_offset_err self addr Hgt) as (e & -> & He).
      exists f, m, (Err e). split; [reflexivity|]. split; [exact Hs|].
      exists 0. split; [apply GMovedL_refl|]. split; [lia|].
      assert (E : rc_res okc_n (@Err N e) = (6, 0, 0)) by (destruct He; subst; reflexivity).
      rewrite E. cbn [rk_of fst snd]. split; [apply LogRes_clean; [exact Hc|lia|lia]|]. split; [lia|intros; lia].
  Qed.

  Section WithExact.
  Variable ex : exactT.
  Variable F : nat.
  Hypothesis Hex : ExactSpec ex F.

  Lemma vs_exact_e_post t self B f m addr count :
    window_of t self -> in_bounds self m -> vs_addr self + vs_len self < W64 -> vs_len self <= B ->
    (N.to_nat (vs_len self) < F)%nat -> (length (f_script f) < F)%nat -> InvB B f -> ScrInv sc0 f -> Clean (logof sc0 f) ->
    addr < W64 -> count < W64 ->
    exists f' m' r, vs_exact_e ex self addr f m count = Val ((f', m'), r)
      /\ PostL true t addr count f m f' m' (rc_res okc_u r).
  Proof.
    intros Hw Hb Ha HB HF Hf Hi Hs Hc Haddr Hcount. unfold vs_exact_e, vs_subslice, checked_add.
    assert (Hnj : vs_len self < addr + count -> judged t addr count -> 0 <> count).
    { intros Hlt [Hj|Hj]; [lia|]. rewrite Hw in Hj. destruct (N.ltb_spec addr (vs_len self)); [lia|congruence]. }
    destruct (N.ltb_spec (addr + count) W64) as [Hfit|Hovf].
    - destruct (N.ltb_spec (vs_len self) (addr + count)) as [Hout|Hin].
      + exists f, m, (Err VOutOfBounds). split; [reflexivity|]. split; [exact Hs|].
        exists 0. split; [apply GMovedL_refl|]. split; [lia|]. cbn [rc_res rk_of fst snd].
        split; [apply LogRes_clean; [exact Hc|lia|lia]|]. split; [lia|].
        intros _ Hj. split; [lia|]. intros E. exfalso. apply (Hnj Hout Hj). exact E.
      + set (sl := {| vs_addr := vs_addr self + addr; vs_off := vs_off self + addr; vs_len := count |}).
        destruct (Hex B f m sl) as (f1 & m1 & r1 & k & He & Hs1 & Hl & HM & Hk & Hi1 & Hres); auto.
        { unfold sl. cbn [vs_len]. lia. }
        { unfold in_bounds, sl in *. cbn [vs_off vs_len]. lia. }
        { unfold sl. cbn [vs_addr vs_len]. lia. }
        { unfold sl. cbn [vs_len]. lia. }
        exists f1, m1, r1. split; [exact He|]. split; [exact Hs1|].
        exists k. split.
        { eapply MovedL_GMovedL; [|exact HM]. unfold sl in *. cbn [vs_off vs_len] in *. split.
          - intros i Hi'. rewrite Hw. destruct (N.ltb_spec (addr + i) (vs_len self)); [f_equal; lia|lia].
          - unfold in_bounds in Hb. lia. }
        unfold sl in Hk, Hres. cbn [vs_len] in Hk, Hres. split; [lia|].
        destruct Hres as [(-> & Hke & Hc1)|[(-> & Hke & Hc1)|(-> & Hke & Hc1)]].
        * cbn [rc_res rk_of fst snd okc_u]. split; [apply LogRes_clean; [exact Hc1|lia|lia]|]. split; [lia|].
          intros _ _. split; [lia|reflexivity].
        * rewrite rk_zerr_u. pose proof rc_zerr as Hz.
          split; [apply LogRes_clean; [exact Hc1|lia|lia]|].
          split; [lia|]. intros _ _. split; lia.
        * cbn [rc_res rk_of fst snd rc_io]. split; [apply LogRes_hard; exact Hc1|]. split; [lia|].
          intros Hh. rewrite (HardEnd_exists _ Hc1) in Hh. discriminate.
    - exists f, m, (Err VOverflow). split; [reflexivity|]. split; [exact Hs|].
      exists 0. split; [apply GMovedL_refl|]. split; [lia|]. cbn [rc_res rk_of fst snd].
      split; [apply LogRes_clean; [exact Hc|lia|lia]|]. split; [lia|].
      intros _ Hj. split; [lia|]. intros E. exfalso. apply Hnj; [|exact Hj|exact E].
      unfold in_bounds in Hb. lia.
  Qed.

  (* ---------------------------------------------------------------- guest memory *)
  Lemma vs_upto_in self fuel B f m addr count :
    in_bounds self m -> vs_addr self + vs_len self < W64 -> addr <= vs_len self -> (length (f_script f) < fuel)%nat ->
    InvB B f -> ScrInv sc0 f -> N.min (vs_len self - addr) count <= B ->
    exists f' m' r j b k, vs_upto fuel call self addr f m count = Val ((f', m'), r)
      /\ ScrInv sc0 f' /\ logof sc0 f' = logof sc0 f ++ repeat Eintr j ++ [b] /\ is_eintr b = false
      /\ (length (f_script f') <= length (f_script f))%nat
      /\ MovedL f m (vs_off self + addr) k f' m' /\ k <= N.min (vs_len self - addr) count /\ InvB (B - k) f'
      /\ ((is_hard b = true /\ r = Err (VIo EOther) /\ k = 0) \/ (is_hard b = false /\ r = Ok k)).
  Proof.
    intros Hb Ha Hle Hf Hi Hs HB. unfold vs_upto. rewrite (vs_offset_ok self addr Ha Hle).
    set (sl := {| vs_addr := vs_addr self + addr; vs_off := vs_off self + addr; vs_len := vs_len self - addr |}).
    set (n := N.min (vs_len sl) count).
    assert (Hn : n <= vs_len self - addr) by (unfold n, sl; cbn [vs_len]; lia).
    unfold vs_subslice, checked_add. rewrite N.add_0_l.
    destruct (N.ltb_spec n W64) as [_|Hbad]; [|lia].
    destruct (N.ltb_spec (vs_len sl) n) as [Hbad|_]; [unfold sl in Hbad; cbn [vs_len] in Hbad; lia|].
    set (sl2 := {| vs_addr := vs_addr sl + 0; vs_off := vs_off sl + 0; vs_len := n |}).
    assert (Hb2 : in_bounds sl2 m).
    { unfold in_bounds, sl2, sl in *. cbn [vs_off vs_len]. lia. }
    assert (HB2 : vs_len sl2 <= B) by (unfold sl2, n, sl; cbn [vs_len]; exact HB).
    destruct (retry_spec fuel B f m sl2 Hf Hi Hs Hb2 HB2)
      as (f1 & m1 & r1 & j & b & k & Hr & Hs1 & Hd & Hbe & Hl & HM & Hk & Hi1 & Hres).
    exists f1, m1, r1, j, b, k. unfold sl2, sl in HM, Hk. cbn [vs_off vs_len] in HM, Hk.
    rewrite N.add_0_r in HM. unfold n, sl in Hk. cbn [vs_len] in Hk.
    split; [exact Hr|]. split; [exact Hs1|]. split; [exact Hd|]. split; [exact Hbe|]. split; [exact Hl|].
    split; [exact HM|]. split; [exact Hk|]. split; [exact Hi1|]. exact Hres.
  Qed.

  Lemma vs_exact_e_in self B f m addr count :
    in_bounds self m -> vs_addr self + vs_len self < W64 -> addr + count <= vs_len self ->
    (N.to_nat count < F)%nat -> (length (f_script f) < F)%nat -> InvB B f -> ScrInv sc0 f -> count <= B ->
    Clean (logof sc0 f) ->
    exists f' m' r k, vs_exact_e ex self addr f m count = Val ((f', m'), r)
      /\ ScrInv sc0 f' /\ (length (f_script f') <= length (f_script f))%nat
      /\ MovedL f m (vs_off self + addr) k f' m' /\ k <= count /\ InvB (B - k) f'
      /\ ((r = Ok tt /\ k = count /\ Clean (logof sc0 f'))
          \/ (r = Err (VIo zerr) /\ k < count /\ Clean (logof sc0 f'))
          \/ (r = Err (VIo EOther) /\ k < count /\ HardEnd (logof sc0 f'))).
  Proof.
    intros Hb Ha Hle HF Hf Hi Hs HB Hc. unfold vs_exact_e, vs_subslice, checked_add.
    destruct (N.ltb_spec (addr + count) W64) as [_|Hbad]; [|unfold in_bounds in Hb; lia].
    destruct (N.ltb_spec (vs_len self) (addr + count)) as [Hbad|_]; [lia|].
    set (sl := {| vs_addr := vs_addr self + addr; vs_off := vs_off self + addr; vs_len := count |}).
    destruct (Hex B f m sl) as (f1 & m1 & r1 & k & He & Hs1 & Hl & HM & Hk & Hi1 & Hres); auto.
    { unfold in_bounds, sl in *. cbn [vs_off vs_len]. lia. }
    { unfold sl. cbn [vs_addr vs_len]. lia. }
    exists f1, m1, r1, k. unfold sl in HM, Hk, Hres. cbn [vs_off vs_len] in HM, Hk, Hres.
    split; [exact He|]. split; [exact Hs1|]. split; [exact Hl|]. split; [exact HM|]. split; [exact Hk|].
    split; [exact Hi1|]. exact Hres.
  Qed.

  Definition CbSpec (L : list region) (M : N) (cb : cbT sfd) : Prop :=
    forall B total len start region f m, In region L -> start + len <= g_len region -> nlen m = M ->
      (length (f_script f) < F)%nat -> InvB B f -> ScrInv sc0 f -> len <= B -> Clean (logof sc0 f) ->
      exists f' m' r k, cb total len start region f m = Val ((f', m'), r)
        /\ ScrInv sc0 f' /\ (length (f_script f') <= length (f_script f))%nat /\ InvB (B - k) f'
        /\ MovedL f m (g_moff region + start) k f' m' /\ k <= len
        /\ ((r = GOk k /\ Clean (logof sc0 f'))
            \/ (r = GErr (GIo EOther) /\ HardEnd (logof sc0 f'))
            \/ (exists e, r = GErr (GIo e) /\ (e = EUnexpectedEof \/ e = EWriteZero) /\ Clean (logof sc0 f') /\ k < len)).

  Lemma try_access_post md L M cb count addr :
    wf_regions L 0 = true -> total_len L = M -> CbSpec L M cb -> count < W64 ->
    forall fuel B cur total f m, (N.to_nat (rem_from L cur) < fuel)%nat -> rem_from L cur <= B ->
      (length (f_script f) < F)%nat -> InvB B f -> ScrInv sc0 f ->
      Clean (logof sc0 f) -> nlen m = M -> cur < W64 -> (total = 0 -> cur = addr) -> (total < count \/ total = 0) ->
    exists f' m' r K, try_access md fuel L count addr cb cur total f m = Val ((f', m'), r)
      /\ ScrInv sc0 f'
      /\ GMovedL (TGuest L) f m cur K f' m' /\ total + K <= count
      /\ ((r = GOk (total + K) /\ Clean (logof sc0 f') /\ total + K <= count)
          \/ (r = GErr GInvalidGuestAddress /\ total = 0 /\ K = 0 /\ Clean (logof sc0 f') /\ idx_of (TGuest L) addr = None)
          \/ (r = GErr (GIo EOther) /\ HardEnd (logof sc0 f'))
          \/ (exists e, r = GErr (GIo e) /\ (e = EUnexpectedEof \/ e = EWriteZero) /\ Clean (logof sc0 f') /\ total + K < count)).
  Proof.
    intros Hwf HM Hcb Hcount.
    induction fuel as [|fl IH]; intros B cur total f m Hfu HrB Hf Hi Hs Hc Hm Hcur Hta Htot; [lia|].
    cbn [try_access]. unfold find_region.
    destruct (find (fun r => contains r cur) L) as [region|] eqn:Efind.
    2:{ exists f, m. destruct (N.eqb_spec total 0) as [Hz|Hz].
      - exists (GErr GInvalidGuestAddress), 0. split; [reflexivity|]. split; [exact Hs|]. split; [apply GMovedL_refl|].
        split; [lia|].
        right. left. split; [reflexivity|]. split; [exact Hz|]. split; [reflexivity|]. split; [exact Hc|].
        cbn [idx_of]. rewrite <- (Hta Hz). rewrite Efind. reflexivity.
      - exists (GOk total), 0. split; [reflexivity|]. split; [exact Hs|]. split; [apply GMovedL_refl|].
        split; [lia|].
        left. rewrite N.add_0_r. split; [reflexivity|]. split; [exact Hc|]. lia. }
    apply find_some in Efind. destruct Efind as [Hin Hcont].
    destruct (wf_regions_in L 0 region Hwf Hin) as (Hlen & Hend & _ & Hmoff).
    pose proof Hcont as Hcont'. apply contains_iff in Hcont'.
    pose proof (rem_from_in L region cur Hin Hcont) as Hrem.
    unfold to_region_addr, checked_sub.
    destruct (N.leb_spec (g_start region) cur) as [_|Hbad]; [|lia].
    destruct (N.ltb_spec (cur - g_start region) (g_len region)) as [_|Hbad]; [|lia].
    set (start := cur - g_start region).
    rewrite psub_Val by (unfold start; lia). rewrite psub_Val by lia. cbn [bind].
    set (len := N.min (g_len region - start) (count - total)).
    destruct (Hcb B total len start region f m Hin) as (f1 & m1 & r1 & k & Hcall' & Hs1 & Hl & Hi1 & HMv & Hk & Hres); auto.
    { unfold len. lia. }
    { unfold len, start. lia. }
    rewrite Hcall'. cbn [bind].
    assert (HG : GMovedL (TGuest L) f m cur k f1 m1).
    { eapply MovedL_GMovedL; [|exact HMv]. split.
      - intros i Hi'. cbn [idx_of]. rewrite (find_unique L 0 region (cur + i) Hwf Hin).
        + f_equal. unfold start. lia.
        + apply contains_iff. unfold len, start in *. lia.
      - unfold len, start in *. lia. }
    assert (Hm1 : nlen m1 = M).
    { rewrite <- Hm. eapply MovedL_len; [|exact HMv]. unfold len, start in *. lia. }
    destruct Hres as [(-> & Hc1)|[(-> & Hc1)|(e & -> & He & Hc1 & Hklt)]].
    - destruct (N.eqb_spec k 0) as [Hk0|Hk0].
      + subst k. exists f1, m1, (GOk total), 0. split; [reflexivity|]. split; [exact Hs1|]. split; [exact HG|].
        split; [lia|].
        left. rewrite N.add_0_r. split; [reflexivity|]. split; [exact Hc1|]. lia.
      + unfold checked_add. destruct (N.ltb_spec (total + k) W64) as [_|Hbad]; [|unfold len in Hk; lia].
        destruct (N.ltb_spec (total + k) count) as [Hmore|Hdone].
        * unfold overflowing_add. destruct (N.leb_spec W64 (cur + k)) as [Hbad|_];
            [unfold len, start in Hk; lia|]. cbn [negb].
          rewrite N.mod_small by (unfold len, start in Hk; lia).
          assert (Hstep : rem_from L (cur + k) + k <= rem_from L cur).
          { apply (rem_from_step L region cur k Hin Hcont). unfold len, start in Hk. lia. }
          destruct (IH (B - k) (cur + k) (total + k) f1 m1) as (f2 & m2 & r2 & K2 & Hrec & Hs2 & HG2 & HK2 & Hres2); auto.
          { lia. } { lia. } { lia. } { unfold len, start in Hk; lia. } { intros; lia. }
          exists f2, m2, r2, (k + K2). split; [exact Hrec|]. split; [exact Hs2|].
          split; [eapply GMovedL_trans; eassumption|].
          rewrite N.add_assoc. split; [exact HK2|].
          destruct Hres2 as [(-> & A & A')|[(-> & A & _)|[(-> & A)|(e & -> & A & A' & A'')]]].
          -- left. auto.
          -- exfalso. lia.
          -- right. right. left. auto.
          -- right. right. right. exists e. auto.
        * destruct (N.eqb_spec (total + k) count) as [Heq|Hne]; [|exfalso; unfold len in Hk; lia].
          exists f1, m1, (GOk (total + k)), k. split; [reflexivity|]. split; [exact Hs1|]. split; [exact HG|].
          split; [lia|].
          left. split; [reflexivity|]. split; [exact Hc1|]. lia.
    - exists f1, m1, (GErr (GIo EOther)), k. split; [reflexivity|]. split; [exact Hs1|]. split; [exact HG|].
      split; [unfold len in Hk; lia|].
      right. right. left. auto.
    - exists f1, m1, (GErr (GIo e)), k. split; [reflexivity|]. split; [exact Hs1|]. split; [exact HG|].
      split; [unfold len in Hk; lia|].
      right. right. right. exists e. split; [reflexivity|]. split; [exact He|]. split; [exact Hc1|]. unfold len in Hklt. lia.
  Qed.

  Lemma cb_upto_spec L M : wf_regions L 0 = true -> total_len L = M -> HBASE + M < W64 ->
    CbSpec L M (cb_upto_l F call).
  Proof.
    intros Hwf HM HB' B total len start region f m Hin Hle Hm Hf Hi Hs HB Hc.
    destruct (region_window L M region Hwf HM HB' Hin m Hm) as [Hb Ha].
    destruct (vs_upto_in (region_slice region) F B f m start len Hb Ha)
      as (f1 & m1 & r1 & j & b & k & Hr & Hs1 & Hd & Hbe & Hl & HMv & Hk & Hi1 & Hres); auto.
    { cbn [region_slice vs_len]. lia. }
    { cbn [region_slice vs_len]. lia. }
    unfold cb_upto_l, region_upto. rewrite Hr. cbn [omap fst snd].
    exists f1, m1, (map_err r1), k. split; [reflexivity|]. split; [exact Hs1|]. split; [exact Hl|]. split; [exact Hi1|].
    split; [exact HMv|]. split; [lia|].
    destruct Hres as [(Hh & -> & ->)|(Hh & ->)]; cbn [map_err gerr_of].
    - right. left. split; [reflexivity|]. rewrite Hd. destruct b; try discriminate. apply HardEnd_step. exact Hc.
    - left. split; [reflexivity|]. rewrite Hd. apply Clean_step; assumption.
  Qed.
  Lemma cb_all_e_spec L M : wf_regions L 0 = true -> total_len L = M -> HBASE + M < W64 -> (N.to_nat M < F)%nat ->
    CbSpec L M (cb_all_e ex).
  Proof.
    intros Hwf HM HB' HMF B total len start region f m Hin Hle Hm Hf Hi Hs HB Hc.
    destruct (region_window L M region Hwf HM HB' Hin m Hm) as [Hb Ha].
    destruct (wf_regions_in L 0 region Hwf Hin) as (_ & _ & _ & Hmoff).
    destruct (vs_exact_e_in (region_slice region) B f m start len Hb Ha)
      as (f1 & m1 & r1 & k & Hr & Hs1 & Hl & HMv & Hk & Hi1 & Hres); auto.
    { lia. }
    unfold cb_all_e, region_exact_e. rewrite Hr. cbn [omap fst snd].
    eexists f1, m1, _, k. split; [reflexivity|]. split; [exact Hs1|]. split; [exact Hl|]. split; [exact Hi1|].
    split; [exact HMv|]. split; [exact Hk|].
    destruct Hres as [(-> & Hke & Hc1)|[(-> & Hke & Hc1)|(-> & Hke & Hc1)]]; cbn [map_err gerr_of].
    - left. subst k. auto.
    - right. right. exists zerr. auto.
    - right. left. auto.
  Qed.

  Lemma gm_upto_post md L M cb count addr B f m :
    wf_regions L 0 = true -> total_len L = M -> CbSpec L M cb -> count < W64 -> addr < W64 ->
    (N.to_nat M < F)%nat -> M <= B ->
    (length (f_script f) < F)%nat -> InvB B f -> ScrInv sc0 f -> Clean (logof sc0 f) -> nlen m = M ->
    exists f' m' r, try_access md F L count addr cb addr 0 f m = Val ((f', m'), r)
      /\ PostL false (TGuest L) addr count f m f' m' (rc_gres okc_n r)
      /\ PostL true (TGuest L) addr count f m f' m'
           (rc_gres okc_u match r with GErr e => GErr e
                                  | GOk res => if res =? count then GOk tt else GErr (GPartialBuffer count res) end).
  Proof.
    intros Hwf HM Hcb Hcount Haddr HMF HMB Hf Hi Hs Hc Hm.
    pose proof (rem_from_total L addr) as Hrt.
    destruct (try_access_post md L M cb count addr Hwf HM Hcb Hcount F B addr 0 f m)
      as (f1 & m1 & r1 & K & Hr & Hs1 & HG & HKc & Hres); auto.
    { lia. } { lia. }
    exists f1, m1, r1. split; [exact Hr|].
    destruct Hres as [(-> & Hc1 & HK)|[(-> & _ & -> & Hc1 & Hidx)|[(-> & Hc1)|(e & -> & He & Hc1 & HK)]]];
      rewrite ?N.add_0_l in *.
    - split; (split; [exact Hs1|]).
      + exists K. split; [exact HG|]. split; [lia|]. cbn [rc_gres okc_n rk_of fst snd]. split; [apply LogRes_clean; [exact Hc1|lia|lia]|].
        split; [lia|reflexivity].
      + exists K. split; [exact HG|]. split; [lia|]. destruct (N.eqb_spec K count) as [E|E]; cbn [rc_gres okc_u rk_of fst snd].
        * split; [apply LogRes_clean; [exact Hc1|lia|lia]|]. split; [lia|]. intros _ _. split; auto.
        * split; [apply LogRes_clean; [exact Hc1|lia|lia]|]. split; [lia|]. intros _ _. split; [lia|intros; contradiction].
    - split; (split; [exact Hs1|]).
      + exists 0. split; [exact HG|]. split; [lia|]. cbn [rc_gres rk_of fst snd]. split; [apply LogRes_clean; [exact Hc1|lia|lia]|].
        split; [lia|intros; lia].
      + exists 0. split; [exact HG|]. split; [lia|]. cbn [rc_gres rk_of fst snd]. split; [apply LogRes_clean; [exact Hc1|lia|lia]|].
        split; [lia|]. intros _ [Hj|Hj]; [split; lia|contradiction].
    - split; (split; [exact Hs1|]).
      + exists K. split; [exact HG|]. split; [lia|]. cbn [rc_gres rc_io rk_of fst snd]. split; [apply LogRes_hard; exact Hc1|].
        split; [lia|intros; lia].
      + exists K. split; [exact HG|]. split; [lia|]. cbn [rc_gres rc_io rk_of fst snd]. split; [apply LogRes_hard; exact Hc1|].
        split; [lia|]. intros Hh. rewrite (HardEnd_exists _ Hc1) in Hh. discriminate.
    - assert (E : rk_of (rc_gres okc_n (GErr (GIo e))) = rc_io e /\ rk_of (rc_gres okc_u (GErr (GIo e))) = rc_io e)
        by (split; reflexivity).
      destruct E as [E1 E2].
      assert (Hrc : rc_io e = 2 \/ rc_io e = 3) by (destruct He; subst; cbn; auto).
      split; (split; [exact Hs1|]).
      + exists K. split; [exact HG|]. split; [lia|]. rewrite E1. split; [apply LogRes_clean; [exact Hc1|lia|lia]|].
        split; [lia|]. intros; lia.
      + exists K. split; [exact HG|]. split; [lia|]. rewrite E2. split; [apply LogRes_clean; [exact Hc1|lia|lia]|].
        split; [lia|]. intros _ _. split; lia.
  Qed.

  (* ---------------------------------------------------------------- the operation of a case *)
  Lemma exec_ep_post c : wf14 (case14_of c) = true -> F = fuel14own c -> sc0 = w_script c ->
    InvB (nlen (w_mem c)) (init_of c) ->
    exists f' m' rc, exec_ep call ex c = Val ((f', m'), rc)
      /\ PostL (is_exact (w_op c)) (w_target c) (w_addr c) (w_count c) (init_of c) (w_mem c) f' m' rc.
  Proof.
    intros Hwf HF Hsc Hi. unfold wf14 in Hwf. cbn [case14_of c_target c_mem c_addr c_count] in Hwf.
    rewrite !andb_true_iff in Hwf. destruct Hwf as [[[Ht HB] Haddr] Hcount].
    apply N.ltb_lt in HB, Haddr, Hcount.
    assert (Hf : (length (f_script (init_of c)) < F)%nat) by (rewrite HF; unfold fuel14own; cbn [init_of f_script]; lia).
    assert (HMF : (N.to_nat (nlen (w_mem c)) < F)%nat) by (rewrite HF; unfold fuel14own; lia).
    assert (Hs : ScrInv sc0 (init_of c)) by (rewrite Hsc; reflexivity).
    assert (Hc : Clean (logof sc0 (init_of c))) by apply Clean_nil.
    unfold exec_ep. rewrite <- HF.
    destruct (w_target c) as [soff slen|r|L] eqn:Et.
    - apply N.leb_le in Ht.
      set (self := {| vs_addr := HBASE + soff; vs_off := soff; vs_len := slen |}).
      assert (Hw : window_of (TSlice soff slen) self) by (intros a; reflexivity).
      assert (Hb : in_bounds self (w_mem c)) by (unfold in_bounds, self; cbn [vs_off vs_len]; lia).
      assert (Ha : vs_addr self + vs_len self < W64) by (unfold self; cbn [vs_addr vs_len]; lia).
      assert (HBl : vs_len self <= nlen (w_mem c)) by (unfold self; cbn [vs_len]; lia).
      destruct (is_exact (w_op c)).
      + destruct (vs_exact_e_post _ self _ (init_of c) (w_mem c) (w_addr c) (w_count c) Hw Hb Ha HBl)
          as (f1 & m1 & r1 & He & HP); auto.
        { unfold self. cbn [vs_len]. lia. }
        rewrite He. cbn [omap fst snd]. eauto.
      + destruct (vs_upto_post _ self F _ (init_of c) (w_mem c) (w_addr c) (w_count c) Hw Hb Ha HBl Hf Hi Hs Hc)
          as (f1 & m1 & r1 & He & HP).
        rewrite He. cbn [omap fst snd]. eauto.
    - rewrite !andb_true_iff in Ht. destruct Ht as [[[H1 H2] H3] H4].
      apply N.eqb_eq in H1, H2. apply N.ltb_lt in H3, H4.
      assert (Hw : window_of (TRegion r) (region_slice r)) by (intros a; reflexivity).
      assert (Hb : in_bounds (region_slice r) (w_mem c)) by (unfold in_bounds, region_slice; cbn [vs_off vs_len]; lia).
      assert (Ha : vs_addr (region_slice r) + vs_len (region_slice r) < W64)
        by (unfold region_slice; cbn [vs_addr vs_len]; lia).
      assert (HBl : vs_len (region_slice r) <= nlen (w_mem c)) by (cbn [region_slice vs_len]; lia).
      destruct (is_exact (w_op c)).
      + destruct (vs_exact_e_post _ (region_slice r) _ (init_of c) (w_mem c) (w_addr c) (w_count c) Hw Hb Ha HBl)
          as (f1 & m1 & r1 & He & HP); auto.
        { cbn [region_slice vs_len]. lia. }
        unfold region_exact_e. rewrite He. cbn [omap fst snd]. rewrite rc_gres_map_err. eauto.
      + destruct (vs_upto_post _ (region_slice r) F _ (init_of c) (w_mem c) (w_addr c) (w_count c) Hw Hb Ha HBl Hf Hi Hs Hc)
          as (f1 & m1 & r1 & He & HP).
        unfold region_upto. rewrite He. cbn [omap fst snd]. rewrite rc_gres_map_err. eauto.
    - rewrite andb_true_iff in Ht. destruct Ht as [Hwf HM]. apply N.eqb_eq in HM.
      assert (HB' : HBASE + nlen (w_mem c) < W64) by exact HB.
      destruct (w_op c) eqn:Eo; cbn [is_exact].
      + destruct (gm_upto_post (w_mode c) L _ _ (w_count c) (w_addr c) _ (init_of c) (w_mem c) Hwf HM
                    (cb_upto_spec L _ Hwf HM HB') Hcount Haddr HMF (N.le_refl _) Hf Hi Hs Hc eq_refl)
          as (f1 & m1 & r1 & He & HP1 & HP2).
        unfold gm_read_volatile_from. unfold cb_upto_l in He. rewrite He. cbn [omap fst snd]. eauto.
      + destruct (gm_upto_post (w_mode c) L _ _ (w_count c) (w_addr c) _ (init_of c) (w_mem c) Hwf HM
                    (cb_upto_spec L _ Hwf HM HB') Hcount Haddr HMF (N.le_refl _) Hf Hi Hs Hc eq_refl)
          as (f1 & m1 & r1 & He & HP1 & HP2).
        unfold gm_read_exact_volatile_from, gm_exact_of, gm_read_volatile_from. unfold cb_upto_l in He.
        rewrite He. cbn [omap fst snd]. eauto.
      + destruct (gm_upto_post (w_mode c) L _ _ (w_count c) (w_addr c) _ (init_of c) (w_mem c) Hwf HM
                    (cb_all_e_spec L _ Hwf HM HB' HMF) Hcount Haddr HMF (N.le_refl _) Hf Hi Hs Hc eq_refl)
          as (f1 & m1 & r1 & He & HP1 & HP2).
        unfold gm_write_volatile_to_e. unfold cb_all_e in He. rewrite He. cbn [omap fst snd]. eauto.
      + destruct (gm_upto_post (w_mode c) L _ _ (w_count c) (w_addr c) _ (init_of c) (w_mem c) Hwf HM
                    (cb_all_e_spec L _ Hwf HM HB' HMF) Hcount Haddr HMF (N.le_refl _) Hf Hi Hs Hc eq_refl)
          as (f1 & m1 & r1 & He & HP1 & HP2).
        unfold gm_exact_of, gm_write_volatile_to_e. unfold cb_all_e in He.
        rewrite He. cbn [omap fst snd]. eauto.
  Qed.
  End WithExact.
End Gen.

(* ------------------------------------------------------------------ 1b. WHY an exact form stopped (progress clause)
   A second, independent contract of the endpoint: an invariant [P] of its state kept by every call, what it could
   still deliver / take [leftof], and [CallWhy]: a call that answers Ok(0) on a non-empty window does so because the
   behaviour scripted for it is zero-ish (the log's last entry) or because the endpoint has nothing left; the only
   I/O errors of a call are an interruption and the hard error.  From it: the reason with which retry_eintr!, the
   provided exact loop, the slice / region forms and try_access end.  These lemmas read the reason off the EQUATION
   "operation = Val (final state, result)"; the control-flow facts come from the contracts above. *)
Section WhyGen.
  Variable call : callT sfd.
  Variable sc0 : list fbeh.
  Variable P : sfd -> Prop.
  Variable leftof : sfd -> option N.

  Definition Qi (f : sfd) : Prop := P f /\ ScrInv sc0 f.
  Definition ZStop (f' : sfd) : Prop :=
    (logof sc0 f' <> [] /\ zeroish (last (logof sc0 f') Zero) = true) \/ leftof f' = Some 0.
  (* refused without moving anything: the endpoint holds / takes less than the window *)
  Definition Refused (f : sfd) (len : N) (f' : sfd) : Prop :=
    f_st f' = f_st f /\ exists l, leftof f' = Some l /\ l < len.
  Definition CallWhy : Prop := forall f m v f' m' r, Qi f -> in_bounds v m -> call f m v = Val ((f', m'), r) ->
    Qi f' /\ nlen m' = nlen m /\
    match r with
    | Ok k => k = 0 -> vs_len v <> 0 -> ZStop f'
    | Err (VIo e) => e = EInterrupted \/ e = EOther
    | Err _ => True
    end.
  (* g: the guest-grade contract (no refusal) *)
  Definition ExWhy (g : bool) (ex : exactT) : Prop := forall f m pb f' m' r, Qi f -> in_bounds pb m ->
    ex f m pb = Val ((f', m'), r) ->
    Qi f' /\ nlen m' = nlen m /\
    match r with
    | Err (VIo e) => e = EOther \/ ZStop f' \/ (g = false /\ Refused f (vs_len pb) f')
    | _ => True
    end.
  Lemma ExWhy_weaken ex : ExWhy true ex -> ExWhy false ex.
  Proof.
    intros H f m pb f' m' r Hq Hb He. destruct (H f m pb f' m' r Hq Hb He) as (A & B & C).
    split; [exact A|]. split; [exact B|]. destruct r as [u|[e| |]]; auto.
    destruct C as [C|[C|[C _]]]; [auto|auto|discriminate C].
  Qed.

  Hypothesis Hwhy : CallWhy.

  Lemma retry_why : forall fuel f m v f' m' r, Qi f -> in_bounds v m ->
    retry_eintr fuel call f m v = Val ((f', m'), r) ->
    Qi f' /\ nlen m' = nlen m /\
    match r with
    | Ok k => k = 0 -> vs_len v <> 0 -> ZStop f'
    | Err (VIo e) => e = EOther
    | Err _ => True
    end.
  Proof.
    induction fuel as [|fl IH]; intros f m v f' m' r Hq Hb H; [discriminate H|].
    cbn [retry_eintr] in H. destruct (call f m v) as [[[f1 m1] r1]| |] eqn:E; cbn [bind] in H; try discriminate H.
    destruct (Hwhy f m v f1 m1 r1 Hq Hb E) as (Hq1 & Hm1 & Hr1).
    destruct r1 as [n|[[| | |]| |]]; try (inversion H; subst f1 m1 r; clear H; split; [exact Hq1|]; split; [exact Hm1|]).
    - exact Hr1.
    - destruct (IH f1 m1 v f' m' r Hq1) as (A & B & C); [unfold in_bounds in *; lia|exact H|].
      split; [exact A|]. split; [lia|exact C].
    - destruct Hr1; discriminate.
    - destruct Hr1; discriminate.
    - reflexivity.
    - exact I.
    - exact I.
  Qed.

  Lemma exact_loop_why zerr fi : forall fuel f m pb f' m' r, Qi f -> in_bounds pb m ->
    exact_loop zerr fi fuel call f m pb = Val ((f', m'), r) ->
    Qi f' /\ nlen m' = nlen m /\
    match r with
    | Err (VIo e) => e = EOther \/ ZStop f'
    | _ => True
    end.
  Proof.
    induction fuel as [|fl IH]; intros f m pb f' m' r Hq Hb H; [discriminate H|].
    cbn [exact_loop] in H. destruct (N.eqb_spec (vs_len pb) 0) as [Hz|Hz].
    { inversion H; subst. auto. }
    destruct (retry_eintr fi call f m pb) as [[[f1 m1] r1]| |] eqn:E; cbn [bind] in H; try discriminate H.
    destruct (retry_why fi f m pb f1 m1 r1 Hq Hb E) as (Hq1 & Hm1 & Hr1).
    destruct r1 as [n|e1].
    - destruct (N.eqb_spec n 0) as [Hn|Hn].
      + inversion H; subst f1 m1 r. split; [exact Hq1|]. split; [exact Hm1|]. right. apply Hr1; assumption.
      + destruct (vs_offset pb n) as [pb'|e2] eqn:Eo.
        * assert (Hb' : in_bounds pb' m1).
          { unfold vs_offset in Eo. destruct (checked_add (vs_addr pb) n); [|discriminate Eo].
            destruct (checked_sub (vs_len pb) n) as [x|] eqn:Ec; [|discriminate Eo].
            apply checked_sub_Some in Ec. inversion Eo. unfold in_bounds in *. cbn [vs_off vs_len]. lia. }
          destruct (IH f1 m1 pb' f' m' r Hq1 Hb' H) as (A & B & C). split; [exact A|]. split; [lia|exact C].
        * inversion H; subst f1 m1 r. split; [exact Hq1|]. split; [exact Hm1|].
          destruct (vs_offset_err_kind _ _ _ Eo) as [->| ->]; exact I.
    - inversion H; subst f1 m1 r. split; [exact Hq1|]. split; [exact Hm1|].
      destruct e1 as [e| |]; [left; exact Hr1|exact I|exact I].
  Qed.

  Lemma exact_volatile_why zerr F : ExWhy true (exact_volatile zerr F call).
  Proof.
    intros f m pb f' m' r Hq Hb H. unfold exact_volatile in H.
    destruct (vs_offset pb 0) as [pb0|e0] eqn:Eo.
    - assert (Hb0 : in_bounds pb0 m).
      { unfold vs_offset in Eo. destruct (checked_add (vs_addr pb) 0); [|discriminate Eo].
        destruct (checked_sub (vs_len pb) 0) as [x|] eqn:Ec; [|discriminate Eo].
        apply checked_sub_Some in Ec. inversion Eo. unfold in_bounds in *. cbn [vs_off vs_len]. lia. }
      destruct (exact_loop_why zerr F F f m pb0 f' m' r Hq Hb0 H) as (A & B & C).
      split; [exact A|]. split; [exact B|]. destruct r as [u|[e| |]]; auto. destruct C; auto.
    - inversion H; subst. split; [exact Hq|]. split; [reflexivity|].
      destruct (vs_offset_err_kind _ _ _ Eo) as [->| ->]; exact I.
  Qed.

  (* the up-to forms of a slice: one call inside retry_eintr! *)
  Lemma vs_upto_why fuel self addr f m count f' m' r : Qi f -> in_bounds self m ->
    vs_upto fuel call self addr f m count = Val ((f', m'), r) ->
    Qi f' /\ nlen m' = nlen m /\
    match r with
    | Ok k => k = 0 -> addr < vs_len self -> 0 < count -> ZStop f'
    | Err (VIo e) => e = EOther
    | Err _ => True
    end.
  Proof.
    intros Hq Hb H. unfold vs_upto in H.
    destruct (vs_offset self addr) as [sl|e1] eqn:Eo.
    - assert (Hsl : vs_len sl = vs_len self - addr /\ vs_off sl = vs_off self + addr /\ addr <= vs_len self).
      { unfold vs_offset in Eo. destruct (checked_add (vs_addr self) addr); [|discriminate Eo].
        destruct (checked_sub (vs_len self) addr) as [x|] eqn:Ec; [|discriminate Eo].
        apply checked_sub_Some in Ec. inversion Eo. cbn [vs_len vs_off]. lia. }
      destruct (vs_subslice sl 0 (N.min (vs_len sl) count)) as [sl2|e2] eqn:Es; [|discriminate H].
      assert (Hsl2 : vs_len sl2 = N.min (vs_len sl) count /\ vs_off sl2 = vs_off sl + 0).
      { unfold vs_subslice in Es. destruct (checked_add 0 (N.min (vs_len sl) count)); [|discriminate Es].
        destruct (vs_len sl <? n); [discriminate Es|]. inversion Es. cbn [vs_len vs_off]. auto. }
      assert (Hb2 : in_bounds sl2 m) by (unfold in_bounds in *; lia).
      destruct (retry_why fuel f m sl2 f' m' r Hq Hb2 H) as (A & B & C).
      split; [exact A|]. split; [exact B|]. destruct r as [k|[e| |]]; auto.
      intros Hk Ha Hc. apply C; [exact Hk|lia].
    - inversion H; subst. split; [exact Hq|]. split; [reflexivity|].
      destruct (vs_offset_err_kind _ _ _ Eo) as [->| ->]; exact I.
  Qed.

  Section WithExWhy.
  Variable g : bool.
  Variable ex : exactT.
  Hypothesis Hexw : ExWhy g ex.

  Lemma vs_exact_e_why self addr f m count f' m' r : Qi f -> in_bounds self m ->
    vs_exact_e ex self addr f m count = Val ((f', m'), r) ->
    Qi f' /\ nlen m' = nlen m /\
    match r with
    | Err (VIo e) => e = EOther \/ ZStop f' \/ (g = false /\ Refused f count f')
    | _ => True
    end.
  Proof.
    intros Hq Hb H. unfold vs_exact_e in H.
    destruct (vs_subslice self addr count) as [sl|e1] eqn:Es.
    - assert (Hsl : vs_len sl = count /\ in_bounds sl m).
      { unfold vs_subslice in Es. destruct (checked_add addr count) as [x|] eqn:Ec; [|discriminate Es].
        apply checked_add_Some in Ec. destruct (N.ltb_spec (vs_len self) x); [discriminate Es|]. inversion Es.
        unfold in_bounds in *. cbn [vs_len vs_off]. lia. }
      destruct Hsl as [Hl Hbs]. rewrite <- Hl. exact (Hexw f m sl f' m' r Hq Hbs H).
    - inversion H; subst. split; [exact Hq|]. split; [reflexivity|].
      destruct (vs_subslice_err_kind _ _ _ _ Es) as [->| ->]; exact I.
  Qed.
  End WithExWhy.
End WhyGen.

(* the bytes moved between two states of the stream, read off its byte list *)
Definition dkL (rd : bool) (pj : sfd -> list N) (f f' : sfd) : N :=
  if rd then nlen (pj f) - nlen (pj f') else nlen (pj f') - nlen (pj f).
Lemma GMovedL_det rd pj Extra t f m a k f' m' : GMovedL rd pj Extra t f m a k f' m' -> k = dkL rd pj f f'.
Proof.
  intros [_ H]. unfold dkL. destruct rd.
  - destruct H as (A1 & A2 & _). rewrite A1, nlen_ndrop. lia.
  - destruct H as (bs & A1 & A2 & _). rewrite A2. apply flat_read_length in A1. unfold nlen. rewrite app_length, A1. lia.
Qed.

Section WhyOps.
  Variable rd : bool.
  Variable pj : sfd -> list N.
  Variable Extra : sfd -> N -> sfd -> Prop.
  Variable call : callT sfd.
  Variable sc0 : list fbeh.
  Variable InvB : N -> sfd -> Prop.
  Variable zerr : ioerr.
  Hypothesis Extra_refl : forall f, Extra f 0 f.
  Hypothesis Extra_trans : forall f k1 f1 k2 f2, Extra f k1 f1 -> Extra f1 k2 f2 -> Extra f (k1 + k2) f2.
  Hypothesis Hzerr : zerr = EUnexpectedEof \/ zerr = EWriteZero.
  Hypothesis Hcall : CallSpec rd pj Extra call InvB.
  Variable P : sfd -> Prop.
  Variable leftof : sfd -> option N.
  Hypothesis Hwhy : CallWhy call sc0 P leftof.
  Variable F : nat.

  (* why a try_access callback moved nothing / failed *)
  Definition CbWhyL (L : list region) (M : N) (cb : cbT sfd) : Prop :=
    forall total len start region f m f' m' r, In region L -> start + len <= g_len region -> nlen m = M ->
      Qi sc0 P f -> cb total len start region f m = Val ((f', m'), r) ->
      Qi sc0 P f' /\
      (0 < len -> match r with
                  | GOk k => k = 0 -> ZStop sc0 leftof f'
                  | GErr (GIo e) => e = EOther \/ ZStop sc0 leftof f'
                  | GErr _ => True
                  end).

  Lemma region_in_bounds L M region m : wf_regions L 0 = true -> total_len L = M -> In region L -> nlen m = M ->
    in_bounds (region_slice region) m.
  Proof.
    intros Hwf HM Hin Hm. destruct (wf_regions_in L 0 region Hwf Hin) as (_ & _ & _ & Hmoff).
    unfold in_bounds, region_slice. cbn [vs_off vs_len]. lia.
  Qed.

  Lemma cb_upto_whyL L M : wf_regions L 0 = true -> total_len L = M -> CbWhyL L M (cb_upto_l F call).
  Proof.
    intros Hwf HM total len start region f m f' m' r Hin Hle Hm Hq H.
    pose proof (region_in_bounds L M region m Hwf HM Hin Hm) as Hb.
    unfold cb_upto_l, region_upto in H.
    destruct (vs_upto F call (region_slice region) start f m len) as [[[f1 m1] r1]| |] eqn:Ev;
      cbn [omap fst snd] in H; try discriminate H.
    inversion H; subst f1 m1 r; clear H.
    destruct (vs_upto_why call sc0 P leftof Hwhy F _ _ _ _ _ _ _ _ Hq Hb Ev) as (A & B & C).
    split; [exact A|]. intros Hlen. destruct r1 as [k|[e| |]]; cbn [map_err gerr_of]; auto.
    intros Hk. apply C; [exact Hk|cbn [region_slice vs_len]; lia|exact Hlen].
  Qed.
  Lemma cb_all_e_whyL ex L M : ExWhy sc0 P leftof true ex -> wf_regions L 0 = true -> total_len L = M ->
    CbWhyL L M (cb_all_e ex).
  Proof.
    intros Hexg Hwf HM total len start region f m f' m' r Hin Hle Hm Hq H.
    pose proof (region_in_bounds L M region m Hwf HM Hin Hm) as Hb.
    unfold cb_all_e, region_exact_e in H.
    destruct (vs_exact_e ex (region_slice region) start f m len) as [[[f1 m1] r1]| |] eqn:Ev;
      cbn [omap fst snd] in H; try discriminate H.
    inversion H; subst f1 m1 r; clear H.
    destruct (vs_exact_e_why sc0 P leftof true ex Hexg _ _ _ _ _ _ _ _ Hq Hb Ev) as (A & B & C).
    split; [exact A|]. intros Hlen. destruct r1 as [u|[e| |]]; cbn [map_err gerr_of]; auto.
    - intros Hk. lia.
    - destruct C as [C|[C|[C _]]]; [auto|auto|discriminate C].
  Qed.

  (* try_access with cur = addr + total: it returns a count below the request only at an unmapped address or after
     a callback that moved nothing *)
  Lemma try_access_whyL md L M cb count addr :
    wf_regions L 0 = true -> total_len L = M -> CbSpec rd pj Extra sc0 InvB F L M cb -> CbWhyL L M cb -> count < W64 ->
    forall fuel B cur total f m, (N.to_nat (rem_from L cur) < fuel)%nat -> rem_from L cur <= B ->
      (length (f_script f) < F)%nat -> InvB B f -> ScrInv sc0 f -> P f ->
      Clean (logof sc0 f) -> nlen m = M -> cur < W64 -> cur = addr + total -> (total < count \/ total = 0) ->
    match try_access md fuel L count addr cb cur total f m with
    | Val ((f', m'), r) =>
        Qi sc0 P f' /\
        match r with
        | GOk res => res = count \/ idx_of (TGuest L) (addr + res) = None \/ ZStop sc0 leftof f'
        | GErr (GIo e) => e = EOther \/ ZStop sc0 leftof f'
        | GErr _ => True
        end
    | _ => True
    end.
  Proof.
    intros Hwf HM Hcb Hcw Hcount.
    induction fuel as [|fl IH]; intros B cur total f m Hfu HrB Hf Hi Hs Hp Hc Hm Hcur Hta Htot; [exact I|].
    cbn [try_access]. unfold find_region.
    destruct (find (fun r => contains r cur) L) as [region|] eqn:Efind.
    2:{ destruct (N.eqb_spec total 0) as [Hz|Hz]; (split; [split; assumption|]); [exact I|].
        right. left. cbn [idx_of]. rewrite <- Hta, Efind. reflexivity. }
    apply find_some in Efind. destruct Efind as [Hin Hcont].
    destruct (wf_regions_in L 0 region Hwf Hin) as (Hlen & Hend & _ & Hmoff).
    pose proof Hcont as Hcont'. apply contains_iff in Hcont'.
    pose proof (rem_from_in L region cur Hin Hcont) as Hrem.
    unfold to_region_addr, checked_sub.
    destruct (N.leb_spec (g_start region) cur) as [_|Hbad]; [|lia].
    destruct (N.ltb_spec (cur - g_start region) (g_len region)) as [_|Hbad]; [|lia].
    set (start := cur - g_start region).
    rewrite psub_Val by (unfold start; lia). rewrite psub_Val by lia. cbn [bind].
    set (len := N.min (g_len region - start) (count - total)).
    destruct (Hcb B total len start region f m Hin) as (f1 & m1 & r1 & k & Hcall' & Hs1 & Hl & Hi1 & HMv & Hk & Hres); auto.
    { unfold len. lia. }
    { unfold len, start. lia. }
    rewrite Hcall'. cbn [bind].
    destruct (Hcw total len start region f m f1 m1 r1 Hin) as [Hq1 Hw1];
      [unfold len; lia|exact Hm|split; assumption|exact Hcall'|].
    assert (Hm1 : nlen m1 = M).
    { rewrite <- Hm. eapply (MovedL_len rd pj Extra Extra_refl Extra_trans); [|exact HMv]. unfold len, start in *. lia. }
    destruct Hres as [(-> & Hc1)|[(-> & Hc1)|(e & -> & He & Hc1 & Hklt)]].
    - destruct (N.eqb_spec k 0) as [Hk0|Hk0].
      + split; [exact Hq1|]. destruct (N.eq_dec total count) as [Heq|Hne]; [left; exact Heq|].
        right. right. apply Hw1; [unfold len, start; lia|exact Hk0].
      + unfold checked_add. destruct (N.ltb_spec (total + k) W64) as [_|Hbad]; [|unfold len in Hk; lia].
        destruct (N.ltb_spec (total + k) count) as [Hmore|Hdone].
        * unfold overflowing_add. destruct (N.leb_spec W64 (cur + k)) as [Hbad|_];
            [unfold len, start in Hk; lia|]. cbn [negb].
          rewrite N.mod_small by (unfold len, start in Hk; lia).
          assert (Hstep : rem_from L (cur + k) + k <= rem_from L cur).
          { apply (rem_from_step L region cur k Hin Hcont). unfold len, start in Hk. lia. }
          apply (IH (B - k) (cur + k) (total + k) f1 m1);
            [lia|lia|lia|exact Hi1|exact Hs1|apply Hq1|exact Hc1|exact Hm1|unfold len, start in Hk; lia|lia|left; lia].
        * destruct (N.eqb_spec (total + k) count) as [Heq|Hne]; [|exfalso; unfold len in Hk; lia].
          split; [exact Hq1|]. left. exact Heq.
    - split; [exact Hq1|]. left. reflexivity.
    - split; [exact Hq1|]. apply Hw1. unfold len, start. lia.
  Qed.

  (* the guest-level exact forms: success, a hard error, or one of the excuses *)
  Lemma gm_exact_whyL md L M cb count addr B f m f' m' r :
    wf_regions L 0 = true -> total_len L = M -> CbSpec rd pj Extra sc0 InvB F L M cb -> CbWhyL L M cb ->
    count < W64 -> addr < W64 -> (N.to_nat M < F)%nat -> M <= B ->
    (length (f_script f) < F)%nat -> InvB B f -> ScrInv sc0 f -> P f -> Clean (logof sc0 f) -> nlen m = M ->
    try_access md F L count addr cb addr 0 f m = Val ((f', m'), r) ->
    Qi sc0 P f' /\
    (r = GOk count \/ r = GErr (GIo EOther) \/ idx_of (TGuest L) (addr + dkL rd pj f f') = None \/ ZStop sc0 leftof f').
  Proof.
    intros Hwf HM Hcb Hcw Hcount Haddr HMF HMB Hf Hi Hs Hp Hc Hm H.
    pose proof (rem_from_total L addr) as Hrt.
    destruct (try_access_post rd pj Extra sc0 InvB Extra_refl Extra_trans F md L M cb count addr Hwf HM Hcb Hcount
                F B addr 0 f m) as (f1 & m1 & r1 & K & Hr & _ & HG & _ & Hres); auto.
    { lia. } { lia. }
    assert (Hw := try_access_whyL md L M cb count addr Hwf HM Hcb Hcw Hcount F B addr 0 f m).
    rewrite H in Hr, Hw. inversion Hr; subst f1 m1 r1. clear Hr.
    destruct Hw as [Hq Hw]; auto; try lia.
    split; [exact Hq|].
    apply GMovedL_det in HG.
    destruct Hres as [(-> & _ & _)|[(-> & _ & -> & _ & Hidx)|[(-> & _)|(e & -> & He & _ & _)]]];
      rewrite ?N.add_0_l in *.
    - destruct Hw as [Hw|[Hw|Hw]]; [left; f_equal; exact Hw|right; right; left; rewrite <- HG; exact Hw|right; right; right; exact Hw].
    - right. right. left. rewrite <- HG, N.add_0_r. exact Hidx.
    - right. left. reflexivity.
    - destruct Hw as [->|Hw]; [destruct He; discriminate|right; right; right; exact Hw].
  Qed.

  Section WithEx2.
  Variable ex : exactT.
  Hypothesis Hex : ExactSpec rd pj Extra sc0 InvB zerr ex F.

  (* the exact form of a slice refused before the endpoint was touched: the range leaves the slice *)
  Lemma vs_exact_e_refused t self B f m addr count f' m' e :
    window_of t self -> in_bounds self m -> vs_addr self + vs_len self < W64 -> vs_len self <= B ->
    (N.to_nat (vs_len self) < F)%nat -> (length (f_script f) < F)%nat -> InvB B f -> ScrInv sc0 f -> Clean (logof sc0 f) ->
    vs_exact_e ex self addr f m count = Val ((f', m'), Err e) -> (forall io, e <> VIo io) ->
    f' = f /\ (judged t addr count -> fully_mapped t m addr count = false).
  Proof.
    intros Hw Hb Ha HB HF Hf Hi Hs Hc H Hne. unfold vs_exact_e, vs_subslice, checked_add in H.
    destruct (N.ltb_spec (addr + count) W64) as [Hfit|Hovf].
    - destruct (N.ltb_spec (vs_len self) (addr + count)) as [Hout|Hin].
      + inversion H; subst. split; [reflexivity|]. intros Hj. eapply not_fully_mapped; eassumption.
      + exfalso.
        set (sl := {| vs_addr := vs_addr self + addr; vs_off := vs_off self + addr; vs_len := count |}) in H.
        destruct (Hex B f m sl) as (f1 & m1 & r1 & k & He & _ & _ & _ & _ & _ & Hres); auto.
        { unfold sl. cbn [vs_len]. lia. }
        { unfold in_bounds, sl in *. cbn [vs_off vs_len]. lia. }
        { unfold sl. cbn [vs_addr vs_len]. lia. }
        { unfold sl. cbn [vs_len]. lia. }
        rewrite He in H. inversion H; subst.
        destruct Hres as [(E & _)|[(E & _)|(E & _)]]; try discriminate E; inversion E; eapply Hne; eauto.
    - inversion H; subst. split; [reflexivity|]. intros Hj. eapply not_fully_mapped; try eassumption.
      unfold in_bounds in Hb. lia.
  Qed.

  (* the exact operation of a case: if it neither succeeded nor failed hard, it has one of the excuses *)
  Lemma exec_ep_why c f' m' rk a b :
    ExWhy sc0 P leftof false ex -> (w_op c = WrAll -> ExWhy sc0 P leftof true ex) ->
    wf14 (case14_of c) = true -> F = fuel14own c -> sc0 = w_script c ->
    InvB (nlen (w_mem c)) (init_of c) -> P (init_of c) ->
    is_exact (w_op c) = true -> exec_ep call ex c = Val ((f', m'), (rk, a, b)) -> rk <> 1 -> rk <> 5 ->
    judged (w_target c) (w_addr c) (w_count c) ->
    Qi sc0 P f' /\
    (idx_of (w_target c) (w_addr c + dkL rd pj (init_of c) f') = None
     \/ (f' = init_of c /\ fully_mapped (w_target c) (w_mem c) (w_addr c) (w_count c) = false)
     \/ ZStop sc0 leftof f' \/ Refused leftof (init_of c) (w_count c) f').
  Proof.
    intros Hexw Hexg Hwf HF Hsc Hi Hp Hx H H1 H5 Hj.
    unfold wf14 in Hwf. cbn [case14_of c_target c_mem c_addr c_count] in Hwf.
    rewrite !andb_true_iff in Hwf. destruct Hwf as [[[Ht HB] Haddr] Hcount].
    apply N.ltb_lt in HB, Haddr, Hcount.
    assert (Hf : (length (f_script (init_of c)) < F)%nat) by (rewrite HF; unfold fuel14own; cbn [init_of f_script]; lia).
    assert (HMF : (N.to_nat (nlen (w_mem c)) < F)%nat) by (rewrite HF; unfold fuel14own; lia).
    assert (Hs : ScrInv sc0 (init_of c)) by (rewrite Hsc; reflexivity).
    assert (Hc : Clean (logof sc0 (init_of c))) by apply Clean_nil.
    assert (Hq : Qi sc0 P (init_of c)) by (split; assumption).
    unfold exec_ep in H. rewrite <- HF in H.
    (* the result of a slice-level exact form *)
    assert (Hvs : forall t self r1, w_target c = t -> window_of t self -> in_bounds self (w_mem c) ->
              vs_addr self + vs_len self < W64 -> vs_len self <= nlen (w_mem c) ->
              vs_exact_e ex self (w_addr c) (init_of c) (w_mem c) (w_count c) = Val ((f', m'), r1) ->
              match r1 with
              | Ok _ => True
              | Err (VIo e) =>
                  Qi sc0 P f' /\ (e = EOther \/ ZStop sc0 leftof f' \/ Refused leftof (init_of c) (w_count c) f')
              | Err _ => f' = init_of c /\ fully_mapped t (w_mem c) (w_addr c) (w_count c) = false
              end).
    { intros t self r1 Et Hw Hb Ha HBl Ev.
      assert (HFl : (N.to_nat (vs_len self) < F)%nat) by lia.
      destruct r1 as [u|[e| |]]; [exact I| | |].
      - destruct (vs_exact_e_why sc0 P leftof false ex Hexw _ _ _ _ _ _ _ _ Hq Hb Ev) as (A & _ & C).
        split; [exact A|]. destruct C as [C|[C|[_ C]]]; auto.
      - destruct (vs_exact_e_refused t self _ _ _ _ _ _ _ _ Hw Hb Ha HBl HFl Hf Hi Hs Hc Ev) as [-> Hfm];
          [intros io; discriminate|]. split; [reflexivity|]. apply Hfm. rewrite <- Et. exact Hj.
      - destruct (vs_exact_e_refused t self _ _ _ _ _ _ _ _ Hw Hb Ha HBl HFl Hf Hi Hs Hc Ev) as [-> Hfm];
          [intros io; discriminate|]. split; [reflexivity|]. apply Hfm. rewrite <- Et. exact Hj. }
    destruct (w_target c) as [soff slen|r|L] eqn:Et.
    - apply N.leb_le in Ht. rewrite Hx in H.
      set (self := {| vs_addr := HBASE + soff; vs_off := soff; vs_len := slen |}) in *.
      assert (Hw : window_of (TSlice soff slen) self) by (intros x; reflexivity).
      assert (Hb : in_bounds self (w_mem c)) by (unfold in_bounds, self; cbn [vs_off vs_len]; lia).
      assert (Ha : vs_addr self + vs_len self < W64) by (unfold self; cbn [vs_addr vs_len]; lia).
      assert (HBl : vs_len self <= nlen (w_mem c)) by (unfold self; cbn [vs_len]; lia).
      destruct (vs_exact_e ex self (w_addr c) (init_of c) (w_mem c) (w_count c)) as [[[f1 m1] r1]| |] eqn:Ev;
        cbn [omap fst snd] in H; try discriminate H.
      inversion H; subst f1 m1. specialize (Hvs _ self r1 eq_refl Hw Hb Ha HBl Ev).
      destruct r1 as [u|[e| |]]; cbn [rc_res rc_io] in *; unfold okc_u in *.
      + exfalso. apply H1. congruence.
      + destruct Hvs as [A [->|[C|C]]]; [exfalso; apply H5; cbn [rc_io] in *; congruence|auto|auto].
      + destruct Hvs as [-> Hfm]. split; [exact Hq|]. auto.
      + destruct Hvs as [-> Hfm]. split; [exact Hq|]. auto.
    - rewrite !andb_true_iff in Ht. destruct Ht as [[[Hr1 Hr2] Hr3] Hr4].
      apply N.eqb_eq in Hr1, Hr2. apply N.ltb_lt in Hr3, Hr4. rewrite Hx in H.
      assert (Hw : window_of (TRegion r) (region_slice r)) by (intros x; reflexivity).
      assert (Hb : in_bounds (region_slice r) (w_mem c)) by (unfold in_bounds, region_slice; cbn [vs_off vs_len]; lia).
      assert (Ha : vs_addr (region_slice r) + vs_len (region_slice r) < W64)
        by (unfold region_slice; cbn [vs_addr vs_len]; lia).
      assert (HBl : vs_len (region_slice r) <= nlen (w_mem c)) by (cbn [region_slice vs_len]; lia).
      unfold region_exact_e in H.
      destruct (vs_exact_e ex (region_slice r) (w_addr c) (init_of c) (w_mem c) (w_count c)) as [[[f1 m1] r1]| |] eqn:Ev;
        cbn [omap fst snd] in H; try discriminate H.
      rewrite rc_gres_map_err in H.
      inversion H; subst f1 m1. specialize (Hvs _ (region_slice r) r1 eq_refl Hw Hb Ha HBl Ev).
      destruct r1 as [u|[e| |]]; cbn [rc_res rc_io] in *; unfold okc_u in *.
      + exfalso. apply H1. congruence.
      + destruct Hvs as [A [->|[C|C]]]; [exfalso; apply H5; cbn [rc_io] in *; congruence|auto|auto].
      + destruct Hvs as [-> Hfm]. split; [exact Hq|]. auto.
      + destruct Hvs as [-> Hfm]. split; [exact Hq|]. auto.
    - rewrite andb_true_iff in Ht. destruct Ht as [Hwf HM]. apply N.eqb_eq in HM.
      assert (HB' : HBASE + nlen (w_mem c) < W64) by exact HB.
      destruct (w_op c) eqn:Eo; try discriminate Hx.
      + unfold gm_read_exact_volatile_from, gm_exact_of, gm_read_volatile_from in H.
        destruct (try_access (w_mode c) F L (w_count c) (w_addr c)
                    (fun _ len caddr region s m => region_upto F call region caddr s m len)
                    (w_addr c) 0 (init_of c) (w_mem c)) as [[[f1 m1] r1]| |] eqn:Et'; cbn [omap fst snd] in H; try discriminate H.
        inversion H; subst f1 m1.
        destruct (gm_exact_whyL (w_mode c) L _ (cb_upto_l F call) (w_count c) (w_addr c) _ (init_of c) (w_mem c) f' m' r1
                    Hwf HM (cb_upto_spec rd pj Extra call sc0 InvB Extra_refl Extra_trans Hcall F L _ Hwf HM HB')
                    (cb_upto_whyL L _ Hwf HM) Hcount Haddr HMF (N.le_refl _) Hf Hi Hs Hp Hc eq_refl Et')
          as [A [->|[->|[C|C]]]].
        * exfalso. apply H1. rewrite N.eqb_refl in *. cbn [rc_gres] in *. unfold okc_u in *. congruence.
        * exfalso. apply H5. cbn [rc_gres rc_io] in *. congruence.
        * auto.
        * auto.
      + unfold gm_exact_of, gm_write_volatile_to_e in H.
        destruct (try_access (w_mode c) F L (w_count c) (w_addr c)
                    (fun _ len caddr region s m =>
                       omap (fun x => (fst x, match snd x with GOk _ => GOk len | GErr e => GErr e end))
                            (region_exact_e ex region caddr s m len))
                    (w_addr c) 0 (init_of c) (w_mem c)) as [[[f1 m1] r1]| |] eqn:Et'; cbn [omap fst snd] in H; try discriminate H.
        inversion H; subst f1 m1.
        destruct (gm_exact_whyL (w_mode c) L _ (cb_all_e ex) (w_count c) (w_addr c) _ (init_of c) (w_mem c) f' m' r1
                    Hwf HM (cb_all_e_spec rd pj Extra sc0 InvB zerr Extra_refl Extra_trans Hzerr ex F Hex L _ Hwf HM HB' HMF)
                    (cb_all_e_whyL ex L _ (Hexg eq_refl) Hwf HM) Hcount Haddr HMF (N.le_refl _) Hf Hi Hs Hp Hc eq_refl Et')
          as [A [->|[->|[C|C]]]].
        * exfalso. apply H1. rewrite N.eqb_refl in *. cbn [rc_gres] in *. unfold okc_u in *. congruence.
        * exfalso. apply H5. cbn [rc_gres rc_io] in *. congruence.
        * auto.
        * auto.
  Qed.
  End WithEx2.
End WhyOps.

(* ------------------------------------------------------------------ 2. the endpoints *)
Lemma MovedL_same rd (pj : sfd -> list N) (Extra : sfd -> N -> sfd -> Prop) f m base f' :
  Extra f 0 f' -> pj f' = pj f -> MovedL rd pj Extra f m base 0 f' m.
Proof.
  intros HE Hp. split; [exact HE|]. destruct rd.
  - rewrite ndrop_0, ntake_0, mem_write_nil. repeat split; auto. lia.
  - unfold mem_read. rewrite ntake_0, app_nil_r. auto.
Qed.
(* n0: length of the initial contents; p0: the initial position *)
(* what the reader can still deliver / what the writer has accepted so far, read off the endpoint's state *)
Definition src_now (ek : ekind) (st : sstate) : list N :=
  match ek with
  | ESliceR | EFile => ndrop (s_pos st) (s_data st)
  | ECurR => ndrop (N.min (s_pos st) (nlen (s_data st))) (s_data st)
  | EQueue => s_data st
  | _ => []
  end.
Definition sink_now (ek : ekind) (n0 p0 : N) (st : sstate) : list N :=
  match ek with
  | EMSliceW | EFile => ntake (s_pos st - p0) (ndrop p0 (s_data st))
  | EVecW => ndrop n0 (s_data st)
  | EQueue => s_out st
  | _ => []
  end.
Definition pj_of (ek : ekind) (rd : bool) (n0 p0 : N) (f : sfd) : list N :=
  if rd then src_now ek (f_st f) else sink_now ek n0 p0 (f_st f).
Definition extra_of (ek : ekind) (rd : bool) (f : sfd) (k : N) (f' : sfd) : Prop :=
  if rd then match ek with EQueue => True | _ => s_pos (f_st f') = s_pos (f_st f) + k end else True.
Definition inv_of (ek : ekind) (rd : bool) (n0 p0 : N) (B : N) (f : sfd) : Prop :=
  match ek, rd with
  | ESliceR, true => f_script f = []
  | ECurR, true => f_script f = [] /\ cur_ok (f_st f)
  | EMSliceW, false => f_script f = [] /\ p0 <= s_pos (f_st f) /\ s_pos (f_st f) <= nlen (s_data (f_st f))
  | EVecW, false => f_script f = [] /\ n0 <= nlen (s_data (f_st f)) /\ nlen (s_data (f_st f)) + B < W64
  | EFile, false => p0 <= s_pos (f_st f) /\ (s_pos (f_st f) = p0 \/ s_pos (f_st f) <= nlen (s_data (f_st f)))
  | _, _ => True
  end.
Definition zerr_of (rd : bool) : ioerr := if rd then EUnexpectedEof else EWriteZero.

Lemma extra_of_refl ek rd f : extra_of ek rd f 0 f.
Proof. unfold extra_of. destruct rd; [|exact I]. destruct ek; try exact I; lia. Qed.
Lemma extra_of_trans ek rd f k1 f1 k2 f2 : extra_of ek rd f k1 f1 -> extra_of ek rd f1 k2 f2 -> extra_of ek rd f (k1 + k2) f2.
Proof. unfold extra_of. destruct rd; [|auto]. destruct ek; auto; lia. Qed.
Lemma zerr_of_cases rd : zerr_of rd = EUnexpectedEof \/ zerr_of rd = EWriteZero.
Proof. destruct rd; cbn; auto. Qed.

Lemma mem_read_len m off k : off + k <= nlen m -> nlen (mem_read m off k) = k.
Proof. intros H. unfold mem_read. rewrite nlen_ntake, nlen_ndrop. lia. Qed.
Lemma ndrop_min_len {A} a (l : list A) : ndrop (N.min a (nlen l)) l = ndrop a l.
Proof.
  destruct (N.le_ge_cases a (nlen l)) as [H|H].
  - rewrite N.min_l by lia. reflexivity.
  - rewrite N.min_r by lia. rewrite !ndrop_all by lia. reflexivity.
Qed.
Lemma ndrop_ntake_comm {A} a b (l : list A) : ndrop a (ntake b l) = ntake (b - a) (ndrop a l).
Proof. unfold ndrop, ntake. rewrite skipn_firstn_comm. f_equal. lia. Qed.
(* the bytes between p0 and the position after bs was stored at pos *)
Lemma sink_step (P bs Y : list N) p0 pos : p0 <= pos -> pos <= nlen P ->
  ntake (pos + nlen bs - p0) (ndrop p0 (ntake pos P ++ bs ++ Y)) = ntake (pos - p0) (ndrop p0 P) ++ bs.
Proof.
  intros H1 H2.
  assert (Hl : nlen (ntake pos P) = pos) by (rewrite nlen_ntake; lia).
  rewrite ndrop_app_le by lia. rewrite ndrop_ntake_comm.
  set (X := ntake (pos - p0) (ndrop p0 P)).
  assert (HX : nlen X = pos - p0) by (unfold X; rewrite nlen_ntake, nlen_ndrop; lia).
  rewrite ntake_app_ge by lia. rewrite HX.
  replace (pos + nlen bs - p0 - (pos - p0)) with (nlen bs) by lia.
  rewrite ntake_app_exact. reflexivity.
Qed.

Lemma scr_next_script f st : f_script (scr_next f st) = tl (f_script f).
Proof. reflexivity. Qed.

(* ---- &[u8] *)
Lemma slice_r_step n0 p0 f m v k : k = N.min (vs_len v) (nlen (slice_rem (f_st f))) ->
  MovedL true (pj_of ESliceR true n0 p0) (extra_of ESliceR true) f m (vs_off v) k
    (scr_next f (set_pos (f_st f) (s_pos (f_st f) + k))) (mem_write m (vs_off v) (ntake k (slice_rem (f_st f)))).
Proof.
  intros Hk. unfold slice_rem in *. split; [reflexivity|]. cbn [pj_of src_now sink_now scr_next f_st set_pos s_pos s_data].
  split; [rewrite ndrop_ndrop; reflexivity|]. split; [lia|reflexivity].
Qed.
Lemma call_slice_r n0 p0 :
  CallSpec true (pj_of ESliceR true n0 p0) (extra_of ESliceR true) (lift_call slice_read_volatile) (inv_of ESliceR true n0 p0).
Proof.
  intros B f m v Hsc Hb HB. cbn [inv_of] in Hsc.
  unfold lift_call. rewrite slice_read_volatile_val. cbn [bind].
  set (total := N.min (vs_len v) (nlen (slice_rem (f_st f)))).
  eexists _, _, _, total. split; [reflexivity|]. split; [reflexivity|]. split; [reflexivity|].
  split; [apply slice_r_step; reflexivity|]. split; [lia|]. split; [cbn [inv_of scr_next f_script]; rewrite Hsc; reflexivity|].
  rewrite Hsc. reflexivity.
Qed.

(* one counted call of an in-memory endpoint (empty script): the log gains a Full *)
Lemma mem_step_log sc0 f st' : ScrInv sc0 f -> f_script f = [] -> Clean (logof sc0 f) ->
  ScrInv sc0 (scr_next f st') /\ Clean (logof sc0 (scr_next f st'))
  /\ (length (f_script (scr_next f st')) <= length (f_script f))%nat.
Proof.
  intros Hs Hsc Hc. destruct (log_step sc0 f (scr_next f st') Hs eq_refl eq_refl) as [Hs1 Hlog].
  split; [exact Hs1|]. split.
  - rewrite Hlog, Hsc. cbn [hd beh_of_f]. apply (Clean_step _ 0 Full Hc); reflexivity.
  - cbn [scr_next f_script]. apply length_tl.
Qed.

Lemma exact_slice_r n0 p0 sc0 F :
  ExactSpec true (pj_of ESliceR true n0 p0) (extra_of ESliceR true) sc0 (inv_of ESliceR true n0 p0) EUnexpectedEof
    (lift_exact slice_read_exact_volatile) F.
Proof.
  intros B f m pb _ _ Hsc Hs Hb Ha HB Hc. cbn [inv_of] in Hsc.
  unfold lift_exact, slice_read_exact_volatile.
  destruct (N.ltb_spec (nlen (slice_rem (f_st f))) (vs_len pb)) as [Hlt|Hge]; cbn [bind].
  - destruct (mem_step_log sc0 f (f_st f) Hs Hsc Hc) as (Hs1 & Hc1 & Hl1).
    eexists _, _, _, 0. split; [reflexivity|]. split; [exact Hs1|]. split; [exact Hl1|].
    split; [apply MovedL_same; [cbn [extra_of scr_next f_st]; lia|reflexivity]|].
    split; [lia|]. split; [cbn [inv_of scr_next f_script]; rewrite Hsc; reflexivity|].
    right. left. split; [reflexivity|]. split; [lia|exact Hc1].
  - rewrite slice_read_volatile_val. cbn [bind].
    replace (N.min (vs_len pb) (nlen (slice_rem (f_st f)))) with (vs_len pb) by lia.
    set (st' := set_pos (f_st f) (s_pos (f_st f) + vs_len pb)).
    destruct (mem_step_log sc0 f st' Hs Hsc Hc) as (Hs1 & Hc1 & Hl1).
    eexists _, _, _, (vs_len pb). split; [reflexivity|]. split; [exact Hs1|]. split; [exact Hl1|].
    split; [apply slice_r_step; lia|].
    split; [lia|]. split; [cbn [inv_of scr_next f_script]; rewrite Hsc; reflexivity|].
    left. auto.
Qed.

(* ---- Cursor<T: AsRef<[u8]>> *)
Lemma cur_r_step n0 p0 f m v k : cur_ok (f_st f) ->
  k = N.min (vs_len v) (nlen (ndrop (cur_start (f_st f)) (s_data (f_st f)))) ->
  MovedL true (pj_of ECurR true n0 p0) (extra_of ECurR true) f m (vs_off v) k
    (scr_next f (set_pos (f_st f) (s_pos (f_st f) + k)))
    (mem_write m (vs_off v) (ntake k (ndrop (cur_start (f_st f)) (s_data (f_st f)))))
  /\ cur_ok (set_pos (f_st f) (s_pos (f_st f) + k)).
Proof.
  intros [Hp Hd] Hk. unfold cur_start in *. rewrite nlen_ndrop in Hk. split.
  - split; [reflexivity|]. cbn [pj_of src_now sink_now scr_next f_st set_pos s_pos s_data].
    split; [rewrite ndrop_ndrop; f_equal; lia|]. split; [rewrite nlen_ndrop; lia|reflexivity].
  - unfold cur_ok. cbn [set_pos s_pos s_data]. lia.
Qed.
Lemma call_cur_r md n0 p0 :
  CallSpec true (pj_of ECurR true n0 p0) (extra_of ECurR true) (lift_call (cursor_read_volatile md)) (inv_of ECurR true n0 p0).
Proof.
  intros B f m v [Hsc Hok] Hb HB.
  unfold lift_call. rewrite (cursor_read_val md _ m v Hok). cbn [bind].
  set (total := N.min (vs_len v) (nlen (ndrop (cur_start (f_st f)) (s_data (f_st f))))).
  destruct (cur_r_step n0 p0 f m v total Hok eq_refl) as [HM Hok'].
  eexists _, _, _, total. split; [reflexivity|]. split; [reflexivity|]. split; [reflexivity|].
  split; [exact HM|]. split; [lia|]. split; [cbn [inv_of scr_next f_script f_st]; rewrite Hsc; auto|].
  rewrite Hsc. reflexivity.
Qed.
Lemma exact_cur_r md n0 p0 sc0 F :
  ExactSpec true (pj_of ECurR true n0 p0) (extra_of ECurR true) sc0 (inv_of ECurR true n0 p0) EUnexpectedEof
    (lift_exact (cursor_read_exact_volatile md)) F.
Proof.
  intros B f m pb _ _ [Hsc Hok] Hs Hb Ha HB Hc.
  unfold lift_exact. rewrite (cursor_read_exact_val md _ m pb Hok).
  destruct (N.ltb_spec (nlen (ndrop (cur_start (f_st f)) (s_data (f_st f)))) (vs_len pb)) as [Hlt|Hge]; cbn [bind].
  - destruct (mem_step_log sc0 f (f_st f) Hs Hsc Hc) as (Hs1 & Hc1 & Hl1).
    eexists _, _, _, 0. split; [reflexivity|]. split; [exact Hs1|]. split; [exact Hl1|].
    split; [apply MovedL_same; [cbn [extra_of scr_next f_st]; lia|reflexivity]|].
    split; [lia|]. split; [cbn [inv_of scr_next f_script f_st]; rewrite Hsc; auto|].
    right. left. split; [reflexivity|]. split; [lia|exact Hc1].
  - destruct (cur_r_step n0 p0 f m pb (vs_len pb) Hok) as [HM Hok']; [lia|].
    set (st' := set_pos (f_st f) (s_pos (f_st f) + vs_len pb)).
    destruct (mem_step_log sc0 f st' Hs Hsc Hc) as (Hs1 & Hc1 & Hl1).
    eexists _, _, _, (vs_len pb). split; [reflexivity|]. split; [exact Hs1|]. split; [exact Hl1|].
    split; [exact HM|].
    split; [lia|]. split; [cbn [inv_of scr_next f_script f_st]; rewrite Hsc; auto|].
    left. auto.
Qed.

(* ---- &mut [u8] *)
Lemma mslice_w_step n0 p0 f m v k : in_bounds v m -> p0 <= s_pos (f_st f) -> s_pos (f_st f) <= nlen (s_data (f_st f)) ->
  k = N.min (vs_len v) (nlen (slice_rem (f_st f))) ->
  let st' := {| s_data := mem_write (s_data (f_st f)) (s_pos (f_st f)) (mem_read m (vs_off v) k);
                s_pos := s_pos (f_st f) + k; s_out := s_out (f_st f) |} in
  MovedL false (pj_of EMSliceW false n0 p0) (extra_of EMSliceW false) f m (vs_off v) k (scr_next f st') m
  /\ p0 <= s_pos st' /\ s_pos st' <= nlen (s_data st').
Proof.
  intros Hb H1 H2 Hk st'. unfold slice_rem in Hk. rewrite nlen_ndrop in Hk. unfold in_bounds in Hb.
  assert (Hl : nlen (mem_read m (vs_off v) k) = k) by (apply mem_read_len; lia).
  split.
  - split; [exact I|]. cbn [pj_of src_now sink_now scr_next f_st]. split; [|reflexivity].
    unfold st'. cbn [s_data s_pos]. unfold mem_write. rewrite <- Hl at 1. apply sink_step; lia.
  - unfold st'. cbn [s_data s_pos]. rewrite mem_write_length by lia. lia.
Qed.
Lemma call_mslice_w n0 p0 :
  CallSpec false (pj_of EMSliceW false n0 p0) (extra_of EMSliceW false) (lift_call mslice_write_volatile)
    (inv_of EMSliceW false n0 p0).
Proof.
  intros B f m v (Hsc & H1 & H2) Hb HB.
  unfold lift_call. rewrite mslice_write_volatile_val. cbn [bind].
  set (total := N.min (vs_len v) (nlen (slice_rem (f_st f)))).
  destruct (mslice_w_step n0 p0 f m v total Hb H1 H2 eq_refl) as (HM & H1' & H2').
  eexists _, _, _, total. split; [reflexivity|]. split; [reflexivity|]. split; [reflexivity|].
  split; [exact HM|]. split; [lia|]. split; [cbn [inv_of scr_next f_script f_st]; rewrite Hsc; auto|].
  rewrite Hsc. reflexivity.
Qed.
Lemma exact_mslice_w n0 p0 sc0 F :
  ExactSpec false (pj_of EMSliceW false n0 p0) (extra_of EMSliceW false) sc0 (inv_of EMSliceW false n0 p0) EWriteZero
    (lift_exact mslice_write_all_volatile) F.
Proof.
  intros B f m pb _ _ (Hsc & H1 & H2) Hs Hb Ha HB Hc.
  unfold lift_exact, mslice_write_all_volatile. rewrite mslice_write_volatile_val. cbn [bind].
  set (total := N.min (vs_len pb) (nlen (slice_rem (f_st f)))).
  destruct (mslice_w_step n0 p0 f m pb total Hb H1 H2 eq_refl) as (HM & H1' & H2').
  set (st' := {| s_data := mem_write (s_data (f_st f)) (s_pos (f_st f)) (mem_read m (vs_off pb) total);
                 s_pos := s_pos (f_st f) + total; s_out := s_out (f_st f) |}) in *.
  destruct (mem_step_log sc0 f st' Hs Hsc Hc) as (Hs1 & Hc1 & Hl1).
  destruct (N.eqb_spec total (vs_len pb)) as [E|E]; cbn [bind].
  - eexists _, _, _, total. split; [reflexivity|]. split; [exact Hs1|]. split; [exact Hl1|].
    split; [exact HM|]. split; [lia|]. split; [cbn [inv_of scr_next f_script f_st]; rewrite Hsc; auto|].
    left. auto.
  - eexists _, _, _, total. split; [reflexivity|]. split; [exact Hs1|]. split; [exact Hl1|].
    split; [exact HM|]. split; [lia|]. split; [cbn [inv_of scr_next f_script f_st]; rewrite Hsc; auto|].
    right. left. split; [reflexivity|]. split; [lia|exact Hc1].
Qed.

(* ---- Vec<u8> *)
Lemma call_vec_w md n0 p0 :
  CallSpec false (pj_of EVecW false n0 p0) (extra_of EVecW false) (lift_call (vec_write_volatile md)) (inv_of EVecW false n0 p0).
Proof.
  intros B f m v (Hsc & H1 & H2) Hb HB.
  unfold lift_call. rewrite vec_write_volatile_val by lia. cbn [bind]. unfold in_bounds in Hb.
  assert (Hl : nlen (mem_read m (vs_off v) (vs_len v)) = vs_len v) by (apply mem_read_len; lia).
  eexists _, _, _, (vs_len v). split; [reflexivity|]. split; [reflexivity|]. split; [reflexivity|].
  split. { split; [exact I|]. cbn [pj_of src_now sink_now scr_next f_st s_data]. split; [|reflexivity]. apply ndrop_app_le. exact H1. }
  split; [lia|]. split.
  { cbn [inv_of scr_next f_script f_st s_data]. rewrite Hsc, nlen_app, Hl. split; [reflexivity|]. lia. }
  rewrite Hsc. reflexivity.
Qed.

(* ---- scripted descriptors over an OS oracle *)
(* a read(2) oracle delivers the first len bytes of what the stream still holds *)
Definition RdOracle (srcS : sstate -> list N) (ExtraS : sstate -> N -> sstate -> Prop)
  (osr : sstate -> N -> sstate * os_rres) : Prop :=
  forall st len, exists st', osr st len = (st', OsData (ntake len (srcS st)))
    /\ srcS st' = ndrop (nlen (ntake len (srcS st))) (srcS st) /\ ExtraS st (nlen (ntake len (srcS st))) st'.
(* a write(2) oracle accepts the whole buffer *)
Definition WrOracle (sinkS : sstate -> list N) (InvS : sstate -> Prop)
  (osw : sstate -> list N -> sstate * os_wres) : Prop :=
  forall st bs, InvS st -> exists st', osw st bs = (st', OsCount (nlen bs)) /\ sinkS st' = sinkS st ++ bs /\ InvS st'.

Lemma rd_moved (srcS : sstate -> list N) (ExtraS : sstate -> N -> sstate -> Prop) f m v len' st' :
  len' <= vs_len v ->
  srcS st' = ndrop (nlen (ntake len' (srcS (f_st f)))) (srcS (f_st f)) ->
  ExtraS (f_st f) (nlen (ntake len' (srcS (f_st f)))) st' ->
  MovedL true (fun f => srcS (f_st f)) (fun f k f' => ExtraS (f_st f) k (f_st f')) f m (vs_off v)
    (nlen (ntake len' (srcS (f_st f)))) (scr_next f st') (mem_write m (vs_off v) (ntake len' (srcS (f_st f))))
  /\ nlen (ntake len' (srcS (f_st f))) <= vs_len v.
Proof.
  intros Hl H1 H2. split.
  - split; [exact H2|]. cbn [scr_next f_st]. split; [exact H1|]. split; [rewrite nlen_ntake; lia|].
    rewrite nlen_ntake, ntake_min_len. reflexivity.
  - rewrite nlen_ntake. lia.
Qed.

Lemma scr_read_call (srcS : sstate -> list N) (ExtraS : sstate -> N -> sstate -> Prop) osr :
  RdOracle srcS ExtraS osr -> (forall st, ExtraS st 0 st) ->
  CallSpec true (fun f => srcS (f_st f)) (fun f k f' => ExtraS (f_st f) k (f_st f'))
    (read_volatile_raw_fd (scr_read osr)) (fun _ _ => True).
Proof.
  intros Hor Hrefl B f m v _ Hb HB. unfold read_volatile_raw_fd, scr_read.
  destruct (f_script f) as [|[|j| | |] t] eqn:Es; cbn [hd].
  - destruct (Hor (f_st f) (vs_len v)) as (st' & -> & H1 & H2).
    destruct (rd_moved srcS ExtraS f m v (vs_len v) st' (N.le_refl _) H1 H2) as [HM Hk].
    eexists _, _, _, (nlen (ntake (vs_len v) (srcS (f_st f)))). split; [reflexivity|].
    split; [cbn [scr_next f_script]; rewrite Es; reflexivity|]. split; [reflexivity|].
    split; [exact HM|]. split; [exact Hk|]. split; [exact I|reflexivity].
  - destruct (Hor (f_st f) (vs_len v)) as (st' & -> & H1 & H2).
    destruct (rd_moved srcS ExtraS f m v (vs_len v) st' (N.le_refl _) H1 H2) as [HM Hk].
    eexists _, _, _, (nlen (ntake (vs_len v) (srcS (f_st f)))). split; [reflexivity|].
    split; [cbn [scr_next f_script]; rewrite Es; reflexivity|]. split; [reflexivity|].
    split; [exact HM|]. split; [exact Hk|]. split; [exact I|reflexivity].
  - destruct (Hor (f_st f) (N.min j (vs_len v))) as (st' & -> & H1 & H2).
    destruct (rd_moved srcS ExtraS f m v (N.min j (vs_len v)) st' (N.le_min_r _ _) H1 H2) as [HM Hk].
    eexists _, _, _, (nlen (ntake (N.min j (vs_len v)) (srcS (f_st f)))). split; [reflexivity|].
    split; [cbn [scr_next f_script]; rewrite Es; reflexivity|]. split; [reflexivity|].
    split; [exact HM|]. split; [exact Hk|]. split; [exact I|reflexivity].
  - eexists _, _, _, 0. split; [reflexivity|].
    split; [cbn [scr_next f_script]; rewrite Es; reflexivity|]. split; [reflexivity|].
    split. { rewrite mem_write_nil. apply MovedL_same; [apply Hrefl|reflexivity]. }
    split; [lia|]. split; [exact I|reflexivity].
  - eexists _, _, _, 0. split; [reflexivity|].
    split; [cbn [scr_next f_script]; rewrite Es; reflexivity|]. split; [reflexivity|].
    split; [apply MovedL_same; [apply Hrefl|reflexivity]|].
    split; [lia|]. split; [exact I|auto].
  - eexists _, _, _, 0. split; [reflexivity|].
    split; [cbn [scr_next f_script]; rewrite Es; reflexivity|]. split; [reflexivity|].
    split; [apply MovedL_same; [apply Hrefl|reflexivity]|].
    split; [lia|]. split; [exact I|auto].
Qed.

Lemma wr_moved (sinkS : sstate -> list N) f m v a st' : in_bounds v m -> a <= vs_len v ->
  sinkS st' = sinkS (f_st f) ++ ntake a (mem_read m (vs_off v) (vs_len v)) ->
  MovedL false (fun f => sinkS (f_st f)) (fun _ _ _ => True) f m (vs_off v) a (scr_next f st') m
  /\ nlen (ntake a (mem_read m (vs_off v) (vs_len v))) = a.
Proof.
  intros Hb Ha H1. unfold in_bounds in Hb.
  assert (E : ntake a (mem_read m (vs_off v) (vs_len v)) = mem_read m (vs_off v) a).
  { unfold mem_read. rewrite ntake_ntake. f_equal. lia. }
  split.
  - split; [exact I|]. cbn [scr_next f_st]. split; [|reflexivity]. rewrite H1, E. reflexivity.
  - rewrite E. apply mem_read_len. lia.
Qed.

Lemma scr_write_call (sinkS : sstate -> list N) (InvS : sstate -> Prop) osw : WrOracle sinkS InvS osw ->
  CallSpec false (fun f => sinkS (f_st f)) (fun _ _ _ => True) (write_volatile_raw_fd (scr_write osw))
    (fun _ f => InvS (f_st f)).
Proof.
  intros Hor B f m v Hi Hb HB. unfold write_volatile_raw_fd, scr_write.
  set (bs := mem_read m (vs_off v) (vs_len v)).
  assert (Hbl : nlen bs = vs_len v) by (apply mem_read_len; exact Hb).
  assert (Hfull : ntake (vs_len v) bs = bs) by (apply ntake_all; lia).
  destruct (f_script f) as [|[|j| | |] t] eqn:Es; cbn [hd].
  - destruct (Hor (f_st f) bs Hi) as (st' & -> & H1 & H2).
    rewrite <- Hfull in H1. destruct (wr_moved sinkS f m v (vs_len v) st' Hb (N.le_refl _) H1) as [HM Hk].
    eexists _, _, _, (vs_len v). split; [reflexivity|].
    split; [cbn [scr_next f_script]; rewrite Es; reflexivity|]. split; [reflexivity|].
    split; [exact HM|]. split; [lia|]. split; [exact H2|]. rewrite Hbl. reflexivity.
  - destruct (Hor (f_st f) bs Hi) as (st' & -> & H1 & H2).
    rewrite <- Hfull in H1. destruct (wr_moved sinkS f m v (vs_len v) st' Hb (N.le_refl _) H1) as [HM Hk].
    eexists _, _, _, (vs_len v). split; [reflexivity|].
    split; [cbn [scr_next f_script]; rewrite Es; reflexivity|]. split; [reflexivity|].
    split; [exact HM|]. split; [lia|]. split; [exact H2|]. rewrite Hbl. reflexivity.
  - rewrite Hbl. set (a := N.min j (vs_len v)).
    destruct (Hor (f_st f) (ntake a bs) Hi) as (st' & -> & H1 & H2).
    destruct (wr_moved sinkS f m v a st' Hb (N.le_min_r _ _) H1) as [HM Hk]. fold bs in Hk.
    eexists _, _, _, a. split; [reflexivity|].
    split; [cbn [scr_next f_script]; rewrite Es; reflexivity|]. split; [reflexivity|].
    split; [exact HM|]. split; [unfold a; lia|]. split; [exact H2|]. rewrite Hk. reflexivity.
  - eexists _, _, _, 0. split; [reflexivity|].
    split; [cbn [scr_next f_script]; rewrite Es; reflexivity|]. split; [reflexivity|].
    split; [apply MovedL_same; [exact I|reflexivity]|].
    split; [lia|]. split; [exact Hi|reflexivity].
  - eexists _, _, _, 0. split; [reflexivity|].
    split; [cbn [scr_next f_script]; rewrite Es; reflexivity|]. split; [reflexivity|].
    split; [apply MovedL_same; [exact I|reflexivity]|].
    split; [lia|]. split; [exact Hi|auto].
  - eexists _, _, _, 0. split; [reflexivity|].
    split; [cbn [scr_next f_script]; rewrite Es; reflexivity|]. split; [reflexivity|].
    split; [apply MovedL_same; [exact I|reflexivity]|].
    split; [lia|]. split; [exact Hi|auto].
Qed.

(* the oracle instances *)
Lemma file_read_oracle :
  RdOracle (fun st => ndrop (s_pos st) (s_data st)) (fun st k st' => s_pos st' = s_pos st + k) file_read.
Proof.
  intros st len. unfold file_read. eexists. split; [reflexivity|]. cbn [set_pos s_pos s_data].
  split; [rewrite ndrop_ndrop; reflexivity|reflexivity].
Qed.
Lemma queue_read_oracle : RdOracle (fun st => s_data st) (fun _ _ _ => True) queue_read.
Proof.
  intros st len. unfold queue_read. eexists. split; [reflexivity|]. cbn [s_data].
  split; [rewrite nlen_ntake, ndrop_min_len; reflexivity|exact I].
Qed.
Lemma file_write_oracle p0 :
  WrOracle (fun st => ntake (s_pos st - p0) (ndrop p0 (s_data st)))
           (fun st => p0 <= s_pos st /\ (s_pos st = p0 \/ s_pos st <= nlen (s_data st))) file_write.
Proof.
  intros st bs [H1 H2]. unfold file_write. destruct (N.eqb_spec (nlen bs) 0) as [Hz|Hz].
  - exists st. rewrite Hz. split; [reflexivity|]. rewrite (nlen_zero _ Hz), app_nil_r. auto.
  - set (P := s_data st ++ repeat 0 (N.to_nat (s_pos st - nlen (s_data st)))).
    assert (HP : nlen P = nlen (s_data st) + (s_pos st - nlen (s_data st))).
    { unfold P. rewrite nlen_app. unfold nlen at 2. rewrite repeat_length. lia. }
    eexists. split; [reflexivity|]. cbn [s_data s_pos]. split.
    + rewrite sink_step by lia. f_equal.
      destruct H2 as [->|H2]; [rewrite N.sub_diag; reflexivity|].
      unfold P. replace (N.to_nat (s_pos st - nlen (s_data st))) with 0%nat by lia. cbn [repeat].
      rewrite app_nil_r. reflexivity.
    + split; [lia|]. right. rewrite !nlen_app, nlen_ntake, nlen_ndrop. lia.
Qed.
Lemma queue_write_oracle : WrOracle (fun st => s_out st) (fun _ => True) queue_write.
Proof. intros st bs _. unfold queue_write. eexists. split; [reflexivity|]. cbn [s_out]. auto. Qed.

(* ---- every endpoint of the suite satisfies the two contracts *)
Definition ek_rw (ek : ekind) (rd : bool) : bool := if rd then ek_reads ek else ek_writes ek.

Lemma ep_call_spec md ek rd n0 p0 : ek_rw ek rd = true ->
  CallSpec rd (pj_of ek rd n0 p0) (extra_of ek rd) (e_call (endpoint_of md ek rd)) (inv_of ek rd n0 p0).
Proof.
  destruct ek, rd; try discriminate; intros _; cbn [endpoint_of e_call base_kind os_read_of os_write_of].
  - apply call_slice_r.
  - apply call_mslice_w.
  - apply call_vec_w.
  - apply call_cur_r.
  - exact (scr_read_call _ _ _ file_read_oracle (fun st => eq_sym (N.add_0_r _))).
  - exact (scr_write_call _ _ _ (file_write_oracle p0)).
  - exact (scr_read_call _ _ _ queue_read_oracle (fun _ => I)).
  - exact (scr_write_call _ _ _ queue_write_oracle).
Qed.

Lemma ep_exact_spec md ek rd n0 p0 sc0 F : ek_rw ek rd = true ->
  ExactSpec rd (pj_of ek rd n0 p0) (extra_of ek rd) sc0 (inv_of ek rd n0 p0) (zerr_of rd)
    (e_exact (endpoint_of md ek rd) F) F.
Proof.
  intros H. pose proof (ep_call_spec md ek rd n0 p0 H) as Hc.
  destruct ek, rd; try discriminate; cbn [endpoint_of e_exact e_call zerr_of] in *;
    unfold write_all_volatile, read_exact_volatile.
  - apply exact_slice_r.
  - apply exact_mslice_w.
  - apply exact_volatile_spec; [apply extra_of_refl|apply extra_of_trans|exact Hc].
  - apply exact_cur_r.
  - apply exact_volatile_spec; [apply extra_of_refl|apply extra_of_trans|exact Hc].
  - apply exact_volatile_spec; [apply extra_of_refl|apply extra_of_trans|exact Hc].
  - apply exact_volatile_spec; [apply extra_of_refl|apply extra_of_trans|exact Hc].
  - apply exact_volatile_spec; [apply extra_of_refl|apply extra_of_trans|exact Hc].
Qed.

(* ---- the second contract (WHY a call answers zero bytes / an exact form gives up), for every endpoint of the suite *)
(* the invariant of the endpoint's state; what it can still deliver (readers) / take (&mut [u8]) *)
Definition pw_of (ek : ekind) (n0 p0 : N) (f : sfd) : Prop :=
  match ek with
  | ESliceR | EVecW => f_script f = []
  | ECurR => f_script f = [] /\ cur_ok (f_st f)
  | EMSliceW => f_script f = [] /\ nlen (s_data (f_st f)) = n0 /\ p0 <= s_pos (f_st f) /\ s_pos (f_st f) <= n0
  | EFile | EQueue => True
  end.
Definition leftof_of (ek : ekind) (rd : bool) (f : sfd) : option N :=
  if rd then Some (nlen (src_now ek (f_st f)))
  else match ek with EMSliceW => Some (nlen (s_data (f_st f)) - s_pos (f_st f)) | _ => None end.

Lemma step_log sc0 f st' : ScrInv sc0 f ->
  ScrInv sc0 (scr_next f st') /\ logof sc0 (scr_next f st') = logof sc0 f ++ [beh_of_f (hd FFull (f_script f))].
Proof. intros Hs. exact (log_step sc0 f (scr_next f st') Hs eq_refl eq_refl). Qed.
Lemma zstop_log sc0 leftof f' d b : logof sc0 f' = d ++ [b] -> zeroish b = true -> ZStop sc0 leftof f'.
Proof. intros E Hz. left. rewrite E. split; [destruct d; discriminate|rewrite last_snoc; exact Hz]. Qed.

(* in-memory endpoints: the script is empty, a call answers Ok k; it answers Ok 0 on a non-empty window only when
   nothing is left *)
Lemma lift_call_why (c : callT sstate) sc0 (P : sfd -> Prop) leftof :
  (forall f, P f -> f_script f = []) ->
  (forall f m v st' m' r, P f -> in_bounds v m -> c (f_st f) m v = Val ((st', m'), r) ->
     P (scr_next f st') /\ nlen m' = nlen m /\
     exists k, r = Ok k /\ (k = 0 -> vs_len v <> 0 -> leftof (scr_next f st') = Some 0)) ->
  CallWhy (lift_call c) sc0 P leftof.
Proof.
  intros Hsc Hc f m v f' m' r [Hp Hs] Hb H. unfold lift_call in H.
  destruct (c (f_st f) m v) as [[[st' m1] r1]| |] eqn:E; cbn [bind] in H; try discriminate H.
  inversion H; subst f' m1 r1. clear H.
  destruct (Hc f m v st' m' r Hp Hb E) as (A & B & k & -> & C).
  destruct (step_log sc0 f st' Hs) as [Hs1 _].
  split; [split; assumption|]. split; [exact B|]. intros Hk Hv. right. apply C; assumption.
Qed.

Lemma mem_write_take_len m off k (src : list N) : off + k <= nlen m -> nlen (mem_write m off (ntake k src)) = nlen m.
Proof. intros H. apply mem_write_length. rewrite nlen_ntake. lia. Qed.

Lemma why_slice_r n0 p0 sc0 :
  CallWhy (lift_call slice_read_volatile) sc0 (pw_of ESliceR n0 p0) (leftof_of ESliceR true).
Proof.
  apply lift_call_why; [intros f Hp; exact Hp|].
  intros f m v st' m' r Hp Hb E. cbn [pw_of] in Hp. rewrite slice_read_volatile_val in E.
  inversion E; subst st' m' r; clear E. unfold in_bounds in Hb.
  split; [cbn [pw_of scr_next f_script]; rewrite Hp; reflexivity|].
  split; [apply mem_write_take_len; lia|].
  eexists. split; [reflexivity|]. intros Hk Hv.
  cbn [leftof_of src_now scr_next f_st set_pos s_pos s_data]. f_equal.
  unfold slice_rem in Hk. rewrite nlen_ndrop in *. lia.
Qed.

Lemma why_cur_r md n0 p0 sc0 :
  CallWhy (lift_call (cursor_read_volatile md)) sc0 (pw_of ECurR n0 p0) (leftof_of ECurR true).
Proof.
  apply lift_call_why; [intros f Hp; apply Hp|].
  intros f m v st' m' r [Hsc Hok] Hb E. rewrite (cursor_read_val md _ m v Hok) in E.
  inversion E; subst st' m' r; clear E. unfold in_bounds in Hb.
  set (total := N.min (vs_len v) (nlen (ndrop (cur_start (f_st f)) (s_data (f_st f))))).
  destruct (cur_r_step n0 p0 f m v total Hok eq_refl) as [_ Hok'].
  split; [cbn [pw_of scr_next f_script f_st]; rewrite Hsc; auto|].
  split; [apply mem_write_take_len; unfold total; lia|].
  eexists. split; [reflexivity|]. intros Hk Hv.
  cbn [leftof_of src_now scr_next f_st set_pos s_pos s_data]. f_equal.
  fold total. unfold total, cur_start in Hk. rewrite nlen_ndrop in *. lia.
Qed.

(* one write into a &mut [u8] *)
Lemma mslice_w_why n0 p0 f m v : pw_of EMSliceW n0 p0 f ->
  let total := N.min (vs_len v) (nlen (slice_rem (f_st f))) in
  let st' := {| s_data := mem_write (s_data (f_st f)) (s_pos (f_st f)) (mem_read m (vs_off v) total);
                s_pos := s_pos (f_st f) + total; s_out := s_out (f_st f) |} in
  pw_of EMSliceW n0 p0 (scr_next f st')
  /\ (total <> vs_len v -> leftof_of EMSliceW false (scr_next f st') = Some 0).
Proof.
  intros (Hsc & Hn & H1 & H2) total st'. unfold slice_rem in total.
  assert (Ht : total <= n0 - s_pos (f_st f)) by (unfold total; rewrite nlen_ndrop; lia).
  assert (Hl : nlen (s_data st') = n0).
  { unfold st'. cbn [s_data]. rewrite mem_write_length; [exact Hn|].
    unfold mem_read. rewrite nlen_ntake. lia. }
  split.
  - cbn [pw_of scr_next f_script f_st]. rewrite Hsc. split; [reflexivity|]. split; [exact Hl|].
    unfold st'. cbn [s_pos]. lia.
  - intros Hne. cbn [leftof_of scr_next f_st]. rewrite Hl. unfold st'. cbn [s_pos]. f_equal.
    unfold total in *. rewrite nlen_ndrop in *. lia.
Qed.
Lemma why_mslice_w n0 p0 sc0 :
  CallWhy (lift_call mslice_write_volatile) sc0 (pw_of EMSliceW n0 p0) (leftof_of EMSliceW false).
Proof.
  apply lift_call_why; [intros f Hp; apply Hp|].
  intros f m v st' m' r Hp Hb E. rewrite mslice_write_volatile_val in E.
  inversion E; subst st' m' r; clear E.
  destruct (mslice_w_why n0 p0 f m v Hp) as [A C].
  split; [exact A|]. split; [reflexivity|]. eexists. split; [reflexivity|]. intros Hk Hv. apply C. lia.
Qed.

Lemma why_vec_w md n0 p0 sc0 :
  CallWhy (lift_call (vec_write_volatile md)) sc0 (pw_of EVecW n0 p0) (leftof_of EVecW false).
Proof.
  apply lift_call_why; [intros f Hp; exact Hp|].
  intros f m v st' m' r Hp Hb E. cbn [pw_of] in Hp.
  unfold vec_write_volatile, copy_from_volatile_slice, passert in E. rewrite N.eqb_refl in E. cbn [bind] in E.
  destruct (padd md 332 (nlen (s_data (f_st f))) (vs_len v)) as [x| |]; cbn [bind] in E; try discriminate E.
  inversion E; subst st' m' r; clear E.
  split; [cbn [pw_of scr_next f_script]; rewrite Hp; reflexivity|]. split; [reflexivity|].
  eexists. split; [reflexivity|]. intros Hk Hv. contradiction.
Qed.

(* scripted descriptors: a zero answer is scripted (FZero / FShort 0) or the real call found nothing left *)
Lemma scr_read_why (srcS : sstate -> list N) (ExtraS : sstate -> N -> sstate -> Prop) osr sc0 :
  RdOracle srcS ExtraS osr ->
  CallWhy (read_volatile_raw_fd (scr_read osr)) sc0 (fun _ => True) (fun f => Some (nlen (srcS (f_st f)))).
Proof.
  intros Hor f m v f' m' r [_ Hs] Hb H. unfold read_volatile_raw_fd, scr_read in H. unfold in_bounds in Hb.
  (* a real call asking for len' bytes *)
  assert (Hreal : forall len' b st', len' <= vs_len v -> (vs_len v <> 0 -> len' = 0 -> zeroish b = true) ->
            beh_of_f (hd FFull (f_script f)) = b ->
            srcS st' = ndrop (nlen (ntake len' (srcS (f_st f)))) (srcS (f_st f)) ->
            Val ((scr_next f st', mem_write m (vs_off v) (ntake len' (srcS (f_st f)))), Ok (nlen (ntake len' (srcS (f_st f)))))
            = Val ((f', m'), r) ->
            Qi sc0 (fun _ => True) f' /\ nlen m' = nlen m /\
            match r with
            | Ok k => k = 0 -> vs_len v <> 0 -> ZStop sc0 (fun f => Some (nlen (srcS (f_st f)))) f'
            | Err (VIo e) => e = EInterrupted \/ e = EOther
            | Err _ => True
            end).
  { intros len' b st' Hle Hzb Hb' H1 H0.
    inversion H0; subst f' m' r; clear H0.
    destruct (step_log sc0 f st' Hs) as [Hs1 Hlog].
    split; [split; [exact I|exact Hs1]|]. split; [apply mem_write_take_len; lia|].
    intros Hk Hv. rewrite nlen_ntake in Hk.
    destruct (N.eq_dec len' 0) as [Hz|Hz].
    - eapply zstop_log; [exact Hlog|]. rewrite Hb'. apply Hzb; assumption.
    - right. cbn [scr_next f_st]. f_equal. rewrite H1, nlen_ndrop. lia. }
  (* a scripted answer without a system call *)
  assert (Hscr : forall (r0 : res N) b, beh_of_f (hd FFull (f_script f)) = b ->
            match r0 with Ok k => k = 0 /\ zeroish b = true | Err (VIo e) => e = EInterrupted \/ e = EOther | Err _ => True end ->
            forall m0, nlen m0 = nlen m -> Val ((scr_next f (f_st f), m0), r0) = Val ((f', m'), r) ->
            Qi sc0 (fun _ => True) f' /\ nlen m' = nlen m /\
            match r with
            | Ok k => k = 0 -> vs_len v <> 0 -> ZStop sc0 (fun f => Some (nlen (srcS (f_st f)))) f'
            | Err (VIo e) => e = EInterrupted \/ e = EOther
            | Err _ => True
            end).
  { intros r0 b Hb' Hr0 m0 Hm0 H0. inversion H0; subst f' m' r; clear H0.
    destruct (step_log sc0 f (f_st f) Hs) as [Hs1 Hlog].
    split; [split; [exact I|exact Hs1]|]. split; [exact Hm0|].
    destruct r0 as [k|[e| |]]; auto. destruct Hr0 as [_ Hz]. intros _ _.
    eapply zstop_log; [exact Hlog|]. rewrite Hb'. exact Hz. }
  destruct (f_script f) as [|[|j| | |] t] eqn:Es; cbn [hd beh_of_f] in Hreal, Hscr.
  - destruct (Hor (f_st f) (vs_len v)) as (st' & E & H1 & _). rewrite E in H. cbv beta iota in H.
    apply (Hreal (vs_len v) Full st'); [lia|intros; contradiction|reflexivity|exact H1|exact H].
  - destruct (Hor (f_st f) (vs_len v)) as (st' & E & H1 & _). rewrite E in H. cbv beta iota in H.
    apply (Hreal (vs_len v) Full st'); [lia|intros; contradiction|reflexivity|exact H1|exact H].
  - destruct (Hor (f_st f) (N.min j (vs_len v))) as (st' & E & H1 & _). rewrite E in H. cbv beta iota in H.
    apply (Hreal (N.min j (vs_len v)) (Short j) st'); [lia| |reflexivity|exact H1|exact H].
    intros Hv Hz. cbn [zeroish]. apply N.eqb_eq. lia.
  - refine (Hscr (Ok (nlen (@nil N))) Zero eq_refl _ _ _ H); [split; reflexivity|rewrite mem_write_nil; reflexivity].
  - refine (Hscr (Err (VIo EInterrupted)) Eintr eq_refl _ m eq_refl H). left; reflexivity.
  - refine (Hscr (Err (VIo EOther)) HardErr eq_refl _ m eq_refl H). right; reflexivity.
Qed.

(* a write(2) oracle that reports the whole buffer as taken *)
Definition CountOracle (osw : sstate -> list N -> sstate * os_wres) : Prop :=
  forall st bs, exists st', osw st bs = (st', OsCount (nlen bs)).
Lemma file_write_count : CountOracle file_write.
Proof.
  intros st bs. unfold file_write. destruct (N.eqb_spec (nlen bs) 0) as [E|E]; [rewrite E|]; eexists; reflexivity.
Qed.
Lemma queue_write_count : CountOracle queue_write.
Proof. intros st bs. unfold queue_write. eexists. reflexivity. Qed.

Lemma scr_write_why osw sc0 : CountOracle osw ->
  CallWhy (write_volatile_raw_fd (scr_write osw)) sc0 (fun _ => True) (fun _ => None).
Proof.
  intros Hor f m v f' m' r [_ Hs] Hb H. unfold write_volatile_raw_fd, scr_write in H.
  set (bs := mem_read m (vs_off v) (vs_len v)) in *.
  assert (Hbl : nlen bs = vs_len v) by (apply mem_read_len; exact Hb).
  assert (Hreal : forall n b st', (vs_len v <> 0 -> n = 0 -> zeroish b = true) ->
            beh_of_f (hd FFull (f_script f)) = b ->
            Val ((scr_next f st', m), Ok n) = Val ((f', m'), r) ->
            Qi sc0 (fun _ => True) f' /\ nlen m' = nlen m /\
            match r with
            | Ok k => k = 0 -> vs_len v <> 0 -> ZStop sc0 (fun _ => None) f'
            | Err (VIo e) => e = EInterrupted \/ e = EOther
            | Err _ => True
            end).
  { intros n b st' Hzb Hb' H0.
    inversion H0; subst f' m' r; clear H0.
    destruct (step_log sc0 f st' Hs) as [Hs1 Hlog].
    split; [split; [exact I|exact Hs1]|]. split; [reflexivity|].
    intros Hk Hv.
    eapply zstop_log; [exact Hlog|]. rewrite Hb'. apply Hzb; assumption. }
  assert (Hscr : forall (r0 : res N) b, beh_of_f (hd FFull (f_script f)) = b ->
            match r0 with Ok k => k = 0 /\ zeroish b = true | Err (VIo e) => e = EInterrupted \/ e = EOther | Err _ => True end ->
            Val ((scr_next f (f_st f), m), r0) = Val ((f', m'), r) ->
            Qi sc0 (fun _ => True) f' /\ nlen m' = nlen m /\
            match r with
            | Ok k => k = 0 -> vs_len v <> 0 -> ZStop sc0 (fun _ => None) f'
            | Err (VIo e) => e = EInterrupted \/ e = EOther
            | Err _ => True
            end).
  { intros r0 b Hb' Hr0 H0. inversion H0; subst f' m' r; clear H0.
    destruct (step_log sc0 f (f_st f) Hs) as [Hs1 Hlog].
    split; [split; [exact I|exact Hs1]|]. split; [reflexivity|].
    destruct r0 as [k|[e| |]]; auto. destruct Hr0 as [_ Hz]. intros _ _.
    eapply zstop_log; [exact Hlog|]. rewrite Hb'. exact Hz. }
  destruct (f_script f) as [|[|j| | |] t] eqn:Es; cbn [hd beh_of_f] in Hreal, Hscr.
  - destruct (Hor (f_st f) bs) as (st' & E). rewrite E in H. cbv beta iota in H.
    apply (Hreal (nlen bs) Full st'); [intros; lia|reflexivity|exact H].
  - destruct (Hor (f_st f) bs) as (st' & E). rewrite E in H. cbv beta iota in H.
    apply (Hreal (nlen bs) Full st'); [intros; lia|reflexivity|exact H].
  - destruct (Hor (f_st f) (ntake (N.min j (nlen bs)) bs)) as (st' & E). rewrite E in H. cbv beta iota in H.
    apply (Hreal (nlen (ntake (N.min j (nlen bs)) bs)) (Short j) st'); [|reflexivity|exact H].
    intros Hv Hz. rewrite nlen_ntake in Hz. cbn [zeroish]. apply N.eqb_eq. lia.
  - apply (Hscr (Ok 0) Zero eq_refl); [split; reflexivity|exact H].
  - apply (Hscr (Err (VIo EInterrupted)) Eintr eq_refl); [left; reflexivity|exact H].
  - apply (Hscr (Err (VIo EOther)) HardErr eq_refl); [right; reflexivity|exact H].
Qed.

Lemma ep_call_why md ek rd n0 p0 sc0 : ek_rw ek rd = true ->
  CallWhy (e_call (endpoint_of md ek rd)) sc0 (pw_of ek n0 p0) (leftof_of ek rd).
Proof.
  destruct ek, rd; try discriminate; intros _; cbn [endpoint_of e_call base_kind os_read_of os_write_of].
  - apply why_slice_r.
  - apply why_mslice_w.
  - apply why_vec_w.
  - apply why_cur_r.
  - exact (scr_read_why _ _ _ sc0 file_read_oracle).
  - exact (scr_write_why _ sc0 file_write_count).
  - exact (scr_read_why _ _ _ sc0 queue_read_oracle).
  - exact (scr_write_why _ sc0 queue_write_count).
Qed.

(* the exact forms: the three specialised ones refuse / give up for lack of bytes or room, the provided loops stop
   after a zero answer *)
Lemma why_exact_slice_r n0 p0 sc0 :
  ExWhy sc0 (pw_of ESliceR n0 p0) (leftof_of ESliceR true) false (lift_exact slice_read_exact_volatile).
Proof.
  intros f m pb f' m' r [Hp Hs] Hb H. cbn [pw_of] in Hp. unfold lift_exact, slice_read_exact_volatile in H.
  unfold in_bounds in Hb.
  destruct (N.ltb_spec (nlen (slice_rem (f_st f))) (vs_len pb)) as [Hlt|Hge]; cbn [bind] in H.
  - inversion H; subst f' m' r; clear H. destruct (step_log sc0 f (f_st f) Hs) as [Hs1 _].
    split; [split; [cbn [pw_of scr_next f_script]; rewrite Hp; reflexivity|exact Hs1]|]. split; [reflexivity|].
    right. right. split; [reflexivity|]. split; [reflexivity|].
    exists (nlen (slice_rem (f_st f))). split; [reflexivity|exact Hlt].
  - rewrite slice_read_volatile_val in H. cbn [bind] in H. inversion H; subst f' m' r; clear H.
    destruct (step_log sc0 f (set_pos (f_st f) (s_pos (f_st f) + N.min (vs_len pb) (nlen (slice_rem (f_st f))))) Hs) as [Hs1 _].
    split; [split; [cbn [pw_of scr_next f_script]; rewrite Hp; reflexivity|exact Hs1]|].
    split; [apply mem_write_take_len; lia|exact I].
Qed.
Lemma why_exact_cur_r md n0 p0 sc0 :
  ExWhy sc0 (pw_of ECurR n0 p0) (leftof_of ECurR true) false (lift_exact (cursor_read_exact_volatile md)).
Proof.
  intros f m pb f' m' r [[Hsc Hok] Hs] Hb H. unfold lift_exact in H. rewrite (cursor_read_exact_val md _ m pb Hok) in H.
  unfold in_bounds in Hb.
  destruct (N.ltb_spec (nlen (ndrop (cur_start (f_st f)) (s_data (f_st f)))) (vs_len pb)) as [Hlt|Hge]; cbn [bind] in H.
  - inversion H; subst f' m' r; clear H. destruct (step_log sc0 f (f_st f) Hs) as [Hs1 _].
    split; [split; [cbn [pw_of scr_next f_script f_st]; rewrite Hsc; auto|exact Hs1]|]. split; [reflexivity|].
    right. right. split; [reflexivity|]. split; [reflexivity|].
    exists (nlen (ndrop (cur_start (f_st f)) (s_data (f_st f)))). split; [reflexivity|exact Hlt].
  - inversion H; subst f' m' r; clear H.
    destruct (cur_r_step n0 p0 f m pb (vs_len pb) Hok) as [_ Hok']; [lia|].
    destruct (step_log sc0 f (set_pos (f_st f) (s_pos (f_st f) + vs_len pb)) Hs) as [Hs1 _].
    split; [split; [cbn [pw_of scr_next f_script f_st]; rewrite Hsc; auto|exact Hs1]|].
    split; [apply mem_write_take_len; lia|exact I].
Qed.
Lemma why_exact_mslice_w n0 p0 sc0 :
  ExWhy sc0 (pw_of EMSliceW n0 p0) (leftof_of EMSliceW false) true (lift_exact mslice_write_all_volatile).
Proof.
  intros f m pb f' m' r [Hp Hs] Hb H. unfold lift_exact, mslice_write_all_volatile in H.
  rewrite mslice_write_volatile_val in H. cbn [bind] in H.
  destruct (mslice_w_why n0 p0 f m pb Hp) as [A C].
  set (total := N.min (vs_len pb) (nlen (slice_rem (f_st f)))) in *.
  set (st' := {| s_data := mem_write (s_data (f_st f)) (s_pos (f_st f)) (mem_read m (vs_off pb) total);
                 s_pos := s_pos (f_st f) + total; s_out := s_out (f_st f) |}) in *.
  destruct (step_log sc0 f st' Hs) as [Hs1 _].
  destruct (N.eqb_spec total (vs_len pb)) as [E|E]; cbn [bind] in H; inversion H; subst f' m' r; clear H.
  - split; [split; assumption|]. split; [reflexivity|exact I].
  - split; [split; assumption|]. split; [reflexivity|]. right. left. right. apply C. exact E.
Qed.

Lemma ep_exact_why_g md ek n0 p0 sc0 F : ek_writes ek = true ->
  ExWhy sc0 (pw_of ek n0 p0) (leftof_of ek false) true (e_exact (endpoint_of md ek false) F).
Proof.
  intros H. pose proof (ep_call_why md ek false n0 p0 sc0 H) as Hc.
  destruct ek; try discriminate; cbn [endpoint_of e_exact e_call] in *; unfold write_all_volatile.
  - apply why_exact_mslice_w.
  - apply exact_volatile_why. exact Hc.
  - apply exact_volatile_why. exact Hc.
  - apply exact_volatile_why. exact Hc.
Qed.
Lemma ep_exact_why md ek rd n0 p0 sc0 F : ek_rw ek rd = true ->
  ExWhy sc0 (pw_of ek n0 p0) (leftof_of ek rd) false (e_exact (endpoint_of md ek rd) F).
Proof.
  intros H. destruct rd; [|apply ExWhy_weaken; apply ep_exact_why_g; exact H].
  pose proof (ep_call_why md ek true n0 p0 sc0 H) as Hc.
  destruct ek; try discriminate; cbn [endpoint_of e_exact e_call] in *; unfold read_exact_volatile.
  - apply why_exact_slice_r.
  - apply why_exact_cur_r.
  - apply ExWhy_weaken. apply exact_volatile_why. exact Hc.
  - apply ExWhy_weaken. apply exact_volatile_why. exact Hc.
Qed.

(* ------------------------------------------------------------------ 3. the checker on the model *)
Record wf_facts (c : case14own) : Prop := {
  wf_t : wf14 (case14_of c) = true;
  wf_rw : ek_rw (w_ek c) (is_read (w_op c)) = true;
  wf_sc : ek_fd (w_ek c) = false -> w_script c = [];
  wf_pos : pos_ok (w_ek c) (w_content c) (w_pos c) = true;
  wf_w64 : nlen (w_content c) + nlen (w_mem c) < W64 }.
Lemma wf14own_facts c : wf14own c = true -> wf_facts c.
Proof.
  unfold wf14own, ek_ok. rewrite !andb_true_iff. intros [[[[[H1 [H2 H3]] H4] _] _] H5].
  apply N.ltb_lt in H5. split; auto.
  intros E. rewrite E in H3. cbn [orb] in H3. destruct (w_script c); [reflexivity|discriminate].
Qed.

Definition PostC (c : case14own) (f' : sfd) (m' : list N) (rc : N * N * N) : Prop :=
  PostL (is_read (w_op c)) (pj_of (w_ek c) (is_read (w_op c)) (nlen (w_content c)) (w_pos c))
        (extra_of (w_ek c) (is_read (w_op c))) (w_script c) (is_exact (w_op c)) (w_target c) (w_addr c) (w_count c)
        (init_of c) (w_mem c) f' m' rc.

Lemma init_inv c : wf_facts c ->
  inv_of (w_ek c) (is_read (w_op c)) (nlen (w_content c)) (w_pos c) (nlen (w_mem c)) (init_of c).
Proof.
  intros [_ Hrw Hsc Hpos Hw]. unfold pos_ok in Hpos.
  destruct (w_ek c), (is_read (w_op c)); try discriminate; cbn [inv_of init_of f_script f_st s_pos s_data]; try exact I.
  - apply Hsc. reflexivity.
  - split; [apply Hsc; reflexivity|]. apply N.leb_le in Hpos. lia.
  - split; [apply Hsc; reflexivity|]. split; [lia|exact Hw].
  - split; [apply Hsc; reflexivity|]. apply N.ltb_lt in Hpos. unfold cur_ok. cbn [s_pos s_data]. lia.
  - split; [lia|]. left. reflexivity.
Qed.

Lemma exec_post c : wf14own c = true -> exists f' m' rc, exec14own c = Val ((f', m'), rc) /\ PostC c f' m' rc.
Proof.
  intros Hwf. pose proof (wf14own_facts c Hwf) as Hf. rewrite exec14own_ep. unfold PostC.
  apply (exec_ep_post (is_read (w_op c)) _ _ _ (w_script c)
           (inv_of (w_ek c) (is_read (w_op c)) (nlen (w_content c)) (w_pos c)) (zerr_of (is_read (w_op c)))
           (extra_of_refl _ _) (extra_of_trans _ _) (zerr_of_cases _)
           (ep_call_spec (w_mode c) _ _ _ _ (wf_rw c Hf)) _ _
           (ep_exact_spec (w_mode c) _ _ _ _ _ _ (wf_rw c Hf)) c (wf_t c Hf) eq_refl eq_refl (init_inv c Hf)).
Qed.

(* result kinds: every transfer that returns has a kind below 11 *)
Lemma rk_res_lt {A} (okc : A -> N * N) (r : res A) : (forall x, fst (okc x) < 11) -> rk_of (rc_res okc r) < 11.
Proof. intros H. destruct r as [x|[[]| |]]; cbn [rc_res rk_of fst rc_io]; try lia. apply H. Qed.
Lemma rk_gres_lt {A} (okc : A -> N * N) (r : gres A) : (forall x, fst (okc x) < 11) -> rk_of (rc_gres okc r) < 11.
Proof. intros H. destruct r as [x|[|[]| | | |]]; cbn [rc_gres rk_of fst rc_io]; try lia. apply H. Qed.
Lemma okc_n_lt x : fst (okc_n x) < 11. Proof. cbn. lia. Qed.
Lemma okc_u_lt x : fst (okc_u x) < 11. Proof. cbn. lia. Qed.
Lemma omap_rk {X A} (E : outcome (X * A)) (g : A -> N * N * N) x rk a b : (forall r, rk_of (g r) < 11) ->
  omap (fun y => (fst y, g (snd y))) E = Val (x, (rk, a, b)) -> rk < 11.
Proof.
  intros Hg H. destruct E as [[x1 r]| |]; cbn [omap fst snd] in H; try discriminate.
  injection H as _ H2. specialize (Hg r). rewrite H2 in Hg. exact Hg.
Qed.
Lemma exec_rk c x rk a b : exec14own c = Val (x, (rk, a, b)) -> rk < 11.
Proof.
  unfold exec14own. destruct (w_target c); [destruct (is_exact (w_op c))|destruct (is_exact (w_op c))|destruct (w_op c)];
    apply omap_rk; intros ?;
    first [apply rk_res_lt; first [apply okc_n_lt|apply okc_u_lt] | apply rk_gres_lt; first [apply okc_n_lt|apply okc_u_lt]].
Qed.

Lemma gdrop_eq {A} n (l : list A) : gdrop n l = ndrop n l.
Proof. unfold gdrop. destruct (N.leb_spec (nlen l) n); [rewrite ndrop_all by lia|]; reflexivity. Qed.
Lemma gtake_eq {A} n (l : list A) : gtake n l = ntake n l.
Proof. unfold gtake. destruct (N.leb_spec (nlen l) n); [rewrite ntake_all by lia|]; reflexivity. Qed.

(* how the final state of the model shows in the observation *)
Definition obs_of (c : case14own) (f : sfd) (m : list N) (rk a b : N) : obs14own :=
  {| y_rk := rk; y_a := a; y_b := b; y_calls := if ek_fd (w_ek c) then f_calls f else 0;
     y_data := fst (show_ep (w_ek c) (f_st f)); y_pos := snd (show_ep (w_ek c) (f_st f));
     y_out := s_out (f_st f); y_mem := m |}.

Lemma src_init c : ek_reads (w_ek c) = true -> src_now (w_ek c) (f_st (init_of c)) = src_of (w_ek c) (w_content c) (w_pos c).
Proof.
  intros H. unfold src_of. cbn [init_of f_st]. destruct (w_ek c); try discriminate; cbn [src_now s_pos s_data];
    rewrite ?gdrop_eq; reflexivity.
Qed.
Lemma sink_init c : sink_now (w_ek c) (nlen (w_content c)) (w_pos c) (f_st (init_of c)) = [].
Proof.
  cbn [init_of f_st]. destruct (w_ek c); cbn [sink_now s_pos s_data s_out]; try reflexivity.
  - rewrite N.sub_diag. reflexivity.
  - apply ndrop_all. lia.
  - rewrite N.sub_diag. reflexivity.
Qed.
Lemma sink_obs c f m rk a b :
  sink_of (w_ek c) (w_content c) (w_pos c) (obs_of c f m rk a b) = sink_now (w_ek c) (nlen (w_content c)) (w_pos c) (f_st f).
Proof.
  unfold sink_of, obs_of, show_ep. cbn [y_pos y_data y_out].
  destruct (w_ek c); cbn [sink_now fst snd]; rewrite ?gtake_eq, ?gdrop_eq; reflexivity.
Qed.
Lemma moved_obs c f m rk a b k : ek_reads (w_ek c) = true ->
  extra_of (w_ek c) true (init_of c) k f -> src_now (w_ek c) (f_st f) = ndrop k (src_now (w_ek c) (f_st (init_of c))) ->
  k <= nlen (src_now (w_ek c) (f_st (init_of c))) ->
  moved_rd (w_ek c) (w_content c) (w_pos c) (obs_of c f m rk a b) = k.
Proof.
  intros H HE Hs Hk. unfold moved_rd, obs_of, show_ep. cbn [y_pos]. cbn [init_of f_st] in *.
  destruct (w_ek c); try discriminate; cbn [extra_of src_now init_of f_st fst snd s_pos s_data] in *; try lia.
  rewrite Hs, nlen_ndrop. lia.
Qed.

(* the flags the checker reads off the first o_calls behaviours *)
Lemma made_flags c f rk : wf_facts c -> LogRes (logof (w_script c) f) rk ->
  let made := calls_made (map beh_of_f (w_script c)) (if ek_fd (w_ek c) then f_calls f else 0) in
  LogRes made rk /\ existsb is_hard made = existsb is_hard (logof (w_script c) f).
Proof.
  intros Hf HL made. unfold made. destruct (ek_fd (w_ek c)) eqn:Efd.
  - destruct (sim_flags _ _ (logof_calls_made (w_script c) f)) as (A & B & C).
    unfold LogRes in *. rewrite A, B, C. auto.
  - rewrite (wf_sc c Hf Efd) in *. split; [|rewrite logof_nil_clean; reflexivity].
    destruct HL as (H4 & _ & H5). rewrite logof_nil_clean in H5.
    unfold LogRes. cbn. auto.
Qed.

(* the bytes moved, as the observation shows them *)
Lemma obs_moved_k c f' m' rk a b k : wf_facts c ->
  GMovedL (is_read (w_op c)) (pj_of (w_ek c) (is_read (w_op c)) (nlen (w_content c)) (w_pos c))
          (extra_of (w_ek c) (is_read (w_op c))) (w_target c) (init_of c) (w_mem c) (w_addr c) k f' m' ->
  o_moved (obs14_of c (obs_of c f' m' rk a b)) = k.
Proof.
  intros Hf [HE HG]. pose proof (wf_rw c Hf) as Hrw. unfold ek_rw in Hrw. unfold obs14_of. cbn [o_moved].
  destruct (is_read (w_op c)); cbn [pj_of] in HG.
  - destruct HG as (A1 & A2 & _). apply moved_obs; assumption.
  - destruct HG as (bs & A1 & A2 & _). rewrite sink_obs, A2, sink_init. cbn [app].
    apply flat_read_length in A1. unfold nlen. lia.
Qed.

Lemma post_ok_own c f' m' rk a b : wf14own c = true -> PostC c f' m' (rk, a, b) -> rk < 11 ->
  ek_ok c && (y_rk (obs_of c f' m' rk a b) <? 11) && ok_C14_core (case14_of c) (obs14_of c (obs_of c f' m' rk a b)) = true.
Proof.
  intros Hwf [Hs (k & [HE HG] & Hkc & HL & HR)] Hrk. pose proof (wf14own_facts c Hwf) as Hf.
  cbn [rk_of fst snd] in *.
  destruct (made_flags c f' rk Hf HL) as [(H4 & He & Hh) Hhard].
  assert (Hek : ek_ok c = true).
  { unfold wf14own in Hwf. rewrite !andb_true_iff in Hwf. tauto. }
  rewrite Hek. cbn [andb]. replace (y_rk (obs_of c f' m' rk a b) <? 11) with true
    by (symmetry; apply N.ltb_lt; exact Hrk). cbn [andb].
  unfold ok_C14_core. cbn [case14_of obs14_of c_target c_script c_count c_addr c_op c_src c_mem
                      o_rk o_a o_b o_calls o_moved o_sink o_mem].
  change (y_calls (obs_of c f' m' rk a b)) with (if ek_fd (w_ek c) then f_calls f' else 0).
  change (y_rk (obs_of c f' m' rk a b)) with rk. change (y_a (obs_of c f' m' rk a b)) with a.
  change (y_mem (obs_of c f' m' rk a b)) with m'.
  set (made := calls_made (map beh_of_f (w_script c)) (if ek_fd (w_ek c) then f_calls f' else 0)) in *.
  pose proof (wf_rw c Hf) as Hrw. unfold ek_rw in Hrw.
  (* the bytes moved and the sink, as the observation shows them *)
  assert (Hobs : (if is_read (w_op c)
                  then moved_rd (w_ek c) (w_content c) (w_pos c) (obs_of c f' m' rk a b)
                  else nlen (if is_read (w_op c) then [] else sink_of (w_ek c) (w_content c) (w_pos c) (obs_of c f' m' rk a b))) = k).
  { destruct (is_read (w_op c)); cbn [pj_of] in HG.
    - destruct HG as (A1 & A2 & _). apply moved_obs; assumption.
    - destruct HG as (bs & A1 & A2 & _). rewrite sink_obs, A2, sink_init. cbn [app].
      apply flat_read_length in A1. unfold nlen. lia. }
  rewrite Hobs.
  rewrite !andb_true_iff. repeat split.
  - apply neqb_true. exact H4.
  - rewrite He. reflexivity.
  - destruct (existsb is_hard made).
    + destruct Hh as [-> Hr]. rewrite Hr. reflexivity.
    + apply neqb_true. exact Hh.
  - destruct (is_read (w_op c)); cbn [pj_of] in HG.
    + destruct HG as (A1 & A2 & A3). rewrite (src_init c Hrw) in A2, A3. rewrite A3.
      rewrite !list_eqb_refl. cbn [list_eqb]. rewrite !andb_true_r. apply N.leb_le. exact A2.
    + destruct HG as (bs & A1 & A2 & A3). subst m'. rewrite sink_init in A2. cbn [app] in A2.
      rewrite list_eqb_refl. rewrite A1, sink_obs, A2, list_eqb_refl.
      apply flat_read_length in A1. unfold nlen. rewrite A1, N2Nat.id, N.eqb_refl. reflexivity.
  - destruct (is_exact (w_op c)).
    + destruct HR as [H0 Hiff]. rewrite (neqb_true _ _ H0). cbn [andb]. rewrite Hhard.
      destruct (existsb is_hard (logof (w_script c) f')) eqn:Eh; [reflexivity|]. cbn [orb].
      destruct ((0 <? w_count c) || match idx_of (w_target c) (w_addr c) with Some _ => true | None => false end) eqn:Ej;
        [|reflexivity]. cbn [negb].
      assert (Hj : judged (w_target c) (w_addr c) (w_count c)).
      { apply orb_true_iff in Ej. destruct Ej as [Ej|Ej]; [left; apply N.ltb_lt; exact Ej|].
        right. destruct (idx_of (w_target c) (w_addr c)); [discriminate|discriminate]. }
      specialize (Hiff eq_refl Hj).
      destruct (N.eqb_spec rk 1) as [E1|E1]; destruct (N.eqb_spec k (w_count c)) as [E2|E2]; try reflexivity.
      * exfalso. apply E2. apply Hiff. exact E1.
      * exfalso. apply E1. apply Hiff. exact E2.
    + destruct HR as [H1 H0]. rewrite (neqb_true _ _ H1). cbn [andb].
      destruct (N.eqb_spec rk 0) as [E|E]; [|reflexivity]. apply N.eqb_eq. apply H0. exact E.
  - apply N.leb_le. exact Hkc.
Qed.

(* ---- the progress clause on the model *)
Lemma init_pw c : wf_facts c -> pw_of (w_ek c) (nlen (w_content c)) (w_pos c) (init_of c).
Proof.
  intros [_ Hrw Hsc Hpos Hw]. unfold pos_ok in Hpos.
  destruct (w_ek c); cbn [pw_of init_of f_script f_st s_pos s_data]; try exact I.
  - apply Hsc. reflexivity.
  - split; [apply Hsc; reflexivity|]. split; [reflexivity|]. apply N.leb_le in Hpos. lia.
  - apply Hsc. reflexivity.
  - split; [apply Hsc; reflexivity|]. apply N.ltb_lt in Hpos. unfold cur_ok. cbn [s_pos s_data]. lia.
Qed.
Lemma logof_nil_last f : logof [] f <> [] -> last (logof [] f) Zero = Full.
Proof.
  unfold logof, padded. cbn [app]. rewrite firstn_all2 by (rewrite repeat_length; lia).
  rewrite map_repeat_c. cbn [beh_of_f]. induction (N.to_nat (f_calls f)) as [|n IH]; [intros H; exfalso; apply H; reflexivity|].
  intros _. destruct n as [|n]; [reflexivity|].
  change (repeat Full (S (S n))) with (Full :: repeat Full (S n)).
  change (last (Full :: repeat Full (S n)) Zero) with (last (repeat Full (S n)) Zero). apply IH. discriminate.
Qed.

Lemma progress_own_ok c f' m' rk a b : wf14own c = true -> exec14own c = Val ((f', m'), (rk, a, b)) ->
  PostC c f' m' (rk, a, b) -> progress14own c (obs_of c f' m' rk a b) = true.
Proof.
  intros Hwf He [Hs (k & HGM & Hkc & HL & HR)]. pose proof (wf14own_facts c Hwf) as Hf.
  cbn [rk_of fst snd] in *.
  unfold progress14own.
  rewrite (obs_moved_k c f' m' rk a b k Hf HGM).
  change (y_calls (obs_of c f' m' rk a b)) with (if ek_fd (w_ek c) then f_calls f' else 0).
  change (y_rk (obs_of c f' m' rk a b)) with rk.
  destruct (progress_applies (w_target c) (w_addr c) (w_count c) (w_op c) rk
              (made_own c (if ek_fd (w_ek c) then f_calls f' else 0))) eqn:Ea; [|reflexivity].
  unfold progress_applies in Ea. rewrite !andb_true_iff in Ea. destruct Ea as [[[Hx Hrk] Hh] Hjb].
  apply negb_true_iff in Hrk, Hh. apply N.eqb_neq in Hrk.
  assert (Hj : judged (w_target c) (w_addr c) (w_count c)).
  { apply orb_true_iff in Hjb. destruct Hjb as [Hjb|Hjb]; [left; apply N.ltb_lt; exact Hjb|].
    right. destruct (idx_of (w_target c) (w_addr c)); [discriminate|discriminate]. }
  (* no hard error in the log *)
  assert (Hhl : existsb is_hard (logof (w_script c) f') = false).
  { destruct (ek_fd (w_ek c)) eqn:Efd; [exact Hh|]. rewrite (wf_sc c Hf Efd). apply logof_nil_clean. }
  destruct HL as (_ & _ & HL). rewrite Hhl in HL.
  rewrite Hx in HR. destruct HR as [_ Hiff]. specialize (Hiff Hhl Hj).
  assert (Hklt : k < w_count c) by (assert (k <> w_count c) by (intros E; apply Hrk; apply Hiff; exact E); lia).
  (* the excuse *)
  rewrite exec14own_ep in He.
  pose proof (wf_rw c Hf) as Hrw.
  assert (Hexg : w_op c = WrAll ->
            ExWhy (w_script c) (pw_of (w_ek c) (nlen (w_content c)) (w_pos c)) (leftof_of (w_ek c) (is_read (w_op c))) true
              (e_exact (endpoint_of (w_mode c) (w_ek c) (is_read (w_op c))) (fuel14own c))).
  { intros Eo. rewrite Eo in Hrw |- *. cbn [is_read]. apply ep_exact_why_g. exact Hrw. }
  destruct (exec_ep_why (is_read (w_op c)) (pj_of (w_ek c) (is_read (w_op c)) (nlen (w_content c)) (w_pos c))
              (extra_of (w_ek c) (is_read (w_op c))) (e_call (endpoint_of (w_mode c) (w_ek c) (is_read (w_op c)))) (w_script c)
              (inv_of (w_ek c) (is_read (w_op c)) (nlen (w_content c)) (w_pos c)) (zerr_of (is_read (w_op c)))
              (extra_of_refl _ _) (extra_of_trans _ _) (zerr_of_cases _)
              (ep_call_spec (w_mode c) _ _ _ _ Hrw)
              (pw_of (w_ek c) (nlen (w_content c)) (w_pos c)) (leftof_of (w_ek c) (is_read (w_op c)))
              (ep_call_why (w_mode c) _ _ _ _ _ Hrw) (fuel14own c)
              (e_exact (endpoint_of (w_mode c) (w_ek c) (is_read (w_op c))) (fuel14own c))
              (ep_exact_spec (w_mode c) _ _ _ _ _ _ Hrw) c f' m' rk a b
              (ep_exact_why (w_mode c) _ _ _ _ _ _ Hrw) Hexg (wf_t c Hf) eq_refl eq_refl (init_inv c Hf) (init_pw c Hf)
              Hx He Hrk HL Hj) as [[Hp' _] W].
  rewrite <- (GMovedL_det _ _ _ _ _ _ _ _ _ _ HGM) in W.
  unfold progress_ok.
  destruct W as [W|[[W1 W2]|[W|W]]].
  - rewrite W. reflexivity.
  - (* refused before the endpoint was touched *)
    assert (Ek : k = 0).
    { rewrite (GMovedL_det _ _ _ _ _ _ _ _ _ _ HGM). subst f'. unfold dkL. destruct (is_read (w_op c)); lia. }
    rewrite Ek, W2. subst f'. cbn [init_of f_calls].
    replace (if ek_fd (w_ek c) then 0 else 0) with 0 by (destruct (ek_fd (w_ek c)); reflexivity).
    apply orb_true_iff. left. apply orb_true_iff. left. apply orb_true_iff. right. reflexivity.
  - destruct W as [[Wn Wz]|Wl].
    + (* the last call answered zero bytes by script: a descriptor *)
      destruct (ek_fd (w_ek c)) eqn:Efd.
      * apply orb_true_iff. left. apply orb_true_iff. right.
        change (made_own c (f_calls f')) with (logof (w_script c) f').
        destruct (logof (w_script c) f') as [|x l] eqn:El; [congruence|]. exact Wz.
      * exfalso. rewrite (wf_sc c Hf Efd) in Wn, Wz. rewrite (logof_nil_last f' Wn) in Wz. discriminate Wz.
    + (* nothing left *)
      apply orb_true_iff. right. unfold left_own, leftof_of in *.
      destruct HGM as [_ HGM]. destruct (is_read (w_op c)) eqn:Erd; cbn [pj_of] in HGM.
      * destruct HGM as (A1 & A2 & _). injection Wl as Wl. rewrite A1, nlen_ndrop in Wl.
        rewrite (src_init c Hrw) in Wl, A2. apply N.ltb_lt. lia.
      * destruct HGM as (bs & A1 & A2 & _). rewrite sink_init in A2. cbn [app] in A2.
        destruct (w_ek c) eqn:Ek; try discriminate Wl. injection Wl as Wl.
        destruct Hp' as (_ & Hn & H1 & H2). apply flat_read_length in A1.
        assert (Hkb : nlen bs = k) by (unfold nlen; lia).
        cbn [sink_now] in A2. rewrite <- A2, nlen_ntake, nlen_ndrop in Hkb.
        apply N.ltb_lt. lia.
  - (* refused by the endpoint: shorter than the window *)
    destruct W as [Wst (l & Wl & Wlt)].
    assert (Ek : k = 0).
    { rewrite (GMovedL_det _ _ _ _ _ _ _ _ _ _ HGM). unfold dkL, pj_of. rewrite Wst. destruct (is_read (w_op c)); lia. }
    apply orb_true_iff. right. unfold left_own, leftof_of in *. rewrite Wst in Wl. rewrite Ek.
    destruct (is_read (w_op c)) eqn:Erd.
    + assert (Wl' : nlen (src_now (w_ek c) (f_st (init_of c))) = l) by congruence.
      rewrite (src_init c Hrw) in Wl'. apply N.ltb_lt. lia.
    + destruct (w_ek c) eqn:Ek'; try discriminate Wl.
      assert (Wl' : nlen (s_data (f_st (init_of c))) - s_pos (f_st (init_of c)) = l) by congruence.
      cbn [init_of f_st s_data s_pos] in Wl'. apply N.ltb_lt. lia.
Qed.

Lemma C14own_model_ok_lemma : forall c, wf14own c = true -> ok_C14own c (run_C14own c) = true.
Proof.
  intros c Hwf. destruct (exec_post c Hwf) as (f' & m' & [[rk a] b] & He & HP).
  pose proof (exec_rk c _ _ _ _ He) as Hrk.
  unfold run_C14own. rewrite He. fold (obs_of c f' m' rk a b). unfold ok_C14own.
  rewrite (post_ok_own c f' m' rk a b Hwf HP Hrk). cbn [andb].
  exact (progress_own_ok c f' m' rk a b Hwf He HP).
Qed.

Lemma C14own_terminates_lemma : forall c, wf14own c = true -> exists f m rc, exec14own c = Val ((f, m), rc).
Proof. intros c Hwf. destruct (exec_post c Hwf) as (f & m & rc & He & _). eauto. Qed.

Lemma vs_exact_e_default_lemma : forall zerr fuel (call : callT sfd) self addr s m count,
  vs_exact_e (exact_volatile zerr fuel call) self addr s m count = vs_exact zerr fuel call self addr s m count.
Proof. reflexivity. Qed.
Lemma gm_write_volatile_to_e_default_lemma : forall md fuel (call : callT sfd) L addr s m count,
  gm_write_volatile_to_e md fuel (exact_volatile EWriteZero fuel call) L addr s m count
  = gm_write_volatile_to md fuel call L addr s m count.
Proof. reflexivity. Qed.

(* ------------------------------------------------------------------ 4. Prop-level readings *)
(* the behaviours of the calls the endpoint received: the script, then the real call (Full) for ever;
   in-memory endpoints have an empty script: all Full *)
Definition logof_c (c : case14own) (f : sfd) : list beh :=
  map beh_of_f (firstn (N.to_nat (f_calls f)) (w_script c ++ repeat FFull (N.to_nat (f_calls f)))).
Lemma logof_c_eq c f : logof_c c f = logof (w_script c) f.
Proof. reflexivity. Qed.

Lemma exec_facts c f m rk a b : wf14own c = true -> exec14own c = Val ((f, m), (rk, a, b)) -> PostC c f m (rk, a, b).
Proof.
  intros Hwf He. destruct (exec_post c Hwf) as (f' & m' & rc & He' & HP).
  rewrite He in He'. injection He' as <- <- <-. exact HP.
Qed.
Lemma in_hard_iff d : In HardErr d <-> existsb is_hard d = true.
Proof.
  rewrite existsb_exists. split.
  - intros H. exists HardErr. auto.
  - intros (x & Hx & Hh). destruct x; try discriminate. exact Hx.
Qed.

Lemma C14own_eintr_never_reported_lemma : forall c f m rk a b, wf14own c = true ->
  exec14own c = Val ((f, m), (rk, a, b)) -> rk <> 4.
Proof.
  intros c f m rk a b Hwf He. destruct (exec_facts c f m rk a b Hwf He) as [_ (k & _ & _ & (H4 & _) & _)]. exact H4.
Qed.
(* ... and an interrupted call is never the last one *)
Lemma C14own_eintr_retried_lemma : forall c f m rk a b, wf14own c = true ->
  exec14own c = Val ((f, m), (rk, a, b)) -> last (logof_c c f) Zero <> Eintr.
Proof.
  intros c f m rk a b Hwf He. destruct (exec_facts c f m rk a b Hwf He) as [_ (k & _ & _ & (_ & H5 & _) & _)].
  rewrite logof_c_eq. intros E. rewrite E in H5. discriminate.
Qed.

Lemma C14own_harderr_reported_lemma : forall c f m rk a b, wf14own c = true ->
  exec14own c = Val ((f, m), (rk, a, b)) -> (In HardErr (logof_c c f) <-> rk = 5).
Proof.
  intros c f m rk a b Hwf He. destruct (exec_facts c f m rk a b Hwf He) as [_ (k & _ & _ & (_ & _ & H6) & _)].
  rewrite logof_c_eq, in_hard_iff. cbn [rk_of fst] in H6.
  destruct (existsb is_hard (logof (w_script c) f)).
  - destruct H6 as [-> _]. tauto.
  - split; [discriminate|contradiction].
Qed.
(* ... it is the last call, no earlier call failed hard *)
Lemma C14own_harderr_ends_lemma : forall c f m rk a b, wf14own c = true ->
  exec14own c = Val ((f, m), (rk, a, b)) -> rk = 5 ->
  last (logof_c c f) Zero = HardErr /\ ~ In HardErr (removelast (logof_c c f)).
Proof.
  intros c f m rk a b Hwf He H5. destruct (exec_facts c f m rk a b Hwf He) as [_ (k & _ & _ & (_ & _ & H6) & _)].
  rewrite logof_c_eq. cbn [rk_of fst] in H6.
  destruct (existsb is_hard (logof (w_script c) f)) eqn:E; [|contradiction].
  destruct H6 as [_ H6]. split.
  - apply in_hard_iff in E. clear - E H6.
    destruct (logof (w_script c) f) as [|x d] using rev_ind; [destruct E|].
    rewrite removelast_snoc in H6. rewrite last_snoc. apply in_app_or in E. destruct E as [E|[E|[]]]; [|auto].
    apply in_hard_iff in E. congruence.
  - rewrite in_hard_iff. congruence.
Qed.

Lemma C14own_conserved_lemma : forall c f m rk a b, wf14own c = true -> exec14own c = Val ((f, m), (rk, a, b)) ->
  exists k, k <= w_count c
    /\ (if is_read (w_op c)
        then src_now (w_ek c) (f_st f) = ndrop k (src_of (w_ek c) (w_content c) (w_pos c))
             /\ k <= nlen (src_of (w_ek c) (w_content c) (w_pos c))
             /\ flat_write (w_target c) (w_mem c) (w_addr c) (ntake k (src_of (w_ek c) (w_content c) (w_pos c))) = Some m
        else m = w_mem c
             /\ nlen (sink_now (w_ek c) (nlen (w_content c)) (w_pos c) (f_st f)) = k
             /\ flat_read (w_target c) (w_mem c) (w_addr c) (N.to_nat k)
                = Some (sink_now (w_ek c) (nlen (w_content c)) (w_pos c) (f_st f)))
    /\ (if is_exact (w_op c)
        then rk <> 0 /\ (~ In HardErr (logof_c c f) -> (0 < w_count c \/ idx_of (w_target c) (w_addr c) <> None) ->
                         (rk = 1 <-> k = w_count c))
        else rk <> 1 /\ (rk = 0 -> a = k)).
Proof.
  intros c f m rk a b Hwf He. pose proof (wf14own_facts c Hwf) as Hf.
  destruct (exec_facts c f m rk a b Hwf He) as [_ (k & [HE HG] & Hkc & _ & HR)].
  cbn [rk_of fst snd] in HR. pose proof (wf_rw c Hf) as Hrw. unfold ek_rw in Hrw.
  exists k. split; [exact Hkc|]. split.
  - destruct (is_read (w_op c)); cbn [pj_of] in HG.
    + destruct HG as (A1 & A2 & A3). rewrite (src_init c Hrw) in A1, A2, A3. auto.
    + destruct HG as (bs & A1 & A2 & A3). rewrite sink_init in A2. cbn [app] in A2. subst m. rewrite A2.
      split; [reflexivity|]. split; [|exact A1]. apply flat_read_length in A1. unfold nlen. lia.
  - destruct (is_exact (w_op c)); [|exact HR].
    destruct HR as [H0 Hiff]. split; [exact H0|]. intros Hn Hj. apply Hiff; [|exact Hj].
    rewrite logof_c_eq in Hn. destruct (existsb is_hard (logof (w_script c) f)) eqn:E; [|reflexivity].
    exfalso. apply Hn. apply in_hard_iff. exact E.
Qed.

(* the k of the conservation statement is what the observation shows: how far the reader's position moved /
   how many bytes left the queue, resp. the bytes that appeared in the sink *)
Lemma C14own_observed_lemma : forall c f m rk a b, wf14own c = true -> exec14own c = Val ((f, m), (rk, a, b)) ->
  run_C14own c = obs_of c f m rk a b
  /\ (if is_read (w_op c)
      then src_now (w_ek c) (f_st f) = ndrop (moved_rd (w_ek c) (w_content c) (w_pos c) (run_C14own c))
                                            (src_of (w_ek c) (w_content c) (w_pos c))
      else sink_of (w_ek c) (w_content c) (w_pos c) (run_C14own c)
           = sink_now (w_ek c) (nlen (w_content c)) (w_pos c) (f_st f)).
Proof.
  intros c f m rk a b Hwf He. pose proof (wf14own_facts c Hwf) as Hf.
  assert (Hrun : run_C14own c = obs_of c f m rk a b) by (unfold run_C14own; rewrite He; reflexivity).
  split; [exact Hrun|]. rewrite Hrun.
  destruct (exec_facts c f m rk a b Hwf He) as [_ (k & [HE HG] & _)].
  pose proof (wf_rw c Hf) as Hrw. unfold ek_rw in Hrw.
  destruct (is_read (w_op c)); cbn [pj_of] in HG.
  - destruct HG as (A1 & A2 & _). rewrite (moved_obs c f m rk a b k Hrw HE A1 A2).
    rewrite (src_init c Hrw) in A1. exact A1.
  - apply sink_obs.
Qed.

(* both contracts, for every endpoint of the suite *)
Lemma ep_contracts_lemma : forall md ek rd n0 p0 sc0 F, ek_rw ek rd = true ->
  CallSpec rd (pj_of ek rd n0 p0) (extra_of ek rd) (e_call (endpoint_of md ek rd)) (inv_of ek rd n0 p0)
  /\ ExactSpec rd (pj_of ek rd n0 p0) (extra_of ek rd) sc0 (inv_of ek rd n0 p0) (zerr_of rd)
       (e_exact (endpoint_of md ek rd) F) F.
Proof. intros md ek rd n0 p0 sc0 F H. split; [apply ep_call_spec; exact H|apply ep_exact_spec; exact H]. Qed.
