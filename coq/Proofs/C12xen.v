(* C12 on the Xen flavour: proofs about the ownership machine Impl/OwnerXen.v.  The invariant and its proof follow
   Proofs/C12.v (same Arc / Vec / snapshot code); the generic counting lemmas are imported from there. *)
From VM Require Import Prelude.MachInt Prelude.Outcome Prelude.Tok Impl.Owner Impl.MmapBuild Impl.Xen Impl.OwnerXen Proofs.C12.
From VM Require Spec.C17 Suite.C17 Proofs.C17.
From Coq Require Import Sorting.Permutation.

Section Machine.
Variable m : mode.

(* ------------------------------------------------------------------ one region's record *)
(* n owners: the count is n, never underflowed; a region that owns a mapping (unix, foreign, grant mapped in advance)
   has it mapped and never unmapped while n > 0, and unmapped exactly once when n = 0; an on-demand grant region
   never has a mapping of its own; the grant mapping in the device follows the memory mapping (grant kind only) *)
Definition YK (x : yrec) (n : nat) : Prop :=
  y_strong x = n /\ y_ub x = false /\
  (if y_owned x
   then (y_live x = true /\ y_unmaps x = O /\ (0 < n)%nat) \/ (y_live x = false /\ y_unmaps x = 1%nat /\ n = O)
   else y_live x = false /\ y_unmaps x = O) /\
  y_gnt x = ((y_kind x =? 2) && y_live x) /\ y_gunmaps x = (if y_kind x =? 2 then y_unmaps x else O).

Lemma YK_clone x n : YK x n -> (0 < n)%nat -> YK (yclone1 x) (S n).
Proof.
  intros (A & B & C & D & E) P. unfold yclone1, ywith_strong, YK; cbn. split; [congruence|]. split; [exact B|].
  split; [|split; assumption].
  destruct (y_owned x); [|exact C]. destruct C as [(C1 & C2 & _)|(_ & _ & C3)]; [left; repeat split; try assumption; lia|lia].
Qed.
Lemma YK_drop x n : YK x (S n) -> YK (ydrop1 x) n.
Proof.
  intros (A & B & C & D & E). unfold ydrop1. rewrite A. destruct n as [|n].
  - unfold ydrop_region, ywith_strong, YK; cbn. destruct (y_owned x) eqn:O; cbn; rewrite ?O.
    + split; [reflexivity|]. split; [exact B|]. destruct C as [(_ & C2 & _)|(_ & _ & C3)]; [|lia].
      split; [right; rewrite C2; repeat split|]. rewrite andb_false_r.
      destruct (y_kind x =? 2); split; try reflexivity; try assumption. rewrite C2 in E. rewrite C2, E. reflexivity.
    + split; [reflexivity|]. split; [exact B|]. split; [exact C|split; assumption].
  - unfold ywith_strong, YK; cbn. split; [reflexivity|]. split; [exact B|]. split; [|split; assumption].
    destruct (y_owned x); [|exact C]. destruct C as [(C1 & C2 & _)|(_ & _ & C3)]; [left; repeat split; try assumption; lia|lia].
Qed.
Lemma YK_clone_iter c : forall x n, YK x n -> ((0 < c)%nat -> (0 < n)%nat) -> YK (iter c yclone1 x) (n + c).
Proof.
  induction c as [|c IH]; intros x n HK P; [change (iter 0 yclone1 x) with x; rewrite Nat.add_0_r; exact HK|cbn [iter]].
  replace (n + S c)%nat with (S (n + c)) by lia. apply YK_clone; [|lia]. apply IH; [exact HK|intros _; apply P; lia].
Qed.
Lemma YK_drop_iter c : forall x n, YK x (n + c) -> YK (iter c ydrop1 x) n.
Proof.
  induction c as [|c IH]; intros x n HK; [change (iter 0 ydrop1 x) with x; rewrite Nat.add_0_r in HK; exact HK|cbn [iter]].
  apply YK_drop. apply IH. replace (S n + c)%nat with (n + S c)%nat by lia. exact HK.
Qed.

Lemma yiter_static f c x : (forall y, y_kind (f y) = y_kind y /\ y_slot (f y) = y_slot y /\ y_owned (f y) = y_owned y) ->
  y_kind (iter c f x) = y_kind x /\ y_slot (iter c f x) = y_slot x /\ y_owned (iter c f x) = y_owned x.
Proof.
  intros H. induction c as [|c IH]; [change (iter 0 f x) with x; repeat split|cbn [iter]].
  destruct (H (iter c f x)) as (A & B & C). destruct IH as (A' & B' & C'). repeat split; congruence.
Qed.
Lemma yclone1_static y : y_kind (yclone1 y) = y_kind y /\ y_slot (yclone1 y) = y_slot y /\ y_owned (yclone1 y) = y_owned y.
Proof. repeat split. Qed.
Lemma ydrop1_static y : y_kind (ydrop1 y) = y_kind y /\ y_slot (ydrop1 y) = y_slot y /\ y_owned (ydrop1 y) = y_owned y.
Proof. unfold ydrop1, ydrop_region, ywith_strong. destruct (y_strong y) as [|[|n]]; cbn; [repeat split| |repeat split].
  destruct (y_owned y); repeat split. Qed.

Lemma yclone_arcs_at rs : forall f r, yclone_arcs rs f r = iter (count r rs) yclone1 (f r).
Proof.
  induction rs as [|x t IH]; intros f r; cbn [yclone_arcs count]; [reflexivity|].
  rewrite IH. unfold updf. destruct (N.eqb_spec r x); [subst|reflexivity].
  cbn [Nat.add]. rewrite iter_succ_r. reflexivity.
Qed.
Lemma ydrop_arcs_at rs : forall f r, ydrop_arcs rs f r = iter (count r rs) ydrop1 (f r).
Proof.
  induction rs as [|x t IH]; intros f r; cbn [ydrop_arcs count]; [reflexivity|].
  rewrite IH. unfold updf. destruct (N.eqb_spec r x); [subst|reflexivity].
  cbn [Nat.add]. rewrite iter_succ_r. reflexivity.
Qed.

Lemma ycount_insert_sorted f r x l : count r (yinsert_sorted f x l) = count r (x :: l).
Proof.
  induction l as [|y l IH]; cbn [yinsert_sorted]; [reflexivity|].
  destruct (ystart_of f x <? ystart_of f y); [reflexivity|]. cbn [count] in *. rewrite IH. lia.
Qed.
Lemma ycount_sort f r l : count r (ysort_by_start f l) = count r l.
Proof. induction l as [|x l IH]; cbn [ysort_by_start]; [reflexivity|]. rewrite ycount_insert_sorted. cbn [count]. rewrite IH. reflexivity. Qed.
Lemma yfind_start_lt f base : forall rs i, yfind_start f base rs = Some i -> (i < length rs)%nat.
Proof.
  induction rs as [|r t IH]; intros i H; cbn [yfind_start] in H; [discriminate|].
  destruct (ystart_of f r =? base); [inversion H; cbn; lia|].
  destruct (yfind_start f base t) as [j|]; [|discriminate]. inversion H; subst. cbn. specialize (IH j eq_refl). lia.
Qed.


Lemma yget_handle_Some s i h : yget_handle s i = Some h -> nth_error (yhandles s) i = Some (Some h).
Proof. unfold yget_handle. destruct (nth_error (yhandles s) i) as [[x|]|]; intros H; inversion H; reflexivity. Qed.

(* ------------------------------------------------------------------ the invariant *)
Record YInv (s : ystate) : Prop := {
  YJ_reg : forall r, r < ynreg s -> YK (yreg s r) (yowners r s);
  YJ_fresh : forall r, ynreg s <= r -> yowners r s = O;
  YJ_kind : forall r, r < ynreg s -> y_owned (yreg s r) = negb (y_kind (yreg s r) =? 3);
  YJ_snap : forall a sn, nth_error (ysnaps s) a = Some sn ->
             s_strong sn = snap_handles a (yhandles s) /\ (s_strong sn = O -> s_regions sn = []);
  YJ_snapfresh : forall a, (length (ysnaps s) <= a)%nat -> snap_handles a (yhandles s) = O
}.

Lemma YInv_init : YInv yinit.
Proof.
  constructor; cbn; intros.
  - lia.
  - reflexivity.
  - lia.
  - destruct a; discriminate.
  - reflexivity.
Qed.

(* cloning the Arcs of L (all owned by someone) and handing them to new non-snapshot yhandles *)
Lemma yinv_push s L new : YInv s ->
  (forall r, In r L -> (0 < yowners r s)%nat) ->
  (forall r, hrefs r (map Some new) = count r L) ->
  (forall h, In h new -> forall a', h <> HSnap a') ->
  YInv (ypush s (yclone_arcs L (yreg s)) new).
Proof.
  intros HI Hown Hcnt Hns.
  assert (Ow : forall r, yowners r (ypush s (yclone_arcs L (yreg s)) new) = (yowners r s + count r L)%nat).
  { intros r. unfold yowners, ypush; cbn [yhandles ysnaps]. rewrite hrefs_app, Hcnt. lia. }
  constructor; cbn [ypush yreg ynreg ysnaps yhandles]; fold (ypush s (yclone_arcs L (yreg s)) new).
  - intros r Hr. rewrite Ow, yclone_arcs_at. apply YK_clone_iter; [apply (YJ_reg s HI); exact Hr|].
    intros P. apply Hown, count_pos_In, P.
  - intros r Hr. rewrite Ow. rewrite (YJ_fresh s HI r Hr).
    destruct (count r L) eqn:C; [reflexivity|exfalso].
    assert (In r L) by (apply count_pos_In; lia). specialize (Hown r H). rewrite (YJ_fresh s HI r Hr) in Hown. lia.
  - intros r Hr. rewrite yclone_arcs_at.
    destruct (yiter_static yclone1 (count r L) (yreg s r) yclone1_static) as (A & _ & C). rewrite A, C. apply (YJ_kind s HI); exact Hr.
  - intros a sn H. rewrite snap_handles_app, (snap_handles_no_snap a new Hns), Nat.add_0_r. apply (YJ_snap s HI); exact H.
  - intros a H. rewrite snap_handles_app, (snap_handles_no_snap a new Hns), Nat.add_0_r. apply (YJ_snapfresh s HI); exact H.
Qed.

(* the library cloned the Arcs of L and then dropped them all again (an Err path) *)
Lemma yinv_fail s L L' : YInv s ->
  (forall r, In r L -> (0 < yowners r s)%nat) ->
  (forall r, count r L' = count r L) ->
  YInv (ywith_reg s (ydrop_arcs L' (yclone_arcs L (yreg s)))).
Proof.
  intros HI Hown Hcnt.
  constructor; cbn [ywith_reg yreg ynreg ysnaps yhandles]; try apply HI.
  - intros r Hr. change (yowners r (ywith_reg s (ydrop_arcs L' (yclone_arcs L (yreg s))))) with (yowners r s).
    rewrite ydrop_arcs_at, yclone_arcs_at, Hcnt. apply YK_drop_iter. apply YK_clone_iter; [apply (YJ_reg s HI); exact Hr|].
    intros P. apply Hown, count_pos_In, P.
  - intros r Hr. rewrite ydrop_arcs_at, yclone_arcs_at.
    destruct (yiter_static ydrop1 (count r L') (iter (count r L) yclone1 (yreg s r)) ydrop1_static) as (A & _ & C).
    destruct (yiter_static yclone1 (count r L) (yreg s r) yclone1_static) as (A' & _ & C').
    rewrite A, C, A', C'. apply (YJ_kind s HI); exact Hr.
Qed.

Lemma yhandle_owned s i h r : nth_error (yhandles s) i = Some (Some h) -> (0 < href r h)%nat -> (0 < yowners r s)%nat.
Proof. intros H P. unfold yowners. pose proof (hrefs_ge r _ i h H). lia. Qed.

Lemma yregion_handles_owned s : forall hs rs, yregion_handles s hs = Some rs ->
  forall r, In r rs -> (0 < yowners r s)%nat.
Proof.
  induction hs as [|h t IH]; intros rs H r Hin; cbn [yregion_handles] in H.
  - inversion H; subst. destruct Hin.
  - destruct (yget_handle s h) as [[r0|?|?]|] eqn:G; try discriminate.
    destruct (yregion_handles s t) as [l|]; [|discriminate]. inversion H; subst.
    destruct Hin as [->|Hin]; [|eapply IH; [reflexivity|exact Hin]].
    apply yget_handle_Some in G. eapply yhandle_owned; [exact G|]. cbn. rewrite N.eqb_refl. lia.
Qed.

(* dropping a region handle or a map handle *)
Lemma yinv_drop s i h L : YInv s -> nth_error (yhandles s) i = Some (Some h) ->
  (forall r, href r h = count r L) -> (forall a, is_snap a h = O) ->
  YInv {| yreg := ydrop_arcs L (yreg s); ynreg := ynreg s; ysnaps := ysnaps s; yhandles := set_nth (yhandles s) i None |}.
Proof.
  intros HI H Hc Hs.
  set (s' := {| yreg := ydrop_arcs L (yreg s); ynreg := ynreg s; ysnaps := ysnaps s; yhandles := set_nth (yhandles s) i None |}).
  assert (Ow : forall r, yowners r s = (yowners r s' + count r L)%nat).
  { intros r. unfold yowners, s'; cbn [yhandles ysnaps]. rewrite (hrefs_set_none r _ i h H), Hc. lia. }
  constructor; cbn [s' yreg ynreg ysnaps yhandles]; fold s'.
  - intros r Hr. rewrite ydrop_arcs_at. apply YK_drop_iter. rewrite <- Ow. apply (YJ_reg s HI); exact Hr.
  - intros r Hr. pose proof (YJ_fresh s HI r Hr). rewrite Ow in H0. lia.
  - intros r Hr. rewrite ydrop_arcs_at.
    destruct (yiter_static ydrop1 (count r L) (yreg s r) ydrop1_static) as (A & _ & C). rewrite A, C. apply (YJ_kind s HI); exact Hr.
  - intros a sn Hn. destruct (YJ_snap s HI a sn Hn) as [A B]. split; [|exact B].
    rewrite A, (snap_handles_set_none a _ i h H), Hs. lia.
  - intros a Ha. pose proof (YJ_snapfresh s HI a Ha) as Z. rewrite (snap_handles_set_none a _ i h H), Hs in Z. lia.
Qed.

Lemma yexec_Inv o s : YInv s -> YInv (fst (yexec m o s)).
Proof.
  intros HI. destruct o as [kind slot|hs|hm hr|hm base size|h|hm|h|h sel off len ak]; cbn [yexec]; [| | | | | | |exact HI].
  - (* Create *)
    destruct ((kind <? 4) && (slot <? 16) && (ynreg s <? 100)); [|exact HI].
    cbn [fst].
    set (x := {| y_kind := kind; y_slot := slot; y_owned := negb (kind =? 3); y_strong := 1; y_live := negb (kind =? 3); y_unmaps := 0;
                 y_gnt := kind =? 2; y_gunmaps := 0; y_ub := false |}).
    assert (Ow : forall r, yowners r {| yreg := updf (yreg s) (ynreg s) x; ynreg := ynreg s + 1; ysnaps := ysnaps s;
                                      yhandles := yhandles s ++ [Some (HRegion (ynreg s))] |}
                          = (yowners r s + (if N.eqb r (ynreg s) then 1 else 0))%nat).
    { intros r. unfold yowners; cbn [yhandles ysnaps]. rewrite hrefs_app. cbn [hrefs href]. lia. }
    constructor; cbn [yreg ynreg ysnaps yhandles].
    + intros r Hr. rewrite Ow. unfold updf. destruct (N.eqb_spec r (ynreg s)).
      * subst. rewrite (YJ_fresh s HI (ynreg s)) by lia. unfold YK, x; cbn.
        split; [reflexivity|]. split; [reflexivity|].
        split; [destruct (negb (kind =? 3)); [left; repeat split; lia|split; reflexivity]|].
        destruct (N.eqb_spec kind 2) as [->|_]; split; reflexivity.
      * rewrite Nat.add_0_r. apply (YJ_reg s HI). lia.
    + intros r Hr. rewrite Ow. destruct (N.eqb_spec r (ynreg s)); [lia|]. rewrite (YJ_fresh s HI r) by lia. reflexivity.
    + intros r Hr. unfold updf. destruct (N.eqb_spec r (ynreg s)); [reflexivity|apply (YJ_kind s HI); lia].
    + intros a sn H. rewrite snap_handles_app. cbn [snap_handles]. rewrite Nat.add_0_r. apply (YJ_snap s HI); exact H.
    + intros a H. rewrite snap_handles_app. cbn [snap_handles]. rewrite Nat.add_0_r. apply (YJ_snapfresh s HI); exact H.
  - (* Build *)
    destruct (yregion_handles s hs) as [rs|] eqn:RH; [|exact HI].
    pose proof (yregion_handles_owned s hs rs RH) as Own.
    destruct (yfrom_arc_ok (yclone_arcs rs (yreg s)) rs); cbn [fst].
    + apply yinv_push; [exact HI|exact Own| |].
      * intros r. cbn [map hrefs href]. lia.
      * intros h [<-|[]] a'. discriminate.
    + apply yinv_fail; [exact HI|exact Own|reflexivity].
  - (* Insert *)
    destruct (yget_handle s hm) as [[?|rs|?]|] eqn:G1; try exact HI.
    destruct (yget_handle s hr) as [[r0|?|?]|] eqn:G2; try exact HI.
    apply yget_handle_Some in G1. apply yget_handle_Some in G2.
    assert (E : updf (yclone_arcs rs (yreg s)) r0 (yclone1 (yclone_arcs rs (yreg s) r0)) = yclone_arcs [r0] (yclone_arcs rs (yreg s))) by reflexivity.
    assert (E2 : forall f, yclone_arcs [r0] (yclone_arcs rs f) = yclone_arcs (rs ++ [r0]) f).
    { clear. induction rs as [|x t IH]; intros f; cbn [yclone_arcs app]; [reflexivity|apply IH]. }
    rewrite E, E2.
    assert (Own : forall r, In r (rs ++ [r0]) -> (0 < yowners r s)%nat).
    { intros r Hin. apply in_app_or in Hin. destruct Hin as [Hin|[<-|[]]].
      - eapply yhandle_owned; [exact G1|]. cbn [href]. apply count_pos_In, Hin.
      - eapply yhandle_owned; [exact G2|]. cbn [href]. rewrite N.eqb_refl. lia. }
    destruct (yfrom_arc_ok _ _); cbn [fst].
    + apply yinv_push; [exact HI|exact Own| |].
      * intros r. cbn [map hrefs href]. rewrite ycount_sort. lia.
      * intros h [<-|[]] a'. discriminate.
    + apply yinv_fail; [exact HI|exact Own|]. intros r. apply ycount_sort.
  - (* Remove *)
    destruct (yget_handle s hm) as [[?|rs|?]|] eqn:G1; try exact HI. apply yget_handle_Some in G1.
    destruct (yfind_start (yreg s) base rs) as [i|] eqn:F; [|exact HI].
    destruct (size =? PAGE); [|exact HI]. cbn [fst].
    pose proof (yfind_start_lt _ _ _ _ F) as Li.
    apply yinv_push; [exact HI| | |].
    + intros r Hin. eapply yhandle_owned; [exact G1|]. cbn [href]. apply count_pos_In, Hin.
    + intros r. cbn [map hrefs href]. rewrite (count_remove_nth r i rs Li). lia.
    + intros h [<-|[<-|[]]] a'; discriminate.
  - (* CloneH *)
    destruct (yget_handle s h) as [[r0|rs|a]|] eqn:G; try exact HI; apply yget_handle_Some in G.
    + cbn [fst]. change (updf (yreg s) r0 (yclone1 (yreg s r0))) with (yclone_arcs [r0] (yreg s)).
      apply yinv_push; [exact HI| | |].
      * intros r [<-|[]]. eapply yhandle_owned; [exact G|]. cbn [href]. rewrite N.eqb_refl. lia.
      * intros r. cbn [map hrefs href count]. lia.
      * intros h' [<-|[]] a'. discriminate.
    + cbn [fst]. apply yinv_push; [exact HI| | |].
      * intros r Hin. eapply yhandle_owned; [exact G|]. cbn [href]. apply count_pos_In, Hin.
      * intros r. cbn [map hrefs href]. lia.
      * intros h' [<-|[]] a'. discriminate.
    + destruct (nth_error (ysnaps s) a) as [sn|] eqn:Sa; [|exact HI]. cbn [fst].
      constructor; cbn [yreg ynreg ysnaps yhandles].
      * intros r Hr.
        assert (Ow : yowners r {| yreg := yreg s; ynreg := ynreg s;
                     ysnaps := set_nth (ysnaps s) a {| s_strong := S (s_strong sn); s_regions := s_regions sn |};
                     yhandles := yhandles s ++ [Some (HSnap a)] |} = yowners r s).
        { unfold yowners; cbn [yhandles ysnaps]. rewrite hrefs_app. cbn [hrefs href].
          pose proof (srefs_set r _ a sn {| s_strong := S (s_strong sn); s_regions := s_regions sn |} Sa) as Q. cbn [s_regions] in Q. lia. }
        rewrite Ow. apply (YJ_reg s HI); exact Hr.
      * intros r Hr. unfold yowners; cbn [yhandles ysnaps]. rewrite hrefs_app. cbn [hrefs href].
        pose proof (srefs_set r _ a sn {| s_strong := S (s_strong sn); s_regions := s_regions sn |} Sa) as Q. cbn [s_regions] in Q.
        pose proof (YJ_fresh s HI r Hr) as Z. unfold yowners in Z. lia.
      * apply (YJ_kind s HI).
      * intros a0 sn0 H0. rewrite nth_error_set_nth in H0. rewrite snap_handles_app. cbn [snap_handles].
        destruct (Nat.eqb_spec a a0).
        -- subst. rewrite Sa in H0. inversion H0; subst. cbn [s_strong s_regions]. rewrite Nat.eqb_refl.
           destruct (YJ_snap s HI a0 sn Sa) as [A B]. split; [lia|discriminate].
        -- destruct (Nat.eqb_spec a0 a); [congruence|]. rewrite Nat.add_0_r. apply (YJ_snap s HI); exact H0.
      * intros a0 H0. rewrite set_nth_length in H0. rewrite snap_handles_app. cbn [snap_handles].
        assert (a < length (ysnaps s))%nat by (apply nth_error_Some; congruence).
        destruct (Nat.eqb_spec a0 a); [lia|]. rewrite Nat.add_0_r. apply (YJ_snapfresh s HI); exact H0.
  - (* Snap *)
    destruct (yget_handle s hm) as [[?|rs|?]|] eqn:G; try exact HI. apply yget_handle_Some in G. cbn [fst].
    set (s' := {| yreg := yclone_arcs rs (yreg s); ynreg := ynreg s; ysnaps := ysnaps s ++ [{| s_strong := 1; s_regions := rs |}];
                  yhandles := yhandles s ++ [Some (HSnap (length (ysnaps s)))] |}).
    assert (Ow : forall r, yowners r s' = (yowners r s + count r rs)%nat).
    { intros r. unfold yowners, s'; cbn [yhandles ysnaps]. rewrite hrefs_app, srefs_app. cbn [hrefs href srefs s_regions]. lia. }
    constructor; cbn [s' yreg ynreg ysnaps yhandles]; fold s'.
    + intros r Hr. rewrite Ow, yclone_arcs_at. apply YK_clone_iter; [apply (YJ_reg s HI); exact Hr|].
      intros P. eapply yhandle_owned; [exact G|]. exact P.
    + intros r Hr. rewrite Ow, (YJ_fresh s HI r Hr). destruct (count r rs) eqn:C; [reflexivity|exfalso].
      assert (0 < yowners r s)%nat by (eapply yhandle_owned; [exact G|cbn [href]; lia]). rewrite (YJ_fresh s HI r Hr) in H. lia.
    + intros r Hr. rewrite yclone_arcs_at.
      destruct (yiter_static yclone1 (count r rs) (yreg s r) yclone1_static) as (A & _ & C). rewrite A, C. apply (YJ_kind s HI); exact Hr.
    + intros a sn H. rewrite snap_handles_app. cbn [snap_handles].
      destruct (Nat.lt_ge_cases a (length (ysnaps s))) as [L|L].
      * rewrite nth_error_app1 in H by exact L. destruct (Nat.eqb_spec a (length (ysnaps s))); [lia|].
        rewrite Nat.add_0_r. apply (YJ_snap s HI); exact H.
      * rewrite nth_error_app2 in H by exact L. rewrite (YJ_snapfresh s HI a L).
        destruct (a - length (ysnaps s))%nat as [|k] eqn:D; cbn in H; [|destruct k; discriminate].
        inversion H; subst. cbn [s_strong s_regions]. assert (a = length (ysnaps s)) by lia. subst. rewrite Nat.eqb_refl.
        split; [reflexivity|discriminate].
    + intros a H. rewrite app_length in H. cbn [length] in H. rewrite snap_handles_app. cbn [snap_handles].
      destruct (Nat.eqb_spec a (length (ysnaps s))); [lia|]. rewrite Nat.add_0_r. apply (YJ_snapfresh s HI). lia.
  - (* DropH *)
    destruct (yget_handle s h) as [[r0|rs|a]|] eqn:G; try exact HI; apply yget_handle_Some in G.
    + cbn [fst]. change (updf (yreg s) r0 (ydrop1 (yreg s r0))) with (ydrop_arcs [r0] (yreg s)).
      eapply yinv_drop; [exact HI|exact G| |reflexivity]. intros r. cbn [href count]. lia.
    + cbn [fst]. eapply yinv_drop; [exact HI|exact G| |reflexivity]. intros r. reflexivity.
    + destruct (nth_error (ysnaps s) a) as [sn|] eqn:Sa; [|exact HI].
      destruct (YJ_snap s HI a sn Sa) as [A B].
      assert (P : (1 <= s_strong sn)%nat).
      { rewrite A, (snap_handles_set_none a _ h _ G). cbn [is_snap]. rewrite Nat.eqb_refl. lia. }
      assert (HR : forall r, hrefs r (yhandles s) = hrefs r (set_nth (yhandles s) h None)).
      { intros r. rewrite (hrefs_set_none r _ h _ G). cbn [href]. lia. }
      destruct (s_strong sn) as [|[|n]] eqn:St; [lia| |]; cbn [fst].
      * (* last reference: the map dies *)
        set (s' := {| yreg := ydrop_arcs (s_regions sn) (yreg s); ynreg := ynreg s;
                      ysnaps := set_nth (ysnaps s) a {| s_strong := 0; s_regions := [] |};
                      yhandles := set_nth (yhandles s) h None |}).
        assert (Ow : forall r, yowners r s = (yowners r s' + count r (s_regions sn))%nat).
        { intros r. unfold yowners, s'; cbn [yhandles ysnaps]. rewrite <- HR.
          pose proof (srefs_set r _ a sn {| s_strong := 0; s_regions := [] |} Sa) as Q. cbn [s_regions count] in Q. lia. }
        constructor; cbn [s' yreg ynreg ysnaps yhandles]; fold s'.
        -- intros r Hr. rewrite ydrop_arcs_at. apply YK_drop_iter. rewrite <- Ow. apply (YJ_reg s HI); exact Hr.
        -- intros r Hr. pose proof (YJ_fresh s HI r Hr) as Z. rewrite Ow in Z. lia.
        -- intros r Hr. rewrite ydrop_arcs_at.
           destruct (yiter_static ydrop1 (count r (s_regions sn)) (yreg s r) ydrop1_static) as (A1 & _ & C1). rewrite A1, C1. apply (YJ_kind s HI); exact Hr.
        -- intros a0 sn0 H0. rewrite nth_error_set_nth in H0.
           pose proof (snap_handles_set_none a0 _ h _ G) as Q. cbn [is_snap] in Q.
           destruct (Nat.eqb_spec a a0).
           ++ subst. rewrite Sa in H0. inversion H0; subst. cbn [s_strong s_regions]. rewrite Nat.eqb_refl in Q.
              split; [lia|reflexivity].
           ++ destruct (Nat.eqb_spec a0 a); [congruence|]. destruct (YJ_snap s HI a0 sn0 H0) as [A0 B0]. split; [lia|exact B0].
        -- intros a0 H0. rewrite set_nth_length in H0. pose proof (YJ_snapfresh s HI a0 H0) as Z.
           rewrite (snap_handles_set_none a0 _ h _ G) in Z. lia.
      * (* other Arc<map>s remain *)
        set (s' := {| yreg := yreg s; ynreg := ynreg s;
                      ysnaps := set_nth (ysnaps s) a {| s_strong := Init.Nat.pred (S (S n)); s_regions := s_regions sn |};
                      yhandles := set_nth (yhandles s) h None |}).
        assert (Ow : forall r, yowners r s' = yowners r s).
        { intros r. unfold yowners, s'; cbn [yhandles ysnaps]. rewrite <- HR.
          pose proof (srefs_set r _ a sn {| s_strong := Init.Nat.pred (S (S n)); s_regions := s_regions sn |} Sa) as Q. cbn [s_regions] in Q. lia. }
        constructor; cbn [s' yreg ynreg ysnaps yhandles]; fold s'.
        -- intros r Hr. rewrite Ow. apply (YJ_reg s HI); exact Hr.
        -- intros r Hr. rewrite Ow. apply (YJ_fresh s HI); exact Hr.
        -- apply (YJ_kind s HI).
        -- intros a0 sn0 H0. rewrite nth_error_set_nth in H0.
           pose proof (snap_handles_set_none a0 _ h _ G) as Q. cbn [is_snap] in Q.
           destruct (Nat.eqb_spec a a0).
           ++ subst. rewrite Sa in H0. inversion H0; subst. cbn [s_strong s_regions Init.Nat.pred]. rewrite Nat.eqb_refl in Q.
              split; [lia|discriminate].
           ++ destruct (Nat.eqb_spec a0 a); [congruence|]. destruct (YJ_snap s HI a0 sn0 H0) as [A0 B0]. split; [lia|exact B0].
        -- intros a0 H0. rewrite set_nth_length in H0. pose proof (YJ_snapfresh s HI a0 H0) as Z.
           rewrite (snap_handles_set_none a0 _ h _ G) in Z. lia.
Qed.

Lemma yrun_from_Inv l : forall s, YInv s -> YInv (yrun_from m l s).
Proof. induction l as [|o l IH]; intros s HI; cbn [yrun_from]; [exact HI|apply IH, yexec_Inv, HI]. Qed.
Lemma yrun_Inv l : YInv (yrun m l).
Proof. apply yrun_from_Inv, YInv_init. Qed.


Lemma yowners_pos_iff_reaches_gen s r : YInv s -> ((0 < yowners r s)%nat <-> yreaches s r).
Proof.
  intros HI. unfold yowners, yreaches. split.
  - intros P. destruct (hrefs r (yhandles s)) eqn:Hh.
    + destruct (srefs_pos_ex r (ysnaps s) ltac:(lia)) as (a & sn & A & B).
      destruct (YJ_snap s HI a sn A) as [S1 S2].
      assert (s_strong sn <> O) by (intros Z; rewrite (S2 Z) in B; cbn in B; lia).
      destruct (snap_handles_pos_ex a (yhandles s) ltac:(lia)) as [i Hi].
      exists i, (HSnap a). split; [exact Hi|]. cbn [yreach_list]. rewrite A. apply count_pos_In, B.
    + destruct (hrefs_pos_ex r (yhandles s) ltac:(lia)) as (i & h & A & B). exists i, h. split; [exact A|].
      destruct h as [r'|rs|a]; cbn [href yreach_list] in *.
      * destruct (N.eqb_spec r r'); [subst; left; reflexivity|lia].
      * apply count_pos_In, B.
      * lia.
  - intros (i & h & A & B). destruct h as [r'|rs|a]; cbn [yreach_list] in B.
    + destruct B as [<-|[]]. pose proof (hrefs_ge r' _ i _ A) as Q. cbn [href] in Q. rewrite N.eqb_refl in Q. lia.
    + pose proof (hrefs_ge r _ i _ A) as Q. cbn [href] in Q. apply count_pos_In in B. lia.
    + destruct (nth_error (ysnaps s) a) as [sn|] eqn:Sa; [|destruct B].
      pose proof (srefs_ge r _ a sn Sa) as Q. apply count_pos_In in B. lia.
Qed.


Lemma YK_of l r : r < ynreg (yrun m l) -> YK (yreg (yrun m l) r) (yowners r (yrun m l)).
Proof. intros H. apply (YJ_reg _ (yrun_Inv l)), H. Qed.

Lemma ystrong_counts_lemma : forall l r, r < ynreg (yrun m l) ->
  y_strong (yreg (yrun m l) r) = yowners r (yrun m l) /\ y_ub (yreg (yrun m l) r) = false.
Proof. intros l r H. destruct (YK_of l r H) as (A & B & _). split; assumption. Qed.

Lemma yowners_pos_iff_reaches_lemma : forall l r, (0 < yowners r (yrun m l))%nat <-> yreaches (yrun m l) r.
Proof. intros l r. apply yowners_pos_iff_reaches_gen, yrun_Inv. Qed.

(* regions that own a mapping: unix, foreign, grant mapped in advance *)
Lemma ylive_iff_owner_lemma : forall l r, r < ynreg (yrun m l) -> y_kind (yreg (yrun m l) r) <> 3 ->
  (y_live (yreg (yrun m l) r) = true <-> yreaches (yrun m l) r).
Proof.
  intros l r H Hk. rewrite <- yowners_pos_iff_reaches_lemma. destruct (YK_of l r H) as (_ & _ & C & _).
  rewrite (YJ_kind _ (yrun_Inv l) r H) in C. destruct (N.eqb_spec (y_kind (yreg (yrun m l) r)) 3); [contradiction|]. cbn [negb] in C.
  destruct C as [(C1 & _ & C3)|(C1 & _ & C3)]; rewrite C1; split; intros; try lia; try reflexivity; try discriminate.
Qed.

(* an on-demand grant region never has a mapping or a grant of its own, and nothing is ever unmapped for it *)
Lemma yondemand_owns_nothing_lemma : forall l r, r < ynreg (yrun m l) -> y_kind (yreg (yrun m l) r) = 3 ->
  y_owned (yreg (yrun m l) r) = false /\ y_live (yreg (yrun m l) r) = false /\ y_unmaps (yreg (yrun m l) r) = O /\
  y_gnt (yreg (yrun m l) r) = false /\ y_gunmaps (yreg (yrun m l) r) = O.
Proof.
  intros l r H Hk. destruct (YK_of l r H) as (_ & _ & C & D & E).
  rewrite (YJ_kind _ (yrun_Inv l) r H) in *. rewrite Hk in *. cbn in C, D, E. destruct C as [C1 C2]. repeat split; assumption.
Qed.

Lemma yno_dangling_lemma : forall l i h r,
  nth_error (yhandles (yrun m l)) i = Some (Some h) -> In r (yreach_list (yrun m l) h) ->
  r < ynreg (yrun m l) /\ (0 < y_strong (yreg (yrun m l) r))%nat /\
  (y_kind (yreg (yrun m l) r) <> 3 -> y_live (yreg (yrun m l) r) = true /\ y_unmaps (yreg (yrun m l) r) = O) /\
  (y_kind (yreg (yrun m l) r) = 2 -> y_gnt (yreg (yrun m l) r) = true /\ y_gunmaps (yreg (yrun m l) r) = O).
Proof.
  intros l i h r A B. pose proof (yrun_Inv l) as HI.
  assert (P : (0 < yowners r (yrun m l))%nat) by (apply yowners_pos_iff_reaches_lemma; exists i, h; split; assumption).
  assert (L : r < ynreg (yrun m l)).
  { destruct (N.lt_ge_cases r (ynreg (yrun m l))) as [L|L]; [exact L|]. rewrite (YJ_fresh _ HI r L) in P. lia. }
  split; [exact L|]. destruct (YK_of l r L) as (K1 & _ & K3 & K4 & K5). split; [lia|].
  rewrite (YJ_kind _ HI r L) in K3.
  assert (Q : y_kind (yreg (yrun m l) r) <> 3 -> y_live (yreg (yrun m l) r) = true /\ y_unmaps (yreg (yrun m l) r) = O).
  { intros Hk. destruct (N.eqb_spec (y_kind (yreg (yrun m l) r)) 3); [contradiction|]. cbn [negb] in K3.
    destruct K3 as [(C1 & C2 & _)|(_ & _ & C3)]; [split; assumption|lia]. }
  split; [exact Q|]. intros K2. rewrite K2 in *. destruct (Q ltac:(discriminate)) as [Q1 Q2].
  rewrite K4, K5, Q1, Q2. split; reflexivity.
Qed.

Lemma yunmapped_once_lemma : forall l r, r < ynreg (yrun m l) ->
  (y_unmaps (yreg (yrun m l) r) <= 1)%nat /\ (y_gunmaps (yreg (yrun m l) r) <= 1)%nat /\
  (y_kind (yreg (yrun m l) r) <> 3 ->
     (y_unmaps (yreg (yrun m l) r) = 1%nat <-> ~ yreaches (yrun m l) r) /\
     (y_unmaps (yreg (yrun m l) r) = 1%nat <-> y_live (yreg (yrun m l) r) = false)) /\
  (y_kind (yreg (yrun m l) r) = 2 ->
     (y_gunmaps (yreg (yrun m l) r) = 1%nat <-> ~ yreaches (yrun m l) r) /\
     (y_gunmaps (yreg (yrun m l) r) = 1%nat <-> y_gnt (yreg (yrun m l) r) = false)) /\
  (y_kind (yreg (yrun m l) r) <> 2 -> y_gnt (yreg (yrun m l) r) = false /\ y_gunmaps (yreg (yrun m l) r) = O).
Proof.
  intros l r H. destruct (YK_of l r H) as (_ & _ & C & D & E).
  assert (U : (y_unmaps (yreg (yrun m l) r) <= 1)%nat).
  { destruct (y_owned (yreg (yrun m l) r)); [destruct C as [(_ & C2 & _)|(_ & C2 & _)]|destruct C as [_ C2]]; lia. }
  assert (M : y_kind (yreg (yrun m l) r) <> 3 ->
     (y_unmaps (yreg (yrun m l) r) = 1%nat <-> ~ yreaches (yrun m l) r) /\
     (y_unmaps (yreg (yrun m l) r) = 1%nat <-> y_live (yreg (yrun m l) r) = false)).
  { intros Hk. rewrite <- yowners_pos_iff_reaches_lemma.
    rewrite (YJ_kind _ (yrun_Inv l) r H) in C. destruct (N.eqb_spec (y_kind (yreg (yrun m l) r)) 3); [contradiction|]. cbn [negb] in C.
    destruct C as [(C1 & C2 & C3)|(C1 & C2 & C3)]; rewrite C1, C2; split; split; intros; try lia; try reflexivity; try discriminate. }
  split; [exact U|]. split; [rewrite E; destruct (y_kind (yreg (yrun m l) r) =? 2); lia|]. split; [exact M|]. split.
  - intros K2. rewrite K2 in *. cbn in D, E. rewrite D, E. destruct (M ltac:(discriminate)) as [M1 M2]. split; [exact M1|exact M2].
  - intros K2. destruct (N.eqb_spec (y_kind (yreg (yrun m l) r)) 2); [contradiction|]. cbn in D. split; assumption.
Qed.

Lemma yno_leak_lemma : forall l, yquiescent (yrun m l) -> forall r, r < ynreg (yrun m l) ->
  (y_kind (yreg (yrun m l) r) <> 3 -> y_live (yreg (yrun m l) r) = false /\ y_unmaps (yreg (yrun m l) r) = 1%nat) /\
  y_gnt (yreg (yrun m l) r) = false /\
  (y_kind (yreg (yrun m l) r) = 2 -> y_gunmaps (yreg (yrun m l) r) = 1%nat).
Proof.
  intros l Q r H.
  assert (NR : ~ yreaches (yrun m l) r) by (intros (i & h & A & _); exact (Q i h A)).
  destruct (yunmapped_once_lemma l r H) as (_ & _ & U & G & NG).
  assert (A : y_kind (yreg (yrun m l) r) <> 3 -> y_live (yreg (yrun m l) r) = false /\ y_unmaps (yreg (yrun m l) r) = 1%nat).
  { intros Hk. destruct (U Hk) as [U1 U2]. assert (E : y_unmaps (yreg (yrun m l) r) = 1%nat) by (apply U1; exact NR).
    split; [apply U2; exact E|exact E]. }
  split; [exact A|]. destruct (N.eq_dec (y_kind (yreg (yrun m l) r)) 2) as [K2|K2].
  - destruct (G K2) as [G1 G2]. assert (E : y_gunmaps (yreg (yrun m l) r) = 1%nat) by (apply G1; exact NR).
    split; [apply G2; exact E|intros _; exact E].
  - destruct (NG K2) as [N1 _]. split; [exact N1|intros K; contradiction].
Qed.

(* ------------------------------------------------------------------ accesses *)
(* a guarded access (read / write / ptr_guard through a region, a map or a snapshot) changes no region record, no
   handle, no snapshot: in particular not the live set *)
Lemma yaccess_state_lemma : forall s h sel off len ak, fst (yexec m (YAccess h sel off len ak) s) = s.
Proof. reflexivity. Qed.

(* whatever it asks of the device is a balanced block: nothing, a refused map request, or map ioctl + mmap +
   munmap + unmap ioctl of ONE window with the same index and count - the device's live set and the mmap balance
   are what they were before *)
Lemma yaccess1_balanced s r off len ak : Proofs.C17.balanced_block (fst (yaccess1 m s r off len ak)).
Proof.
  unfold yaccess1. destruct (yxregion m (y_kind (yreg s r)) r (y_slot (yreg s r))) as [g|]; [|left; reflexivity].
  apply Proofs.C17.run_op_balanced. reflexivity.
Qed.
Lemma yaccess_balanced s h sel off len ak : Proofs.C17.balanced_block (fst (yaccess m s h sel off len ak)).
Proof.
  assert (MP : forall rs, Proofs.C17.balanced_block (fst (yaccess_map m s rs sel off len ak))).
  { intros rs. unfold yaccess_map. destruct (negb (ak <? 2)); [left; reflexivity|]. destruct (len =? 0); [left; reflexivity|].
    destruct (yfind_start (yreg s) (sel * 65536) rs) as [i|]; [|left; reflexivity].
    destruct (off <? ysize (nth i rs 0)); [|left; reflexivity].
    pose proof (yaccess1_balanced s (nth i rs 0) off len ak) as B.
    destruct (yaccess1 m s (nth i rs 0) off len ak) as [l x]. exact B. }
  unfold yaccess. destruct (yget_handle s h) as [[r|rs|a]|]; [| | |left; reflexivity].
  - destruct (sel =? 0); [|left; reflexivity]. pose proof (yaccess1_balanced s r off len ak) as B.
    destruct (yaccess1 m s r off len ak) as [l x]. exact B.
  - apply MP.
  - destruct (nth_error (ysnaps s) a); [apply MP|left; reflexivity].
Qed.
Lemma yaccess_released_lemma : forall s h sel off len ak st,
  live_after st (yevs m (YAccess h sel off len ak) s) = st /\ mm_balance (yevs m (YAccess h sel off len ak) s) = 0%Z.
Proof. intros. cbn [yevs]. apply Proofs.C17.balanced_block_live, yaccess_balanced. Qed.

(* an access to a region mapped in advance asks NOTHING of the device (the guard is MmapXenSlice::raw) *)
Lemma yaccess1_advance s r off len ak g :
  yxregion m (y_kind (yreg s r)) r (y_slot (yreg s r)) = Some g -> on_demand g = false ->
  fst (yaccess1 m s r off len ak) = [].
Proof.
  intros G OD. unfold yaccess1. rewrite G. unfold run_op.
  destruct (op_plan m (xr_size g) (yxop off len ak)) as [[| |goff glen wr toff tlen|toff tlen]| |]; try reflexivity.
  - unfold guarded. rewrite OD. reflexivity.
  - rewrite OD. reflexivity.
Qed.

End Machine.
