(* C15xu: the Xen-UNIX constructor routes (Suite/C15xu.v) - closed forms of the transcribed calls and the
   checker-on-model theorem. *)
From VM Require Impl.Mmap.
From VM Require Import Prelude.MachInt Prelude.Outcome Prelude.Tok Impl.MmapBuild Impl.Xen
  Spec.C15 Suite.C15 Spec.C15xu Suite.C15xu.
From VM Require Import Proofs.C15 Proofs.C15XenOk.

Definition ufl (file : option N) : N := match file with Some _ => 16385 | None => 34 end.
Definition uregion (size : N) (file : option N) (addr : N) : xregion :=
  {| xr_size := size; xr_prot := 3; xr_flags := ufl file; xr_file := file; xr_mflags := 0; xr_mdata := 0;
     xr_kind := XUnix; xr_base := addr; xr_mapped := Some (size, 0) |}.
Definition umap_ev (o : os) (size : N) (file : option N) : ev :=
  EvMmap size 3 (ufl file) (match file with Some _ => true | None => false end)
         (match file with Some s => s | None => 0 end) (os_mmap_ok o).
Definition ucheck (o : os) (size : N) (file : option N) : res unit * list ev :=
  match file with Some start => check_file_offset o start size | None => (Ok tt, []) end.

Ltac evc := repeat match goal with
  | |- context [N.lor ?a ?b] => let v := eval vm_compute in (N.lor a b) in progress change (N.lor a b) with v
  | |- context [N.eqb (N.land ?a ?b) ?c] => let v := eval vm_compute in (N.eqb (N.land a b) c) in progress change (N.eqb (N.land a b) c) with v
  end.
Lemma xnew_unix m o r : x_mflags r = 0 -> xen_new m o r =
  (let* (u, l) := xunix_new o r in Val (match u with Ok mp => Ok (0, XUnix, mp) | Err e => Err e end, l)).
Proof. intros E. unfold xen_new. rewrite E. reflexivity. Qed.

Lemma xfr_unix m o size file addr :
  xen_from_range m o (new_unix size file addr) =
  Val (match ucheck o size file with
       | (Err e, l1) => (Err e, l1)
       | (Ok _, l1) =>
           if os_mmap_ok o then (Ok (uregion size file addr), l1 ++ [umap_ev o size file])
           else (Err MmapErr, l1 ++ [umap_ev o size file])
       end).
Proof.
  unfold ucheck, umap_ev, uregion, ufl.
  destruct file as [start|].
  - unfold xen_from_range, new_unix. cbn [x_prot x_flags x_size x_file x_addr x_mflags x_mdata]. evc. cbn [negb].
    rewrite xnew_unix by reflexivity. unfold xunix_new, mmap_unix. cbn [x_prot x_flags x_size x_file x_addr x_mflags x_mdata ok_or].
    destruct (check_file_offset o start size) as [[u|e] l1]; cbn [bind].
    + destruct (os_mmap_ok o); cbn [bind ok_or]; reflexivity.
    + reflexivity.
  - unfold xen_from_range, new_unix. cbn [x_prot x_flags x_size x_file x_addr x_mflags x_mdata]. evc. cbn [negb].
    rewrite xnew_unix by reflexivity. unfold xunix_new, mmap_unix. cbn [x_prot x_flags x_size x_file x_addr x_mflags x_mdata ok_or].
    destruct (os_mmap_ok o); cbn [bind ok_or app]; reflexivity.
Qed.

Definition ebase (c : case15u) : option N := if cu_route c =? 0 then cu_base c else Some (base_u c).
Definition after_new (c : case15u) (g : xregion) (l : list ev) : res xregion * list ev :=
  match ebase c with
  | None => (Ok g, l)
  | Some b => if b + cu_size c <? W64 then (Ok g, l)
              else (Err InvalidGuestRegion, l ++ [EvMunmap (cu_size c)]) end.

Lemma guest_new_unix m o size file addr b :
  xen_guest_region_new m o (uregion size file addr) b =
  Val (if b + size <? W64 then (Ok (uregion size file addr), []) else (Err InvalidGuestRegion, [EvMunmap size])).
Proof.
  unfold xen_guest_region_new, checked_add. cbn [xr_size uregion].
  destruct (b + size <? W64); [reflexivity|]. unfold xen_drop. cbn [xr_mapped xr_kind uregion bind]. reflexivity.
Qed.

Lemma construct_u_form c o : wf_u c = true ->
  construct_u c o =
  Val (match ucheck o (cu_size c) (fstart_u c) with
       | (Err e, l1) => (Err e, l1)
       | (Ok _, l1) =>
           let l := l1 ++ [umap_ev o (cu_size c) (fstart_u c)] in
           if os_mmap_ok o then after_new c (uregion (cu_size c) (fstart_u c) (base_u c)) l
           else (Err MmapErr, l)
       end).
Proof.
  intros W. unfold wf_u in W. apply andb_true_iff in W. destruct W as [W W4].
  apply andb_true_iff in W. destruct W as [W W3]. apply andb_true_iff in W. destruct W as [W1 W2].
  unfold construct_u, after_new, ebase, xen_guest_from_range.
  destruct (cu_route c) as [|[p|p|]] eqn:ER; cbn [N.eqb] in *.
  - (* route 0 *) change (0 =? 0) with true. cbv iota. rewrite xfr_unix. cbn [bind].
    destruct (ucheck o (cu_size c) (fstart_u c)) as [[u|e] l1]; [|reflexivity].
    destruct (os_mmap_ok o); [|reflexivity].
    destruct (cu_base c) as [b|] eqn:EB; [|reflexivity].
    unfold base_u. rewrite EB. rewrite guest_new_unix. cbn [bind].
    destruct (b + cu_size c <? W64); [rewrite app_nil_r|]; reflexivity.
  - (* route >= 3 *) destruct p; discriminate.
  - (* route 2 *) destruct p; try discriminate. change (2 =? 0) with false. cbv iota.
    rewrite xfr_unix. cbn [bind].
    destruct (ucheck o (cu_size c) (fstart_u c)) as [[u|e] l1]; [|reflexivity].
    destruct (os_mmap_ok o); [|reflexivity].
    rewrite guest_new_unix. cbn [bind].
    destruct (base_u c + cu_size c <? W64); [rewrite app_nil_r|]; reflexivity.
  - (* route 1 *) change (1 =? 0) with false. cbv iota.
    rewrite xfr_unix. cbn [bind].
    destruct (ucheck o (cu_size c) (fstart_u c)) as [[u|e] l1]; [|reflexivity].
    destruct (os_mmap_ok o); [|reflexivity].
    rewrite guest_new_unix. cbn [bind].
    destruct (base_u c + cu_size c <? W64); [rewrite app_nil_r|]; reflexivity.
Qed.

Lemma huge_rt h : h < 3 -> huge_code (huge_opt h) = h.
Proof.
  intros H. destruct h as [|p]; [reflexivity|]. destruct p as [q|q|]; [lia| |reflexivity].
  destruct q; [lia|lia|reflexivity].
Qed.

(* ---- the checker, from facts about the observation *)
Lemma oku_err c o : ou_res o <> 0 -> In (ou_res o) (reasons_u c) -> ou_d2 o = 0 -> ok_C15xu c o = true.
Proof.
  intros R I D. unfold ok_C15xu. destruct (reasons_u c) as [|r rs] eqn:E; [destruct I|].
  apply mem_iff in I. rewrite I, D. destruct (N.eqb_spec (ou_res o) 0); [contradiction|]. reflexivity.
Qed.
Lemma oku_refused c o : ou_probe o = 0 -> ou_res o = 5 -> ou_d2 o = 0 -> ok_C15xu c o = true.
Proof.
  intros P R D. unfold ok_C15xu. rewrite P, R, D.
  destruct (reasons_u c); [reflexivity|]. cbn [negb andb N.eqb]. rewrite orb_true_r. reflexivity.
Qed.
Lemma oku_accept c o : reasons_u c = [] -> ou_probe o = 1 -> ou_res o = 0 -> ou_size o = cu_size c ->
  match cu_file c with
  | Some (_, s) => ou_hasfile o = true /\ ou_start o = s /\ ou_samefd o = true
  | None => ou_hasfile o = false end ->
  ou_xflags o = 0 -> ou_huge o = cu_huge c -> ou_d2 o = 0 ->
  ou_mprot o = N.land (ou_prot o) 7 + (if hasbit (ou_flags o) 1 then 8 else 0) ->
  (ou_coh1 o = 2 \/ (ou_coh1 o = 1 /\ ou_coh2 o = 1)) ->
  ok_C15xu c o = true.
Proof.
  intros E P R S Fi XF HU D MP CO. unfold ok_C15xu. rewrite E, P, R, S, XF, HU, D, MP.
  assert (X3 : match cu_file c with
               | Some (_, start) => ou_hasfile o && (ou_start o =? start) && ou_samefd o
               | None => negb (ou_hasfile o) end = true).
  { destruct (cu_file c) as [[fl s]|]; cbn iota beta in Fi;
      [destruct Fi as [F1 [F2 F3]]; rewrite F1, F2, F3, N.eqb_refl|rewrite Fi]; reflexivity. }
  rewrite X3, !N.eqb_refl. cbn [N.eqb andb].
  destruct (cu_file c) as [[fl s]|]; [|reflexivity].
  destruct CO as [C|[C1 C2]]; [rewrite C; reflexivity|rewrite C1, C2; reflexivity].
Qed.

(* ---- the observation, from the result of the constructor call *)
Lemma run_err c probe e l : construct_u c (os_of_u c probe) = Val (Err e, l) ->
  run_C15xu c probe = obs_err_u probe (berr_code e)
     (match cu_file c with Some _ => if has_rewind l then 0 else 7 | None => 0 end) (Z.to_N (foot (cu_page c) l)).
Proof. intros E. unfold run_C15xu. rewrite E. reflexivity. Qed.
Definition obs_ok_u (c : case15u) (probe : N) (l : list ev) : obs15u :=
  let g := uregion (cu_size c) (fstart_u c) (base_u c) in
  let t := coh_tested_u g in
  {| ou_probe := probe; ou_res := 0; ou_size := cu_size c; ou_prot := 3; ou_flags := ufl (fstart_u c);
     ou_hasfile := match fstart_u c with Some _ => true | None => false end;
     ou_start := match fstart_u c with Some s => s | None => 0 end;
     ou_samefd := match fstart_u c with Some _ => true | None => false end;
     ou_xflags := 0; ou_xdata := 0;
     ou_pos := match cu_file c with Some _ => if has_rewind l then 0 else 7 | None => 0 end;
     ou_d1 := Z.to_N (foot (cu_page c) l);
     ou_d2 := Z.to_N (foot (cu_page c) (l ++ [EvMunmap (cu_size c)]));
     ou_coh1 := if t then (if hasbit (ufl (fstart_u c)) MAP_ANONYMOUS then 0 else 1) else 2;
     ou_coh2 := if t then (if hasbit (ufl (fstart_u c)) MAP_SHARED && negb (hasbit (ufl (fstart_u c)) MAP_ANONYMOUS)
                           then 1 else 0) else 2;
     ou_huge := if cu_route c =? 0 then huge_code (xen_region_huge (huge_opt (cu_huge c))) else 0;
     ou_mprot := mprot_of 3 (ufl (fstart_u c)) |}.
Lemma run_okk c probe l :
  construct_u c (os_of_u c probe) = Val (Ok (uregion (cu_size c) (fstart_u c) (base_u c)), l) ->
  run_C15xu c probe = obs_ok_u c probe l.
Proof. intros E. unfold run_C15xu. rewrite E. reflexivity. Qed.

Lemma ufl_coh file : match file with
  | Some _ => hasbit (ufl file) MAP_ANONYMOUS = false /\ hasbit (ufl file) MAP_SHARED = true
  | None => True end.
Proof. destruct file; [split; reflexivity|exact I]. Qed.
Lemma mprot_ufl file : mprot_of 3 (ufl file) = N.land 3 7 + (if hasbit (ufl file) 1 then 8 else 0).
Proof. reflexivity. Qed.

(* an accepted request: the observation passes *)
Lemma accept_ok c probe l1 : wf_u c = true -> probe = 1 -> reasons_u c = [] ->
  foot (cu_page c) l1 = 0%Z ->
  ok_C15xu c (obs_ok_u c probe (l1 ++ [umap_ev (os_of_u c probe) (cu_size c) (fstart_u c)])) = true.
Proof.
  intros W P RS F1.
  unfold wf_u in W. apply andb_true_iff in W. destruct W as [W W4].
  apply andb_true_iff in W. destruct W as [W W3]. apply andb_true_iff in W. destruct W as [W1 W2].
  apply N.ltb_lt in W3.
  apply oku_accept; unfold obs_ok_u;
    cbn [ou_probe ou_res ou_size ou_hasfile ou_start ou_samefd ou_xflags ou_huge ou_d2 ou_mprot ou_prot ou_flags ou_coh1 ou_coh2];
    auto.
  - unfold fstart_u. destruct (cu_file c) as [[fl s]|]; auto.
  - destruct (cu_route c =? 0); cbn [orb] in W4.
    + unfold xen_region_huge. apply huge_rt. exact W3.
    + apply N.eqb_eq in W4. symmetry. exact W4.
  - unfold umap_ev. cbn [os_mmap_ok os_of_u]. subst probe. change (1 =? 1) with true.
    rewrite <- app_assoc, !foot_app, F1. cbn [foot app]. lia.
  - pose proof (ufl_coh (fstart_u c)) as H. destruct (coh_tested_u _) eqn:T; [|left; reflexivity].
    unfold coh_tested_u in T. cbn [xr_file uregion] in T. destruct (fstart_u c); [|discriminate].
    destruct H as [H1 H2]. rewrite H1, H2. right. split; reflexivity.
Qed.

Lemma C15xu_model_ok_lemma c probe : wf_u c = true -> probe < 2 -> ok_C15xu c (run_C15xu c probe) = true.
Proof.
  intros W P. pose proof (construct_u_form c (os_of_u c probe) W) as CF.
  assert (HB : match ebase c with None => cu_base c = None | Some b => cu_base c = Some b end).
  { pose proof W as W'. unfold wf_u in W'. apply andb_true_iff in W'. destruct W' as [W' _].
    apply andb_true_iff in W'. destruct W' as [W' _]. apply andb_true_iff in W'. destruct W' as [_ W2].
    unfold ebase, base_u. destruct (cu_route c =? 0); cbn [orb] in W2.
    - destruct (cu_base c); reflexivity.
    - destruct (cu_base c); [reflexivity|discriminate]. }
  unfold ucheck, after_new in CF. cbn [os_mmap_ok os_of_u] in CF.
  (* the base part of the reasons *)
  assert (BP : forall b, ebase c = Some b -> (if b + cu_size c <? W64 then
                 match cu_base c with Some b => if W64 <=? b + cu_size c then [6] else [] | None => [] end = []
               else In 6 (match cu_base c with Some b => if W64 <=? b + cu_size c then [6] else [] | None => [] end))).
  { intros b EB. rewrite EB in HB. rewrite HB.
    destruct (N.ltb_spec (b + cu_size c) W64); destruct (N.leb_spec W64 (b + cu_size c)); try lia; [reflexivity|left; reflexivity]. }
  unfold fstart_u in CF at 1.
  destruct (cu_file c) as [[flen start]|] eqn:EF.
  - unfold check_file_offset, checked_add in CF. cbn [os_filesize os_of_u] in CF. rewrite EF in CF.
    destruct (N.ltb_spec (start + cu_size c) W64) as [Hov|Hov].
    + destruct (N.ltb_spec flen (start + cu_size c)) as [He|He].
      * (* past EOF *)
        rewrite (run_err _ _ _ _ CF). apply oku_err; cbn [ou_res ou_d2 obs_err_u berr_code]; [discriminate| |reflexivity].
        unfold reasons_u. rewrite EF. destruct (N.leb_spec W64 (start + cu_size c)); [lia|].
        destruct (N.ltb_spec flen (start + cu_size c)); [|lia]. left. reflexivity.
      * assert (RF : reasons_u c = match cu_base c with Some b => if W64 <=? b + cu_size c then [6] else [] | None => [] end).
        { unfold reasons_u. rewrite EF. destruct (N.leb_spec W64 (start + cu_size c)); [lia|].
          destruct (N.ltb_spec flen (start + cu_size c)); [lia|]. reflexivity. }
        destruct (probe =? 1) eqn:EP.
        -- apply N.eqb_eq in EP.
           destruct (ebase c) as [b|] eqn:EB.
           ++ specialize (BP b eq_refl). destruct (b + cu_size c <? W64).
              ** rewrite (run_okk _ _ _ CF). rewrite <- RF in BP.
                 apply (accept_ok c probe [EvSeekEnd; EvRewind] W EP BP). reflexivity.
              ** rewrite (run_err _ _ _ _ CF). apply oku_err; cbn [ou_res ou_d2 obs_err_u berr_code]; [discriminate|rewrite RF; exact BP|].
                 unfold umap_ev. cbn [os_mmap_ok os_of_u]. rewrite EP. change (1 =? 1) with true.
                 rewrite <- !app_assoc, !foot_app. cbn [foot app]. f_equal. lia.
           ++ rewrite (run_okk _ _ _ CF). rewrite HB in RF.
              apply (accept_ok c probe [EvSeekEnd; EvRewind] W EP RF). reflexivity.
        -- rewrite (run_err _ _ _ _ CF). apply oku_refused; cbn [ou_probe ou_res ou_d2 obs_err_u berr_code]; [pose proof EP as EP'; apply N.eqb_neq in EP'; lia|reflexivity|].
           unfold umap_ev. cbn [os_mmap_ok os_of_u]. rewrite EP. rewrite foot_app. cbn [foot]. reflexivity.
    + (* file range overflows *)
      rewrite (run_err _ _ _ _ CF). apply oku_err; cbn [ou_res ou_d2 obs_err_u berr_code]; [discriminate| |reflexivity].
      unfold reasons_u. rewrite EF. destruct (N.leb_spec W64 (start + cu_size c)); [|lia]. left. reflexivity.
  - assert (RF : reasons_u c = match cu_base c with Some b => if W64 <=? b + cu_size c then [6] else [] | None => [] end).
    { unfold reasons_u. rewrite EF. reflexivity. }
    destruct (probe =? 1) eqn:EP.
    + apply N.eqb_eq in EP.
      destruct (ebase c) as [b|] eqn:EB.
      * specialize (BP b eq_refl). destruct (b + cu_size c <? W64).
        -- rewrite (run_okk _ _ _ CF). rewrite <- RF in BP.
           apply (accept_ok c probe [] W EP BP). reflexivity.
        -- rewrite (run_err _ _ _ _ CF). apply oku_err; cbn [ou_res ou_d2 obs_err_u berr_code]; [discriminate|rewrite RF; exact BP|].
           unfold umap_ev. cbn [os_mmap_ok os_of_u]. rewrite EP. change (1 =? 1) with true.
           cbn [foot app]. f_equal. lia.
      * rewrite (run_okk _ _ _ CF). rewrite HB in RF.
        apply (accept_ok c probe [] W EP RF). reflexivity.
    + rewrite (run_err _ _ _ _ CF). apply oku_refused; cbn [ou_probe ou_res ou_d2 obs_err_u berr_code]; [pose proof EP as EP'; apply N.eqb_neq in EP'; lia|reflexivity|].
      unfold umap_ev. cbn [os_mmap_ok os_of_u]. rewrite EP. cbn [foot app]. reflexivity.
Qed.

(* ---------------------------------------------------------------- Prop-level readings *)
Definition file_fits (o : os) (size : N) (file : option N) : Prop :=
  match file with Some start => start + size < W64 /\ start + size <= os_filesize o | None => True end.

Lemma new_unix_flags_lemma size file addr :
  exists fl, x_flags (new_unix size file addr) = Some fl /\ hasbit fl MAP_FIXED = false /\
    match file with
    | Some _ => hasbit fl MAP_SHARED = true /\ hasbit fl MAP_ANONYMOUS = false
    | None => hasbit fl MAP_ANONYMOUS = true /\ hasbit fl MAP_SHARED = false end /\
  x_prot (new_unix size file addr) = None /\ x_mflags (new_unix size file addr) = 0 /\
  x_file (new_unix size file addr) = file /\ x_size (new_unix size file addr) = size.
Proof.
  destruct file as [s|]; eexists; (split; [reflexivity|]); repeat split; reflexivity.
Qed.

Lemma xgfr_form m o base size file :
  xen_guest_from_range m o base size file =
  Val (match ucheck o size file with
       | (Err e, l1) => (Err e, l1)
       | (Ok _, l1) =>
           let l := l1 ++ [umap_ev o size file] in
           if os_mmap_ok o then
             if base + size <? W64 then (Ok (uregion size file base), l)
             else (Err InvalidGuestRegion, l ++ [EvMunmap size])
           else (Err MmapErr, l)
       end).
Proof.
  unfold xen_guest_from_range. rewrite xfr_unix. cbn [bind].
  destruct (ucheck o size file) as [[u|e] l1]; [|reflexivity].
  destruct (os_mmap_ok o); [|reflexivity]. rewrite guest_new_unix. cbn [bind].
  destruct (base + size <? W64); [rewrite app_nil_r|]; reflexivity.
Qed.

Lemma ucheck_cases o size file :
  (file_fits o size file /\ exists l1, ucheck o size file = (Ok tt, l1) /\ mm_balance l1 = 0%Z /\
      forall s p f b off, ~ In (EvMmap s p f b off true) l1) \/
  (~ file_fits o size file /\ exists e l1, ucheck o size file = (Err e, l1) /\ mm_balance l1 = 0%Z).
Proof.
  unfold ucheck, file_fits. destruct file as [start|].
  - unfold check_file_offset, checked_add. destruct (N.ltb_spec (start + size) W64) as [H|H].
    + destruct (N.ltb_spec (os_filesize o) (start + size)) as [H2|H2].
      * right. split; [lia|]. eexists. eexists. split; [reflexivity|reflexivity].
      * left. split; [split; assumption|]. eexists. split; [reflexivity|]. split; [reflexivity|].
        intros s p f b off [E|[E|[]]]; discriminate.
    + right. split; [lia|]. eexists. eexists. split; reflexivity.
  - left. split; [exact I|]. exists []. split; [reflexivity|]. split; [reflexivity|]. intros s p f b off [].
Qed.

Lemma mm_balance_app a b : mm_balance (a ++ b) = (mm_balance a + mm_balance b)%Z.
Proof.
  induction a as [|e a IH]; cbn [app mm_balance]; [reflexivity|].
  destruct e as [| |s pp f fi off [|]|s|cc ok|gg cc i ok|i cc]; rewrite ?IH; lia.
Qed.

Lemma xen_from_range_exact_lemma m o base size file :
  exists r l, xen_guest_from_range m o base size file = Val (r, l) /\
    ((exists g, r = Ok g) <-> file_fits o size file /\ os_mmap_ok o = true /\ base + size < W64) /\
    (forall g, r = Ok g ->
       xr_size g = size /\ xr_file g = file /\ xr_prot g = N.lor PROT_READ PROT_WRITE /\ xr_mflags g = 0 /\
       In (EvMmap size (xr_prot g) (xr_flags g) (match file with Some _ => true | None => false end)
                  (match file with Some s => s | None => 0 end) true) l /\
       match file with
       | Some _ => hasbit (xr_flags g) MAP_SHARED = true /\ hasbit (xr_flags g) MAP_ANONYMOUS = false
       | None => hasbit (xr_flags g) MAP_ANONYMOUS = true end /\
       mm_balance l = 1%Z) /\
    (forall e, r = Err e -> mm_balance l = 0%Z).
Proof.
  rewrite xgfr_form.
  destruct (ucheck_cases o size file) as [(FF & l1 & -> & B1 & N1)|(NF & e & l1 & -> & B1)].
  - cbv zeta. destruct (os_mmap_ok o) eqn:EM.
    + destruct (N.ltb_spec (base + size) W64) as [HB|HB].
      * eexists. eexists. split; [reflexivity|]. split; [|split].
        -- split; [intros _; repeat split; assumption|intros _; eexists; reflexivity].
        -- intros g E. inversion E; subst g; clear E. cbn [xr_size xr_file xr_prot xr_mflags xr_flags uregion].
           repeat split.
           ++ apply in_or_app. right. left. unfold umap_ev. rewrite EM. reflexivity.
           ++ destruct file; [split; reflexivity|reflexivity].
           ++ rewrite mm_balance_app, B1. unfold umap_ev. rewrite EM. reflexivity.
        -- intros e E. discriminate.
      * eexists. eexists. split; [reflexivity|]. split; [|split].
        -- split; [intros [g E]; discriminate|intros (_ & _ & H); lia].
        -- intros g E. discriminate.
        -- intros e _. rewrite !mm_balance_app, B1. unfold umap_ev. rewrite EM. reflexivity.
    + eexists. eexists. split; [reflexivity|]. split; [|split].
      * split; [intros [g E]; discriminate|intros (_ & H & _); discriminate].
      * intros g E. discriminate.
      * intros e _. rewrite mm_balance_app, B1. unfold umap_ev. rewrite EM. reflexivity.
  - eexists. eexists. split; [reflexivity|]. split; [|split].
    + split; [intros [g E]; discriminate|intros (H & _ & _); contradiction].
    + intros g E. discriminate.
    + intros e' _. exact B1.
Qed.

(* the label never decides, and the region hands back the label of the range *)
Lemma xen_label_lemma (h : N) : h < 3 -> huge_code (xen_region_huge (huge_opt h)) = h.
Proof. apply huge_rt. Qed.
