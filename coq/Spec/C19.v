(* C19 - Address arithmetic reports overflow instead of wrapping into a valid address.
   The checker is written from the property text only: it recomputes every answer
   in unbounded arithmetic.  Observation format (shared with the harness):
     kind 0 = None, 1 = value / Some, 2 = panicked ; value ; flag *)
From VM Require Import Prelude.MachInt Prelude.Outcome Prelude.Tok.

Inductive aop := OpCheckedAdd | OpCheckedSub | OpCheckedOffsetFrom | OpOverflowingAdd
  | OpOverflowingSub | OpCheckedAlignUp | OpMask | OpBitAnd | OpBitOr | OpCmp | OpEq
  | OpUncheckedAdd | OpUncheckedSub | OpUncheckedOffsetFrom | OpUncheckedAlignUp.
Record case19 := { c_mode : mode; c_op : aop; c_a : N; c_b : N }.
Record obs19 := { o_kind : N; o_val : N; o_flag : bool }.

Definition obs19_eqb (x y : obs19) : bool :=
  (o_kind x =? o_kind y) && (o_val x =? o_val y) && Bool.eqb (o_flag x) (o_flag y).

Definition is_pow2 (p : N) : bool := match p with Npos q => (N.pos q =? 2 ^ N.log2 (N.pos q)) | 0 => false end.
(* the least multiple of p that is >= a *)
Definition least_multiple_ge (a p : N) : N := ((a + p - 1) / p) * p.

Definition some_if (c : bool) (v : N) (o : obs19) : bool :=
  if c then (o_kind o =? 1) && (o_val o =? v) else (o_kind o =? 0).

Definition ok_C19 (c : case19) (o : obs19) : bool :=
  let a := c_a c in let b := c_b c in
  match c_op c with
  | OpCheckedAdd => some_if (a + b <? W64) (a + b) o
  | OpCheckedSub | OpCheckedOffsetFrom => some_if (b <=? a) (a - b) o
  | OpOverflowingAdd =>
      (o_kind o =? 1) && (o_val o =? (a + b) mod W64) && Bool.eqb (o_flag o) (negb (a + b <? W64))
  | OpOverflowingSub =>
      (o_kind o =? 1) && (o_val o =? (W64 + a - b) mod W64) && Bool.eqb (o_flag o) (negb (b <=? a))
  | OpCheckedAlignUp =>
      if is_pow2 b then some_if (least_multiple_ge a b <? W64) (least_multiple_ge a b) o
      else true   (* not a power of two: outside the property (documented panic) *)
  | OpMask | OpBitAnd => (o_kind o =? 1) && (o_val o =? N.land a b)
  | OpBitOr => (o_kind o =? 1) && (o_val o =? N.lor a b)
  | OpCmp => (o_kind o =? 1) && (o_val o =? (match a ?= b with Lt => 0 | Eq => 1 | Gt => 2 end))
  | OpEq => (o_kind o =? 1) && (o_val o =? (if N.eq_dec a b then 1 else 0))
  | OpUncheckedAdd | OpUncheckedSub | OpUncheckedOffsetFrom | OpUncheckedAlignUp =>
      (* the property does not constrain the unchecked forms; if they return, the value must
         be the exact or the wrapped one (never a third thing) *)
      match o_kind o with
      | 1 => match c_op c with
             | OpUncheckedAdd => (o_val o =? (a + b) mod W64)
             | OpUncheckedSub | OpUncheckedOffsetFrom => (o_val o =? (W64 + a - b) mod W64)
             | _ => true end
      | _ => true end
  end.
