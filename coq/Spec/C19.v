(* C19 - Address arithmetic reports overflow instead of wrapping into a valid address.
   The checker is written from the property text only: it recomputes every answer
   in unbounded arithmetic.  Observation format (shared with the harness):
     kind 0 = None, 1 = value / Some, 2 = panicked ; value ; flag *)
From VM Require Import Prelude.MachInt Prelude.Outcome Prelude.Tok.

Inductive aop := OpCheckedAdd | OpCheckedSub | OpCheckedOffsetFrom | OpOverflowingAdd
  | OpOverflowingSub | OpCheckedAlignUp | OpMask | OpBitAnd | OpBitOr | OpCmp | OpEq
  | OpUncheckedAdd | OpUncheckedSub | OpUncheckedOffsetFrom | OpUncheckedAlignUp
  (* the rest of the comparison surface: partial_cmp, the four operators, !=, max, min, clamp(b, c),
     equality with the operands exchanged *)
  | OpPartialCmp | OpLt | OpLe | OpGt | OpGe | OpNe | OpMax | OpMin | OpClamp | OpEqSym.
(* c_c: third operand, used by clamp only (upper bound; c_b is the lower bound) *)
Record case19 := { c_mode : mode; c_op : aop; c_a : N; c_b : N; c_c : N }.
Record obs19 := { o_kind : N; o_val : N; o_flag : bool }.

Definition obs19_eqb (x y : obs19) : bool :=
  (o_kind x =? o_kind y) && (o_val x =? o_val y) && Bool.eqb (o_flag x) (o_flag y).

Definition is_pow2 (p : N) : bool := match p with Npos q => (N.pos q =? 2 ^ N.log2 (N.pos q)) | 0 => false end.
(* the least multiple of p that is >= a *)
Definition least_multiple_ge (a p : N) : N := ((a + p - 1) / p) * p.

Definition some_if (c : bool) (v : N) (o : obs19) : bool :=
  if c then (o_kind o =? 1) && (o_val o =? v) else (o_kind o =? 0).

(* "ordering and equality follow the raw values": the order of two wrappers is N's order of the raw values *)
Definition ord_code (a b : N) : N := match a ?= b with Lt => 0 | Eq => 1 | Gt => 2 end.
Definition val_is (v : N) (o : obs19) : bool := (o_kind o =? 1) && (o_val o =? v).
Definition b2n (b : bool) : N := if b then 1 else 0.

Definition ok_C19 (c : case19) (o : obs19) : bool :=
  let a := c_a c in let b := c_b c in
  match c_op c with
  | OpCheckedAdd => some_if (a + b <? W64) (a + b) o
  | OpCheckedSub | OpCheckedOffsetFrom => some_if (b <=? a) (a - b) o
  | OpOverflowingAdd =>
      (o_kind o =? 1) && (o_val o =? (a + b) mod W64) && Bool.eqb (o_flag o) (negb (a + b <? W64))
  | OpOverflowingSub =>
      (o_kind o =? 1) && (o_val o =? (W64 + a - b) mod W64) && Bool.eqb (o_flag o) (negb (b <=? a))
  | OpCheckedAlignUp =>
      if is_pow2 b then some_if (least_multiple_ge a b <? W64) (least_multiple_ge a b) o
      else true   (* not a power of two: outside the property (documented panic) *)
  | OpMask | OpBitAnd => (o_kind o =? 1) && (o_val o =? N.land a b)
  | OpBitOr => (o_kind o =? 1) && (o_val o =? N.lor a b)
  | OpCmp => (o_kind o =? 1) && (o_val o =? (match a ?= b with Lt => 0 | Eq => 1 | Gt => 2 end))
  | OpEq => (o_kind o =? 1) && (o_val o =? (if N.eq_dec a b then 1 else 0))
  | OpPartialCmp => val_is (ord_code a b) o        (* Some(ordering of the raw values); None is kind 0 *)
  | OpLt => val_is (b2n (match a ?= b with Lt => true | _ => false end)) o
  | OpLe => val_is (b2n (match a ?= b with Gt => false | _ => true end)) o
  | OpGt => val_is (b2n (match a ?= b with Gt => true | _ => false end)) o
  | OpGe => val_is (b2n (match a ?= b with Lt => false | _ => true end)) o
  | OpNe => val_is (if N.eq_dec a b then 0 else 1) o
  | OpEqSym => val_is (if N.eq_dec a b then 1 else 0) o
  | OpMax => val_is (N.max a b) o                  (* the greater / the smaller raw value *)
  | OpMin => val_is (N.min a b) o
  | OpClamp =>                                     (* b <= c: the value of [b, c] nearest to a; b > c: documented panic, outside the property *)
      if b <=? c_c c then val_is (N.max b (N.min a (c_c c))) o else true
  | OpUncheckedAdd | OpUncheckedSub | OpUncheckedOffsetFrom | OpUncheckedAlignUp =>
      (* the property does not constrain the unchecked forms; if they return, the value must
         be the exact or the wrapped one (never a third thing) *)
      match o_kind o with
      | 1 => match c_op c with
             | OpUncheckedAdd => (o_val o =? (a + b) mod W64)
             | OpUncheckedSub | OpUncheckedOffsetFrom => (o_val o =? (W64 + a - b) mod W64)
             | _ => true end
      | _ => true end
  end.
