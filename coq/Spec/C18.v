(* C18 - Zero-length accesses are successful no-ops at every layer.
   Case / observation records and the executable checker ok_C18, written from the property text
   (properties.jsonl, C18) only; it does not use the implementation model.

   The text:  (1) an access with an EMPTY BUFFER or an OBJECT OF SIZE ZERO reports zero / unit at
   slice, region and guest-memory level for ANY address or offset (unmapped, out of range, 2^64-1);
   (2) a ZERO-COUNT STREAM transfer or a COPY OF ZERO-SIZED ELEMENTS does the same at every address
   that is valid for a non-empty access;  (3) none of these panics, touches memory or marks
   anything dirty.

   A case names: the layer, the entry point, the layout (bitmap page size + regions), the container
   (layer 0: the sub-slice [sub_off, sub_off+sub_len) of region ri; layer 1: region ri; layer 2:
   the whole collection), the address / offset handed to the entry point, and the parameters of the
   accessor-shaped entry points (element size, element count, length of the caller's buffer /
   stream, kind of stream).  Accessor-shaped entry points (copies, typed references) are reached
   through the layer's own get_slice(addr, nbytes). *)
From VM Require Import Prelude.MachInt Prelude.Outcome.

Inductive layer18 := LSlice | LRegion | LGuest.
Inductive op18 :=
  | ZWrite | ZRead | ZWriteSlice | ZReadSlice | ZWriteObj | ZReadObj   (* empty buffer / [u8;0] object *)
  | ZReadFrom | ZReadExactFrom | ZWriteTo | ZWriteAllTo                  (* stream forms, count = 0 *)
  | ZCopyTo | ZCopyFrom                                                  (* VolatileSlice::copy_to/from::<[T;0]> *)
  | ZArrCopyTo | ZArrCopyFrom                                            (* VolatileArrayRef, ZST element or n = 0 *)
  | ZRefStore | ZRefLoad                                                 (* VolatileRef<[u8;0]> *)
  | ZCopyIntoEmpty | ZCopyFromEmpty.                                     (* copy_to_volatile_slice, one side empty *)

Record case18 := {
  c_mode : mode; c_layer : layer18; c_op : op18;
  c_ps : N;                       (* bitmap page size of every region *)
  c_regs : list (N * N);          (* (guest start, size) *)
  c_ri : nat;                     (* container region (layers 0, 1) *)
  c_sub_off : N; c_sub_len : N;   (* layer 0: the container is this part of region ri *)
  c_addr : N;                     (* the address / offset argument *)
  c_esz : N;                      (* element size: 0 = zero-sized type *)
  c_n : N;                        (* element count of the array / byte length for ZCopyTo/From's slice *)
  c_k : N;                        (* length of the caller's buffer or stream *)
  c_sk : N }.                     (* stream kind 0 slice, 1 Vec, 2 File; for ZST copies: 0 [u8;0], 1 [u64;0] *)

(* class: 0 = Ok, 1 = Err, 2 = panicked.  ecode: canonical error number (0 when not Err), only
   compared with the model, never judged.  count: the usize the call reported (0 for unit).
   ext: 1 iff the caller's buffer / stream changed or moved.  changed: indices (in the
   concatenation of all regions' memory) of bytes that differ from the fill pattern afterwards.
   dirty: indices (in the concatenation of all regions' bitmaps) of pages reported dirty afterwards;
   all bitmaps are clean before the call. *)
Record obs18 := { o_class : N; o_ecode : N; o_count : N; o_ext : N; o_changed : list N; o_dirty : list N }.

Definition is_nil {A} (l : list A) : bool := match l with [] => true | _ => false end.

(* the part of the address space one container answers for *)
Definition mapped (regs : list (N * N)) (a : N) : bool :=
  existsb (fun p => (fst p <=? a) && (a <? fst p + snd p)) regs.
(* the region containing a, as (start,size) - regions of a case are disjoint *)
Definition region_of (regs : list (N * N)) (a : N) : option (N * N) :=
  find (fun p => (fst p <=? a) && (a <? fst p + snd p)) regs.

(* number of bytes the layer's get_slice is asked for by the accessor-shaped entry points *)
Definition nbytes18 (c : case18) : N :=
  match c_op c with
  | ZCopyTo | ZCopyFrom => c_n c
  | ZArrCopyTo | ZArrCopyFrom => c_n c * c_esz c
  | _ => 0 end.

(* "an address that is valid for a non-empty access": a byte of the container lives there (and the
   bytes the accessor names, if any, lie inside the same container / region) *)
Definition valid_addr (c : case18) : bool :=
  let a := c_addr c in let nb := nbytes18 c in
  match c_layer c with
  | LSlice => (a <? c_sub_len c) && (a + nb <=? c_sub_len c)
  | LRegion => let sz := snd (nth (c_ri c) (c_regs c) (0, 0)) in (a <? sz) && (a + nb <=? sz)
  | LGuest => match region_of (c_regs c) a with
              | Some (st, sz) => a + nb <=? st + sz
              | None => false end
  end.

Definition must_succeed (c : case18) : bool :=
  match c_op c with
  | ZWrite | ZRead | ZWriteSlice | ZReadSlice | ZWriteObj | ZReadObj => true     (* any address *)
  | _ => valid_addr c end.

(* the count is stated by the text ("reports zero (or unit)") for the buffer, object and stream
   forms; for element copies the text only says they succeed as no-ops *)
Definition count_stated (c : case18) : bool :=
  match c_op c with ZCopyTo | ZArrCopyTo => false | _ => true end.

Definition ok_C18 (c : case18) (o : obs18) : bool :=
  negb (o_class o =? 2)                          (* never panics *)
  && is_nil (o_changed o)                        (* touches no memory *)
  && is_nil (o_dirty o)                          (* marks nothing dirty *)
  && (o_ext o =? 0)                              (* moves nothing on the caller's side either *)
  && (if must_succeed c
      then (o_class o =? 0) && (if count_stated c then o_count o =? 0 else true)
      else true).
