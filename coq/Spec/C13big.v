(* C13 at LARGE sizes (suite C13big) - the spec side.
   Buffers and streams of 4095 ... 3*2^20 bytes cannot travel through a trace line or through byte lists, so this
   suite works at the level of LENGTHS: contents are fixed patterns (byte i of pattern p = (31 i + 7 + 13 p) mod 251,
   never enumerated here), a stream is (length, position, bytes delivered to the peer), and the harness reports, next to
   result and counts, where the first byte differs from what it should be:
     moved   bytes the stream lost (reads: its position moved / its queue shrank) or gained (writes)
     d1      reads: first index < moved at which the buffer differs from the stream's bytes (moved if none)
             writes: first index < moved at which the sink's new bytes differ from the buffer (moved if none)
     d2      first index (reads: >= moved) at which the buffer differs from what it held before the call (length if none)
     rest    1 iff every other byte of the stream (before / behind the transferred range) is what it was
     apos / slen   position and length of the stream afterwards (queues: 0 / bytes still queued)
   The oracle below is the DOCUMENTED std::io operation on such a stream (cf. Impl/Std.v): a single read / write moves
   min(buffer, available) bytes (one read(2) / write(2) on a descriptor, under the descriptor's script - Impl/Io.v
   [fbeh]); read_exact / write_all: for &[u8] and Cursor all or UnexpectedEof, for Vec always all, for descriptors the
   provided loops (EINTR ignored, 0 bytes = UnexpectedEof / WriteZero, any other error returned).
   The checker demands: same result as std; after a success the same number of bytes moved, the RIGHT bytes (d1 = moved),
   nothing else touched in the buffer (d2 = length, margins) or in the stream (rest, apos, slen as std's); and agreement
   with the real std twin. *)
From VM Require Import Prelude.MachInt Prelude.Outcome Prelude.Tok Prelude.C1314List Impl.Io Impl.Std.

Inductive bkind := BSliceR | BVecW | BCurR | BFile | BQueue.
(* b_len: length of the array / vector / file, or the number of queued bytes; b_pos: slice start / cursor position /
   file offset (0 for vectors and queues); b_out: bytes delivered to the peer of a queue *)
Record bst := { b_len : N; b_pos : N; b_out : N }.
Inductive bop := BRead | BReadExact | BWrite | BWriteAll.
Record case13big := { g_mode : mode; g_kind : bkind; g_init : bst; g_op : bop; g_blen : N; g_script : list fbeh }.
Record obs13big := { v_rc : N * N; v_moved : N; v_d1 : N; v_d2 : N; v_margins : bool; v_rest : bool; v_calls : N;
                     v_apos : N; v_slen : N;
                     u_rc : N * N; u_moved : N; u_d1 : N; u_apos : N; u_slen : N }.

Definition b_is_read (o : bop) : bool := match o with BRead | BReadExact => true | _ => false end.
Definition b_avail (k : bkind) (st : bst) : N :=
  match k with
  | BSliceR | BFile => b_len st - b_pos st
  | BCurR => b_len st - N.min (b_pos st) (b_len st)
  | BQueue => b_len st
  | BVecW => 0
  end.
(* n bytes read from / written to the stream *)
Definition b_took (k : bkind) (st : bst) (n : N) : bst :=
  match k with
  | BQueue => {| b_len := b_len st - n; b_pos := b_pos st; b_out := b_out st |}
  | _ => {| b_len := b_len st; b_pos := b_pos st + n; b_out := b_out st |}
  end.
Definition b_gave (k : bkind) (st : bst) (n : N) : bst :=
  match k with
  | BQueue => {| b_len := b_len st; b_pos := b_pos st; b_out := b_out st + n |}
  | BVecW => {| b_len := b_len st + n; b_pos := b_pos st; b_out := b_out st |}
  | _ => if n =? 0 then st                                   (* an empty write(2) does not extend a file *)
         else {| b_len := N.max (b_len st) (b_pos st + n); b_pos := b_pos st + n; b_out := b_out st |}
  end.

(* one read(2) / write(2) of a descriptor under a script: what it answers (inl count | inr error) *)
Definition b_sys (sc : list fbeh) (len cap : N) : (N + ioerr) :=
  match sc with
  | [] | FFull :: _ => inl (N.min len cap)
  | FShort j :: _ => inl (N.min (N.min j len) cap)
  | FZero :: _ => inl 0
  | FEintr :: _ => inr EInterrupted
  | FErr :: _ => inr EOther
  end.
Definition b_fd (k : bkind) : bool := match k with BFile | BQueue => true | _ => false end.
(* what a sink can take: descriptors (large socket buffers, files) everything *)
Definition b_cap (k : bkind) (rd : bool) (st : bst) (len : N) : N := if rd then b_avail k st else len.

(* std: (state afterwards | unspecified, result, bytes moved) *)
Definition sres := (option bst * (N * N) * N)%type.
Definition b_move (k : bkind) (rd : bool) (st : bst) (n : N) : bst := if rd then b_took k st n else b_gave k st n.

Fixpoint b_std_loop (fuel : nat) (k : bkind) (rd : bool) (st : bst) (sc : list fbeh) (want moved : N) {struct fuel}
  : outcome sres :=
  match fuel with
  | O => OutOfFuel
  | S fl =>
      if want =? 0 then Val (Some st, (1, 0), moved) else
      match b_sys sc want (b_cap k rd st want) with
      | inr EInterrupted => b_std_loop fl k rd st (tl sc) want moved
      | inr e => Val (None, rc_ioerr e, moved)
      | inl n => if n =? 0 then Val (None, if rd then (2, 0) else (3, 0), moved)
                 else b_std_loop fl k rd (b_move k rd st n) (tl sc) (want - n) (moved + n)
      end
  end.
Definition b_fuel (sc : list fbeh) : nat := length sc + 4.

Definition b_std_step (k : bkind) (st : bst) (sc : list fbeh) (o : bop) (blen : N) : outcome sres :=
  let rd := b_is_read o in
  match o with
  | BRead | BWrite =>
      if b_fd k then
        match b_sys sc blen (b_cap k rd st blen) with
        | inl n => Val (Some (b_move k rd st n), (0, n), n)
        | inr e => Val (None, rc_ioerr e, 0)
        end
      else let n := if rd then N.min blen (b_avail k st) else blen in
           Val (Some (b_move k rd st n), (0, n), n)
  | BReadExact =>
      if b_fd k then b_std_loop (b_fuel sc) k true st sc blen 0
      else if blen <=? b_avail k st then Val (Some (b_took k st blen), (1, 0), blen)
           else Val (None, (2, 0), 0)
  | BWriteAll =>
      if b_fd k then b_std_loop (b_fuel sc) k false st sc blen 0
      else Val (Some (b_gave k st blen), (1, 0), blen)
  end.

Definition b_allowed (k : bkind) (o : bop) : bool :=
  match k with BSliceR | BCurR => b_is_read o | BVecW => negb (b_is_read o) | _ => true end.
Definition rc_eq (x y : N * N) : bool := (fst x =? fst y) && (snd x =? snd y).
Definition rc_good (x : N * N) : bool := (fst x =? 0) || (fst x =? 1).
Definition show_pos (k : bkind) (st : bst) : N := match k with BQueue => 0 | _ => b_pos st end.

Definition ok_C13big (c : case13big) (o : obs13big) : bool :=
  b_allowed (g_kind c) (g_op c) && v_margins o
  && match b_std_step (g_kind c) (g_init c) (g_script c) (g_op c) (g_blen c) with
     | Val (ost, rc, moved) =>
         rc_eq rc (v_rc o)
         && (if rc_good rc then
               (v_moved o =? moved) && (v_d1 o =? moved) && (v_d2 o =? g_blen c) && v_rest o
               && match ost with
                  | Some st' => (v_apos o =? show_pos (g_kind c) st') && (v_slen o =? b_len st')
                  | None => true
                  end
             else true)
     | _ => false
     end
  (* adapter vs. the real std twin *)
  && rc_eq (v_rc o) (u_rc o)
  && (if rc_good (u_rc o) then
        (v_moved o =? u_moved o) && (u_d1 o =? u_moved o) && (v_apos o =? u_apos o) && (v_slen o =? u_slen o)
      else true).
