(* C12 on the Xen flavour - a mapping lives exactly as long as something can still reach it.
   Executable checker written from the property text, extending Spec/C12.v (no reference counts: a handle is the set
   of regions it can reach) to Xen regions and to histories that contain ACCESSES.

   Region kinds: 0 unix, 1 foreign, 2 grant mapped in advance - these own a mapping made by the library, which must
   stay mapped while any owner exists and go away, exactly once, with the last owner; 3 grant mapped ON DEMAND - the
   library maps nothing for the region itself; whatever it maps for an access must be gone when the access returns.
   For grant memory "mapped" has two sides: the pages in the process (munmap) and the grant mapping in the device
   (gntdev unmap request); both are observed.

   After EVERY operation of a history (creation, build, insert, remove, clone, snapshot, drop, access):
     live   = { regions of kind 0-2 reachable from some live handle }          (from /proc/self/maps)
     gnt    = { regions of kind 2 reachable from some live handle }            (the device's live grant set)
     stray  = 0: the device holds no other grant mapping (no window left over)
     every region of kind 2 has received exactly one unmap request if it is no longer reachable, none if it is
   and per operation:
     an access changes nothing: it needs a live handle, must not panic, and on a region mapped in advance the device
       sees NO request at all; on an on-demand region at most one window, inside the region's own grant range,
       mapped and unmapped again with the same index and count;
     only the creation of a kind-2 region issues a map request (for exactly its own range); unmap requests outside
       accesses concern whole kind-2 regions.
   Layout facts of the suite (harness): region id created in slot k has size ysz id, guest start k*0x10000, and its
   grant references start at ygad id k / 4096 (distinct regions have disjoint device ranges). *)
From VM Require Import Prelude.MachInt Spec.C12.
From VM Require Spec.C17.

Notation dev_ev := Spec.C17.dev_ev.
Notation DMap := Spec.C17.DMap.
Notation DUnmap := Spec.C17.DUnmap.

Inductive ywop := YW (o : wop) | YWAccess (h : nat) (sel off len ak : N).
Record yobs := { yo_st : N; yo_val : N; yo_live : N; yo_gnt : N; yo_stray : N; yo_evs : list dev_ev }.

Definition ysz (id : N) : N := nth (N.to_nat (id mod 6)) [4096; 2048; 4097; 14336; 8192; 8191] 4096.
Definition ygad (id slot : N) : N := (id * 16 + slot) * 65536.
Definition ypages (size : N) : N := (size + 4095) / 4096.

Record ysstate := { ys_base : sstate; ys_unm : list (N * N) }.   (* all unmap requests seen so far *)
Definition ysinit : ysstate := {| ys_base := sinit; ys_unm := [] |}.

Definition nregs (s : sstate) : nat := length (k_kinds s).
Definition reach_s (s : sstate) (r : N) : bool := reach (k_hs s) r.
Definition exp_live (s : sstate) : N := mask_upto (nregs s) (fun r => negb (kind_of s r =? 3) && reach_s s r).
Definition exp_gnt (s : sstate) : N := mask_upto (nregs s) (fun r => (kind_of s r =? 2) && reach_s s r).

Fixpoint count_pair (x : N * N) (l : list (N * N)) {struct l} : N :=
  match l with [] => 0 | y :: t => (if (fst x =? fst y) && (snd x =? snd y) then 1 else 0) + count_pair x t end.
Definition own_key (s : sstate) (r : N) : N * N := (ygad r (slot_of s r), ypages (ysz r)).
(* unmapped exactly once when the last owner is gone, not before *)
Fixpoint unm_ok (s : sstate) (unm : list (N * N)) (n : nat) {struct n} : bool :=
  match n with
  | O => true
  | S k => let r := N.of_nat k in
           (if kind_of s r =? 2 then count_pair (own_key s r) unm =? (if reach_s s r then 0 else 1) else true)
           && unm_ok s unm k
  end.

Definition is_map (e : dev_ev) : bool := match e with DMap _ _ _ => true | _ => false end.
Definition unmaps_of (l : list dev_ev) : list (N * N) :=
  flat_map (fun e => match e with DUnmap i c => [(i, c)] | _ => [] end) l.
(* the key of some kind-2 region *)
Fixpoint is_own_key (s : sstate) (x : N * N) (n : nat) {struct n} : bool :=
  match n with
  | O => false
  | S k => let r := N.of_nat k in
           ((kind_of s r =? 2) && (fst x =? fst (own_key s r)) && (snd x =? snd (own_key s r))) || is_own_key s x k
  end.

(* the region an access goes to, if any *)
Definition target (s : sstate) (h : nat) (sel : N) : option N :=
  match k_get s h with
  | Some (SRegion r) => if sel =? 0 then Some r else None
  | Some (SMap rs) | Some (SSnap rs) => find (fun r => slot_of s r =? sel) rs
  | None => None end.

Definition access_evs_ok (s : sstate) (t : option N) (evs : list dev_ev) : bool :=
  match evs with
  | [] => true
  | [DMap g c i; DUnmap i' c'] =>
      match t with
      | Some r => (kind_of s r =? 3) && (i =? i') && (c =? c') && (g * 4096 =? i) && (0 <? c)
                  && (ygad r (slot_of s r) <=? i) && (i + c * 4096 <=? ygad r (slot_of s r) + ypages (ysz r) * 4096)
      | None => false end
  | _ => false end.

Definition yspec_op (s : ysstate) (o : ywop) (b : yobs) : option ysstate :=
  match o with
  | YW w =>
      match spec_op (ys_base s) w {| w_st := yo_st b; w_val := yo_val b; w_live := 0 |} with
      | Some s' =>
          let maps_ok :=
            match w with
            | WCreate 2 slot =>
                match filter is_map (yo_evs b) with
                | [DMap g c i] => let r := N.of_nat (nregs (ys_base s)) in
                                  (i =? ygad r slot) && (c =? ypages (ysz r)) && (g * 4096 =? i)
                | _ => false end
            | _ => match filter is_map (yo_evs b) with [] => true | _ => false end
            end in
          let um := unmaps_of (yo_evs b) in
          if maps_ok && forallb (fun x => is_own_key s' x (nregs s')) um
          then Some {| ys_base := s'; ys_unm := ys_unm s ++ um |} else None
      | None => None end
  | YWAccess h sel off len ak =>
      match k_get (ys_base s) h with
      | Some _ =>
          (* st 0: the harness made no library call (a guard asked of a map, a slot given with a region handle) *)
          if ((yo_st b =? 0) && (yo_val b =? 0) && match yo_evs b with [] => true | _ => false end)
             || (((yo_st b =? 1) || (yo_st b =? 2)) && (yo_val b <=? 1)
                 && access_evs_ok (ys_base s) (target (ys_base s) h sel) (yo_evs b))
          then Some {| ys_base := ys_base s; ys_unm := ys_unm s ++ unmaps_of (yo_evs b) |} else None
      | None => if (yo_st b =? 0) && (yo_val b =? 0) && match yo_evs b with [] => true | _ => false end
                then Some s else None
      end
  end.

Definition yspec_step (s : ysstate) (o : ywop) (b : yobs) : option ysstate :=
  match yspec_op s o b with
  | Some s' =>
      if (yo_live b =? exp_live (ys_base s')) && (yo_gnt b =? exp_gnt (ys_base s')) && (yo_stray b =? 0)
         && unm_ok (ys_base s') (ys_unm s') (nregs (ys_base s'))
      then Some s' else None
  | None => None end.
Fixpoint yok_from (s : ysstate) (ops : list ywop) (obs : list yobs) {struct ops} : bool :=
  match ops, obs with
  | [], [] => true
  | o :: ops', b :: obs' =>
      match yspec_step s o b with Some s' => yok_from s' ops' obs' | None => false end
  | _, _ => false
  end.
Definition ok_C12x (ops : list ywop) (obs : list yobs) : bool := yok_from ysinit ops obs.
