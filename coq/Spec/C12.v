(* C12 - a mapping lives exactly as long as something can still reach it.
   Executable checker written from the property text.  No reference counts here: a handle is the set
   of regions it can reach; after every operation of a history the set of regions whose memory is
   still mapped must be exactly
       { externally provided (raw) regions }  ∪  { regions reachable from some live handle }
   (mapped while any owner exists; unmapped when the last one is gone - a mapping that went away never
   comes back, so "exactly once" shows as the bit staying clear; raw mappings never unmapped).
   It also demands that every new handle reaches exactly the regions the operation names
   (insert: the old ones plus the inserted; remove: the old ones minus the removed, and the returned
   handle IS the removed region; clone / snapshot: the same ones).  Whether a layout is accepted
   (Ok / Err) is C10's business: both answers are accepted here, an Err must change nothing.
   Wire operations, three numbers each (code a b):
     0 Create kind=a slot=b | 1 Build handles packed in a (5 bits each), count b | 2 Insert map=a region=b
     3 Remove map=a, b = 2*slot + (1 if the size argument is wrong) | 4 Clone a | 5 Snapshot a | 6 Drop a
   Refusals and consumed arguments (added; the property: "creating and dropping regions and maps in any order neither
   leaks address space nor leaves a live handle pointing at unmapped memory"):
     7 CreateRefused variant=a slot=b: a creation the library is expected to refuse.  Variants 0-5 are refused before
       anything is mapped (file range past EOF, overflowing file range, MAP_FIXED anonymous / file, misaligned raw
       pointer through the builder / through build_raw): no region id; the observation's val is the number of
       STRAY mappings the call left behind (mappings of the request's backing file), which must be 0.  Variants 6-8: an
       anonymous / file / raw MmapRegion is built and handed to GuestRegionMmap::new with a guest base that
       overflows; `new` consumes it: the mapping gets the next region id, no handle reaches it, so it must be gone
       after the call - unless it is a raw (external) one, which must still be there.
       Whether the library refuses is C15's business: a request it accepts is dropped at once by the harness, and
       nothing may stay mapped either way.
     8 BuildMove: from_arc_regions / (b >= 16) from_regions over the handles THEMSELVES (packed in a, count b mod 16):
       the handles are consumed whether the answer is Ok or Err (from_regions needs every Arc unshared: if one is
       shared nothing happens, st 0)
     9 InsertMove map=a region=b: insert_region(the handle's Arc itself): handle b is consumed, Ok or Err
   Observation per operation: st (1 done, 2 the library returned Err, 0 not possible), val (bit set of
   the region ids reachable through the handle the operation returned - ids are read from the region
   BYTES), live (bit r set iff region r's memory is still mapped, from /proc/self/maps). *)
From VM Require Import Prelude.MachInt.
From Coq Require Import Sorting.Permutation.

Inductive wop := WCreate (kind slot : N) | WBuild (hs : list nat) | WInsert (hm hr : nat)
  | WRemove (hm : nat) (base size : N) | WCloneH (h : nat) | WSnap (hm : nat) | WDropH (h : nat) | WNop.
Record wobs := { w_st : N; w_val : N; w_live : N }.

Fixpoint mask_upto (n : nat) (p : N -> bool) {struct n} : N :=
  match n with
  | O => 0
  | S k => mask_upto k p + (if p (N.of_nat k) then 2 ^ N.of_nat k else 0)
  end.
Fixpoint mask_of (l : list N) {struct l} : N :=
  match l with [] => 0 | r :: t => N.lor (2 ^ r) (mask_of t) end.

Inductive shandle := SRegion (r : N) | SMap (rs : list N) | SSnap (rs : list N).
Definition regs_of (h : shandle) : list N := match h with SRegion r => [r] | SMap rs => rs | SSnap rs => rs end.

Record sstate := {
  k_kinds : list (N * N);                 (* (kind, slot) of region id = index *)
  k_hs : list (option shandle)
}.
Definition sinit : sstate := {| k_kinds := []; k_hs := [] |}.
Definition k_get (s : sstate) (i : nat) : option shandle :=
  match nth_error (k_hs s) i with Some (Some h) => Some h | _ => None end.
Definition kind_of (s : sstate) (r : N) : N := fst (nth (N.to_nat r) (k_kinds s) (0, 0)).
Definition slot_of (s : sstate) (r : N) : N := snd (nth (N.to_nat r) (k_kinds s) (0, 0)).
Definition reach (hs : list (option shandle)) (r : N) : bool :=
  existsb (fun o => match o with Some h => existsb (N.eqb r) (regs_of h) | None => false end) hs.
Definition expected_live (s : sstate) : N :=
  mask_upto (length (k_kinds s)) (fun r => if kind_of s r =? 2 then true else reach (k_hs s) r).

Fixpoint sset_nth {A} (l : list A) (i : nat) (v : A) {struct l} : list A :=
  match l, i with
  | [], _ => []
  | _ :: r, O => v :: r
  | x :: r, S j => x :: sset_nth r j v
  end.
Fixpoint remove_one (r : N) (l : list N) {struct l} : list N :=
  match l with [] => [] | x :: t => if x =? r then t else x :: remove_one r t end.
Fixpoint sregion_handles (s : sstate) (hs : list nat) {struct hs} : option (list N) :=
  match hs with
  | [] => Some []
  | h :: t => match k_get s h, sregion_handles s t with
              | Some (SRegion r), Some l => Some (r :: l)
              | _, _ => None end
  end.
Definition spush (s : sstate) (l : list shandle) : sstate :=
  {| k_kinds := k_kinds s; k_hs := k_hs s ++ map Some l |}.

Definition spec_op (s : sstate) (o : wop) (b : wobs) : option sstate :=
  let done := w_st b =? 1 in
  let failed := (w_st b =? 2) && (w_val b =? 0) in
  let refused := (w_st b =? 0) && (w_val b =? 0) in
  match o with
  | WCreate kind slot =>
      let r := N.of_nat (length (k_kinds s)) in
      if done && (w_val b =? 2 ^ r)
      then Some {| k_kinds := k_kinds s ++ [(kind, slot)]; k_hs := k_hs s ++ [Some (SRegion r)] |} else None
  | WBuild hs =>
      match sregion_handles s hs with
      | Some rs => if done && (w_val b =? mask_of rs) then Some (spush s [SMap rs])
                   else if failed then Some s else None
      | None => if refused then Some s else None end
  | WInsert hm hr =>
      match k_get s hm, k_get s hr with
      | Some (SMap rs), Some (SRegion r) =>
          if done && (w_val b =? mask_of (r :: rs)) then Some (spush s [SMap (r :: rs)])
          else if failed then Some s else None
      | _, _ => if refused then Some s else None end
  | WRemove hm base size =>
      match k_get s hm with
      | Some (SMap rs) =>
          if done then
            (* the returned handle must be THE region of this map that starts at base *)
            match find (fun r => (2 ^ r =? w_val b) && (slot_of s r * 65536 =? base)) rs with
            | Some r => Some (spush s [SMap (remove_one r rs); SRegion r])
            | None => None end
          else if failed then Some s else None
      | _ => if refused then Some s else None end
  | WCloneH h =>
      match k_get s h with
      | Some sh => if done && (w_val b =? mask_of (regs_of sh)) then Some (spush s [sh]) else None
      | None => if refused then Some s else None end
  | WSnap hm =>
      match k_get s hm with
      | Some (SMap rs) => if done && (w_val b =? mask_of rs) then Some (spush s [SSnap rs]) else None
      | _ => if refused then Some s else None end
  | WDropH h =>
      match k_get s h with
      | Some _ => if done && (w_val b =? 0) then Some {| k_kinds := k_kinds s; k_hs := sset_nth (k_hs s) h None |} else None
      | None => if refused then Some s else None end
  | WNop => if refused then Some s else None
  end.

Definition spec_step (s : sstate) (o : wop) (b : wobs) : option sstate :=
  match spec_op s o b with
  | Some s' => if w_live b =? expected_live s' then Some s' else None
  | None => None end.
Fixpoint ok_from (s : sstate) (ops : list wop) (obs : list wobs) {struct ops} : bool :=
  match ops, obs with
  | [], [] => true
  | o :: ops', b :: obs' =>
      match spec_step s o b with Some s' => ok_from s' ops' obs' | None => false end
  | _, _ => false
  end.
Definition ok_C12 (ops : list wop) (obs : list wobs) : bool := ok_from sinit ops obs.

(* ---- operations with refusals / consumed arguments (Spec/C12xen.v builds on [wop] above, which stays as it is) *)
Inductive wopr := WB (o : wop) | WCreateRefused (v slot : N) | WBuildMove (unwrap : bool) (hs : list nat)
  | WInsertMove (hm hr : nat).

Fixpoint skill (hs : list nat) (l : list (option shandle)) {struct hs} : list (option shandle) :=
  match hs with [] => l | h :: t => skill t (sset_nth l h None) end.
Fixpoint snodup (l : list nat) {struct l} : bool :=
  match l with [] => true | x :: t => negb (existsb (Nat.eqb x) t) && snodup t end.

Definition spec_opr (s : sstate) (o : wopr) (b : wobs) : option sstate :=
  let done := w_st b =? 1 in
  let failed := (w_st b =? 2) && (w_val b =? 0) in
  let refused := (w_st b =? 0) && (w_val b =? 0) in
  match o with
  | WB w => spec_op s w b
  | WCreateRefused v slot =>
      (* no handle comes out of it and no stray mapping is left (val = 0), whether the library refused (2) or the
         harness dropped what it got (1) *)
      if ((w_st b =? 1) || (w_st b =? 2)) && (w_val b =? 0) then
        if v <? 6 then Some s
        else Some {| k_kinds := k_kinds s ++ [((v - 6) mod 3, slot)]; k_hs := k_hs s |}
      else None
  | WBuildMove unwrap hs =>
      match sregion_handles s hs with
      | Some rs =>
          if snodup hs then
            if done && (w_val b =? mask_of rs)
            then Some {| k_kinds := k_kinds s; k_hs := skill hs (k_hs s) ++ [Some (SMap rs)] |}
            else if failed then Some {| k_kinds := k_kinds s; k_hs := skill hs (k_hs s) |}
            else if unwrap && refused then Some s           (* some Arc is shared: try_unwrap impossible, nothing happened *)
            else None
          else if refused then Some s else None
      | None => if refused then Some s else None end
  | WInsertMove hm hr =>
      match k_get s hm, k_get s hr with
      | Some (SMap rs), Some (SRegion r) =>
          if done && (w_val b =? mask_of (r :: rs))
          then Some {| k_kinds := k_kinds s; k_hs := sset_nth (k_hs s) hr None ++ [Some (SMap (r :: rs))] |}
          else if failed then Some {| k_kinds := k_kinds s; k_hs := sset_nth (k_hs s) hr None |}
          else None
      | _, _ => if refused then Some s else None end
  end.

Definition spec_stepr (s : sstate) (o : wopr) (b : wobs) : option sstate :=
  match spec_opr s o b with
  | Some s' => if w_live b =? expected_live s' then Some s' else None
  | None => None end.
Fixpoint ok_fromr (s : sstate) (ops : list wopr) (obs : list wobs) {struct ops} : bool :=
  match ops, obs with
  | [], [] => true
  | o :: ops', b :: obs' =>
      match spec_stepr s o b with Some s' => ok_fromr s' ops' obs' | None => false end
  | _, _ => false
  end.
(* the checker of suite C12: histories over the extended operations *)
Definition ok_C12r (ops : list wopr) (obs : list wobs) : bool := ok_fromr sinit ops obs.
