(* C12 - a mapping lives exactly as long as something can still reach it.
   Executable checker written from the property text.  No reference counts here: a handle is the set
   of regions it can reach; after every operation of a history the set of regions whose memory is
   still mapped must be exactly
       { externally provided (raw) regions }  ∪  { regions reachable from some live handle }
   (mapped while any owner exists; unmapped when the last one is gone - a mapping that went away never
   comes back, so "exactly once" shows as the bit staying clear; raw mappings never unmapped).
   It also demands that every new handle reaches exactly the regions the operation names
   (insert: the old ones plus the inserted; remove: the old ones minus the removed, and the returned
   handle IS the removed region; clone / snapshot: the same ones).  Whether a layout is accepted
   (Ok / Err) is C10's business: both answers are accepted here, an Err must change nothing.
   Wire operations, three numbers each (code a b):
     0 Create kind=a slot=b | 1 Build handles packed in a (5 bits each), count b | 2 Insert map=a region=b
     3 Remove map=a, b = 2*slot + (1 if the size argument is wrong) | 4 Clone a | 5 Snapshot a | 6 Drop a
   Observation per operation: st (1 done, 2 the library returned Err, 0 not possible), val (bit set of
   the region ids reachable through the handle the operation returned - ids are read from the region
   BYTES), live (bit r set iff region r's memory is still mapped, from /proc/self/maps). *)
From VM Require Import Prelude.MachInt.
From Coq Require Import Sorting.Permutation.

Inductive wop := WCreate (kind slot : N) | WBuild (hs : list nat) | WInsert (hm hr : nat)
  | WRemove (hm : nat) (base size : N) | WCloneH (h : nat) | WSnap (hm : nat) | WDropH (h : nat) | WNop.
Record wobs := { w_st : N; w_val : N; w_live : N }.

Fixpoint mask_upto (n : nat) (p : N -> bool) {struct n} : N :=
  match n with
  | O => 0
  | S k => mask_upto k p + (if p (N.of_nat k) then 2 ^ N.of_nat k else 0)
  end.
Fixpoint mask_of (l : list N) {struct l} : N :=
  match l with [] => 0 | r :: t => N.lor (2 ^ r) (mask_of t) end.

Inductive shandle := SRegion (r : N) | SMap (rs : list N) | SSnap (rs : list N).
Definition regs_of (h : shandle) : list N := match h with SRegion r => [r] | SMap rs => rs | SSnap rs => rs end.

Record sstate := {
  k_kinds : list (N * N);                 (* (kind, slot) of region id = index *)
  k_hs : list (option shandle)
}.
Definition sinit : sstate := {| k_kinds := []; k_hs := [] |}.
Definition k_get (s : sstate) (i : nat) : option shandle :=
  match nth_error (k_hs s) i with Some (Some h) => Some h | _ => None end.
Definition kind_of (s : sstate) (r : N) : N := fst (nth (N.to_nat r) (k_kinds s) (0, 0)).
Definition slot_of (s : sstate) (r : N) : N := snd (nth (N.to_nat r) (k_kinds s) (0, 0)).
Definition reach (hs : list (option shandle)) (r : N) : bool :=
  existsb (fun o => match o with Some h => existsb (N.eqb r) (regs_of h) | None => false end) hs.
Definition expected_live (s : sstate) : N :=
  mask_upto (length (k_kinds s)) (fun r => if kind_of s r =? 2 then true else reach (k_hs s) r).

Fixpoint sset_nth {A} (l : list A) (i : nat) (v : A) {struct l} : list A :=
  match l, i with
  | [], _ => []
  | _ :: r, O => v :: r
  | x :: r, S j => x :: sset_nth r j v
  end.
Fixpoint remove_one (r : N) (l : list N) {struct l} : list N :=
  match l with [] => [] | x :: t => if x =? r then t else x :: remove_one r t end.
Fixpoint sregion_handles (s : sstate) (hs : list nat) {struct hs} : option (list N) :=
  match hs with
  | [] => Some []
  | h :: t => match k_get s h, sregion_handles s t with
              | Some (SRegion r), Some l => Some (r :: l)
              | _, _ => None end
  end.
Definition spush (s : sstate) (l : list shandle) : sstate :=
  {| k_kinds := k_kinds s; k_hs := k_hs s ++ map Some l |}.

Definition spec_op (s : sstate) (o : wop) (b : wobs) : option sstate :=
  let done := w_st b =? 1 in
  let failed := (w_st b =? 2) && (w_val b =? 0) in
  let refused := (w_st b =? 0) && (w_val b =? 0) in
  match o with
  | WCreate kind slot =>
      let r := N.of_nat (length (k_kinds s)) in
      if done && (w_val b =? 2 ^ r)
      then Some {| k_kinds := k_kinds s ++ [(kind, slot)]; k_hs := k_hs s ++ [Some (SRegion r)] |} else None
  | WBuild hs =>
      match sregion_handles s hs with
      | Some rs => if done && (w_val b =? mask_of rs) then Some (spush s [SMap rs])
                   else if failed then Some s else None
      | None => if refused then Some s else None end
  | WInsert hm hr =>
      match k_get s hm, k_get s hr with
      | Some (SMap rs), Some (SRegion r) =>
          if done && (w_val b =? mask_of (r :: rs)) then Some (spush s [SMap (r :: rs)])
          else if failed then Some s else None
      | _, _ => if refused then Some s else None end
  | WRemove hm base size =>
      match k_get s hm with
      | Some (SMap rs) =>
          if done then
            (* the returned handle must be THE region of this map that starts at base *)
            match find (fun r => (2 ^ r =? w_val b) && (slot_of s r * 65536 =? base)) rs with
            | Some r => Some (spush s [SMap (remove_one r rs); SRegion r])
            | None => None end
          else if failed then Some s else None
      | _ => if refused then Some s else None end
  | WCloneH h =>
      match k_get s h with
      | Some sh => if done && (w_val b =? mask_of (regs_of sh)) then Some (spush s [sh]) else None
      | None => if refused then Some s else None end
  | WSnap hm =>
      match k_get s hm with
      | Some (SMap rs) => if done && (w_val b =? mask_of rs) then Some (spush s [SSnap rs]) else None
      | _ => if refused then Some s else None end
  | WDropH h =>
      match k_get s h with
      | Some _ => if done && (w_val b =? 0) then Some {| k_kinds := k_kinds s; k_hs := sset_nth (k_hs s) h None |} else None
      | None => if refused then Some s else None end
  | WNop => if refused then Some s else None
  end.

Definition spec_step (s : sstate) (o : wop) (b : wobs) : option sstate :=
  match spec_op s o b with
  | Some s' => if w_live b =? expected_live s' then Some s' else None
  | None => None end.
Fixpoint ok_from (s : sstate) (ops : list wop) (obs : list wobs) {struct ops} : bool :=
  match ops, obs with
  | [], [] => true
  | o :: ops', b :: obs' =>
      match spec_step s o b with Some s' => ok_from s' ops' obs' | None => false end
  | _, _ => false
  end.
Definition ok_C12 (ops : list wop) (obs : list wobs) : bool := ok_from sinit ops obs.
