(* C10 - Adding or removing a region yields a new valid map and leaves the old one intact.
   Case = a HISTORY of operations on a pool of region handles and a pool of maps; every object
   ever created stays alive.  Each operation allocates its result slots whether it succeeds or not
   (a failed creation leaves a dead slot), so slot numbers do not depend on outcomes.

   The checker ok_C10 is written from the property text only.  It replays the history on the
   REAL observations (it never computes what the library "would" return; it judges what it did
   return): documented error class or a new map that is sorted, pairwise disjoint and exactly the
   old set plus/minus the one region; region handles in maps are identified by slot id and must
   still describe the (start,len) they were created with; `intact` is the harness' verdict that
   every earlier map / removed handle still lists the same handles and reaches the same bytes. *)
From VM Require Import Prelude.MachInt Prelude.Outcome Prelude.Tok.

Record reg := { g_id : N; g_s : N; g_l : N }.        (* region handle: slot id, start, len *)
Definition reg_eqb (x y : reg) : bool := (g_id x =? g_id y) && (g_s x =? g_s y) && (g_l x =? g_l y).

Inductive op10 :=
  | ONew (base size : N)              (* GuestRegionMmap::new(MmapRegion::new(size)?, base): 1 region slot *)
  | OFromArc (ids : list N)           (* from_arc_regions(handles ids): 1 map slot *)
  | OFromRanges (l : list (N * N))    (* from_ranges(l) -> from_regions: |l| region slots, 1 map slot *)
  | OInsert (m r : N)                 (* maps[m].insert_region(regions[r]): 1 map slot *)
  | ORemove (m base size : N)         (* maps[m].remove_region(base,size): 1 map slot *)
  | OFind (m a : N)                   (* maps[m].find_region(a): no slot *)
  | ONewMap                           (* GuestMemoryMmap::new(): 1 map slot (empty map) *)
  (* the same two creations through the other public constructor routes (both build flavours):
     f = 0 no file, 1 a backing file mapped from offset 0, 2 a backing file mapped from offset 65536 *)
  | ONewVia (f base size : N)         (* GuestRegionMmap::from_range(base, size, file f): 1 region slot *)
  | OFromRangesF (l : list (N * N * N))  (* from_ranges_with_files([(start, len, file f)]): |l| region slots, 1 map slot *)
  (* objects going away: "the map it was derived from, and every snapshot or region handle obtained earlier, keeps
     describing and reaching the same memory" must hold when a LATER (or earlier) object is destroyed *)
  | ODropMap (m : N)                  (* drop(maps[m]): the slot is empty afterwards *)
  | ODropRemoved (k : N).             (* drop the k-th handle returned by remove_region (no-op if absent / gone) *)
Record case10 := { c_mode : mode; c_ops : list op10 }.

(* observation of one operation:
   code 0 = Ok, 1 InvalidGuestRegion, 2 MmapRegion(_), 3 NoMemoryRegion, 4 MemoryRegionOverlap,
        5 UnsortedMemoryRegions, 8 = an operand slot is dead / absent (nothing was called), 9 = panic
   regs: ONew [] ; map-producing ops: the regions of the new map in iteration order;
         ORemove: the removed handle followed by the regions of the new map; OFind: [] or [found] *)
Record obs10 := { o_code : N; o_intact : bool; o_regs : list reg }.

(* state rebuilt from the observations *)
Record st10 := { pool : list (option reg); maps : list (option (list reg)) }.
Definition st0 : st10 := {| pool := []; maps := [] |}.
Definition nlen {T} (l : list T) : N := N.of_nat (length l).
Definition get {T} (l : list (option T)) (i : N) : option T :=
  match nth_error l (N.to_nat i) with Some (Some x) => Some x | _ => None end.
Fixpoint get_all {T} (l : list (option T)) (ids : list N) : option (list T) :=
  match ids with
  | [] => Some []
  | i :: t => match get l i, get_all l t with Some x, Some r => Some (x :: r) | _, _ => None end
  end.

(* ---- the vocabulary of the property ---- *)
Definition overlap (x y : reg) : bool := (g_s x <? g_s y + g_l y) && (g_s y <? g_s x + g_l x).
Fixpoint strictly_sorted (L : list reg) : bool :=
  match L with x :: t => match t with y :: _ => (g_s x <? g_s y) && strictly_sorted t | [] => true end | [] => true end.
Fixpoint nondecreasing (L : list reg) : bool :=
  match L with x :: t => match t with y :: _ => (g_s x <=? g_s y) && nondecreasing t | [] => true end | [] => true end.
Fixpoint pairwise_disjoint (L : list reg) : bool :=
  match L with [] => true | x :: t => forallb (fun y => negb (overlap x y)) t && pairwise_disjoint t end.
Definition valid_map (L : list reg) : bool := strictly_sorted L && pairwise_disjoint L.
(* every handle of the map is a live handle of the pool and still describes what it was created with *)
Definition from_pool (p : list (option reg)) (L : list reg) : bool :=
  forallb (fun g => match get p (g_id g) with Some g' => reg_eqb g g' | None => false end) L.
Definition count_id (i : N) (L : list reg) : nat := length (filter (fun g => g_id g =? i) L).
(* the same multiset of handles *)
Definition same_handles (X Y : list reg) : bool :=
  forallb (fun g => Nat.eqb (count_id (g_id g) X) (count_id (g_id g) Y)) (X ++ Y).
Definition contains (g : reg) (a : N) : bool := (g_s g <=? a) && (a <? g_s g + g_l g).

Definition end_exceeds (s l : N) : bool := W64 <? s + l.       (* "end would exceed the address space" *)
(* creation is judged as refused-or-not only; s+l = 2^64 and l = 0 are left to the implementation
   (DESIGN section 8: the code also refuses the region ending exactly at 2^64) *)
Definition border (s l : N) : bool := (s + l =? W64) || (l =? 0).

(* judge a "build from this list" result: L = the handles handed in *)
Definition judge_build (p : list (option reg)) (L : list reg) (o : obs10) : bool :=
  match L with
  | [] => o_code o =? 3                                                      (* no regions *)
  | _ =>
    if strictly_sorted L && pairwise_disjoint L then
      (o_code o =? 0) && valid_map (o_regs o) && same_handles (o_regs o) L && from_pool p (o_regs o)
    else if nondecreasing L then o_code o =? 4          (* not unsorted, hence overlapping *)
    else if pairwise_disjoint L then o_code o =? 5      (* not overlapping, hence unsorted *)
    else (o_code o =? 4) || (o_code o =? 5)
  end.

Fixpoint mk_regs (id : N) (l : list (N * N)) {struct l} : list reg :=
  match l with [] => [] | (s, len) :: t => {| g_id := id; g_s := s; g_l := len |} :: mk_regs (id + 1) t end.
Definition dead {T} (n : nat) : list (option T) := repeat None n.

(* creation of one region handle, whatever the constructor route: judged as refused-or-not only
   (ok_new / ok_ranges are used by ok_step below, after it has looked at the `intact` verdict) *)
Definition ok_new (st : st10) (base size : N) (o : obs10) : option st10 :=
  let p := pool st in let ms := maps st in
  let refused_ok := if end_exceeds base size then negb (o_code o =? 0) else true in
  if refused_ok && ((o_code o =? 0) || (o_code o =? 1) || (o_code o =? 2)) then
    Some {| pool := p ++ [if o_code o =? 0 then Some {| g_id := nlen p; g_s := base; g_l := size |} else None];
            maps := ms |}
  else None.
(* a map built from (start, len) ranges, whatever the constructor route *)
Definition ok_ranges (st : st10) (l : list (N * N)) (o : obs10) : option st10 :=
  let p := pool st in let ms := maps st in
  let L := mk_regs (nlen p) l in
  let p_ok := p ++ map Some L in
  let p_no := p ++ dead (length l) in
  let refused := (o_code o =? 1) || (o_code o =? 2) in
  if existsb (fun sl => end_exceeds (fst sl) (snd sl)) l then
    if refused then Some {| pool := p_no; maps := ms ++ [None] |} else None
  else if existsb (fun sl => border (fst sl) (snd sl)) l && refused then
    Some {| pool := p_no; maps := ms ++ [None] |}
  else if judge_build p_ok L o then
    Some {| pool := if o_code o =? 0 then p_ok else p_no;
            maps := ms ++ [if o_code o =? 0 then Some (o_regs o) else None] |}
  else None.
Definition strip_files (l : list (N * N * N)) : list (N * N) := map fst l.

(* slot i emptied, every other slot as before *)
Fixpoint forget {T} (l : list (option T)) (i : nat) {struct l} : list (option T) :=
  match l, i with
  | [], _ => []
  | _ :: t, O => None :: t
  | x :: t, S k => x :: forget t k
  end.

(* one step: None = the observation is rejected; Some st' = accepted, continue with st' *)
Definition ok_step (st : st10) (op : op10) (o : obs10) : option st10 :=
  if negb (o_intact o) then None else
  let p := pool st in let ms := maps st in
  let newmap (b : bool) : option st10 :=
    if b then Some {| pool := p; maps := ms ++ [if o_code o =? 0 then Some (o_regs o) else None] |} else None in
  match op with
  | ONew base size =>
      let refused_ok := if end_exceeds base size then negb (o_code o =? 0) else true in
      if refused_ok && ((o_code o =? 0) || (o_code o =? 1) || (o_code o =? 2)) then
        Some {| pool := p ++ [if o_code o =? 0 then Some {| g_id := nlen p; g_s := base; g_l := size |} else None];
                maps := ms |}
      else None
  | OFromArc ids =>
      match get_all p ids with
      | None => newmap (o_code o =? 8)
      | Some L => newmap (judge_build p L o)
      end
  | OFromRanges l =>
      let L := mk_regs (nlen p) l in
      let p_ok := p ++ map Some L in
      let p_no := p ++ dead (length l) in
      let refused := (o_code o =? 1) || (o_code o =? 2) in
      if existsb (fun sl => end_exceeds (fst sl) (snd sl)) l then
        if refused then Some {| pool := p_no; maps := ms ++ [None] |} else None
      else if existsb (fun sl => border (fst sl) (snd sl)) l && refused then
        Some {| pool := p_no; maps := ms ++ [None] |}
      else if judge_build p_ok L o then
        Some {| pool := if o_code o =? 0 then p_ok else p_no;
                maps := ms ++ [if o_code o =? 0 then Some (o_regs o) else None] |}
      else None
  | OInsert m r =>
      match get ms m, get p r with
      | Some old, Some g =>
          if existsb (overlap g) old then newmap (o_code o =? 4)             (* overlapping: refused *)
          else newmap ((o_code o =? 0) && valid_map (o_regs o) && same_handles (o_regs o) (g :: old)
                       && from_pool p (o_regs o))
      | _, _ => newmap (o_code o =? 8)
      end
  | ORemove m base size =>
      match get ms m with
      | Some old =>
          match find (fun g => (g_s g =? base) && (g_l g =? size)) old with
          | Some g =>                                                        (* exact match: removed *)
              match o_regs o with
              | rem :: rest =>
                  if (o_code o =? 0) && reg_eqb rem g && valid_map rest && same_handles (rem :: rest) old
                     && from_pool p rest
                  then Some {| pool := p; maps := ms ++ [Some rest] |} else None
              | [] => None
              end
          | None => newmap (o_code o =? 1)                                   (* no exact match *)
          end
      | None => newmap (o_code o =? 8)
      end
  | OFind m a =>
      match get ms m with
      | Some old =>
          match find (fun g => contains g a) old, o_regs o with
          | Some g, [f] => if (o_code o =? 0) && reg_eqb f g then Some st else None
          | None, [] => if o_code o =? 0 then Some st else None
          | _, _ => None
          end
      | None => if o_code o =? 8 then Some st else None
      end
  | ONewMap =>
      match o_regs o with [] => newmap (o_code o =? 0) | _ => None end
  (* the property does not distinguish constructor routes: same judgement as ONew / OFromRanges *)
  | ONewVia _ base size => ok_new st base size o
  | OFromRangesF l => ok_ranges st (strip_files l) o
  (* destroying an object produces nothing and - this is the `intact` verdict looked at above - leaves every
     surviving map / handle describing and reaching the same memory; the destroyed map is not an operand any more *)
  | ODropMap m =>
      match get ms m, o_regs o with
      | Some _, [] => if o_code o =? 0 then Some {| pool := p; maps := forget ms (N.to_nat m) |} else None
      | None, [] => if o_code o =? 8 then Some st else None
      | _, _ => None
      end
  | ODropRemoved _ =>
      match o_regs o with [] => if o_code o =? 0 then Some st else None | _ => None end
  end.

Fixpoint ok_steps (st : st10) (ops : list op10) (obs : list obs10) {struct ops} : bool :=
  match ops, obs with
  | [], [] => true
  | op :: ops', o :: obs' => match ok_step st op o with Some st' => ok_steps st' ops' obs' | None => false end
  | _, _ => false
  end.
Definition ok_C10 (c : case10) (obs : list obs10) : bool := ok_steps st0 (c_ops c) obs.
