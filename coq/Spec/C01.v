(* C01 - every accessor handed out stays inside its parent memory and is aligned.

   The checker is written from the property text only.  A case is a root piece of volatile
   memory and a list of derivation requests; the observation lists, per request, what the real
   library answered and - independently of the model - WHERE the returned accessor points
   (offset of its pointer from the root's base, its byte length, its guard length, its element
   count).  The checker keeps the extent of the current accessor AS OBSERVED and demands, for
   every request answered with an accessor:
     (1) the request fits the current accessor (exact arithmetic, no wrap-around);
     (2) the observed bytes of the new accessor (and of its pointer guard) lie inside the
         current accessor;
     (3) a typed / atomic reference is aligned for its type.
   It demands nothing of a request answered with an error (over-rejection is not a C01 matter).

   Wire format (shared with harness/src/suites/c01.rs):
     case   mode rootkind base len [gbase0,size0,gbase1,size1,...] [code,ty,a,b]*
     obs    [class,off,len,glen,nelem,ridx]*          one per request
   class: 0 accessor, 1 OutOfBounds, 2 Overflow, 3 TooBig, 4 Misaligned, 5 panic,
          6 InvalidGuestAddress, 7 not applicable, 8 None, 9 InvalidBackendAddress, 10 other *)
From VM Require Import Prelude.MachInt Prelude.Outcome Prelude.Tok.

(* root kinds *)
Definition RK_REAL : N := 0.     (* VolatileSlice over a real buffer between guard pages *)
Definition RK_FAKE : N := 1.     (* VolatileSlice over a never-dereferenced address range *)
Definition RK_REGION : N := 2.   (* MmapRegion *)
Definition RK_GREGION : N := 3.  (* GuestRegionMmap *)
Definition RK_GMEM : N := 4.     (* GuestMemoryMmap *)

(* accessor kinds *)
Definition K_SLICE : N := 0.  Definition K_REF : N := 1.  Definition K_ARR : N := 2.
Definition K_TYPED : N := 3.  Definition K_ATOMIC : N := 4.  Definition K_HOST : N := 5.
Definition K_REGION : N := 6. Definition K_GREGION : N := 7. Definition K_GMEM : N := 8.

Record sop := { s_code : N; s_ty : N; s_a : N; s_b : N }.
Record sobs := { o_class : N; o_off : N; o_len : N; o_glen : N; o_nelem : N; o_ridx : N }.
Record case01 := { c_mode : mode; c_rootk : N; c_base : N; c_len : N;
                   c_regions : list (N * N);      (* (guest base, size) of each region *)
                   c_ops : list sop }.

(* size_of / align_of of the element types of the harness (x86-64, rustc >= 1.77):
   0 u8  1 u16  2 u32  3 u64  4 u128  5 [u8;0]  6 [u8;3]  7 Le32  8 Be64
   (for get_atomic_ref 0..3 stand for AtomicU8/U16/U32/U64, same size and alignment) *)
Definition ty_size (t : N) : N :=
  match t with 0 => 1 | 1 => 2 | 2 => 4 | 3 => 8 | 4 => 16 | 5 => 0 | 6 => 3 | 7 => 4 | 8 => 8 | _ => 1 end.
Definition ty_align (t : N) : N :=
  match t with 0 => 1 | 1 => 2 | 2 => 4 | 3 => 8 | 4 => 16 | 5 => 1 | 6 => 1 | 7 => 4 | 8 => 8 | _ => 1 end.
Definition ty_known (t : N) : bool := t <=? 8.

(* Host base address of region i of a mapped root.  The real address is chosen by the OS; it is
   page aligned, and the property depends on it only through its residue modulo the alignment
   of a type (<= 16), so a fixed page-aligned stand-in is used on the model/checker side. *)
Definition REG_BASE : N := 2 ^ 46.
Definition REG_STRIDE : N := 2 ^ 40.
Definition is_slice_root (k : N) : bool := (k =? RK_REAL) || (k =? RK_FAKE).
Definition root_base (c : case01) (ridx : N) : N :=
  if is_slice_root (c_rootk c) then c_base c else REG_BASE + ridx * REG_STRIDE.

(* GUARD_PANIC: the value of glen when ptr_guard() panicked *)
Definition GUARD_PANIC : N := W64.

(* what the checker knows about the current accessor: kind and OBSERVED extent *)
Record geom := { g_kind : N; g_ridx : N; g_off : N; g_len : N; g_esz : N; g_nelem : N }.

Definition root_geom (c : case01) : geom :=
  let k := c_rootk c in
  if is_slice_root k then {| g_kind := K_SLICE; g_ridx := 0; g_off := 0; g_len := c_len c; g_esz := 1; g_nelem := 0 |}
  else
    let sz := match c_regions c with (_, s) :: _ => s | [] => 0 end in
    {| g_kind := if k =? RK_REGION then K_REGION else if k =? RK_GREGION then K_GREGION else K_GMEM;
       g_ridx := 0; g_off := 0; g_len := sz; g_esz := 1; g_nelem := 0 |}.

Definition is_vm (k : N) : bool := (k =? K_SLICE) || (k =? K_REGION).

(* which kind of accessor request `code` yields when made on an accessor of kind k; None = no
   such method *)
Definition result_kind (k code : N) : option N :=
  match code with
  | 0 | 1 => if is_vm k then Some K_SLICE else None
  | 2 => if is_vm k then Some K_REF else None
  | 3 => if is_vm k then Some K_ARR else None
  | 4 | 5 => if is_vm k then Some K_TYPED else None
  | 6 => if is_vm k then Some K_ATOMIC else None
  | 7 | 8 | 9 | 10 => if k =? K_SLICE then Some K_SLICE else None
  | 11 => if k =? K_SLICE then Some K_ARR else None
  | 15 => if k =? K_SLICE then Some K_TYPED else None
  | 12 => if k =? K_REF then Some K_SLICE else None
  | 13 => if k =? K_ARR then Some K_REF else None
  | 14 => if k =? K_ARR then Some K_SLICE else None
  | 16 | 18 => if k =? K_GREGION then Some K_SLICE else None
  | 17 => if k =? K_GREGION then Some K_HOST else None
  | 19 => if k =? K_GMEM then Some K_SLICE else None
  | 20 => if k =? K_GMEM then Some K_HOST else None
  | _ => None
  end.

Definition aligned_at (addr al : N) : bool := addr mod al =? 0.

(* does guest address a (plus b bytes) lie in region (gb, sz)? *)
Definition in_region (a b : N) (r : N * N) : bool :=
  let '(gb, sz) := r in (gb <=? a) && (a - gb + b <=? sz).

(* "the request fits": exact arithmetic on the observed extent of the current accessor *)
Definition fitsb (c : case01) (g : geom) (o : sop) : bool :=
  let a := s_a o in let b := s_b o in let sz := ty_size (s_ty o) in
  let addr := root_base c (g_ridx g) + g_off g in
  match s_code o with
  | 0 | 8 | 16 => a + b <=? g_len g                      (* count bytes at offset *)
  | 1 | 11 | 12 | 14 | 18 => true                        (* the whole accessor again *)
  | 2 => a + sz <=? g_len g                              (* one T at offset *)
  | 3 => a + b * sz <=? g_len g                          (* n T at offset *)
  | 4 | 5 | 6 => (a + sz <=? g_len g) && aligned_at (addr + a) (ty_align (s_ty o))
  | 7 | 9 | 10 => a <=? g_len g                          (* split point inside [0, len] *)
  | 13 => a <? g_nelem g                                 (* element index *)
  | 15 => (a + b <=? g_len g) && (b =? sz) && aligned_at (addr + a) (ty_align (s_ty o))
  | 17 => a <? g_len g                                   (* a byte of the region *)
  | 19 => existsb (in_region a b) (c_regions c)
  | 20 => existsb (in_region a 1) (c_regions c)
  | _ => false
  end.

(* bytes designated by the answer: an array designates nelem elements; a guard that exists
   designates glen bytes as well *)
Definition obs_extent (rk : N) (o : sop) (ob : sobs) : N :=
  if rk =? K_ARR then o_nelem ob * (if s_code o =? 11 then 1 else ty_size (s_ty o)) else o_len ob.
Definition obs_reach (rk : N) (o : sop) (ob : sobs) : N :=
  let e := obs_extent rk o ob in
  if o_glen ob =? GUARD_PANIC then e else N.max e (o_glen ob).

Definition containedb (c : case01) (g : geom) (rk : N) (o : sop) (ob : sobs) : bool :=
  if g_kind g =? K_GMEM then
    match nth_error (c_regions c) (N.to_nat (o_ridx ob)) with
    | Some (_, sz) => o_off ob + obs_reach rk o ob <=? sz
    | None => false
    end
  else
    (o_ridx ob =? g_ridx g) && (g_off g <=? o_off ob) &&
    (o_off ob + obs_reach rk o ob <=? g_off g + g_len g).

Definition alignedb (c : case01) (rk : N) (o : sop) (ob : sobs) : bool :=
  if (rk =? K_TYPED) || (rk =? K_ATOMIC)
  then aligned_at (root_base c (o_ridx ob) + o_off ob) (ty_align (s_ty o))
  else true.

Definition step_ok (c : case01) (g : geom) (o : sop) (ob : sobs) : bool :=
  if o_class ob =? 0 then
    match result_kind (g_kind g) (s_code o) with
    | Some rk => fitsb c g o && containedb c g rk o ob && alignedb c rk o ob
    | None => false            (* an accessor from a method that does not exist *)
    end
  else true.

Definition step_geom (g : geom) (o : sop) (ob : sobs) : geom :=
  if o_class ob =? 0 then
    match result_kind (g_kind g) (s_code o) with
    | Some rk => {| g_kind := rk; g_ridx := o_ridx ob; g_off := o_off ob;
                    g_len := obs_extent rk o ob;
                    g_esz := if s_code o =? 11 then 1 else
                             if (s_code o =? 12) || (s_code o =? 13) || (s_code o =? 14) then g_esz g
                             else ty_size (s_ty o);
                    g_nelem := o_nelem ob |}
    | None => g
    end
  else g.

Fixpoint chain_ok (c : case01) (g : geom) (ops : list sop) (obs : list sobs) {struct ops} : bool :=
  match ops, obs with
  | [], [] => true
  | o :: ops', ob :: obs' => step_ok c g o ob && chain_ok c (step_geom g o ob) ops' obs'
  | _, _ => false              (* one answer per request *)
  end.

Definition ok_C01 (c : case01) (obs : list sobs) : bool := chain_ok c (root_geom c) (c_ops c) obs.
