(* C01 - every accessor handed out stays inside its parent memory and is aligned.

   The checker is written from the property text only.  A case is a root piece of volatile
   memory and a list of derivation requests; the observation lists, per request, what the real
   library answered and - independently of the model - WHERE the returned accessor points
   (offset of its pointer from the root's base, its byte length, its guard length, its element
   count).  The checker keeps the extent of the current accessor AS OBSERVED and demands, for
   every request answered with an accessor:
     (1) the request fits the current accessor (exact arithmetic, no wrap-around);
     (2) the observed bytes of the new accessor (and of its pointer guard) lie inside the
         current accessor;
     (3) a typed / atomic reference is aligned for its type.
   It demands nothing of a request answered with an error (over-rejection is not a C01 matter).

   Wire format (shared with harness/src/suites/c01.rs):
     case   mode rootkind base len [gbase0,size0,gbase1,size1,...] [code,ty,a,b]*
     obs    first_class [class,off,len,glen,nelem,ridx]*   one list per request
   class: 0 accessor, 1 OutOfBounds, 2 Overflow, 3 TooBig, 4 Misaligned, 5 panic,
          6 InvalidGuestAddress, 7 not applicable, 8 None, 9 InvalidBackendAddress, 10 other *)
From VM Require Import Prelude.MachInt Prelude.Outcome Prelude.Tok.

(* root kinds *)
Definition RK_REAL : N := 0.     (* VolatileSlice over a real buffer between guard pages *)
Definition RK_FAKE : N := 1.     (* VolatileSlice over a never-dereferenced address range *)
Definition RK_REGION : N := 2.   (* MmapRegion *)
Definition RK_GREGION : N := 3.  (* GuestRegionMmap *)
Definition RK_GMEM : N := 4.     (* GuestMemoryMmap *)

(* accessor kinds *)
Inductive kind := KSlice | KRef | KArr | KTyped | KAtomic | KHost | KRegion | KGRegion | KGMem.
Definition kind_eqb (x y : kind) : bool :=
  match x, y with
  | KSlice, KSlice | KRef, KRef | KArr, KArr | KTyped, KTyped | KAtomic, KAtomic | KHost, KHost
  | KRegion, KRegion | KGRegion, KGRegion | KGMem, KGMem => true
  | _, _ => false
  end.

(* requests; the number is the code on the wire *)
Inductive rq :=
| QGetSlice (* 0 *) | QAsVolatileSlice (* 1 *) | QGetRef (* 2 *) | QGetArrayRef (* 3 *)
| QAlignedAsRef (* 4 *) | QAlignedAsMut (* 5 *) | QGetAtomicRef (* 6 *)      (* trait VolatileMemory *)
| QOffset (* 7 *) | QSubslice (* 8 *) | QSplitLo (* 9 *) | QSplitHi (* 10 *) | QIntoArrayU8 (* 11 *)
| QRefToSlice (* 12 *) | QRefAt (* 13 *) | QArrToSlice (* 14 *) | QFromSlice (* 15 *)
| QGrGetSlice (* 16 *) | QGrHostAddr (* 17 *) | QGrAsSlice (* 18 *)         (* GuestRegionMmap *)
| QGmGetSlice (* 19 *) | QGmHostAddr (* 20 *).                              (* GuestMemoryMmap *)
Definition rq_of_code (n : N) : option rq :=
  match n with
  | 0 => Some QGetSlice | 1 => Some QAsVolatileSlice | 2 => Some QGetRef | 3 => Some QGetArrayRef
  | 4 => Some QAlignedAsRef | 5 => Some QAlignedAsMut | 6 => Some QGetAtomicRef | 7 => Some QOffset
  | 8 => Some QSubslice | 9 => Some QSplitLo | 10 => Some QSplitHi | 11 => Some QIntoArrayU8
  | 12 => Some QRefToSlice | 13 => Some QRefAt | 14 => Some QArrToSlice | 15 => Some QFromSlice
  | 16 => Some QGrGetSlice | 17 => Some QGrHostAddr | 18 => Some QGrAsSlice
  | 19 => Some QGmGetSlice | 20 => Some QGmHostAddr | _ => None
  end.

Record sop := { s_rq : rq; s_ty : N; s_a : N; s_b : N }.
Record sobs := { o_class : N; o_off : N; o_len : N; o_glen : N; o_nelem : N; o_ridx : N }.
Record case01 := { c_mode : mode; c_rootk : N; c_base : N; c_len : N;
                   c_regions : list (N * N);      (* (guest base, size) of each region *)
                   c_ops : list sop }.

(* size_of / align_of of the element types of the harness (x86-64, rustc >= 1.77):
   0 u8  1 u16  2 u32  3 u64  4 u128  5 [u8;0]  6 [u8;3]  7 Le32  8 Be64
   9 [u8;17]  10 [u8;24]  11 [u8;31]  12 [u8;32]  13 [u16;9]  14 [u32;5]  15 [u64;4]  16 [u64;32]
   17 [u32;2]  18 [u64;2]
   For get_atomic_ref the id names an ATOMIC type whose VALUE type is the one of the table:
   0..3 AtomicU8/U16/U32/U64 (same size and alignment as the value type), and two third-party
   AtomicInteger implementors of the harness whose value type is UNDER-aligned:
   17 Pair (8 bytes, alignment 8, value type [u32;2] of alignment 4),
   18 Quad (16 bytes, alignment 16, value type [u64;2] of alignment 8).
   ty_align is the alignment of the value type, aty_align the alignment of the atomic type: an
   atomic REFERENCE must be aligned for the atomic type. *)
Definition ty_size (t : N) : N :=
  match t with 0 => 1 | 1 => 2 | 2 => 4 | 3 => 8 | 4 => 16 | 5 => 0 | 6 => 3 | 7 => 4 | 8 => 8
             | 9 => 17 | 10 => 24 | 11 => 31 | 12 => 32 | 13 => 18 | 14 => 20 | 15 => 32 | 16 => 256
             | 17 => 8 | 18 => 16 | _ => 1 end.
Definition ty_align (t : N) : N :=
  match t with 0 => 1 | 1 => 2 | 2 => 4 | 3 => 8 | 4 => 16 | 5 => 1 | 6 => 1 | 7 => 4 | 8 => 8
             | 9 => 1 | 10 => 1 | 11 => 1 | 12 => 1 | 13 => 2 | 14 => 4 | 15 => 8 | 16 => 8
             | 17 => 4 | 18 => 8 | _ => 1 end.
Definition aty_align (t : N) : N :=
  if t =? 17 then 8 else if t =? 18 then 16 else ty_align t.
Definition ty_known (t : N) : bool := t <=? 18.
(* the alignment a reference produced by request q for type id t must have *)
Definition ref_align (q : rq) (t : N) : N :=
  match q with QGetAtomicRef => aty_align t | _ => ty_align t end.

(* Host base address of region i of a mapped root.  The real address is chosen by the OS; it is
   page aligned, and the property depends on it only through its residue modulo the alignment
   of a type (<= 16), so a fixed page-aligned stand-in is used on the model/checker side. *)
Definition REG_BASE : N := 2 ^ 46.
Definition REG_STRIDE : N := 2 ^ 40.
Definition is_slice_root (k : N) : bool := (k =? RK_REAL) || (k =? RK_FAKE).
Definition root_base (c : case01) (ridx : N) : N :=
  if is_slice_root (c_rootk c) then c_base c else REG_BASE + ridx * REG_STRIDE.

(* GUARD_PANIC: the value of glen when ptr_guard() panicked *)
Definition GUARD_PANIC : N := W64.

(* what the checker knows about the current accessor: kind and OBSERVED extent *)
Record geom := { g_kind : kind; g_ridx : N; g_off : N; g_len : N; g_esz : N; g_nelem : N }.

Definition root_geom (c : case01) : geom :=
  let k := c_rootk c in
  if is_slice_root k then {| g_kind := KSlice; g_ridx := 0; g_off := 0; g_len := c_len c; g_esz := 1; g_nelem := 0 |}
  else
    let sz := match c_regions c with (_, s) :: _ => s | [] => 0 end in
    {| g_kind := if k =? RK_REGION then KRegion else if k =? RK_GREGION then KGRegion else KGMem;
       g_ridx := 0; g_off := 0; g_len := sz; g_esz := 1; g_nelem := 0 |}.

Definition is_vm (k : kind) : bool := match k with KSlice | KRegion => true | _ => false end.

(* which kind of accessor a request yields when made on an accessor of kind k; None = no
   such method *)
Definition result_kind (k : kind) (q : rq) : option kind :=
  match q with
  | QGetSlice | QAsVolatileSlice => if is_vm k then Some KSlice else None
  | QGetRef => if is_vm k then Some KRef else None
  | QGetArrayRef => if is_vm k then Some KArr else None
  | QAlignedAsRef | QAlignedAsMut => if is_vm k then Some KTyped else None
  | QGetAtomicRef => if is_vm k then Some KAtomic else None
  | QOffset | QSubslice | QSplitLo | QSplitHi => match k with KSlice => Some KSlice | _ => None end
  | QIntoArrayU8 => match k with KSlice => Some KArr | _ => None end
  | QFromSlice => match k with KSlice => Some KTyped | _ => None end
  | QRefToSlice => match k with KRef => Some KSlice | _ => None end
  | QRefAt => match k with KArr => Some KRef | _ => None end
  | QArrToSlice => match k with KArr => Some KSlice | _ => None end
  | QGrGetSlice | QGrAsSlice => match k with KGRegion => Some KSlice | _ => None end
  | QGrHostAddr => match k with KGRegion => Some KHost | _ => None end
  | QGmGetSlice => match k with KGMem => Some KSlice | _ => None end
  | QGmHostAddr => match k with KGMem => Some KHost | _ => None end
  end.

Definition aligned_at (addr al : N) : bool := addr mod al =? 0.

(* does guest address a (plus b bytes) lie in region (gb, sz)? *)
Definition in_region (a b : N) (r : N * N) : bool :=
  let '(gb, sz) := r in (gb <=? a) && (a - gb + b <=? sz).

(* "the request fits": exact arithmetic on the observed extent of the current accessor *)
Definition fitsb (c : case01) (g : geom) (o : sop) : bool :=
  let a := s_a o in let b := s_b o in let sz := ty_size (s_ty o) in
  let addr := root_base c (g_ridx g) + g_off g in
  match s_rq o with
  | QGetSlice | QSubslice | QGrGetSlice => a + b <=? g_len g          (* count bytes at offset *)
  | QAsVolatileSlice | QIntoArrayU8 | QRefToSlice | QArrToSlice | QGrAsSlice => true   (* the whole accessor again *)
  | QGetRef => a + sz <=? g_len g                                     (* one T at offset *)
  | QGetArrayRef => a + b * sz <=? g_len g                            (* n T at offset *)
  | QAlignedAsRef | QAlignedAsMut | QGetAtomicRef =>
      (a + sz <=? g_len g) && aligned_at (addr + a) (ref_align (s_rq o) (s_ty o))
  | QOffset | QSplitLo | QSplitHi => a <=? g_len g                    (* split point in [0, len] *)
  | QRefAt => a <? g_nelem g                                          (* element index *)
  | QFromSlice => (a + b <=? g_len g) && (b =? sz) && aligned_at (addr + a) (ty_align (s_ty o))
  | QGrHostAddr => a <? g_len g                                       (* a byte of the region *)
  | QGmGetSlice => existsb (in_region a b) (c_regions c)
  | QGmHostAddr => existsb (in_region a 1) (c_regions c)
  end.

(* bytes designated by the answer: an array designates nelem elements; a guard that exists
   designates glen bytes as well *)
Definition elem_size (o : sop) : N := match s_rq o with QIntoArrayU8 => 1 | _ => ty_size (s_ty o) end.
Definition obs_extent (rk : kind) (o : sop) (ob : sobs) : N :=
  match rk with KArr => o_nelem ob * elem_size o | _ => o_len ob end.
Definition obs_reach (rk : kind) (o : sop) (ob : sobs) : N :=
  let e := obs_extent rk o ob in
  if o_glen ob =? GUARD_PANIC then e else N.max e (o_glen ob).

(* i-th region; structural recursion on the list, so that an absurd index taken from a trace
   token costs nothing (no conversion of a token to a unary nat anywhere in this file) *)
Fixpoint nth_region (l : list (N * N)) (i : N) {struct l} : option (N * N) :=
  match l with
  | [] => None
  | x :: r => if i =? 0 then Some x else nth_region r (i - 1)
  end.

Definition containedb (c : case01) (g : geom) (rk : kind) (o : sop) (ob : sobs) : bool :=
  if kind_eqb (g_kind g) KGMem then
    match nth_region (c_regions c) (o_ridx ob) with
    | Some (_, sz) => o_off ob + obs_reach rk o ob <=? sz
    | None => false
    end
  else
    (o_ridx ob =? g_ridx g) && (g_off g <=? o_off ob) &&
    (o_off ob + obs_reach rk o ob <=? g_off g + g_len g).

Definition alignedb (c : case01) (rk : kind) (o : sop) (ob : sobs) : bool :=
  if kind_eqb rk KTyped || kind_eqb rk KAtomic
  then aligned_at (root_base c (o_ridx ob) + o_off ob) (ref_align (s_rq o) (s_ty o))
  else true.

Definition step_ok (c : case01) (g : geom) (o : sop) (ob : sobs) : bool :=
  if o_class ob =? 0 then
    match result_kind (g_kind g) (s_rq o) with
    | Some rk => fitsb c g o && containedb c g rk o ob && alignedb c rk o ob
    | None => false            (* an accessor from a method that does not exist *)
    end
  else true.

Definition step_geom (g : geom) (o : sop) (ob : sobs) : geom :=
  if o_class ob =? 0 then
    match result_kind (g_kind g) (s_rq o) with
    | Some rk => {| g_kind := rk; g_ridx := o_ridx ob; g_off := o_off ob;
                    g_len := obs_extent rk o ob;
                    g_esz := match s_rq o with
                             | QRefToSlice | QRefAt | QArrToSlice => g_esz g
                             | _ => elem_size o end;
                    g_nelem := o_nelem ob |}
    | None => g
    end
  else g.

Fixpoint chain_ok (c : case01) (g : geom) (ops : list sop) (obs : list sobs) {struct ops} : bool :=
  match ops, obs with
  | [], [] => true
  | o :: ops', ob :: obs' => step_ok c g o ob && chain_ok c (step_geom g o ob) ops' obs'
  | _, _ => false              (* one answer per request *)
  end.

Definition ok_C01 (c : case01) (obs : list sobs) : bool := chain_ok c (root_geom c) (c_ops c) obs.

(* what the checker's verdict says about an observation, as a Prop: every answer that is an
   accessor comes from an existing method and the bytes it is observed to designate end within
   the first L bytes of the root *)
Definition obs_inside_root (L : N) (k : kind) (o : sop) (ob : sobs) : Prop :=
  o_class ob = 0 ->
  exists rk, result_kind k (s_rq o) = Some rk /\ o_off ob + obs_reach rk o ob <= L.

Fixpoint all_inside (L : N) (g : geom) (ops : list sop) (obs : list sobs) {struct ops} : Prop :=
  match ops, obs with
  | o :: ops', ob :: obs' => obs_inside_root L (g_kind g) o ob /\ all_inside L (step_geom g o ob) ops' obs'
  | _, _ => True
  end.

(* ================================================================== Prop reading
   The same notions on the model's accessor records (Impl/Volatile.v supplies only the record
   types here), in unbounded arithmetic; the theorems of Properties/C01.v are stated with
   these, not with the boolean checker. *)
From VM Require Import Impl.Volatile.

(* requests of trait VolatileMemory on a piece of memory at host address A, L bytes long *)
Definition fits_vm (A L : N) (op : dop) : Prop :=
  match op with
  | DGetSlice off cnt => off + cnt <= L
  | DAsVolatileSlice => True
  | DGetRef T off => off + e_size T <= L
  | DGetArrayRef T off n =>
      (* the n elements lie in the memory; objects of 2^63 bytes or more, and element counts
         above isize::MAX (possible for zero-sized T only), are refused by design *)
      off + n * e_size T <= L /\ n <= ISZ_MAX /\ n * e_size T <= ISZ_MAX
  | DAlignedAsRef T off | DAlignedAsMut T off | DGetAtomicRef T off =>
      off + e_size T <= L /\ (A + off) mod e_align T = 0
  | _ => False
  end.

(* "the request fits the accessor" *)
Definition fits (p : accessor) (op : dop) : Prop :=
  match p with
  | ASlice s =>
      match op with
      | DOffset c => c <= vs_size s
      | DSubslice off cnt => off + cnt <= vs_size s
      | DSplitAtLo mid | DSplitAtHi mid => mid <= vs_size s
      | DIntoArrayU8 => True
      | DFromSlice T off cnt =>
          (* the byte range is in the slice (the caller's part), it is exactly one T, T is not
             zero-sized (from_slice answers None for zero-sized types), and it is aligned *)
          (off + cnt <= vs_size s /\ cnt <= ISZ_MAX) /\ cnt = e_size T /\ e_size T <> 0 /\
          (vs_addr s + off) mod e_align T = 0
      | _ => fits_vm (vs_addr s) (vs_size s) op
      end
  | ARegion r => fits_vm (rg_addr r) (rg_size r) op
  | ARef _ => match op with DRefToSlice => True | _ => False end
  | AArr a => match op with DRefAt i => i < va_nelem a | DArrToSlice => True | _ => False end
  | AGRegion g =>
      match op with
      | DGrGetSlice off cnt => off + cnt <= rg_size (gr_map g)
      | DGrGetHostAddress a => a < rg_size (gr_map g)
      | DGrAsVolatileSlice => True
      | _ => False
      end
  | ATyped _ | AAtomic _ | AHost _ => False
  end.

(* the accessor a fitting request designates *)
Definition child_vm (A L : N) (op : dop) : accessor :=
  match op with
  | DGetSlice off cnt => ASlice (VS (A + off) cnt)
  | DGetRef T off => ARef (VR (A + off) (e_size T))
  | DGetArrayRef T off n => AArr (VA (A + off) n (e_size T))
  | DAlignedAsRef T off | DAlignedAsMut T off => ATyped (TR (A + off) (e_size T) (e_align T))
  | DGetAtomicRef T off => AAtomic (TR (A + off) (e_size T) (e_align T))
  | _ => ASlice (VS A L)
  end.
Definition child (p : accessor) (op : dop) : accessor :=
  match p with
  | ASlice s =>
      match op with
      | DOffset c => ASlice (VS (vs_addr s + c) (vs_size s - c))
      | DSubslice off cnt => ASlice (VS (vs_addr s + off) cnt)
      | DSplitAtLo mid => ASlice (VS (vs_addr s) mid)
      | DSplitAtHi mid => ASlice (VS (vs_addr s + mid) (vs_size s - mid))
      | DIntoArrayU8 => AArr (VA (vs_addr s) (vs_size s) 1)
      | DFromSlice T off cnt => ATyped (TR (vs_addr s + off) (e_size T) (e_align T))
      | _ => child_vm (vs_addr s) (vs_size s) op
      end
  | ARegion r => child_vm (rg_addr r) (rg_size r) op
  | ARef r => ASlice (VS (vr_addr r) (vr_esz r))
  | AArr a =>
      match op with
      | DRefAt i => ARef (VR (va_addr a + va_esz a * i) (va_esz a))
      | _ => ASlice (VS (va_addr a) (va_nelem a * va_esz a))
      end
  | AGRegion g =>
      match op with
      | DGrGetSlice off cnt => ASlice (VS (rg_addr (gr_map g) + off) cnt)
      | DGrGetHostAddress a => AHost (rg_addr (gr_map g) + a)
      | _ => ASlice (VS (rg_addr (gr_map g)) (rg_size (gr_map g)))
      end
  | _ => p
  end.

(* the alignments the requests name are powers of two (align_of::<T>() always is) *)
Definition op_wf (op : dop) : Prop :=
  match op with
  | DAlignedAsRef T _ | DAlignedAsMut T _ | DGetAtomicRef T _ | DFromSlice T _ _ =>
      exists k, e_align T = 2 ^ k
  | _ => True
  end.

(* alignment demanded of an accessor: typed and atomic references *)
Definition acc_aligned (a : accessor) : Prop :=
  match a with
  | ATyped t | AAtomic t => tr_addr t mod tr_align t = 0
  | _ => True
  end.
(* a valid piece of host memory: an address range below the top of the address space, no
   longer than isize::MAX (no Rust object is; it is part of the contract of the unsafe constructors) *)
Definition acc_valid (a : accessor) : Prop := acc_base a + acc_len a < W64 /\ acc_len a <= ISZ_MAX.
