(* C15 - region construction accepts exactly the safe requests and builds what was asked.
   The checker is written from the property text.  It decides, from the request alone, the list of
   reasons for which the request is unsafe/inconsistent; a request with a reason must fail with (one
   of) the matching error class(es) and leave nothing mapped; a request with no reason must yield a
   region reporting the requested size / protection / flags / file / offset (and the hugetlbfs label
   given to the builder, which never makes a request safe or unsafe) - unless the operating
   system itself refuses the mapping (observed by an independent probe of the harness), in which
   case it must fail and leave nothing mapped.  A shared file-backed region must show byte
   offset+i of the file as its byte i, both directions.

   Reading (documented in the manifest): for an externally supplied pointer the library maps
   nothing; flags and file are descriptive there, and only the alignment of the pointer is judged. *)
From VM Require Import Prelude.MachInt Prelude.Outcome Prelude.Tok.

(* kinds: 0 MmapRegionBuilder (file?, raw?)   1 MmapRegion::new(size)   2 MmapRegion::from_file
          3 MmapRegion::build(file?, size, prot, flags)   4 MmapRegion::build_raw
          5 GuestRegionMmap::from_range(base, size, file?) ; kinds 0-4 optionally wrapped in
          GuestRegionMmap::new(region, base) *)
Record case15 := {
  c_mode : mode; c_kind : N; c_size : N; c_prot : N; c_flags : N;
  c_file : option (N * N);      (* (length of the backing file, requested start offset) *)
  c_raw : option N;             (* pointer, relative to a page-aligned base *)
  c_base : option N;            (* guest base address *)
  c_page : N; c_cohere : bool;
  c_huge : N }.                 (* builder only: the hugetlbfs hint, 0 not given, 1 with_hugetlbfs(false), 2 (true) *)

(* result code: 0 = Ok, otherwise the error class
   1 InvalidOffsetLength 2 InvalidPointer 3 MapFixed 4 MappingPastEof 5 Mmap 6 InvalidGuestRegion
   7 InvalidFileOffset 8 MappedInAdvance 9 MmapFlags 10 UnexpectedError, 99 = panicked *)
Record obs15 := {
  o_probe : N;                  (* independent mmap probe: 0 refused, 1 succeeded, 2 not performed *)
  o_res : N; o_size : N; o_prot : N; o_flags : N; o_hasfile : bool; o_start : N; o_samefd : bool;
  o_owned : bool; o_ptr : N; o_pos : N;
  o_d1 : N;                     (* bytes mapped while the region lives, minus before *)
  o_d2 : N;                     (* bytes mapped after failure / after dropping the region, minus before *)
  o_coh1 : N; o_coh2 : N;       (* file->region, region->file: 1 equal, 0 different, 2 not tested *)
  o_huge : N }.                 (* is_hugetlbfs() of the region: 0 None, 1 Some(false), 2 Some(true) *)

Definition hasbit (f b : N) : bool := negb (N.land f b =? 0).
Definition explicit_flags (c : case15) : bool := (c_kind c =? 0) || (c_kind c =? 3) || (c_kind c =? 4).

(* the unsafe / inconsistent requests named by the property, as error classes *)
Definition reasons (c : case15) : list N :=
  match c_raw c with
  | Some a => if a mod c_page c =? 0 then [] else [2]                (* misaligned external pointer *)
  | None =>
      (if explicit_flags c && hasbit (c_flags c) 16 then [3] else []) ++        (* MAP_FIXED *)
      match c_file c with
      | Some (flen, start) =>
          if W64 <=? start + c_size c then [1]                       (* file range overflows *)
          else if flen <? start + c_size c then [4] else []          (* extends past EOF *)
      | None => [] end
  end ++
  match c_base c with
  | Some b => if W64 <=? b + c_size c then [6] else []               (* beyond the address space *)
  | None => [] end.

Definition mem (x : N) (l : list N) : bool := existsb (N.eqb x) l.
Definition doc_shared (c : case15) : bool := (c_kind c =? 2) || (c_kind c =? 5).

Definition ok_C15 (c : case15) (o : obs15) : bool :=
  let rs := reasons c in
  let os_refuses := match c_raw c with Some _ => false | None => o_probe o =? 0 end in
  match rs with
  | _ :: _ =>
      negb (o_res o =? 0) && (mem (o_res o) rs || (os_refuses && (o_res o =? 5))) && (o_d2 o =? 0)
  | [] =>
      if os_refuses then (o_res o =? 5) && (o_d2 o =? 0)
      else
        (o_res o =? 0) && (o_size o =? c_size c) &&
        (if explicit_flags c then (o_prot o =? c_prot c) && (o_flags o =? c_flags c) else true) &&
        match c_file c with
        | Some (_, start) => o_hasfile o && (o_start o =? start) && o_samefd o
        | None => negb (o_hasfile o) end &&
        (* "builds what was asked": the region carries the hugetlbfs label of the request (a label only: it
           is not among the reasons, a request is exactly as safe with it as without) *)
        (o_huge o =? c_huge c) &&
        (* a file-backed (not MAP_ANONYMOUS = 32) mapping that is shared - requested with MAP_SHARED (= 1), or
           made by from_file / from_range(file), documented as "a shared file mapping" - is coherent with
           the file in both directions, whenever that was examined *)
        (if c_cohere c && o_hasfile o && (doc_shared c || hasbit (o_flags o) 1) && negb (hasbit (o_flags o) 32) &&
            negb (o_coh1 o =? 2)
         then (o_coh1 o =? 1) && (o_coh2 o =? 1) else true)
  end.

(* ------------------------------------------------------------------ Xen build *)
(* MmapRegion::from_range(MmapRange{size, file?, prot?, flags?, addr, mmap_flags, mmap_data}) then
   optionally GuestRegionMmap::new(region, base).  cx_ioctl: does the (emulated) hypervisor
   interface accept requests. *)
Record case15x := {
  cx_mode : mode; cx_size : N; cx_file : option (N * N); cx_prot : option N; cx_flags : option N;
  cx_addr : N; cx_mflags : N; cx_mdata : N; cx_base : option N; cx_page : N; cx_ioctl : bool }.
(* device events: 1 gref count index (map) | 2 index count (unmap) | 3 count ok (privcmd batch) *)
Record obs15x := {
  ox_probe : N; ox_res : N; ox_size : N; ox_prot : N; ox_flags : N; ox_hasfile : bool; ox_start : N;
  ox_samefd : bool; ox_xflags : N; ox_xdata : N; ox_ptrnull : bool; ox_pos : N; ox_d1 : N; ox_d2 : N;
  ox_evs : list N; ox_live : N }.

(* mapping types: 0 plain unix, 1 foreign, 2 grant, 0xA grant mapped on demand; every other word is
   unknown (bits outside 0xB) or contradictory (foreign+grant, on-demand without grant) *)
Definition xen_type_ok (w : N) : bool := mem w [0; 1; 2; 10].

Definition reasons_x (c : case15x) : list N :=
  (match cx_flags c with Some f => if hasbit f 16 then [3] else [] | None => [] end) ++
  (if xen_type_ok (cx_mflags c) then
     if cx_mflags c =? 0 then
       match cx_file c with
       | Some (flen, start) =>
           if W64 <=? start + cx_size c then [1] else if flen <? start + cx_size c then [4] else []
       | None => [] end
     else
       match cx_file c with
       | None => [7]                                           (* missing backing file *)
       | Some (_, start) => if start =? 0 then [] else [1; 7]  (* non-zero file offset *)
       end
   else [9]) ++
  match cx_base c with
  | Some b => if W64 <=? b + cx_size c then [6] else []
  | None => [] end.

Definition ok_C15x (c : case15x) (o : obs15x) : bool :=
  let rs := reasons_x c in
  let uses_ioctl := (cx_mflags c =? 1) || (cx_mflags c =? 2) in
  let os_refuses := (ox_probe o =? 0) || (uses_ioctl && negb (cx_ioctl c)) in
  match rs with
  | _ :: _ =>
      negb (ox_res o =? 0) && (mem (ox_res o) rs || (os_refuses && (ox_res o =? 5))) && (ox_d2 o =? 0)
      && (ox_live o =? 0)     (* nothing left behind: no memory mapping and no grant mapping in the device *)
  | [] =>
      if os_refuses then (ox_res o =? 5) && (ox_d2 o =? 0) && (ox_live o =? 0)
      else
        (ox_res o =? 0) && (ox_size o =? cx_size c) &&
        (match cx_prot c with Some p => ox_prot o =? p | None => true end) &&
        (match cx_flags c with Some f => ox_flags o =? f | None => true end) &&
        match cx_file c with
        | Some (_, start) => ox_hasfile o && (ox_start o =? start) && ox_samefd o
        | None => negb (ox_hasfile o) end &&
        (ox_xflags o =? cx_mflags c) && (ox_xdata o =? cx_mdata c) &&
        (ox_d2 o =? 0) && (ox_live o =? 0)      (* dropping the region releases everything *)
  end.
