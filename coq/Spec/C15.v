(* C15 - region construction accepts exactly the safe requests and builds what was asked.
   The checker is written from the property text.  It decides, from the request alone, the list of
   reasons for which the request is unsafe/inconsistent; a request with a reason must fail with (one
   of) the matching error class(es) and leave nothing mapped; a request with no reason must yield a
   region reporting the requested size / protection / flags / file / offset - unless the operating
   system itself refuses the mapping (observed by an independent probe of the harness), in which
   case it must fail and leave nothing mapped.  A shared file-backed region must show byte
   offset+i of the file as its byte i, both directions.

   Reading (documented in the manifest): for an externally supplied pointer the library maps
   nothing; flags and file are descriptive there, and only the alignment of the pointer is judged. *)
From VM Require Import Prelude.MachInt Prelude.Outcome Prelude.Tok.

(* kinds: 0 MmapRegionBuilder (file?, raw?)   1 MmapRegion::new(size)   2 MmapRegion::from_file
          3 MmapRegion::build(file?, size, prot, flags)   4 MmapRegion::build_raw
          5 GuestRegionMmap::from_range(base, size, file?) ; kinds 0-4 optionally wrapped in
          GuestRegionMmap::new(region, base) *)
Record case15 := {
  c_mode : mode; c_kind : N; c_size : N; c_prot : N; c_flags : N;
  c_file : option (N * N);      (* (length of the backing file, requested start offset) *)
  c_raw : option N;             (* pointer, relative to a page-aligned base *)
  c_base : option N;            (* guest base address *)
  c_page : N; c_cohere : bool }.

(* result code: 0 = Ok, otherwise the error class
   1 InvalidOffsetLength 2 InvalidPointer 3 MapFixed 4 MappingPastEof 5 Mmap 6 InvalidGuestRegion
   7 InvalidFileOffset 8 MappedInAdvance 9 MmapFlags 10 UnexpectedError, 99 = panicked *)
Record obs15 := {
  o_probe : N;                  (* independent mmap probe: 0 refused, 1 succeeded, 2 not performed *)
  o_res : N; o_size : N; o_prot : N; o_flags : N; o_hasfile : bool; o_start : N; o_samefd : bool;
  o_owned : bool; o_ptr : N; o_pos : N;
  o_d1 : N;                     (* bytes mapped while the region lives, minus before *)
  o_d2 : N;                     (* bytes mapped after failure / after dropping the region, minus before *)
  o_coh1 : N; o_coh2 : N }.     (* file->region, region->file: 1 equal, 0 different, 2 not tested *)

Definition hasbit (f b : N) : bool := negb (N.land f b =? 0).
Definition explicit_flags (c : case15) : bool := (c_kind c =? 0) || (c_kind c =? 3) || (c_kind c =? 4).

(* the unsafe / inconsistent requests named by the property, as error classes *)
Definition reasons (c : case15) : list N :=
  match c_raw c with
  | Some a => if a mod c_page c =? 0 then [] else [2]                (* misaligned external pointer *)
  | None =>
      (if explicit_flags c && hasbit (c_flags c) 16 then [3] else []) ++        (* MAP_FIXED *)
      match c_file c with
      | Some (flen, start) =>
          if W64 <=? start + c_size c then [1]                       (* file range overflows *)
          else if flen <? start + c_size c then [4] else []          (* extends past EOF *)
      | None => [] end
  end ++
  match c_base c with
  | Some b => if W64 <=? b + c_size c then [6] else []               (* beyond the address space *)
  | None => [] end.

Definition mem (x : N) (l : list N) : bool := existsb (N.eqb x) l.

Definition ok_C15 (c : case15) (o : obs15) : bool :=
  let rs := reasons c in
  let os_refuses := match c_raw c with Some _ => false | None => o_probe o =? 0 end in
  match rs with
  | _ :: _ =>
      negb (o_res o =? 0) && (mem (o_res o) rs || (os_refuses && (o_res o =? 5))) && (o_d2 o =? 0)
  | [] =>
      if os_refuses then (o_res o =? 5) && (o_d2 o =? 0)
      else
        (o_res o =? 0) && (o_size o =? c_size c) &&
        (if explicit_flags c then (o_prot o =? c_prot c) && (o_flags o =? c_flags c) else true) &&
        match c_file c with
        | Some (_, start) => o_hasfile o && (o_start o =? start) && o_samefd o
        | None => negb (o_hasfile o) end &&
        (* shared (MAP_SHARED = 1) file-backed (not MAP_ANONYMOUS = 32) mapping: coherent with the file whenever it was examined *)
        (if c_cohere c && o_hasfile o && hasbit (o_flags o) 1 && negb (hasbit (o_flags o) 32) && negb (o_coh1 o =? 2)
         then (o_coh1 o =? 1) && (o_coh2 o =? 1) else true)
  end.
