(* C17 - pointer guards span their accessor; on-demand mappings cover every access and are released.
   Checkers written from the property text, in exact arithmetic. *)
From VM Require Import Prelude.MachInt Prelude.Outcome Prelude.Tok.

(* ------------------------------------------------------------------ standard build: guards *)
(* accessor kinds: 0 slice of `count` bytes, 1 typed reference to a T of `tsize` bytes,
   2 array of `count` elements of `tsize` bytes; at byte offset `off` of its parent *)
Record case17 := { c_mode : mode; c_kind : N; c_tsize : N; c_count : N; c_off : N; c_mut : bool;
                   c_route : N }.
(* res: 1 = guard obtained, 2 = panicked, 0 = the accessor could not be derived from its parent *)
Record obs17 := { o_res : N; o_len : N; o_ptr : N }.

(* the number of bytes the accessor covers *)
Definition covers (c : case17) : N :=
  match c_kind c with 0 => c_count c | 1 => c_tsize c | _ => c_count c * c_tsize c end.

Definition ok_C17 (c : case17) (o : obs17) : bool :=
  if covers c <? W64 then
    match o_res o with
    | 1 => (o_len o =? covers c) && (o_ptr o =? c_off c)     (* length in bytes, points at the first byte *)
    | 0 => true                                              (* no accessor, no guard: nothing to judge *)
    | _ => false
    end
  else true.   (* an "accessor" longer than the address space is not an accessor *)

(* ------------------------------------------------------------------ xen build: histories *)
(* region kinds: 0 unix (anonymous), 1 foreign, 2 grant mapped in advance, 3 grant on demand *)
(* operations (opcode, off, a, b, c):
   0 write len=a   1 read len=a   2 slice guard len=a mut=b (all bytes accessed through it)
   3 ref store tsize=a   4 ref load   5 array store tsize=a n=b i=c   6 array load
   7 array copy_from tsize=a n=b k=c   8 array copy_to   9 atomic load tsize=a
   10 copy_to_volatile_slice len=a   11 read_volatile_from count=a srclen=b   12 write_volatile_to count=a
   13 slice copy_from len=a tsize=b k=c   14 slice copy_to len=a tsize=b k=c
   descriptor streams (the other end is a File, the transfer a read(2)/write(2) on the guest memory):
   15 read_volatile_from count=a, the file holds b bytes   16 read_exact_volatile_from count=a, the file holds a+b bytes
   17 write_volatile_to count=a into a file                18 write_all_volatile_to count=a into a file *)
Record xopc := { x_code : N; x_off : N; x_a : N; x_b : N; x_c : N }.
Record case17x := { cx_mode : mode; cx_rkind : N; cx_size : N; cx_gbase : N; cx_page : N;
                    cx_ops : list xopc }.
(* device events seen by the emulated gntdev during one operation *)
Inductive dev_ev := DMap (gref count index : N) | DUnmap (index count : N)
  | DRefs (l : list (N * N)).   (* follows its DMap: the (domid, grant reference) of every page the request named *)
(* r: 0 returned Err, 1 done, 2 panicked, 3 the process died (signal), 4 the kernel refused the guest buffer of
   a descriptor transfer with EFAULT: at the time of the read(2)/write(2) no mapping covered the bytes;
   data = 1 iff the backing memory (read back through the device file) and the returned bytes are
   what a flat byte array would give;  live = windows still mapped according to the device *)
Record opobs := { p_r : N; p_data : N; p_live : N; p_evs : list dev_ev }.
Record obs17x := { ox_built : N; ox_ops : list opobs;
                   ox_mapped_alive : N;   (* bytes of the device file mapped after the history *)
                   ox_mapped_end : N; ox_live_end : N }.   (* after dropping the region *)

(* the bytes an operation touches: (first, count), region-relative, from the meaning of the op *)
Definition touched (size : N) (op : xopc) : option (N * N) :=
  let off := x_off op in let a := x_a op in let b := x_b op in let c := x_c op in
  match x_code op with
  | 0 | 1 => if (a =? 0) || (size <=? off) then None else Some (off, N.min a (size - off))
  | 2 | 10 => if off + a <=? size then Some (off, a) else None
  | 3 | 4 | 9 => if off + a <=? size then Some (off, a) else None
  | 5 | 6 => if (off + b * a <=? size) && (c <? b) then Some (off + c * a, a) else None
  | 7 | 8 => if off + b * a <=? size then Some (off, N.min c b * a) else None
  | 11 => if size <? off then None else Some (off, N.min (N.min (size - off) a) b)
  | 12 => if size <? off then None else Some (off, N.min (size - off) a)
  | 13 | 14 => if off + a <=? size
               then Some (off, if b =? 1 then N.min c a else N.min c (a / b) * b) else None
  | 15 => if size <? off then None else Some (off, N.min (N.min (size - off) a) b)
  | 17 => if size <? off then None else Some (off, N.min (size - off) a)
  | 16 | 18 => if (a =? 0) || negb (off + a <=? size) then None else Some (off, a)
  | _ => None
  end.

(* some window of the operation covers guest bytes [gbase+first, gbase+first+count) *)
Definition covered (ps gbase : N) (evs : list dev_ev) (t : N * N) : bool :=
  existsb (fun e => match e with
                    | DMap gref count _ =>
                        (gref * ps <=? gbase + fst t) && (gbase + fst t + snd t <=? (gref + count) * ps)
                    | _ => false end) evs.

Definition op_ok (c : case17x) (op : xopc) (o : opobs) : bool :=
  match p_r o with
  | 3 | 4 => false                                          (* the access faulted / fell outside any mapping *)
  | 2 => match touched (cx_size c) op with                  (* a panic: only outside C17 (zero bytes: C18) *)
         | Some (_, 0) => true | None => true | _ => false end
  | _ =>
      (p_data o =? 1) &&
      (if cx_rkind c =? 3 then
         (p_live o =? 0) &&                                 (* released when the access completes *)
         match touched (cx_size c) op with
         | Some (f, n) => if (0 <? n) && (p_r o =? 1)
                          then covered (cx_page c) (cx_gbase c) (p_evs o) (f, n) else true
         | None => true end
       else true)
  end.

Fixpoint ops_ok (c : case17x) (ops : list xopc) (os : list opobs) {struct ops} : bool :=
  match ops, os with
  | [], [] => true
  | op :: r, o :: r' => op_ok c op o && ops_ok c r r'
  | _, _ => false
  end.

Definition ok_C17x (c : case17x) (o : obs17x) : bool :=
  if ox_built o =? 1 then
    ops_ok c (cx_ops c) (ox_ops o) &&
    (if cx_rkind c =? 3 then ox_mapped_alive o =? 0 else true) &&   (* none remains *)
    (ox_mapped_end o =? 0) && (ox_live_end o =? 0)
  else true.   (* the region could not be constructed (C15's domain): no access to judge *)

(* ------------------------------------------------------------------ xen build: the pages a window NAMES
   "a temporary mapping that covers all bytes it touches": page i of the window mapped by a request for (first, count)
   shows guest page first + i only if the request names it so: its reference list has to be
   (domid of the region, first + i) for i < count.  The regions of the cases are built with a non-zero domid: *)
Definition case_domid (gbase page : N) : N := (gbase / page) mod 5 + 1.
Fixpoint refs_seq (domid first : N) (l : list (N * N)) {struct l} : bool :=
  match l with
  | [] => true
  | (d, r) :: t => (d =? domid) && (r =? first) && refs_seq domid (first + 1) t
  end.
(* every map request of the log is followed by its reference list, and that list is right *)
Fixpoint maps_named (domid : N) (evs : list dev_ev) {struct evs} : bool :=
  match evs with
  | [] => true
  | DMap g c _ :: r =>
      match r with
      | DRefs l :: r' => (N.of_nat (length l) =? c) && refs_seq domid g l && maps_named domid r'
      | _ => false
      end
  | _ :: r => maps_named domid r
  end.
Definition strip_refs (evs : list dev_ev) : list dev_ev :=
  filter (fun e => match e with DRefs _ => false | _ => true end) evs.
Definition strip_op (p : opobs) : opobs :=
  {| p_r := p_r p; p_data := p_data p; p_live := p_live p; p_evs := strip_refs (p_evs p) |}.
Definition strip_obs (o : obs17x) : obs17x :=
  {| ox_built := ox_built o; ox_ops := map strip_op (ox_ops o); ox_mapped_alive := ox_mapped_alive o;
     ox_mapped_end := ox_mapped_end o; ox_live_end := ox_live_end o |}.
(* the history checker, plus: every window names the pages it is judged to cover *)
Definition ok_C17xn (c : case17x) (o : obs17x) : bool :=
  ok_C17x c (strip_obs o) &&
  forallb (fun p => maps_named (case_domid (cx_gbase c) (cx_page c)) (p_evs p)) (ox_ops o).

(* ------------------------------------------------------------------ xen build: derivation chains (suite C17xenchain)
   A case: a region, an accessor obtained from it (root), a chain of derivations - each hands out a new accessor
   from the last one -, and ONE access through the last accessor.  "every access the library performs takes place
   inside a temporary mapping that covers all bytes it touches": whichever way the accessor was reached.
   Written from the documented meaning of the methods, in exact arithmetic.
   root  [code,a,b,c]: 0 region.get_slice(a, b) (VolatileMemory)  1 region.get_slice(MemoryRegionAddress(a), b)
                       2 region.as_volatile_slice() (GuestMemoryRegion)  3 region.get_ref::<[u8; b]>(a)
                       4 region.get_array_ref::<[u8; b]>(a, c)   5 VolatileMemory::as_volatile_slice(&MmapRegion)
   step  [code,a,b,c]: on a slice: 0 subslice(a, b)  1 offset(a)  2 split_at(a).0  3 split_at(a).1  4 get_slice(a, b)
                       5 get_ref::<[u8; b]>(a)  6 get_array_ref::<[u8; b]>(a, c)  7 as_volatile_slice()
                       8 VolatileArrayRef::<u8>::from(slice)
                       on every accessor: 9 Clone::clone  10 a Copy (let x = *&acc)
                       on a typed reference and on an array: 11 to_slice()      on an array: 12 ref_at(a)
   final [code,a,b,c]: 0 ptr_guard, every byte read through it   1 ptr_guard_mut, every byte written through it
                       2 slice: Bytes::read of a buffer as long as the slice at 0; reference: load()
                       3 slice: Bytes::write ...; reference: store(v)
                       4 array: load(a)   5 array: store(a, v) *)
Record cstep := { k_code : N; k_a : N; k_b : N; k_c : N }.
Record case17c := { cc_mode : mode; cc_rkind : N; cc_size : N; cc_gbase : N; cc_page : N;
                    cc_root : cstep; cc_steps : list cstep; cc_final : cstep }.

(* an accessor as the documentation describes it: the bytes it designates *)
Inductive sacc := SS (off len : N) | SR (off t : N) | SA (off t n : N).

(* None: the request is refused (out of range) or is not defined (panics, not a method of this accessor) *)
Definition s_root (size : N) (k : cstep) : option sacc :=
  let a := k_a k in let b := k_b k in let c := k_c k in
  match k_code k with
  | 0 | 1 => if a + b <=? size then Some (SS a b) else None
  | 2 | 5 => Some (SS 0 size)
  | 3 => if a + b <=? size then Some (SR a b) else None
  | 4 => if a + c * b <=? size then Some (SA a b c) else None
  | _ => None
  end.
Definition s_step (x : sacc) (k : cstep) : option sacc :=
  let a := k_a k in let b := k_b k in let c := k_c k in
  match x, k_code k with
  | SS off len, 0 | SS off len, 4 => if a + b <=? len then Some (SS (off + a) b) else None
  | SS off len, 1 | SS off len, 3 => if a <=? len then Some (SS (off + a) (len - a)) else None
  | SS off len, 2 => if a <=? len then Some (SS off a) else None
  | SS off len, 5 => if a + b <=? len then Some (SR (off + a) b) else None
  | SS off len, 6 => if a + c * b <=? len then Some (SA (off + a) b c) else None
  | SS off len, 7 => Some x
  | SS off len, 8 => Some (SA off 1 len)
  | _, 9 | _, 10 => Some x
  | SR off t, 11 => Some (SS off t)
  | SA off t n, 11 => Some (SS off (n * t))
  | SA off t n, 12 => if a <? n then Some (SR (off + a * t) t) else None
  | _, _ => None
  end.
Fixpoint s_steps (x : sacc) (l : list cstep) {struct l} : option sacc :=
  match l with
  | [] => Some x
  | k :: r => match s_step x k with Some y => s_steps y r | None => None end
  end.
(* the bytes the final access touches (first, count) and whether it writes *)
Definition s_final (x : sacc) (k : cstep) : option (N * N * bool) :=
  match x, k_code k with
  | SS off len, 0 | SS off len, 2 => Some (off, len, false)
  | SS off len, 1 | SS off len, 3 => Some (off, len, true)
  | SR off t, 0 | SR off t, 2 => Some (off, t, false)
  | SR off t, 1 | SR off t, 3 => Some (off, t, true)
  | SA off t n, 0 => Some (off, n * t, false)
  | SA off t n, 1 => Some (off, n * t, true)
  | SA off t n, 4 => if k_a k <? n then Some (off + k_a k * t, t, false) else None
  | SA off t n, 5 => if k_a k <? n then Some (off + k_a k * t, t, true) else None
  | _, _ => None
  end.
Definition s_touched (c : case17c) : option (N * N * bool) :=
  match s_root (cc_size c) (cc_root c) with
  | Some x => match s_steps x (cc_steps c) with Some y => s_final y (cc_final c) | None => None end
  | None => None
  end.

(* the access, as an operation of the history checker: opcode 2 = "all bytes [off, off+a) accessed through one
   guard"; no access (refused / undefined): an operation that touches nothing *)
Definition chain_xopc (c : case17c) : xopc :=
  match s_touched c with
  | Some (off, len, w) => {| x_code := 2; x_off := off; x_a := len; x_b := if w then 1 else 0; x_c := 0 |}
  | None => {| x_code := 2; x_off := cc_size c + 1; x_a := 0; x_b := 0; x_c := 0 |}
  end.
Definition case17x_of (c : case17c) : case17x :=
  {| cx_mode := cc_mode c; cx_rkind := cc_rkind c; cx_size := cc_size c; cx_gbase := cc_gbase c;
     cx_page := cc_page c; cx_ops := [chain_xopc c] |}.
(* judged exactly like the one-operation history: not faulted, data right, on an on-demand region a window of the
   operation covers the bytes, released afterwards, nothing remains *)
Definition ok_C17c (c : case17c) (o : obs17x) : bool := ok_C17xn (case17x_of c) o.
