(* C17 - pointer guards span their accessor; on-demand mappings cover every access and are released.
   Checkers written from the property text, in exact arithmetic. *)
From VM Require Import Prelude.MachInt Prelude.Outcome Prelude.Tok.

(* ------------------------------------------------------------------ standard build: guards *)
(* accessor kinds: 0 slice of `count` bytes, 1 typed reference to a T of `tsize` bytes,
   2 array of `count` elements of `tsize` bytes; at byte offset `off` of its parent *)
Record case17 := { c_mode : mode; c_kind : N; c_tsize : N; c_count : N; c_off : N; c_mut : bool;
                   c_route : N }.
(* res: 1 = guard obtained, 2 = panicked, 0 = the accessor could not be derived from its parent *)
Record obs17 := { o_res : N; o_len : N; o_ptr : N }.

(* the number of bytes the accessor covers *)
Definition covers (c : case17) : N :=
  match c_kind c with 0 => c_count c | 1 => c_tsize c | _ => c_count c * c_tsize c end.

Definition ok_C17 (c : case17) (o : obs17) : bool :=
  if covers c <? W64 then
    match o_res o with
    | 1 => (o_len o =? covers c) && (o_ptr o =? c_off c)     (* length in bytes, points at the first byte *)
    | 0 => true                                              (* no accessor, no guard: nothing to judge *)
    | _ => false
    end
  else true.   (* an "accessor" longer than the address space is not an accessor *)

(* ------------------------------------------------------------------ xen build: histories *)
(* region kinds: 0 unix (anonymous), 1 foreign, 2 grant mapped in advance, 3 grant on demand *)
(* operations (opcode, off, a, b, c):
   0 write len=a   1 read len=a   2 slice guard len=a mut=b (all bytes accessed through it)
   3 ref store tsize=a   4 ref load   5 array store tsize=a n=b i=c   6 array load
   7 array copy_from tsize=a n=b k=c   8 array copy_to   9 atomic load tsize=a
   10 copy_to_volatile_slice len=a   11 read_volatile_from count=a srclen=b   12 write_volatile_to count=a
   13 slice copy_from len=a tsize=b k=c   14 slice copy_to len=a tsize=b k=c
   descriptor streams (the other end is a File, the transfer a read(2)/write(2) on the guest memory):
   15 read_volatile_from count=a, the file holds b bytes   16 read_exact_volatile_from count=a, the file holds a+b bytes
   17 write_volatile_to count=a into a file                18 write_all_volatile_to count=a into a file *)
Record xopc := { x_code : N; x_off : N; x_a : N; x_b : N; x_c : N }.
Record case17x := { cx_mode : mode; cx_rkind : N; cx_size : N; cx_gbase : N; cx_page : N;
                    cx_ops : list xopc }.
(* device events seen by the emulated gntdev during one operation *)
Inductive dev_ev := DMap (gref count index : N) | DUnmap (index count : N).
(* r: 0 returned Err, 1 done, 2 panicked, 3 the process died (signal), 4 the kernel refused the guest buffer of
   a descriptor transfer with EFAULT: at the time of the read(2)/write(2) no mapping covered the bytes;
   data = 1 iff the backing memory (read back through the device file) and the returned bytes are
   what a flat byte array would give;  live = windows still mapped according to the device *)
Record opobs := { p_r : N; p_data : N; p_live : N; p_evs : list dev_ev }.
Record obs17x := { ox_built : N; ox_ops : list opobs;
                   ox_mapped_alive : N;   (* bytes of the device file mapped after the history *)
                   ox_mapped_end : N; ox_live_end : N }.   (* after dropping the region *)

(* the bytes an operation touches: (first, count), region-relative, from the meaning of the op *)
Definition touched (size : N) (op : xopc) : option (N * N) :=
  let off := x_off op in let a := x_a op in let b := x_b op in let c := x_c op in
  match x_code op with
  | 0 | 1 => if (a =? 0) || (size <=? off) then None else Some (off, N.min a (size - off))
  | 2 | 10 => if off + a <=? size then Some (off, a) else None
  | 3 | 4 | 9 => if off + a <=? size then Some (off, a) else None
  | 5 | 6 => if (off + b * a <=? size) && (c <? b) then Some (off + c * a, a) else None
  | 7 | 8 => if off + b * a <=? size then Some (off, N.min c b * a) else None
  | 11 => if size <? off then None else Some (off, N.min (N.min (size - off) a) b)
  | 12 => if size <? off then None else Some (off, N.min (size - off) a)
  | 13 | 14 => if off + a <=? size
               then Some (off, if b =? 1 then N.min c a else N.min c (a / b) * b) else None
  | 15 => if size <? off then None else Some (off, N.min (N.min (size - off) a) b)
  | 17 => if size <? off then None else Some (off, N.min (size - off) a)
  | 16 | 18 => if (a =? 0) || negb (off + a <=? size) then None else Some (off, a)
  | _ => None
  end.

(* some window of the operation covers guest bytes [gbase+first, gbase+first+count) *)
Definition covered (ps gbase : N) (evs : list dev_ev) (t : N * N) : bool :=
  existsb (fun e => match e with
                    | DMap gref count _ =>
                        (gref * ps <=? gbase + fst t) && (gbase + fst t + snd t <=? (gref + count) * ps)
                    | _ => false end) evs.

Definition op_ok (c : case17x) (op : xopc) (o : opobs) : bool :=
  match p_r o with
  | 3 | 4 => false                                          (* the access faulted / fell outside any mapping *)
  | 2 => match touched (cx_size c) op with                  (* a panic: only outside C17 (zero bytes: C18) *)
         | Some (_, 0) => true | None => true | _ => false end
  | _ =>
      (p_data o =? 1) &&
      (if cx_rkind c =? 3 then
         (p_live o =? 0) &&                                 (* released when the access completes *)
         match touched (cx_size c) op with
         | Some (f, n) => if (0 <? n) && (p_r o =? 1)
                          then covered (cx_page c) (cx_gbase c) (p_evs o) (f, n) else true
         | None => true end
       else true)
  end.

Fixpoint ops_ok (c : case17x) (ops : list xopc) (os : list opobs) {struct ops} : bool :=
  match ops, os with
  | [], [] => true
  | op :: r, o :: r' => op_ok c op o && ops_ok c r r'
  | _, _ => false
  end.

Definition ok_C17x (c : case17x) (o : obs17x) : bool :=
  if ox_built o =? 1 then
    ops_ok c (cx_ops c) (ox_ops o) &&
    (if cx_rkind c =? 3 then ox_mapped_alive o =? 0 else true) &&   (* none remains *)
    (ox_mapped_end o =? 0) && (ox_live_end o =? 0)
  else true.   (* the region could not be constructed (C15's domain): no access to judge *)
