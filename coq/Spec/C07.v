(* C07 - guest-controlled addresses, offsets, lengths and counts can never crash the monitor.
   The checker is written from the property text only and needs nothing from the model: a case is
   ONE call of a public access / query entry point with guest-chosen numbers; the observation is
   the CLASS of what the call did:
       0  returned a success value (Ok / Some / () / a bool / a number)
       1  returned an error value  (Err / None)
       2  panicked (caught by catch_unwind)
   (abort, SIGSEGV and non-termination kill the harness process: the runner reports those as
    CRASH lines, which are spec failures by construction.)
   Every call must return (0 or 1).  The only panics the property allows are the documented ones
   that depend on program logic and not on guest data: indexing an element array with
   index >= element count (ref_at / load / store of VolatileArrayRef), and checked_align_up with
   an alignment that is not a power of two. *)
From VM Require Import Prelude.MachInt Prelude.Outcome.

(* case: build profile, target kind + parameters, operation code, element type code, up to three
   numeric arguments, and a list argument (stream script).  Codes: see Suite/C07.v. *)
Record case07 := { q_mode : mode; q_tgt : N; q_par : list N; q_op : N; q_ty : N;
                   q_a : N; q_b : N; q_c : N; q_x : list N }.

Definition OP_ARR_REF_AT : N := 8.     (* get_array_ref::<T>(a, b) then ref_at(c) *)
Definition OP_ARR_LOAD : N := 11.      (* the same, then load(c) *)
Definition OP_ARR_STORE : N := 12.     (* the same, then store(c, v) *)
Definition OP_ALIGN_UP : N := 60.      (* GuestAddress(a).checked_align_up(b) *)

Definition is_pow2 (p : N) : bool :=
  match p with 0 => false | Npos _ => N.land p (p - 1) =? 0 end.

(* the documented panics: the case itself says whether the call is one of them *)
Definition documented (c : case07) : bool :=
  if (q_op c =? OP_ARR_REF_AT) || (q_op c =? OP_ARR_LOAD) || (q_op c =? OP_ARR_STORE)
  then q_b c <=? q_c c                          (* index c >= element count b *)
  else if q_op c =? OP_ALIGN_UP then negb (is_pow2 (q_b c))
  else false.

Definition ok_C07 (c : case07) (o : N) : bool :=
  (o =? 0) || (o =? 1) || ((o =? 2) && documented c).
