(* C13 - volatile stream adapters transfer data exactly like their std::io counterparts.
   The checker is written from the property text: for every operation of a history it takes the
   stream state OBSERVED before the operation, computes what the documented std operation
   (Impl/Std.v, tied to the installed std by the twin runs) does with an ordinary buffer of the same
   length, and demands: same result (count / Ok / UnexpectedEof / WriteZero), same bytes moved, same
   stream state afterwards (not judged after a FAILED exact transfer, where std leaves it
   unspecified - DESIGN section 8), nothing touched outside the buffer.  Independently it compares the
   adapter's observations with those made on the REAL std twin stream, up to the twin's first failed
   exact transfer. *)
From VM Require Import Prelude.MachInt Prelude.Outcome Prelude.Tok Prelude.C1314List Impl.Io Impl.Std.

Record case13 := { c_mode : mode; c_kind : skind; c_init : sstate; c_ops : list op13 }.
(* per operation: what was seen on the vm-memory adapter (a_ fields) and on the std twin (t_ fields) *)
Record opobs := {
  a_rc : N * N; a_buf : list N; a_margins : bool; a_data : list N; a_pos : N; a_out : list N;
  t_rc : N * N; t_buf : list N; t_data : list N; t_pos : N; t_out : list N }.

Definition rc_eqb (x y : N * N) : bool := (fst x =? fst y) && (snd x =? snd y).
Definition rc_success (x : N * N) : bool := (fst x =? 0) || (fst x =? 1) || (fst x =? 9).

(* how a stream state shows in an observation: byte queues (pipe, socket) only show the number of
   bytes still queued; everything else shows contents and position *)
Definition state_of_obs (k : skind) (content d : list N) (p : N) : sstate :=
  match k with
  | KQueue => {| s_data := ndrop (nlen content - p) content; s_pos := 0; s_out := [] |}
  | _ => {| s_data := d; s_pos := p; s_out := [] |}
  end.
Definition state_matches (k : skind) (st : sstate) (d : list N) (p : N) : bool :=
  match k with
  | KQueue => (nlen (s_data st) =? p)
  | _ => list_eqb (s_data st) d && (s_pos st =? p)
  end.
Definition op_buf (o : op13) : list N :=
  match o with ORead b | OReadExact b | OWrite b | OWriteAll b => b | OSetPos _ => [] end.
Definition is_read (o : op13) : bool := match o with ORead _ | OReadExact _ => true | _ => false end.

Definition ok_step (k : skind) (content : list N) (st : sstate) (o : op13) (ob : opobs) : bool :=
  a_margins ob                                               (* never touches memory beyond the buffer *)
  && (nlen (a_buf ob) =? nlen (op_buf o))
  && match std_step k st o with
     | Val (ost, bs, rc) =>
         rc_eqb rc (a_rc ob)                                 (* same count / same success / same error kind *)
         && (if rc_success rc then
               list_eqb bs (ntake (nlen bs) (a_buf ob))     (* same bytes moved *)
               && match ost with
                  | Some st' => state_matches k st' (a_data ob) (a_pos ob)    (* same position / contents *)
                                && list_eqb (s_out st') (a_out ob)
                  | None => true
                  end
             else true)
     | _ => false
     end.

Fixpoint ok_steps (k : skind) (content : list N) (st : sstate) (ops : list op13) (obs : list opobs) {struct ops} : bool :=
  match ops, obs with
  | [], [] => true
  | o :: ops', ob :: obs' =>
      op_allowed k o && ok_step k content st o ob
      && ok_steps k content (state_of_obs k content (a_data ob) (a_pos ob)) ops' obs'
  | _, _ => false
  end.

(* adapter vs. the real std twin, until the twin's state becomes unspecified *)
Fixpoint ok_twin (ops : list op13) (obs : list opobs) {struct ops} : bool :=
  match ops, obs with
  | o :: ops', ob :: obs' =>
      rc_eqb (a_rc ob) (t_rc ob)
      && (if rc_success (t_rc ob) then
            (if is_read o then
               let n := if fst (t_rc ob) =? 0 then snd (t_rc ob) else nlen (op_buf o) in
               list_eqb (ntake n (a_buf ob)) (ntake n (t_buf ob))
             else true)
            && list_eqb (a_data ob) (t_data ob) && (a_pos ob =? t_pos ob) && list_eqb (a_out ob) (t_out ob)
            && ok_twin ops' obs'
          else true)
  | _, _ => true
  end.

Definition ok_C13 (c : case13) (obs : list opobs) : bool :=
  ok_steps (c_kind c) (s_data (c_init c)) (c_init c) (c_ops c) obs && ok_twin (c_ops c) obs.
