(* C15, standard build: "builds what was asked" for the protection and the sharing of the mapping (0.7.w5, after
   red-team change C15-2: the mapping was made with another protection than the one requested and reported).
   The region's prot() / flags() are reports; what the kernel mapped is read from the permission column of the
   /proc/self/maps line at as_ptr().  The checker is written from the property text: an accepted request yields
   a region that reports the requested protection and flags (constructors that take them), and the report
   describes the mapping that was made: r/w/x as in the reported protection, shared iff MAP_SHARED is reported.
   case kinds as in Spec/C15.v: 0 builder, 1 new, 2 from_file, 3 build, 5 GuestRegionMmap::from_range. *)
From VM Require Import Prelude.MachInt Prelude.Outcome Prelude.Tok Spec.C15.

Record case15p := {
  cp_mode : mode; cp_kind : N; cp_size : N; cp_prot : N; cp_flags : N;
  cp_file : option (N * N); cp_page : N }.
Record obs15p := {
  op_probe : N;                 (* independent mmap probe: 0 refused, 1 granted, 2 not performed (MAP_FIXED) *)
  op_res : N; op_prot : N; op_flags : N;
  op_mprot : N }.               (* /proc/self/maps at as_ptr(): r 1, w 2, x 4, shared 8; 16 = no such line *)

(* the same request in the vocabulary of Spec/C15.v (no external pointer, no hint; from_range at a fixed base) *)
Definition to15 (c : case15p) : case15 :=
  {| c_mode := cp_mode c; c_kind := cp_kind c; c_size := cp_size c; c_prot := cp_prot c; c_flags := cp_flags c;
     c_file := cp_file c; c_raw := None; c_base := if cp_kind c =? 5 then Some 4096 else None;
     c_page := cp_page c; c_cohere := false; c_huge := 0 |}.

Definition ok_C15perm (c : case15p) (o : obs15p) : bool :=
  match reasons (to15 c) with
  | _ :: _ => negb (op_res o =? 0)                              (* unsafe / inconsistent: fails *)
  | [] =>
      if op_probe o =? 0 then negb (op_res o =? 0)              (* the operating system refuses: fails *)
      else
        (op_res o =? 0) &&
        (if explicit_flags (to15 c) then (op_prot o =? cp_prot c) && (op_flags o =? cp_flags c) else true) &&
        (op_mprot o =? N.land (op_prot o) 7 + (if hasbit (op_flags o) 1 then 8 else 0))
  end.
