(* C03 - Guest memory reads and writes behave like one flat sparse byte array.
   The checker is written from the property text.  Guest memory is a list of (start, bytes);
   its flat reading is the partial function address -> byte.  For every step of a history the
   checker is given the memory observed BEFORE the step (initial contents, or the real
   observation after the previous step), the operation, and the real observation (result + data
   + the whole memory re-read through host pointers), and recomputes by brute force: the length
   k of the longest run of consecutively mapped addresses (byte by byte), the expected result,
   and the expected memory (byte by byte over every region: overwritten inside [addr, addr+k),
   equal to before everywhere else).  It does not use Impl/Guest.v.

   step observation: k(1 Ok, 2 Err, 3 panicked) v(Ok: count; Err: class) e1 e2 (PartialBuffer
   expected/completed) data (buffer after a read / object read / rest of a source / sink) mem *)
From VM Require Import Prelude.MachInt Prelude.Outcome Prelude.Tok.

Inductive bop :=
  | BWrite (buf : list N) (addr : N)              (* Bytes::write *)
  | BRead (buf0 : list N) (addr : N)              (* Bytes::read into a buffer pre-filled with buf0 *)
  | BWriteSlice (buf : list N) (addr : N)
  | BReadSlice (buf0 : list N) (addr : N)
  | BWriteObj (val : list N) (addr : N)           (* the object's bytes (little-endian host) *)
  | BReadObj (sz : N) (addr : N)
  | BStore (val : list N) (addr : N)              (* atomic store of a 1/2/4/8-byte integer *)
  | BLoad (sz : N) (addr : N)
  | BReadVolFrom (chunk : N) (src : list N) (count addr : N)   (* read_volatile_from, src: in-memory byte stream
                                                                    handing out at most chunk >= 1 bytes per call *)
  | BReadExactVolFrom (chunk : N) (src : list N) (count addr : N)
  | BWriteVolTo (dst : list N) (count addr : N)       (* write_volatile_to, dst: Vec<u8> *)
  | BWriteAllVolTo (dst : list N) (count addr : N).

Definition smem := list (N * list N).
Record sobs := { s_k : N; s_v : N; s_e1 : N; s_e2 : N; s_data : list N; s_mem : smem }.
Record case03 := { c3_mode : mode; c3_mem : smem; c3_ops : list bop }.

Definition slen {A} (l : list A) : N := N.of_nat (length l).
Definition s_inreg (r : N * list N) (a : N) : bool := (fst r <=? a) && (a <? fst r + slen (snd r)).
Definition s_mapped (M : smem) (a : N) : bool := (a <? W64) && existsb (fun r => s_inreg r a) M.
(* the flat reading *)
Fixpoint s_get (M : smem) (a : N) {struct M} : option N :=
  match M with
  | [] => None
  | r :: t => if s_inreg r a then nth_error (snd r) (N.to_nat (a - fst r)) else s_get t a
  end.
(* length of the longest run of consecutively mapped addresses starting at a, capped at n *)
Fixpoint runlen (mp : N -> bool) (a : N) (n : nat) {struct n} : N :=
  match n with O => 0 | S n' => if mp a then 1 + runlen mp (a + 1) n' else 0 end.
Definition run (M : smem) (a : N) (n : N) : N := runlen (s_mapped M) a (N.to_nat n).
(* bytes of one region whose first byte has address x, after src was stored at [addr, addr+|src|) *)
Fixpoint put_bytes (bytes : list N) (x addr : N) (src : list N) {struct bytes} : list N :=
  match bytes with
  | [] => []
  | b :: t => (if (addr <=? x) && (x <? addr + slen src) then nth (N.to_nat (x - addr)) src b else b)
              :: put_bytes t (x + 1) addr src
  end.
Definition s_put (M : smem) (addr : N) (src : list N) : smem :=
  map (fun r => (fst r, put_bytes (snd r) (fst r) addr src)) M.
(* the k flat bytes at [addr, addr+k) *)
Definition s_gets (M : smem) (addr : N) (k : N) : list N :=
  map (fun j => match s_get M (addr + N.of_nat j) with Some b => b | None => 0 end) (seq 0 (N.to_nat k)).

Fixpoint leqb (a b : list N) : bool :=
  match a, b with [], [] => true | x :: a', y :: b' => (x =? y) && leqb a' b' | _, _ => false end.
Fixpoint smem_eqb (a b : smem) : bool :=
  match a, b with
  | [], [] => true
  | x :: a', y :: b' => (fst x =? fst y) && leqb (snd x) (snd y) && smem_eqb a' b'
  | _, _ => false end.
Definition takeN (k : N) (l : list N) := firstn (N.to_nat k) l.
Definition dropN (k : N) (l : list N) := skipn (N.to_nat k) l.

(* result of a partial-capable transfer of n >= 1 bytes whose run is k *)
Definition res_count (k : N) (o : sobs) : bool :=
  if k =? 0 then (s_k o =? 2) && (s_v o =? 1)            (* invalid address only when the first byte is unmapped *)
  else (s_k o =? 1) && (s_v o =? k).
(* all-or-error forms over n >= 1 bytes: Ok iff the whole range is a run, otherwise an error that
   reports how much was completed (PartialBuffer{n,k}; for k = 0 the invalid-address error) *)
Definition res_exact (n k : N) (o : sobs) : bool :=
  if k =? n then s_k o =? 1
  else (s_k o =? 2) && (((s_v o =? 3) && (s_e1 o =? n) && (s_e2 o =? k)) || ((k =? 0) && (s_v o =? 1))).

(* the range lies in one region and is aligned in it for an sz-byte atomic access *)
Definition atomic_ok (M : smem) (a sz : N) : bool :=
  (a <? W64) && existsb (fun r => s_inreg r a && (a + sz <=? fst r + slen (snd r)) && ((a - fst r) mod sz =? 0)) M.

Definition ok_step (pre : smem) (op : bop) (o : sobs) : bool :=
  match op with
  | BWrite buf a =>
      let k := run pre a (slen buf) in
      smem_eqb (s_mem o) (s_put pre a (takeN k buf)) &&
      (if slen buf =? 0 then true else res_count k o)
  | BRead buf0 a =>
      let k := run pre a (slen buf0) in
      smem_eqb (s_mem o) pre &&
      (if slen buf0 =? 0 then true else
       res_count k o && leqb (s_data o) (s_gets pre a k ++ dropN k buf0))
  | BWriteSlice buf a | BWriteObj buf a =>
      let k := run pre a (slen buf) in
      smem_eqb (s_mem o) (s_put pre a (takeN k buf)) &&
      (if slen buf =? 0 then true else res_exact (slen buf) k o)
  | BReadSlice buf0 a =>
      let k := run pre a (slen buf0) in
      smem_eqb (s_mem o) pre &&
      (if slen buf0 =? 0 then true else
       res_exact (slen buf0) k o && leqb (s_data o) (s_gets pre a k ++ dropN k buf0))
  | BReadObj sz a =>
      let k := run pre a sz in
      smem_eqb (s_mem o) pre &&
      (if sz =? 0 then true else
       res_exact sz k o && (if k =? sz then leqb (s_data o) (s_gets pre a sz) else true))
  | BStore val a =>
      let sz := slen val in let k := run pre a sz in
      if s_k o =? 1 then (k =? sz) && smem_eqb (s_mem o) (s_put pre a val)
      else (s_k o =? 2) && smem_eqb (s_mem o) pre && negb (atomic_ok pre a sz)
  | BLoad sz a =>
      let k := run pre a sz in
      smem_eqb (s_mem o) pre &&
      (if s_k o =? 1 then (k =? sz) && leqb (s_data o) (s_gets pre a sz)
       else (s_k o =? 2) && negb (atomic_ok pre a sz))
  | BReadVolFrom _ src cnt a =>
      let n := N.min cnt (slen src) in let k := run pre a n in
      smem_eqb (s_mem o) (s_put pre a (takeN k src)) && leqb (s_data o) (dropN k src) &&
      (if n =? 0 then true else res_count k o)
  | BReadExactVolFrom _ src cnt a =>
      let n := N.min cnt (slen src) in let k := run pre a n in
      smem_eqb (s_mem o) (s_put pre a (takeN k src)) && leqb (s_data o) (dropN k src) &&
      (if cnt =? 0 then true else res_exact cnt k o)
  | BWriteVolTo dst cnt a =>
      let k := run pre a cnt in
      smem_eqb (s_mem o) pre && leqb (s_data o) (dst ++ s_gets pre a k) &&
      (if cnt =? 0 then true else res_count k o)
  | BWriteAllVolTo dst cnt a =>
      let k := run pre a cnt in
      smem_eqb (s_mem o) pre && leqb (s_data o) (dst ++ s_gets pre a k) &&
      (if cnt =? 0 then true else res_exact cnt k o)
  end.

(* a history: every step is judged against the memory observed before it *)
Fixpoint ok_hist (pre : smem) (ops : list bop) (obs : list sobs) {struct ops} : bool :=
  match ops, obs with
  | [], [] => true
  | op :: ops', o :: obs' => ok_step pre op o && ok_hist (s_mem o) ops' obs'
  | _, _ => false
  end.
Definition ok_C03 (c : case03) (obs : list sobs) : bool := ok_hist (c3_mem c) (c3_ops c) obs.
