(* C09 - the page bitmap behaves as a set of page numbers under every operation sequence.

   The checker is written from the property text: the reference state of a bitmap is a SET of
   page numbers (a membership function) below a page count; every operation is its set-level
   meaning in unbounded arithmetic.  ok_C09 replays a history on the reference sets and judges
   every observation the harness made on the real library (after every step: len, byte_size,
   the indices that read as set over 0..count+70, the probe addresses that read dirty; plus the
   result of the step itself).

   Outside the property (judging stops there, see DESIGN section 8 / the C09 report): an
   `enlarge` whose total byte size does not fit a usize (the code panics in builds with
   overflow checks and wraps otherwise), and references to bitmaps that do not exist. *)
From VM Require Import Prelude.MachInt Prelude.Outcome Prelude.Tok.
From VM Require Export Impl.Bitmap.   (* only for the [route] enumeration shared with the model *)

Inductive op09 :=
  | OSetRange (s a l : N) | OResetRange (s a l : N) | OSetBit (s i : N) | OResetBit (s i : N)
  | OEnlarge (s add : N) | OClone (s : N) | OHarvest (s : N) | OReset (s : N)
  | OMark (s : N) (r : route) (chain : list N) (off len : N)
  | ODirtyAt (s : N) (r : route) (chain : list N) (off : N)
  | OIsAddrSet (s a : N) | OIsBitSet (s i : N).
Record case09 := { c_mode : mode; c_bytes : N; c_ps : N; c_ops : list op09 }.

(* what is observed about one bitmap, and about one step *)
Record slot_obs := { so_len : N; so_bytes : N; so_set : list N; so_addr : list N }.
Record step_obs := { st_res : list N; st_slots : list slot_obs }.
(* st_res: [0] nothing returned; [1;b] a boolean; 2::words get_and_reset; [3] the call panicked;
   [9] no such bitmap *)

Fixpoint nrange_from (k : nat) (a : N) {struct k} : list N :=
  match k with O => [] | S k' => a :: nrange_from k' (N.succ a) end.
Definition nrange (n : N) : list N := nrange_from (N.to_nat n) 0.      (* [0; 1; ...; n-1] *)
Definition scan_margin : N := 70.
(* probe addresses for dirty_at: first and last byte of the pages near the start, near the page
   count (up to count+1) and next to every 32-page boundary (only addresses that are usize values) *)
Definition probe_page (count p : N) : bool :=
  (p <? 3) || (count <=? p + 2) || (N.land p 31 =? 0) || (N.land p 31 =? 31).
Definition probes (count page : N) : list N :=
  filter (fun a => a <? W64)
    (flat_map (fun p => [p * page; p * page + (page - 1)]) (filter (probe_page count) (nrange (count + 2)))).

(* ---------- the reference: sets of page numbers ---------- *)
Record pset := { ps_count : N; ps_bytes : N; ps_page : N; ps_mem : N -> bool }.

(* number of pages needed for n bytes: the least k with k * page >= n *)
Definition pages_for (n page : N) : N := n / page + (if n mod page =? 0 then 0 else 1).

(* does page p contain a byte x with a <= x <= a+l-1 and x a usize value? *)
Definition overlaps (page a l p : N) : bool :=
  (0 <? l) && (a <? (p + 1) * page) && (p * page <=? a + l - 1) && (p * page <? W64).

Definition ps_new (bytes page : N) : pset :=
  {| ps_count := pages_for bytes page; ps_bytes := bytes; ps_page := page; ps_mem := fun _ => false |}.
Definition with_mem (s : pset) (f : N -> bool) : pset :=
  {| ps_count := ps_count s; ps_bytes := ps_bytes s; ps_page := ps_page s; ps_mem := f |}.
Definition ps_add_range (s : pset) (a l : N) : pset :=
  with_mem s (fun p => ps_mem s p || ((p <? ps_count s) && overlaps (ps_page s) a l p)).
Definition ps_del_range (s : pset) (a l : N) : pset :=
  with_mem s (fun p => ps_mem s p && negb (overlaps (ps_page s) a l p)).
Definition ps_add_page (s : pset) (i : N) : pset :=
  with_mem s (fun p => ps_mem s p || ((p =? i) && (i <? ps_count s))).
Definition ps_del_page (s : pset) (i : N) : pset :=
  with_mem s (fun p => ps_mem s p && negb (p =? i)).
(* the same membership function, tabulated below the page count (evaluation speed only:
   [memo_eq] in Proofs/C09.v shows memo n f p = f p for every p) *)
Definition memo (n : N) (f : N -> bool) : N -> bool :=
  let tbl := map f (nrange n) in
  fun p => if p <? n then nth (N.to_nat p) tbl false else f p.
Definition norm (s : pset) : pset := with_mem s (memo (ps_count s) (ps_mem s)).
Definition ps_clear (s : pset) : pset := with_mem s (fun _ => false).
Definition ps_enlarge (s : pset) (add : N) : pset :=
  {| ps_count := pages_for (ps_bytes s + add) (ps_page s); ps_bytes := ps_bytes s + add;
     ps_page := ps_page s; ps_mem := ps_mem s |}.
(* a slice (of a slice ...) at offsets o1, o2, ...: the same set seen through addresses shifted by
   the sum of the offsets, in usize arithmetic *)
Definition view_addr (chain : list N) (off : N) : N := (fold_right N.add 0 chain + off) mod W64.
Definition route_live (r : route) : bool := match r with RNone | RUnit => false | _ => true end.

Fixpoint set_nth {A} (l : list A) (i : nat) (x : A) {struct l} : list A :=
  match l, i with
  | [], _ => []
  | _ :: t, O => x :: t
  | y :: t, S j => y :: set_nth t j x
  end.

Inductive expect := ENothing | EBool (b : bool) | EWords (s : pset).
Inductive verdict09 := Outside | Next (st : list pset) (e : expect).

Definition on_slot (st : list pset) (s : N) (k : pset -> verdict09) : verdict09 :=
  match nth_error st (N.to_nat s) with Some x => k x | None => Outside end.
Definition upd_slot (st : list pset) (s : N) (x : pset) (e : expect) : verdict09 :=
  Next (set_nth st (N.to_nat s) (norm x)) e.

Definition spec_step (st : list pset) (o : op09) : verdict09 :=
  match o with
  | OSetRange s a l => on_slot st s (fun x => upd_slot st s (ps_add_range x a l) ENothing)
  | OResetRange s a l => on_slot st s (fun x => upd_slot st s (ps_del_range x a l) ENothing)
  | OSetBit s i => on_slot st s (fun x => upd_slot st s (ps_add_page x i) ENothing)
  | OResetBit s i => on_slot st s (fun x => upd_slot st s (ps_del_page x i) ENothing)
  | OEnlarge s add => on_slot st s (fun x =>
      if ps_bytes x + add <? W64 then upd_slot st s (ps_enlarge x add) ENothing else Outside)
  | OClone s => on_slot st s (fun x => Next (st ++ [x]) ENothing)
  | OHarvest s => on_slot st s (fun x => upd_slot st s (ps_clear x) (EWords x))
  | OReset s => on_slot st s (fun x => upd_slot st s (ps_clear x) ENothing)
  | OMark s r chain off len => on_slot st s (fun x =>
      if route_live r then upd_slot st s (ps_add_range x (view_addr chain off) len) ENothing
      else Next st ENothing)
  | ODirtyAt s r chain off => on_slot st s (fun x =>
      Next st (EBool (route_live r && ps_mem x (view_addr chain off / ps_page x))))
  | OIsAddrSet s a => on_slot st s (fun x => Next st (EBool (ps_mem x (a / ps_page x))))
  | OIsBitSet s i => on_slot st s (fun x => Next st (EBool (ps_mem x i)))
  end.

(* ---------- judging observations ---------- *)
Definition slot_ok (s : pset) (o : slot_obs) : bool :=
  (so_len o =? ps_count s) && (so_bytes o =? ps_bytes s) &&
  list_eqb (so_set o) (filter (ps_mem s) (nrange (ps_count s + scan_margin))) &&
  list_eqb (so_addr o) (filter (fun a => ps_mem s (a / ps_page s)) (probes (ps_count s) (ps_page s))).
Fixpoint slots_ok (st : list pset) (os : list slot_obs) {struct st} : bool :=
  match st, os with
  | [], [] => true
  | s :: st', o :: os' => slot_ok s o && slots_ok st' os'
  | _, _ => false
  end.
(* the words returned by fetch-and-clear encode exactly the set: one u64 per 64 pages, bit i of
   word w set iff page 64w+i is a member; hence no index >= count ever appears *)
Definition words_ok (s : pset) (ws : list N) : bool :=
  let nw := pages_for (ps_count s) 64 in
  (N.of_nat (length ws) =? nw) && forallb (fun w => w <? W64) ws &&
  forallb (fun w => forallb (fun i =>
     Bool.eqb (N.testbit (nth (N.to_nat w) ws 0) i) (ps_mem s (64 * w + i) && (64 * w + i <? ps_count s)))
     (nrange 64)) (nrange nw).
Definition res_ok (e : expect) (r : list N) : bool :=
  match e, r with
  | ENothing, [0] => true
  | EBool b, [1; x] => x =? (if b then 1 else 0)
  | EWords s, 2 :: ws => words_ok s ws
  | _, _ => false
  end.

Fixpoint judge (st : list pset) (ops : list op09) (obs : list step_obs) {struct ops} : bool :=
  match ops, obs with
  | [], [] => true
  | o :: ops', so :: obs' =>
      match spec_step st o with
      | Outside => true
      | Next st' e => res_ok e (st_res so) && slots_ok st' (st_slots so) && judge st' ops' obs'
      end
  | _, _ => false
  end.

(* the first observation is the state right after `new` *)
Definition ok_C09 (c : case09) (obs : list step_obs) : bool :=
  match obs with
  | o0 :: rest =>
      let st0 := [ps_new (c_bytes c) (c_ps c)] in
      (match st_res o0 with [0] => true | _ => false end) && slots_ok st0 (st_slots o0) && judge st0 (c_ops c) rest
  | [] => false
  end.

(* well-formed cases: usize arguments, non-zero page size *)
Definition u64b (a : N) : bool := a <? W64.
Definition wf_op (o : op09) : bool :=
  match o with
  | OSetRange s a l | OResetRange s a l => u64b a && u64b l
  | OSetBit s i | OResetBit s i | OIsBitSet s i => u64b i
  | OEnlarge s add => u64b add
  | OClone _ | OHarvest _ | OReset _ => true
  | OMark s r chain off len => forallb u64b chain && u64b off && u64b len
  | ODirtyAt s r chain off => forallb u64b chain && u64b off
  | OIsAddrSet s a => u64b a
  end.
Definition wf_case (c : case09) : bool :=
  (0 <? c_ps c) && u64b (c_ps c) && u64b (c_bytes c) && forallb wf_op (c_ops c).
