(* C20 - endian wrappers keep their declared byte order.  Checker from the property text:
   wire bytes are recomputed digit by digit (v / 256^i mod 256) in the declared order. *)
From VM Require Import Prelude.MachInt Prelude.Bytes Prelude.Tok Impl.Endian.

Record case20 := { k_ty : ety; k_v : N; k_x : N }.      (* wrapper type, value wrapped, value compared with *)
Record obs20 := { b_bytes : list N;      (* bytes read from guest memory after write_obj(wrapper) *)
                  b_native : N;          (* to_native() / u::from(w) *)
                  b_eq1 : bool; b_eq2 : bool;   (* w == x, x == w *)
                  b_ne1 : bool; b_ne2 : bool;   (* w != x, x != w *)
                  b_size : N; b_align : N;      (* size_of / align_of the wrapper *)
                  b_nsize : N; b_nalign : N;    (* size_of / align_of the native type *)
                  b_routes : bool }.            (* every other storage route (typed reference, element array at index >= 1,
                                                  bulk array copy) produced the same bytes / returned the same value *)

Definition wire_bytes (t : ety) (v : N) : list N :=
  let le := map (byte_at v) (seq 0 (e_size t)) in
  match e_end t with LE => le | BE => rev le end.

Definition ok_C20 (c : case20) (o : obs20) : bool :=
  list_eqb (b_bytes o) (wire_bytes (k_ty c) (k_v c)) &&
  (b_native o =? k_v c) &&
  Bool.eqb (b_eq1 o) (k_v c =? k_x c) && Bool.eqb (b_eq2 o) (k_v c =? k_x c) &&
  (* comparison is true EXACTLY for the represented value: the negated operators are the exact negation *)
  Bool.eqb (b_ne1 o) (negb (k_v c =? k_x c)) && Bool.eqb (b_ne2 o) (negb (k_v c =? k_x c)) &&
  (b_size o =? b_nsize o) && (b_align o =? b_nalign o) && (b_size o =? N.of_nat (e_size (k_ty c))) && b_routes o.
