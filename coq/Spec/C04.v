(* C04 - every accessor of a volatile container moves exactly the bytes it names.

   The checker is written from the property text.  It keeps ONE flat byte array (the host bytes
   around and inside the container: the container is the window [pre, pre+n) of it), and for every
   operation of a history recomputes, pointwise, which bytes must have moved:
     - exactly the addressed bytes, in address order ([put]/[get] are defined index by index),
     - every other byte (inside the container and in the margins around it) unchanged,
     - the reported count = the requested amount cut off at the end of the container,
     - a transfer of >= 1 byte starting at or past the end is an error,
     - all routes see the same array (there is only one array in the checker).
   It does not mention sub-slices, pointer arithmetic, isize limits or loops.

   Observation of one operation (made by the harness through the raw pointer):
     kind (0 = Ok, otherwise an error class / panic), n (count or loaded value), the caller's
     buffer after the call, and the list of heap positions whose byte changed with their new
     values (positions ascending, relative to the first margin byte). *)
From VM Require Import Prelude.MachInt Prelude.Outcome Prelude.Tok.

(* a plain-data type: its size in bytes and whether it is a big-endian wrapper *)
Record sty := { st_size : N; st_be : bool }.

Inductive op :=
| OWrite (buf : list N) (addr : N)
| ORead (buf : list N) (addr : N)
| OWriteSlice (buf : list N) (addr : N)
| OReadSlice (buf : list N) (addr : N)
| OWriteObj (t : sty) (v addr : N)
| OReadObj (t : sty) (addr : N)
| OStore (t : sty) (v addr : N)                    (* atomic *)
| OLoad (t : sty) (addr : N)
| ORefStore (t : sty) (v off : N)                  (* get_ref(off).store(v) *)
| ORefLoad (t : sty) (off : N)
| OArrStore (t : sty) (off cnt idx v : N)          (* get_array_ref(off,cnt).store(idx,v) *)
| OArrLoad (t : sty) (off cnt idx : N)
| OArrCopyTo (t : sty) (off cnt : N) (buf : list N)
| OArrCopyFrom (t : sty) (off cnt : N) (buf : list N)
| OArrCopyToVs (t : sty) (off cnt off2 cnt2 : N)   (* ….copy_to_volatile_slice(get_slice(off2,cnt2)) *)
| OSlCopyTo (t : sty) (off cnt : N) (buf : list N) (* get_slice(off,cnt).copy_to::<T>(buf) *)
| OSlCopyFrom (t : sty) (off cnt : N) (buf : list N)
| OSlCopyToVs (off cnt off2 cnt2 : N).

Record obs04 := { o_kind : N; o_n : N; o_buf : list N; o_di : list N; o_dv : list N }.

(* container kind 0 VolatileSlice, 1 MmapRegion, 2 GuestRegionMmap; build mode; address of the
   first heap byte; margin before; container size; the heap; the history *)
Record case04 := { c_kind : N; c_mode : mode; c_hb : N; c_pre : N; c_n : N; c_heap : list N; c_ops : list op }.

Definition slen (l : list N) : N := N.of_nat (length l).

(* ---- the flat array, index by index ---- *)
(* element i of a list (0 when there is none); recursion on the list *)
Fixpoint nthN (l : list N) (i : N) {struct l} : N :=
  match l with [] => 0 | x :: r => if i =? 0 then x else nthN r (i - 1) end.
(* the bytes at the positions j with a <= j < a+k, in ascending order of j *)
Fixpoint get_from (i : N) (h : list N) (a k : N) {struct h} : list N :=
  match h with
  | [] => []
  | x :: r => if (a <=? i) && (i <? a + k) then x :: get_from (i + 1) r a k else get_from (i + 1) r a k
  end.
Definition get (h : list N) (a k : N) : list N := get_from 0 h a k.
(* position j holds d[j-a] when a <= j < a+|d| and its old byte otherwise *)
Fixpoint put_from (i : N) (h : list N) (a : N) (d : list N) {struct h} : list N :=
  match h with
  | [] => []
  | x :: r => (if (a <=? i) && (i <? a + slen d) then nthN d (i - a) else x) :: put_from (i + 1) r a d
  end.
Definition put (h : list N) (a : N) (d : list N) : list N := put_from 0 h a d.

(* positions where b differs from a, ascending, with b's byte *)
Fixpoint diff_from (i : N) (a b : list N) {struct a} : list N * list N :=
  match a, b with
  | x :: a', y :: b' =>
      let '(di, dv) := diff_from (i + 1) a' b' in
      if x =? y then (di, dv) else (i :: di, y :: dv)
  | _, _ => ([], [])
  end.

(* ---- typed values: little-endian host, Be wrappers byte-swapped ---- *)
Fixpoint bytes_le (n : nat) (v : N) {struct n} : list N :=
  match n with O => [] | S k => v mod 256 :: bytes_le k (v / 256) end.
Fixpoint num_le (l : list N) {struct l} : N := match l with [] => 0 | b :: r => b + 256 * num_le r end.
Definition image (t : sty) (v : N) : list N :=
  let l := bytes_le (N.to_nat (st_size t)) v in if st_be t then rev l else l.
Definition value (t : sty) (l : list N) : N := num_le (if st_be t then rev l else l).

(* ---- what the property demands of one operation ---- *)
(* s_must: Some true = must succeed, Some false = must not succeed, None = not constrained.
   If the call succeeded: count/value s_n, caller buffer s_buf, array s_heap.
   If it did not: caller buffer s_ebuf, array s_eheap. *)
Record sres := { s_must : option bool; s_n : N; s_buf : list N; s_heap : list N;
                 s_ebuf : list N; s_eheap : list N }.

Section Spec.
Variable hb pre n : N.

(* the requested amount cut off at the end of the container *)
Definition cut (addr req : N) : N := N.min req (n - addr).
(* is an accessor of [bytes] bytes at [off] inside the container?  zero bytes: not constrained *)
Definition acc_req (off bytes : N) : option bool :=
  if bytes =? 0 then None else Some (off + bytes <=? n).
Definition both (a b : option bool) : option bool :=
  match a, b with
  | Some false, _ | _, Some false => Some false
  | Some true, Some true => Some true
  | _, _ => None
  end.

(* byte buffer INTO the container at addr; [all] = the whole buffer is required (slice/object forms) *)
Definition sp_in (h : list N) (data : list N) (addr : N) (all : bool) : sres :=
  if slen data =? 0 then
    {| s_must := Some true; s_n := 0; s_buf := []; s_heap := h; s_ebuf := []; s_eheap := h |}
  else if n <=? addr then
    {| s_must := Some false; s_n := 0; s_buf := []; s_heap := h; s_ebuf := []; s_eheap := h |}
  else
    let k := cut addr (slen data) in
    let h' := put h (pre + addr) (firstn (N.to_nat k) data) in
    {| s_must := Some (if all then k =? slen data else true); s_n := if all then 0 else k;
       s_buf := []; s_heap := h'; s_ebuf := []; s_eheap := h' |}.
(* container bytes at addr OUT into the caller's buffer *)
Definition sp_out (h : list N) (buf : list N) (addr : N) (all : bool) : sres :=
  if slen buf =? 0 then
    {| s_must := Some true; s_n := 0; s_buf := buf; s_heap := h; s_ebuf := buf; s_eheap := h |}
  else if n <=? addr then
    {| s_must := Some false; s_n := 0; s_buf := buf; s_heap := h; s_ebuf := buf; s_eheap := h |}
  else
    let k := cut addr (slen buf) in
    let b' := get h (pre + addr) k ++ skipn (N.to_nat k) buf in
    {| s_must := Some (if all then k =? slen buf else true); s_n := if all then 0 else k;
       s_buf := b'; s_heap := h; s_ebuf := b'; s_eheap := h |}.

(* a typed store of v at byte offset off, through an accessor that must satisfy [req] *)
Definition sp_store (h : list N) (req : option bool) (t : sty) (v off : N) : sres :=
  {| s_must := req; s_n := 0; s_buf := []; s_heap := put h (pre + off) (image t v);
     s_ebuf := []; s_eheap := h |}.
Definition sp_load (h : list N) (req : option bool) (t : sty) (off : N) : sres :=
  {| s_must := req; s_n := value t (get h (pre + off) (st_size t)); s_buf := []; s_heap := h;
     s_ebuf := []; s_eheap := h |}.
(* [cnt] elements starting at off copied out into the element buffer *)
Definition sp_elems_out (h : list N) (req : option bool) (t : sty) (off cnt : N) (buf : list N) : sres :=
  let k := N.min (slen buf) cnt in
  {| s_must := req; s_n := k;
     s_buf := map (fun i => value t (get h (pre + off + N.of_nat i * st_size t) (st_size t))) (seq 0 (N.to_nat k))
              ++ skipn (N.to_nat k) buf;
     s_heap := h; s_ebuf := buf; s_eheap := h |}.
Definition sp_elems_in (h : list N) (req : option bool) (t : sty) (off cnt : N) (vals : list N) : sres :=
  let k := N.min (slen vals) cnt in
  {| s_must := req; s_n := 0; s_buf := [];
     s_heap := put h (pre + off) (concat (map (image t) (firstn (N.to_nat k) vals)));
     s_ebuf := []; s_eheap := h |}.
(* min(bytes, cnt2) bytes from off to off2 inside the same array (values taken before the move) *)
Definition sp_move (h : list N) (req : option bool) (off bytes off2 cnt2 : N) : sres :=
  let k := N.min bytes cnt2 in
  {| s_must := req; s_n := 0; s_buf := []; s_heap := put h (pre + off2) (get h (pre + off) k);
     s_ebuf := []; s_eheap := h |}.

Definition atomic_req (t : sty) (addr : N) : option bool :=
  if st_size t =? 0 then None
  else if addr + st_size t <=? n then (if (hb + pre + addr) mod st_size t =? 0 then Some true else None)
  else Some false.

Definition spec_step (h : list N) (o : op) : sres :=
  match o with
  | OWrite buf addr => sp_in h buf addr false
  | ORead buf addr => sp_out h buf addr false
  | OWriteSlice buf addr => sp_in h buf addr true
  | OReadSlice buf addr => sp_out h buf addr true
  | OWriteObj t v addr => sp_in h (image t v) addr true
  | OReadObj t addr =>
      let r := sp_out h (repeat 0 (N.to_nat (st_size t))) addr true in
      {| s_must := s_must r; s_n := value t (s_buf r); s_buf := []; s_heap := h; s_ebuf := []; s_eheap := h |}
  | OStore t v addr => sp_store h (atomic_req t addr) t v addr
  | OLoad t addr => sp_load h (atomic_req t addr) t addr
  | ORefStore t v off => sp_store h (acc_req off (st_size t)) t v off
  | ORefLoad t off => sp_load h (acc_req off (st_size t)) t off
  | OArrStore t off cnt idx v =>
      if idx <? cnt then sp_store h (acc_req off (cnt * st_size t)) t v (off + idx * st_size t)
      else {| s_must := Some false; s_n := 0; s_buf := []; s_heap := h; s_ebuf := []; s_eheap := h |}
  | OArrLoad t off cnt idx =>
      if idx <? cnt then sp_load h (acc_req off (cnt * st_size t)) t (off + idx * st_size t)
      else {| s_must := Some false; s_n := 0; s_buf := []; s_heap := h; s_ebuf := []; s_eheap := h |}
  | OArrCopyTo t off cnt buf => sp_elems_out h (acc_req off (cnt * st_size t)) t off cnt buf
  | OArrCopyFrom t off cnt buf => sp_elems_in h (acc_req off (cnt * st_size t)) t off cnt buf
  | OArrCopyToVs t off cnt off2 cnt2 =>
      sp_move h (both (acc_req off (cnt * st_size t)) (acc_req off2 cnt2)) off (cnt * st_size t) off2 cnt2
  | OSlCopyTo t off cnt buf =>
      if st_size t =? 0 then
        {| s_must := acc_req off cnt; s_n := slen buf; s_buf := buf; s_heap := h; s_ebuf := buf; s_eheap := h |}
      else sp_elems_out h (acc_req off cnt) t off (cnt / st_size t) buf
  | OSlCopyFrom t off cnt buf =>
      if st_size t =? 0 then
        {| s_must := acc_req off cnt; s_n := 0; s_buf := []; s_heap := h; s_ebuf := []; s_eheap := h |}
      else sp_elems_in h (acc_req off cnt) t off (cnt / st_size t) buf
  | OSlCopyToVs off cnt off2 cnt2 => sp_move h (both (acc_req off cnt) (acc_req off2 cnt2)) off cnt off2 cnt2
  end.

Definition opt_allows (m : option bool) (b : bool) : bool :=
  match m with Some x => Bool.eqb x b | None => true end.
Definition diff_is (h h' : list N) (o : obs04) : bool :=
  let '(di, dv) := diff_from 0 h h' in list_eqb (o_di o) di && list_eqb (o_dv o) dv.

(* judge one observed operation; returns the array to continue with *)
Definition check_step (h : list N) (o : op) (ob : obs04) : bool * list N :=
  let r := spec_step h o in
  if o_kind ob =? 0 then
    (opt_allows (s_must r) true && (o_n ob =? s_n r) && list_eqb (o_buf ob) (s_buf r) && diff_is h (s_heap r) ob,
     s_heap r)
  else
    (opt_allows (s_must r) false && list_eqb (o_buf ob) (s_ebuf r) && diff_is h (s_eheap r) ob, s_eheap r).

Fixpoint check_hist (h : list N) (ops : list op) (obs : list obs04) {struct ops} : bool :=
  match ops, obs with
  | [], [] => true
  | o :: ops', ob :: obs' => let '(b, h') := check_step h o ob in b && check_hist h' ops' obs'
  | _, _ => false
  end.
End Spec.

Definition ok_C04 (c : case04) (obs : list obs04) : bool :=
  check_hist (c_hb c) (c_pre c) (c_n c) (c_heap c) (c_ops c) obs.

(* ================================================================== C04big - LARGE transfers
   One bulk operation on a container of up to 1 MiB.  Contents are not on the wire: the heap
   and the caller's buffer are filled with two deterministic patterns over DISJOINT byte
   ranges (heap bytes < 127, buffer bytes >= 128), so every byte written from the buffer
   changes the heap; the harness computes the expected heap / buffer with plain slice copies
   and reports where the real result first differs from it.  The checker judges, from the
   property text and from lengths only:
     - the reported count = the requested amount cut off at the end of the container / array,
     - a request whose accessor does not lie in the container is an error and moves nothing,
     - exactly the addressed bytes moved, in address order: no difference from the expected
       heap and buffer (bufdiff = heapdiff = NONE),
     - every other byte unchanged: the first and the last changed heap position lie in the
       destination range.
   case: kind al n route size off cnt blen off2 cnt2 salt      obs: kind count bufdiff heapdiff first last *)
Inductive broute := BWrite | BRead | BWriteSlice | BReadSlice | BArrCopyTo | BArrCopyFrom | BArrCopyToVs
                  | BSlCopyTo | BSlCopyFrom | BSlCopyToVs.
Record bigcase := { b_pre : N; b_n : N; b_route : broute; b_sz : N; b_off : N; b_cnt : N; b_blen : N;
                    b_off2 : N; b_cnt2 : N }.
Record bigobs := { bo_kind : N; bo_count : N; bo_bufdiff : N; bo_heapdiff : N; bo_first : N; bo_last : N }.
Definition BNONE : N := 18446744073709551615.

(* what the property demands: must the call succeed, the count it reports, and the heap bytes
   [lo, lo+m) (container offsets) that are written *)
Record bigexp := { x_must : option bool; x_count : N; x_lo : N; x_m : N }.
Definition big_spec (c : bigcase) : bigexp :=
  let n := b_n c in let off := b_off c in let sz := b_sz c in
  let bytes_io (into : bool) (all : bool) :=
    if b_blen c =? 0 then {| x_must := Some true; x_count := 0; x_lo := 0; x_m := 0 |}
    else if n <=? off then {| x_must := Some false; x_count := 0; x_lo := 0; x_m := 0 |}
    else let k := N.min (b_blen c) (n - off) in
         {| x_must := Some (if all then k =? b_blen c else true); x_count := if all then 0 else k;
            x_lo := off; x_m := if into then k else 0 |} in
  let inside (o b : N) : bool := o + b <=? n in
  let refuse := {| x_must := Some false; x_count := 0; x_lo := 0; x_m := 0 |} in
  match b_route c with
  | BWrite => bytes_io true false
  | BRead => bytes_io false false
  | BWriteSlice => bytes_io true true
  | BReadSlice => bytes_io false true
  | BArrCopyTo =>
      if inside off (b_cnt c * sz) then {| x_must := Some true; x_count := N.min (b_blen c) (b_cnt c); x_lo := 0; x_m := 0 |}
      else refuse
  | BArrCopyFrom =>
      if inside off (b_cnt c * sz) then {| x_must := Some true; x_count := 0; x_lo := off; x_m := N.min (b_blen c) (b_cnt c) * sz |}
      else refuse
  | BArrCopyToVs =>
      if inside off (b_cnt c * sz) && inside (b_off2 c) (b_cnt2 c)
      then {| x_must := Some true; x_count := 0; x_lo := b_off2 c; x_m := N.min (b_cnt c * sz) (b_cnt2 c) |}
      else refuse
  | BSlCopyTo =>
      if inside off (b_cnt c) then {| x_must := Some true; x_count := N.min (b_blen c) (b_cnt c / sz); x_lo := 0; x_m := 0 |}
      else refuse
  | BSlCopyFrom =>
      if inside off (b_cnt c) then {| x_must := Some true; x_count := 0; x_lo := off; x_m := N.min (b_blen c) (b_cnt c / sz) * sz |}
      else refuse
  | BSlCopyToVs =>
      if inside off (b_cnt c) && inside (b_off2 c) (b_cnt2 c)
      then {| x_must := Some true; x_count := 0; x_lo := b_off2 c; x_m := N.min (b_cnt c) (b_cnt2 c) |}
      else refuse
  end.

Definition big_frame (c : bigcase) (e : bigexp) (ob : bigobs) : bool :=
  if bo_first ob =? BNONE then bo_last ob =? BNONE
  else (b_pre c + x_lo e <=? bo_first ob) && (bo_first ob <=? bo_last ob) && (bo_last ob <? b_pre c + x_lo e + x_m e).

Definition ok_C04big (c : bigcase) (ob : bigobs) : bool :=
  let e := big_spec c in
  (if bo_kind ob =? 0 then opt_allows (x_must e) true && (bo_count ob =? x_count e)
   else opt_allows (x_must e) false) &&
  (bo_bufdiff ob =? BNONE) && (bo_heapdiff ob =? BNONE) && big_frame c e ob.
