(* C14 for the stream endpoints the CRATE provides, driving the guest-memory / region / slice entry points
   (suite C14own) - the spec side.  The judge is the unchanged conservation checker [ok_C14] (Spec/C14.v, written
   from the property text).  This file only says how a case / an observation of the new suite is READ as a case /
   observation of C14:
     - the endpoint is one of: &[u8], Cursor<&[u8]> / Cursor<Vec<u8>> (position anywhere, also past the end),
       &mut [u8], Vec<u8> - these never interrupt or fail: their script is empty -, and a REAL descriptor
       (regular File, UnixStream / pipe byte queue) whose read(2) / write(2) calls follow a script (Impl/Io.v
       [fbeh]; harness/src/fdscript.rs);
     - the reader's source bytes are what the documented std stream would still deliver: the rest of the slice,
       the cursor's data from min(position, length), the file's bytes from its offset, the queued bytes;
     - the number of bytes the reader gave out is how far its position moved / how many bytes left the queue, observed
       independently of the transfer; the bytes the writer accepted are the bytes that appeared in the sink: between
       the old and the new position of a slice / file, behind the old end of a Vec, at the peer of a queue. *)
From VM Require Import Prelude.MachInt Prelude.Outcome Prelude.Tok Prelude.C1314List Impl.Io Impl.IoGuest Spec.C14.

Inductive ekind := ESliceR | EMSliceW | EVecW | ECurR | EFile | EQueue.
Record case14own := { w_mode : mode; w_target : target; w_mem : list N; w_addr : N; w_count : N; w_op : op14;
                      w_ek : ekind; w_script : list fbeh; w_content : list N; w_pos : N }.
(* y_data / y_pos: the endpoint after the operation (byte queues: no data, y_pos = bytes still queued);
   y_out: what the peer of a queue received *)
Record obs14own := { y_rk : N; y_a : N; y_b : N; y_calls : N; y_data : list N; y_pos : N; y_out : list N;
                     y_mem : list N }.

(* drop / take that never turn a number from a trace into a unary natural larger than the list at hand *)
Definition gdrop {A} (n : N) (l : list A) : list A := if nlen l <=? n then [] else ndrop n l.
Definition gtake {A} (n : N) (l : list A) : list A := if nlen l <=? n then l else ntake n l.

Definition beh_of_f (b : fbeh) : beh :=
  match b with FFull => Full | FShort k => Short k | FZero => Zero | FEintr => Eintr | FErr => HardErr end.

Definition src_of (ek : ekind) (content : list N) (pos : N) : list N :=
  match ek with
  | ESliceR | EFile => gdrop pos content
  | ECurR => gdrop (N.min pos (nlen content)) content
  | EQueue => content
  | _ => []
  end.
Definition moved_rd (ek : ekind) (content : list N) (pos : N) (y : obs14own) : N :=
  match ek with EQueue => nlen content - y_pos y | _ => y_pos y - pos end.
Definition sink_of (ek : ekind) (content : list N) (pos : N) (y : obs14own) : list N :=
  match ek with
  | EMSliceW | EFile => gtake (y_pos y - pos) (gdrop pos (y_data y))
  | EVecW => gdrop (nlen content) (y_data y)
  | EQueue => y_out y
  | _ => []
  end.

Definition case14_of (c : case14own) : case14 :=
  {| c_mode := w_mode c; c_target := w_target c; c_mem := w_mem c; c_addr := w_addr c; c_count := w_count c;
     c_op := w_op c; c_script := map beh_of_f (w_script c);
     c_src := if is_read (w_op c) then src_of (w_ek c) (w_content c) (w_pos c) else [] |}.
Definition obs14_of (c : case14own) (y : obs14own) : obs14 :=
  let sink := if is_read (w_op c) then [] else sink_of (w_ek c) (w_content c) (w_pos c) y in
  {| o_rk := y_rk y; o_a := y_a y; o_b := y_b y; o_calls := y_calls y;
     o_moved := if is_read (w_op c) then moved_rd (w_ek c) (w_content c) (w_pos c) y else nlen sink;
     o_sink := sink; o_mem := y_mem y |}.

(* which operations an endpoint offers; in-memory endpoints have no script *)
Definition ek_reads (ek : ekind) : bool := match ek with ESliceR | ECurR | EFile | EQueue => true | _ => false end.
Definition ek_writes (ek : ekind) : bool := match ek with EMSliceW | EVecW | EFile | EQueue => true | _ => false end.
Definition ek_fd (ek : ekind) : bool := match ek with EFile | EQueue => true | _ => false end.
Definition ek_ok (c : case14own) : bool :=
  (if is_read (w_op c) then ek_reads (w_ek c) else ek_writes (w_ek c))
  && (ek_fd (w_ek c) || match w_script c with [] => true | _ => false end).

(* a transfer RETURNS (a count, success or an error): a panic (rk 11) or a transfer that never ends (12) is none
   of the outcomes the property allows *)
(* progress of the exact forms (Spec/C14.v [progress_ok]) for these endpoints: after its script a descriptor makes
   the REAL call (Full), an in-memory endpoint's calls are not observable (none listed); what the stream has left:
   a reader its remaining source bytes, a &mut [u8] its remaining room, every other sink no bound *)
Definition made_own (c : case14own) (calls : N) : list beh :=
  map beh_of_f (firstn (N.to_nat calls) (w_script c ++ repeat FFull (N.to_nat calls))).
Definition left_own (c : case14own) (moved : N) : option N :=
  if is_read (w_op c) then Some (nlen (src_of (w_ek c) (w_content c) (w_pos c)) - moved)
  else match w_ek c with EMSliceW => Some (nlen (w_content c) - w_pos c - moved) | _ => None end.
Definition progress14own (c : case14own) (y : obs14own) : bool :=
  let o := obs14_of c y in
  let made := made_own c (y_calls y) in
  if progress_applies (w_target c) (w_addr c) (w_count c) (w_op c) (y_rk y) made
  then progress_ok (w_target c) (w_mem c) (w_addr c) (w_count c) (o_moved o) (y_calls y) made (left_own c (o_moved o))
  else true.

Definition ok_C14own (c : case14own) (y : obs14own) : bool :=
  ek_ok c && (y_rk y <? 11) && ok_C14_core (case14_of c) (obs14_of c y) && progress14own c y.
