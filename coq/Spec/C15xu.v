(* C15, Xen build, the constructors an ordinary caller reaches for a Xen-UNIX range (0.7.w5):
     route 0  MmapRegion::from_range(MmapRange::new_unix(size, file?, addr)) with the hugetlbfs label set or not,
              optionally wrapped in GuestRegionMmap::new(region, base)
     route 1  GuestRegionMmap::from_range(base, size, file?)
     route 2  GuestMemoryMmap::from_ranges_with_files([(base, size, file?)]) - the one region of the map
   The checker is written from the property text: an unsafe / inconsistent request (file range that overflows or
   extends past the end of the file, guest base + size beyond the address space) fails with the matching error
   class and leaves nothing mapped; any other request - unless the operating system itself refuses the mapping
   (independent probe) - yields a region that reports the requested size, file and offset (and the hugetlbfs label
   given to the range), whose reported protection and flags describe the mapping that was MADE (permission column
   of /proc/self/maps), and - these routes make "a shared file mapping" of the file handed in - whose byte i is
   byte offset+i of the file in both directions. *)
From VM Require Import Prelude.MachInt Prelude.Outcome Prelude.Tok Spec.C15.

Record case15u := {
  cu_mode : mode; cu_route : N; cu_size : N;
  cu_file : option (N * N);     (* (length of the backing file, requested start offset) *)
  cu_base : option N; cu_page : N;
  cu_huge : N }.                (* route 0: 0 label not set, 1 set_hugetlbfs(false), 2 set_hugetlbfs(true) *)

Record obs15u := {
  ou_probe : N;                 (* independent mmap probe: 0 refused, 1 granted *)
  ou_res : N; ou_size : N; ou_prot : N; ou_flags : N; ou_hasfile : bool; ou_start : N; ou_samefd : bool;
  ou_xflags : N; ou_xdata : N; ou_pos : N; ou_d1 : N; ou_d2 : N;
  ou_coh1 : N; ou_coh2 : N;     (* file->region, region->file: 1 equal, 0 different, 2 not examined *)
  ou_huge : N;                  (* is_hugetlbfs(): 0 None, 1 Some(false), 2 Some(true) *)
  ou_mprot : N }.               (* the mapping at as_ptr() in /proc/self/maps: r 1, w 2, x 4, shared 8; 16 = no line *)

Definition reasons_u (c : case15u) : list N :=
  match cu_file c with
  | Some (flen, start) =>
      if W64 <=? start + cu_size c then [1]                    (* file range overflows *)
      else if flen <? start + cu_size c then [4] else []       (* extends past EOF *)
  | None => [] end ++
  match cu_base c with
  | Some b => if W64 <=? b + cu_size c then [6] else []        (* beyond the address space *)
  | None => [] end.

Definition ok_C15xu (c : case15u) (o : obs15u) : bool :=
  let rs := reasons_u c in
  let os_refuses := ou_probe o =? 0 in
  match rs with
  | _ :: _ =>
      negb (ou_res o =? 0) && (mem (ou_res o) rs || (os_refuses && (ou_res o =? 5))) && (ou_d2 o =? 0)
  | [] =>
      if os_refuses then (ou_res o =? 5) && (ou_d2 o =? 0)
      else
        (ou_res o =? 0) && (ou_size o =? cu_size c) &&
        match cu_file c with
        | Some (_, start) => ou_hasfile o && (ou_start o =? start) && ou_samefd o
        | None => negb (ou_hasfile o) end &&
        (ou_xflags o =? 0) &&                                  (* a Xen-UNIX range was asked for *)
        (ou_huge o =? cu_huge c) &&
        (ou_d2 o =? 0) &&                                      (* dropping the region releases everything *)
        (* the reported protection / flags describe the mapping that was made *)
        (ou_mprot o =? N.land (ou_prot o) 7 + (if hasbit (ou_flags o) 1 then 8 else 0)) &&
        (* a file was handed in: the region is a shared mapping of it, coherent in both directions *)
        match cu_file c with
        | Some _ => if ou_coh1 o =? 2 then true else (ou_coh1 o =? 1) && (ou_coh2 o =? 1)
        | None => true end
  end.
