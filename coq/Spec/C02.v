(* C02 - Guest address queries answer exactly according to the set of mapped regions.
   The checker is written from the property text: a collection is a list of intervals
   [start, start+len) of the 64-bit address space; every answer is recomputed from that set by
   exact arithmetic in N (existsb / forallb over the regions).  It does not use Impl/Guest.v.

   Observation format (shared with the harness): k x y z [l1 l2]
     k = 0 None / false, 1 Some / true / Ok / plain value, 2 Err (x = error class), 3 panicked *)
From VM Require Import Prelude.MachInt Prelude.Outcome Prelude.Tok.

Inductive qop :=
  | QFind | QToRegionAddr | QAddressInRange | QCheckAddress | QCheckedOffset | QCheckRange
  | QLastAddr | QHostAddress | QGetSlice | QIter
  | RLastAddr | RAddressInRange | RCheckAddress | RCheckedOffset | RToRegionAddr
  (* region-level accessors: region.get_host_address(b), region.get_slice(b, c), region.as_volatile_slice(),
     region.file_offset()   (c2_a = region index) *)
  | RHostAddress | RGetSlice | RAsVolatileSlice | RFileOffset.

(* c2_L: (start, len) of every region, in collection order.  c2_a c2_b c2_c: the arguments
   (guest address / base, offset / length / count); for the R* queries c2_a is the region index *)
(* c2_host / c2_slice: the configuration - does the implementor's region type PROVIDE host addresses /
   slices (true), or does it rely on the trait's provided method for that capability (false)?  A
   region type that provides the capability must grant it exactly where the property says; one that
   does not may refuse everywhere, but whatever it grants must still be inside the region. *)
Record case02 := { c2_mode : mode; c2_L : list (N * N); c2_op : qop; c2_a : N; c2_b : N; c2_c : N;
                   c2_host : bool; c2_slice : bool }.
Record obs02 := { o2_k : N; o2_x : N; o2_y : N; o2_z : N; o2_l1 : list N; o2_l2 : list N }.

(* the set-theoretic reading *)
Definition inreg (p : N * N) (a : N) : bool := (fst p <=? a) && (a <? fst p + snd p).
Definition mappedb (L : list (N * N)) (a : N) : bool := (a <? W64) && existsb (fun p => inreg p a) L.
Definition nthr (L : list (N * N)) (i : N) : N * N :=
  if i <? N.of_nat (length L) then nth (N.to_nat i) L (0, 0) else (0, 0).
(* every byte of [a, a+n) is an address (< 2^64) and is mapped, n >= 1: a is mapped and no mapped
   run ends inside the range, i.e. every region end e with a < e < a+n is itself mapped
   (proved equivalent to the pointwise statement: Proofs/C02.v all_mapped_iff) *)
Definition all_mapped (L : list (N * N)) (a n : N) : bool :=
  (a + n <=? W64) && mappedb L a &&
  forallb (fun p => let e := fst p + snd p in
                    if (a <? e) && (e <? a + n) then mappedb L e else true) L.

Definition is_none (o : obs02) : bool := o2_k o =? 0.
Definition is_err (o : obs02) : bool := o2_k o =? 2.
Definition some1 (c : bool) (v : N) (o : obs02) : bool :=
  if c then (o2_k o =? 1) && (o2_x o =? v) else is_none o.
Definition boolobs (c : bool) (o : obs02) : bool := o2_k o =? (if c then 1 else 0).
Fixpoint list_eqbN (a b : list N) : bool :=
  match a, b with [], [] => true | x :: a', y :: b' => (x =? y) && list_eqbN a' b' | _, _ => false end.

(* "granted exactly" for a provider; "granted only there" for a type that relies on the default *)
Definition granted (provides should : bool) (right : bool) (o : obs02) : bool :=
  if should then (if provides then right else right || is_err o) else is_err o.

Definition ok_C02 (c : case02) (o : obs02) : bool :=
  let L := c2_L c in let a := c2_a c in let b := c2_b c in
  match c2_op c with
  | QFind =>                       (* the one region whose range contains the address, else nothing *)
      if mappedb L a then (o2_k o =? 1) && (o2_x o <? N.of_nat (length L)) && inreg (nthr L (o2_x o)) a
      else is_none o
  | QToRegionAddr =>               (* ... together with the right offset *)
      if mappedb L a then (o2_k o =? 1) && (o2_x o <? N.of_nat (length L)) && inreg (nthr L (o2_x o)) a
                          && (o2_y o =? a - fst (nthr L (o2_x o)))
      else is_none o
  | QAddressInRange => boolobs (mappedb L a) o
  | QCheckAddress => some1 (mappedb L a) a o
  | QCheckedOffset => some1 (mappedb L (a + b)) (a + b) o
  | QCheckRange =>                 (* valid exactly when every byte is mapped; judged for len >= 1 (DESIGN 8) *)
      if b =? 0 then true else boolobs (all_mapped L a b) o
  | QLastAddr =>                   (* the greatest mapped address; empty collection not judged *)
      match L with [] => true | _ :: _ =>
        (o2_k o =? 1) && mappedb L (o2_x o) && forallb (fun p => fst p + snd p - 1 <=? o2_x o) L end
  | QHostAddress =>                (* ... and host pointer: region's host base + offset *)
      granted (c2_host c) (mappedb L a)
        ((o2_k o =? 1) && (o2_x o <? N.of_nat (length L)) && inreg (nthr L (o2_x o)) a
         && (o2_y o =? a - fst (nthr L (o2_x o)))) o
  | QGetSlice =>                   (* granted exactly for the non-empty ranges contained in one region *)
      if b =? 0 then true else
      granted (c2_slice c) (existsb (fun p => inreg p a && (a + b <=? fst p + snd p)) L && (a <? W64))
        ((o2_k o =? 1) && (o2_x o <? N.of_nat (length L)) && inreg (nthr L (o2_x o)) a
         && (a + b <=? fst (nthr L (o2_x o)) + snd (nthr L (o2_x o)))
         && (o2_y o =? a - fst (nthr L (o2_x o))) && (o2_z o =? b)) o
  | QIter =>                       (* num_regions / iter expose the collection in order *)
      (o2_k o =? 1) && (o2_x o =? N.of_nat (length L))
      && list_eqbN (o2_l1 o) (map fst L) && list_eqbN (o2_l2 o) (map snd L)
  | RLastAddr => (o2_k o =? 1) && (o2_x o =? fst (nthr L a) + snd (nthr L a) - 1)
  | RAddressInRange => boolobs (b <? snd (nthr L a)) o
  | RCheckAddress => some1 (b <? snd (nthr L a)) b o
  | RCheckedOffset => some1 (b + c2_c c <? snd (nthr L a)) (b + c2_c c) o
  | RToRegionAddr => some1 (inreg (nthr L a) b) (b - fst (nthr L a)) o
  (* a region-level accessor is granted only inside the region.  Host pointer for offset b: the
     region's host base + b, for b < len (o2_x = pointer - host base of THAT region, mod 2^64) *)
  | RHostAddress => granted (c2_host c) (b <? snd (nthr L a)) ((o2_k o =? 1) && (o2_x o =? b)) o
  (* slice [b, b+n), n >= 1: only if b + n <= len (exact sum: a count that would wrap is refused);
     then it starts at host base + b and has n bytes.  n = 0 not judged (DESIGN section 8) *)
  | RGetSlice =>
      if c2_c c =? 0 then true else
      granted (c2_slice c) (b + c2_c c <=? snd (nthr L a))
        ((o2_k o =? 1) && (o2_x o =? b) && (o2_y o =? c2_c c)) o
  (* the region-wide slice is the range [0, len) of that region *)
  | RAsVolatileSlice =>
      granted (c2_slice c) true ((o2_k o =? 1) && (o2_x o =? 0) && (o2_y o =? snd (nthr L a))) o
  | RFileOffset => true            (* the property does not speak about backing files: correspondence only *)
  end.
