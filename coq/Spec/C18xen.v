(* C18 on the Xen flavour of the crate - "zero-length accesses are successful no-ops at every layer ... and
   on Xen regions mapped in advance and on demand".
   Case / observation records and the executable checker ok_C18x, written from the property text.

   A case is a C18 case (Spec/C18.v: layer, entry point, container, address, parameters) whose layout is ONE
   Xen region of kind rkind (0 unix, 1 foreign, 2 grant mapped in advance, 3 grant mapped ON DEMAND) of
   [size] bytes at guest address [gbase]; the grant / foreign device is emulated (harness).

   What the text demands in addition to C18's own verdict (Ok, count 0, no byte changed, nothing moved on
   the caller's side, no panic): an access that names no bytes touches no memory - so it must not MAP any
   either: the device sees no request at all (no map ioctl, no unmap ioctl), no grant window is live
   afterwards, and the set of device pages mapped into the process is what it was before the call. *)
From VM Require Import Prelude.MachInt Prelude.Outcome Spec.C18.

Record case18x := {
  kx_base : case18;       (* c_regs = [(gbase, size)], c_ri = 0, c_ps = page *)
  kx_rkind : N;
  kx_page : N }.

(* evs: the device log of the call, flattened (1 gref count index = map ioctl | 2 index count = unmap ioctl);
   live: grant mappings the device holds after the call; mapped: bytes of the device file mapped into the
   process after the call (from /proc/self/maps) *)
Record obs18x := { ox_base : obs18; ox_evs : list N; ox_live : N; ox_mapped : N }.

Definition kx_size (c : case18x) : N := snd (nth 0 (c_regs (kx_base c)) (0, 0)).
(* whole pages *)
Definition span18 (ps size : N) : N := ((size + ps - 1) / ps) * ps.

(* what was there BEFORE the call and has to be there, unchanged, after it: the region's own mapping
   (foreign and advance-mapped grant regions map the device file; a unix region is anonymous memory; an
   on-demand region has nothing mapped between accesses) and its own grant (advance-mapped grant only) *)
Definition own_live (c : case18x) : N := if kx_rkind c =? 2 then 1 else 0.
Definition own_mapped (c : case18x) : N :=
  if (kx_rkind c =? 1) || (kx_rkind c =? 2) then span18 (kx_page c) (kx_size c) else 0.

Definition ok_C18x (c : case18x) (o : obs18x) : bool :=
  ok_C18 (kx_base c) (ox_base o)
  && is_nil (ox_evs o)                     (* no map / unmap request for an access that names no bytes *)
  && (ox_live o =? own_live c)             (* no grant window left (and the region's own grant still there) *)
  && (ox_mapped o =? own_mapped c).        (* nothing mapped, nothing unmapped *)
