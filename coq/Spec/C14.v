(* C14 - stream transfers lose or duplicate nothing under short I/O, EINTR and errors.
   The checker is written from the property text.  It sees: the case (target, memory before, start
   address, count, operation, the script of per-call behaviours of the stream, the reader's source
   bytes) and the observation (result, number of calls the stream received, number of bytes the
   reader gave out / the writer accepted, the bytes the writer accepted, memory after), and demands
     - an interruption is always retried (never the last call) and never reported,
     - a hard error ends the transfer (it is the last call) and is reported; no error of that class
       is reported otherwise,
     - reads: the bytes consumed from the reader are stored at addr, addr+1, ... in order and every
       other byte of guest memory is unchanged (computed by a byte-by-byte write through the
       address map); writes: the bytes handed to the writer are the guest bytes at addr, addr+1, ...
       in order and memory is unchanged,
     - exact forms: success iff the full count was transferred (judged when count > 0 or the start
       address lies inside the target; a hard error takes precedence); up-to forms: Ok(n) has
       n = bytes moved; no form moves more than the requested count. *)
From VM Require Import Prelude.MachInt Prelude.Outcome Prelude.Tok Prelude.C1314List Impl.Io Impl.IoGuest.

Inductive target := TSlice (soff slen : N) | TRegion (r : region) | TGuest (L : list region).
Inductive op14 := RdUpTo | RdExact | WrUpTo | WrAll.
Record case14 := { c_mode : mode; c_target : target; c_mem : list N; c_addr : N; c_count : N;
                   c_op : op14; c_script : list beh; c_src : list N }.
(* o_rk: 0 Ok(n) 1 Ok(()) 2 UnexpectedEof 3 WriteZero 4 Interrupted 5 other io error 6 bounds /
   backend address 7 InvalidGuestAddress 8 PartialBuffer{a,b} 9 CallbackOutOfRange 10 GuestAddressOverflow 11 panic *)
Record obs14 := { o_rk : N; o_a : N; o_b : N; o_calls : N; o_moved : N; o_sink : list N; o_mem : list N }.

Definition is_read (o : op14) : bool := match o with RdUpTo | RdExact => true | _ => false end.
Definition is_exact (o : op14) : bool := match o with RdExact | WrAll => true | _ => false end.
Definition is_hard (b : beh) : bool := match b with HardErr => true | _ => false end.
Definition is_eintr (b : beh) : bool := match b with Eintr => true | _ => false end.

(* the behaviours of the first n calls: the script, then Zero for ever *)
Definition calls_made (script : list beh) (n : N) : list beh :=
  firstn (N.to_nat n) (script ++ repeat Zero (N.to_nat n)).

(* where the byte at address a of the target lives in the host byte list *)
Definition idx_of (t : target) (a : N) : option N :=
  match t with
  | TSlice soff slen => if a <? slen then Some (soff + a) else None
  | TRegion r => if a <? g_len r then Some (g_moff r + a) else None
  | TGuest L => match find (fun r => contains r a) L with
                | Some r => Some (g_moff r + (a - g_start r))
                | None => None
                end
  end.
Fixpoint flat_write (t : target) (m : list N) (a : N) (bs : list N) {struct bs} : option (list N) :=
  match bs with
  | [] => Some m
  | b :: rest =>
      match idx_of t a with
      | Some j => if j <? nlen m then flat_write t (mem_write m j [b]) (a + 1) rest else None
      | None => None
      end
  end.
Fixpoint flat_read (t : target) (m : list N) (a : N) (n : nat) {struct n} : option (list N) :=
  match n with
  | O => Some []
  | S n' =>
      match idx_of t a with
      | Some j =>
          match nth_error m (N.to_nat j), flat_read t m (a + 1) n' with
          | Some b, Some l => Some (b :: l)
          | _, _ => None
          end
      | None => None
      end
  end.

Definition ok_C14 (c : case14) (o : obs14) : bool :=
  let t := c_target c in
  let made := calls_made (c_script c) (o_calls o) in
  let hard := existsb is_hard made in
  let judged := (0 <? c_count c) || match idx_of t (c_addr c) with Some _ => true | None => false end in
  negb (o_rk o =? 4) && negb (is_eintr (last made Zero))
  && (if hard then (o_rk o =? 5) && negb (existsb is_hard (removelast made)) else negb (o_rk o =? 5))
  && (if is_read (c_op c) then
        (o_moved o <=? nlen (c_src c)) && list_eqb (o_sink o) []
        && match flat_write t (c_mem c) (c_addr c) (ntake (o_moved o) (c_src c)) with
           | Some m' => list_eqb m' (o_mem o)
           | None => false
           end
      else
        list_eqb (o_mem o) (c_mem c) && (nlen (o_sink o) =? o_moved o)
        && match flat_read t (c_mem c) (c_addr c) (N.to_nat (o_moved o)) with
           | Some l => list_eqb l (o_sink o)
           | None => false
           end)
  && (if is_exact (c_op c) then
        negb (o_rk o =? 0)
        && (if hard || negb judged then true else Bool.eqb (o_rk o =? 1) (o_moved o =? c_count c))
      else
        negb (o_rk o =? 1) && (if o_rk o =? 0 then o_a o =? o_moved o else true))
  && (o_moved o <=? c_count c).                     (* never more than the requested count *)
