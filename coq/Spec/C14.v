(* C14 - stream transfers lose or duplicate nothing under short I/O, EINTR and errors.
   The checker is written from the property text.  It sees: the case (target, memory before, start
   address, count, operation, the script of per-call behaviours of the stream, the reader's source
   bytes) and the observation (result, number of calls the stream received, number of bytes the
   reader gave out / the writer accepted, the bytes the writer accepted, memory after), and demands
     - an interruption is always retried (never the last call) and never reported,
     - a hard error ends the transfer (it is the last call) and is reported; no error of that class
       is reported otherwise,
     - reads: the bytes consumed from the reader are stored at addr, addr+1, ... in order and every
       other byte of guest memory is unchanged (computed by a byte-by-byte write through the
       address map); writes: the bytes handed to the writer are the guest bytes at addr, addr+1, ...
       in order and memory is unchanged,
     - exact forms: success iff the full count was transferred (judged when count > 0 or the start
       address lies inside the target; a hard error takes precedence); up-to forms: Ok(n) has
       n = bytes moved; no form moves more than the requested count;
     - PROGRESS ("the exact forms return success precisely when the full count was transferred", "any other stream
       error ends the transfer"): an exact form may end WITHOUT success only after a hard stream error, after a call
       that answered zero bytes (end of stream / write-zero), when the stream cannot supply the count at all, or at
       the end of the mapped range; it may not give up while the stream still delivers ([progress_ok]). *)
From VM Require Import Prelude.MachInt Prelude.Outcome Prelude.Tok Prelude.C1314List Impl.Io Impl.IoGuest.

Inductive target := TSlice (soff slen : N) | TRegion (r : region) | TGuest (L : list region).
Inductive op14 := RdUpTo | RdExact | WrUpTo | WrAll.
Record case14 := { c_mode : mode; c_target : target; c_mem : list N; c_addr : N; c_count : N;
                   c_op : op14; c_script : list beh; c_src : list N }.
(* o_rk: 0 Ok(n) 1 Ok(()) 2 UnexpectedEof 3 WriteZero 4 Interrupted 5 other io error 6 bounds /
   backend address 7 InvalidGuestAddress 8 PartialBuffer{a,b} 9 CallbackOutOfRange 10 GuestAddressOverflow 11 panic *)
Record obs14 := { o_rk : N; o_a : N; o_b : N; o_calls : N; o_moved : N; o_sink : list N; o_mem : list N }.

Definition is_read (o : op14) : bool := match o with RdUpTo | RdExact => true | _ => false end.
Definition is_exact (o : op14) : bool := match o with RdExact | WrAll => true | _ => false end.
Definition is_hard (b : beh) : bool := match b with HardErr => true | _ => false end.
Definition is_eintr (b : beh) : bool := match b with Eintr => true | _ => false end.

(* the behaviours of the first n calls: the script, then Zero for ever *)
Definition calls_made (script : list beh) (n : N) : list beh :=
  firstn (N.to_nat n) (script ++ repeat Zero (N.to_nat n)).

(* where the byte at address a of the target lives in the host byte list *)
Definition idx_of (t : target) (a : N) : option N :=
  match t with
  | TSlice soff slen => if a <? slen then Some (soff + a) else None
  | TRegion r => if a <? g_len r then Some (g_moff r + a) else None
  | TGuest L => match find (fun r => contains r a) L with
                | Some r => Some (g_moff r + (a - g_start r))
                | None => None
                end
  end.
Fixpoint flat_write (t : target) (m : list N) (a : N) (bs : list N) {struct bs} : option (list N) :=
  match bs with
  | [] => Some m
  | b :: rest =>
      match idx_of t a with
      | Some j => if j <? nlen m then flat_write t (mem_write m j [b]) (a + 1) rest else None
      | None => None
      end
  end.
Fixpoint flat_read (t : target) (m : list N) (a : N) (n : nat) {struct n} : option (list N) :=
  match n with
  | O => Some []
  | S n' =>
      match idx_of t a with
      | Some j =>
          match nth_error m (N.to_nat j), flat_read t m (a + 1) n' with
          | Some b, Some l => Some (b :: l)
          | _, _ => None
          end
      | None => None
      end
  end.

(* the conservation / result-kind part *)
Definition ok_C14_core (c : case14) (o : obs14) : bool :=
  let t := c_target c in
  let made := calls_made (c_script c) (o_calls o) in
  let hard := existsb is_hard made in
  let judged := (0 <? c_count c) || match idx_of t (c_addr c) with Some _ => true | None => false end in
  negb (o_rk o =? 4) && negb (is_eintr (last made Zero))
  && (if hard then (o_rk o =? 5) && negb (existsb is_hard (removelast made)) else negb (o_rk o =? 5))
  && (if is_read (c_op c) then
        (o_moved o <=? nlen (c_src c)) && list_eqb (o_sink o) []
        && match flat_write t (c_mem c) (c_addr c) (ntake (o_moved o) (c_src c)) with
           | Some m' => list_eqb m' (o_mem o)
           | None => false
           end
      else
        list_eqb (o_mem o) (c_mem c) && (nlen (o_sink o) =? o_moved o)
        && match flat_read t (c_mem c) (c_addr c) (N.to_nat (o_moved o)) with
           | Some l => list_eqb l (o_sink o)
           | None => false
           end)
  && (if is_exact (c_op c) then
        negb (o_rk o =? 0)
        && (if hard || negb judged then true else Bool.eqb (o_rk o =? 1) (o_moved o =? c_count c))
      else
        negb (o_rk o =? 1) && (if o_rk o =? 0 then o_a o =? o_moved o else true))
  && (o_moved o <=? c_count c).                     (* never more than the requested count *)

(* ---- progress of the exact forms.  [made]: the behaviours of the calls the stream received; [left]: how many
   bytes the stream could still deliver / take after the transfer (None: no bound - a scripted writer, a Vec, a file).
   An exact form that did not succeed and saw no hard error must have one of these excuses:
     the mapped range ended where the transfer stopped (the next target address is not mapped);
     the request was refused before any call because its range does not lie inside the target;
     the last call answered zero bytes (scripted Zero / Short 0 - after the script a scripted stream answers Zero);
     the stream cannot supply / take the full count (what it moved plus what it has left is less than the count). *)
Definition zeroish (b : beh) : bool := match b with Zero => true | Short k => k =? 0 | _ => false end.
(* (written with [if]: no unary number is built from a count larger than the memory, also under call-by-value) *)
Definition fully_mapped (t : target) (m : list N) (addr count : N) : bool :=
  if count <=? nlen m then match flat_read t m addr (N.to_nat count) with Some _ => true | None => false end
  else false.
Definition progress_ok (t : target) (m : list N) (addr count moved calls : N) (made : list beh) (left : option N) : bool :=
  match idx_of t (addr + moved) with None => true | Some _ => false end
  || ((moved =? 0) && (calls =? 0) && negb (fully_mapped t m addr count))
  || match made with [] => false | _ => zeroish (last made Zero) end
  || match left with Some l => l + moved <? count | None => false end.
(* when the clause applies: exact form, no success, no hard error among the calls, and (as for the Ok-iff-full
   clause) count > 0 or a start address inside the target *)
Definition progress_applies (t : target) (addr count : N) (op : op14) (rk : N) (made : list beh) : bool :=
  is_exact op && negb (rk =? 1) && negb (existsb is_hard made)
  && ((0 <? count) || match idx_of t addr with Some _ => true | None => false end).

Definition progress14 (c : case14) (o : obs14) : bool :=
  let made := calls_made (c_script c) (o_calls o) in
  if progress_applies (c_target c) (c_addr c) (c_count c) (c_op c) (o_rk o) made
  then progress_ok (c_target c) (c_mem c) (c_addr c) (c_count c) (o_moved o) (o_calls o) made
         (if is_read (c_op c) then Some (nlen (c_src c) - o_moved o) else None)
  else true.

Definition ok_C14 (c : case14) (o : obs14) : bool := ok_C14_core c o && progress14 c o.
