(* C03walk - spec checker for the PUBLIC GuestMemory::try_access driven with an arbitrary callback.
   Written from the property text ("transfers, in order, exactly the bytes of the longest run of consecutively
   mapped addresses starting there ... placing each byte in the region and offset that owns its address even when
   the run crosses region boundaries") and from C19 ("reports overflow instead of wrapping into a valid address"):

   the walk offers the callback consecutive chunks; chunk j starts at the guest address  addr + K_j  where K_j is the
   EXACT sum of the counts the callback reported so far (no wrap-around), lies in the one region that owns that
   address, starts at that region's own offset and is as long as the region and the remaining count allow.  The walk
   ends at the first hole, at the top of the address space, when the count is reached, when the callback reports 0
   or an error, or when the callback reports more than was left (an error).  No chunk is ever offered at an address
   obtained by wrapping around 2^64.

   A callback may be dishonest (report more than it was offered); that is why this is checked on the call log and
   not on memory contents.  Independent of the implementation model (Impl/Guest.v). *)
From VM Require Import Prelude.MachInt Prelude.Outcome Spec.C02.

(* one callback invocation as observed: arguments (total, len, region offset, region index) and what the callback
   answered (wc_rk = 0: Ok(wc_rv); 1: Err of class wc_rv) *)
Record wcall := { wc_k : N; wc_len : N; wc_start : N; wc_i : N; wc_rk : N; wc_rv : N }.
Record wcase := { w_mode : mode; w_L : list (N * N); w_count : N; w_addr : N; w_script : list (N * N) }.
(* wo_k = 1: Ok(wo_v); 2: Err of class wo_v; 3: panic *)
Record wobs := { wo_calls : list wcall; wo_k : N; wo_v : N }.

Definition is_nil {A} (l : list A) : bool := match l with [] => true | _ => false end.

Fixpoint walk_ok (L : list (N * N)) (count addr K : N) (calls : list wcall) (rk rv : N) {struct calls} : bool :=
  match calls with
  | [] =>
      if K =? 0 then
        (* nothing was offered: only because the first address is unmapped, reported as an invalid address *)
        negb (mappedb L addr) && (rk =? 2) && (rv =? 1)
      else
        (* stopped after K bytes short of the count: at a hole or at the very top of the address space *)
        (rk =? 1) && (rv =? K) && (K <? count) &&
        ((addr + K =? W64) || ((addr + K <? W64) && negb (mappedb L (addr + K))))
  | c :: rest =>
      let A := addr + K in
      let p := nthr L (wc_i c) in
      (A <? W64) && (wc_i c <? N.of_nat (length L)) && inreg p A &&
      (wc_k c =? K) && (wc_start c =? A - fst p) &&
      (wc_len c =? N.min (fst p + snd p - A) (count - K)) && ((K <? count) || (K =? 0)) &&
      (if wc_rk c =? 0 then
         let n := wc_rv c in
         if n =? 0 then is_nil rest && (rk =? 1) && (rv =? K)                (* "no more data" *)
         else
           let K' := K + n in
           if count <? K' then is_nil rest && (rk =? 2)                       (* reported more than was left *)
           else if K' =? count then is_nil rest && (rk =? 1) && (rv =? count)
           else if W64 <? addr + K' then is_nil rest && (rk =? 2)             (* overflow is an error, never a wrapped address *)
           else walk_ok L count addr K' rest rk rv
       else is_nil rest && (rk =? 2) && (rv =? wc_rv c))                      (* the callback's error is the result *)
  end.

Definition ok_C03walk (c : wcase) (o : wobs) : bool :=
  walk_ok (w_L c) (w_count c) (w_addr c) 0 (wo_calls o) (wo_k o) (wo_v o).
