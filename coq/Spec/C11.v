(* C11 - a memory-map snapshot stays whole and usable while the map is being replaced.
   Executable checker written from the property text.  It knows nothing about reference counts:
   it tracks WHO CAN STILL REACH a map (the replaceable cell and the live snapshot handles) and
   demands, after every operation of a sequential history,
     - a snapshot shows the map that is current at that moment (hence a map that was current, and
       the new one once a replacement completed),
     - a handle and all its clones keep showing the map they showed first,
     - every map that is current or shown by a live handle is still mapped, every other map that
       was ever published is not (the observation is the set of maps whose backing file is mapped),
     - the update lock is exclusive, only its holder replaces, a replacement publishes a fresh map.
   Wire operations (sequential histories over thread slots = clones of one GuestMemoryAtomic):
     0 Load t | 1 Clone h | 2 IntoInner h | 3 Use h | 4 Drop h | 5 Lock t | 6 ReadCur t
     7 Replace t (= store, then unlock: `replace` consumes the guard) | 8 Unlock t | other: no-op
   Observation per operation: st (1 done, 0 not possible / blocked), val (the map id seen or
   published; 0 when none), live (bit g set iff map g is still mapped). *)
From VM Require Import Prelude.MachInt.

Inductive wop := WLoad (t : N) | WClone (i : nat) | WInto (i : nat) | WUse (i : nat) | WDrop (i : nat)
  | WLock (t : N) | WReadCur (t : N) | WReplace (t : N) | WUnlock (t : N) | WNop.
Record wobs := { w_st : N; w_val : N; w_live : N }.

(* bit mask of { g < n | p g } *)
Fixpoint mask_upto (n : nat) (p : N -> bool) {struct n} : N :=
  match n with
  | O => 0
  | S k => mask_upto k p + (if p (N.of_nat k) then 2 ^ N.of_nat k else 0)
  end.

Record sstate := {
  s_cur : N;                             (* the map a snapshot taken now must show *)
  s_n : N;                               (* maps published so far (ids 0..n-1) *)
  s_hs : list (option (bool * N));       (* live snapshot handles: (is an owned Arc, map shown) *)
  s_holder : option N                    (* who holds the update lock *)
}.
Definition sinit : sstate := {| s_cur := 0; s_n := 1; s_hs := []; s_holder := None |}.

Definition s_get (s : sstate) (i : nat) : option (bool * N) :=
  match nth_error (s_hs s) i with Some (Some x) => Some x | _ => None end.
Definition shown (hs : list (option (bool * N))) (g : N) : bool :=
  existsb (fun o => match o with Some (_, g') => g' =? g | None => false end) hs.
Definition reachable_map (s : sstate) (g : N) : bool := (g =? s_cur s) || shown (s_hs s) g.
Definition expected_live (s : sstate) : N := mask_upto (N.to_nat (s_n s)) (reachable_map s).

Fixpoint sset_nth {A} (l : list A) (i : nat) (v : A) {struct l} : list A :=
  match l, i with
  | [], _ => []
  | _ :: r, O => v :: r
  | x :: r, S j => x :: sset_nth r j v
  end.

Definition with_hs (s : sstate) (hs : list (option (bool * N))) : sstate :=
  {| s_cur := s_cur s; s_n := s_n s; s_hs := hs; s_holder := s_holder s |}.
Definition with_holder (s : sstate) (h : option N) : sstate :=
  {| s_cur := s_cur s; s_n := s_n s; s_hs := s_hs s; s_holder := h |}.
Definition holds (s : sstate) (t : N) : bool :=
  match s_holder s with Some t' => t' =? t | None => false end.

(* what the operation must look like; None = the observation violates the property *)
Definition spec_op (s : sstate) (o : wop) (b : wobs) : option sstate :=
  let done := w_st b =? 1 in
  let refused := w_st b =? 0 in
  match o with
  | WLoad _ =>
      if done && (w_val b =? s_cur s) then Some (with_hs s (s_hs s ++ [Some (false, s_cur s)])) else None
  | WClone i =>
      match s_get s i with
      | Some (k, g) => if done && (w_val b =? g) then Some (with_hs s (s_hs s ++ [Some (k, g)])) else None
      | None => if refused then Some s else None end
  | WInto i =>
      match s_get s i with
      | Some (false, g) => if done && (w_val b =? g) then Some (with_hs s (sset_nth (s_hs s) i (Some (true, g)))) else None
      | _ => if refused then Some s else None end
  | WUse i =>
      match s_get s i with
      | Some (_, g) => if done && (w_val b =? g) then Some s else None
      | None => if refused then Some s else None end
  | WDrop i =>
      match s_get s i with
      | Some _ => if done then Some (with_hs s (sset_nth (s_hs s) i None)) else None
      | None => if refused then Some s else None end
  | WLock t =>
      match s_holder s with
      | None => if done then Some (with_holder s (Some t)) else None
      | Some _ => if refused then Some s else None end              (* exclusion *)
  | WReadCur t =>
      if holds s t then (if done && (w_val b =? s_cur s) then Some s else None)
      else if refused then Some s else None
  | WReplace t =>
      if holds s t then
        (if done && (w_val b =? s_n s)
         then Some {| s_cur := s_n s; s_n := s_n s + 1; s_hs := s_hs s; s_holder := None |} else None)
      else if refused then Some s else None
  | WUnlock t =>
      if holds s t then (if done then Some (with_holder s None) else None)
      else if refused then Some s else None
  | WNop => if refused then Some s else None
  end.

Definition spec_step (s : sstate) (o : wop) (b : wobs) : option sstate :=
  match spec_op s o b with
  | Some s' => if w_live b =? expected_live s' then Some s' else None
  | None => None end.

Fixpoint ok_from (s : sstate) (ops : list wop) (obs : list wobs) {struct ops} : bool :=
  match ops, obs with
  | [], [] => true
  | o :: ops', b :: obs' =>
      match spec_step s o b with Some s' => ok_from s' ops' obs' | None => false end
  | _, _ => false
  end.
Definition ok_C11 (ops : list wop) (obs : list wobs) : bool := ok_from sinit ops obs.

(* ---- structure probes (suite C11probe) -------------------------------------------------
   kind 0: an updater replaces the map n times while a reader holds (hold=1) or does not hold
           (hold=0) a guard on the map being replaced.  The harness map type reports from its Drop
           whether it ran inside `replace` and whether the update mutex was still held then.
           obs per replacement: in_store, held.   Property: a replacement is published while the lock
           is still held (held = 1 whenever the old map dies inside the store), and the old map dies
           inside the store exactly when nothing else reaches it.
   kind 1: a second updater calls lock() while the first holds the lock (must not get it), and gets
           it after the first replaced the map.  obs: got_while_held, got_after. *)
Definition ok_probe0 (n hold : N) (obs : list N) : bool :=
  (fix go (k : nat) (first : bool) (o : list N) {struct k} : bool :=
     match k, o with
     | O, [] => true
     | S k', ins :: held :: o' =>
         let expect_in := if first then negb (hold =? 1) else true in
         (ins =? (if expect_in then 1 else 0)) && (if expect_in then held =? 1 else true) && go k' false o'
     | _, _ => false end) (N.to_nat n) true obs.
Definition ok_probe1 (obs : list N) : bool :=
  match obs with [a; b] => (a =? 0) && (b =? 1) | _ => false end.

(* ---- stress (suite C11mt): r reader threads, u updater threads doing k replacements each, every
   replacement derived from the map read under the lock (tag + 1).  obs: number of reader
   observations that were torn / went backwards / hit unmapped memory, final tag, maps still
   mapped at the end besides the current one.  Property: 0, u*k (no replacement lost), 0. *)
Definition ok_mt (u k : N) (obs : list N) : bool :=
  match obs with [bad; final; leaked] => (bad =? 0) && (final =? u * k) && (leaked =? 0) | _ => false end.
