(* C08 - a dirty mark is never lost when marking races with harvesting the bitmap.

   The checker is written from the property text and looks only at what the API returned and at
   the final bitmap (not at the primitive log, which is used for the correspondence only):
     (a) conservation: every page marked by an operation (or marked before the threads start) is
         contained in the result of some fetch-and-clear, or was explicitly cleared by a
         reset-range / reset-bit / reset() operation, or is still set at the end - where a
         fetch-and-clear / clearing operation that precedes the mark in the SAME thread's program
         does not count (it certainly ran before the mark);
     (b) no invention: every page reported by a fetch-and-clear, a clone or is_bit_set is below
         the page count and was marked by somebody (initially, or by an operation that does not
         follow the reporting one in the same thread);
     (c) the final bitmap contains only pages below the page count that somebody marked.
   Two concurrent marks in one word erasing one another would violate (a). *)
From VM Require Import Prelude.MachInt Prelude.Outcome Prelude.Tok.
From VM Require Export Impl.BitmapConc.   (* only for the [cop] enumeration shared with the model *)
From VM Require Import Spec.C09.           (* pages_for, overlaps, nrange: the page arithmetic of the property text *)

Record case08 := { k_bytes : N; k_ps : N; k_init : list N; k_sched : list N; k_threads : list (list cop) }.
(* log entries [tid; op; kind; word; operand; old]; results per thread per operation *)
Record obs08 := { b_log : list (list N); b_final : list N; b_results : list (list (list N)) }.

Definition k_count (c : case08) : N := pages_for (k_bytes c) (k_ps c).
Definition k_nwords (c : case08) : N := pages_for (k_count c) 64.

(* an operation instance: thread, index in the thread's program, operation, what it returned *)
Record opi := { i_tid : N; i_idx : N; i_op : cop; i_res : list N }.

Fixpoint zip_ops (t : N) (j : N) (ops : list cop) (rs : list (list N)) {struct ops} : list opi :=
  match ops with
  | [] => []
  | o :: ops' =>
      {| i_tid := t; i_idx := j; i_op := o; i_res := hd [] rs |} :: zip_ops t (N.succ j) ops' (tl rs)
  end.
Fixpoint zip_threads (t : N) (ths : list (list cop)) (rss : list (list (list N))) {struct ths} : list opi :=
  match ths with
  | [] => []
  | ops :: ths' => zip_ops t 0 ops (hd [] rss) ++ zip_threads (N.succ t) ths' (tl rss)
  end.

Definition marks (c : case08) (x : opi) (p : N) : bool :=
  (p <? k_count c) &&
  match i_op x with
  | CSetRange a l => overlaps (k_ps c) a l p
  | CSetBit i => p =? i
  | _ => false
  end.
Definition clears (c : case08) (x : opi) (p : N) : bool :=
  match i_op x with
  | CResetRange a l => overlaps (k_ps c) a l p
  | CResetBit i => p =? i
  | CReset => true
  | _ => false
  end.
Definition harvested (x : opi) (p : N) : bool :=
  match i_op x with
  | CHarvest => N.testbit (nth (N.to_nat (p / 64)) (i_res x) 0) (p mod 64)
  | _ => false
  end.
(* pages an operation reports as dirty *)
Definition reports (x : opi) (p : N) : bool :=
  match i_op x with
  | CHarvest => harvested x p
  | CClone => existsb (N.eqb p) (i_res x)
  | CIsBitSet i => (p =? i) && (match i_res x with [1] => true | _ => false end)
  | _ => false
  end.
Definition report_candidates (c : case08) (x : opi) : list N :=
  match i_op x with
  | CHarvest => nrange (64 * N.of_nat (length (i_res x)))
  | CClone => i_res x
  | CIsBitSet i => [i]
  | _ => []
  end.
(* x precedes y in the same thread's program *)
Definition before (x y : opi) : bool := (i_tid x =? i_tid y) && (i_idx x <? i_idx y).
Definition mem_of (l : list N) (p : N) : bool := existsb (N.eqb p) l.

Definition conserved (c : case08) (all : list opi) (final : list N) : bool :=
  forallb (fun p =>
    (* initial marks *)
    implb (mem_of (k_init c) p && (p <? k_count c))
          (mem_of final p || existsb (fun j => harvested j p || clears c j p) all) &&
    forallb (fun k =>
      implb (marks c k p)
            (mem_of final p || existsb (fun j => (harvested j p || clears c j p) && negb (before j k)) all))
      all)
    (nrange (k_count c)).
Definition somebody_marked (c : case08) (all : list opi) (x : option opi) (p : N) : bool :=
  (p <? k_count c) &&
  (mem_of (k_init c) p ||
   existsb (fun k => marks c k p && match x with Some j => negb (before j k) | None => true end) all).
Definition no_invention (c : case08) (all : list opi) (final : list N) : bool :=
  forallb (fun j => forallb (fun p => implb (reports j p) (somebody_marked c all (Some j) p))
                            (report_candidates c j)) all &&
  forallb (fun p => somebody_marked c all None p) final.
Definition shapes_ok (c : case08) (all : list opi) : bool :=
  forallb (fun j => match i_op j with
                    | CHarvest => N.of_nat (length (i_res j)) =? k_nwords c
                    | _ => true end) all.

Definition ok_C08 (c : case08) (o : obs08) : bool :=
  let all := zip_threads 0 (k_threads c) (b_results o) in
  (length (b_results o) =? length (k_threads c))%nat &&
  shapes_ok c all && conserved c all (b_final o) && no_invention c all (b_final o).

Definition wf_cop (o : cop) : bool :=
  match o with
  | CSetRange a l | CResetRange a l => u64b a && u64b l
  | CSetBit i | CResetBit i | CIsBitSet i => u64b i
  | _ => true
  end.
Definition wf_case08 (c : case08) : bool :=
  (0 <? k_ps c) && u64b (k_ps c) && u64b (k_bytes c) && forallb (forallb wf_cop) (k_threads c).
