(* C05 (dirty tracking is sound) and C16 (dirty tracking is precise): executable checkers
   written from the property text.  They look ONLY at what was observed on the real library:
   the per-region dirty bitmap before/after each step (scanned with dirty_at over all pages plus a
   margin) and the bytes that actually changed (diff of raw-pointer snapshots, as runs).  They do
   not use the implementation model. *)
From VM Require Import Prelude.MachInt Prelude.Tok.

Record rgeom := { g_start : N; g_size : N; g_ps : N; g_tracked : bool }.
Record sobs := { s_ok : bool; s_count : N;
                 s_late : N;  (* pages holding a byte that changed AFTER the last mark_dirty call covering the
                                 page (observed by a probing Bitmap implementation; 0 where not probed) *)
                 s_dirty : list (list bool);        (* per region: page bits after the step (with margin) *)
                 s_changed : list (list (N * N)) }. (* per region: runs (offset, len) of bytes that changed *)

Fixpoint nthb (l : list bool) (p : N) : bool :=
  match l with [] => false | b :: r => if p =? 0 then b else nthb r (p - 1) end.

Definition byte_in_runs (runs : list (N * N)) (i : N) : bool :=
  existsb (fun '(o, n) => (o <=? i) && (i <? o + n)) runs.
(* does page p (bytes [p*ps, (p+1)*ps)) contain a changed byte? *)
Definition page_touched (ps : N) (runs : list (N * N)) (p : N) : bool :=
  existsb (fun '(o, n) => (0 <? n) && (o / ps <=? p) && (p <=? (o + n - 1) / ps)) runs.
(* all pages a run overlaps are dirty *)
Definition run_covered (ps : N) (d : list bool) (run : N * N) : bool :=
  let '(o, n) := run in
  if n =? 0 then true else
  forallb (fun k => nthb d (o / ps + N.of_nat k)) (seq 0 (N.to_nat ((o + n - 1) / ps - o / ps + 1))).

(* what sort of step it was (from the case, not the model); KFdError cnt: a descriptor read asked for
   cnt bytes that (may have) failed *)
Inductive skind := KWriteLike | KFdError (cnt : N) | KReset.

Definition indices (l : list bool) : list N := map N.of_nat (seq 0 (length l)).

(* C05 for one step and one region: every changed byte lies on a page reported dirty afterwards,
   and (no reset in this step) a page that was dirty stays dirty *)
Definition ok_C05_region (k : skind) (g : rgeom) (before after : list bool) (runs : list (N * N)) : bool :=
  if negb (g_tracked g) then true else
  match k with
  | KReset => true
  | _ => forallb (run_covered (g_ps g) after) runs &&
         forallb (fun p => implb (nthb before p) (nthb after p)) (indices before)
  end.

(* pages that are dirty after the step and were not before *)
Definition new_pages (before after : list bool) : list N :=
  filter (fun p => nthb after p && negb (nthb before p)) (indices after).
(* the pages lie within one window that a target of at most cnt > 0 bytes can overlap: a range of m bytes
   overlaps at most (m + ps - 2) / ps + 1 consecutive pages *)
Definition span_ok (ps cnt : N) (l : list N) : bool :=
  match l with
  | [] => true
  | p0 :: _ => (0 <? cnt) && (last l p0 - p0 <=? (cnt + ps - 2) / ps)
  end.

(* C16 for one step and one region: a page is newly dirty only if a byte on it was written
   (exception: a failed descriptor read may mark its whole target - written or not - but no more than
   a target: the newly dirty pages fit one window of the cnt bytes the call asked for); pages beyond
   the region's page count never read dirty *)
Definition ok_C16_region (k : skind) (g : rgeom) (before after : list bool) (runs : list (N * N)) : bool :=
  if negb (g_tracked g) then forallb negb after else
  let np := div_ceil (g_size g) (g_ps g) in
  forallb (fun p => implb (np <=? p) (negb (nthb after p))) (indices after) &&
  match k with
  | KReset => true
  | KFdError cnt => span_ok (g_ps g) cnt (new_pages before after)
  | KWriteLike =>
      forallb (fun p => implb (nthb after p && negb (nthb before p)) (page_touched (g_ps g) runs p)) (indices after)
  end.

Fixpoint zip3all (f : rgeom -> list bool -> list bool -> list (N * N) -> bool)
  (gs : list rgeom) (bs as_ : list (list bool)) (rs : list (list (N * N))) : bool :=
  match gs, bs, as_, rs with
  | [], [], [], [] => true
  | g :: gs', b :: bs', a :: as', r :: rs' => f g b a r && zip3all f gs' bs' as' rs'
  | _, _, _, _ => false
  end.

(* ... and no byte changes after the last mark_dirty call that covers its page: "reported dirty
   afterwards" has to survive a bitmap reset that falls between the two (the property quantifies over
   histories that interleave writes with resets; a consumer that resets and then copies the page
   between a premature mark and the store would miss the change for good) *)
Definition ok_C05_step (k : skind) (gs : list rgeom) (before : list (list bool)) (o : sobs) : bool :=
  match k with KReset => true | _ => s_late o =? 0 end &&
  zip3all (ok_C05_region k) gs before (s_dirty o) (s_changed o).
Definition ok_C16_step (k : skind) (gs : list rgeom) (before : list (list bool)) (o : sobs) : bool :=
  zip3all (ok_C16_region k) gs before (s_dirty o) (s_changed o).

(* whole history: thread the observed bitmaps through *)
Fixpoint ok_hist (f : skind -> list rgeom -> list (list bool) -> sobs -> bool)
  (gs : list rgeom) (before : list (list bool)) (ks : list skind) (os : list sobs) : bool :=
  match ks, os with
  | [], [] => true
  | k :: ks', o :: os' => f k gs before o && ok_hist f gs (s_dirty o) ks' os'
  | _, _ => false
  end.
