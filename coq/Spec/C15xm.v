(* C15, Xen build, WHAT WAS MAPPED (suite C15xm, 0.7.w9).  The requests are those of suite C15xen
   (MmapRegion::from_range(MmapRange{size, file?, prot?, flags?, addr, mmap_flags, mmap_data}), optionally wrapped
   in GuestRegionMmap::new): record case15x of Spec/C15.v.  Whether a request is accepted or refused is judged by
   ok_C15x on suite C15xen; this checker judges the ACCEPTED ones: "builds what was asked" -
     * the mapping the kernel made (permission column of /proc/self/maps at as_ptr(), for a region that holds a
       mapping of its own) shows exactly the requested protection bits, and is a shared mapping iff MAP_SHARED
       was requested (a foreign range is guest memory: always shared);
     * a Xen-UNIX range with a file shows byte offset+i of the file as its byte i, and a write through the region
       reaches the file iff MAP_SHARED was requested (a private mapping keeps its writes);
     * a foreign range of n pages at guest address A of domain d asks the hypervisor interface for the guest frames
       A/page, A/page + 1, .., A/page + n - 1 of domain d, to be installed at the address of the region.
   Where the request leaves protection / flags to the default, the reported value stands for the request. *)
From VM Require Import Prelude.MachInt Prelude.Outcome Prelude.Tok Spec.C15.

Record obs15m := {
  om_probe : N; om_res : N; om_prot : N; om_flags : N; om_ptrnull : bool;
  om_mprot : N;                 (* the mapping at as_ptr() in /proc/self/maps: r 1, w 2, x 4, shared 8; 16 = none *)
  om_coh1 : N; om_coh2 : N;     (* file->region, region->file: 1 equal, 0 different, 2 not examined *)
  om_fev : list N }.            (* [] or the privcmd batch request: dom, addr_ok (1 = address of the region), num, frame* *)

Fixpoint frames_from (first : N) (fr : list N) {struct fr} : bool :=
  match fr with
  | [] => true
  | f :: r => (f =? first) && frames_from (first + 1) r
  end.

Definition ok_C15xm (c : case15x) (o : obs15m) : bool :=
  if negb (om_res o =? 0) then true
  else
    let rprot := match cx_prot c with Some p => p | None => om_prot o end in
    let rflags := match cx_flags c with Some f => f | None => om_flags o end in
    let foreign := hasbit (cx_mflags c) 1 in
    (if om_ptrnull o then true
     else om_mprot o =? N.land rprot 7 + (if foreign || hasbit rflags 1 then 8 else 0)) &&
    (if (om_coh1 o =? 2) || hasbit rflags 32 then true
     else (om_coh1 o =? 1) && (om_coh2 o =? (if hasbit rflags 1 then 1 else 0))) &&
    (if foreign then
       match om_fev o with
       | dom :: aok :: num :: fr =>
           (dom =? cx_mdata c mod 65536) && (aok =? 1) && (num =? N.of_nat (length fr)) &&
           (cx_size c <=? num * cx_page c) && (num * cx_page c <? cx_size c + cx_page c) &&
           frames_from (cx_addr c / cx_page c) fr
       | _ => false end
     else true).
