(* C06 - aligned 1/2/4/8-byte guest accesses are never torn.
   Written from the property text only.

   (a) the executable checkers [ok_C06] / [ok_C06atomic], applied to what the harness observed on
       the REAL library (hook H1 trace of primitive accesses, canonicalised by the harness);
   (b) the memory semantics in which the "never a mixture" half of the property is stated:
       every primitive access is ONE atomic event on a byte-addressed memory, a schedule is an
       arbitrary interleaving of the event lists of the threads.  (That one read_volatile::<uN> /
       write_volatile::<uN> of an aligned location is one single-copy-atomic CPU access is the
       trusted part of the claim - see manifest.d/C06.json level_note.) *)
From VM Require Import Prelude.MachInt Prelude.Outcome Prelude.Tok.
From VM Require Import Impl.CopyPlan.   (* only for the type [access] of primitive accesses *)

(* ------------------------------------------------------------------ (a) checkers *)
(* entry-point token: bit 0 = direction (0: local -> guest "write", 1: guest -> local "read"),
   bit 1 = the harness cannot choose the address of the local value (objects passed by value,
   Vec): its residue mod 8 is then part of the observation, bit 2 = the local value is a
   primitive integer u8/u16/u32/u64 (naturally aligned by the compiler); bits 4.. = which API. *)
Definition ep_read (ep : N) : bool := N.testbit ep 0.
Definition ep_unctl (ep : N) : bool := N.testbit ep 1.
Definition ep_objint (ep : N) : bool := N.testbit ep 2.

(* one primitive access as canonicalised by the harness:
   kind 0 = copy_single (one volatile read + one volatile write of width e_w), 1 = bulk memcpy of
   e_w bytes; e_g = guest-side address minus the guest address named by the caller; e_l = same on
   the local side; e_side = 0 guest is the destination, 1 guest is the source, 2 neither. *)
Record ev06 := { e_kind : N; e_w : N; e_g : N; e_l : N; e_side : N }.
Record case06 := { c_mode : mode; c_ep : N; c_goff : N; c_loff : N; c_total : N }.
(* o_st 0 = the call returned Ok and transferred c_total bytes, 1 = error/short, 2 = panic;
   o_lres = address of the local value mod 8; o_dok = 1 when afterwards destination = source and
   nothing else changed (looked at through raw pointers) *)
Record obs06 := { o_st : N; o_lres : N; o_dok : N; o_tr : list ev06 }.

Definition is_word (n : N) : bool := (n =? 1) || (n =? 2) || (n =? 4) || (n =? 8).

(* "When a buffer or object of 1, 2, 4 or 8 bytes is read from or written to guest memory at an
   address aligned to its size (and the local value is naturally aligned ...), the guest location
   is accessed by exactly one memory access of that width".  The guest buffer of the harness is
   page aligned, so the guest address is aligned iff c_goff is. *)
Definition ok_C06 (c : case06) (o : obs06) : bool :=
  let n := c_total c in
  if is_word n && (c_goff c mod n =? 0) && (o_lres o mod n =? 0) then
    (o_st o =? 0) &&
    match o_tr o with
    | [e] => (e_kind e =? 0) && (e_w e =? n) && (e_g e =? 0) &&
             (e_side e =? (if ep_read (c_ep c) then 1 else 0))
    | _ => false
    end
  else true.

(* atomic load/store: "give the same guarantee ... and refuse misaligned addresses".
   a_size = size_of the integer (1,2,4,8), a_goff = offset in a page-aligned container of a_len bytes.
   p_st 0 = Ok, 1 = refused as misaligned, 2 = refused for another reason, 3 = panic;
   p_off = (address the atomic operation was performed on) - (container base + a_goff) when known;
   p_rt = 1 when the stored value was then seen at exactly that location through a raw pointer and
   returned by load *)
(* a_skew: the container itself starts a_skew (< 8) bytes after an 8-aligned address - the alignment that counts is
   that of the ADDRESS base + a_skew + a_goff, not of the offset *)
Record case06a := { a_mode : mode; a_ep : N; a_size : N; a_goff : N; a_len : N; a_skew : N }.
Record obs06a := { p_st : N; p_off : N; p_rt : N }.

Definition ok_C06atomic (c : case06a) (o : obs06a) : bool :=
  if negb (is_word (a_size c)) then true else
  if negb ((a_skew c + a_goff c) mod a_size c =? 0) then negb (p_st o =? 0) && negb (p_st o =? 3)
  else if a_goff c + a_size c <=? a_len c then (p_st o =? 0) && (p_off o =? 0) && (p_rt o =? 1)
  else true.

(* ------------------------------------------------------------------ (b) memory semantics *)
(* a byte-addressed memory shared by all threads (guest memory and the threads' local buffers) *)
Definition mem := N -> N.

(* one atomic event: w bytes are read at s (one access) and written at d (one access).  For the
   events of one plan s and d never overlap (local buffer vs guest memory). *)
Inductive mev := MCopy (w s d : N).

Definition step (e : mev) (mm : mem) : mem :=
  match e with
  | MCopy w s d => fun a => if (d <=? a) && (a <? d + w) then mm (s + (a - d)) else mm a
  end.
Fixpoint exec (l : list mev) (mm : mem) {struct l} : mem :=
  match l with [] => mm | e :: r => exec r (step e mm) end.

(* the w bytes at a, lowest address first (= the little-endian value of width w) *)
Definition rd (mm : mem) (a : N) (w : nat) : list N := map (fun i => mm (a + N.of_nat i)) (seq 0 w).

(* all schedules of two threads: every interleaving of their event lists *)
Inductive interleave : list mev -> list mev -> list mev -> Prop :=
| il_nil : interleave [] [] []
| il_l e a b l : interleave a b l -> interleave (e :: a) b (e :: l)
| il_r e a b l : interleave a b l -> interleave a (e :: b) (e :: l).

(* a non-null pointer to an allocation of at least n bytes (what the callers of copy_slice
   guarantee: `src`/`dst` "point to a contiguously allocated memory region of at least length total") *)
Definition valid_ptr (a n : N) : Prop := 0 < a < W64 /\ a + n <= W64.

(* [a, a+n) and [b, b+n) do not intersect *)
Definition disjoint (a b n : N) : Prop := a + n <= b \/ b + n <= a.

(* ------------------------------------------------------------------ (c) predicates on access plans *)
Definition is_wordP (w : N) : Prop := w = 1 \/ w = 2 \/ w = 4 \/ w = 8.

(* a primitive access is a copy_single of width 1/2/4/8 whose two pointers are aligned to that
   width (so that read_volatile::<uW> / write_volatile::<uW> are defined behaviour) *)
Definition acc_ok (a : access) : Prop :=
  match a with
  | Acc w s d => is_wordP w /\ s mod w = 0 /\ d mod w = 0
  | Bulk _ _ _ => False
  end.
Definition acc_width (a : access) : N := match a with Acc w _ _ => w | Bulk _ _ n => n end.
(* the accesses are issued at ascending, contiguous, non-overlapping positions starting at (s, d),
   source and destination advancing together *)
Fixpoint acc_tiles (s d : N) (p : list access) {struct p} : Prop :=
  match p with
  | [] => True
  | Acc w s' d' :: r => s' = s /\ d' = d /\ acc_tiles (s + w) (d + w) r
  | Bulk _ _ _ :: _ => False
  end.
Fixpoint acc_sum (p : list access) : N := match p with [] => 0 | a :: r => acc_width a + acc_sum r end.
