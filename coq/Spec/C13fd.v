(* C13 on SCRIPTED REAL DESCRIPTORS (suite C13fd) - the spec side.
   Same property text, same judgement as Spec/C13.v; what is new is the stream: a real descriptor (regular
   file, UnixStream, pipe) whose read(2) / write(2) calls are intercepted and follow a script of per-call
   behaviours (Impl/Io.v [fbeh]: full, short by any amount, zero, EINTR, hard error; the real call once the
   script is over).  Every operation of a history carries its own script.  The oracle is the DOCUMENTED std
   operation (Impl/Std.v: one read(2) / write(2) per read / write - so EINTR and errors of a single call are
   passed on -, the provided read_exact / write_all loops: EINTR ignored, any other error returned, 0 bytes =
   UnexpectedEof / WriteZero) over the scripted descriptor; it is tied to the installed std by the twin runs:
   std's own loops go through the same intercepted read / write under the SAME script.
   The checker demands per operation, from the stream state OBSERVED before it: same result (count / Ok /
   UnexpectedEof / WriteZero / Interrupted / other error) as std, same bytes moved and same stream state after a
   success (DESIGN section 8: unspecified after a failure), nothing touched outside the buffer; and the same
   against the real twin. *)
From VM Require Import Prelude.MachInt Prelude.Outcome Prelude.Tok Prelude.C1314List Impl.Io Impl.Std Spec.C13.

(* an operation and the script its descriptor follows while it runs *)
Record case13fd := { d_mode : mode; d_kind : skind; d_init : sstate; d_ops : list (op13 * list fbeh) }.

Definition sfd0 (st : sstate) (sc : list fbeh) : sfd := {| f_st := st; f_script := sc; f_calls := 0 |}.
Definition std_fuel (len : N) (sc : list fbeh) : nat := N.to_nat len + length sc + 2.

(* one std operation on the scripted descriptor: (stream afterwards | unspecified, bytes put at the start of
   the buffer, result) *)
Definition std_step_scr (k : skind) (st : sstate) (sc : list fbeh) (o : op13)
  : outcome (option sstate * list N * (N * N)) :=
  let f := sfd0 st sc in
  let rd := scr_read (os_read_of k) in
  let wr := scr_write (os_write_of k) in
  match o with
  | OSetPos p => Val (Some (if seekable k then set_pos st p else st), [], (9, 0))
  | ORead pre =>
      let '(f', bs, r) := std_fd_read rd f (nlen pre) in
      Val (keep_if (rc_n r) (f_st f'), bs, rc_n r)
  | OReadExact pre =>
      let* x := std_fd_read_exact rd (std_fuel (nlen pre) sc) f (nlen pre) [] in
      let '(o', bs, r) := x in Val (option_map f_st o', bs, rc_unit r)
  | OWrite d =>
      let '(f', r) := std_fd_write wr f d in
      Val (keep_if (rc_n r) (f_st f'), [], rc_n r)
  | OWriteAll d =>
      let* x := std_fd_write_all wr (std_fuel (nlen d) sc) f d in
      let '(o', r) := x in Val (option_map f_st o', [], rc_unit r)
  end.

Definition ok_step_scr (k : skind) (content : list N) (st : sstate) (o : op13) (sc : list fbeh) (ob : opobs) : bool :=
  a_margins ob                                               (* never touches memory beyond the buffer *)
  && (nlen (a_buf ob) =? nlen (op_buf o))
  && match std_step_scr k st sc o with
     | Val (ost, bs, rc) =>
         rc_eqb rc (a_rc ob)                                 (* same count / same success / same error kind *)
         && (if rc_success rc then
               list_eqb bs (ntake (nlen bs) (a_buf ob))     (* same bytes moved *)
               && match ost with
                  | Some st' => state_matches k st' (a_data ob) (a_pos ob)    (* same position / contents *)
                                && list_eqb (s_out st') (a_out ob)
                  | None => true
                  end
             else true)
     | _ => false
     end.

Definition fd_kind (k : skind) : bool := match k with KFile | KQueue => true | _ => false end.

Fixpoint ok_steps_scr (k : skind) (content : list N) (st : sstate) (ops : list (op13 * list fbeh)) (obs : list opobs)
  {struct ops} : bool :=
  match ops, obs with
  | [], [] => true
  | (o, sc) :: ops', ob :: obs' =>
      op_allowed k o && ok_step_scr k content st o sc ob
      && ok_steps_scr k content (state_of_obs k content (a_data ob) (a_pos ob)) ops' obs'
  | _, _ => false
  end.

Definition ok_C13fd (c : case13fd) (obs : list opobs) : bool :=
  fd_kind (d_kind c)
  && ok_steps_scr (d_kind c) (s_data (d_init c)) (d_init c) (d_ops c) obs
  && ok_twin (map fst (d_ops c)) obs.
