(* src/volatile_memory.rs:1312-1413 (alignment, copy_slice_impl::{copy_single, copy_slice_volatile,
   copy_slice}) and :260-277 / :291-297 / :494-507 / :668-678 (get_atomic_ref and the three helpers
   it goes through).  Line-by-line transcription: pointers are N (usize on a 64-bit host), the
   volatile accesses are recorded as a list of primitive [access] events (what hook H1 reports),
   panics and wrap-around are explicit.  Nothing here says what the code "should" do. *)
From VM Require Import Prelude.MachInt Prelude.Outcome.

(* One primitive memory access, as reported by vm_memory::verif::Access:
   Acc w s d   = copy_single(w, s, d): ONE read_volatile::<uW>(s) + ONE write_volatile::<uW>(d)
   Bulk s d n  = std::ptr::copy_nonoverlapping(s, d, n) (no width guarantee at all) *)
Inductive access := Acc (width src dst : N) | Bulk (src dst total : N).

(* 1312  fn alignment(addr: usize) -> usize {
   1314      addr & (!addr + 1)           `+` panics on overflow in checked builds (addr = 0 only) *)
Definition alignment (m : mode) (addr : N) : outcome N :=
  let* x := padd m 1314 (not64 addr) 1 in
  Val (N.land addr x).

(* 1325  unsafe fn copy_single(align, src_addr, dst_addr) {
   1327      crate::verif::access(align, src_addr, dst_addr);          (hook H1)
   1328      match align { 8 => write_volatile(dst as *mut u64, read_volatile(src as *const u64)),
                           4 => ... u32, 2 => ... u16, 1 => ... u8, _ => unreachable!() } *)
Definition copy_single (align src dst : N) : outcome (list access) :=
  if (align =? 8) || (align =? 4) || (align =? 2) || (align =? 1)
  then Val [Acc align src dst]
  else Panic 1333.

(* the closure's captured mutable state: (src, dst, left) *)
Definition cstate : Type := (N * N * N)%type.

(* 1351  while left >= min_align {
   1354      unsafe { copy_single(min_align, src, dst) };
   1356      left -= min_align;                           (guarded by the loop condition: no underflow)
   1358      if left == 0 { break; }
   1373      src = src.add(min_align);                    (pointer add: overflow is UB; checked builds
   1374      dst = dst.add(min_align);                     trap, modelled like `+`)
         }
   fuel: one unit per evaluation of the loop condition *)
Fixpoint while_copy (m : mode) (fuel : nat) (w : N) (src dst lft : N) {struct fuel}
  : outcome (list access * cstate) :=
  match fuel with
  | O => OutOfFuel
  | S f =>
      if w <=? lft then
        let* ev := copy_single w src dst in
        let lft' := lft - w in
        if lft' =? 0 then Val (ev, (src, dst, lft'))
        else
          let* src' := padd m 1373 src w in
          let* dst' := padd m 1374 dst w in
          let* r := while_copy m f w src' dst' lft' in
          Val (ev ++ fst r, snd r)
      else Val ([], (src, dst, lft))
  end.

(* 1346  let mut copy_aligned_slice = |min_align| {
   1347      if align < min_align { return; }
   1351      while ... *)
Definition copy_aligned_slice (m : mode) (fuel : nat) (align min_align : N)
  (acc : list access * cstate) : outcome (list access * cstate) :=
  let '(tr, (src, dst, lft)) := acc in
  if align <? min_align then Val (tr, (src, dst, lft))
  else
    let* r := while_copy m fuel min_align src dst lft in
    Val (tr ++ fst r, snd r).

(* 1341  unsafe fn copy_slice_volatile(mut dst, mut src, total) -> usize {
   1342      let mut left = total;
   1344      let align = min(alignment(src as usize), alignment(dst as usize));
   1379      if size_of::<usize>() > 4 { copy_aligned_slice(8); }        (64-bit host: taken)
   1382      copy_aligned_slice(4); copy_aligned_slice(2); copy_aligned_slice(1);
   1386      total *)
Definition copy_slice_volatile (m : mode) (fuel : nat) (dst src total : N) : outcome (list access) :=
  let* a_src := alignment m src in
  let* a_dst := alignment m dst in
  let align := N.min a_src a_dst in
  let* s8 := copy_aligned_slice m fuel align 8 ([], (src, dst, total)) in
  let* s4 := copy_aligned_slice m fuel align 4 s8 in
  let* s2 := copy_aligned_slice m fuel align 2 s4 in
  let* s1 := copy_aligned_slice m fuel align 1 s2 in
  Val (fst s1).

(* 1393  unsafe fn copy_slice(dst, src, total) -> usize {
   1394      if total <= size_of::<usize>() { copy_slice_volatile(dst, src, total); }
   1406      else { crate::verif::bulk(src, dst, total); copy_nonoverlapping(src, dst, total); }
   1412      total
   At most 8 bytes are left when the volatile path is taken: 10 units of fuel always suffice
   (theorem C06_no_fuel). *)
Definition copy_slice (m : mode) (dst src total : N) : outcome (list access) :=
  if total <=? 8 then copy_slice_volatile m 10 dst src total
  else Val [Bulk src dst total].

(* ---------------------------------------------------------------- atomic references *)
(*  93  pub fn compute_offset(base, offset) -> Result<usize> {
    94      match base.checked_add(offset) { None => Err(Overflow), Some(m) => Ok(m) } } *)
Inductive vm_error := EOverflow | EOutOfBounds | EMisaligned.
Inductive result (A : Type) := Ok (a : A) | Err (e : vm_error).
Arguments Ok {A}. Arguments Err {A}.

Definition compute_offset (base offset : N) : result N :=
  match checked_add base offset with None => Err EOverflow | Some x => Ok x end.

(* 291  fn compute_end_offset(&self, base, offset) -> Result<usize> {
   292      let mem_end = compute_offset(base, offset)?;
   293      if mem_end > self.len() { return Err(OutOfBounds) }  Ok(mem_end) *)
Definition compute_end_offset (len base offset : N) : result N :=
  match compute_offset base offset with
  | Err e => Err e
  | Ok mem_end => if len <? mem_end then Err EOutOfBounds else Ok mem_end
  end.

(* a VolatileSlice: host address of the first byte and size *)
Record vslice := { vs_addr : N; vs_size : N }.

(* 494  pub fn subslice(&self, offset, count) -> Result<Self> {
   495      let _ = self.compute_end_offset(offset, count)?;
   501      VolatileSlice::with_bitmap(self.addr.add(offset), count, ..) *)
Definition subslice (m : mode) (s : vslice) (offset count : N) : outcome (result vslice) :=
  match compute_end_offset (vs_size s) offset count with
  | Err e => Val (Err e)
  | Ok _ => let* a := padd m 501 (vs_addr s) offset in Val (Ok {| vs_addr := a; vs_size := count |})
  end.

(* 668  fn check_alignment(&self, alignment) -> Result<()> {
   670      debug_assert!((alignment & (alignment - 1)) == 0);
   671      if ((self.addr as usize) & (alignment - 1)) != 0 { return Err(Misaligned) }  Ok(()) *)
Definition check_alignment (m : mode) (s : vslice) (alignment : N) : outcome (result unit) :=
  let* _ := match m with
            | Debug => let* a1 := psub m 670 alignment 1 in passert 670 (N.land alignment a1 =? 0)
            | Release => Val tt end in
  let* a1 := psub m 671 alignment 1 in
  if negb (N.land (vs_addr s) a1 =? 0) then Val (Err EMisaligned) else Val (Ok tt).

(* 260  fn get_atomic_ref<T: AtomicInteger>(&self, offset) -> Result<&T> {
   261      let slice = self.get_slice(offset, size_of::<T>())?;          (VolatileSlice: subslice)
   262      slice.check_alignment(align_of::<T>())?;
   264      assert_eq!(slice.len(), size_of::<T>(), ..);
   276      Ok(&*(slice.addr as *const T))
   [size] = size_of::<T>() = align_of::<T>() for the std atomics on this host.  The result is the
   host address the atomic load/store is then performed on. *)
Definition get_atomic_ref (m : mode) (s : vslice) (offset size : N) : outcome (result N) :=
  let* r := subslice m s offset size in
  match r with
  | Err e => Val (Err e)
  | Ok sl =>
      let* c := check_alignment m sl size in
      match c with
      | Err e => Val (Err e)
      | Ok _ =>
          let* _ := passert 264 (vs_size sl =? size) in
          Val (Ok (vs_addr sl))
      end
  end.
