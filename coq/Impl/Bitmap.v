(* src/bitmap/backend/atomic_bitmap.rs, src/bitmap/backend/slice.rs, src/bitmap/mod.rs,
   src/bitmap/backend/atomic_bitmap_arc.rs: sequential model.

   Every `*_o` function is a line-by-line transcription in the outcome monad (slice indexing
   `self.map[..]` is an explicit Panic branch, `+=` is padd, the inclusive `for` loop is a
   fuelled recursion with the `break`).  The un-suffixed functions (`bm_mark_dirty`,
   `bm_dirty_at`, `bm_is_bit_set`, ...) are "the value, or the unchanged state when the code
   would panic"; Proofs/C09.v shows that under [bm_inv] the code never panics nor runs out of
   fuel and characterises every operation through the abstraction [abs_pages].

   Interface for other packages (dirty tracking): record [bitmap], [bm_new], [bm_mark_dirty],
   [bm_dirty_at], [bm_is_bit_set], [abs_pages], [bm_inv], slices [bs_*], routes [view_*]. *)
From VM Require Import Prelude.MachInt Prelude.Outcome.

(* pub struct AtomicBitmap { map: Vec<AtomicU64>, size: usize, byte_size: usize,
                             page_size: NonZeroUsize }                    atomic_bitmap.rs:20-25 *)
Record bitmap := { bm_words : list N; bm_size : N; bm_byte_size : N; bm_ps : N }.

Definition with_words (b : bitmap) (w : list N) : bitmap :=
  {| bm_words := w; bm_size := bm_size b; bm_byte_size := bm_byte_size b; bm_ps := bm_ps b |}.

(* `index >> 6` used as a Vec index, and `1 << (index & 63)` *)
Definition word_ix (i : N) : nat := N.to_nat (N.shiftr i 6).
Definition bit_mask (i : N) : N := N.shiftl 1 (N.land i 63).

Fixpoint upd (l : list N) (i : nat) (f : N -> N) {struct l} : list N :=
  match l, i with
  | [], _ => []
  | x :: t, O => f x :: t
  | x :: t, S j => x :: upd t j f
  end.

(* Vec::resize_with(new_len, Default::default): truncate or extend with zeros *)
Definition resize (l : list N) (n : nat) : list N := firstn n l ++ repeat 0 (n - length l).

(* :31-42  pub fn new(byte_size, page_size).  usize::div_ceil never overflows (d + (r>0));
   page_size is NonZeroUsize, so neither division can panic. *)
Definition bm_new (byte_size ps : N) : bitmap :=
  let num_pages := div_ceil byte_size ps in                       (* :32 *)
  let map_size := div_ceil num_pages 64 in                        (* :33 *)
  {| bm_words := repeat 0 (N.to_nat map_size);                    (* :34 *)
     bm_size := num_pages; bm_byte_size := byte_size; bm_ps := ps |}.

(* :46-51  pub fn enlarge(&mut self, additional_size) *)
Definition bm_enlarge_o (m : mode) (b : bitmap) (add : N) : outcome bitmap :=
  let* bs := padd m 47 (bm_byte_size b) add in                    (* :47  self.byte_size += .. *)
  let size := div_ceil bs (bm_ps b) in                            (* :48 *)
  let map_size := div_ceil size 64 in                             (* :49 *)
  Val {| bm_words := resize (bm_words b) (N.to_nat map_size);     (* :50 *)
         bm_size := size; bm_byte_size := bs; bm_ps := bm_ps b |}.

(* :54-61  pub fn is_bit_set(&self, index) *)
Definition bm_is_bit_set_o (b : bitmap) (index : N) : outcome bool :=
  if index <? bm_size b then                                      (* :55 *)
    match nth_error (bm_words b) (word_ix index) with             (* :56 self.map[index >> 6] *)
    | None => Panic 56
    | Some w => Val (negb (N.land w (bit_mask index) =? 0))
    end
  else Val false.                                                 (* :59 *)

(* :64-66  pub fn is_addr_set(&self, addr) { self.is_bit_set(addr / self.page_size) } *)
Definition bm_is_addr_set_o (b : bitmap) (addr : N) : outcome bool :=
  bm_is_bit_set_o b (addr / bm_ps b).

(* self.map[n >> 6].fetch_or(1 << (n & 63))            :96, :116
   self.map[n >> 6].fetch_and(!(1 << (n & 63)))        :98, :125 *)
Definition fetch_or_at (site : N) (b : bitmap) (n : N) : outcome bitmap :=
  match nth_error (bm_words b) (word_ix n) with
  | None => Panic site
  | Some _ => Val (with_words b (upd (bm_words b) (word_ix n) (fun w => N.lor w (bit_mask n))))
  end.
Definition fetch_andn_at (site : N) (b : bitmap) (n : N) : outcome bitmap :=
  match nth_error (bm_words b) (word_ix n) with
  | None => Panic site
  | Some _ => Val (with_words b (upd (bm_words b) (word_ix n) (fun w => N.land w (not64 (bit_mask n)))))
  end.

(* :90-100  for n in first_bit..=last_bit { if n >= self.size { break; } ... }
   The inclusive range ends after n = last (no overflow even for last = usize::MAX).  At most
   size - first + 1 iterations reach the loop head before the break. *)
Fixpoint range_loop (fuel : nat) (n last : N) (b : bitmap) (set : bool) {struct fuel} : outcome bitmap :=
  match fuel with
  | O => OutOfFuel
  | S f =>
      if last <? n then Val b                                     (* range exhausted *)
      else if bm_size b <=? n then Val b                          (* :91-93 break *)
      else
        let* b' := (if set then fetch_or_at 96 b n else fetch_andn_at 98 b n) in
        range_loop f (n + 1) last b' set
  end.

(* :79-101  fn set_reset_addr_range(&self, start_addr, len, set) *)
Definition set_reset_addr_range_o (b : bitmap) (start len : N) (set : bool) : outcome bitmap :=
  if len =? 0 then Val b else                                     (* :82 *)
  let first_bit := start / bm_ps b in                             (* :86 *)
  let last_bit := saturating_add start (len - 1) / bm_ps b in     (* :89, len - 1 cannot underflow *)
  range_loop (S (S (N.to_nat (bm_size b)))) first_bit last_bit b set.

Definition bm_set_addr_range_o (b : bitmap) (start len : N) := set_reset_addr_range_o b start len true.    (* :71 *)
Definition bm_reset_addr_range_o (b : bitmap) (start len : N) := set_reset_addr_range_o b start len false. (* :106 *)

(* :111-117 set_bit, :120-126 reset_bit *)
Definition bm_set_bit_o (b : bitmap) (index : N) : outcome bitmap :=
  if bm_size b <=? index then Val b else fetch_or_at 116 b index.
Definition bm_reset_bit_o (b : bitmap) (index : N) : outcome bitmap :=
  if bm_size b <=? index then Val b else fetch_andn_at 125 b index.

Definition bm_len (b : bitmap) : N := bm_size b.                  (* :129 *)
Definition bm_get_byte_size (b : bitmap) : N := bm_byte_size b.   (* :134 *)

(* :139-144 get_and_reset: u.fetch_and(0) for every word, the old values collected *)
Definition bm_get_and_reset (b : bitmap) : list N * bitmap :=
  (map (fun w => w) (bm_words b), with_words b (map (fun w => N.land w 0) (bm_words b))).
(* :147-151 reset: store(0) for every word *)
Definition bm_reset (b : bitmap) : bitmap := with_words b (map (fun _ => 0) (bm_words b)).
(* :154-169 Clone: word-by-word load into a fresh bitmap *)
Definition bm_clone (b : bitmap) : bitmap :=
  {| bm_words := map (fun w => w) (bm_words b); bm_size := bm_size b;
     bm_byte_size := bm_byte_size b; bm_ps := bm_ps b |}.

(* impl Bitmap for AtomicBitmap :175-187 (and for AtomicBitmapArc, atomic_bitmap_arc.rs:45-57,
   which derefs to the same methods) *)
Definition bm_mark_dirty_o (b : bitmap) (off len : N) := bm_set_addr_range_o b off len.
Definition bm_dirty_at_o (b : bitmap) (off : N) := bm_is_addr_set_o b off.

(* value-or-unchanged wrappers *)
Definition val_or {A} (d : A) (o : outcome A) : A := match o with Val a => a | _ => d end.
Definition bm_mark_dirty (b : bitmap) (off len : N) : bitmap := val_or b (bm_mark_dirty_o b off len).
Definition bm_reset_addr_range (b : bitmap) (off len : N) : bitmap := val_or b (bm_reset_addr_range_o b off len).
Definition bm_set_bit (b : bitmap) (i : N) : bitmap := val_or b (bm_set_bit_o b i).
Definition bm_reset_bit (b : bitmap) (i : N) : bitmap := val_or b (bm_reset_bit_o b i).
Definition bm_is_bit_set (b : bitmap) (i : N) : bool := val_or false (bm_is_bit_set_o b i).
Definition bm_is_addr_set (b : bitmap) (a : N) : bool := val_or false (bm_is_addr_set_o b a).
Definition bm_dirty_at (b : bitmap) (off : N) : bool := val_or false (bm_dirty_at_o b off).

(* ---- abstraction: the set of dirty page numbers ---- *)
Definition raw_bit (b : bitmap) (p : N) : bool :=
  N.testbit (nth (N.to_nat (p / 64)) (bm_words b) 0) (p mod 64).
Definition abs_pages (b : bitmap) (p : N) : bool := (p <? bm_size b) && raw_bit b p.

Definition bm_inv (b : bitmap) : Prop :=
  N.of_nat (length (bm_words b)) = div_ceil (bm_size b) 64 /\
  bm_size b = div_ceil (bm_byte_size b) (bm_ps b) /\
  0 < bm_ps b /\ bm_byte_size b < W64 /\
  Forall (fun w => w < W64) (bm_words b) /\
  (forall p, bm_size b <= p -> raw_bit b p = false).

(* ---- slice.rs: BaseSlice<B> { inner, base_offset }.  The inner handle (&B / Arc<B>) is the
   bitmap the caller passes; only the offset arithmetic lives here. ---- *)
Definition bs_new (offset : N) : N := offset.                                   (* slice.rs:21-26 *)
Definition bs_slice_at (base offset : N) : N := wrapping_add base offset.       (* :66-71 *)
Definition bs_mark_dirty_o (b : bitmap) (base off len : N) : outcome bitmap :=  (* :51-59 *)
  bm_mark_dirty_o b (wrapping_add base off) len.
Definition bs_dirty_at_o (b : bitmap) (base off : N) : outcome bool :=          (* :61-63 *)
  bm_dirty_at_o b (wrapping_add base off).

(* ---- routes: how a caller reaches the bitmap.  RDirect = impl Bitmap for AtomicBitmap
   (slice_at = RefSlice::new(self, offset)); RArc = AtomicBitmapArc (slice_at =
   ArcSlice::new(inner.clone(), offset)); RSome/RNone = Option<B> (mod.rs:89-109);
   RUnit = () (mod.rs:65-73).  A view is a route plus the chain of slice_at offsets. ---- *)
Inductive route := RDirect | RSome | RNone | RUnit | RArc.

Definition chain_base (o1 : N) (rest : list N) : N := fold_left bs_slice_at rest (bs_new o1).

Definition view_mark_o (r : route) (chain : list N) (b : bitmap) (off len : N) : outcome bitmap :=
  match r with
  | RNone | RUnit => Val b                       (* mod.rs:66, :91 `if let Some(inner)` *)
  | RDirect | RSome | RArc =>
      match chain with
      | [] => bm_mark_dirty_o b off len
      | o1 :: rest => bs_mark_dirty_o b (chain_base o1 rest) off len
      end
  end.
Definition view_dirty_at_o (r : route) (chain : list N) (b : bitmap) (off : N) : outcome bool :=
  match r with
  | RNone | RUnit => Val false                   (* mod.rs:68-70, :100 *)
  | RDirect | RSome | RArc =>
      match chain with
      | [] => bm_dirty_at_o b off
      | o1 :: rest => bs_dirty_at_o b (chain_base o1 rest) off
      end
  end.
Definition view_mark (r : route) (chain : list N) (b : bitmap) (off len : N) : bitmap :=
  val_or b (view_mark_o r chain b off len).
Definition view_dirty_at (r : route) (chain : list N) (b : bitmap) (off : N) : bool :=
  val_or false (view_dirty_at_o r chain b off).

(* ------------------------------------------------------------------ the constructors with an IMPLICIT page size (add-only, w6)
   atomic_bitmap.rs:189-194  impl Default:  AtomicBitmap::new(0, 0x1000)
   atomic_bitmap.rs:196-220  impl NewBitmap: with_len(len) = AtomicBitmap::new(len, sysconf(_SC_PAGE_SIZE))
     (both unwraps succeed: the page size is positive and fits a usize).  [host_page] is the value sysconf
     reports on the host the correspondence runs on (4096; the harness refuses to run the case otherwise).
   atomic_bitmap_arc.rs:59-69 (crate-private AtomicBitmapArc): default = new(AtomicBitmap::default()),
     with_len(len) = new(AtomicBitmap::with_len(len)) - an Arc around the same value. *)
Definition host_page : N := 4096.
Definition bm_default : bitmap := bm_new 0 4096.
Definition bm_with_len (len : N) : bitmap := bm_new len host_page.
