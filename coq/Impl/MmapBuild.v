(* src/mmap/unix.rs (MmapRegionBuilder::build / build_raw, MmapRegion::{new,from_file,build,build_raw},
   Drop), src/mmap/mod.rs (check_file_offset, GuestRegionMmap::new / from_range).
   Line-by-line transcription of the decision logic.  What the operating system answers is an
   explicit input (record [os]): the size of the backing file as reported by seek(End), whether the
   mmap call succeeds, the page size, whether the (emulated) Xen ioctl succeeds.  Every OS call the
   code makes is recorded in an effect log (list ev).  Seek errors (SeekEnd / SeekStart) are not
   modelled: the seeks are assumed to succeed (regular files). *)
From VM Require Import Prelude.MachInt Prelude.Outcome.

(* libc constants, x86_64-linux *)
Definition PROT_READ : N := 1.
Definition PROT_WRITE : N := 2.
Definition MAP_SHARED : N := 1.
Definition MAP_PRIVATE : N := 2.
Definition MAP_FIXED : N := 16.          (* 0x10 = 2^4 *)
Definition MAP_ANONYMOUS : N := 32.
Definition MAP_NORESERVE : N := 16384.   (* 0x4000 *)

(* unix::Error / xen::Error / mmap::Error::InvalidGuestRegion, one numbering for the wire *)
Inductive berr :=
| InvalidOffsetLength | InvalidPointer | MapFixed | MappingPastEof | MmapErr
| InvalidGuestRegion | InvalidFileOffset | MappedInAdvance | MmapFlags | UnexpectedError.
Definition berr_code (e : berr) : N :=
  match e with
  | InvalidOffsetLength => 1 | InvalidPointer => 2 | MapFixed => 3 | MappingPastEof => 4
  | MmapErr => 5 | InvalidGuestRegion => 6 | InvalidFileOffset => 7 | MappedInAdvance => 8
  | MmapFlags => 9 | UnexpectedError => 10 end.
Definition berr_eqb (a b : berr) : bool := berr_code a =? berr_code b.

Inductive res (A : Type) := Ok (a : A) | Err (e : berr).
Arguments Ok {A}. Arguments Err {A}.

(* what the OS answers *)
Record os := { os_page : N; os_filesize : N; os_mmap_ok : bool; os_ioctl_ok : bool }.

(* effect log *)
Inductive ev :=
| EvSeekEnd | EvRewind
| EvMmap (size prot flags : N) (file : bool) (offset : N) (ok : bool)
| EvMunmap (size : N)
| EvIoctlForeign (count : N) (ok : bool)
| EvIoctlMap (gref count index : N) (ok : bool)
| EvIoctlUnmap (index count : N).

(* successful mmaps minus munmaps *)
Fixpoint mm_balance (l : list ev) : Z :=
  match l with
  | [] => 0%Z
  | EvMmap _ _ _ _ _ true :: r => (1 + mm_balance r)%Z
  | EvMunmap _ :: r => (mm_balance r - 1)%Z
  | _ :: r => mm_balance r
  end.

(* struct MmapRegionBuilder (unix.rs:56-64); file_offset = Some start of the one file of the request;
   q_huge = the `hugetlbfs` hint (with_hugetlbfs :111-114): a label handed on to the region, never looked at *)
Record req := { q_size : N; q_prot : N; q_flags : N; q_file : option N; q_raw : option N;
                q_huge : option bool }.
(* struct MmapRegion (unix.rs:223-232); g_addr = Some a for an externally supplied pointer,
   None for an address chosen by the kernel *)
Record region := { g_addr : option N; g_size : N; g_prot : N; g_flags : N; g_file : option N;
                   g_owned : bool; g_huge : option bool (* is_hugetlbfs() :385-387 *) }.

(* mod.rs:81-101
     if let Some(end) = start.checked_add(size as u64) {
         let filesize = file.seek(SeekFrom::End(0))?; file.rewind()?;
         if filesize < end { return Err(MappingPastEof); }
     } else { return Err(InvalidOffsetLength); }
     Ok(()) *)
Definition check_file_offset (o : os) (start size : N) : res unit * list ev :=
  match checked_add start size with                                            (* :88 *)
  | Some e =>
      if os_filesize o <? e then (Err MappingPastEof, [EvSeekEnd; EvRewind])   (* :93 *)
      else (Ok tt, [EvSeekEnd; EvRewind])
  | None => (Err InvalidOffsetLength, [])                                      (* :97 *)
  end.

(* unix.rs:189-210 *)
Definition build_raw (m : mode) (o : os) (q : req) : outcome (res region * list ev) :=
  match q_raw q with
  | None => Panic 193                                                          (* :193 unwrap *)
  | Some addr =>
      let* mask := psub m 196 (os_page o) 1 in                                 (* :196 page_size - 1 *)
      if negb (N.land addr mask =? 0) then Val (Err InvalidPointer, [])        (* :196-198 *)
      else Val (Ok {| g_addr := Some addr; g_size := q_size q; g_prot := q_prot q;
                      g_flags := q_flags q; g_file := q_file q; g_owned := false;
                      g_huge := q_huge q (* :208 *) |}, [])
  end.

(* unix.rs:128-187.  The hugetlbfs hint takes no part in any decision: in particular check_file_offset
   (:140) runs for EVERY request with a file, whatever the hint says. *)
Definition build (m : mode) (o : os) (q : req) : outcome (res region * list ev) :=
  match q_raw q with
  | Some _ => build_raw m o q                                                  (* :129-131 *)
  | None =>
      if negb (N.land (q_flags q) MAP_FIXED =? 0) then Val (Err MapFixed, [])  (* :135-137 *)
      else
        let '(r, l1) := match q_file q with                                    (* :139-144 *)
                        | Some start => check_file_offset o start (q_size q)
                        | None => (Ok tt, []) end in
        match r with
        | Err e => Val (Err e, l1)
        | Ok _ =>
            let offset := match q_file q with Some start => start | None => 0 end in
            let hasf := match q_file q with Some _ => true | None => false end in
            let e := EvMmap (q_size q) (q_prot q) (q_flags q) hasf offset (os_mmap_ok o) in  (* :150-159 *)
            if os_mmap_ok o
            then Val (Ok {| g_addr := None; g_size := q_size q; g_prot := q_prot q;
                            g_flags := q_flags q; g_file := q_file q; g_owned := true;
                            g_huge := q_huge q (* :185 *) |},
                      l1 ++ [e])                                               (* :177-186 *)
            else Val (Err MmapErr, l1 ++ [e])                                  (* :162-164 *)
        end
  end.

(* unix.rs:424-440  Drop: munmap iff owned *)
Definition drop_region (g : region) : list ev := if g_owned g then [EvMunmap (g_size g)] else [].

(* unix.rs:247-252, 260-266, 278-291, 310-316 *)
Definition mr_new (m : mode) (o : os) (size : N) :=
  build m o {| q_size := size; q_prot := N.lor PROT_READ PROT_WRITE;
               q_flags := N.lor (N.lor MAP_ANONYMOUS MAP_NORESERVE) MAP_PRIVATE;
               q_file := None; q_raw := None; q_huge := None |}.
Definition mr_from_file (m : mode) (o : os) (start size : N) :=
  build m o {| q_size := size; q_prot := N.lor PROT_READ PROT_WRITE;
               q_flags := N.lor MAP_NORESERVE MAP_SHARED; q_file := Some start; q_raw := None; q_huge := None |}.
Definition mr_build (m : mode) (o : os) (file : option N) (size prot flags : N) :=
  build m o {| q_size := size; q_prot := prot; q_flags := flags; q_file := file; q_raw := None; q_huge := None |}.
Definition mr_build_raw (m : mode) (o : os) (addr size prot flags : N) :=
  build m o {| q_size := size; q_prot := prot; q_flags := flags; q_file := None; q_raw := Some addr;
               q_huge := None |}.

(* mod.rs:124-133  GuestRegionMmap::new(mapping, guest_base); on Err the mapping is dropped *)
Definition guest_region_new (g : region) (base : N) : res (region * N) * list ev :=
  match checked_add base (g_size g) with
  | None => (Err InvalidGuestRegion, drop_region g)                            (* :125-127 *)
  | Some _ => (Ok (g, base), [])
  end.

(* mod.rs:139-152 (non-xen) GuestRegionMmap::from_range(addr, size, file) *)
Definition from_range (m : mode) (o : os) (base size : N) (file : option N)
  : outcome (res (region * N) * list ev) :=
  let* (r, l1) := match file with
                   | Some start => mr_from_file m o start size
                   | None => mr_new m o size end in
  match r with
  | Err e => Val (Err e, l1)                                                   (* :149 *)
  | Ok g => let '(r2, l2) := guest_region_new g base in Val (r2, l1 ++ l2)     (* :151 *)
  end.
