(* src/mmap/mod.rs: GuestRegionMmap::new, GuestMemoryMmap::{from_regions, from_arc_regions,
   insert_region, remove_region, find_region}; src/guest_memory.rs: GuestMemoryRegion::last_addr;
   core::slice::binary_search_by (the bisection of the installed std, rustc 1.95).

   Everything is generic in the region type A with its two accessors
     rs = start_addr().0          rl = len() = mapping.size() as u64
   so that packages whose regions carry bytes / bitmaps can instantiate the same model.
   A collection (GuestMemoryMmap.regions : Vec<Arc<GuestRegionMmap>>) is a `list A`; maps are
   persistent values, sharing of an Arc is sharing of the list element. *)
From Coq Require Import Sorting.Sorted.
From VM Require Import Prelude.MachInt Prelude.Outcome Impl.Address.

(* src/mmap/mod.rs:50-73  enum Error (the variants reachable here) *)
Inductive merr := EInvalidGuestRegion | EMmapRegion | ENoMemoryRegion | EMemoryRegionOverlap
  | EUnsortedMemoryRegions.
Inductive result (T : Type) := Ok (t : T) | Err (e : merr).
Arguments Ok {T}. Arguments Err {T}.

(* Result<usize, usize> of binary_search_by_key *)
Inductive bsres := BsOk (i : N) | BsErr (i : N).

(* ---------------------------------------------------------------------------------------
   core::slice::<impl [T]>::binary_search_by  (library/core/src/slice/mod.rs, rustc >= 1.82):

     let mut size = self.len();
     if size == 0 { return Err(0); }
     let mut base = 0usize;
     while size > 1 {
         let half = size / 2;
         let mid = base + half;
         let cmp = f(unsafe { self.get_unchecked(mid) });
         base = if cmp == Greater { base } else { mid };
         size -= half;
     }
     let cmp = f(unsafe { self.get_unchecked(base) });
     if cmp == Equal { Ok(base) }
     else { let result = base + (cmp == Less) as usize; Err(result) }

   binary_search_by_key(b, f) = binary_search_by(|k| f(k).cmp(b)), so cmp == Greater iff key > b.
   `keys` is the slice mapped through the key function.  get_unchecked out of range would be UB:
   it is an explicit Panic site here and proved unreachable.  fuel: one unit per iteration. *)
Fixpoint bs_loop (fuel : nat) (keys : list N) (a base size : N) {struct fuel} : outcome N :=
  if size <=? 1 then Val base else
  match fuel with
  | O => OutOfFuel
  | S f =>
      let half := size / 2 in
      let mid := base + half in
      match nth_error keys (N.to_nat mid) with
      | None => Panic 2800
      | Some k => bs_loop f keys a (if a <? k then base else mid) (size - half)
      end
  end.
Definition binary_search (keys : list N) (a : N) : outcome bsres :=
  let size := N.of_nat (length keys) in
  if size =? 0 then Val (BsErr 0) else
  let* base := bs_loop (length keys) keys a 0 size in
  match nth_error keys (N.to_nat base) with
  | None => Panic 2801
  | Some k => if k =? a then Val (BsOk base)
              else Val (BsErr (base + (if k <? a then 1 else 0)))
  end.

(* The documented contract of binary_search_by_key on strictly increasing keys:
   Ok(i) iff keys[i] = a;  otherwise Err(number of keys < a) (the insertion point). *)
Definition count_lt (keys : list N) (a : N) : N := N.of_nat (length (filter (fun k => k <? a) keys)).
Definition bs_contract (keys : list N) (a : N) : bsres :=
  if existsb (N.eqb a) keys then BsOk (count_lt keys a) else BsErr (count_lt keys a).

Section Generic.
Context {A : Type} (rs rl : A -> N).

(* src/guest_memory.rs:174-177
     fn last_addr(&self) -> GuestAddress { self.start_addr().unchecked_add(self.len() - 1) } *)
Definition region_last_addr (m : mode) (r : A) : outcome N :=
  let* l1 := psub m 176 (rl r) 1 in
  a_unchecked_add m (rs r) l1.

(* src/mmap/mod.rs:124-133  GuestRegionMmap::new
     if guest_base.0.checked_add(mapping.size() as u64).is_none() { return Err(InvalidGuestRegion); }
     Ok(GuestRegionMmap { mapping, guest_base })
   mk builds the region value from (guest_base, mapping.size()) *)
Definition region_new (mk : N -> N -> A) (base size : N) : result A :=
  match checked_add base size with
  | None => Err EInvalidGuestRegion
  | Some _ => Ok (mk base size)
  end.

(* src/mmap/mod.rs:136-150  GuestRegionMmap::from_range(addr, size, None)
     let region = MmapRegion::new(size).map_err(Error::MmapRegion)?;  Self::new(region, addr)
   ENVIRONMENT (not vm-memory code): MmapRegion::new(size) is mmap(NULL, size, ..., MAP_ANONYMOUS, -1, 0);
   Linux refuses length 0 with EINVAL (mmap(2)); every other size used by the suites succeeds. *)
Definition mmap_region_new (size : N) : result N := if size =? 0 then Err EMmapRegion else Ok size.
Definition region_from_range (mk : N -> N -> A) (base size : N) : result A :=
  match mmap_region_new size with
  | Err e => Err e
  | Ok sz => region_new mk base sz
  end.
(* src/mmap/mod.rs:385-407  from_ranges -> from_ranges_with_files:
     Self::from_regions(ranges.into_iter().map(|x| GuestRegionMmap::from_range(x.0, x.1, None))
                              .collect::<Result<Vec<_>, Error>>()?)
   collect() stops at the first Err.  mk id base size: the id is the position-derived handle name *)
Fixpoint collect_ranges (mk : N -> N -> N -> A) (id : N) (l : list (N * N)) {struct l} : result (list A) :=
  match l with
  | [] => Ok []
  | (s, len) :: t =>
      match region_from_range (mk id) s len with
      | Err e => Err e
      | Ok g => match collect_ranges mk (id + 1) t with Err e => Err e | Ok r => Ok (g :: r) end
      end
  end.

(* src/mmap/mod.rs:433-452  from_arc_regions
     if regions.is_empty() { return Err(NoMemoryRegion); }
     for window in regions.windows(2) {
         let prev = &window[0]; let next = &window[1];
         if prev.start_addr() > next.start_addr() { return Err(UnsortedMemoryRegions); }
         if prev.last_addr() >= next.start_addr() { return Err(MemoryRegionOverlap); }
     }
     Ok(Self { regions }) *)
Fixpoint windows_check (m : mode) (L : list A) {struct L} : outcome (option merr) :=
  match L with
  | prev :: t =>
      match t with
      | next :: _ =>
          if rs next <? rs prev then Val (Some EUnsortedMemoryRegions)          (* :442 *)
          else
            let* la := region_last_addr m prev in
            if rs next <=? la then Val (Some EMemoryRegionOverlap)             (* :446 *)
            else windows_check m t
      | [] => Val None
      end
  | [] => Val None
  end.
Definition from_arc_regions (m : mode) (L : list A) : outcome (result (list A)) :=
  match L with
  | [] => Val (Err ENoMemoryRegion)                                             (* :434 *)
  | _ => let* e := windows_check m L in
         Val (match e with Some e => Err e | None => Ok L end)
  end.
(* src/mmap/mod.rs:420-422  from_regions(regions) = from_arc_regions(regions.drain(..).map(Arc::new).collect())
   (order kept; wrapping in Arc is the identity on list elements) *)
Definition from_regions (m : mode) (L : list A) : outcome (result (list A)) := from_arc_regions m L.

(* Vec::sort_by_key(|x| x.start_addr()) is a STABLE sort.  Modelled as the stable insertion sort
   (which is also what std runs for len <= 20); Proofs/C10.v shows that it returns a sorted
   permutation that keeps the relative order of equal keys, and that these three facts determine
   the result (so any stable sort gives the same list). *)
Fixpoint sort_insert (x : A) (l : list A) {struct l} : list A :=
  match l with
  | [] => [x]
  | y :: t => if rs x <=? rs y then x :: y :: t else y :: sort_insert x t
  end.
Fixpoint stable_sort (l : list A) {struct l} : list A :=
  match l with [] => [] | x :: t => sort_insert x (stable_sort t) end.

(* src/mmap/mod.rs:458-467  insert_region
     let mut regions = self.regions.clone(); regions.push(region);
     regions.sort_by_key(|x| x.start_addr());
     Self::from_arc_regions(regions) *)
Definition insert_region (m : mode) (L : list A) (r : A) : outcome (result (list A)) :=
  from_arc_regions m (stable_sort (L ++ [r])).

(* Vec::remove(i): panics if i >= len *)
Definition vec_remove (L : list A) (i : nat) : list A := firstn i L ++ skipn (S i) L.

(* src/mmap/mod.rs:475-489  remove_region
     if let Ok(region_index) = self.regions.binary_search_by_key(&base, |x| x.start_addr()) {
         if self.regions.get(region_index).unwrap().mapping.size() as GuestUsize == size {
             let mut regions = self.regions.clone();
             let region = regions.remove(region_index);
             return Ok((Self { regions }, region));
         }
     }
     Err(Error::InvalidGuestRegion) *)
Definition remove_region (L : list A) (base size : N) : outcome (result (list A * A)) :=
  let* r := binary_search (map rs L) base in
  match r with
  | BsOk i =>
      match nth_error L (N.to_nat i) with
      | None => Panic 481                                          (* .get(i).unwrap() *)
      | Some reg => if rl reg =? size then Val (Ok (vec_remove L (N.to_nat i), reg))
                    else Val (Err EInvalidGuestRegion)
      end
  | BsErr _ => Val (Err EInvalidGuestRegion)
  end.

(* src/mmap/mod.rs:499-507  find_region
     let index = match self.regions.binary_search_by_key(&addr, |x| x.start_addr()) {
         Ok(x) => Some(x),
         Err(x) if (x > 0 && addr <= self.regions[x - 1].last_addr()) => Some(x - 1),
         _ => None,
     };
     index.map(|x| self.regions[x].as_ref()) *)
Definition find_region (m : mode) (L : list A) (a : N) : outcome (option A) :=
  let* r := binary_search (map rs L) a in
  match r with
  | BsOk x => match nth_error L (N.to_nat x) with Some p => Val (Some p) | None => Panic 506 end
  | BsErr x =>
      if 0 <? x then
        let* x1 := psub m 503 x 1 in
        match nth_error L (N.to_nat x1) with
        | None => Panic 503                                         (* self.regions[x - 1] *)
        | Some p =>
            let* la := region_last_addr m p in
            if a <=? la then Val (Some p) else Val None
        end
      else Val None
  end.

(* The same lookup written against std's CONTRACT for the search (no fuel, no panics):
   this is the function other packages import; Proofs/C10.v proves
   find_region m L a = Val (mmap_find L a) for every well-formed layout. *)
Definition mmap_find (L : list A) (a : N) : option A :=
  match bs_contract (map rs L) a with
  | BsOk x => nth_error L (N.to_nat x)
  | BsErr x =>
      if 0 <? x then
        match nth_error L (N.to_nat (x - 1)) with
        | Some p => if a <=? rs p + (rl p - 1) then Some p else None
        | None => None
        end
      else None
  end.

(* ---------- what a valid collection is ---------- *)
(* a region as GuestRegionMmap::new + mmap(2) can produce it: at least one byte, start+len <= 2^64-1 *)
Definition region_ok (r : A) : Prop := 1 <= rl r /\ rs r + rl r < W64.
Definition disjoint (x y : A) : Prop := rs x + rl x <= rs y \/ rs y + rl y <= rs x.
(* non-empty regions ending below 2^64, strictly sorted by start, pairwise disjoint
   (the region LIST may be empty: GuestMemoryMmap::new() and removal of the last region) *)
Definition wf_layout (L : list A) : Prop :=
  Forall region_ok L /\ StronglySorted (fun x y => rs x < rs y) L /\ ForallOrdPairs disjoint L.

(* every map obtainable from region_ok regions through the public constructors / updaters *)
Inductive reachable (m : mode) : list A -> Prop :=
  | R_new : reachable m []                                                (* GuestMemoryMmap::new() *)
  | R_from L L' : Forall region_ok L -> from_arc_regions m L = Val (Ok L') -> reachable m L'
  | R_insert L r L' : reachable m L -> region_ok r -> insert_region m L r = Val (Ok L') -> reachable m L'
  | R_remove L b s L' r : reachable m L -> remove_region L b s = Val (Ok (L', r)) -> reachable m L'.
End Generic.

(* ------------------------------------------------------------------------------------------
   Every public constructor route of a region (added for C10: the decision of GuestRegionMmap::new
   applies to each of them, in the standard AND in the Xen build).

   src/mmap/mod.rs:136-152 (standard build)  GuestRegionMmap::from_range(addr, size, file)
       let region = if let Some(ref f_off) = file { MmapRegion::from_file(f_off.clone(), size) }
                    else { MmapRegion::new(size) }.map_err(Error::MmapRegion)?;
       Self::new(region, addr)
   src/mmap/mod.rs:154-169 (Xen build)       GuestRegionMmap::from_range(addr, size, file)
       let range = MmapRange::new_unix(size, file, addr);
       let region = MmapRegion::from_range(range).map_err(Error::MmapRegion)?;
       Self::new(region, addr)
   Both are "the mapping step, then Self::new(region, addr)".  The mapping step of a request WITH a
   file runs check_file_offset (mod.rs:81-101: start.checked_add(size) / filesize < end) before the
   mmap - MmapRegionBuilder::build (unix.rs:139-144) resp. MmapXenUnix::new (xen.rs:529-531); every
   failure of it is Error::MmapRegion(_).  `flen` = the length of the file (an OS fact). *)
Section Routes.
Context {A : Type}.
Definition mmap_region_file (start flen size : N) : result N :=
  match checked_add start size with
  | None => Err EMmapRegion                                  (* InvalidOffsetLength  mod.rs:97 *)
  | Some e => if flen <? e then Err EMmapRegion              (* MappingPastEof       mod.rs:93 *)
              else mmap_region_new size                      (* mmap(2): length 0 is refused *)
  end.
(* file = Some (start, flen) *)
Definition region_from_range_opt (mk : N -> N -> A) (base size : N) (file : option (N * N)) : result A :=
  match (match file with
         | Some (start, flen) => mmap_region_file start flen size
         | None => mmap_region_new size end) with
  | Err e => Err e                                           (* `?` *)
  | Ok sz => region_new mk base sz                           (* Self::new(region, addr) *)
  end.
(* src/mmap/mod.rs:391-406  from_ranges_with_files(ranges):
     Self::from_regions(ranges.into_iter().map(|x| GuestRegionMmap::from_range(x.0, x.1, x.2.clone()))
                              .collect::<Result<Vec<_>, Error>>()?)
   (from_ranges, :385-387, is from_ranges_with_files with every file None) *)
Fixpoint collect_ranges_files (mk : N -> N -> N -> A) (id : N) (l : list (N * N * option (N * N))) {struct l}
  : result (list A) :=
  match l with
  | [] => Ok []
  | (s, len, file) :: t =>
      match region_from_range_opt (mk id) s len file with
      | Err e => Err e
      | Ok g => match collect_ranges_files mk (id + 1) t with Err e => Err e | Ok r => Ok (g :: r) end
      end
  end.
End Routes.

(* ------------------------------------------------------------------------------------------
   Dropping a map or a region handle (0.7.w5b).  Neither GuestMemoryMmap nor GuestRegionMmap has a Drop impl
   (src/mmap/mod.rs:370-374, 113-117): dropping a GuestMemoryMmap drops its Vec<Arc<GuestRegionMmap>>, i.e.
   decrements the strong count of every region it lists; a region (and its mapping) goes away only with its LAST
   handle.  Maps are persistent values here and a region shared by two maps is the same list element, so the whole
   effect of dropping the object in slot i is that slot i is empty afterwards: every other slot is untouched. *)
Fixpoint drop_slot {T : Type} (l : list (option T)) (i : nat) {struct l} : list (option T) :=
  match l, i with
  | [], _ => []
  | _ :: t, O => None :: t
  | x :: t, S k => x :: drop_slot t k
  end.
