(* Dirty-page tracking model (C05 soundness, C16 precision).
   What is transcribed: WHERE each write path of the crate calls Bitmap::mark_dirty and with which
   (offset, len), relative to which BitmapSlice base - src/volatile_memory.rs (VolatileSlice /
   VolatileRef / VolatileArrayRef methods, copy_slice_impl::copy_to_volatile_slice), src/io.rs
   (&[u8]::read_volatile, read_volatile_raw_fd), src/bitmap/backend/slice.rs (BaseSlice wrapping
   offsets), src/mmap/unix.rs (MmapRegion::get_slice), src/mmap/mod.rs (region Bytes impl),
   src/guest_memory.rs (try_access chunking).  Byte CONTENTS are not modelled here (that is C04);
   every operation is reduced to a list of effects: (region, byte range written, mark_dirty call).
   The bitmap itself is the abstract page set that C09 proves AtomicBitmap implements. *)
From VM Require Import Prelude.MachInt.

(* ------------------------------------------------------------------ abstract bitmap (page set) *)
Fixpoint mapi_from {A B} (i : N) (f : N -> A -> B) (l : list A) : list B :=
  match l with [] => [] | x :: r => f i x :: mapi_from (i + 1) f r end.

(* Bitmap::mark_dirty / AtomicBitmap::set_addr_range on a bitmap of (length d) pages of ps bytes:
   atomic_bitmap.rs:74-96  first = start / ps, last = start.saturating_add(len-1) / ps,
   pages >= size ignored *)
Definition page_in (ps off len p : N) : bool :=
  (off / ps <=? p) && (p <=? saturating_add off (len - 1) / ps).
Definition mark (ps : N) (d : list bool) (off len : N) (v : bool) : list bool :=
  if len =? 0 then d else mapi_from 0 (fun p b => if page_in ps off len p then v else b) d.

(* ------------------------------------------------------------------ regions and accessors *)
Record region := { r_start : N; r_size : N; r_ps : N; r_tracked : bool; r_dirty : list bool }.
Definition npages (size ps : N) : N := div_ceil size ps.

Inductive akind := KSlice | KRef | KArr (esz n : N).
(* a_off: byte offset of the accessor's first byte inside the region's memory
   a_len: bytes covered;  a_bm: base_offset of its BitmapSlice (wrapping usize) *)
Record acc := { a_off : N; a_len : N; a_bm : N; a_kind : akind }.
Definition root (r : region) : acc := {| a_off := 0; a_len := r_size r; a_bm := 0; a_kind := KSlice |}.

(* BaseSlice::slice_at: base_offset.wrapping_add(offset)   slice.rs:60-66 *)
Definition bm_at (bm off : N) : N := wrapping_add bm off.

Inductive dop :=
| DSub (o c : N)            (* get_slice / subslice                 volatile_memory.rs:468-480 *)
| DOffset (c : N)           (* offset                               :482-505 *)
| DSplit (mid : N) (second : bool)  (* split_at                     :455-466 *)
| DGetRef (o sz : N)        (* get_ref::<T>, sz = size_of T          :128-145 *)
| DGetArr (o esz n : N)     (* get_array_ref::<T>                    :147-176 *)
| DRefAt (i : N)            (* VolatileArrayRef::ref_at              :1140-1151 *)
| DToSlice.                 (* VolatileRef/ArrayRef::to_slice *)

Definition d_sub (a : acc) (o c : N) (k : akind) : option acc :=
  match checked_add o c with
  | None => None
  | Some e => if a_len a <? e then None
              else Some {| a_off := a_off a + o; a_len := c; a_bm := bm_at (a_bm a) o; a_kind := k |}
  end.

Definition derive (a : acc) (d : dop) : option acc :=
  match a_kind a, d with
  | KSlice, DSub o c => d_sub a o c KSlice
  | KSlice, DOffset c =>
      match checked_sub (a_len a) c with
      | None => None
      | Some l => Some {| a_off := a_off a + c; a_len := l; a_bm := bm_at (a_bm a) c; a_kind := KSlice |} end
  | KSlice, DSplit mid second =>
      match checked_sub (a_len a) mid with
      | None => None
      | Some l => if second
                  then Some {| a_off := a_off a + mid; a_len := l; a_bm := bm_at (a_bm a) mid; a_kind := KSlice |}
                  else Some {| a_off := a_off a; a_len := mid; a_bm := a_bm a; a_kind := KSlice |} end
  | KSlice, DGetRef o sz => d_sub a o sz KRef
  | KSlice, DGetArr o esz n =>
      (* isize::try_from(n).ok().and_then(|n| n.checked_mul(size_of::<T>() as isize)) *)
      if (ISZ_MAX <? n) || (ISZ_MAX <? n * esz) then None
      else d_sub a o (n * esz) (KArr esz n)
  | KArr esz n, DRefAt i =>
      if i <? n then Some {| a_off := a_off a + esz * i; a_len := esz; a_bm := bm_at (a_bm a) (esz * i); a_kind := KRef |}
      else None    (* assert!(index < self.nelem): documented panic, generators avoid it *)
  | KRef, DToSlice => Some {| a_off := a_off a; a_len := a_len a; a_bm := a_bm a; a_kind := KSlice |}
  | KArr _ _, DToSlice => Some {| a_off := a_off a; a_len := a_len a; a_bm := a_bm a; a_kind := KSlice |}
  | _, _ => None
  end.

Fixpoint derive_chain (a : acc) (ds : list dop) : option acc :=
  match ds with [] => Some a | d :: r => match derive a d with Some a' => derive_chain a' r | None => None end end.

(* ------------------------------------------------------------------ effects *)
(* one write into region e_r: bytes [e_woff, e_woff+e_wn) of the region were (re)written and
   mark_dirty(e_moff, e_mlen) was called on the region's bitmap *)
Record eff := { e_r : nat; e_woff : N; e_wn : N; e_moff : N; e_mlen : N }.
Record outcome1 := { o_ok : bool; o_count : N; o_effs : list eff }.

(* ORDER inside one effect.  At every site the bytes are stored FIRST and mark_dirty is called
   AFTERWARDS: volatile_memory.rs:613 and :1242 (copy_to_volatile_slice: copy loop / copy_slice, then
   mark), :836 (Bytes::store: r.store(..) then mark), :957 (VolatileRef::store: write_unaligned then
   mark), :1297 (VolatileArrayRef::copy_from: element loop then mark), :1443
   (copy_slice_impl::copy_to_volatile_slice: copy_slice then mark), io.rs:193/:198 (read(2) has
   returned, then mark).  The order matters to a concurrent consumer of the dirty log (reset the bits,
   then copy the pages): a mark placed before the store can be consumed before the bytes change,
   leaving the change unreported (Proofs/C05Order.v).  An effect therefore unfolds into two
   micro-events, in this order; MReset / MResetAll are the consumer's events. *)
Inductive mev :=
| MWrite (e : eff)                  (* bytes [e_woff, e_woff+e_wn) of region e_r are stored *)
| MMark (e : eff)                   (* mark_dirty(e_moff, e_mlen) on region e_r's bitmap *)
| MReset (ri : nat) (off len : N)   (* AtomicBitmap::reset_addr_range *)
| MResetAll (ri : nat).             (* AtomicBitmap::reset / get_and_reset *)
Definition micro (e : eff) : list mev := [MWrite e; MMark e].
Definition fail : outcome1 := {| o_ok := false; o_count := 0; o_effs := [] |}.
Definition done (n : N) (effs : list eff) : outcome1 := {| o_ok := true; o_count := n; o_effs := effs |}.

(* a write of n bytes at accessor-relative offset rel, marking through the accessor's bitmap
   slice advanced by `moved` (the slice_at offsets accumulated on the way) with mark_dirty(moff, n) *)
Definition weff (ri : nat) (a : acc) (rel n : N) : eff :=
  {| e_r := ri; e_woff := a_off a + rel; e_wn := n; e_moff := bm_at (a_bm a) rel; e_mlen := n |}.

Inductive sop :=
(* writes through a slice accessor *)
| OWrite (blen addr : N)           (* Bytes::write              volatile_memory.rs:692-704 *)
| OWriteSlice (blen addr : N)      (* write_slice / write_obj   :715-724, bytes.rs:284 *)
| OStore (sz addr : N)             (* Bytes::store (atomic)     :770-775 *)
| OCopyFrom (esz blen : N)         (* VolatileSlice::copy_from  :637-663 *)
| OReadFrom (cnt addr srclen : N)  (* read_volatile_from, source &[u8]   :736-745, io.rs:236-247 *)
| OReadExactFrom (cnt addr srclen : N)   (* read_exact_volatile_from, source &[u8]  :746-751, io.rs:248-260 *)
| OReadFromFd (cnt addr avail : N) (fderr : bool)  (* source File: one read(2) delivering min(avail,..) or failing  io.rs:177-201 *)
| OReadFromFdFault (cnt addr fault : N)  (* source: a datagram of cnt bytes; read(2) FAILS PART-WAY: the kernel stores the
                                            bytes in front of region offset [fault] (host pages from there on are
                                            inaccessible), then returns EFAULT        io.rs:189-195 *)
(* reads through a slice accessor: mark nothing *)
| ORead (blen addr : N) | OReadSlice (blen addr : N) | OLoad (sz addr : N)
| OCopyTo (esz blen : N) | OWriteTo (cnt addr : N) | OWriteAllTo (cnt addr : N)
| OWriteToFd (cnt addr : N) (fderr : bool)   (* write_volatile_to into a descriptor: one write(2) taking everything or failing;
                                               io.rs write_volatile_raw_fd - never marks, not even on the error path *)
(* typed reference *)
| ORefStore | ORefLoad
(* element array *)
| OArrStore (i : N) | OArrLoad (i : N) | OArrCopyFrom (blen : N) | OArrCopyTo (blen : N).

Definition is_pow2_le8 (sz : N) : bool := (sz =? 1) || (sz =? 2) || (sz =? 4) || (sz =? 8).

(* host_base: the region's host address modulo 8 (alignment checks of the atomic ops) *)
Definition run_sop (ri : nat) (hostmod : N) (a : acc) (o : sop) : outcome1 :=
  match a_kind a, o with
  | KSlice, OWrite blen addr =>
      if blen =? 0 then done 0 []
      else if a_len a <=? addr then fail
      else let n := N.min (a_len a - addr) blen in done n [weff ri a addr n]
  | KSlice, OWriteSlice blen addr =>
      if blen =? 0 then done 0 []
      else if a_len a <=? addr then fail
      else let n := N.min (a_len a - addr) blen in
           {| o_ok := n =? blen; o_count := n; o_effs := [weff ri a addr n] |}
  | KSlice, OStore sz addr =>
      (* get_atomic_ref: get_slice(addr, sz) then check_alignment(sz); mark_dirty(addr, sz) on self.bitmap *)
      match checked_add addr sz with
      | None => fail
      | Some e => if a_len a <? e then fail
                  else if negb (((hostmod + a_off a + addr) mod sz) =? 0) then fail
                  else done sz [weff ri a addr sz]
      end
  | KSlice, OCopyFrom esz blen =>
      if esz =? 1 then let n := N.min blen (a_len a) in done n [weff ri a 0 n]
      else if esz =? 0 then done 0 []
      else let cnt := a_len a / esz in
           (* get_array_ref(0, cnt).unwrap(): cnt*esz <= len always fits; dest.copy_from(buf): take(min) elements *)
           let n := N.min blen cnt in done n [weff ri a 0 (n * esz)]
  | KSlice, OReadFrom cnt addr srclen =>
      match checked_sub (a_len a) addr with
      | None => fail
      | Some l => let n := N.min (N.min l cnt) srclen in done n [weff ri a addr n]
      end
  | KSlice, OReadExactFrom cnt addr srclen =>
      match checked_add addr cnt with
      | None => fail
      | Some e => if a_len a <? e then fail
                  else if srclen <? cnt then fail          (* buf.len() > self.len(): UnexpectedEof before any copy *)
                  else done cnt [weff ri a addr cnt]
      end
  | KSlice, OReadFromFd cnt addr avail fderr =>
      match checked_sub (a_len a) addr with
      | None => fail
      | Some l => let m := N.min l cnt in
                  if fderr then
                    (* bytes_read < 0 (EBADF): mark the whole target, nothing written   io.rs:191-195 *)
                    {| o_ok := false; o_count := 0;
                       o_effs := [{| e_r := ri; e_woff := a_off a + addr; e_wn := 0;
                                     e_moff := bm_at (a_bm a) addr; e_mlen := m |}] |}
                  else let n := N.min m avail in done n [weff ri a addr n]
      end
  | KSlice, OReadFromFdFault cnt addr fault =>
      (* read_volatile_from(addr, fd, cnt): offset(addr), subslice(0, min(len, cnt)), one read(2) of m bytes into
         region bytes [t0, t0+m).  The descriptor holds one datagram of cnt >= m bytes.  If the target ends before
         the inaccessible part (or is empty: a zero-length read returns 0) the read succeeds with m bytes.
         Otherwise the kernel has stored the fault - t0 bytes in front of the fault when it gives up with EFAULT
         (net/core/datagram.c skb_copy_datagram_iter: short copy -> -EFAULT; checked on the running kernel by the
         correspondence runs): bytes_read < 0, so mark_dirty(0, buf.len()) marks the WHOLE target   io.rs:191-195 *)
      match checked_sub (a_len a) addr with
      | None => fail
      | Some l => let m := N.min l cnt in
                  let t0 := a_off a + addr in
                  if (m =? 0) || (t0 + m <=? fault) then done m [weff ri a addr m]
                  else {| o_ok := false; o_count := 0;
                          o_effs := [{| e_r := ri; e_woff := t0; e_wn := fault - t0;
                                        e_moff := bm_at (a_bm a) addr; e_mlen := m |}] |}
      end
  | KSlice, ORead blen addr =>
      if blen =? 0 then done 0 [] else if a_len a <=? addr then fail
      else done (N.min (a_len a - addr) blen) []
  | KSlice, OReadSlice blen addr =>
      if blen =? 0 then done 0 [] else if a_len a <=? addr then fail
      else let n := N.min (a_len a - addr) blen in {| o_ok := n =? blen; o_count := n; o_effs := [] |}
  | KSlice, OLoad sz addr =>
      match checked_add addr sz with
      | None => fail
      | Some e => if a_len a <? e then fail
                  else if negb (((hostmod + a_off a + addr) mod sz) =? 0) then fail else done sz []
      end
  | KSlice, OCopyTo esz blen =>
      if esz =? 1 then done (N.min blen (a_len a)) []
      else if esz =? 0 then done blen []
      else done (N.min blen (a_len a / esz)) []
  | KSlice, OWriteTo cnt addr =>
      match checked_sub (a_len a) addr with None => fail | Some l => done (N.min l cnt) [] end
  | KSlice, OWriteAllTo cnt addr =>
      match checked_add addr cnt with
      | None => fail | Some e => if a_len a <? e then fail else done cnt [] end
  | KSlice, OWriteToFd cnt addr fderr =>
      match checked_sub (a_len a) addr with
      | None => fail
      | Some l => if fderr then fail else done (N.min l cnt) [] end
  | KRef, ORefStore => done (a_len a) [weff ri a 0 (a_len a)]
  | KRef, ORefLoad => done (a_len a) []
  | KArr esz n, OArrStore i =>
      if i <? n then done esz [{| e_r := ri; e_woff := a_off a + esz * i; e_wn := esz;
                                  e_moff := bm_at (bm_at (a_bm a) (esz * i)) 0; e_mlen := esz |}]
      else fail
  | KArr esz n, OArrLoad i => if i <? n then done esz [] else fail
  | KArr esz n, OArrCopyFrom blen =>
      if esz =? 1 then let m := N.min blen (a_len a) in done m [weff ri a 0 m]
      else let m := N.min blen n in done m [weff ri a 0 (m * esz)]
  | KArr esz n, OArrCopyTo blen =>
      if esz =? 1 then done (N.min blen (a_len a)) [] else done (N.min blen n) []
  | _, _ => fail
  end.

(* ------------------------------------------------------------------ guest-memory level *)
Fixpoint find_idx (rs : list region) (a : N) (i : nat) : option (nat * region) :=
  match rs with
  | [] => None
  | r :: t => if (r_start r <=? a) && (a <? r_start r + r_size r) then Some (i, r) else find_idx t a (S i)
  end.

(* GuestMemory::try_access specialised to the write-type closures: every chunk is a region-level
   write of min(cap, remaining) bytes at the region's own offset   guest_memory.rs:504-548 *)
Fixpoint g_write_loop (fuel : nat) (rs : list region) (cur remaining total : N) (acc : list eff)
  : N * list eff :=
  match fuel with
  | O => (total, acc)
  | S f =>
      match find_idx rs cur 0 with
      | None => (total, acc)
      | Some (i, r) =>
          let start := cur - r_start r in
          let cap := r_size r - start in
          let n := N.min cap remaining in
          if n =? 0 then (total, acc)
          else
            let e := weff i (root r) start n in
            if remaining - n =? 0 then (total + n, acc ++ [e])
            else if W64 <=? cur + n then (total + n, acc ++ [e])      (* reached the top of the address space *)
            else g_write_loop f rs (cur + n) (remaining - n) (total + n) (acc ++ [e])
      end
  end.

Inductive gop :=
| GWrite (blen addr : N)        (* Bytes<GuestAddress>::write       guest_memory.rs:576-589 *)
| GWriteSlice (blen addr : N)   (* write_slice / write_obj *)
| GStore (sz addr : N)          (* store: to_region_addr then region.store *)
| GReadFrom (cnt addr srclen : N)   (* read_volatile_from with a &[u8] source *)
| GRead (blen addr : N) | GLoad (sz addr : N).

Definition run_gop (hostmod : N) (rs : list region) (o : gop) : outcome1 :=
  match o with
  | GWrite blen addr =>
      if blen =? 0 then done 0 []
      else let '(t, effs) := g_write_loop (S (length rs)) rs addr blen 0 [] in
           if t =? 0 then fail else done t effs
  | GWriteSlice blen addr =>
      if blen =? 0 then done 0 []
      else let '(t, effs) := g_write_loop (S (length rs)) rs addr blen 0 [] in
           if t =? 0 then fail else {| o_ok := t =? blen; o_count := t; o_effs := effs |}
  | GStore sz addr =>
      match find_idx rs addr 0 with
      | None => fail
      | Some (i, r) => run_sop i hostmod (root r) (OStore sz (addr - r_start r))
      end
  | GReadFrom cnt addr srclen =>
      (* each chunk: region.read_volatile_from(caddr, src, len) consumes min(len, what is left in src) *)
      let want := N.min cnt srclen in
      match find_idx rs addr 0 with
      | None => fail
      | Some _ =>
          if want =? 0 then done 0 []
          else let '(t, effs) := g_write_loop (S (length rs)) rs addr want 0 [] in done t effs
      end
  | GRead blen addr =>
      if blen =? 0 then done 0 []
      else let '(t, _) := g_write_loop (S (length rs)) rs addr blen 0 [] in
           if t =? 0 then fail else done t []
  | GLoad sz addr =>
      match find_idx rs addr 0 with
      | None => fail
      | Some (i, r) => run_sop i hostmod (root r) (OLoad sz (addr - r_start r))
      end
  end.

(* ------------------------------------------------------------------ applying effects to the state *)
Fixpoint upd_nth {A} (l : list A) (i : nat) (f : A -> A) : list A :=
  match l, i with
  | [], _ => []
  | x :: t, O => f x :: t
  | x :: t, S j => x :: upd_nth t j f
  end.

Definition set_dirty (r : region) (d : list bool) : region :=
  {| r_start := r_start r; r_size := r_size r; r_ps := r_ps r; r_tracked := r_tracked r; r_dirty := d |}.

Definition apply_eff (rs : list region) (e : eff) : list region :=
  upd_nth rs (e_r e) (fun r => if r_tracked r then set_dirty r (mark (r_ps r) (r_dirty r) (e_moff e) (e_mlen e) true) else r).
Definition apply_effs (rs : list region) (es : list eff) : list region := fold_left apply_eff es rs.

(* the state after a trace of micro-events (storing bytes does not touch a bitmap) *)
Definition apply_mev (rs : list region) (ev : mev) : list region :=
  match ev with
  | MWrite _ => rs
  | MMark e => apply_eff rs e
  | MReset ri off len => upd_nth rs ri (fun r => set_dirty r (mark (r_ps r) (r_dirty r) off len false))
  | MResetAll ri => upd_nth rs ri (fun r => set_dirty r (map (fun _ => false) (r_dirty r)))
  end.
Definition apply_mevs (rs : list region) (tr : list mev) : list region := fold_left apply_mev tr rs.

(* history steps *)
Inductive step :=
| SAcc (ri : nat) (chain : list dop) (o : sop)      (* derive an accessor from region ri, use it *)
| SGuest (o : gop)
| SReset (ri : nat)                                  (* AtomicBitmap::reset *)
| SResetRange (ri : nat) (off len : N)               (* reset_addr_range *)
| SCopy (ri : nat) (chain : list dop) (rj : nat) (doff dlen : N).
    (* slice-to-slice copy: the accessor derived from region ri (a slice or an element array) is copied
       with copy_to_volatile_slice into region rj's get_slice(doff, dlen)
       VolatileSlice::copy_to_volatile_slice volatile_memory.rs:605-615,
       VolatileArrayRef::copy_to_volatile_slice :1234-1244:
       count = min(source bytes, slice.size); copy(..); slice.bitmap.mark_dirty(0, count) - on the DESTINATION *)

Definition ranges_overlap (o1 n1 o2 n2 : N) : bool :=
  (0 <? n1) && (0 <? n2) && (o1 <? o2 + n2) && (o2 <? o1 + n1).

(* Source and destination inside one region that overlap are not exercised here (both sides answer
   "not done"): the bytes the copy leaves there are C04's subject and the harness cannot tell a copied
   byte from the source byte it overwrites. *)
Definition run_copy (rs : list region) (ri : nat) (ch : list dop) (rj : nat) (doff dlen : N) : outcome1 :=
  match nth_error rs ri, nth_error rs rj with
  | Some r, Some r2 =>
      match derive_chain (root r) ch, d_sub (root r2) doff dlen KSlice with
      | Some a, Some d =>
          match a_kind a with
          | KRef => fail
          | _ => if Nat.eqb ri rj && ranges_overlap (a_off a) (a_len a) (a_off d) (a_len d) then fail
                 else let n := N.min (a_len a) (a_len d) in done n [weff rj d 0 n]
          end
      | _, _ => fail end
  | _, _ => fail end.

Definition run_step (hostmod : N) (rs : list region) (s : step) : list region * outcome1 :=
  match s with
  | SAcc ri ch o =>
      match nth_error rs ri with
      | None => (rs, fail)
      | Some r =>
          match derive_chain (root r) ch with
          | None => (rs, fail)
          | Some a => let out := run_sop ri hostmod a o in (apply_effs rs (o_effs out), out)
          end
      end
  | SGuest o => let out := run_gop hostmod rs o in (apply_effs rs (o_effs out), out)
  | SReset ri => (upd_nth rs ri (fun r => set_dirty r (map (fun _ => false) (r_dirty r))), done 0 [])
  | SResetRange ri off len =>
      (upd_nth rs ri (fun r => set_dirty r (mark (r_ps r) (r_dirty r) off len false)), done 0 [])
  | SCopy ri ch rj doff dlen =>
      let out := run_copy rs ri ch rj doff dlen in (apply_effs rs (o_effs out), out)
  end.

(* ================================================================== ROOT accessors and the region layer
   (add-only; worker w6).  Everything above starts a derivation chain from region.as_volatile_slice()
   = get_slice(0, len).  The other ways the crate hands out a FIRST accessor of a region:

     RMapSlice o n   MmapRegion::get_slice(o, n)  (VolatileMemory impl, src/mmap/unix.rs:402-425; xen.rs:366-393):
                     compute_end_offset(o, n)?  (checked add, `> self.len()` -> OutOfBounds), pointer addr + o,
                     bitmap view self.bitmap.slice_at(o)   [B::slice_at(o) = BaseSlice::new(bitmap, o)]
     RRegSlice o n   GuestRegionMmap::get_slice(MemoryRegionAddress(o), n)   src/mmap/mod.rs:350-357:
                     self.mapping.get_slice(o as usize, n)
     RMapRef o sz    MmapRegion::get_ref::<T>(o)          VolatileMemory default, volatile_memory.rs:128-149:
                     get_slice(o, size_of T), the slice's bitmap moved into the VolatileRef
     RMapArr o e n   MmapRegion::get_array_ref::<T>(o, n) volatile_memory.rs:153-187: isize checks, get_slice(o, n*e)

   and at guest-memory level  GuestMemory::get_slice(addr, n)  guest_memory.rs:583-587:
                     to_region_addr(addr) (find_region, addr - start)  then  region.get_slice(off, n).      *)
Inductive rootk :=
| RWhole | RMapSlice (o n : N) | RRegSlice (o n : N) | RMapRef (o sz : N) | RMapArr (o esz n : N).

(* MmapRegion::get_slice on region r *)
Definition map_get_slice (r : region) (o c : N) (k : akind) : option acc :=
  match checked_add o c with
  | None => None
  | Some e => if r_size r <? e then None
              else Some {| a_off := o; a_len := c; a_bm := bm_at 0 o; a_kind := k |}
  end.

Definition root_acc (r : region) (k : rootk) : option acc :=
  match k with
  | RWhole => Some (root r)
  | RMapSlice o n | RRegSlice o n => map_get_slice r o n KSlice
  | RMapRef o sz => map_get_slice r o sz KRef
  | RMapArr o esz n =>
      if (ISZ_MAX <? n) || (ISZ_MAX <? n * esz) then None else map_get_slice r o (n * esz) (KArr esz n)
  end.

(* the same first accessor written as a derivation from the whole-region slice: what
   `region.as_volatile_slice().get_slice(o, n)` etc. give; Proofs/C05Root.v: root_acc_prefix shows the two agree *)
Definition root_prefix (k : rootk) : list dop :=
  match k with
  | RWhole => []
  | RMapSlice o n | RRegSlice o n => [DSub o n]
  | RMapRef o sz => [DGetRef o sz]
  | RMapArr o esz n => [DGetArr o esz n]
  end.

(* extended history steps *)
Inductive xstep :=
| XBase (s : step)
| XRoot (ri : nat) (k : rootk) (chain : list dop) (o : sop)   (* first accessor of region ri obtained by k *)
| XGm (addr n : N) (chain : list dop) (o : sop)               (* first accessor = gm.get_slice(addr, n) *)
| XRegion (ri : nat) (o : sop)                                (* Bytes<MemoryRegionAddress> for GuestRegionMmap, mmap/mod.rs:169-300:
                                                                 every method is self.as_volatile_slice().unwrap().<same method>(addr.0 as usize, ..) *)
| XGuard (ri : nat) (k : rootk) (chain : list dop)             (* QUERY: ptr_guard() / ptr_guard_mut() of the accessor reached from root k by
                                                                 the chain, taken and dropped.  VolatileSlice::ptr_guard{,_mut} volatile_memory.rs:383-391,
                                                                 VolatileRef::ptr_guard{,_mut} :917-928, VolatileArrayRef::ptr_guard{,_mut} :1118-1130:
                                                                 PtrGuard::read / PtrGuardMut::write(self.mmap, self.addr, len) - no store, no mark_dirty;
                                                                 the count reported is the accessor's len() *)
| XCopyRoot (ri : nat) (k : rootk) (chain : list dop) (rj : nat) (doff dlen : N).
                                                              (* slice-to-slice copy whose SOURCE chain starts at root k and whose destination
                                                                 is region rj's OWN get_slice(doff, dlen) (MmapRegion::get_slice) *)

(* what len() answers: bytes of a slice, size_of T of a typed reference, ELEMENTS of an array *)
Definition acc_len (a : acc) : N :=
  match a_kind a with KArr esz n => if esz =? 1 then a_len a else n | _ => a_len a end.
(* a read-type operation of the base model that, on accessor a, reports len() and has no effect *)
Definition guard_read (a : acc) : sop :=
  match a_kind a with
  | KSlice => OWriteTo (a_len a) 0
  | KRef => ORefLoad
  | KArr _ _ => OArrCopyTo (acc_len a)
  end.

Definition run_xstep (hostmod : N) (rs : list region) (x : xstep) : list region * outcome1 :=
  match x with
  | XBase s => run_step hostmod rs s
  | XGuard ri k ch =>
      match nth_error rs ri with
      | None => (rs, fail)
      | Some r =>
          match root_acc r k with
          | None => (rs, fail)
          | Some a0 =>
              match derive_chain a0 ch with
              | None => (rs, fail)
              | Some a => (rs, done (acc_len a) [])
              end
          end
      end
  | XRoot ri k ch o =>
      match nth_error rs ri with
      | None => (rs, fail)
      | Some r =>
          match root_acc r k with
          | None => (rs, fail)
          | Some a0 =>
              match derive_chain a0 ch with
              | None => (rs, fail)
              | Some a => let out := run_sop ri hostmod a o in (apply_effs rs (o_effs out), out)
              end
          end
      end
  | XGm addr n ch o =>
      match find_idx rs addr 0 with
      | None => (rs, fail)                                   (* InvalidGuestAddress *)
      | Some (i, r) =>
          match root_acc r (RRegSlice (addr - r_start r) n) with
          | None => (rs, fail)
          | Some a0 =>
              match derive_chain a0 ch with
              | None => (rs, fail)
              | Some a => let out := run_sop i hostmod a o in (apply_effs rs (o_effs out), out)
              end
          end
      end
  | XRegion ri o =>
      match nth_error rs ri with
      | None => (rs, fail)
      | Some r => let out := run_sop ri hostmod (root r) o in (apply_effs rs (o_effs out), out)
      end
  | XCopyRoot ri k ch rj doff dlen =>
      match nth_error rs ri, nth_error rs rj with
      | Some r, Some r2 =>
          match root_acc r k, map_get_slice r2 doff dlen KSlice with
          | Some a0, Some d =>
              match derive_chain a0 ch with
              | None => (rs, fail)
              | Some a =>
                  match a_kind a with
                  | KRef => (rs, fail)
                  | _ => if Nat.eqb ri rj && ranges_overlap (a_off a) (a_len a) (a_off d) (a_len d) then (rs, fail)
                         else let n := N.min (a_len a) (a_len d) in
                              let out := done n [weff rj d 0 n] in (apply_effs rs (o_effs out), out)
                  end
              end
          | _, _ => (rs, fail) end
      | _, _ => (rs, fail) end
  end.

(* the base step that does the same (Proofs/C05Root.v: run_xstep_lower); an address no region holds is
   lowered to a step on a region index that does not exist *)
Definition lower (rs : list region) (x : xstep) : step :=
  match x with
  | XBase s => s
  | XRoot ri k ch o => SAcc ri (root_prefix k ++ ch) o
  | XGm addr n ch o =>
      match find_idx rs addr 0 with
      | None => SAcc (length rs) [] o
      | Some (i, r) => SAcc i (DSub (addr - r_start r) n :: ch) o
      end
  | XRegion ri o => SAcc ri [] o
  | XCopyRoot ri k ch rj doff dlen => SCopy ri (root_prefix k ++ ch) rj doff dlen
  | XGuard ri k ch =>
      let ds := root_prefix k ++ ch in
      match nth_error rs ri with
      | Some r => match derive_chain (root r) ds with
                  | Some a => SAcc ri ds (guard_read a)
                  | None => SAcc ri ds ORefLoad
                  end
      | None => SAcc ri ds ORefLoad
      end
  end.
