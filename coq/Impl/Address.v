(* src/address.rs: the Address trait's provided methods and impl_address_ops!
   (instantiated for GuestAddress and MemoryRegionAddress in src/guest_memory.rs:116-122,
   both over u64).  Every function is a line-by-line transcription. *)
From VM Require Import Prelude.MachInt Prelude.Outcome.

(* fn mask(&self, mask) -> V { self.raw_value() & mask } *)
Definition a_mask (a m : N) : N := N.land a m.
(* fn checked_offset_from(&self, base) { self.0.checked_sub(base.0) } *)
Definition a_checked_offset_from (a base : N) : option N := checked_sub a base.
(* fn unchecked_offset_from(&self, base) { self.raw_value() - base.raw_value() } *)
Definition a_unchecked_offset_from (m : mode) (a base : N) : outcome N := psub m 81 a base.
Definition a_checked_add (a b : N) : option N := checked_add a b.
Definition a_overflowing_add (a b : N) : N * bool := overflowing_add a b.
Definition a_unchecked_add (m : mode) (a b : N) : outcome N := padd m 192 a b.
Definition a_checked_sub (a b : N) : option N := checked_sub a b.
Definition a_overflowing_sub (a b : N) : N * bool := overflowing_sub a b.
Definition a_unchecked_sub (m : mode) (a b : N) : outcome N := psub m 205 a b.
Definition a_bitand (a b : N) : N := N.land a b.
Definition a_bitor (a b : N) : N := N.lor a b.

(* fn checked_align_up(&self, power_of_two) -> Option<Self> {
     let mask = power_of_two - Self::one();
     assert_ne!(power_of_two, Self::zero());
     assert_eq!(power_of_two & mask, Self::zero());
     self.checked_add(mask).map(|x| x & !mask) } *)
Definition a_checked_align_up (m : mode) (a p : N) : outcome (option N) :=
  let* mask := psub m 91 p 1 in
  let* _ := passert 92 (negb (p =? 0)) in
  let* _ := passert 93 (N.land p mask =? 0) in
  Val (match checked_add a mask with
       | Some x => Some (N.land x (not64 mask))
       | None => None end).
(* fn unchecked_align_up(&self, power_of_two) -> Self {
     let mask = power_of_two - Self::one();
     self.unchecked_add(mask) & !mask } *)
Definition a_unchecked_align_up (m : mode) (a p : N) : outcome N :=
  let* mask := psub m 104 p 1 in
  let* x := a_unchecked_add m a mask in
  Val (N.land x (not64 mask)).

(* #[derive(Eq, PartialEq, Ord, PartialOrd)] on a one-field tuple struct *)
Definition a_cmp (a b : N) : N := if a <? b then 0 else if a =? b then 1 else 2.
Definition a_eq (a b : N) : bool := a =? b.
