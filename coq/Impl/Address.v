(* src/address.rs: the Address trait's provided methods and impl_address_ops!
   (instantiated for GuestAddress and MemoryRegionAddress in src/guest_memory.rs:116-122,
   both over u64).  Every function is a line-by-line transcription. *)
From VM Require Import Prelude.MachInt Prelude.Outcome.

(* fn mask(&self, mask) -> V { self.raw_value() & mask } *)
Definition a_mask (a m : N) : N := N.land a m.
(* fn checked_offset_from(&self, base) { self.0.checked_sub(base.0) } *)
Definition a_checked_offset_from (a base : N) : option N := checked_sub a base.
(* fn unchecked_offset_from(&self, base) { self.raw_value() - base.raw_value() } *)
Definition a_unchecked_offset_from (m : mode) (a base : N) : outcome N := psub m 81 a base.
Definition a_checked_add (a b : N) : option N := checked_add a b.
Definition a_overflowing_add (a b : N) : N * bool := overflowing_add a b.
Definition a_unchecked_add (m : mode) (a b : N) : outcome N := padd m 192 a b.
Definition a_checked_sub (a b : N) : option N := checked_sub a b.
Definition a_overflowing_sub (a b : N) : N * bool := overflowing_sub a b.
Definition a_unchecked_sub (m : mode) (a b : N) : outcome N := psub m 205 a b.
Definition a_bitand (a b : N) : N := N.land a b.
Definition a_bitor (a b : N) : N := N.lor a b.

(* fn checked_align_up(&self, power_of_two) -> Option<Self> {
     let mask = power_of_two - Self::one();
     assert_ne!(power_of_two, Self::zero());
     assert_eq!(power_of_two & mask, Self::zero());
     self.checked_add(mask).map(|x| x & !mask) } *)
Definition a_checked_align_up (m : mode) (a p : N) : outcome (option N) :=
  let* mask := psub m 91 p 1 in
  let* _ := passert 92 (negb (p =? 0)) in
  let* _ := passert 93 (N.land p mask =? 0) in
  Val (match checked_add a mask with
       | Some x => Some (N.land x (not64 mask))
       | None => None end).
(* fn unchecked_align_up(&self, power_of_two) -> Self {
     let mask = power_of_two - Self::one();
     self.unchecked_add(mask) & !mask } *)
Definition a_unchecked_align_up (m : mode) (a p : N) : outcome N :=
  let* mask := psub m 104 p 1 in
  let* x := a_unchecked_add m a mask in
  Val (N.land x (not64 mask)).

(* #[derive(Eq, PartialEq, Ord, PartialOrd)] on a one-field tuple struct *)
Definition a_cmp (a b : N) : N := if a <? b then 0 else if a =? b then 1 else 2.
Definition a_eq (a b : N) : bool := a =? b.

(* ---- added (w4): the rest of the derived / provided comparison surface of the two newtypes.
   #[derive(PartialOrd)] on a one-field tuple struct: partial_cmp(&self, other) =
   PartialOrd::partial_cmp(&self.0, &other.0), which for u64 is Some(self.0.cmp(&other.0)).
   Ordering is coded 0 Less, 1 Equal, 2 Greater as in a_cmp. *)
Definition a_partial_cmp (a b : N) : option N := Some (a_cmp a b).
(* core::cmp::PartialOrd provided methods (the derive only writes partial_cmp):
     fn lt(&self, other) -> bool { matches!(self.partial_cmp(other), Some(Less)) }
     fn le(&self, other) -> bool { matches!(self.partial_cmp(other), Some(Less | Equal)) }
     fn gt(&self, other) -> bool { matches!(self.partial_cmp(other), Some(Greater)) }
     fn ge(&self, other) -> bool { matches!(self.partial_cmp(other), Some(Greater | Equal)) } *)
Definition a_lt (a b : N) : bool := match a_partial_cmp a b with Some 0 => true | _ => false end.
Definition a_le (a b : N) : bool := match a_partial_cmp a b with Some 0 | Some 1 => true | _ => false end.
Definition a_gt (a b : N) : bool := match a_partial_cmp a b with Some 2 => true | _ => false end.
Definition a_ge (a b : N) : bool := match a_partial_cmp a b with Some 1 | Some 2 => true | _ => false end.
(* core::cmp::PartialEq provided: fn ne(&self, other) -> bool { !self.eq(other) } *)
Definition a_ne (a b : N) : bool := negb (a_eq a b).
(* core::cmp::Ord provided methods (the derive only writes cmp):
     fn max(self, other) -> Self { max_by(self, other, Ord::cmp) }   = match cmp { Greater => self, _ => other }
     fn min(self, other) -> Self { min_by(self, other, Ord::cmp) }   = match cmp { Greater => other, _ => self }
     fn clamp(self, min, max) -> Self { assert!(min <= max);
         if self < min { min } else if self > max { max } else { self } } *)
Definition a_max (a b : N) : N := match a_cmp a b with 2 => a | _ => b end.
Definition a_min (a b : N) : N := match a_cmp a b with 2 => b | _ => a end.
Definition a_clamp (a lo hi : N) : outcome N :=
  let* _ := passert 1 (a_le lo hi) in
  Val (if a_lt a lo then lo else if a_gt a hi then hi else a).
