(* src/atomic.rs: GuestMemoryAtomic<M> as a step machine.

     struct GuestMemoryAtomic<M> { inner: Arc<(ArcSwap<M>, Mutex<()>)> }          atomic.rs:28-35
     fn load(&self)   -> Guard<Arc<M>>   { self.inner.0.load() }                    :55-57
     fn memory(&self) -> LoadGuard       { GuestMemoryLoadGuard { guard: self.load() } }   :82-84
     fn into_inner(self) -> Arc<M>       { Guard::into_inner(self.guard) }          :102-104
     fn clone(&self)                     { Guard::from_inner(Arc::clone(&*self.guard)) }   :107-113
     fn lock(&self)                      { self.inner.1.lock() -> ExclusiveGuard { parent, _guard } }  :64-75
     fn replace(self, map: M)            { self.parent.inner.0.store(Arc::new(map)) }  /* self (the
                                           MutexGuard) is dropped AFTER the store, at the closing brace */ :137-139

   Granularity: one step = one of the calls above (ArcSwap::load / store, Mutex lock / unlock, Arc
   clone / drop are atomic primitives of arc-swap / std and are trusted).  Maps are immutable values
   identified by an id (N); the ArcSwap cell holds an id; [rc] is the strong count of the Arc<M> of
   each map (an arc-swap Guard counts as one reference: either a real one or a debt that every
   store pays before it releases the old value); [freed] records that the drop glue of M ran.
   A handle is what a reader holds: a load guard or an Arc<M>; handle ids are never reused.
   Updater threads are identified by a number; [upd t] is the local state of thread t:
     UIdle -> (Lock) -> ULocked -> (ReadCur) -> UDerived base -> (Store) -> UStored -> (Unlock) -> UIdle
   where Store/Unlock are the two halves of `replace` in the order of the source. *)
From VM Require Import Prelude.MachInt.

Definition upd_fun {A} (f : N -> A) (k : N) (v : A) : N -> A := fun x => if x =? k then v else f x.

Fixpoint set_nth {A} (l : list A) (i : nat) (v : A) {struct l} : list A :=
  match l, i with
  | [], _ => []
  | _ :: r, O => v :: r
  | x :: r, S j => x :: set_nth r j v
  end.

Inductive hkind := KGuard | KArc.
Record handle := { h_kind : hkind; h_map : N }.
Inductive ustate := UIdle | ULocked | UDerived (base : N) | UStored.

Record state := {
  cell : N;                       (* id of the map the ArcSwap holds *)
  mutex : bool;                   (* Mutex<()>: true = locked *)
  rc : N -> nat;                  (* strong count of each map's Arc *)
  freed : N -> bool;              (* drop glue of the map ran (its regions were released) *)
  nmaps : N;                      (* ids 0 .. nmaps-1 have been created *)
  handles : list (option handle); (* reader handles; None = dropped *)
  upd : N -> ustate;              (* per-thread updater state *)
  gen : N -> N;                   (* generation tag of a map: base's + 1 *)
  log : list (N * N * option N);  (* stores, newest first: (old cell, new cell, derived from) *)
  bad : bool                      (* refcount underflow or use of a freed map: never (theorem) *)
}.

Definition init : state :=
  {| cell := 0; mutex := false; rc := upd_fun (fun _ => O) 0 1%nat; freed := fun _ => false; nmaps := 1;
     handles := []; upd := fun _ => UIdle; gen := fun _ => 0; log := []; bad := false |}.

Definition set_handles (s : state) (h : list (option handle)) : state :=
  {| cell := cell s; mutex := mutex s; rc := rc s; freed := freed s; nmaps := nmaps s; handles := h;
     upd := upd s; gen := gen s; log := log s; bad := bad s |}.
Definition set_rc (s : state) (r : N -> nat) : state :=
  {| cell := cell s; mutex := mutex s; rc := r; freed := freed s; nmaps := nmaps s; handles := handles s;
     upd := upd s; gen := gen s; log := log s; bad := bad s |}.
Definition set_freed (s : state) (f : N -> bool) : state :=
  {| cell := cell s; mutex := mutex s; rc := rc s; freed := f; nmaps := nmaps s; handles := handles s;
     upd := upd s; gen := gen s; log := log s; bad := bad s |}.
Definition set_bad (s : state) (b : bool) : state :=
  {| cell := cell s; mutex := mutex s; rc := rc s; freed := freed s; nmaps := nmaps s; handles := handles s;
     upd := upd s; gen := gen s; log := log s; bad := b |}.
Definition set_lock (s : state) (m : bool) (u : N -> ustate) : state :=
  {| cell := cell s; mutex := m; rc := rc s; freed := freed s; nmaps := nmaps s; handles := handles s;
     upd := u; gen := gen s; log := log s; bad := bad s |}.

(* Arc::clone: strong += 1 *)
Definition inc_rc (g : N) (s : state) : state := set_rc s (upd_fun (rc s) g (S (rc s g))).
(* drop of an Arc<M>: strong -= 1; at 0 the map itself is dropped *)
Definition dec_rc (g : N) (s : state) : state :=
  match rc s g with
  | O => set_bad s true
  | S O => set_freed (set_rc s (upd_fun (rc s) g O)) (upd_fun (freed s) g true)
  | S n => set_rc s (upd_fun (rc s) g n)
  end.

Definition get_handle (s : state) (i : nat) : option handle :=
  match nth_error (handles s) i with Some (Some h) => Some h | _ => None end.
Definition push_handle (h : handle) (s : state) : state := set_handles s (handles s ++ [Some h]).

Inductive step :=
  | Load (t : N) | CloneH (i : nat) | IntoInner (i : nat) | Use (i : nat) | DropH (i : nat)
  | Lock (t : N) | ReadCur (t : N) | Store (t : N) | Unlock (t : N).

(* [exec st s] = None when the step is not enabled in s; otherwise the next state and the value
   the step returns to its caller (the id of the map it sees / publishes) *)
Definition exec (st : step) (s : state) : option (state * N) :=
  match st with
  | Load _ =>                                                    (* :82-84, :55-57 *)
      let g := cell s in
      Some (push_handle {| h_kind := KGuard; h_map := g |} (inc_rc g s), g)
  | CloneH i =>                                                  (* :107-113 (guard), Arc::clone (arc) *)
      match get_handle s i with
      | Some h => Some (push_handle h (inc_rc (h_map h) s), h_map h)     (* clones the HELD Arc; no re-load *)
      | None => None end
  | IntoInner i =>                                               (* :102-104 *)
      match get_handle s i with
      | Some h => match h_kind h with
                  | KGuard => Some (set_handles s (set_nth (handles s) i (Some {| h_kind := KArc; h_map := h_map h |})), h_map h)
                  | KArc => None end
      | None => None end
  | Use i =>                                                     (* Deref :115-121 *)
      match get_handle s i with
      | Some h => Some (set_bad s (bad s || freed s (h_map h)), h_map h)
      | None => None end
  | DropH i =>
      match get_handle s i with
      | Some h => Some (dec_rc (h_map h) (set_handles s (set_nth (handles s) i None)), 0)
      | None => None end
  | Lock t =>                                                    (* :64-75; blocks while locked *)
      match mutex s, upd s t with
      | false, UIdle => Some (set_lock s true (upd_fun (upd s) t ULocked), 0)
      | _, _ => None end
  | ReadCur t =>                                                 (* the updater's own memory() under the lock *)
      match upd s t with
      | ULocked | UDerived _ => Some (set_lock s (mutex s) (upd_fun (upd s) t (UDerived (cell s))), cell s)
      | _ => None end
  | Store t =>                                                   (* :138  store(Arc::new(map)) *)
      let go (p : option N) :=
        let old := cell s in
        let new := nmaps s in
        let s1 := {| cell := new; mutex := mutex s; rc := upd_fun (rc s) new 1%nat; freed := freed s;
                     nmaps := new + 1; handles := handles s; upd := upd_fun (upd s) t UStored;
                     gen := upd_fun (gen s) new (match p with Some b => gen s b + 1 | None => 0 end);
                     log := (old, new, p) :: log s; bad := bad s |} in
        Some (dec_rc old s1, new) in                             (* store drops the previous Arc *)
      match upd s t with
      | ULocked => go None
      | UDerived b => go (Some b)
      | _ => None end
  | Unlock t =>                                                  (* :139 (end of replace) or drop of the guard *)
      match upd s t with
      | UIdle => None
      | _ => Some (set_lock s false (upd_fun (upd s) t UIdle), 0) end
  end.

Definition step_or_skip (st : step) (s : state) : state :=
  match exec st s with Some (s', _) => s' | None => s end.
Fixpoint run_from (l : list step) (s : state) {struct l} : state :=
  match l with [] => s | st :: r => run_from r (step_or_skip st s) end.
Definition run (l : list step) : state := run_from l init.

(* ---- readings used in the theorem statements (not part of the machine) *)
(* number of live handles that denote map g *)
Fixpoint refs (g : N) (hs : list (option handle)) {struct hs} : nat :=
  match hs with
  | [] => O
  | Some h :: t => ((if N.eqb g (h_map h) then 1 else 0) + refs g t)%nat
  | None :: t => refs g t
  end.

(* the log is a chain ending in the current map: every store replaced the map stored just before
   it, and a store derived from a map (ReadCur) was derived from exactly the map it replaced *)
Fixpoint chain (l : list (N * N * option N)) (c : N) {struct l} : Prop :=
  match l with
  | [] => c = 0
  | (o, n, p) :: t => c = n /\ (forall b, p = Some b -> b = o) /\ chain t o
  end.

Fixpoint all_derived (l : list (N * N * option N)) {struct l} : bool :=
  match l with [] => true | (_, _, Some _) :: t => all_derived t | (_, _, None) :: _ => false end.
Definition is_store (st : step) : bool := match st with Store _ => true | _ => false end.
