(* src/volatile_memory.rs (accessor GEOMETRY only: host address, byte length, element size /
   count - no byte contents), plus the accessor-producing entry points of src/bytes.rs
   (ByteValued::from_slice), src/mmap/unix.rs, src/mmap/xen.rs (MmapRegion::get_slice),
   src/mmap/mod.rs (GuestRegionMmap::{get_slice,get_host_address}) and src/guest_memory.rs
   (GuestMemoryRegion::{check_address,to_region_addr,as_volatile_slice},
   GuestMemory::{to_region_addr,get_slice,get_host_address} GIVEN the result of find_region).

   Every function is a line-by-line transcription; the numbers in comments are source lines of
   /repo/src/volatile_memory.rs unless another file is named.  usize/u64/pointers are N with
   explicit wrap; Rust `+ - *` are padd/psub/pmul (panic in Debug, wrap in Release); assert!,
   unwrap are explicit Panic branches.

   Used by C01 (containment/alignment), and imported by C04 C05 C17 C18 C07: the names
   vslice/vref/varr/tref/region/gregion/accessor, vs_* vr_* va_* vm_* mr_* gr_* gm_* , derive,
   acc_base/acc_len/inside are meant to stay stable; characterising lemmas are in
   Proofs/C01.v (section "characterisations"). *)
From VM Require Import Prelude.MachInt Prelude.Outcome.

(* ------------------------------------------------------------------ results and errors *)
Inductive result (A E : Type) := Ok (a : A) | Err (e : E).
Arguments Ok {A E}. Arguments Err {A E}.

(* volatile_memory::Error :54-73 (IOError / PartialBuffer are never produced by geometry code) *)
Inductive verr :=
| EOutOfBounds (addr : N)
| EOverflow (base offset : N)
| ETooBig (nelements size : N)
| EMisaligned (addr alignment : N).
Definition vresult (A : Type) := result A verr.

(* guest_memory::Error, guest_memory.rs:57-84, the variants the accessor paths can produce *)
Inductive gerr :=
| GInvalidGuestAddress (addr : N)
| GInvalidBackendAddress
| GHostAddressNotAvailable.
Definition gresult (A : Type) := result A gerr.
(* impl From<volatile_memory::Error> for guest_memory::Error, guest_memory.rs:86-103 *)
Definition gerr_of_verr (e : verr) : gerr :=
  match e with
  | EOutOfBounds _ => GInvalidBackendAddress
  | EOverflow _ _ => GInvalidBackendAddress
  | ETooBig _ _ => GInvalidBackendAddress
  | EMisaligned _ _ => GInvalidBackendAddress
  end.

(* ------------------------------------------------------------------ element types *)
(* what the code uses of a type parameter T: size_of::<T>() and align_of::<T>() *)
Record ety := { e_size : N; e_align : N }.

(* ------------------------------------------------------------------ accessor records *)
(* VolatileSlice{addr,size} :393-398 (bitmap, mmap: not geometry) *)
Record vslice := VS { vs_addr : N; vs_size : N }.
(* VolatileRef<T>{addr} :874-878, with size_of::<T>() made explicit *)
Record vref := VR { vr_addr : N; vr_esz : N }.
(* VolatileArrayRef<T>{addr,nelem} :1003-1009, with size_of::<T>() made explicit *)
Record varr := VA { va_addr : N; va_nelem : N; va_esz : N }.
(* &T / &mut T / &AtomicX handed out by aligned_as_ref / aligned_as_mut / get_atomic_ref /
   ByteValued::from_slice: address, size_of::<T>(), align_of::<T>() *)
Record tref := TR { tr_addr : N; tr_size : N; tr_align : N }.
(* PtrGuard{addr,len} :319-327 (non-Xen: addr is the accessor's own address) *)
Record guard := PG { pg_addr : N; pg_len : N }.
(* MmapRegion{addr,size} mmap/unix.rs (addr) / mmap/xen.rs (mmap.addr()) *)
Record region := RG { rg_addr : N; rg_size : N }.
(* GuestRegionMmap{mapping,guest_base} mmap/mod.rs:109-112 *)
Record gregion := GR { gr_map : region; gr_base : N }.

(* ------------------------------------------------------------------ pointer arithmetic *)
(* `ptr.add(n)` on *mut u8.  The language requires that the address computation does not
   overflow and that n fits an isize (undefined behaviour otherwise); the toolchain of this image
   (rustc 1.95) inserts no run-time check for `add`, neither with nor without debug assertions
   (probed: `(2^64-16 as *mut u8).add(32)` yields 16 in both profiles), so what the code does is
   the wrapped sum.  [ptr_add_defined] names the language precondition; Proofs/C01.v shows it
   holds on every path from a valid parent. *)
Definition ptr_add (a n : N) : N := (a + n) mod W64.
Definition ptr_add_defined (a n : N) : Prop := n <= ISZ_MAX /\ a + n < W64.
(* `ptr.offset(n as isize)`: n is the usize that was cast (values above isize::MAX are negative
   offsets).  For `offset` the same toolchain DOES check, in builds with debug assertions, that
   address + signed offset stays in [0, 2^64) (probed: `(2 as *mut u8).offset(-3)` and
   `((2^64-16) as *mut u8).offset(16)` abort with "unsafe precondition(s) violated"; it is a
   non-unwinding panic, i.e. the process dies); without debug assertions the result is the
   wrapped sum.  Site 9001 marks that abort. *)
Definition UB_ABORT_SITE : N := 9001.
Definition ptr_offset_isize (m : mode) (a n : N) : outcome N :=
  let in_range := if n <=? ISZ_MAX then a + n <? W64 else W64 <=? a + n in
  if in_range then Val ((a + n) mod W64)
  else match m with Debug => Panic UB_ABORT_SITE | Release => Val ((a + n) mod W64) end.
(* `ptr.wrapping_offset(n as isize)`: two's complement sum, never UB *)
Definition ptr_wrapping_offset (a n : N) : N := (a + n) mod W64.

(* ------------------------------------------------------------------ free functions *)
(* pub fn compute_offset(base, offset) :93-98 *)
Definition compute_offset (base offset : N) : vresult N :=
  match checked_add base offset with
  | None => Err (EOverflow base offset)
  | Some m => Ok m
  end.

(* fn compute_end_offset(&self, base, offset) :291-297 ; `len` is self.len() *)
Definition compute_end_offset (len base offset : N) : vresult N :=
  match compute_offset base offset with
  | Err e => Err e                                           (* `?` :292 *)
  | Ok mem_end =>
      if len <? mem_end                                      (* mem_end > self.len() :293 *)
      then Err (EOutOfBounds mem_end)
      else Ok mem_end
  end.

(* ------------------------------------------------------------------ VolatileSlice *)
(* pub fn len(&self) :449 *)
Definition vs_len (s : vslice) : N := vs_size s.
(* ptr_guard / ptr_guard_mut :439-446 *)
Definition vs_ptr_guard (s : vslice) : guard := PG (vs_addr s) (vs_len s).

(* pub fn offset(&self, count) :514-535 *)
Definition vs_offset (m : mode) (s : vslice) (count : N) : outcome (vresult vslice) :=
  match checked_add (vs_addr s) count with                   (* :515-520 *)
  | None => Val (Err (EOverflow (vs_addr s) count))
  | Some new_addr =>
      match checked_sub (vs_size s) count with               (* :521-524 *)
      | None => Val (Err (EOutOfBounds new_addr))
      | Some new_size =>
          let p := ptr_add (vs_addr s) count in              (* self.addr.add(count) :529 *)
          Val (Ok (VS p new_size))
      end
  end.

(* pub fn subslice(&self, offset, count) :494-507 *)
Definition vs_subslice (m : mode) (s : vslice) (offset count : N) : outcome (vresult vslice) :=
  match compute_end_offset (vs_len s) offset count with      (* :495 *)
  | Err e => Val (Err e)
  | Ok _ =>
      let p := ptr_add (vs_addr s) offset in                 (* self.addr.add(offset) :501 *)
      Val (Ok (VS p count))
  end.

(* pub fn split_at(&self, mid) :480-487 *)
Definition vs_split_at (m : mode) (s : vslice) (mid : N) : outcome (vresult (vslice * vslice)) :=
  let* r := vs_offset m s mid in                             (* :481 *)
  match r with
  | Err e => Val (Err e)
  | Ok e => Val (Ok (VS (vs_addr s) mid, e))                 (* :482-486 *)
  end.

(* fn check_alignment(&self, alignment) :668-678 *)
Definition vs_check_alignment (m : mode) (s : vslice) (alignment : N) : outcome (vresult unit) :=
  let* _ := match m with                                      (* debug_assert! :670 *)
            | Debug => let* am1 := psub m 670 alignment 1 in
                       passert 670 (N.land alignment am1 =? 0)
            | Release => Val tt end in
  let* am1 := psub m 671 alignment 1 in                       (* alignment - 1 :671 *)
  if negb (N.land (vs_addr s) am1 =? 0)
  then Val (Err (EMisaligned (vs_addr s) alignment))
  else Val (Ok tt).

(* impl VolatileMemory for VolatileSlice: get_slice = subslice :853-855 *)
Definition vs_get_slice (m : mode) (s : vslice) (offset count : N) : outcome (vresult vslice) :=
  vs_subslice m s offset count.

(* impl From<VolatileSlice> for VolatileArrayRef<u8> :1302-1308 *)
Definition vs_into_array_u8 (s : vslice) : varr := VA (vs_addr s) (vs_len s) 1.

(* ------------------------------------------------------------------ trait VolatileMemory,
   provided methods :109-277.  `gs` is the implementor's get_slice, `len` its len(). *)
Definition get_slice_fn := N -> N -> outcome (vresult vslice).

(* fn as_volatile_slice(&self) :122-124 : self.get_slice(0, self.len()).unwrap() *)
Definition vm_as_volatile_slice (gs : get_slice_fn) (len : N) : outcome vslice :=
  let* r := gs 0 len in
  match r with Ok s => Val s | Err _ => Panic 123 end.

(* fn get_ref<T>(&self, offset) :127-148 *)
Definition vm_get_ref (gs : get_slice_fn) (T : ety) (offset : N) : outcome (vresult vref) :=
  let* r := gs offset (e_size T) in                           (* :128 *)
  match r with
  | Err e => Val (Err e)
  | Ok slice =>
      let* _ := passert 130 (vs_len slice =? e_size T) in     (* assert_eq! :130-134 *)
      Val (Ok (VR (vs_addr slice) (e_size T)))
  end.

(* isize::checked_mul on two non-negative operands *)
Definition checked_mul_isize (a b : N) : option N := if a * b <=? ISZ_MAX then Some (a * b) else None.

(* fn get_array_ref<T>(&self, offset, n) :152-186 *)
Definition vm_get_array_ref (gs : get_slice_fn) (T : ety) (offset n : N) : outcome (vresult varr) :=
  match (if n <=? ISZ_MAX                                     (* isize::try_from(n).ok() :158 *)
         then checked_mul_isize n (e_size T)                  (* .and_then(checked_mul) :160 *)
         else None) with
  | None => Val (Err (ETooBig n (e_size T)))                  (* :161-164 *)
  | Some nbytes =>
      let* r := gs offset nbytes in                           (* :165 *)
      match r with
      | Err e => Val (Err e)
      | Ok slice =>
          let* _ := passert 167 (vs_len slice =? nbytes) in   (* :167-171 *)
          Val (Ok (VA (vs_addr slice) n (e_size T)))
      end
  end.

(* unsafe fn aligned_as_ref<T>(&self, offset) :198-216, aligned_as_mut :231-250 and
   fn get_atomic_ref<T: AtomicInteger>(&self, offset) :260-277 have the same body *)
Definition vm_aligned_body (site : N) (m : mode) (gs : get_slice_fn) (T : ety) (offset : N)
  : outcome (vresult tref) :=
  let* r := gs offset (e_size T) in                           (* :199 / :232 / :261 *)
  match r with
  | Err e => Val (Err e)
  | Ok slice =>
      let* a := vs_check_alignment m slice (e_align T) in     (* :200 / :233 / :262 *)
      match a with
      | Err e => Val (Err e)
      | Ok _ =>
          let* _ := passert site (vs_len slice =? e_size T) in
          Val (Ok (TR (vs_addr slice) (e_size T) (e_align T)))
      end
  end.
Definition vm_aligned_as_ref := vm_aligned_body 202.
Definition vm_aligned_as_mut := vm_aligned_body 235.
Definition vm_get_atomic_ref := vm_aligned_body 264.

(* A type parameter `T: AtomicInteger` of get_atomic_ref comes with its value type `T::V`; the two
   need not have the same alignment (a third-party atomic of 8 bytes whose value type is [u32; 2];
   AtomicU64 / u64 on 32-bit x86).  at_align is align_of::<T>(), at_valign is align_of::<T::V>(). *)
Record atomic_ty := { at_size : N; at_align : N; at_valign : N }.
(* what get_atomic_ref uses of T: `self.get_slice(offset, size_of::<T>())` :261 and
   `slice.check_alignment(align_of::<T>())` :262 - the alignment of the ATOMIC type T itself, not
   align_of::<T::V>() (at_valign is not read anywhere in the method) *)
Definition atomic_ety (T : atomic_ty) : ety := {| e_size := at_size T; e_align := at_align T |}.
Definition vm_get_atomic_ref_of (m : mode) (gs : get_slice_fn) (T : atomic_ty) (offset : N)
  : outcome (vresult tref) := vm_get_atomic_ref m gs (atomic_ety T) offset.

(* ------------------------------------------------------------------ VolatileRef *)
(* pub fn len(&self) :941 *)
Definition vr_len (r : vref) : N := vr_esz r.
(* ptr_guard / ptr_guard_mut :921-928 *)
Definition vr_ptr_guard (r : vref) : guard := PG (vr_addr r) (vr_len r).
(* pub fn to_slice(&self) :974-984 *)
Definition vr_to_slice (r : vref) : vslice := VS (vr_addr r) (vr_esz r).

(* ------------------------------------------------------------------ VolatileArrayRef *)
(* pub fn len(&self) :1082, element_size :1097 *)
Definition va_len (a : varr) : N := va_nelem a.
Definition va_element_size (a : varr) : N := va_esz a.
(* ptr_guard / ptr_guard_mut :1102-1109 : self.len() * self.element_size() *)
Definition va_ptr_guard (m : mode) (a : varr) : outcome guard :=
  let* l := pmul m 1103 (va_len a) (va_element_size a) in
  Val (PG (va_addr a) l).
(* pub fn to_slice(&self) :1117-1127 : self.nelem * self.element_size() *)
Definition va_to_slice (m : mode) (a : varr) : outcome vslice :=
  let* l := pmul m 1122 (va_nelem a) (va_element_size a) in
  Val (VS (va_addr a) l).
(* pub fn ref_at(&self, index) :1134-1144 *)
Definition va_ref_at (m : mode) (a : varr) (index : N) : outcome vref :=
  let* _ := passert 1135 (index <? va_nelem a) in             (* assert!(index < self.nelem) *)
  let* byteofs := pmul m 1140 (va_element_size a) index in    (* (element_size * index) as isize *)
  let* p := ptr_offset_isize m (va_addr a) byteofs in         (* self.addr.offset(byteofs) :1141 *)
  Val (VR p (va_esz a)).

(* ------------------------------------------------------------------ ByteValued, bytes.rs *)
(* std: <*const u8>::align_offset(align) for a byte pointer *)
Definition align_offset (addr al : N) : N := (al - addr mod al) mod al.
(* std: <[u8]>::align_to::<T>() -> (prefix.len(), middle.len(), suffix.len()) *)
Definition align_to (addr len sz al : N) : N * N * N :=
  if sz =? 0 then (len, 0, 0)                                 (* zero-sized T: (self, [], []) *)
  else let off := align_offset addr al in
       if len <? off then (len, 0, 0)
       else let rest := len - off in (off, rest / sz, rest mod sz).
(* fn from_slice(data: &[u8]) -> Option<&Self> bytes.rs:44-61, from_mut_slice :70-87 (same) *)
Definition bv_from_slice (T : ety) (data_addr data_len : N) : option tref :=
  if negb (data_len =? e_size T) then None                    (* bytes.rs:46 / :72 *)
  else match align_to data_addr data_len (e_size T) (e_align T) with
       | (0, 1, 0) => Some (TR data_addr (e_size T) (e_align T))   (* ([], [mid], []) :58 / :84 *)
       | _ => None
       end.
Definition bv_from_mut_slice := bv_from_slice.

(* ------------------------------------------------------------------ MmapRegion *)
(* impl VolatileMemory for MmapRegion: len mmap/unix.rs:398, get_slice mmap/unix.rs:402-421 *)
Definition mr_len (r : region) : N := rg_size r.
Definition mr_get_slice_unix (m : mode) (r : region) (offset count : N) : outcome (vresult vslice) :=
  match compute_end_offset (mr_len r) offset count with      (* unix.rs:407 *)
  | Err e => Val (Err e)
  | Ok _ =>
      let p := ptr_add (rg_addr r) offset in                 (* self.addr.add(offset) unix.rs:414 *)
      Val (Ok (VS p count))
  end.
(* mmap/xen.rs:365-392 (the MmapInfo passed along is not geometry) *)
Definition mr_get_slice_xen (m : mode) (r : region) (offset count : N) : outcome (vresult vslice) :=
  match compute_end_offset (mr_len r) offset count with      (* xen.rs:370 *)
  | Err e => Val (Err e)
  | Ok _ =>
      let p := ptr_add (rg_addr r) offset in                 (* self.as_ptr().add(offset) xen.rs:384 *)
      Val (Ok (VS p count))
  end.
Definition mr_get_slice := mr_get_slice_unix.

(* ------------------------------------------------------------------ GuestRegionMmap *)
(* fn len(&self) mmap/mod.rs:322 *)
Definition gr_len (g : gregion) : N := rg_size (gr_map g).
(* GuestMemoryRegion::address_in_range / check_address guest_memory.rs:183-195 *)
Definition gr_address_in_range (g : gregion) (addr : N) : bool := addr <? gr_len g.
Definition gr_check_address (g : gregion) (addr : N) : option N :=
  if gr_address_in_range g addr then Some addr else None.
(* to_region_addr guest_memory.rs:209-212 *)
Definition gr_to_region_addr (g : gregion) (addr : N) : option N :=
  match checked_sub addr (gr_base g) with                    (* checked_offset_from *)
  | None => None
  | Some offset => gr_check_address g offset
  end.
(* fn get_host_address(&self, addr) mmap/mod.rs:334-344 *)
Definition gr_get_host_address (g : gregion) (addr : N) : gresult N :=
  match gr_check_address g addr with
  | None => Err GInvalidBackendAddress
  | Some a => Ok (ptr_wrapping_offset (rg_addr (gr_map g)) a)
  end.
(* fn get_slice(&self, offset, count) mmap/mod.rs:350-357 *)
Definition gr_get_slice (m : mode) (g : gregion) (offset count : N) : outcome (gresult vslice) :=
  let* r := mr_get_slice m (gr_map g) offset count in
  match r with
  | Err e => Val (Err (gerr_of_verr e))                       (* `?` with From :355 *)
  | Ok s => Val (Ok s)
  end.
(* GuestMemoryRegion::as_volatile_slice guest_memory.rs:268-270 *)
Definition gr_as_volatile_slice (m : mode) (g : gregion) : outcome (gresult vslice) :=
  gr_get_slice m g 0 (gr_len g).

(* ------------------------------------------------------------------ GuestMemory (given the region) *)
(* `fr` is what self.find_region(addr) returned (find_region itself: Impl/Mmap.v, C02).
   to_region_addr guest_memory.rs:466-469 : .map(|r| (r, r.to_region_addr(addr).unwrap())) *)
Definition gm_to_region_addr (fr : option gregion) (addr : N) : outcome (option (gregion * N)) :=
  match fr with
  | None => Val None
  | Some r => match gr_to_region_addr r addr with
              | Some a => Val (Some (r, a))
              | None => Panic 468
              end
  end.
(* fn get_host_address(&self, addr) guest_memory.rs:575-579 *)
Definition gm_get_host_address (fr : option gregion) (addr : N) : outcome (gresult N) :=
  let* x := gm_to_region_addr fr addr in
  match x with
  | None => Val (Err (GInvalidGuestAddress addr))
  | Some (r, a) => Val (gr_get_host_address r a)
  end.
(* fn get_slice(&self, addr, count) guest_memory.rs:583-587 *)
Definition gm_get_slice (m : mode) (fr : option gregion) (addr count : N) : outcome (gresult vslice) :=
  let* x := gm_to_region_addr fr addr in
  match x with
  | None => Val (Err (GInvalidGuestAddress addr))
  | Some (r, a) => gr_get_slice m r a count
  end.

(* ------------------------------------------------------------------ one derivation step *)
Inductive accessor :=
| ASlice (s : vslice)        (* VolatileSlice *)
| ARef (r : vref)            (* VolatileRef<T> *)
| AArr (a : varr)            (* VolatileArrayRef<T> *)
| ATyped (t : tref)          (* &T / &mut T *)
| AAtomic (t : tref)         (* &AtomicX *)
| AHost (p : N)              (* *mut u8 from get_host_address: designates the byte at p *)
| ARegion (r : region)       (* MmapRegion *)
| AGRegion (g : gregion).    (* GuestRegionMmap *)

Inductive dop :=
(* trait VolatileMemory (on a slice or a region) *)
| DGetSlice (offset count : N)
| DAsVolatileSlice
| DGetRef (T : ety) (offset : N)
| DGetArrayRef (T : ety) (offset n : N)
| DAlignedAsRef (T : ety) (offset : N)
| DAlignedAsMut (T : ety) (offset : N)
| DGetAtomicRef (T : ety) (offset : N)
(* VolatileSlice *)
| DOffset (count : N)
| DSubslice (offset count : N)
| DSplitAtLo (mid : N)
| DSplitAtHi (mid : N)
| DIntoArrayU8
| DFromSlice (T : ety) (offset count : N)   (* T::from_slice(&bytes[offset..offset+count]) *)
(* VolatileRef *)
| DRefToSlice
(* VolatileArrayRef *)
| DRefAt (index : N)
| DArrToSlice
(* GuestRegionMmap *)
| DGrGetSlice (offset count : N)
| DGrGetHostAddress (addr : N)
| DGrAsVolatileSlice.

Inductive derr :=
| DV (e : verr)             (* volatile_memory::Error *)
| DG (e : gerr)             (* guest_memory::Error *)
| DNone                     (* Option::None (from_slice) *)
| DNotApplicable.           (* the accessor has no such method *)
Definition dresult := result accessor derr.

Definition lift_v {A} (f : A -> accessor) (x : outcome (vresult A)) : outcome dresult :=
  let* r := x in match r with Ok a => Val (Ok (f a)) | Err e => Val (Err (DV e)) end.
Definition lift_g {A} (f : A -> accessor) (x : outcome (gresult A)) : outcome dresult :=
  let* r := x in match r with Ok a => Val (Ok (f a)) | Err e => Val (Err (DG e)) end.

(* the VolatileMemory methods, for an implementor given by (gs, len) *)
Definition derive_vm (m : mode) (gs : get_slice_fn) (len : N) (op : dop) : outcome dresult :=
  match op with
  | DGetSlice off cnt => lift_v ASlice (gs off cnt)
  | DAsVolatileSlice => let* s := vm_as_volatile_slice gs len in Val (Ok (ASlice s))
  | DGetRef T off => lift_v ARef (vm_get_ref gs T off)
  | DGetArrayRef T off n => lift_v AArr (vm_get_array_ref gs T off n)
  | DAlignedAsRef T off => lift_v ATyped (vm_aligned_as_ref m gs T off)
  | DAlignedAsMut T off => lift_v ATyped (vm_aligned_as_mut m gs T off)
  | DGetAtomicRef T off => lift_v AAtomic (vm_get_atomic_ref m gs T off)
  | _ => Val (Err DNotApplicable)
  end.

Definition derive (m : mode) (p : accessor) (op : dop) : outcome dresult :=
  match p with
  | ASlice s =>
      match op with
      | DOffset cnt => lift_v ASlice (vs_offset m s cnt)
      | DSubslice off cnt => lift_v ASlice (vs_subslice m s off cnt)
      | DSplitAtLo mid => lift_v (fun x => ASlice (fst x)) (vs_split_at m s mid)
      | DSplitAtHi mid => lift_v (fun x => ASlice (snd x)) (vs_split_at m s mid)
      | DIntoArrayU8 => Val (Ok (AArr (vs_into_array_u8 s)))
      | DFromSlice T off cnt =>
          (* the caller builds &bytes[off..off+cnt] of the slice's memory itself; only meaningful
             when that range lies in the slice (and a &[u8] is never longer than isize::MAX) *)
          if (off + cnt <=? vs_size s) && (cnt <=? ISZ_MAX) then
            match bv_from_slice T (vs_addr s + off) cnt with
            | Some t => Val (Ok (ATyped t))
            | None => Val (Err DNone)
            end
          else Val (Err DNotApplicable)
      | _ => derive_vm m (vs_get_slice m s) (vs_len s) op
      end
  | ARegion r => derive_vm m (mr_get_slice m r) (mr_len r) op
  | ARef r =>
      match op with
      | DRefToSlice => Val (Ok (ASlice (vr_to_slice r)))
      | _ => Val (Err DNotApplicable)
      end
  | AArr a =>
      match op with
      | DRefAt i => let* r := va_ref_at m a i in Val (Ok (ARef r))
      | DArrToSlice => let* s := va_to_slice m a in Val (Ok (ASlice s))
      | _ => Val (Err DNotApplicable)
      end
  | AGRegion g =>
      match op with
      | DGrGetSlice off cnt => lift_g ASlice (gr_get_slice m g off cnt)
      | DGrGetHostAddress a =>
          match gr_get_host_address g a with
          | Ok p => Val (Ok (AHost p)) | Err e => Val (Err (DG e)) end
      | DGrAsVolatileSlice => lift_g ASlice (gr_as_volatile_slice m g)
      | _ => Val (Err DNotApplicable)
      end
  | ATyped _ | AAtomic _ | AHost _ => Val (Err DNotApplicable)
  end.

(* the pointer guard of an accessor (the three guarded kinds); None: the kind has no guard *)
Definition acc_guard (m : mode) (a : accessor) : outcome (option guard) :=
  match a with
  | ASlice s => Val (Some (vs_ptr_guard s))
  | ARef r => Val (Some (vr_ptr_guard r))
  | AArr x => let* g := va_ptr_guard m x in Val (Some g)
  | _ => Val None
  end.

(* ------------------------------------------------------------------ extents (exact, in N) *)
Definition acc_base (a : accessor) : N :=
  match a with
  | ASlice s => vs_addr s | ARef r => vr_addr r | AArr x => va_addr x
  | ATyped t | AAtomic t => tr_addr t | AHost p => p
  | ARegion r => rg_addr r | AGRegion g => rg_addr (gr_map g)
  end.
(* number of bytes the accessor designates, in unbounded arithmetic *)
Definition acc_len (a : accessor) : N :=
  match a with
  | ASlice s => vs_size s | ARef r => vr_esz r | AArr x => va_nelem x * va_esz x
  | ATyped t | AAtomic t => tr_size t | AHost _ => 1
  | ARegion r => rg_size r | AGRegion g => rg_size (gr_map g)
  end.
(* c designates only bytes of p *)
Definition inside (p c : accessor) : Prop :=
  acc_base p <= acc_base c /\ acc_base c + acc_len c <= acc_base p + acc_len p.
(* the accessor is an address range of the 64-bit host address space *)
Definition acc_ok (a : accessor) : Prop := acc_base a + acc_len a <= W64.

(* chains of derivations: stop at the first error / panic *)
Fixpoint derive_chain (m : mode) (p : accessor) (ops : list dop) {struct ops} : outcome dresult :=
  match ops with
  | [] => Val (Ok p)
  | op :: rest =>
      let* r := derive m p op in
      match r with
      | Ok c => derive_chain m c rest
      | Err e => Val (Err e)
      end
  end.
